(* Model/NetText.v — network notations: netaddr/ip/__init__.py `parse_ip_network`, `IPNetwork.__init__`,
   `IPNetwork.__str__`, `cidr_abbrev_to_verbose` (with its inner `classful_prefix`), and
   netaddr/strategy/ipv4.py `expand_partial_address`, as written after the fix commits
     F-C03-1 (the two copy-constructor branches apply the NOHOST mask),
     F-C03-2 (`classful_prefix(tokens[0])` in the multi-octet path: `except (ValueError, IndexError)`),
     F-C03-3 (`IPAddress(val2, ...)` of the mask branch: `except ValueError: raise AddrFormatError`).
   The pre-fix fragments are kept in History/C03_refuted.v.

   Address text goes through the C01 layer (Model/AddrText.v): `init_str be s (Some ver) INET_PTON` is
   `IPAddress(s, module.version, flags=INET_PTON)`; `int_to_str be ver v None` is `module.int_to_str(v)`.
   Python's `int(s)` is `py_int 10 s` (None = ValueError), `'%d' % n` and `'%s' % n` for an int n are `fmt_d n`.

   ===== INTERFACE ==============================================================================================
     NOHOST                                   flag bit 4 (netaddr/core.py)
     narg                                     the `addr` argument of IPNetwork(): tuple of ints | str | IPNetwork object |
                                              IPAddress object | anything else (int, None, list, bytes, float ...)
     classful_prefix_int / classful_prefix_str    the inner function on an int / on a str argument
     cidr_abbrev_to_verbose s : outcome string    for a `str` argument
     expand_partial_address s : outcome string    for a `str` argument
     parse_ip_network be ver addr implicit_prefix flags : outcome (Z * Z)     (value, prefixlen); ver in {4, 6}
     net_init be addr implicit_prefix version flags : outcome net              IPNetwork(addr, implicit_prefix, version, flags)
     net_str be n : outcome string                                              str(IPNetwork)
   ============================================================================================================== *)
From Coq Require Import ZArith List Bool String Ascii.
From NV Require Import Base.PyStr Base.PyVal Model.IpText Model.FbSocket Model.AddrText Model.Ip.
Import ListNotations.
Open Scope string_scope.
Open Scope list_scope.
Open Scope Z_scope.

Definition NOHOST : Z := 4.

Inductive narg :=
| ATuple (t : list Z)        (* a tuple of ints *)
| AStr (s : string)
| ANet (n : net)             (* an IPNetwork object: hasattr(addr, '_prefixlen') *)
| AAddr (ver v : Z)          (* an IPAddress object: hasattr(addr, '_value') *)
| AOther.                    (* int, None, list, bytes, float, ... *)

Definition len {A} (l : list A) : Z := Z.of_nat (List.length l).

(* ================================================================ cidr_abbrev_to_verbose (ip/__init__.py) *)
(* classful_prefix(octet) after `octet = int(octet)` *)
Definition classful_prefix_int (octet : Z) : outcome Z :=
  if negb ((0 <=? octet) && (octet <=? 255)) then Raise IndexError      (* 'Invalid octet: %r!' *)
  else if (0 <=? octet) && (octet <=? 127) then Ok 8                     (* Legacy class 'A' *)
  else if (128 <=? octet) && (octet <=? 191) then Ok 16                  (* Legacy class 'B' *)
  else if (192 <=? octet) && (octet <=? 223) then Ok 24                  (* Legacy class 'C' *)
  else if (224 <=? octet) && (octet <=? 239) then Ok 4                   (* Multicast *)
  else Ok 32.

(* classful_prefix(octet) for a str: int(octet) raises ValueError *)
Definition classful_prefix_str (octet : string) : outcome Z :=
  match py_int 10 octet with
  | None => Raise ValueError
  | Some i => classful_prefix_int i
  end.

(* for i in range(4 - len(tokens)): tokens.append('0') *)
Definition pad_tokens (tokens : list string) : list string :=
  tokens ++ repeat "0" (4 - List.length tokens).

Definition cidr_abbrev_to_verbose (abbrev_cidr : string) : outcome string :=
  if contains_char ":" abbrev_cidr || String.eqb abbrev_cidr "" then Ok abbrev_cidr
  else
    match py_int 10 abbrev_cidr with
    | Some i =>                                             (* try: i = int(abbrev_cidr) *)
        match classful_prefix_int i with
        | Ok p => Ok (fmt_d i ++ ".0.0.0/" ++ fmt_d p)%string      (* "%s.0.0.0/%s" % (i, classful_prefix(i)) *)
        | Raise IndexError => Ok abbrev_cidr                (* except (TypeError, IndexError): return abbrev_cidr *)
        | Raise TypeError => Ok abbrev_cidr
        | Raise e => Raise e
        end
    | None =>                                               (* except ValueError: *)
        (* Some (part_addr, prefix) or None = "return abbrev_cidr" *)
        do pp <- (if contains_char "/" abbrev_cidr then
                    match split1 "/" abbrev_cidr with
                    | [part_addr; prefix] =>
                        match py_int 10 prefix with           (* try: if not 0 <= int(prefix) <= 32: raise ValueError *)
                        | Some n => if (0 <=? n) && (n <=? 32) then Ok (Some (part_addr, Some prefix))
                                    else Ok None              (* except ValueError: return abbrev_cidr *)
                        | None => Ok None
                        end
                    | _ => Raise ValueError                   (* tuple unpacking; unreachable when '/' in s *)
                    end
                  else Ok (Some (abbrev_cidr, None)));
        match pp with
        | None => Ok abbrev_cidr
        | Some (part_addr, prefix) =>
            let tokens := split "." part_addr in
            if 4 <? len tokens then Ok abbrev_cidr            (* Not a recognisable format. *)
            else
              let tokens := pad_tokens tokens in
              match prefix with
              | Some p => Ok (join "." tokens ++ "/" ++ p)%string     (* "%s/%s" % ('.'.join(tokens), prefix), prefix a str *)
              | None =>
                  match tokens with
                  | [] => Raise IndexError                     (* tokens[0]; unreachable: split gives >= 1 token *)
                  | t0 :: _ =>
                      match classful_prefix_str t0 with
                      | Ok p => Ok (join "." tokens ++ "/" ++ fmt_d p)%string
                      | Raise ValueError => Ok abbrev_cidr    (* except (ValueError, IndexError): return abbrev_cidr  [F-C03-2] *)
                      | Raise IndexError => Ok abbrev_cidr
                      | Raise e => Raise e
                      end
                  end
              end
        end
    end.

(* ================================================================ expand_partial_address (strategy/ipv4.py) *)
Definition int_token (o : string) : outcome string :=         (* '%d' % int(o); ValueError -> `raise error` *)
  match py_int 10 o with Some n => Ok (fmt_d n) | None => Raise AddrFormatError end.

Definition expand_partial_address (addr : string) : outcome string :=
  if contains_char ":" addr then Raise AddrFormatError        (* Ignore IPv6 ... *)
  else
    do tokens <- (if contains_char "." addr then Fb.map_out int_token (split "." addr)
                  else do t <- int_token addr; Ok [t]);
    if (1 <=? len tokens) && (len tokens <=? 4) then
      match pad_tokens tokens with
      | [a; b; c; d] => Ok (a ++ "." ++ b ++ "." ++ c ++ "." ++ d)%string     (* '%s.%s.%s.%s' % tuple(tokens) *)
      | _ => Raise TypeError                                           (* format arity; unreachable after padding *)
      end
    else Raise AddrFormatError.

(* ================================================================ parse_ip_network (ip/__init__.py) *)
(* dictionary lookups of the strategy modules; a missing key is KeyError *)
Definition dict_get (k : Z) (d : list (Z * Z)) : outcome Z :=
  match assoc k d with Some v => Ok v | None => Raise KeyError end.
Definition prefix_to_netmask (w p : Z) : outcome Z := dict_get p (prefix_to_netmask_tab w).
Definition netmask_to_prefix (w m : Z) : outcome Z := dict_get m (swap_pairs (prefix_to_netmask_tab w)).
Definition hostmask_to_prefix (w m : Z) : outcome Z := dict_get m (swap_pairs (prefix_to_hostmask_tab w)).

(* if flags & NOHOST: value = value & module.prefix_to_netmask[prefixlen] *)
Definition apply_nohost (w value prefixlen flags : Z) : outcome Z :=
  if has_flag flags NOHOST then do netmask <- prefix_to_netmask w prefixlen; Ok (Z.land value netmask)
  else Ok value.

Definition parse_str (be : backend) (ver : Z) (addr : string) (implicit_prefix : bool) : outcome (Z * Z) :=
  let w := width ver in
  do addr <- (if implicit_prefix then cidr_abbrev_to_verbose addr else Ok addr);
  do vals <- (if contains_char "/" addr then
                match split1 "/" addr with
                | [val1; val2] => Ok (val1, Some val2)
                | _ => Raise ValueError                       (* tuple unpacking; unreachable when '/' in addr *)
                end
              else Ok (addr, None));
  let '(val1, val2) := vals in
  do value <- match init_str be val1 (Some ver) INET_PTON with
              | Ok ip => Ok (snd ip)
              | Raise AddrFormatError =>
                  if ver =? 4 then                            (* Try a partial IPv4 network address... *)
                    do expanded_addr <- expand_partial_address val1;
                    do ip <- init_str be expanded_addr (Some ver) INET_PTON;
                    Ok (snd ip)
                  else Raise AddrFormatError                  (* 'invalid IPNetwork address %s!' *)
              | Raise e => Raise e
              end;
  do prefixlen <- match val2 with
                  | None => Ok w                              (* int(None): TypeError; No prefix was specified. *)
                  | Some val2 =>
                      match py_int 10 val2 with
                      | Some n => Ok n                        (* Integer CIDR prefix. *)
                      | None =>                               (* except ValueError: netmask/hostmask prefix *)
                          do mask <- match init_str be val2 (Some ver) INET_PTON with
                                     | Ok ip => Ok (snd ip)
                                     | Raise ValueError => Raise AddrFormatError      (* [F-C03-3] *)
                                     | Raise e => Raise e
                                     end;
                          if is_netmask w mask then netmask_to_prefix w mask
                          else if is_hostmask mask then hostmask_to_prefix w mask
                          else Raise AddrFormatError          (* 'addr %r is not a valid IPNetwork!' *)
                      end
                  end;
  if negb ((0 <=? prefixlen) && (prefixlen <=? w)) then Raise AddrFormatError      (* 'invalid prefix for %s address!' *)
  else Ok (value, prefixlen).

Definition parse_ip_network (be : backend) (ver : Z) (addr : narg) (implicit_prefix : bool) (flags : Z)
  : outcome (Z * Z) :=
  let w := width ver in
  do vp <- match addr with
           | ATuple t =>
               match t with
               | [value; prefixlen] =>
                   if negb ((0 <=? value) && (value <=? max_int ver)) then Raise AddrFormatError
                   else if negb ((0 <=? prefixlen) && (prefixlen <=? w)) then Raise AddrFormatError
                   else Ok (value, prefixlen)
               | _ => Raise AddrFormatError                   (* len(addr) != 2: 'invalid %s tuple!' *)
               end
           | AStr s => parse_str be ver s implicit_prefix
           | _ => Raise TypeError                             (* 'unexpected type %s for addr arg' *)
           end;
  let '(value, prefixlen) := vp in
  do value <- apply_nohost w value prefixlen flags;
  Ok (value, prefixlen).

(* ================================================================ IPNetwork.__init__ *)
Definition mk_net (ver : Z) (vp : Z * Z) : net := {| nver := ver; nval := fst vp; nplen := snd vp |}.

Definition net_init (be : backend) (addr : narg) (implicit_prefix : bool) (version : option Z) (flags : Z)
  : outcome net :=
  match addr with
  | ANet n =>                                                 (* IPNetwork object copy constructor *)
      do value <- apply_nohost (width (nver n)) (nval n) (nplen n) flags;          (* [F-C03-1] *)
      Ok {| nver := nver n; nval := value; nplen := nplen n |}
  | AAddr ver v =>                                            (* IPAddress object copy constructor *)
      do value <- apply_nohost (width ver) v (width ver) flags;                    (* [F-C03-1] *)
      Ok {| nver := ver; nval := value; nplen := width ver |}
  | _ =>
      match version with
      | Some v =>
          if v =? 4 then do r <- parse_ip_network be 4 addr implicit_prefix flags; Ok (mk_net 4 r)
          else if v =? 6 then do r <- parse_ip_network be 6 addr implicit_prefix flags; Ok (mk_net 6 r)
          else Raise ValueError                               (* '%r is an invalid IP version!' *)
      | None =>
          match parse_ip_network be 4 addr implicit_prefix flags with
          | Ok r => Ok (mk_net 4 r)
          | Raise AddrFormatError =>
              match parse_ip_network be 6 addr implicit_prefix flags with
              | Ok r => Ok (mk_net 6 r)
              | Raise AddrFormatError => Raise AddrFormatError    (* value is None: 'invalid IPNetwork %s' *)
              | Raise e => Raise e
              end
          | Raise e => Raise e
          end
      end
  end.

(* ================================================================ IPNetwork.__str__ *)
Definition net_str (be : backend) (n : net) : outcome string :=
  do addr <- int_to_str be (nver n) (nval n) None;
  Ok (addr ++ "/" ++ fmt_d (nplen n))%string.                        (* "%s/%s" % (addr, self.prefixlen) *)
