(* Model/SrcPreludeMatch.v -- the one callee of the three CIDR matching functions that harness/gen/pysrc.py (block SRCE)
   does NOT translate: `sorted(l)` on a list of IPNetwork objects.  The symbol IS the hand model's sort (Model/Contains.v
   py_sorted: stable insertion sort that uses only `<`, = BaseIP.__lt__ on IPNetwork.sort_key(), at the real widths).
   `sorted` itself stays tied by differential execution (checks C04, C12); BaseIP.__lt__ and IPNetwork.sort_key are tied by
   source (Props/C12_src*.v) and Contains.net_lt is proved equal to Order.py_lt on networks (Props/Coherence_Order.v). *)
From Coq Require Import ZArith List Bool.
From NV Require Import Base.PyVal Model.Ip Model.Contains.
Import ListNotations.
Open Scope Z_scope.

Definition py_sorted_nets (l : list net) : list net := py_sorted width l.
