(* Model/IanaLoad.v -- netaddr/ip/iana.py, how the IANA_INFO dictionaries are filled: MulticastParser.normalise_addr (285-297) and
   DictUpdater.update (334-362).  Hand models (tag SRCG; there were none: the loaded dictionaries were only observed as the
   regenerated literal iana_impl).  update() is modelled by the item (key object, record) it stores -- the key is built with the
   hand models of the constructors it calls (NetText.net_init on text, AddrText.init_str, the IPRange constructor as the
   composition proved in GenOk_Src_C12_state, Merge / Span iprange_to_cidrs) --; the dict assignment itself is not modelled.
   A record is the association list of its text fields.  No proofs here. *)
From Coq Require Import ZArith List Bool String Ascii.
From NV Require Import Base.PyVal Base.PyStr Model.Ip Model.AddrText Model.NetText Model.Span Model.Partition Model.Merge Model.SrcPreludeG.
Import ListNotations.
Open Scope Z_scope.

(* '.'.join([str(int(i)) for i in s.strip().split('.')]) *)
Fixpoint dec_fields (l : list string) : outcome (list string) :=
  match l with
  | [] => Ok []
  | s :: t => match py_int 10 s with
              | Some n => do r <- dec_fields t; Ok (fmt_d n :: r)
              | None => Raise ValueError
              end
  end.
Definition norm_quad (s : string) : outcome string := do l <- dec_fields (split "." (strip s)); Ok (join "." l).

Definition normalise_addr (addr : string) : outcome string :=
  if contains_char "-" addr then
    match split "-" addr with
    | [a1; a2] => do x <- norm_quad a1; do y <- norm_quad a2; Ok (x ++ "-" ++ y)%string
    | _ => Raise ValueError
    end
  else norm_quad addr.

(* IPRange(first, last) on two texts: both addresses, the second in the family of the first, start <= end *)
Definition range_of_strs (be : backend) (first last : string) : outcome (Z * Z * Z) :=
  do s <- init_str be first None 0;
  do e <- init_str be last (Some (fst s)) 0;
  if snd s >? snd e then Raise AddrFormatError else Ok (fst s, snd s, snd e).

Fixpoint rec_get (d : list (string * string)) (k : string) : outcome string :=
  match d with [] => Raise KeyError | (k', v) :: t => if String.eqb k' k then Ok v else rec_get t k end.

(* the key object DictUpdater.update stores the record under; None for a topic it does not know (nothing is stored) *)
Definition update_key (be : backend) (topic data_id : string) : outcome (option ikeyview) :=
  if String.eqb topic "IPv4" || String.eqb topic "IPv6" then
    do t <- cidr_abbrev_to_verbose data_id; do n <- net_init be (AStr t) false None 0; Ok (Some (IKNet n))
  else if String.eqb topic "IPv6_unicast" then
    do n <- net_init be (AStr data_id) false None 0; Ok (Some (IKNet n))
  else if String.eqb topic "multicast" then
    if contains_char "-" data_id then
      match split "-" data_id with
      | [first; last] =>
          do r <- range_of_strs be first last;
          let '(ver, s, e) := r in
          do cidrs <- iprange_to_cidrs (addr_net ver s) (addr_net ver e);
          match cidrs with
          | [c] => Ok (Some (IKNet c))             (* a single CIDR: the network is the key *)
          | _ => Ok (Some (IKRange ver s e))
          end
      | _ => Raise ValueError
      end
    else do a <- init_str be data_id None 0; Ok (Some (IKAddr a))
  else Ok None.

Definition update_item (be : backend) (topic unique_key : string) (data : list (string * string))
  : outcome (option (ikeyview * list (string * string))) :=
  do data_id <- rec_get data unique_key;
  omap (option_map (fun k => (k, data))) (update_key be topic data_id).
