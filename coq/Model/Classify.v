(* Model/Classify.v — address classification of netaddr/ip/__init__.py:
     predicates  BaseIP.is_unicast / is_multicast / is_loopback / is_private / is_link_local / is_reserved (134-199)
     containment IPNetwork.__contains__ (1130-1158), IPRange.__contains__ (1419-1439, after the F-04 repair)
   The predicates are parameterised by the block tables (lines 1915-1972), which are DATA: the command wrapper
   Extract/Cmd_C18.v and Proofs/GenOk_C18.v instantiate them with the literals re-generated from the working
   tree (coq/Gen/classify_gen.v).  This file does not depend on Gen.
   Second half: the SPECIFICATION, hand-transcribed closed integer intervals of the published blocks. *)
From Coq Require Import ZArith List Bool.
From NV Require Import Base.PyVal Model.Ip.
Import ListNotations.
Open Scope Z_scope.

(* ---------------------------------------------------------------- objects and table rows *)

(* the three kinds of object the predicates are called on *)
Inductive ipobj :=
| OAddr (ver v : Z)            (* IPAddress: _module.version, _value *)
| ONet (ver v p : Z)           (* IPNetwork: _module.version, _value (host bits kept), _prefixlen *)
| ORange (ver s e : Z).        (* IPRange:   _module.version, _start._value, _end._value *)

Definition over (o : ipobj) : Z :=
  match o with OAddr ver _ => ver | ONet ver _ _ => ver | ORange ver _ _ => ver end.

(* a table row as emitted by harness/gen/classify.py:
   (0, version, value, prefixlen) = IPNetwork ; (1, version, start, end) = IPRange *)
Definition row := (Z * Z * Z * Z)%type.
Definition rkind (r : row) : Z := let '(k, _, _, _) := r in k.
Definition rver (r : row) : Z := let '(_, ver, _, _) := r in ver.
Definition rfst (r : row) : Z := let '(_, _, a, _) := r in a.
Definition rsnd (r : row) : Z := let '(_, _, _, b) := r in b.

(* ---------------------------------------------------------------- containment *)

(* IPNetwork.__contains__(self, other), self = (sver, sv, sp), other a BaseIP *)
Definition net_contains (sver sv sp : Z) (other : ipobj) : bool :=
  if negb (sver =? over other) then false
  else
    let shiftwidth := width sver - sp in
    let self_net := Z.shiftr sv shiftwidth in
    match other with
    | ORange _ s e =>
        (Z.shiftl self_net shiftwidth <=? s) && (Z.shiftl (self_net + 1) shiftwidth >? e)
    | OAddr _ v =>
        let other_net := Z.shiftr v shiftwidth in other_net =? self_net
    | ONet _ v p =>
        let other_net := Z.shiftr v shiftwidth in (self_net =? other_net) && (sp <=? p)
    end.

(* IPRange.__contains__(self, other), self = (sver, ss, se) *)
Definition range_contains (sver ss se : Z) (other : ipobj) : bool :=
  if negb (sver =? over other) then false
  else
    match other with
    | OAddr _ v => (ss <=? v) && (se >=? v)
    | ORange _ s e => (ss <=? s) && (se >=? e)
    | ONet over_ v p =>
        let shiftwidth := width over_ - p in
        let other_start := Z.shiftl (Z.shiftr v shiftwidth) shiftwidth in
        let other_next_start := other_start + Z.shiftl 1 shiftwidth in
        (ss <=? other_start) && (se >=? other_next_start - 1)
    end.

(* `self in cidr` for a table row *)
Definition contains_row (cidr : row) (self : ipobj) : bool :=
  let '(k, ver, a, b) := cidr in
  if k =? 0 then net_contains ver a b self else range_contains ver a b self.

(* ---------------------------------------------------------------- the tables *)

Record tables := {
  t_loopback4 : row;  t_private4 : list row;  t_link_local4 : row;  t_multicast4 : row;  t_reserved4 : list row;
  t_loopback6 : row;  t_private6 : list row;  t_link_local6 : row;  t_multicast6 : row;  t_reserved6 : list row
}.

(* ---------------------------------------------------------------- the predicates *)

(* `for cidr in TABLE: if self in cidr: return True` ; falling off the loop is `false` here and the caller
   continues with what follows the loop *)
Fixpoint scan (self : ipobj) (t : list row) : bool :=
  match t with
  | [] => false
  | cidr :: rest => if contains_row cidr self then true else scan self rest
  end.

(* a method whose if/elif has no else returns None when neither branch is taken *)
Definition truthy (r : option bool) : bool := match r with Some b => b | None => false end.

(* is_multicast: `self._module == _ipv4` / `_ipv6` (module identity, i.e. the family) *)
Definition is_multicast (T : tables) (self : ipobj) : option bool :=
  if over self =? 4 then Some (contains_row (t_multicast4 T) self)
  else if over self =? 6 then Some (contains_row (t_multicast6 T) self)
  else None.

Definition is_unicast (T : tables) (self : ipobj) : bool := negb (truthy (is_multicast T self)).

Definition is_loopback (T : tables) (self : ipobj) : option bool :=
  if over self =? 4 then Some (contains_row (t_loopback4 T) self)
  else if over self =? 6 then Some (contains_row (t_loopback6 T) self)
  else None.

Definition is_link_local (T : tables) (self : ipobj) : option bool :=
  if over self =? 4 then Some (contains_row (t_link_local4 T) self)
  else if over self =? 6 then Some (contains_row (t_link_local6 T) self)
  else None.

Definition is_private (T : tables) (self : ipobj) : bool :=
  if (if over self =? 4 then scan self (t_private4 T)
      else if over self =? 6 then scan self (t_private6 T)
      else false)
  then true
  else if truthy (is_link_local T self) then true
  else false.

Definition is_reserved (T : tables) (self : ipobj) : bool :=
  if over self =? 4 then scan self (t_reserved4 T)
  else if over self =? 6 then scan self (t_reserved6 T)
  else false.

(* ================================================================ SPECIFICATION
   Closed integer intervals [lo, hi], transcribed by hand from the IANA IPv4 / IPv6 special-purpose address
   registries (multicast, loopback, link-local) and from the blocks netaddr documents for is_private and
   is_reserved.  Independent of the generated tables. *)

Definition iv := (Z * Z)%type.
Definition memb (i : iv) (x : Z) : bool := (fst i <=? x) && (x <=? snd i).
Definition mem (l : list iv) (x : Z) : bool := existsb (fun i => memb i x) l.

(* dotted quad a.b.c.d ; the IPv6 address whose first hextet is h and whose other 112 bits are 0 *)
Definition ip4 (a b c d : Z) : Z := ((a * 256 + b) * 256 + c) * 256 + d.
Definition hx6 (h : Z) : Z := h * 2 ^ 112.

Inductive pred := Multicast | Loopback | LinkLocal | Private | Reserved.

Definition spec_multicast4 : list iv := [ (ip4 224 0 0 0, ip4 239 255 255 255) ].      (* 224.0.0.0/4   RFC 5771 *)
Definition spec_multicast6 : list iv := [ (hx6 0xff00, 2 ^ 128 - 1) ].                 (* ff00::/8      RFC 4291 *)
Definition spec_loopback4 : list iv := [ (ip4 127 0 0 0, ip4 127 255 255 255) ].       (* 127.0.0.0/8   RFC 1122 *)
Definition spec_loopback6 : list iv := [ (1, 1) ].                                     (* ::1/128       RFC 4291 *)
Definition spec_link_local4 : list iv := [ (ip4 169 254 0 0, ip4 169 254 255 255) ].   (* 169.254.0.0/16 RFC 3927 *)
Definition spec_link_local6 : list iv := [ (hx6 0xfe80, hx6 0xfec0 - 1) ].             (* fe80::/10     RFC 4291 *)

Definition spec_private4_own : list iv := [
  (ip4 10 0 0 0,    ip4 10 255 255 255);     (* 10.0.0.0/8      RFC 1918 *)
  (ip4 100 64 0 0,  ip4 100 127 255 255);    (* 100.64.0.0/10   RFC 6598 *)
  (ip4 172 16 0 0,  ip4 172 31 255 255);     (* 172.16.0.0/12   RFC 1918 *)
  (ip4 192 0 0 0,   ip4 192 0 0 255);        (* 192.0.0.0/24    RFC 5736 *)
  (ip4 192 168 0 0, ip4 192 168 255 255);    (* 192.168.0.0/16  RFC 1918 *)
  (ip4 198 18 0 0,  ip4 198 19 255 255);     (* 198.18.0.0/15   RFC 2544 *)
  (ip4 239 0 0 0,   ip4 239 255 255 255)     (* 239.0.0.0/8     administratively scoped multicast, RFC 2365 *)
].
Definition spec_private6_own : list iv := [
  (hx6 0xfc00, hx6 0xfe00 - 1);              (* fc00::/7   unique local addresses, RFC 4193 *)
  (hx6 0xfec0, hx6 0xff00 - 1)               (* fec0::/10  site-local (deprecated), RFC 3879 *)
].

Definition spec_reserved4 : list iv := [
  (ip4 0 0 0 0,      ip4 0 255 255 255);     (* 0.0.0.0/8 *)
  (ip4 127 0 0 0,    ip4 127 255 255 255);   (* 127.0.0.0/8     loopback *)
  (ip4 192 0 2 0,    ip4 192 0 2 255);       (* 192.0.2.0/24    TEST-NET-1 *)
  (ip4 192 88 99 0,  ip4 192 88 99 255);     (* 192.88.99.0/24  6to4 relay anycast *)
  (ip4 198 51 100 0, ip4 198 51 100 255);    (* 198.51.100.0/24 TEST-NET-2 *)
  (ip4 203 0 113 0,  ip4 203 0 113 255);     (* 203.0.113.0/24  TEST-NET-3 *)
  (ip4 225 0 0 0,    ip4 231 255 255 255);   (* 225.0.0.0 - 231.255.255.255 reserved multicast *)
  (ip4 233 252 0 0,  ip4 233 252 0 255);     (* 233.252.0.0/24  MCAST-TEST-NET *)
  (ip4 234 0 0 0,    ip4 238 255 255 255);   (* 234.0.0.0 - 238.255.255.255 reserved multicast *)
  (ip4 240 0 0 0,    ip4 255 255 255 255)    (* 240.0.0.0/4 *)
].
Definition spec_reserved6 : list iv := [
  (0,          hx6 0x0100 - 1);              (* ::/8 *)
  (hx6 0x0100, hx6 0x0200 - 1);              (* 0100::/8 *)
  (hx6 0x0200, hx6 0x0400 - 1);              (* 0200::/7 *)
  (hx6 0x0400, hx6 0x0800 - 1);              (* 0400::/6 *)
  (hx6 0x0800, hx6 0x1000 - 1);              (* 0800::/5 *)
  (hx6 0x1000, hx6 0x2000 - 1);              (* 1000::/4 *)
  (hx6 0x4000, hx6 0x6000 - 1);              (* 4000::/3 *)
  (hx6 0x6000, hx6 0x8000 - 1);              (* 6000::/3 *)
  (hx6 0x8000, hx6 0xa000 - 1);              (* 8000::/3 *)
  (hx6 0xa000, hx6 0xc000 - 1);              (* a000::/3 *)
  (hx6 0xc000, hx6 0xe000 - 1);              (* c000::/3 *)
  (hx6 0xe000, hx6 0xf000 - 1);              (* e000::/4 *)
  (hx6 0xf000, hx6 0xf800 - 1);              (* f000::/5 *)
  (hx6 0xf800, hx6 0xfc00 - 1);              (* f800::/6 *)
  (hx6 0xfe00, hx6 0xfe80 - 1);              (* fe00::/9 *)
  (hx6 0xff00, hx6 0xff10 - 1)               (* ff00::/12 *)
].

(* the documented blocks of each predicate and family; link-local always counts as private *)
Definition spec (p : pred) (ver : Z) : list iv :=
  match p with
  | Multicast => if ver =? 4 then spec_multicast4 else spec_multicast6
  | Loopback => if ver =? 4 then spec_loopback4 else spec_loopback6
  | LinkLocal => if ver =? 4 then spec_link_local4 else spec_link_local6
  | Private => if ver =? 4 then spec_private4_own ++ spec_link_local4 else spec_private6_own ++ spec_link_local6
  | Reserved => if ver =? 4 then spec_reserved4 else spec_reserved6
  end.

(* the maximal runs of each predicate (adjacent documented blocks merged): where the answer flips *)
Definition maxblocks (p : pred) (ver : Z) : list iv :=
  match p with
  | Private =>
      if ver =? 4 then spec_private4_own ++ spec_link_local4
      else [ (hx6 0xfc00, hx6 0xfe00 - 1);       (* fc00::/7 *)
             (hx6 0xfe80, hx6 0xff00 - 1) ]      (* fe80::/10 and fec0::/10 are adjacent *)
  | Reserved =>
      if ver =? 4 then spec_reserved4
      else [ (0,          hx6 0x2000 - 1);       (* ::/8 ... 1000::/4      = ::/3 *)
             (hx6 0x4000, hx6 0xfc00 - 1);       (* 4000::/3 ... f800::/6 *)
             (hx6 0xfe00, hx6 0xfe80 - 1);       (* fe00::/9 *)
             (hx6 0xff00, hx6 0xff10 - 1) ]      (* ff00::/12 *)
  | _ => spec p ver
  end.

(* the model predicates as plain booleans, indexed by `pred` *)
Definition holds (T : tables) (p : pred) (o : ipobj) : bool :=
  match p with
  | Multicast => truthy (is_multicast T o)
  | Loopback => truthy (is_loopback T o)
  | LinkLocal => truthy (is_link_local T o)
  | Private => is_private T o
  | Reserved => is_reserved T o
  end.

(* first / last address of an object, as the attributes `first` / `last` compute them
   (IPAddress: the value; IPNetwork: Model/Ip.v net_first / net_last; IPRange: start / end) *)
Definition obj_first (o : ipobj) : Z :=
  match o with OAddr _ v => v | ONet ver v p => net_first (width ver) v p | ORange _ s _ => s end.
Definition obj_last (o : ipobj) : Z :=
  match o with OAddr _ v => v | ONet ver v p => net_last (width ver) v p | ORange _ _ e => e end.
Definition row_first (r : row) : Z := if rkind r =? 0 then net_first (width (rver r)) (rfst r) (rsnd r) else rfst r.
Definition row_last (r : row) : Z := if rkind r =? 0 then net_last (width (rver r)) (rfst r) (rsnd r) else rsnd r.
