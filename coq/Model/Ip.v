(* Model/Ip.v — IPAddress / IPNetwork integer-level behaviour of netaddr/ip/__init__.py.
   Each definition mirrors the Python method named in its comment, with its own spelling. *)
From Coq Require Import ZArith List Bool String.
From NV Require Import Base.PyVal.
Import ListNotations.
Open Scope Z_scope.

(* strategy modules: width / max_int by version *)
Definition width (ver : Z) : Z := if ver =? 4 then 32 else 128.
Definition max_int_w (w : Z) : Z := 2 ^ w - 1.
Definition max_int (ver : Z) : Z := max_int_w (width ver).
Definition valid_ver (ver : Z) : bool := (ver =? 4) || (ver =? 6).

Definition in_range_w (w v : Z) : bool := (0 <=? v) && (v <=? max_int_w w).

(* ---- IPAddress.__init__ integer branches (lines 282-319) ---- *)
(* IPAddress(i) : implicit version *)
Definition addr_of_int (i : Z) : outcome (Z * Z) :=
  if (0 <=? i) && (i <=? max_int 4) then Ok (4, i)
  else if (max_int 4 <? i) && (i <=? max_int 6) then Ok (6, i)
  else Raise AddrFormatError.

(* IPAddress(i, version) : explicit version *)
Definition addr_of_int_ver (i ver : Z) : outcome (Z * Z) :=
  if ver =? 4 then (if in_range_w 32 i then Ok (4, i) else Raise AddrFormatError)
  else if ver =? 6 then (if in_range_w 128 i then Ok (6, i) else Raise AddrFormatError)
  else Raise ValueError.

(* ---- arithmetic (lines 387-459); w is the family width ---- *)
Definition addr_iadd (w v n : Z) : outcome Z :=
  let nv := v + n in if in_range_w w nv then Ok nv else Raise IndexError.
Definition addr_isub (w v n : Z) : outcome Z :=
  let nv := v - n in if in_range_w w nv then Ok nv else Raise IndexError.
Definition addr_add := addr_iadd.
Definition addr_radd := addr_iadd.
Definition addr_sub := addr_isub.
Definition addr_rsub (w v n : Z) : outcome Z :=
  let nv := n - v in if in_range_w w nv then Ok nv else Raise IndexError.

(* ---- bitwise (lines 610-653): rebuilt through the range-checking constructor ---- *)
Definition ctor_w (w v : Z) : outcome Z := if in_range_w w v then Ok v else Raise AddrFormatError.
Definition addr_or (w v n : Z) := ctor_w w (Z.lor v n).
Definition addr_and (w v n : Z) := ctor_w w (Z.land v n).
Definition addr_xor (w v n : Z) := ctor_w w (Z.lxor v n).
(* Python raises ValueError("negative shift count") for n < 0 *)
Definition addr_lshift (w v n : Z) := if n <? 0 then Raise ValueError else ctor_w w (Z.shiftl v n).
Definition addr_rshift (w v n : Z) := if n <? 0 then Raise ValueError else ctor_w w (Z.shiftr v n).

(* ---- mask predicates (lines 342-385) ---- *)
Definition is_hostmask (v : Z) : bool :=
  let int_val := v + 1 in Z.land int_val (int_val - 1) =? 0.
Definition is_netmask (w v : Z) : bool :=
  let int_val := Z.lxor v (max_int_w w) + 1 in Z.land int_val (int_val - 1) =? 0.

(* the `while i_val > 0` loop of netmask_bits; fuel bounds the number of iterations *)
Fixpoint nb_loop (fuel : nat) (i_val numbits : Z) : option Z :=
  match fuel with
  | O => None
  | S f => if i_val >? 0 then
             (if Z.land i_val 1 =? 1 then Some numbits
              else nb_loop f (Z.shiftr i_val 1) (numbits + 1))
           else Some numbits
  end.

Definition netmask_bits (w v : Z) : outcome Z :=
  if negb (is_netmask w v) then Ok w
  else if v =? 0 then Ok 0
  else match nb_loop (Z.to_nat w + 2) v 0 with
       | None => Raise OutOfFuel
       | Some numbits =>
           let mask_length := w - numbits in
           if (0 <=? mask_length) && (mask_length <=? w) then Ok mask_length else Raise ValueError
       end.

(* ---- IPNetwork attributes (lines 997-1086, 688-693); (w, v, p) = width, stored value, prefixlen ---- *)
Definition hostmask_int (w p : Z) : Z := Z.shiftl 1 (w - p) - 1.
Definition netmask_int (w p : Z) : Z := Z.lxor (max_int_w w) (hostmask_int w p).
Definition net_ip (v : Z) : Z := v.
Definition net_network (w v p : Z) : Z := Z.land v (netmask_int w p).
Definition net_broadcast (ver v p : Z) : option Z :=
  if (ver =? 4) && (width ver - p <=? 1) then None else Some (Z.lor v (hostmask_int (width ver) p)).
Definition net_first (w v p : Z) : Z := Z.land v (Z.lxor (max_int_w w) (hostmask_int w p)).
Definition net_last (w v p : Z) : Z := let hostmask := Z.shiftl 1 (w - p) - 1 in Z.lor v hostmask.
Definition net_netmask (w p : Z) : Z := Z.lxor (max_int_w w) (hostmask_int w p).
Definition net_hostmask (w p : Z) : Z := Z.shiftl 1 (w - p) - 1.
Definition net_size (w v p : Z) : Z := net_last w v p - net_first w v p + 1.
Definition net_cidr (w v p : Z) : Z * Z := (Z.land v (netmask_int w p), p).

(* ---- setters ---- *)
(* an argument offered to a setter: an int, an IPAddress object, or anything else *)
Inductive sarg := SInt (z : Z) | SAddr (ver v : Z) | SOther.

Record net := { nver : Z; nval : Z; nplen : Z }.

(* BaseIP._set_value (lines 32-38) *)
Definition set_value (n : net) (a : sarg) : outcome net :=
  match a with
  | SInt z => if in_range_w (width (nver n)) z
              then Ok {| nver := nver n; nval := z; nplen := nplen n |}
              else Raise AddrFormatError
  | _ => Raise TypeError
  end.

(* IPNetwork._set_prefixlen (lines 986-992) *)
Definition set_prefixlen (n : net) (a : sarg) : outcome net :=
  match a with
  | SInt z => if (0 <=? z) && (z <=? width (nver n))
              then Ok {| nver := nver n; nval := nval n; nplen := z |}
              else Raise AddrFormatError
  | _ => Raise TypeError
  end.

(* IPNetwork.netmask setter (lines 1049-1060): IPAddress(value), version check, is_netmask, netmask_bits.
   SOther models a value IPAddress() rejects with AddrFormatError (e.g. a malformed string). *)
Definition set_netmask (n : net) (a : sarg) : outcome net :=
  do ip <- (match a with
            | SInt z => addr_of_int z
            | SAddr ver v => Ok (ver, v)
            | SOther => Raise AddrFormatError
            end);
  let '(ver, v) := ip in
  if negb (ver =? nver n) then Raise ValueError
  else if negb (is_netmask (width ver) v) then Raise ValueError
  else do b <- netmask_bits (width ver) v; set_prefixlen n (SInt b).

Inductive setop := OpValue (a : sarg) | OpPrefixlen (a : sarg) | OpNetmask (a : sarg).

(* a raising setter leaves the object as it was *)
Definition apply_setop (n : net) (o : setop) : net * option exn :=
  let r := match o with
           | OpValue a => set_value n a
           | OpPrefixlen a => set_prefixlen n a
           | OpNetmask a => set_netmask n a
           end in
  match r with Ok n' => (n', None) | Raise e => (n, Some e) end.

(* prefix <-> mask tables as built by the comprehensions of strategy/ipv4.py:64-78, ipv6.py:69-83 *)
Definition zrange (n : nat) : list Z := map Z.of_nat (seq 0 n).
Definition prefix_to_netmask_tab (w : Z) : list (Z * Z) :=
  map (fun i => (i, Z.lxor (max_int_w w) (2 ^ (w - i) - 1))) (zrange (Z.to_nat w + 1)).
Definition prefix_to_hostmask_tab (w : Z) : list (Z * Z) :=
  map (fun i => (i, 2 ^ (w - i) - 1)) (zrange (Z.to_nat w + 1)).
Fixpoint assoc (k : Z) (l : list (Z * Z)) : option Z :=
  match l with [] => None | (a, b) :: t => if a =? k then Some b else assoc k t end.
Definition swap_pairs (l : list (Z * Z)) : list (Z * Z) := map (fun '(a, b) => (b, a)) l.
