(* Model/SrcPreludeSets.v -- SRCA: the symbols that the source translation of netaddr/ip/sets.py
   (Gen/pysrc_sets*_gen.v, written by harness/gen/pysrc.py) uses for Python builtins and for callees that are not translated.
   (1) The dict `_cidrs` of an IPSet (IPNetwork keys, every value True) is the insertion-ordered list of its keys.  The dict
       operations ARE the small executable definitions of Model/Sets.v (dmem / dset / ddel / dfromkeys / dupdate / dict_eqb:
       key equality and hashing through key() = (version, first, last), an assignment to an equal key keeps the old key object,
       popitem() is LIFO), under the names the generated files use.
   (2) sorted(<IPNetwork objects>) and `a < b` on IPNetwork objects are Sets.sorted / Sets.net_ltb (BaseIP.__lt__ compares
       sort_key(); stable insertion sort).
   (3) list indexing with IndexError, l[k:], sum().
   (4) Callees that are NOT translated, as their hand models: cidr_merge on IPNetwork objects (Model/Merge.v, as in
       SrcPreludeSplitter), the IPRange(start, end) constructor on two IPAddress objects. *)
From Coq Require Import ZArith List Bool.
From NV Require Import Base.PyVal Model.Ip Model.Partition Model.Span Model.Merge Model.Sets Model.SrcPrelude.
Import ListNotations.
Open Scope Z_scope.

(* ---- (1) dict with IPNetwork keys ---- *)
(* k in d *)
Definition py_dict_mem (d : list net) (k : net) : bool := dmem k d.
(* d[k] = True *)
Definition py_dict_set (d : list net) (k : net) : list net := dset d k.
(* del d[k]: KeyError if absent *)
Definition py_dict_del (d : list net) (k : net) : outcome (list net) := ddel d k.
(* dict.fromkeys(l, True) *)
Definition py_dict_fromkeys (l : list net) : list net := dfromkeys l.
(* d.update(other) *)
Definition py_dict_update (d other : list net) : list net := dupdate d other.
(* d == other *)
Definition py_dict_eqb (d other : list net) : bool := dict_eqb d other.
(* d.popitem(): (the dict without its last inserted key, that key); KeyError on an empty dict *)
Definition py_dict_popitem (d : list net) : outcome (list net * net) :=
  match rev d with
  | [] => Raise KeyError
  | k :: r => Ok (rev r, k)
  end.

(* ---- (2) ordering of IPNetwork objects ---- *)
Definition py_sorted_nets (l : list net) : list net := sorted l.
Definition py_net_ltb (a b : net) : bool := net_ltb a b.

(* ---- (3) lists ---- *)
(* l[i] for an int i: negative indices count from the end; IndexError outside *)
Definition py_index {A} (l : list A) (i : Z) : outcome A :=
  let n := Z.of_nat (length l) in
  let j := if i <? 0 then i + n else i in
  if (j <? 0) || (n <=? j) then Raise IndexError
  else match nth_error l (Z.to_nat j) with Some x => Ok x | None => Raise IndexError end.
(* l[k:] for a literal k >= 0 *)
Definition py_list_from {A} (k : Z) (l : list A) : list A := skipn (Z.to_nat k) l.
(* sum(l) for a list of ints *)
Definition py_sum (l : list Z) : Z := fold_left Z.add l 0.

(* ---- (4) untranslated callees ---- *)
(* cidr_merge(l) for a list of IPNetwork objects *)
Definition py_cidr_merge_nets (l : list net) : outcome (list net) := cidr_merge (map MNet l).
(* IPRange(start, end) for two IPAddress objects (version, value): IPRange.__init__ -- IPAddress(start) keeps start;
   IPAddress(end, start's version) raises ValueError for an address of the other version; then start <= end or
   AddrFormatError.  The object is (version, start value, end value). *)
Definition py_iprange (a b : Z * Z) : outcome (Z * Z * Z) :=
  if negb (fst a =? fst b) then Raise ValueError
  else if snd a >? snd b then Raise AddrFormatError
  else Ok (fst a, snd a, snd b).
(* IPNetwork(addr) for an IPAddress object (version, value): the /width network (what iprange_to_cidrs makes of its arguments) *)
Definition py_net_of_addr (a : Z * Z) : net := addr_net (fst a) (snd a).
(* x.previous() / x.next() for an IPNetwork object (step 1): not translated (they go through a string), the hand models *)
Definition py_net_previous (n : net) : outcome net := net_previous n.
Definition py_net_next (n : net) : outcome net := net_next n.
(* (f x for x in l) consumed at once, where f may raise: the results in order; the first exception wins *)
Fixpoint py_map_o {A B} (f : A -> outcome B) (l : list A) : outcome (list B) :=
  match l with
  | [] => Ok []
  | x :: r => do y <- f x; do ys <- py_map_o f r; Ok (y :: ys)
  end.
