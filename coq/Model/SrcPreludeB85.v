(* Model/SrcPreludeB85.v -- the symbols that the generated translation of netaddr/ip/rfc1924.py (Gen/pysrc_rfc1924_gen.v, written by
   harness/gen/pysrc.py, class FnB) uses besides those of SrcPreludeGlob.v.  The tables BASE_85 / BASE_85_DICT are DATA: their values
   are regenerated on every run by harness/gen/codec.py (Gen/codec_gen.v gen_base85, with the check that the dict is the index
   map of the list). *)
From Coq Require Import ZArith List Bool String Ascii.
From NV Require Import Base.PyVal Base.PyStr Model.Ip Gen.codec_gen Model.Codec Model.SrcPreludeGlob.
Import ListNotations.
Open Scope Z_scope.

(* BASE_85: the list of its one-character strings *)
Definition BASE_85 : list string := py_str_list gen_base85.
(* BASE_85_DICT[k]: Codec.BASE_85_DICT on the character of a one-character key; KeyError otherwise *)
Definition py_b85_dict_get (k : string) : outcome Z :=
  match k with
  | String c EmptyString => match Codec.BASE_85_DICT c with Some v => Ok v | None => Raise KeyError end
  | _ => Raise KeyError
  end.
(* chr(i) as a one-character str, for 0 <= i < 256 (Coq strings are byte strings; beyond: not modelled) *)
Definition py_chr_o (i : Z) : outcome string :=
  if (0 <=? i) && (i <? 256) then Ok (String (chr i) EmptyString) else Raise Unsupported.
(* IPAddress(n) for an int n, version inferred: Ip.addr_of_int (not translated: the constructor's version inference) *)
Definition py_ipaddress_of_int (n : Z) : outcome (Z * Z) := addr_of_int n.
