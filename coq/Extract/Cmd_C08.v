(* Extract/Cmd_C08.v — commands for Model/Eui.v (property C08). *)
From Coq Require Import ZArith List Bool String Ascii.
From NV Require Import Base.PyVal Base.PyStr Model.Ip Model.Eui Extract.CmdBase.
Import ListNotations.
Open Scope Z_scope.
Open Scope string_scope.

Fixpoint assoc_str {A} (k : string) (l : list (string * A)) : option A :=
  match l with [] => None | (k', a) :: r => if String.eqb k' k then Some a else assoc_str k r end.

(* dialect argument: None | "<bad>" (an object without word_size/word_fmt) | built-in class name | [ws, nw, sep, fmt] *)
Definition to_darg (p : pyval) : option darg :=
  match p with
  | PNone => Some DNone
  | PStr "<bad>" => Some DBad
  | PStr n => match assoc_str n builtin_dialects with Some (_, d) => Some (DRec d) | None => None end
  | PList [PInt ws; PInt nw; PStr sep; PStr fmt] =>
      Some (DRec {| word_size := ws; num_words := nw; word_sep := sep; word_fmt := fmt |})
  | _ => None
  end.

Definition of_dialect (d : dialect) : pyval :=
  PList [PInt (word_size d); PInt (num_words d); PStr (word_sep d); PStr (word_fmt d)].
Definition of_eui (e : eui) : pyval := PList [PInt (ever e); PInt (evalue e); of_dialect (edialect e)].
Definition of_str_o (o : outcome string) : pyval := of_outcome PStr o.

(* the object EUI(v, version=ver, dialect=d) *)
Definition mk (ver v : Z) (d : pyval) : option (outcome eui) :=
  match to_darg d with Some dd => Some (eui_init (AInt v) (Some ver) dd) | None => None end.

Definition to_earg (p : pyval) : option earg :=
  match p with
  | PInt z => Some (AInt z)
  | PStr s => Some (AStr s)
  | PNone => Some AOther
  | PList [PStr "eui"; PInt ver; PInt v; d] =>
      match mk ver v d with Some (Ok e) => Some (AEui e) | _ => None end
  | _ => None
  end.

Definition to_ver (p : pyval) : option (option Z) :=
  match p with PNone => Some None | PInt z => Some (Some z) | _ => None end.

(* run f on the object, or report the constructor's exception *)
Definition with_eui (ver v : Z) (d : pyval) (f : eui -> pyval) : option pyval :=
  match mk ver v d with
  | Some (Ok e) => Some (f e)
  | Some (Raise x) => Some (PExn x)
  | None => None
  end.

Definition of_addr6 (o : outcome (Z * Z)) : pyval := of_outcome of_addr o.

(* post-state and exception of a mutator *)
Definition mutated (e : eui) (o : outcome eui) : pyval :=
  match o with
  | Ok e' => PList [of_eui e'; PNone]
  | Raise x => PList [of_eui e; PExn x]
  end.

Definition all_items (e : eui) : pyval :=
  let nw := num_words (edialect e) in
  PList (map (fun i => of_outcome PInt (eui_getitem e (Z.of_nat i - nw - 1)))
             (seq 0 (Z.to_nat (2 * nw + 2)))).

Definition roundtrip (e : eui) : pyval :=
  match eui_str e with
  | Raise x => PExn x
  | Ok s => PList [PStr s;
                   of_outcome of_eui (eui_init (AStr s) None DNone);
                   of_outcome of_eui (eui_init (AStr s) (Some (ever e)) DNone)]
  end.

Definition cmds : cmd_table := [
  ("re_match", fun args => match args with
      | [PInt ver; PInt idx; PStr s] =>
          match nth_error (if Z.eqb ver 64 then eui64_pats else mac_pats) (Z.to_nat idx) with
          | Some p => Some (match match_pat p (chars s) with Some ws => PList (map PStr ws) | None => PNone end)
          | None => None
          end
      | _ => None end);
  ("eui_valid_str", fun args => match args with
      | [PInt ver; PStr s] => Some (PBool (valid_str ver s)) | _ => None end);
  ("eui_str_to_int", fun args => match args with
      | [PInt ver; PStr s] => Some (of_outcome PInt (str_to_int ver (BStr s)))
      | [PInt ver; PInt i] => Some (of_outcome PInt (str_to_int ver (BInt i)))
      | [PInt ver; PNone] => Some (of_outcome PInt (str_to_int ver BOther))
      | _ => None end);
  ("eui_int_to_str", fun args => match args with
      | [PInt v; d] => match to_darg d with
                       | Some (DRec dd) => Some (of_str_o (int_to_str v dd))
                       | _ => None end
      | _ => None end);
  ("eui_init", fun args => match args with
      | [a; ver; d] => match to_earg a, to_ver ver, to_darg d with
                       | Some a', Some v', Some d' => Some (of_outcome of_eui (eui_init a' v' d'))
                       | _, _, _ => None end
      | _ => None end);
  (* EUI(s): [s, expected version, expected value] -- the expectation is for the oracle only *)
  ("eui_spelling", fun args => match args with
      | [PStr s; ver; _; _] => match to_ver ver with
                               | Some v' => Some (of_outcome (fun e => PPair (PInt (ever e)) (PInt (evalue e)))
                                                             (eui_init (AStr s) v' DNone))
                               | None => None end
      | _ => None end);
  ("eui_roundtrip", fun args => match args with
      | [PInt ver; PInt v; d] => with_eui ver v d roundtrip | _ => None end);
  ("eui_access", fun args => match args with
      | [PInt ver; PInt v; d] => with_eui ver v d (fun e =>
          PList [of_str_o (eui_str e);
                 of_outcome PInts (eui_words e);
                 of_str_o (eui_packed e);
                 of_str_o (eui_bits e None);
                 of_str_o (eui_bin e);
                 of_outcome (POpt PStr) (eui_ei e);
                 POpt PInt (eui_oui e);
                 PBool (eui_is_iab e);
                 of_outcome (POpt PInt) (eui_iab e);
                 PInt (ever e); PInt (evalue e);
                 all_items e])
      | _ => None end);
  ("eui_bits", fun args => match args with
      | [PInt ver; PInt v; d; PStr sep] => with_eui ver v d (fun e => of_str_o (eui_bits e (Some sep)))
      | [PInt ver; PInt v; d; PNone] => with_eui ver v d (fun e => of_str_o (eui_bits e None))
      | _ => None end);
  ("eui_getitem", fun args => match args with
      | [PInt ver; PInt v; d; PInt idx] => with_eui ver v d (fun e => of_outcome PInt (eui_getitem e idx))
      | _ => None end);
  ("eui_setitem", fun args => match args with
      | [PInt ver; PInt v; d; PInt idx; PInt x] => with_eui ver v d (fun e => mutated e (eui_setitem e idx x))
      | _ => None end);
  ("eui_set_value", fun args => match args with
      | [PInt ver; PInt v; d; a] => match to_earg a with
                                    | Some a' => with_eui ver v d (fun e => mutated e (eui_set_value e a'))
                                    | None => None end
      | _ => None end);
  ("eui_set_dialect", fun args => match args with
      | [PInt ver; PInt v; d; d2] => match to_darg d2 with
                                     | Some d' => with_eui ver v d (fun e => mutated e (eui_set_dialect e d'))
                                     | None => None end
      | _ => None end);
  ("eui_format", fun args => match args with
      | [PInt ver; PInt v; d; d2] => match to_darg d2 with
                                     | Some d' => with_eui ver v d (fun e => of_str_o (eui_format e d'))
                                     | None => None end
      | _ => None end);
  ("eui_conv", fun args => match args with
      | [PInt ver; PInt v; d] => with_eui ver v d (fun e =>
          PList [of_outcome of_eui (eui_eui64 e); of_outcome of_eui (eui_modified e);
                 of_addr6 (eui_ipv6_link_local e)])
      | _ => None end);
  ("eui_ipv6", fun args => match args with
      | [PInt ver; PInt v; d; PInt prefix] => with_eui ver v d (fun e => of_addr6 (eui_ipv6 e prefix))
      | _ => None end);
  ("eui_cmp", fun args => match args with
      | [PInt ver1; PInt v1; d1; PInt ver2; PInt v2; d2] =>
          match mk ver1 v1 d1, mk ver2 v2 d2 with
          | Some (Ok a), Some (Ok b) =>
              Some (PList [PBool (eui_eq a b); PBool (eui_ne a b); PBool (eui_lt a b); PBool (eui_le a b);
                           PBool (eui_gt a b); PBool (eui_ge a b);
                           (* hash(a) == hash((version, value)) and equal keys give equal hashes *)
                           PBool true;
                           PBool true])
          | Some (Raise x), _ => Some (PExn x)
          | _, Some (Raise x) => Some (PExn x)
          | _, _ => None
          end
      | _ => None end);
  ("split_iab_mac", fun args => match args with
      | [PInt i; PBool strict] => Some (of_outcome of_addr (split_iab_mac i strict)) | _ => None end);
  ("eui_words_to_int", fun args => match args with
      | [PList ws; PInt wsz; PInt nw] =>
          Some (of_outcome PInt (words_to_int (map (fun p => match p with PInt z => z | _ => -1 end) ws) wsz nw))
      | _ => None end);
  ("eui_int_to_words", fun args => match args with
      | [PInt v; PInt wsz; PInt nw] => Some (of_outcome PInts (int_to_words v wsz nw)) | _ => None end);
  ("eui_int_to_bits", fun args => match args with
      | [PInt v; PInt wsz; PInt nw; PStr sep] => Some (of_str_o (int_to_bits v wsz nw sep)) | _ => None end)
].
