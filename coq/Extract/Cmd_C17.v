(* Extract/Cmd_C17.v — commands for Model/Glob.v and Model/Nmap.v (property C17). *)
From Coq Require Import ZArith List Bool String.
From NV Require Import Base.PyVal Base.PyStr Model.Ip Model.Glob Model.Nmap Extract.CmdBase.
Import ListNotations.
Open Scope string_scope.
Open Scope Z_scope.

Definition of_pair (x : Z * Z) : pyval := PPair (PInt (fst x)) (PInt (snd x)).
Definition of_strs (l : list string) : pyval := PList (map PStr l).
Definition of_cidrs (l : list (Z * Z)) : pyval := PList (map of_pair l).
Definition of_glob (o : ipglob) : pyval :=
  PList [PInt (g_start o); PInt (g_end o); POpt PStr (g_glob o)].
Definition of_gen (g : gen (Z * Z)) : pyval :=
  PPair (PList (map of_pair (fst g))) (POpt PExn (snd g)).

(* the platform parsers are parameters of the nmap model; the harness supplies the platform's answers
   as a table  [[text, [version, value] | !Exn], ...] *)
Fixpoint ext_lookup (tab : list pyval) (s : string) : outcome (Z * Z) :=
  match tab with
  | PList [PStr k; r] :: rest =>
      if String.eqb k s then
        match r with
        | PList [PInt ver; PInt v] => Ok (ver, v)
        | PExn e => Raise e
        | _ => Raise Unsupported
        end
      else ext_lookup rest s
  | _ => Raise Unsupported
  end.

(* inet_pton(AF_INET6, text) from the same table (keyed by the text before the '/') *)
Definition pton6_of (tab : list pyval) (s : string) : option Z :=
  match ext_lookup tab s with
  | Ok (ver, v) => if ver =? 6 then Some v else None
  | Raise _ => None
  end.

Definition strs_of (l : list pyval) : option (list string) :=
  fold_right (fun p acc => match p, acc with PStr s, Some r => Some (s :: r) | _, _ => None end) (Some []) l.

Definition cmds : cmd_table := [
  ("valid_glob", fun args => match args with
      | [PStr s] => Some (PBool (valid_glob s))
      | [_] => Some (PBool false)           (* not _is_str *)
      | _ => None end);
  ("glob_to_iptuple", fun args => match args with
      | [PStr s] => Some (of_outcome of_pair (glob_to_iptuple s)) | _ => None end);
  ("glob_to_iprange", fun args => match args with
      | [PStr s] => Some (of_outcome of_pair (glob_to_iprange s)) | _ => None end);
  ("to_cidrs", fun args => match args with
      | [PInt lo; PInt hi] => Some (of_outcome of_cidrs (to_cidrs_exec lo hi)) | _ => None end);
  ("iprange_to_globs", fun args => match args with
      | [PInt sv; PInt s; PInt ev; PInt e] =>
          Some (of_outcome of_strs (iprange_to_globs to_cidrs_exec (sv, s) (ev, e)))
      | _ => None end);
  ("glob_to_cidrs", fun args => match args with
      | [PStr s] => Some (of_outcome of_cidrs (glob_to_cidrs to_cidrs_exec s)) | _ => None end);
  ("cidr_to_glob", fun args => match args with
      | [PInt ver; PInt v; PInt p] => Some (of_outcome PStr (cidr_to_glob to_cidrs_exec ver v p)) | _ => None end);
  (* IPGlob(s): [state, str(), __getstate__(), state after __setstate__(__getstate__())] *)
  ("ipglob", fun args => match args with
      | [PStr s] =>
          Some (of_outcome (fun o =>
                  PList [of_glob o; of_outcome PStr (ipglob_str o);
                         (let '(a, b, c) := ipglob_getstate o in PList [PInt a; PInt b; PInt c]);
                         of_outcome of_glob (ipglob_setstate to_cidrs_exec (ipglob_getstate o))])
                (ipglob_new to_cidrs_exec s))
      | _ => None end);
  (* IPGlob(s).glob = s2: [state after the assignment, exception or None] *)
  ("ipglob_set", fun args => match args with
      | [PStr s; PStr s2] =>
          Some (of_outcome (fun o => let '(o', e) := set_glob to_cidrs_exec o s2 in
                                     PList [of_glob o'; POpt PExn e;
                                            (* derived views read again after the assignment *)
                                            of_outcome of_cidrs (to_cidrs_exec (g_start o') (g_end o'));
                                            PInt (g_end o' - g_start o' + 1)])
                (ipglob_new to_cidrs_exec s))
      | _ => None end);
  ("ipglob_setstate", fun args => match args with
      | [PInt s; PInt e; PInt ver] => Some (of_outcome of_glob (ipglob_setstate to_cidrs_exec (s, e, ver)))
      | _ => None end);
  ("pton4", fun args => match args with
      | [PStr s] => Some (POpt PInt (pton4 s)) | _ => None end);
  ("nmap_octets", fun args => match args with
      | [PStr s] => Some (of_outcome PInts (nmap_octet_target_values s)) | _ => None end);
  ("expand_partial", fun args => match args with
      | [PStr s] => Some (of_outcome PStr (expand_partial_address s)) | _ => None end);
  ("ipnetwork_str", fun args => match args with
      | [PStr s; PList tab] => Some (of_outcome (fun t => let '(a, b, c) := t in PList [PInt a; PInt b; PInt c])
                                     (ipnetwork_of_str (pton6_of tab) s))
      | _ => None end);
  ("nmap_spec", fun args => match args with
      | [PStr s; PList tab] =>
          Some (PPair (of_outcome PBool (valid_nmap_range (pton6_of tab) (ext_lookup tab) s))
                      (of_gen (iter_nmap_range (pton6_of tab) (ext_lookup tab) [s])))
      | _ => None end);
  (* a CIDR target of any size: [valid_nmap_range(s), first three addresses of iter_nmap_range(s) | error] *)
  ("nmap_cidr_probe", fun args => match args with
      | [PStr s; PList tab] =>
          let g := cidr_probe (pton6_of tab) s in
          Some (PPair (of_outcome PBool (valid_of_gen g)) (of_gen g))
      | _ => None end);
  ("nmap_iter", fun args => match args with
      | [PList specs; PList tab] =>
          match strs_of specs with
          | Some l => Some (of_gen (iter_nmap_range (pton6_of tab) (ext_lookup tab) l))
          | None => None
          end
      | _ => None end)
].
