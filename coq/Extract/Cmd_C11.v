(* Extract/Cmd_C11.v — commands for Model/Subnet.v (property C11). *)
From Coq Require Import ZArith List Bool String.
From NV Require Import Base.PyVal Model.Ip Model.Subnet Extract.CmdBase.
Import ListNotations.
Open Scope Z_scope.
Open Scope string_scope.

(* a network on the wire: [version, value, prefixlen]; an address: [version, value] *)
Definition of_wnet (ver : Z) (n : wnet) : pyval := PList [PInt ver; PInt (fst n); PInt (snd n)].
Definition of_wnets (ver : Z) (l : list wnet) : pyval := PList (map (of_wnet ver) l).

Definition to_count (p : pyval) : option (option Z) :=
  match p with PNone => Some None | PInt c => Some (Some c) | _ => None end.

Definition lastn {A} (k : nat) (l : list A) : list A := skipn (List.length l - k) l.

(* mutator: [post-state, exception or None] *)
Definition of_inplace (ver : Z) (r : wnet * option exn) : pyval :=
  PPair (of_wnet ver (fst r)) (POpt PExn (snd r)).

(* next/previous: [result or exception, receiver afterwards] *)
Definition of_stepped (ver : Z) (self : wnet) (r : outcome wnet) : pyval :=
  PPair (of_outcome (of_wnet ver) r) (of_wnet ver self).

(* exhausting is only offered for generators of at most 2^17 elements *)
Definition small_enough (c : Z) : bool := (c <=? 131072)%Z.

Definition cmds : cmd_table := [
  (* [count, first k elements] *)
  ("c11_subnet", fun args => match args with
     | [PInt ver; PInt v; PInt p; PInt q; c; PInt k] =>
         match to_count c with
         | Some cnt => Some (of_outcome (fun r => PPair (PInt (fst r)) (of_wnets ver (snd r)))
                                        (subnet_take (width ver) (v, p) q cnt (Z.to_nat k)))
         | None => None
         end
     | _ => None end);
  (* [count, first k elements, last k elements] of the exhausted generator *)
  ("c11_subnet_ends", fun args => match args with
     | [PInt ver; PInt v; PInt p; PInt q; c; PInt k] =>
         match to_count c with
         | Some cnt =>
             match subnet_start (width ver) (v, p) q cnt with
             | Ok (Some g) =>
                 if small_enough (sg_count g) then
                   Some (of_outcome (fun l => PList [PInt (Z.of_nat (List.length l)); of_wnets ver (firstn (Z.to_nat k) l);
                                                     of_wnets ver (lastn (Z.to_nat k) l)])
                                    (gen_take (subnet_next (width ver)) (Z.to_nat (sg_count g) + 1) g))
                 else None
             | Ok None => Some (PList [PInt 0; PList []; PList []])
             | Raise e => Some (PExn e)
             end
         | None => None
         end
     | _ => None end);
  ("c11_supernet", fun args => match args with
     | [PInt ver; PInt v; PInt p; PInt q] => Some (of_outcome (of_wnets ver) (supernet (width ver) (v, p) q))
     | _ => None end);
  ("c11_iadd", fun args => match args with
     | [PInt ver; PInt v; PInt p; PInt k] =>
         Some (of_inplace ver (apply_inplace (fun n => net_iadd (width ver) n k) (v, p)))
     | _ => None end);
  ("c11_isub", fun args => match args with
     | [PInt ver; PInt v; PInt p; PInt k] =>
         Some (of_inplace ver (apply_inplace (fun n => net_isub (width ver) n k) (v, p)))
     | _ => None end);
  ("c11_next", fun args => match args with
     | [PInt ver; PInt v; PInt p; PInt k] => Some (of_stepped ver (v, p) (net_next (width ver) (v, p) k))
     | _ => None end);
  ("c11_previous", fun args => match args with
     | [PInt ver; PInt v; PInt p; PInt k] => Some (of_stepped ver (v, p) (net_previous (width ver) (v, p) k))
     | _ => None end);
  (* [number of hosts, first k hosts] *)
  ("c11_hosts", fun args => match args with
     | [PInt ver; PInt v; PInt p; PInt k] =>
         Some (of_outcome (fun r => PPair (PInt (fst r)) (PList (map of_addr (snd r))))
                          (hosts_take ver (v, p) (Z.to_nat k)))
     | _ => None end);
  (* [number of addresses, first k addresses] *)
  ("c11_iprange", fun args => match args with
     | [PInt sver; PInt s; PInt ever; PInt e; PInt step; PInt k] =>
         Some (of_outcome (fun r => PPair (PInt (fst r)) (PList (map of_addr (snd r))))
                 (do g <- iter_iprange (sver, s) (ever, e) step;
                  do l <- gen_take iprange_next (Z.to_nat k) g; Ok (iprange_remaining g, l)))
     | _ => None end)
].
