(* Extract/Cmd_Sets.v — a small register machine over IPSet values, driving Model/Sets.v (C06, C07). *)
From Coq Require Import ZArith List Bool String.
From NV Require Import Base.PyVal Model.Ip Model.Partition Model.Span Model.Merge Model.Sets Extract.CmdBase.
Import ListNotations.
Open Scope Z_scope.
Open Scope string_scope.

Definition of_n (n : net) : pyval := PList [PInt (nver n); PInt (nval n); PInt (nplen n)].
Definition of_dict (d : dict) : pyval := PList (map of_n d).
Definition of_rng (r : rng) : pyval := let '(v, s, e) := r in PList [PInt v; PInt s; PInt e].

Definition to_elem (p : pyval) : option elem :=
  match p with
  | PList [PStr "i"; PInt i] => Some (EInt i)
  | PList [PStr "a"; PInt ver; PInt v] => Some (EAddr ver v)
  | PList [PStr "as"; PInt ver; PInt v] => Some (EAddr ver v)
  | PList [PStr "n"; PInt ver; PInt v; PInt pl] => Some (ENet {| nver := ver; nval := v; nplen := pl |})
  | PList [PStr "s"; PInt ver; PInt v; PInt pl] => Some (ENet {| nver := ver; nval := v; nplen := pl |})
  | PList [PStr "r"; PInt ver; PInt s; PInt e] => Some (ERange ver s e)
  | PList [PStr "g"; PInt ver; PInt s; PInt e; PStr _] => Some (ERange ver s e)
  | _ => None
  end.
Fixpoint to_elems (l : list pyval) : option (list elem) :=
  match l with
  | [] => Some []
  | x :: r => match to_elem x, to_elems r with Some a, Some b => Some (a :: b) | _, _ => None end
  end.

Definition regs := list dict.
Definition get (rs : regs) (i : Z) : dict := nth (Z.to_nat i) rs [].
Fixpoint set_nth (rs : regs) (i : nat) (d : dict) : regs :=
  match rs, i with
  | [], _ => []
  | _ :: r, O => d :: r
  | x :: r, S k => x :: set_nth r k d
  end.
Definition put (rs : regs) (i : Z) (d : dict) : regs := set_nth rs (Z.to_nat i) d.

Definition to_sarg (rs : regs) (p : pyval) : option sarg :=
  match p with
  | PList [PStr "none"] => Some ANone
  | PList [PStr "set"; PInt r] => Some (ASet (get rs r))
  | PList [PStr "iter"; PList l] => match to_elems l with Some es => Some (AIter es) | None => None end
  | PList [PStr "n"; PInt ver; PInt v; PInt pl] => Some (ANet {| nver := ver; nval := v; nplen := pl |})
  | PList [PStr "r"; PInt ver; PInt s; PInt e] => Some (ARange ver s e)
  | PList [PStr "g"; PInt ver; PInt s; PInt e; PStr _] => Some (ARange ver s e)
  | _ => None
  end.

(* result of one step: [exception or None; observation] *)
Definition step_res (e : option exn) (obs : pyval) : pyval := PList [POpt PExn e; obs].

Definition mut (rs : regs) (r : Z) (o : outcome dict) : regs * pyval :=
  match o with
  | Ok d => (put rs r d, step_res None (of_dict d))
  | Raise e => (rs, step_res (Some e) (of_dict (get rs r)))
  end.

Definition q_bool (b : bool) := step_res None (PBool b).

Definition step (rs : regs) (op : pyval) : regs * pyval :=
  match op with
  | PList [PStr "init"; PInt r; a] =>
      match to_sarg rs a with Some sa => mut rs r (set_init sa) | None => (rs, bad) end
  | PList [PStr "add"; PInt r; e] =>
      match to_elem e with Some el => mut rs r (set_add (get rs r) el) | None => (rs, bad) end
  | PList [PStr "remove"; PInt r; e] =>
      match to_elem e with Some el => mut rs r (set_remove (get rs r) el) | None => (rs, bad) end
  | PList [PStr "update"; PInt r; a] =>
      match to_sarg rs a with Some sa => mut rs r (set_update (get rs r) sa) | None => (rs, bad) end
  | PList [PStr "clear"; PInt r] => mut rs r (Ok [])
  | PList [PStr "compact"; PInt r] => mut rs r (set_compact (get rs r))
  | PList [PStr "copy"; PInt dst; PInt src] => mut rs dst (Ok (dupdate [] (get rs src)))
  | PList [PStr "pickle"; PInt r] => mut rs r (set_setstate (set_getstate (get rs r)))
  | PList [PStr "pop"; PInt r] =>
      match set_pop (get rs r) with
      | Ok (d, k) => (put rs r d, PList [PNone; of_dict d; of_n k])
      | Raise e => (rs, PList [PExn e; of_dict (get rs r); PNone])
      end
  | PList [PStr "union"; PInt dst; PInt a; PInt b] => mut rs dst (set_union (get rs a) (get rs b))
  | PList [PStr "inter"; PInt dst; PInt a; PInt b] => mut rs dst (set_intersection (get rs a) (get rs b))
  | PList [PStr "diff"; PInt dst; PInt a; PInt b] => mut rs dst (set_difference (get rs a) (get rs b))
  | PList [PStr "xor"; PInt dst; PInt a; PInt b] => mut rs dst (set_symdiff (get rs a) (get rs b))
  | PList [PStr "contains"; PInt r; e] =>
      match to_elem e with
      | Some (ENet n) => (rs, q_bool (set_contains (get rs r) n))
      | Some (EAddr ver v) => (rs, q_bool (set_contains (get rs r) (addr_net ver v)))
      | _ => (rs, bad)
      end
  | PList [PStr "cmp"; PInt a; PInt b] =>
      let x := get rs a in let y := get rs b in
      (rs, step_res None (PList [PBool (dict_eqb x y); PBool (negb (dict_eqb x y));
                                 PBool (set_lt x y); PBool (set_issubset x y);
                                 PBool (set_gt x y); PBool (set_issuperset x y);
                                 of_outcome PBool (set_isdisjoint x y)]))
  | PList [PStr "view"; PInt r] =>
      let d := get rs r in
      (rs, step_res None (PList [of_dict (sorted d); PInt (set_size d); of_outcome PInt (set_len d);
                                 PBool (set_iscontiguous d);
                                 of_outcome (POpt of_rng) (set_iprange d);
                                 PList (map of_rng (set_iter_ipranges d));
                                 PBool (match d with [] => false | _ => true end)]))
  | _ => (rs, bad)
  end.

Fixpoint run_ops (rs : regs) (ops : list pyval) : list pyval :=
  match ops with
  | [] => []
  | o :: r => let '(rs', res) := step rs o in res :: run_ops rs' r
  end.

Definition cmds : cmd_table := [
  ("sets_run", fun args => match args with
      | [PList ops] => Some (PList (run_ops [[]; []; []; []] ops))
      | _ => None end)
].
