(* Extract/Cmd_C14.v — commands for Model/AddrOps.v (property C14).
   Binary operators answer [result | exception, receiver afterwards, operand afterwards]. *)
From Coq Require Import ZArith List Bool String.
From NV Require Import Base.PyVal Model.Ip Model.AddrOps Extract.CmdBase.
Import ListNotations.
Open Scope Z_scope.
Open Scope string_scope.

Definition to_version (p : pyval) : option (option Z) :=
  match p with PNone => Some None | PInt ver => Some (Some ver) | _ => None end.

Definition to_operand (p : pyval) : option operand :=
  match p with
  | PInt n => Some (OInt n)
  | PList [PInt ver; PInt v] => Some (OAddr ver v)
  | _ => None
  end.

Definition of_operand (o : operand) : pyval :=
  match o with OInt n => PInt n | OAddr ver v => of_addr (ver, v) end.

Definition res3 (r : outcome (Z * Z)) (ver v : Z) (o : pyval) : pyval :=
  PList [of_outcome of_addr r; of_addr (ver, v); o].

Definition arith (f : Z -> Z -> Z -> outcome (Z * Z)) (args : list pyval) : option pyval :=
  match args with
  | [PInt ver; PInt v; PInt n] => Some (res3 (f ver v n) ver v (PInt n))
  | _ => None
  end.

Definition inpl (f : Z -> Z -> Z -> outcome (Z * Z) * (Z * Z)) (args : list pyval) : option pyval :=
  match args with
  | [PInt ver; PInt v; PInt n] =>
      let '(r, s) := f ver v n in Some (PList [of_outcome of_addr r; of_addr s; PInt n])
  | _ => None
  end.

Definition bitw (f : Z -> Z -> operand -> outcome (Z * Z)) (args : list pyval) : option pyval :=
  match args with
  | [PInt ver; PInt v; p] =>
      match to_operand p with
      | Some o => Some (res3 (f ver v o) ver v (of_operand o))
      | None => None
      end
  | _ => None
  end.

Definition cmds : cmd_table := [
  ("c14_ctor", fun args => match args with
     | [PInt i; p] => match to_version p with
                      | Some version => Some (of_outcome of_addr (ctor_int i version))
                      | None => None end
     | _ => None end);
  ("c14_copy", fun args => match args with
     | [PInt ver; PInt v; p] => match to_version p with
                      | Some version => Some (PList [of_outcome of_addr (ctor_copy ver v version); of_addr (ver, v)])
                      | None => None end
     | _ => None end);
  ("c14_add", arith obj_add);
  ("c14_radd", arith obj_radd);
  ("c14_sub", arith obj_sub);
  ("c14_rsub", arith obj_rsub);
  ("c14_iadd", inpl obj_iadd);
  ("c14_isub", inpl obj_isub);
  ("c14_or", bitw obj_or);
  ("c14_and", bitw obj_and);
  ("c14_xor", bitw obj_xor);
  ("c14_lshift", arith obj_lshift);
  ("c14_rshift", arith obj_rshift);
  ("c14_views", fun args => match args with
     | [PInt ver; PInt v] =>
         Some (PList [PInt (view_int v); PInt (view_index v); of_outcome PStr (view_hex (view_index v));
                      of_outcome PStr (view_hex v); PBool (view_bool v)])
     | _ => None end)
].
