(* Extract/Cmd_C20.v — SubnetSplitter histories (Model/Splitter.v). *)
From Coq Require Import ZArith List Bool String.
From NV Require Import Base.PyVal Model.Ip Model.Partition Model.Splitter Extract.CmdBase.
Import ListNotations.
Open Scope Z_scope.
Open Scope string_scope.

Definition of_cblk (b : cblk) : pyval := PList [PInt (fst b); PInt (snd b)].
Definition of_cblks (l : list cblk) : pyval := PList (map of_cblk l).

Definition to_op (p : pyval) : option sp_op :=
  match p with
  | PList [PStr "extract"; PInt q; PNone] => Some (SpExtract q None)
  | PList [PStr "extract"; PInt q; PInt c] => Some (SpExtract q (Some c))
  | PList [PStr "remove"; PInt v; PInt pl] => Some (SpRemove (v, pl))
  | PList [PStr "noop"] => Some (SpExtract (-1) (Some 0))
  | _ => None
  end.

(* per step: [returned subnets or exception; available_subnets() afterwards] *)
Definition resolve (st : sp_state) (p : pyval) : pyval :=
  match p with
  | PList [PStr "remove_ix"; PInt i] =>
      let av := available_subnets st in
      match av with
      | [] => PList [PStr "noop"]
      | d :: _ => let k := nth (Z.to_nat (i mod Z.of_nat (List.length av))) av d in
                  PList [PStr "remove"; PInt (fst k); PInt (snd k)]
      end
  | _ => p
  end.

Fixpoint run_sp (ver : Z) (st : sp_state) (ops : list pyval) : list pyval :=
  match ops with
  | [] => []
  | o :: r => match to_op (resolve st o) with
              | None => [bad]
              | Some op => let '(st', res) := sp_step ver st op in
                           PList [of_outcome of_cblks res; of_cblks (available_subnets st')] :: run_sp ver st' r
              end
  end.

Definition cmds : cmd_table := [
  ("c20_history", fun args => match args with
      | [PInt ver; PInt v; PInt p; PList ops] => Some (PList (run_sp ver [(v, p)] ops))
      | _ => None end)
].
