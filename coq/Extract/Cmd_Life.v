(* Extract/Cmd_Life.v — the model side of the object-lifecycle checks (harness/lifecycle.py): the functional model has no
   hidden state and no aliasing, so the list of discrepancies between an object with a history and a fresh one is empty. *)
From Coq Require Import ZArith List String.
From NV Require Import Base.PyVal Extract.CmdBase.
Import ListNotations.
Open Scope string_scope.

(* `uni` (harness/unistream.py): texts with characters beyond the model's 8-bit alphabet at the strict entry points; every such
   text is outside every grammar, the prescribed answer is refusal, the list of discrepancies is empty. *)
Definition cmds : cmd_table := [ ("life", fun _ => Some (PList [])); ("uni", fun _ => Some (PList [])) ].
