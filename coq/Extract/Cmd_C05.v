(* Extract/Cmd_C05.v — commands for Model/Merge.v (iprange_to_cidrs, cidr_merge) and their ingredients. *)
From Coq Require Import ZArith List Bool String.
From NV Require Import Base.PyVal Model.Ip Model.Partition Model.Span Model.Merge Extract.CmdBase.
Import ListNotations.
Open Scope Z_scope.
Open Scope string_scope.

Definition of_net3 (n : net) : pyval := PList [PInt (nver n); PInt (nval n); PInt (nplen n)].
Definition to_net3 (p : pyval) : option net :=
  match p with PList [PInt ver; PInt v; PInt pl] => Some {| nver := ver; nval := v; nplen := pl |} | _ => None end.
Definition of_nets (l : list net) : pyval := PList (map of_net3 l).

Definition to_mitem (p : pyval) : option mitem :=
  match p with
  | PList [PStr "n"; PInt ver; PInt v; PInt pl] => Some (MNet {| nver := ver; nval := v; nplen := pl |})
  | PList [PStr "r"; PInt ver; PInt s; PInt e] => Some (MRange ver s e)
  | _ => None
  end.
Fixpoint to_mitems (l : list pyval) : option (list mitem) :=
  match l with
  | [] => Some []
  | x :: r => match to_mitem x, to_mitems r with Some a, Some b => Some (a :: b) | _, _ => None end
  end.

Definition cmds : cmd_table := [
  ("c05_iprange_to_cidrs", fun args => match args with
      | [a; b] => match to_net3 a, to_net3 b with
                  | Some s, Some e => Some (of_outcome of_nets (iprange_to_cidrs s e))
                  | _, _ => None end
      | _ => None end);
  ("c05_cidr_merge", fun args => match args with
      | [PList items] => match to_mitems items with
                         | Some ms => Some (of_outcome of_nets (cidr_merge ms))
                         | None => None end
      | _ => None end);
  ("c05_cidr_merge_forms", fun args => match args with
      | [PList items; PList _] => match to_mitems items with
                         | Some ms => Some (of_outcome of_nets (cidr_merge ms))
                         | None => None end
      | _ => None end)
].
