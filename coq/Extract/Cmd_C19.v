(* Extract/Cmd_C19.v — commands for Model/Iana.v (over the generated table iana_impl) and Model/Ieee.v. *)
From Coq Require Import ZArith List Bool String.
From NV Require Import Base.PyVal Model.Iana Model.Ieee Extract.CmdBase Gen.iana_gen.
Import ListNotations.
Open Scope Z_scope.
Open Scope string_scope.

(* the records returned by query(), per result key in dict order, each as [first, last] of its key *)
Definition of_info (info : list (Z * list Iana.irow)) : pyval :=
  PList (map (fun '(reg, rows) => PPair (PInt reg) (PList (map (fun r => PPair (PInt (row_first r)) (PInt (row_last r))) rows))) info).

Fixpoint to_lines (l : list pyval) : option (list string) :=
  match l with
  | [] => Some []
  | PStr s :: t => match to_lines t with Some r => Some (s :: r) | None => None end
  | _ => None
  end.

Definition of_oui (r : list ouirow * option exn) : pyval :=
  PPair (PList (map (fun '(i, o, s) => PList [PInt i; PInt o; PInt s]) (fst r))) (POpt PExn (snd r)).
Definition of_ikey (k : ikey) : pyval := match k with KB s => PStr s | KI z => PInt z end.
Definition of_iab (r : list iabrow * option exn) : pyval :=
  PPair (PList (map (fun '(i, o, s) => PList [of_ikey i; PInt o; PInt s]) (fst r))) (POpt PExn (snd r)).

Fixpoint to_idxrows (l : list pyval) : option (list idxrow) :=
  match l with
  | [] => Some []
  | PList [PInt o; PInt s; PStr d] :: t => match to_idxrows t with Some r => Some ((o, s, d) :: r) | None => None end
  | _ => None
  end.
Definition of_regrec (r : regrec) : pyval :=
  let '(idx, org, address, offset, size) := r in
  PList [PInt idx; PStr org; PList (map PStr address); PInt offset; PInt size].

Definition cmds : cmd_table := [
  ("iana_query", fun args => match args with [PInt ver; PInt v] => Some (of_info (query iana_impl ver v)) | _ => None end);
  ("oui_parse", fun args => match args with [PList l] => match to_lines l with Some ls => Some (of_oui (oui_parse ls)) | None => None end | _ => None end);
  ("iab_parse", fun args => match args with [PList l] => match to_lines l with Some ls => Some (of_iab (iab_parse ls)) | None => None end | _ => None end);
  ("oui_parse_any", fun args => match args with [PList l] => match to_lines l with Some ls => Some (of_oui (oui_parse ls)) | None => None end | _ => None end);
  ("iab_parse_any", fun args => match args with [PList l] => match to_lines l with Some ls => Some (of_iab (iab_parse ls)) | None => None end | _ => None end);
  ("iab_shipped", fun args => match args with [PList l] => match to_lines l with Some ls => Some (of_iab (iab_parse ls)) | None => None end | _ => None end);
  ("iab_lookup", fun args => match args with [PInt k; PList rows] => match to_idxrows rows with Some rs => Some (of_outcome of_regrec (iab_lookup k rs)) | None => None end | _ => None end);
  ("oui_lookup", fun args => match args with [PInt k; PList rows] => match to_idxrows rows with Some rs => Some (of_outcome (fun l => PList (map of_regrec l)) (oui_lookup k rs)) | None => None end | _ => None end);
  ("int16", fun args => match args with [PStr s] => Some (of_outcome PInt (int16 s)) | _ => None end)
].
