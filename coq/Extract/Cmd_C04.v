(* Extract/Cmd_C04.v — commands for Model/Contains.v (C04). *)
From Coq Require Import ZArith List Bool String.
From NV Require Import Base.PyVal Model.Ip Model.Contains Extract.CmdBase.
Import ListNotations.
Open Scope Z_scope.
Open Scope string_scope.

Definition of_net3 (n : net) : pyval := PList [PInt (nver n); PInt (nval n); PInt (nplen n)].

Fixpoint to_nets (l : list pyval) : option (list net) :=
  match l with
  | [] => Some []
  | PList [PInt ver; PInt v; PInt p] :: t =>
      match to_nets t with Some r => Some ({| nver := ver; nval := v; nplen := p |} :: r) | None => None end
  | _ => None
  end.

(* a BaseIP operand *)
Definition to_obj (kind : string) (ver a b : Z) : option ipobj :=
  if String.eqb kind "addr" then Some (Addr ver a)
  else if String.eqb kind "net" then Some (Net ver a b)
  else if String.eqb kind "range" then Some (Rng ver a b)
  else if String.eqb kind "glob" then Some (Rng ver a b)          (* IPGlob is an IPRange *)
  else None.

(* `x in y`; ykind: net | range | glob (own __contains__), mixnet | mixrange (IPListMixin.__contains__ on the
   same state); xkind: addr | net | range | glob | addr_str | cidr_str (strings go through the constructor
   named by the container's fallback line; their parse result is (xver, xa[, xb])) *)
Definition run_contains (ykind : string) (yver ya yb : Z) (xkind : string) (xver xa xb : Z) : option pyval :=
  let is_net := String.eqb ykind "net" in
  let is_rng := String.eqb ykind "range" || String.eqb ykind "glob" in
  let is_mix := String.eqb ykind "mixnet" || String.eqb ykind "mixrange" in
  let self := if String.eqb ykind "mixnet" then Net yver ya yb else Rng yver ya yb in
  if negb (is_net || is_rng || is_mix) then None
  else if String.eqb xkind "addr_str" then
    Some (of_outcome PBool
      (if is_net then net_contains_other width yver ya yb (Ok {| nver := xver; nval := xa; nplen := width xver |})
       else if is_rng then range_contains_other width yver ya yb (Ok (xver, xa))
       else mixin_contains_other width self (Ok (xver, xa))))
  else if String.eqb xkind "cidr_str" then
    (if is_net then Some (of_outcome PBool
        (net_contains_other width yver ya yb (Ok {| nver := xver; nval := xa; nplen := xb |})))
     else None)
  else match to_obj xkind xver xa xb with
       | None => None
       | Some x =>
           Some (of_outcome PBool
             (if is_net then contains width (Net yver ya yb) x
              else if is_rng then contains width (Rng yver ya yb) x
              else mixin_contains width self x))
       end.

Definition of_key (k : Z * Z * Z * Z) : pyval :=
  let '(a, b, c, d) := k in PList [PInt a; PInt b; PInt c; PInt d].

Definition cmds : cmd_table := [
  ("contains", fun args => match args with
      | [PStr yk; PInt yver; PInt ya; PInt yb; PStr xk; PInt xver; PInt xa; PInt xb] =>
          run_contains yk yver ya yb xk xver xa xb
      | _ => None end);
  ("net_sort_key", fun args => match args with
      | [PInt ver; PInt v; PInt p] => Some (of_key (sort_key width {| nver := ver; nval := v; nplen := p |}))
      | _ => None end);
  ("sorted_nets", fun args => match args with
      | [PList l] => match to_nets l with Some ns => Some (PList (map of_net3 (py_sorted width ns))) | None => None end
      | _ => None end);
  (* the last argument says how ip / candidates are handed over (objects or strings); IPAddress(ip) and
     IPNetwork(cidr) denote the same objects either way *)
  ("all_matching", fun args => match args with
      | [PInt ipver; PInt ipv; PList l; PInt _] =>
          match to_nets l with
          | Some ns => Some (of_outcome (fun r => PList (map of_net3 r)) (all_matching_cidrs width ipver ipv ns))
          | None => None end
      | _ => None end);
  ("smallest_matching", fun args => match args with
      | [PInt ipver; PInt ipv; PList l; PInt _] =>
          match to_nets l with
          | Some ns => Some (of_outcome (POpt of_net3) (smallest_matching_cidr width ipver ipv ns))
          | None => None end
      | _ => None end);
  ("largest_matching", fun args => match args with
      | [PInt ipver; PInt ipv; PList l; PInt _] =>
          match to_nets l with
          | Some ns => Some (of_outcome (POpt of_net3) (largest_matching_cidr width ipver ipv ns))
          | None => None end
      | _ => None end)
].
