(* Extract/Cmd_C10.v — commands for Model/PySlice.v and Model/ListLike.v (property C10). *)
From Coq Require Import ZArith List Bool String.
From NV Require Import Base.PyVal Model.Ip Model.PySlice Model.ListLike Extract.CmdBase.
Import ListNotations.
Open Scope Z_scope.
Open Scope string_scope.

Definition to_ranged (p : pyval) : option ranged :=
  match p with
  | PList [PStr "net"; PInt ver; PInt v; PInt pl] => Some (RNet ver v pl)
  | PList [PStr "range"; PInt ver; PInt s; PInt e] => Some (RRange ver s e)
  | PList [PStr "glob"; PInt s; PInt e] => Some (RGlob s e)
  | _ => None
  end.

(* None or an int *)
Definition to_oint (p : pyval) : option (option Z) :=
  match p with PNone => Some None | PInt z => Some (Some z) | _ => None end.

Definition of_status (s : gstatus) : pyval :=
  match s with Done => PStr "done" | More => PStr "more" | Raised e => PExn e end.
Definition of_taken (r : list Z * gstatus) : pyval := PList [PInts (fst r); of_status (snd r)].
Definition of_triple (t : Z * Z * Z) : pyval :=
  let '(a, b, c) := t in PList [PInt a; PInt b; PInt c].

Definition slice_cmd (x : ranged) (a b c : option Z) (limit : Z) : pyval :=
  of_outcome (fun it => of_taken (it_take (Z.to_nat limit) it)) (r_getitem_slice x a b c).

Fixpoint slice_row (x : ranged) (a c : option Z) (limit : Z) (stops : list pyval) : list pyval :=
  match stops with
  | [] => []
  | s :: t => (match to_oint s with Some b => slice_cmd x a b c limit | None => bad end) :: slice_row x a c limit t
  end.

Definition cmds : cmd_table := [
  ("c10_slice_indices", fun args => match args with
     | [a; b; c; PInt n] => match to_oint a, to_oint b, to_oint c with
         | Some a, Some b, Some c => Some (of_outcome of_triple (py_slice_indices a b c n)) | _, _, _ => None end
     | _ => None end);
  ("c10_range_len", fun args => match args with
     | [PInt a; PInt b; PInt c] => Some (of_outcome PInt (py_range_len a b c)) | _ => None end);
  ("c10_list_slice", fun args => match args with
     | [PList l; a; b; c] => match to_oint a, to_oint b, to_oint c with
         | Some a, Some b, Some c => Some (of_outcome PList (py_list_slice l a b c)) | _, _, _ => None end
     | _ => None end);
  ("c10_list_index", fun args => match args with
     | [PList l; PInt i] => Some (of_outcome (fun v => v) (py_list_index l i)) | _ => None end);
  ("c10_addresses", fun args => match args with
     | [o] => match to_ranged o with
         | Some x => Some (if (r_size x <=? 4096)%Z then PInts (r_addresses x) else bad) | None => None end
     | _ => None end);
  ("c10_size_len", fun args => match args with
     | [o] => match to_ranged o with
         | Some x => Some (PList [PInt (r_ver x); PInt (r_first x); PInt (r_last x); PInt (r_size x); of_outcome PInt (r_len x)])
         | None => None end
     | _ => None end);
  ("c10_iter", fun args => match args with
     | [o; PInt limit] => match to_ranged o with
         | Some x => Some (of_outcome (fun it => of_taken (it_take (Z.to_nat limit) it)) (r_iter x))
         | None => None end
     | _ => None end);
  ("c10_index", fun args => match args with
     | [o; PInt i] => match to_ranged o with
         | Some x => Some (of_outcome of_addr (r_getitem_int x i))
         | None => None end
     | _ => None end);
  ("c10_slice", fun args => match args with
     | [o; a; b; c; PInt limit] => match to_ranged o, to_oint a, to_oint b, to_oint c with
         | Some x, Some a, Some b, Some c => Some (slice_cmd x a b c limit) | _, _, _, _ => None end
     | _ => None end);
  ("c10_slice_row", fun args => match args with
     | [o; a; c; PList stops; PInt limit] => match to_ranged o, to_oint a, to_oint c with
         | Some x, Some a, Some c => Some (PList (slice_row x a c limit stops)) | _, _, _ => None end
     | _ => None end);
  ("c10_iprange", fun args => match args with
     | [PInt sver; PInt sv; PInt ever; PInt ev; PInt step; PInt limit] =>
         Some (of_taken (iter_iprange_take (Z.to_nat limit) sver sv ever ev step))
     | _ => None end)
].
