(* Extract/Cmd_C13.v — command for Model/Span.v (C13).
   spanning_cidr [[ver; value; prefixlen; form]; ...] container: `form` only tells the implementation adapter how to present
   the element (IPNetwork object, string, IPAddress) and `container` the kind of iterable (list, tuple, generator); the model sees the constructed network (ver, value, prefixlen). *)
From Coq Require Import ZArith List Bool String.
From NV Require Import Base.PyVal Model.Ip Model.Span Extract.CmdBase.
Import ListNotations.
Open Scope Z_scope.
Open Scope string_scope.

Fixpoint to_nets (l : list pyval) : option (list net) :=
  match l with
  | [] => Some []
  | PList [PInt ver; PInt v; PInt p; PInt _] :: t =>
      match to_nets t with
      | Some r => Some ({| nver := ver; nval := v; nplen := p |} :: r)
      | None => None
      end
  | _ => None
  end.

Definition of_net3 (n : net) : pyval := PList [PInt (nver n); PInt (nval n); PInt (nplen n)].

Definition cmds : cmd_table := [
  ("spanning_cidr", fun args => match args with
     | [PList items; PInt _] => match to_nets items with
                        | Some l => Some (of_outcome of_net3 (spanning_cidr l))
                        | None => None
                        end
     | _ => None end)
].
