(* Extract/Cmd_C01.v — commands for Model/IpText.v, Model/FbSocket.v, Model/AddrText.v (property C01).
   Commands whose model takes a back-end evaluate BOTH back-ends and answer only when they coincide (the
   property says they must); otherwise the answer is a BACKEND-DIFF marker that no implementation run can equal. *)
From Coq Require Import ZArith List Bool String Ascii.
From NV Require Import Base.PyVal Base.PyStr Model.IpText Model.FbSocket Model.AddrText Extract.CmdBase.
Import ListNotations.
Open Scope string_scope.
Open Scope list_scope.
Open Scope Z_scope.

Definition ints_of (l : list pyval) : option (list Z) :=
  map_opt (fun p => match p with PInt z => Some z | _ => None end) l.
Definition strs_of (l : list pyval) : option (list string) :=
  map_opt (fun p => match p with PStr s => Some s | _ => None end) l.

Definition both (a b : pyval) : pyval :=
  if pyval_eqb a b then a else PList [PStr "BACKEND-DIFF"; a; b].

Definition dialect_of (p : pyval) : option (option dialect) :=
  match p with
  | PNone => Some None
  | PStr "compact" => Some (Some ipv6_compact)
  | PStr "full" => Some (Some ipv6_full)
  | PStr "verbose" => Some (Some ipv6_verbose)
  | _ => None
  end.
Definition version_of (p : pyval) : option (option Z) :=
  match p with PNone => Some None | PInt v => Some (Some v) | _ => None end.

Definition of_opt_ints (o : option (list Z)) : pyval := match o with Some l => PInts l | None => PNone end.

(* IPAddress(format(IPAddress(v, ver), dialect), version, flags) *)
Definition roundtrip (be : backend) (ver v : Z) (d : option dialect) (version : option Z) (flags : Z) : outcome (Z * Z) :=
  do s <- int_to_str be ver v d; init_str be s version flags.

Definition cmds : cmd_table := [
  ("std_pton4", fun args => match args with [PStr s] => Some (of_opt_ints (Std4.pton4 s)) | _ => None end);
  ("std_aton", fun args => match args with [PStr s] => Some (POpt PInt (Std4.aton s)) | _ => None end);
  ("std_ntoa", fun args => match args with
      | [PList l] => match ints_of l with Some o => Some (PStr (Std4.ntoa o)) | None => None end | _ => None end);
  ("std_pton6", fun args => match args with [PStr s] => Some (of_opt_ints (Std6.pton6 s)) | _ => None end);
  ("std_ntop6", fun args => match args with
      | [PList l] => match ints_of l with Some ws => Some (PStr (Std6.ntop6 ws)) | None => None end | _ => None end);
  ("fb_ntoa", fun args => match args with
      | [PList l] => match ints_of l with Some o => Some (of_outcome PStr (Fb.inet_ntoa o)) | None => None end
      | _ => None end);
  ("fb_compact", fun args => match args with
      | [PList l] => match strs_of l with Some t => Some (PList (map PStr (Fb.compact_ipv6_tokens t))) | None => None end
      | _ => None end);
  ("fb_ntop6", fun args => match args with
      | [PList l] => match ints_of l with Some ws => Some (of_outcome PStr (Fb.inet_ntop6 ws)) | None => None end
      | _ => None end);
  ("fb_pton4", fun args => match args with [PStr s] => Some (of_outcome PInts (Fb.inet_pton4 s)) | _ => None end);
  ("fb_pton6", fun args => match args with [PStr s] => Some (of_outcome PInts (Fb.inet_pton6 s)) | _ => None end);
  ("c01_split_dc", fun args => match args with
      | [PStr s] => Some (PList [PList (map (fun l => PStr (str_of l)) (split_dc_chars (chars s) []));
                                 PBool (contains_dc_chars (chars s))])
      | _ => None end);
  ("ip_init", fun args => match args with
      | [PStr s; ver; PInt flags] =>
          match version_of ver with
          | Some version => Some (both (of_outcome of_addr (init_str Platform s version flags))
                                       (of_outcome of_addr (init_str Fallback s version flags)))
          | None => None
          end
      | _ => None end);
  ("str_to_int", fun args => match args with
      | [PInt ver; PStr s; PInt flags] =>
          Some (both (of_outcome PInt (str_to_int Platform ver s flags)) (of_outcome PInt (str_to_int Fallback ver s flags)))
      | _ => None end);
  ("valid_str", fun args => match args with
      | [PInt ver; PStr s; PInt flags] =>
          Some (both (of_outcome PBool (valid_str Platform ver s flags)) (of_outcome PBool (valid_str Fallback ver s flags)))
      | _ => None end);
  ("ip_format", fun args => match args with
      | [PInt ver; PInt v; d] =>
          match dialect_of d with
          | Some dl => Some (both (of_outcome PStr (int_to_str Platform ver v dl)) (of_outcome PStr (int_to_str Fallback ver v dl)))
          | None => None
          end
      | _ => None end);
  ("ip_roundtrip", fun args => match args with
      | [PInt ver; PInt v; d; version; PInt flags] =>
          match dialect_of d, version_of version with
          | Some dl, Some vs => Some (both (of_outcome of_addr (roundtrip Platform ver v dl vs flags))
                                           (of_outcome of_addr (roundtrip Fallback ver v dl vs flags)))
          | _, _ => None
          end
      | _ => None end)
].
