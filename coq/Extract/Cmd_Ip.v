(* Extract/Cmd_Ip.v — commands for Model/Ip.v (used by C02, C14). *)
From Coq Require Import ZArith List Bool String.
From NV Require Import Base.PyVal Model.Ip Extract.CmdBase.
Import ListNotations.
Open Scope Z_scope.
Open Scope string_scope.

Definition of_net (n : net) : pyval := PList [PInt (nver n); PInt (nval n); PInt (nplen n)].

Definition to_sarg (p : pyval) : sarg :=
  match p with
  | PInt z => SInt z
  | PBool b => SInt (if b then 1 else 0)   (* bool is an int subclass in Python *)
  | PList [PInt ver; PInt v] => SAddr ver v
  | _ => SOther
  end.

Definition to_setop (p : pyval) : option setop :=
  match p with
  | PList [PStr "value"; a] => Some (OpValue (to_sarg a))
  | PList [PStr "prefixlen"; a] => Some (OpPrefixlen (to_sarg a))
  | PList [PStr "netmask"; a] => Some (OpNetmask (to_sarg a))
  | _ => None
  end.

(* every derived attribute, read again from the current state *)
Definition attrs_of (n : net) : pyval :=
  let w := width (nver n) in let v := nval n in let p := nplen n in
  PList [PInt (net_ip v); PInt (net_network w v p); POpt PInt (net_broadcast (nver n) v p);
         PInt (net_first w v p); PInt (net_last w v p); PInt (net_netmask w p);
         PInt (net_hostmask w p); PInt (net_size w v p);
         PPair (PInt (fst (net_cidr w v p))) (PInt (snd (net_cidr w v p)))].

Fixpoint run_setops (n : net) (ops : list pyval) : list pyval :=
  match ops with
  | [] => []
  | o :: t => match to_setop o with
              | None => [bad]
              | Some op => let '(n', e) := apply_setop n op in
                           PList [of_net n'; POpt PExn e; attrs_of n'] :: run_setops n' t
              end
  end.

Definition cmds : cmd_table := [
  ("addr_of_int", fun args => match args with [PInt i] => Some (of_outcome of_addr (addr_of_int i)) | _ => None end);
  ("addr_of_int_ver", fun args => match args with [PInt i; PInt ver] => Some (of_outcome of_addr (addr_of_int_ver i ver)) | _ => None end);
  ("addr_iadd", fun args => match args with [PInt ver; PInt v; PInt n] => Some (of_outcome PInt (addr_iadd (width ver) v n)) | _ => None end);
  ("addr_isub", fun args => match args with [PInt ver; PInt v; PInt n] => Some (of_outcome PInt (addr_isub (width ver) v n)) | _ => None end);
  ("addr_add", fun args => match args with [PInt ver; PInt v; PInt n] => Some (of_outcome PInt (addr_add (width ver) v n)) | _ => None end);
  ("addr_radd", fun args => match args with [PInt ver; PInt v; PInt n] => Some (of_outcome PInt (addr_radd (width ver) v n)) | _ => None end);
  ("addr_sub", fun args => match args with [PInt ver; PInt v; PInt n] => Some (of_outcome PInt (addr_sub (width ver) v n)) | _ => None end);
  ("addr_rsub", fun args => match args with [PInt ver; PInt v; PInt n] => Some (of_outcome PInt (addr_rsub (width ver) v n)) | _ => None end);
  ("addr_or", fun args => match args with [PInt ver; PInt v; PInt n] => Some (of_outcome PInt (addr_or (width ver) v n)) | _ => None end);
  ("addr_and", fun args => match args with [PInt ver; PInt v; PInt n] => Some (of_outcome PInt (addr_and (width ver) v n)) | _ => None end);
  ("addr_xor", fun args => match args with [PInt ver; PInt v; PInt n] => Some (of_outcome PInt (addr_xor (width ver) v n)) | _ => None end);
  ("addr_lshift", fun args => match args with [PInt ver; PInt v; PInt n] => Some (of_outcome PInt (addr_lshift (width ver) v n)) | _ => None end);
  ("addr_rshift", fun args => match args with [PInt ver; PInt v; PInt n] => Some (of_outcome PInt (addr_rshift (width ver) v n)) | _ => None end);
  ("is_hostmask", fun args => match args with [PInt v] => Some (PBool (is_hostmask v)) | _ => None end);
  ("is_netmask", fun args => match args with [PInt ver; PInt v] => Some (PBool (is_netmask (width ver) v)) | _ => None end);
  ("netmask_bits", fun args => match args with [PInt ver; PInt v] => Some (of_outcome PInt (netmask_bits (width ver) v)) | _ => None end);
  ("net_attrs", fun args => match args with [PInt ver; PInt v; PInt p] => let w := width ver in
      Some (PList [PInt (net_ip v); PInt (net_network w v p); POpt PInt (net_broadcast ver v p);
                   PInt (net_first w v p); PInt (net_last w v p); PInt (net_netmask w p);
                   PInt (net_hostmask w p); PInt (net_size w v p);
                   PPair (PInt (fst (net_cidr w v p))) (PInt (snd (net_cidr w v p)))]) | _ => None end);
  ("net_setops", fun args => match args with [PInt ver; PInt v; PInt p; PList ops] => Some (PList (run_setops {| nver := ver; nval := v; nplen := p |} ops)) | _ => None end);
  ("prefix_tables", fun args => match args with [PInt ver] => let w := width ver in
      let pp l := PList (map (fun '(a, b) => PPair (PInt a) (PInt b)) l) in
      Some (PList [pp (prefix_to_netmask_tab w); pp (swap_pairs (prefix_to_netmask_tab w));
                   pp (prefix_to_hostmask_tab w); pp (swap_pairs (prefix_to_hostmask_tab w))]) | _ => None end)
].

