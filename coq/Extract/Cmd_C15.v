(* Extract/Cmd_C15.v — commands for Model/Codec.v (property C15). *)
From Coq Require Import ZArith List Bool String Ascii.
From NV Require Import Base.PyVal Base.PyStr Model.Ip Model.Codec Gen.codec_gen Extract.CmdBase.
Import ListNotations.
Open Scope string_scope.
Open Scope Z_scope.

Definition of_bytes (l : list Z) : pyval := PStr (str_of_bytes l).
Definition of_str_list (l : list string) : pyval := PList (map PStr l).

Fixpoint ints_of (l : list pyval) : option (list Z) :=
  match l with
  | [] => Some []
  | PInt z :: r => match ints_of r with Some t => Some (z :: t) | None => None end
  | _ => None
  end.

Fixpoint nats_of (l : list pyval) : option (list nat) :=
  match l with
  | [] => Some []
  | PInt z :: r => match nats_of r with Some t => Some (Z.to_nat z :: t) | None => None end
  | _ => None
  end.

Definition fam_of_ver (ver : Z) : string :=
  if ver =? 4 then "ipv4" else if ver =? 6 then "ipv6" else if ver =? 48 then "eui48" else "eui64".

(* run `k` with the dialect row (fam, name) and the family's default dialect row *)
Definition with_dialect (fam name : string) (k : dialect -> dialect -> pyval) : option pyval :=
  match find_dialect fam name, find_dialect fam (default_name fam) with
  | Some d, Some dflt => Some (k d dflt)
  | _, _ => None
  end.

Definition cmds : cmd_table := [
  (* generic functions of strategy/__init__.py with explicit parameters *)
  ("c15_g_valid_words", fun args => match args with
      | [PList ws; PInt s; PInt n] => match ints_of ws with Some l => Some (PBool (valid_words l s n)) | None => None end
      | _ => None end);
  ("c15_g_int_to_words", fun args => match args with
      | [PInt v; PInt s; PInt n] => Some (of_outcome PInts (int_to_words v s n)) | _ => None end);
  ("c15_g_words_to_int", fun args => match args with
      | [PList ws; PInt s; PInt n] => match ints_of ws with Some l => Some (of_outcome PInt (words_to_int l s n)) | None => None end
      | _ => None end);
  ("c15_g_valid_bits", fun args => match args with
      | [PStr s; PInt w; PStr sep] => Some (PBool (valid_bits s w sep)) | _ => None end);
  ("c15_g_bits_to_int", fun args => match args with
      | [PStr s; PInt w; PStr sep] => Some (of_outcome PInt (bits_to_int s w sep)) | _ => None end);
  ("c15_g_int_to_bits", fun args => match args with
      | [PInt v; PInt s; PInt n; PStr sep] => Some (of_outcome PStr (int_to_bits v s n sep)) | _ => None end);
  ("c15_g_valid_bin", fun args => match args with
      | [PStr s; PInt w] => Some (PBool (valid_bin s w)) | _ => None end);
  ("c15_g_bin_to_int", fun args => match args with
      | [PStr s; PInt w] => Some (of_outcome PInt (bin_to_int s w)) | _ => None end);
  ("c15_g_int_to_bin", fun args => match args with
      | [PInt v; PInt w] => Some (of_outcome PStr (int_to_bin v w)) | _ => None end);
  (* per-module wrappers: family name, dialect class name ('' for the IP modules) *)
  ("c15_valid_words", fun args => match args with
      | [PStr fam; PStr name; PList ws] => match ints_of ws with
          | Some l => with_dialect fam name (fun d _ => PBool (valid_words l (d_ws d) (d_nw d))) | None => None end
      | _ => None end);
  ("c15_int_to_words", fun args => match args with
      | [PStr fam; PStr name; PInt v] => with_dialect fam name (fun d _ => of_outcome PInts (m_int_to_words fam d v))
      | _ => None end);
  ("c15_words_to_int", fun args => match args with
      | [PStr fam; PStr name; PList ws] => match ints_of ws with
          | Some l => with_dialect fam name (fun d _ => of_outcome PInt (m_words_to_int fam d l)) | None => None end
      | _ => None end);
  ("c15_int_to_bits", fun args => match args with
      | [PStr fam; PStr name; PInt v] => with_dialect fam name (fun d _ => of_outcome PStr (m_int_to_bits d v))
      | _ => None end);
  ("c15_valid_bits", fun args => match args with
      | [PStr fam; PStr name; PStr s] => with_dialect fam name (fun d _ => PBool (m_valid_bits d s))
      | _ => None end);
  ("c15_bits_to_int", fun args => match args with
      | [PStr fam; PStr name; PStr s] => with_dialect fam name (fun d _ => of_outcome PInt (m_bits_to_int d s))
      | _ => None end);
  ("c15_int_to_bin", fun args => match args with
      | [PStr fam; PInt v] => with_dialect fam (default_name fam) (fun d _ => of_outcome PStr (m_int_to_bin d v))
      | _ => None end);
  ("c15_valid_bin", fun args => match args with
      | [PStr fam; PStr s] => with_dialect fam (default_name fam) (fun d _ => PBool (m_valid_bin d s))
      | _ => None end);
  ("c15_bin_to_int", fun args => match args with
      | [PStr fam; PStr s] => with_dialect fam (default_name fam) (fun d _ => of_outcome PInt (m_bin_to_int d s))
      | _ => None end);
  ("c15_int_to_packed", fun args => match args with
      | [PStr fam; PInt v] => with_dialect fam (default_name fam) (fun _ dflt => of_outcome of_bytes (m_int_to_packed fam dflt v))
      | _ => None end);
  ("c15_packed_to_int", fun args => match args with
      | [PStr fam; PStr s] => with_dialect fam (default_name fam) (fun _ _ => of_outcome PInt (m_packed_to_int fam (bytes_of_str s)))
      | _ => None end);
  ("c15_int_to_arpa", fun args => match args with
      | [PStr fam; PInt v] =>
          if String.eqb fam "ipv4" || String.eqb fam "ipv6"
          then with_dialect fam "" (fun d _ => of_outcome PStr (ip_reverse_dns fam d v)) else None
      | _ => None end);
  (* object accessors: IPAddress(v, ver).packed / bytes() / bits() / bin / words / reverse_dns *)
  ("c15_ip_acc", fun args => match args with
      | [PInt ver; PInt v] =>
          if (ver =? 4) || (ver =? 6) then
            let fam := fam_of_ver ver in
            with_dialect fam "" (fun d dflt => PList [
              of_outcome of_bytes (m_int_to_packed fam dflt v); of_outcome of_bytes (ip_bytes d v);
              of_outcome PStr (ip_bits d v None); of_outcome PStr (m_int_to_bin d v);
              of_outcome PInts (m_int_to_words fam d v); of_outcome PStr (ip_reverse_dns fam d v)])
          else None
      | _ => None end);
  ("c15_ip_bits", fun args => match args with
      | [PInt ver; PInt v; sep] =>
          if (ver =? 4) || (ver =? 6) then
            match sep with
            | PNone => with_dialect (fam_of_ver ver) "" (fun d _ => of_outcome PStr (ip_bits d v None))
            | PStr s => with_dialect (fam_of_ver ver) "" (fun d _ => of_outcome PStr (ip_bits d v (Some s)))
            | _ => None
            end
          else None
      | _ => None end);
  (* EUI(v, version=ver).packed / bits() / bin / words: the module functions with the default dialect *)
  ("c15_eui_acc", fun args => match args with
      | [PInt ver; PInt v] =>
          if (ver =? 48) || (ver =? 64) then
            let fam := fam_of_ver ver in
            with_dialect fam (default_name fam) (fun d dflt => PList [
              of_outcome of_bytes (m_int_to_packed fam dflt v); of_outcome PStr (m_int_to_bits d v);
              of_outcome PStr (m_int_to_bin d v); of_outcome PInts (m_int_to_words fam d v)])
          else None
      | _ => None end);
  (* RFC 1924 *)
  ("c15_b85_enc", fun args => match args with [PInt v] => Some (of_outcome PStr (ipv6_to_base85 v)) | _ => None end);
  ("c15_b85_dec", fun args => match args with [PStr s] => Some (of_outcome PInt (base85_to_int s)) | _ => None end);
  (* validation of the builtin models against CPython *)
  ("c15_struct_pack", fun args => match args with
      | [PList sz; PList vs] => match nats_of sz, ints_of vs with
          | Some a, Some b => Some (of_outcome of_bytes (struct_pack a b)) | _, _ => None end
      | _ => None end);
  ("c15_struct_unpack", fun args => match args with
      | [PList sz; PStr s] => match nats_of sz with
          | Some a => Some (of_outcome PInts (struct_unpack a (bytes_of_str s))) | None => None end
      | _ => None end);
  ("c15_to_bytes", fun args => match args with
      | [PInt n; PInt v] => Some (of_outcome of_bytes (int_to_bytes (Z.to_nat n) v)) | _ => None end);
  ("c15_py_bin", fun args => match args with [PInt v] => Some (PStr (py_bin v)) | _ => None end);
  ("c15_byte_bits", fun args => match args with [PInt v] => Some (PStr (str_of (byte_bits v))) | _ => None end);
  ("c15_drop2", fun args => match args with [PStr s] => Some (PStr (drop2 s)) | _ => None end)
].
