(* Extract/Cmd_C16.v — commands for Model/Conv.v (property C16). *)
From Coq Require Import ZArith List Bool String.
From NV Require Import Base.PyVal Model.Ip Model.Conv Extract.CmdBase.
Import ListNotations.
Open Scope Z_scope.
Open Scope string_scope.

Definition of_net3 (n : net) : pyval := PList [PInt (nver n); PInt (nval n); PInt (nplen n)].

Definition cmds : cmd_table := [
  ("c16_is_mapped", fun args => match args with [PInt ver; PInt v] => Some (PBool (is_ipv4_mapped ver v)) | _ => None end);
  ("c16_is_compat", fun args => match args with [PInt ver; PInt v] => Some (PBool (is_ipv4_compat ver v)) | _ => None end);
  ("c16_addr_ipv4", fun args => match args with [PInt ver; PInt v] => Some (of_outcome of_addr (addr_ipv4 ver v)) | _ => None end);
  ("c16_addr_ipv6", fun args => match args with [PInt ver; PInt v; PBool c] => Some (of_outcome of_addr (addr_ipv6 ver v c)) | _ => None end);
  ("c16_net_ipv4", fun args => match args with [PInt ver; PInt v; PInt p] => Some (of_outcome of_net3 (net_ipv4 ver v p)) | _ => None end);
  ("c16_net_ipv6", fun args => match args with [PInt ver; PInt v; PInt p; PBool c] => Some (of_outcome of_net3 (net_ipv6 ver v p c)) | _ => None end);
  ("c16_addr_v6v4", fun args => match args with [PInt ver; PInt v; PBool c] => Some (of_outcome of_addr (addr_v6_then_v4 ver v c)) | _ => None end);
  ("c16_net_v6v4", fun args => match args with [PInt ver; PInt v; PInt p; PBool c] => Some (of_outcome of_net3 (net_v6_then_v4 ver v p c)) | _ => None end);
  ("c16_addr_v4v6", fun args => match args with [PInt ver; PInt v; PBool c] => Some (of_outcome of_addr (addr_v4_then_v6 ver v c)) | _ => None end);
  ("c16_net_v4v6", fun args => match args with [PInt ver; PInt v; PInt p; PBool c] => Some (of_outcome of_net3 (net_v4_then_v6 ver v p c)) | _ => None end)
].
