(* Extract/Cmd_C12.v — commands for Model/Order.v (C12). *)
From Coq Require Import ZArith List Bool String.
From NV Require Import Base.PyVal Model.Ip Model.Order Extract.CmdBase.
Import ListNotations.
Open Scope Z_scope.
Open Scope string_scope.

(* wire form of an object: ["A",ver,v] | ["N",ver,v,p] | ["R",ver,s,e] | ["G",ver,s,e] (IPGlob: a range) *)
Definition to_obj (p : pyval) : option (string * obj) :=
  match p with
  | PList [PStr "A"; PInt ver; PInt v] => Some ("A", Addr ver v)
  | PList [PStr "N"; PInt ver; PInt v; PInt pl] => Some ("N", Net ver v pl)
  | PList [PStr "R"; PInt ver; PInt s; PInt e] => Some ("R", Range ver s e)
  | PList [PStr "G"; PInt ver; PInt s; PInt e] => Some ("G", Range ver s e)
  | _ => None
  end.

Definition of_obj (tag : string) (x : obj) : pyval :=
  match x with
  | Addr ver v => PList [PStr tag; PInt ver; PInt v]
  | Net ver v p => PList [PStr tag; PInt ver; PInt v; PInt p]
  | Range ver s e => PList [PStr tag; PInt ver; PInt s; PInt e]
  end.

Definition tag_of (x : obj) : string := match x with Addr _ _ => "A" | Net _ _ _ => "N" | Range _ _ _ => "R" end.

Fixpoint to_objs (l : list pyval) : option (list (string * obj)) :=
  match l with
  | [] => Some []
  | p :: t => match to_obj p, to_objs t with Some o, Some r => Some (o :: r) | _, _ => None end
  end.

Fixpoint to_ints (l : list pyval) : option (list Z) :=
  match l with
  | [] => Some []
  | PInt z :: t => match to_ints t with Some r => Some (z :: r) | None => None end
  | _ => None
  end.

Fixpoint to_int_lists (l : list pyval) : option (list (list Z)) :=
  match l with
  | [] => Some []
  | PList a :: t => match to_ints a, to_int_lists t with Some x, Some r => Some (x :: r) | _, _ => None end
  | _ => None
  end.

(* the theorem C12_eq_hash holds for every hash function; the driver needs one instance *)
Definition some_hash (l : list Z) : Z := fold_left (fun a x => a * 1000003 + x) l 7.

(* sorted output is printed with the tag of the model class (an IPGlob prints as "R"): sorting looks at sort keys only *)
Fixpoint pick (objs : list obj) (ix : list Z) : option (list obj) :=
  match ix with
  | [] => Some []
  | i :: t => match nth_error objs (Z.to_nat i), pick objs t with
              | Some x, Some r => if (i <? 0)%Z then None else Some (x :: r)
              | _, _ => None end
  end.

Definition cls_of_tag (t : string) : option cls :=
  if String.eqb t "A" then Some CAddr else if String.eqb t "N" then Some CNet
  else if String.eqb t "R" then Some CRange else if String.eqb t "G" then Some CRange else None.

Fixpoint to_nets (l : list (list Z)) : option (list obj) :=
  match l with
  | [] => Some []
  | [ver; v; p] :: t => match to_nets t with Some r => Some (Net ver v p :: r) | None => None end
  | _ => None
  end.
Definition of_nets (r : list obj) : pyval :=
  PList (map (fun x => match x with Net ver v p => PInts [ver; v; p] | _ => bad end) r).

Definition flags4 : list pyval := [PBool true; PBool true; PBool true; PBool true].

Definition cmds : cmd_table := [
  ("c12_cmp", fun args => match args with
     | [a; b] => match to_obj a, to_obj b with
                 | Some (_, x), Some (_, y) =>
                     Some (PList [PBool (py_eq x y); PBool (py_ne x y); PBool (py_lt x y); PBool (py_le x y);
                                  PBool (py_gt x y); PBool (py_ge x y);
                                  PBool (implb (py_eq x y) (py_hash some_hash x =? py_hash some_hash y)%Z);
                                  PBool (py_eq y x); PBool (py_le y x)])
                 | _, _ => None end
     | _ => None end);
  ("c12_eqh", fun args => match args with
     | [a; b] => match to_obj a, to_obj b with
                 | Some (_, x), Some (_, y) =>
                     Some (PList [PBool (py_eq x y); PBool (py_ne x y);
                                  PBool (implb (py_eq x y) (py_hash some_hash x =? py_hash some_hash y)%Z);
                                  PBool (py_eq y x)])
                 | _, _ => None end
     | _ => None end);
  ("c12_triple", fun args => match args with
     | [a; b; c] => match to_obj a, to_obj b, to_obj c with
                 | Some (_, x), Some (_, y), Some (_, z) =>
                     Some (PList [PBool (py_le x y); PBool (py_le y z); PBool (py_le x z);
                                  PBool (py_lt x y); PBool (py_lt y z); PBool (py_lt x z);
                                  PBool (py_eq x y); PBool (py_eq y z); PBool (py_eq x z)])
                 | _, _, _ => None end
     | _ => None end);
  ("c12_keys", fun args => match args with
     | [a] => match to_obj a with
              | Some (_, x) => Some (PList [PInts (key x); PInts (sort_key x)])
              | None => None end
     | _ => None end);
  ("c12_num_bits", fun args => match args with [PInt n] => Some (PInt (num_bits n)) | _ => None end);
  ("c12_sorted", fun args => match args with
     | [PList l; PList perm] =>
         match to_objs l, to_ints perm with
         | Some xs, Some ix =>
             let objs := map snd xs in
             match pick objs ix with
             | Some ys => let show r := PList (map (fun x => of_obj (tag_of x) x) r) in
                          Some (PList [show (sorted objs); show (sorted ys)])
             | None => None end
         | _, _ => None end
     | _ => None end);
  ("c12_getstate", fun args => match args with
     | [a] => match to_obj a with Some (_, x) => Some (PInts (getstate x)) | None => None end
     | _ => None end);
  ("c12_setstate", fun args => match args with
     | [PStr t; PList st] => match cls_of_tag t, to_ints st with
                             | Some c, Some s => Some (of_outcome (of_obj t) (setstate c s))
                             | _, _ => None end
     | _ => None end);
  (* pickle / copy / deepcopy: the machinery is CPython's; the model is  __setstate__(__getstate__(x))  on a fresh
     object of the same class, and the four observations (same str, ==, same hash, same class) are all True *)
  ("c12_roundtrip", fun args => match args with
     | [a; _] =>
        match a with
        | PList [PStr "S"; PList cidrs] =>
            match to_int_lists cidrs with
            | Some l =>
                match to_nets l with
                | Some objs =>
                    Some (of_outcome (fun r => PList (PList [PStr "S"; of_nets r] :: flags4))
                                     (ipset_restore objs))
                | None => None end
            | None => None end
        | PList [PStr "E"; PInt ver; PInt v; PInt d] =>
            Some (of_outcome (fun r => let '(ver', v', d') := r in
                                       PList (PList [PStr "E"; PInt ver'; PInt v'; PInt d'] :: flags4))
                             (eui_setstate (eui_getstate ver v d)))
        | _ => match to_obj a with
               | Some (t, x) => Some (of_outcome (fun r => PList (of_obj t r :: flags4)) (setstate (cls_of x) (getstate x)))
               | None => None end
        end
     | _ => None end);
  ("c12_ipset_setstate", fun args => match args with
     | [PList st] => match to_int_lists st with
                     | Some s => Some (of_outcome of_nets (ipset_setstate s))
                     | None => None end
     | _ => None end);
  ("c12_eui_setstate", fun args => match args with
     | [PList st] => match to_ints st with
                     | Some s => Some (of_outcome (fun r => let '(ver, v, d) := r in PInts [ver; v; d]) (eui_setstate s))
                     | None => None end
     | _ => None end)
].
