(* Extract/Extract.v — extraction of the command table to OCaml. *)
From Coq Require Import ZArith List String.
From Coq Require Extraction ExtrOcamlBasic ExtrOcamlString.
From NV Require Import Base.PyVal Extract.Commands.
Extraction Language OCaml.
Extraction "model.ml" nv_run pyval_eqb.
