(* Extract/Cmd_PyStr.v — commands validating Base/PyStr.v against CPython. *)
From Coq Require Import ZArith List Bool String Ascii.
From NV Require Import Base.PyVal Base.PyStr Extract.CmdBase.
Import ListNotations.
Open Scope Z_scope.
Open Scope string_scope.

Definition one_char (s : string) : option ascii :=
  match s with String c EmptyString => Some c | _ => None end.

Definition cmds : cmd_table := [
  ("pystr_int", fun args => match args with
      | [PStr s; PInt base] => Some (match py_int base s with Some v => PInt v | None => PExn ValueError end)
      | _ => None end);
  ("pystr_fmt", fun args => match args with
      | [PStr "d"; PInt n] => Some (PStr (fmt_d n))
      | [PStr "x"; PInt n] => Some (PStr (fmt_x n))
      | [PStr "X"; PInt n] => Some (PStr (fmt_X n))
      | [PStr "xpad"; PInt k; PInt n] => Some (PStr (fmt_x_pad (Z.to_nat k) n))
      | [PStr "Xpad"; PInt k; PInt n] => Some (PStr (fmt_X_pad (Z.to_nat k) n))
      | [PStr "dpad"; PInt k; PInt n] => Some (PStr (fmt_d_pad (Z.to_nat k) n))
      | [PStr "bpad"; PInt k; PInt n] => Some (PStr (fmt_b_pad (Z.to_nat k) n))
      | _ => None end);
  ("pystr_split", fun args => match args with
      | [PStr s; PStr sep] => match one_char sep with Some c => Some (PList (map PStr (split c s))) | None => None end
      | _ => None end);
  ("pystr_split1", fun args => match args with
      | [PStr s; PStr sep] => match one_char sep with Some c => Some (PList (map PStr (split1 c s))) | None => None end
      | _ => None end);
  ("pystr_join", fun args => match args with
      | [PStr sep; PList l] => Some (PStr (join sep (map (fun p => match p with PStr x => x | _ => "" end) l)))
      | _ => None end);
  ("pystr_strip", fun args => match args with [PStr s] => Some (PStr (strip s)) | _ => None end);
  ("pystr_lower", fun args => match args with [PStr s] => Some (PStr (lower s)) | _ => None end);
  ("pystr_replace", fun args => match args with
      | [PStr s; PStr old; PStr new] => match old with EmptyString => None | _ => Some (PStr (replace old new s)) end
      | _ => None end);
  ("pystr_startswith", fun args => match args with [PStr s; PStr p] => Some (PBool (starts_with p s)) | _ => None end);
  ("pystr_contains", fun args => match args with
      | [PStr s; PStr c] => match one_char c with Some ch => Some (PBool (contains_char ch s)) | None => None end
      | _ => None end);
  ("pystr_count", fun args => match args with
      | [PStr s; PStr c] => match one_char c with Some ch => Some (PInt (count_char ch s)) | None => None end
      | _ => None end)
].
