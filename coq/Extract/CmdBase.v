(* Extract/CmdBase.v — helpers shared by the per-property command tables (Extract/Cmd_*.v). *)
From Coq Require Import ZArith List Bool String.
From NV Require Import Base.PyVal.
Import ListNotations.
Open Scope Z_scope.
Open Scope string_scope.

Definition bad : pyval := PExn Unsupported.
Definition PPair (a b : pyval) := PList [a; b].
Definition cmd_table := list (string * (list pyval -> option pyval)).
Definition of_addr (x : Z * Z) : pyval := PPair (PInt (fst x)) (PInt (snd x)).

Fixpoint lookup (name : string) (t : cmd_table) : option (list pyval -> option pyval) :=
  match t with
  | [] => None
  | (k, f) :: r => if String.eqb k name then Some f else lookup name r
  end.
