(* Extract/Cmd_C03.v — commands for Model/NetText.v (property C03).  As in Cmd_C01.v, every command evaluates BOTH
   back-ends and answers only when they coincide.

   addr argument encoding:  ["t", [ints...]] tuple | ["s", str] | ["n", ver, value, prefixlen] IPNetwork object |
                            ["a", ver, value] IPAddress object | ["o", <any tag>] anything else. *)
From Coq Require Import ZArith List Bool String Ascii.
From NV Require Import Base.PyVal Base.PyStr Model.IpText Model.FbSocket Model.AddrText Model.Ip Model.NetText
  Extract.CmdBase.
Import ListNotations.
Open Scope string_scope.
Open Scope list_scope.
Open Scope Z_scope.

Definition both3 (a b : pyval) : pyval :=
  if pyval_eqb a b then a else PList [PStr "BACKEND-DIFF"; a; b].

Definition ints_of3 (l : list pyval) : option (list Z) :=
  map_opt (fun p => match p with PInt z => Some z | _ => None end) l.

Definition narg_of (p : pyval) : option narg :=
  match p with
  | PList [PStr "t"; PList l] => match ints_of3 l with Some t => Some (ATuple t) | None => None end
  | PList [PStr "s"; PStr s] => Some (AStr s)
  | PList [PStr "n"; PInt ver; PInt v; PInt pl] => Some (ANet {| nver := ver; nval := v; nplen := pl |})
  | PList [PStr "a"; PInt ver; PInt v] => Some (AAddr ver v)
  | PList [PStr "o"; _] => Some AOther
  | _ => None
  end.

Definition version_of3 (p : pyval) : option (option Z) :=
  match p with PNone => Some None | PInt v => Some (Some v) | _ => None end.

Definition of_net3 (n : net) : pyval := PList [PInt (nver n); PInt (nval n); PInt (nplen n)].
Definition of_vp (x : Z * Z) : pyval := PList [PInt (fst x); PInt (snd x)].

(* the three textual notations of (ver, v, p): kind = "prefix" | "netmask" | "hostmask" *)
Definition notation (be : backend) (ver v p : Z) (kind : string) : outcome string :=
  let w := width ver in
  do a <- int_to_str be ver v None;
  if String.eqb kind "prefix" then Ok (a ++ "/" ++ fmt_d p)%string
  else if String.eqb kind "netmask" then do m <- int_to_str be ver (2 ^ w - 2 ^ (w - p)) None; Ok (a ++ "/" ++ m)%string
  else if String.eqb kind "hostmask" then do m <- int_to_str be ver (2 ^ (w - p) - 1) None; Ok (a ++ "/" ++ m)%string
  else Raise Unsupported.

Definition run_notation (be : backend) (ver v p : Z) (kind : string) (ip : bool) (version : option Z) (flags : Z) : pyval :=
  of_outcome of_net3 (do s <- notation be ver v p kind; net_init be (AStr s) ip version flags).

Definition run_roundtrip (be : backend) (ver v p : Z) (ip : bool) (version : option Z) (flags : Z) : pyval :=
  of_outcome of_net3 (do s <- net_str be {| nver := ver; nval := v; nplen := p |}; net_init be (AStr s) ip version flags).

Definition cmds : cmd_table := [
  ("c03_init", fun args => match args with
      | [a; PBool ip; ver; PInt flags] =>
          match narg_of a, version_of3 ver with
          | Some na, Some version =>
              Some (both3 (of_outcome of_net3 (net_init Platform na ip version flags))
                          (of_outcome of_net3 (net_init Fallback na ip version flags)))
          | _, _ => None
          end
      | _ => None end);
  ("c03_parse", fun args => match args with
      | [PInt ver; a; PBool ip; PInt flags] =>
          match narg_of a with
          | Some na =>
              if valid_ver ver then
                Some (both3 (of_outcome of_vp (parse_ip_network Platform ver na ip flags))
                            (of_outcome of_vp (parse_ip_network Fallback ver na ip flags)))
              else None
          | None => None
          end
      | _ => None end);
  ("c03_notation", fun args => match args with
      | [PInt ver; PInt v; PInt p; PStr kind; PBool ip; version; PInt flags] =>
          match version_of3 version with
          | Some vs => if valid_ver ver then
                         Some (both3 (run_notation Platform ver v p kind ip vs flags) (run_notation Fallback ver v p kind ip vs flags))
                       else None
          | None => None
          end
      | _ => None end);
  ("c03_str", fun args => match args with
      | [PInt ver; PInt v; PInt p] =>
          if valid_ver ver then
            let n := {| nver := ver; nval := v; nplen := p |} in
            Some (both3 (of_outcome PStr (net_str Platform n)) (of_outcome PStr (net_str Fallback n)))
          else None
      | _ => None end);
  ("c03_roundtrip", fun args => match args with
      | [PInt ver; PInt v; PInt p; PBool ip; version; PInt flags] =>
          match version_of3 version with
          | Some vs => if valid_ver ver then
                         Some (both3 (run_roundtrip Platform ver v p ip vs flags) (run_roundtrip Fallback ver v p ip vs flags))
                       else None
          | None => None
          end
      | _ => None end);
  ("c03_abbrev", fun args => match args with
      | [PStr s] => Some (of_outcome PStr (cidr_abbrev_to_verbose s))
      | _ => None end);
  ("c03_expand", fun args => match args with
      | [PStr s] => Some (of_outcome PStr (expand_partial_address s))
      | _ => None end)
].
