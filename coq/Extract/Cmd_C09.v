(* Extract/Cmd_C09.v — commands for Model/Partition.v (C09). *)
From Coq Require Import ZArith List Bool String.
From NV Require Import Base.PyVal Model.Ip Model.Partition Extract.CmdBase.
Import ListNotations.
Open Scope Z_scope.
Open Scope string_scope.

Definition of_cblk (b : cblk) : pyval := PPair (PInt (fst b)) (PInt (snd b)).
Definition of_cblks (l : list cblk) : pyval := PList (map of_cblk l).

Definition cmds : cmd_table := [
  ("cidr_partition", fun args => match args with
     | [PInt ver; PInt tv; PInt tp; PInt ev; PInt ep] =>
         if valid_ver ver then
           Some (of_outcome (fun r => let '(b, m, a) := r in PList [of_cblks b; of_cblks m; of_cblks a])
                            (cidr_partition (width ver) (tv, tp) (ev, ep)))
         else None
     | _ => None end);
  ("cidr_exclude", fun args => match args with
     | [PInt ver; PInt tv; PInt tp; PInt ev; PInt ep] =>
         if valid_ver ver then Some (of_outcome of_cblks (cidr_exclude (width ver) (tv, tp) (ev, ep))) else None
     | _ => None end)
].
