(* Extract/Cmd_C18.v — commands for Model/Classify.v, run over Model/ClassifyGen.v's `gen_tables`, the tables
   re-generated from the working tree (coq/Gen/classify_gen.v). *)
From Coq Require Import ZArith List Bool String.
From NV Require Import Base.PyVal Model.Ip Model.Classify Model.ClassifyGen Extract.CmdBase.
Import ListNotations.
Open Scope Z_scope.
Open Scope string_scope.

(* [is_unicast, is_multicast, is_loopback, is_private, is_link_local, is_reserved] *)
Definition classify (o : ipobj) : pyval :=
  PList [PBool (is_unicast gen_tables o); POpt PBool (is_multicast gen_tables o);
         POpt PBool (is_loopback gen_tables o); PBool (is_private gen_tables o);
         POpt PBool (is_link_local gen_tables o); PBool (is_reserved gen_tables o)].

Definition of_row (r : row) : pyval := PList [PInt (rkind r); PInt (rver r); PInt (rfst r); PInt (rsnd r)].

Definition cmds : cmd_table := [
  ("classify_addr", fun args => match args with [PInt ver; PInt v] => Some (classify (OAddr ver v)) | _ => None end);
  ("classify_net", fun args => match args with [PInt ver; PInt v; PInt p] => Some (classify (ONet ver v p)) | _ => None end);
  ("classify_range", fun args => match args with [PInt ver; PInt s; PInt e] => Some (classify (ORange ver s e)) | _ => None end);
  (* `obj in row` for one explicit row: [kind; ver; a; b] *)
  ("contains_row", fun args => match args with
      | [PList [PInt k; PInt rv; PInt a; PInt b]; PList [PInt 0; PInt ver; PInt v]] =>
          Some (PBool (contains_row (k, rv, a, b) (OAddr ver v)))
      | [PList [PInt k; PInt rv; PInt a; PInt b]; PList [PInt 1; PInt ver; PInt v; PInt p]] =>
          Some (PBool (contains_row (k, rv, a, b) (ONet ver v p)))
      | [PList [PInt k; PInt rv; PInt a; PInt b]; PList [PInt 2; PInt ver; PInt s; PInt e]] =>
          Some (PBool (contains_row (k, rv, a, b) (ORange ver s e)))
      | _ => None end);
  (* the tables the model runs on, for comparison with the implementation's *)
  ("classify_tables", fun args => match args with [] =>
      Some (PList [PList [of_row (t_loopback4 gen_tables)]; PList (map of_row (t_private4 gen_tables));
                   PList [of_row (t_link_local4 gen_tables)]; PList [of_row (t_multicast4 gen_tables)];
                   PList (map of_row (t_reserved4 gen_tables));
                   PList [of_row (t_loopback6 gen_tables)]; PList (map of_row (t_private6 gen_tables));
                   PList [of_row (t_link_local6 gen_tables)]; PList [of_row (t_multicast6 gen_tables)];
                   PList (map of_row (t_reserved6 gen_tables))]) | _ => None end)
].
