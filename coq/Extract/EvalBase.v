(* Extract/EvalBase.v — helpers for re-evaluating sampled cases inside Coq (validates extraction + driver). *)
From Coq Require Import ZArith NArith List Bool String Ascii.
From NV Require Import Base.PyVal Extract.CmdBase.
Import ListNotations.

Fixpoint bytes_str (l : list N) : string :=
  match l with [] => EmptyString | n :: r => String (ascii_of_N n) (bytes_str r) end.

Section Eval.
Variable run : string -> list pyval -> pyval.
(* indices of the cases whose in-Coq evaluation differs from the expected (driver) answer *)
Fixpoint mismatches (i : nat) (cs : list (string * list pyval * pyval)) : list nat :=
  match cs with
  | [] => []
  | (name, args, expected) :: r =>
      if pyval_eqb (run name args) expected then mismatches (S i) r else i :: mismatches (S i) r
  end.
End Eval.
