(* Proofs/C12_Lex.v — Python tuple comparison on lists of ints of possibly different lengths:
   == is structural equality, <= is a total order (reflexive, transitive, total, antisymmetric),
   and the other operators are its derived forms. *)
From NV Require Import Base.Tac Base.PyVal Model.Order.
Open Scope Z_scope.

Lemma tcmp_nil_l op b : tuple_cmp op [] b = z_cmp op 0 (Z.of_nat (length b)).
Proof. destruct b; reflexivity. Qed.

Lemma tcmp_nil_r op a : tuple_cmp op a [] = z_cmp op (Z.of_nat (length a)) 0.
Proof. destruct a; reflexivity. Qed.

Lemma tcmp_cons op x a y b :
  tuple_cmp op (x :: a) (y :: b) = if x =? y then tuple_cmp op a b else z_cmp op x y.
Proof. reflexivity. Qed.

Lemma len_S {A} (x : A) l : Z.of_nat (length (x :: l)) = Z.of_nat (length l) + 1.
Proof. cbn [length]. lia. Qed.

Lemma len_nonneg {A} (l : list A) : 0 <= Z.of_nat (length l).
Proof. lia. Qed.

(* ---- == ---- *)
Lemma tcmp_eq_iff a : forall b, tuple_cmp OpEq a b = true <-> a = b.
Proof.
  induction a as [|x a IH]; intros b.
  - rewrite tcmp_nil_l. destruct b as [|y b]; cbn [z_cmp length].
    + split; reflexivity.
    + split; [|discriminate]. intros H. pose proof (len_nonneg b). lia.
  - destruct b as [|y b].
    + rewrite tcmp_nil_r. cbn [z_cmp]. rewrite len_S. pose proof (len_nonneg a).
      split; [|discriminate]. intros E. lia.
    + rewrite tcmp_cons. case_eqb x y.
      * subst. rewrite IH. split; [intros ->; reflexivity|]. intros H; injection H; auto.
      * cbn [z_cmp]. split; [intros H; lia|]. intros H; injection H; intros; lia.
Qed.

Lemma tcmp_eq_refl a : tuple_cmp OpEq a a = true.
Proof. apply tcmp_eq_iff. reflexivity. Qed.

Lemma tcmp_ne a : forall b, tuple_cmp OpNe a b = negb (tuple_cmp OpEq a b).
Proof.
  induction a as [|x a IH]; intros b.
  - rewrite !tcmp_nil_l. reflexivity.
  - destruct b as [|y b]; [rewrite !tcmp_nil_r; reflexivity|].
    rewrite !tcmp_cons. destruct (x =? y); [apply IH|reflexivity].
Qed.

Lemma tcmp_eq_sym a b : tuple_cmp OpEq a b = tuple_cmp OpEq b a.
Proof.
  destruct (tuple_cmp OpEq a b) eqn:E.
  - apply tcmp_eq_iff in E. subst. symmetry. apply tcmp_eq_refl.
  - destruct (tuple_cmp OpEq b a) eqn:E2; [|reflexivity].
    apply tcmp_eq_iff in E2. subst. rewrite tcmp_eq_refl in E. discriminate.
Qed.

(* ---- the orderings in terms of <= ---- *)
Lemma tcmp_gt a : forall b, tuple_cmp OpGt a b = tuple_cmp OpLt b a.
Proof.
  induction a as [|x a IH]; intros b.
  - rewrite tcmp_nil_l, tcmp_nil_r. reflexivity.
  - destruct b as [|y b]; [rewrite tcmp_nil_l, tcmp_nil_r; reflexivity|].
    rewrite !tcmp_cons. rewrite (Z.eqb_sym y x). destruct (x =? y); [apply IH|reflexivity].
Qed.

Lemma tcmp_ge a : forall b, tuple_cmp OpGe a b = tuple_cmp OpLe b a.
Proof.
  induction a as [|x a IH]; intros b.
  - rewrite tcmp_nil_l, tcmp_nil_r. reflexivity.
  - destruct b as [|y b]; [rewrite tcmp_nil_l, tcmp_nil_r; reflexivity|].
    rewrite !tcmp_cons. rewrite (Z.eqb_sym y x). destruct (x =? y); [apply IH|reflexivity].
Qed.

Lemma tcmp_lt_nle a : forall b, tuple_cmp OpLt a b = negb (tuple_cmp OpLe b a).
Proof.
  induction a as [|x a IH]; intros b.
  - rewrite tcmp_nil_l, tcmp_nil_r. cbn [z_cmp]. lia.
  - destruct b as [|y b]; [rewrite tcmp_nil_l, tcmp_nil_r; cbn [z_cmp]; lia|].
    rewrite !tcmp_cons. rewrite (Z.eqb_sym y x). case_eqb x y; [apply IH|]. cbn [z_cmp]. lia.
Qed.

Lemma tcmp_le_refl a : tuple_cmp OpLe a a = true.
Proof.
  induction a as [|x a IH]; [reflexivity|]. rewrite tcmp_cons, Z.eqb_refl. exact IH.
Qed.

Lemma tcmp_le_total a b : tuple_cmp OpLe a b = true \/ tuple_cmp OpLe b a = true.
Proof.
  destruct (tuple_cmp OpLe b a) eqn:E; [right; reflexivity|left].
  pose proof (tcmp_lt_nle a b) as H. rewrite E in H. cbn in H.
  (* a < b implies a <= b *)
  clear E. revert b H. induction a as [|x a IH]; intros b H.
  - rewrite tcmp_nil_l in *. cbn [z_cmp] in *. lia.
  - destruct b as [|y b]; [rewrite tcmp_nil_r in *; cbn [z_cmp] in *; lia|].
    rewrite tcmp_cons in *. case_eqb x y; [apply IH; exact H|]. cbn [z_cmp] in *. lia.
Qed.

Lemma tcmp_lt_le a b : tuple_cmp OpLt a b = true -> tuple_cmp OpLe a b = true.
Proof.
  intros H. destruct (tcmp_le_total a b) as [L|L]; [exact L|].
  rewrite tcmp_lt_nle, L in H. discriminate.
Qed.

Lemma tcmp_le_trans a : forall b c,
  tuple_cmp OpLe a b = true -> tuple_cmp OpLe b c = true -> tuple_cmp OpLe a c = true.
Proof.
  induction a as [|x a IH]; intros b c Hab Hbc.
  - rewrite tcmp_nil_l. cbn [z_cmp]. pose proof (len_nonneg c). lia.
  - destruct b as [|y b].
    + rewrite tcmp_nil_r in Hab. cbn [z_cmp] in Hab. rewrite len_S in Hab. pose proof (len_nonneg a). lia.
    + destruct c as [|z c].
      * rewrite tcmp_nil_r in Hbc. cbn [z_cmp] in Hbc. rewrite len_S in Hbc. pose proof (len_nonneg b). lia.
      * rewrite tcmp_cons in *. case_eqb x y.
        -- subst y. case_eqb x z; [eapply IH; eassumption|exact Hbc].
        -- cbn [z_cmp] in Hab. case_eqb y z.
           ++ subst z. case_eqb x y; [lia|]. cbn [z_cmp]. lia.
           ++ cbn [z_cmp] in Hbc. case_eqb x z; [lia|]. cbn [z_cmp]. lia.
Qed.

Lemma tcmp_le_antisym a : forall b,
  tuple_cmp OpLe a b = true -> tuple_cmp OpLe b a = true -> a = b.
Proof.
  induction a as [|x a IH]; intros b Hab Hba.
  - destruct b as [|y b]; [reflexivity|]. rewrite tcmp_nil_r in Hba. cbn [z_cmp] in Hba.
    rewrite len_S in Hba. pose proof (len_nonneg b). lia.
  - destruct b as [|y b].
    + rewrite tcmp_nil_r in Hab. cbn [z_cmp] in Hab. rewrite len_S in Hab. pose proof (len_nonneg a). lia.
    + rewrite tcmp_cons in *. rewrite (Z.eqb_sym y x) in Hba. case_eqb x y.
      * subst. f_equal. apply IH; assumption.
      * cbn [z_cmp] in *. lia.
Qed.

Lemma tcmp_lt_irrefl a : tuple_cmp OpLt a a = false.
Proof. rewrite tcmp_lt_nle, tcmp_le_refl. reflexivity. Qed.

Lemma tcmp_lt_trans a b c :
  tuple_cmp OpLt a b = true -> tuple_cmp OpLt b c = true -> tuple_cmp OpLt a c = true.
Proof.
  intros Hab Hbc. rewrite tcmp_lt_nle in *. apply negb_true_iff. apply negb_true_iff in Hab, Hbc.
  destruct (tuple_cmp OpLe c a) eqn:E; [|reflexivity].
  (* c <= a and a <= b (from totality) give c <= b, contradiction with b < c *)
  destruct (tcmp_le_total a b) as [L|L]; [|rewrite L in Hab; discriminate].
  rewrite (tcmp_le_trans c a b E L) in Hbc. discriminate.
Qed.

(* a < b  <->  a <= b and a <> b *)
Lemma tcmp_lt_le_ne a b : tuple_cmp OpLt a b = tuple_cmp OpLe a b && negb (tuple_cmp OpEq a b).
Proof.
  destruct (tuple_cmp OpLt a b) eqn:E.
  - rewrite (tcmp_lt_le _ _ E). cbn [andb]. symmetry. apply negb_true_iff.
    destruct (tuple_cmp OpEq a b) eqn:Q; [|reflexivity]. apply tcmp_eq_iff in Q. subst.
    rewrite tcmp_lt_irrefl in E. discriminate.
  - rewrite tcmp_lt_nle in E. apply negb_false_iff in E.
    destruct (tuple_cmp OpLe a b) eqn:L; [|reflexivity]. cbn [andb].
    rewrite (tcmp_le_antisym a b L E), tcmp_eq_refl. reflexivity.
Qed.

(* first differing component decides *)
Lemma tcmp_lt_head x y a b : x < y -> tuple_cmp OpLt (x :: a) (y :: b) = true.
Proof. intros H. rewrite tcmp_cons. case_eqb x y; [lia|]. cbn [z_cmp]. lia. Qed.

Lemma tcmp_lt_tail x a b : tuple_cmp OpLt (x :: a) (x :: b) = tuple_cmp OpLt a b.
Proof. rewrite tcmp_cons, Z.eqb_refl. reflexivity. Qed.
