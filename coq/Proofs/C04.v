(* Proofs/C04.v — containment is interval inclusion (IPNetwork / IPRange / IPListMixin containers). *)
From NV Require Import Base.Tac Base.PyVal Base.Bits Model.Ip Model.Contains Proofs.C02.
Open Scope Z_scope.

(* ---------- specification: plain interval arithmetic ---------- *)
Definition lo (W : Z -> Z) (o : ipobj) : Z :=
  match o with
  | Addr _ v => v
  | Net ver v p => v - v mod 2 ^ (W ver - p)
  | Rng _ s _ => s
  end.
Definition hi (W : Z -> Z) (o : ipobj) : Z :=
  match o with
  | Addr _ v => v
  | Net ver v p => v - v mod 2 ^ (W ver - p) + 2 ^ (W ver - p) - 1
  | Rng _ _ e => e
  end.
(* x lies inside y *)
Definition insideb (W : Z -> Z) (x y : ipobj) : bool :=
  (over x =? over y) && (lo W y <=? lo W x) && (hi W x <=? hi W y).

(* valid objects: what the constructors guarantee (C01/C03) *)
Definition wf_obj (W : Z -> Z) (o : ipobj) : Prop :=
  match o with
  | Addr ver v => 0 <= W ver /\ 0 <= v < 2 ^ W ver
  | Net ver v p => 0 <= p <= W ver /\ 0 <= v < 2 ^ W ver
  | Rng ver s e => 0 <= W ver /\ 0 <= s /\ s <= e /\ e < 2 ^ W ver
  end.
Definition is_container (o : ipobj) : Prop := match o with Addr _ _ => False | _ => True end.

(* ---------- block arithmetic ---------- *)
Lemma block_nested v h1 h2 : 0 <= h1 <= h2 ->
  floor2 v h2 <= floor2 v h1 /\ floor2 v h1 + 2 ^ h1 <= floor2 v h2 + 2 ^ h2.
Proof.
  intros H.
  destruct (floor2_divide v h1 ltac:(lia)) as [k1 E1].
  destruct (floor2_divide v h2 ltac:(lia)) as [k2 E2].
  pose proof (floor2_bounds v h1 ltac:(lia)) as B1.
  pose proof (floor2_bounds v h2 ltac:(lia)) as B2.
  replace h2 with ((h2 - h1) + h1) in * by lia.
  rewrite pow2_split in * by lia.
  pose proof (pow2_pos h1 ltac:(lia)). pose proof (pow2_pos (h2 - h1) ltac:(lia)).
  set (A := 2 ^ h1) in *. set (B := 2 ^ (h2 - h1)) in *.
  rewrite E1, E2 in *. clear E1 E2.
  assert (k2 * B <= k1) by nia.
  assert (k1 + 1 <= (k2 + 1) * B) by nia.
  nia.
Qed.

Lemma in_block_iff a v h : 0 <= h ->
  (floor2 a h <= v /\ v <= floor2 a h + 2 ^ h - 1) <-> floor2 v h = floor2 a h.
Proof.
  intros Hh. split.
  - intros [H1 H2]. symmetry. apply floor2_unique; [lia|apply floor2_divide; lia|lia].
  - intros E. pose proof (floor2_bounds v h Hh). lia.
Qed.

Lemma pow2_le_inv a b : 0 <= a -> 0 <= b -> 2 ^ a <= 2 ^ b -> a <= b.
Proof. intros Ha Hb H. destruct (Z_le_gt_dec a b); [assumption|]. pose proof (pow2_lt b a ltac:(lia)). lia. Qed.

Lemma shiftl_succ a h : 0 <= h -> Z.shiftl (a + 1) h = Z.shiftl a h + 2 ^ h.
Proof. intros. rewrite !Z.shiftl_mul_pow2 by lia. lia. Qed.

Lemma py_shiftr_ok a n : 0 <= n -> py_shiftr a n = Ok (Z.shiftr a n).
Proof. intros. unfold py_shiftr. destruct (Z.ltb_spec n 0); [lia|reflexivity]. Qed.
Lemma py_shiftl_ok a n : 0 <= n -> py_shiftl a n = Ok (Z.shiftl a n).
Proof. intros. unfold py_shiftl. destruct (Z.ltb_spec n 0); [lia|reflexivity]. Qed.

Lemma bool_eq_iff (a b : bool) : (a = true <-> b = true) -> a = b.
Proof. destruct a, b; intuition congruence. Qed.

Lemma floor2_spell v h : v - v mod 2 ^ h = floor2 v h.
Proof. reflexivity. Qed.

(* ---------- IPNetwork.__contains__ ---------- *)
Lemma net_contains_spec W sver sv sp x :
  wf_obj W (Net sver sv sp) -> wf_obj W x ->
  net_contains W sver sv sp x = Ok (insideb W x (Net sver sv sp)).
Proof.
  intros [Hp Hv] Hx. unfold net_contains, insideb. cbn [over lo hi].
  rewrite (Z.eqb_sym (over x) sver).
  destruct (Z.eqb_spec sver (over x)) as [Ev|Ev]; cbn [negb andb]; [|reflexivity].
  set (h := W sver - sp). assert (Hh : 0 <= h) by (unfold h; lia).
  rewrite py_shiftr_ok by assumption. cbn [bind].
  rewrite !floor2_spell.
  destruct x as [ver v|ver v p|ver s e]; cbn [over] in Ev; subst ver; cbn [wf_obj lo hi] in *; fold h.
  - (* address *)
    rewrite py_shiftr_ok by assumption. cbn [bind]. f_equal. apply bool_eq_iff.
    rewrite Z.eqb_eq, !andb_true_iff, !Z.leb_le, shiftr_eq_iff by assumption.
    pose proof (in_block_iff sv v h Hh). tauto.
  - (* network *)
    rewrite py_shiftr_ok by assumption. cbn [bind]. f_equal. apply bool_eq_iff.
    rewrite !floor2_spell.
    set (h' := W sver - p). assert (Hh' : 0 <= h') by (unfold h'; lia).
    rewrite !andb_true_iff, Z.eqb_eq, !Z.leb_le, shiftr_eq_iff by assumption.
    pose proof (floor2_bounds v h' Hh') as Bv.
    pose proof (pow2_pos h Hh). pose proof (pow2_pos h' Hh').
    split.
    + intros [E L]. assert (h' <= h) by (unfold h, h'; lia).
      pose proof (block_nested v h' h ltac:(lia)). rewrite E. lia.
    + intros [L1 L2].
      assert (2 ^ h' <= 2 ^ h) by lia.
      pose proof (pow2_le_inv h' h Hh' Hh ltac:(lia)).
      split; [|unfold h, h' in *; lia].
      symmetry. apply in_block_iff; [assumption|]. lia.
  - (* range *)
    rewrite py_shiftl_ok by assumption. cbn [bind].
    rewrite shiftr_shiftl_floor by assumption.
    destruct (Z.leb_spec (floor2 sv h) s) as [L|L]; cbn [andb].
    + rewrite py_shiftl_ok by assumption. cbn [bind]. rewrite shiftl_succ, shiftr_shiftl_floor by assumption.
      f_equal. apply bool_eq_iff. rewrite Z.gtb_lt, Z.leb_le. lia.
    + reflexivity.
Qed.

(* ---------- IPRange.__contains__ ---------- *)
Lemma range_contains_spec W sver ss se x :
  wf_obj W x ->
  range_contains W sver ss se x = Ok (insideb W x (Rng sver ss se)).
Proof.
  intros Hx. unfold range_contains, insideb. cbn [over lo hi].
  rewrite (Z.eqb_sym (over x) sver).
  destruct (Z.eqb_spec sver (over x)) as [Ev|Ev]; cbn [negb andb]; [|reflexivity].
  destruct x as [ver v|ver v p|ver s e]; cbn [over] in Ev; subst ver; cbn [wf_obj lo hi] in *.
  - f_equal. apply bool_eq_iff. rewrite !andb_true_iff, Z.geb_le, !Z.leb_le. tauto.
  - set (h := W sver - p). assert (Hh : 0 <= h) by (unfold h; lia).
    rewrite py_shiftr_ok by assumption. cbn [bind].
    rewrite py_shiftl_ok by assumption. cbn [bind].
    rewrite py_shiftl_ok by assumption. cbn [bind].
    rewrite shiftr_shiftl_floor, shiftl1, !floor2_spell by assumption.
    f_equal. apply bool_eq_iff. rewrite !andb_true_iff, Z.geb_le, !Z.leb_le. lia.
  - f_equal. apply bool_eq_iff. rewrite !andb_true_iff, Z.geb_le, !Z.leb_le. tauto.
Qed.

(* ---------- .first / .last are the interval ends ---------- *)
Lemma obj_first_eq W o : wf_obj W o -> obj_first W o = lo W o.
Proof. destruct o; cbn; intros H; try reflexivity. apply net_first_eq; tauto. Qed.
Lemma obj_last_eq W o : wf_obj W o -> obj_last W o = hi W o.
Proof. destruct o; cbn; intros H; try reflexivity. apply net_last_eq; tauto. Qed.

Lemma lo_le_hi W o : wf_obj W o -> 0 <= lo W o /\ lo W o <= hi W o /\ hi W o < 2 ^ W (over o).
Proof.
  destruct o; cbn [wf_obj lo hi over]; intros H; try lia.
  pose proof (first_last_in_range (W ver) v p ltac:(tauto) ltac:(tauto)) as [A B].
  unfold floor2 in *. pose proof (pow2_pos (W ver - p) ltac:(lia)). lia.
Qed.

Lemma first_last_spec W o : wf_obj W o ->
  obj_first W o = lo W o /\ obj_last W o = hi W o /\
  0 <= lo W o /\ lo W o <= hi W o /\ hi W o < 2 ^ W (over o).
Proof. intros H. split; [apply obj_first_eq; exact H|]. split; [apply obj_last_eq; exact H|]. exact (lo_le_hi W o H). Qed.

(* ---------- IPListMixin.__contains__ ---------- *)
Lemma mixin_contains_spec W y x : wf_obj W y -> wf_obj W x ->
  mixin_contains W y x = Ok (insideb W x y).
Proof.
  intros Hy Hx. unfold mixin_contains, insideb.
  rewrite (Z.eqb_sym (over x) (over y)).
  destruct (Z.eqb_spec (over y) (over x)) as [Ev|Ev]; cbn [negb andb]; [|reflexivity].
  rewrite !obj_first_eq, !obj_last_eq by assumption.
  destruct x; cbn [lo hi]; f_equal; apply bool_eq_iff;
    rewrite !andb_true_iff, Z.geb_le, !Z.leb_le; tauto.
Qed.

(* ---------- the dispatching `x in y` ---------- *)
Lemma contains_spec W y x : is_container y -> wf_obj W y -> wf_obj W x ->
  contains W y x = Ok (insideb W x y).
Proof.
  destruct y; cbn [is_container contains]; intros C Hy Hx; [contradiction| |].
  - apply net_contains_spec; assumption.
  - apply range_contains_spec; assumption.
Qed.

(* the specification read as a statement about sets of addresses *)
Lemma insideb_subset W x y : wf_obj W x -> wf_obj W y ->
  (insideb W x y = true <->
   over x = over y /\ forall a, lo W x <= a <= hi W x -> lo W y <= a <= hi W y).
Proof.
  intros Hx Hy. unfold insideb. rewrite !andb_true_iff, Z.eqb_eq, !Z.leb_le.
  pose proof (lo_le_hi W x Hx). pose proof (lo_le_hi W y Hy).
  split.
  - intros [[E A] B]. split; [assumption|]. intros a Ha. lia.
  - intros [E S]. pose proof (S (lo W x) ltac:(lia)). pose proof (S (hi W x) ltac:(lia)). lia.
Qed.

(* string operands: whatever object the constructor produced is what is tested *)
Lemma net_contains_other_spec W sver sv sp n :
  wf_obj W (Net sver sv sp) -> wf_obj W (as_obj n) ->
  net_contains_other W sver sv sp (Ok n) = Ok (insideb W (as_obj n) (Net sver sv sp)).
Proof. intros. cbn. apply net_contains_spec; assumption. Qed.
Lemma range_contains_other_spec W sver ss se ver v :
  wf_obj W (Addr ver v) ->
  range_contains_other W sver ss se (Ok (ver, v)) = Ok (insideb W (Addr ver v) (Rng sver ss se)).
Proof. intros. cbn. apply range_contains_spec; assumption. Qed.
