(* Proofs/GenOk_Src_C06.v -- SRCA: source tie for C06 (mutators of IPSet) and for IPSet.union (C07).  The definitions regenerated
   from the text of netaddr/ip/sets.py (Gen/pysrc_sets_mut_gen.v) equal the hand-written model of Model/Sets.v that the
   theorems of Props/C06*.v are about.  A stateful method takes the state `_cidrs` (the insertion-ordered list of its keys)
   first and returns the new state (with the returned value, if any).  cidr_merge is not translated: it is the model's
   function on both sides (Model/SrcPreludeSplitter.v py_cidr_merge). *)
From NV Require Import Base.Tac Base.PyVal Base.Bits Model.Ip Model.Partition Model.Span Model.Merge Model.Sets Model.PySlice
  Model.SrcPrelude Model.SrcPreludeSplitter Model.SrcPreludeSets Gen.pysrc_gen Gen.pysrc_sets_gen Gen.pysrc_sets_mut_gen
  Proofs.C02 Proofs.GenOk_Src_C07.
Import ListNotations.
Open Scope Z_scope.

Lemma src_compact_ok d : src_IPSet_compact d = set_compact d.
Proof. reflexivity. Qed.

Lemma src_pop_ok d : src_IPSet_pop d = set_pop d.
Proof. unfold src_IPSet_pop, set_pop, py_dict_popitem. destruct (rev d); reflexivity. Qed.

(* update(<IPSet>): flags is not used on this path *)
Lemma src_update_ipset_ok d o flags : src_IPSet_update_ipset d o flags = set_update d (ASet o).
Proof. unfold src_IPSet_update_ipset, set_update, py_cidr_merge. destruct (cidr_merge (map MNet (d ++ o))); reflexivity. Qed.

Lemma src_union_ok a b : src_IPSet_union a b = set_union a b.
Proof.
  unfold src_IPSet_union, set_union. cbv zeta. rewrite src_copy_ok, src_update_ipset_ok.
  destruct (set_update (dupdate [] a) (ASet b)); reflexivity.
Qed.

(* everything the C06 source tie states (Props/C06_src.v) *)
Lemma C06_tie_ok :
  (forall d, src_IPSet_compact d = set_compact d) /\
  (forall d, src_IPSet_pop d = set_pop d) /\
  (forall d o flags, src_IPSet_update_ipset d o flags = set_update d (ASet o)) /\
  (forall a b, src_IPSet_union a b = set_union a b).
Proof. split; [exact src_compact_ok|]. split; [exact src_pop_ok|]. split; [exact src_update_ipset_ok|exact src_union_ok]. Qed.
