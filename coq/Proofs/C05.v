(* Proofs/C05.v — property C05: CIDR summarisation is exact and minimal.  The two specifications of Proofs/NetDen.v
   (C05_range in Proofs/C05_range.v, C05_merge in Proofs/C05_merge.v) and their corollaries: uniqueness, minimality,
   independence of input order and duplication, idempotence. *)
From NV Require Import Base.Tac Base.PyVal Base.Bits Base.Canon Model.Ip Model.Partition Model.Span Model.Merge Model.Sets
  Proofs.C02 Proofs.NetDen.
From NV Require Export Proofs.C05_range Proofs.C05_merge.
From Coq Require Import Sorting.Sorted Sorting.Permutation.
Open Scope Z_scope.

(* the result is THE canon_nets list of the union of the inputs: any canon_nets list with those addresses is it *)
Theorem C05_unique items l l' : Forall wf_mitem items -> cidr_merge items = Ok l ->
  canon_nets l' -> (forall ver x, den l' ver x <-> den_items items ver x) -> l' = l.
Proof.
  intros W E C' D'. destruct (C05_merge items W) as (l0 & E0 & C0 & D0). rewrite E in E0. injection E0 as <-.
  apply canon_nets_unique; [exact C'|exact C0|]. intros ver x. rewrite D', D0. tauto.
Qed.

(* ... and no list of networks (host bits allowed, any order) with those addresses is shorter, family by family *)
Theorem C05_minimal items l l' : Forall wf_mitem items -> cidr_merge items = Ok l ->
  Forall wf_net l' -> (forall ver x, den l' ver x <-> den_items items ver x) ->
  (length (fam 4 l) <= length (fam 4 l'))%nat /\ (length (fam 6 l) <= length (fam 6 l'))%nat /\
  (length l <= length l')%nat.
Proof.
  intros W E F' D'. destruct (C05_merge items W) as (l0 & E0 & C0 & D0). rewrite E in E0. injection E0 as <-.
  apply canon_nets_minimal; [exact C0|exact F'|]. intros ver x. rewrite D', D0. tauto.
Qed.

(* same for one interval *)
Theorem C05_range_unique s e l l' : wf_net s -> wf_net e -> nver s = nver e -> nf s <= nl e ->
  iprange_to_cidrs s e = Ok l ->
  canon_nets l' -> (forall ver x, den l' ver x <-> (ver = nver s /\ nf s <= x <= nl e)) -> l' = l.
Proof.
  intros Ws We Hv Hle E C' D'. destruct (C05_range s e Ws We Hv Hle) as (l0 & E0 & C0 & D0).
  rewrite E in E0. injection E0 as <-.
  apply canon_nets_unique; [exact C'|exact C0|]. intros ver x. rewrite D', D0. tauto.
Qed.

Theorem C05_range_minimal s e l l' : wf_net s -> wf_net e -> nver s = nver e -> nf s <= nl e ->
  iprange_to_cidrs s e = Ok l ->
  Forall wf_net l' -> (forall ver x, den l' ver x <-> (ver = nver s /\ nf s <= x <= nl e)) ->
  (length l <= length l')%nat.
Proof.
  intros Ws We Hv Hle E F' D'. destruct (C05_range s e Ws We Hv Hle) as (l0 & E0 & C0 & D0).
  rewrite E in E0. injection E0 as <-.
  apply (canon_nets_minimal l l'); [exact C0|exact F'|]. intros ver x. rewrite D', D0. tauto.
Qed.

(* the result depends only on the set of addresses denoted by the inputs ... *)
Theorem C05_extensional xs ys : Forall wf_mitem xs -> Forall wf_mitem ys ->
  (forall ver x, den_items xs ver x <-> den_items ys ver x) -> cidr_merge xs = cidr_merge ys.
Proof.
  intros Wx Wy D. destruct (C05_merge xs Wx) as (lx & Ex & Cx & Dx). destruct (C05_merge ys Wy) as (ly & Ey & Cy & Dy).
  rewrite Ex, Ey. f_equal. apply canon_nets_unique; [exact Cx|exact Cy|]. intros ver x. rewrite Dx, Dy. apply D.
Qed.

(* ... hence not on the order of the inputs ... *)
Theorem C05_perm_invariant xs ys : Forall wf_mitem xs -> Permutation xs ys -> cidr_merge xs = cidr_merge ys.
Proof.
  intros Wx P.
  assert (Wy: Forall wf_mitem ys).
  { rewrite Forall_forall in *. intros m Hm. apply Wx. eapply Permutation_in; [apply Permutation_sym, P|exact Hm]. }
  apply C05_extensional; [exact Wx|exact Wy|]. intros ver x. unfold den_items.
  split; intros (m & Hm & I); exists m; (split; [|exact I]).
  - eapply Permutation_in; [exact P|exact Hm].
  - eapply Permutation_in; [apply Permutation_sym, P|exact Hm].
Qed.

(* ... nor on duplication: two input sequences with the same elements give the same result *)
Theorem C05_dup_invariant xs ys : Forall wf_mitem xs -> (forall m, In m xs <-> In m ys) -> cidr_merge xs = cidr_merge ys.
Proof.
  intros Wx S.
  assert (Wy: Forall wf_mitem ys) by (rewrite Forall_forall in *; intros m Hm; apply Wx, S, Hm).
  apply C05_extensional; [exact Wx|exact Wy|]. intros ver x. unfold den_items.
  split; intros (m & Hm & I); exists m; (split; [apply S; exact Hm|exact I]).
Qed.

(* merging a canonical list again (its blocks as networks) changes nothing; in particular merge o merge = merge *)
Lemma den_items_nets l ver x : den_items (map MNet l) ver x <-> den l ver x.
Proof.
  unfold den_items, den. split.
  - intros (m & Hm & I). apply in_map_iff in Hm. destruct Hm as (n & <- & Hn). exists n. split; [exact Hn|exact I].
  - intros (n & Hn & I). exists (MNet n). split; [apply in_map, Hn|exact I].
Qed.

Theorem C05_canon_fixpoint l : canon_nets l -> cidr_merge (map MNet l) = Ok l.
Proof.
  intros C.
  assert (W: Forall wf_mitem (map MNet l)).
  { apply Forall_forall. intros m Hm. apply in_map_iff in Hm. destruct Hm as (n & <- & Hn).
    pose proof (canon_nets_wf l C) as F. rewrite Forall_forall in F. apply F, Hn. }
  destruct (C05_merge _ W) as (l' & E & C' & D'). rewrite E. f_equal.
  apply canon_nets_unique; [exact C'|exact C|]. intros ver x. rewrite D'. apply den_items_nets.
Qed.

Theorem C05_idempotent items l : Forall wf_mitem items -> cidr_merge items = Ok l -> cidr_merge (map MNet l) = Ok l.
Proof.
  intros W E. destruct (C05_merge items W) as (l0 & E0 & C0 & _). rewrite E in E0. injection E0 as <-.
  apply C05_canon_fixpoint, C0.
Qed.

(* IPRange(lo, hi).cidrs() / glob_to_cidrs: iprange_to_cidrs at address endpoints 0 <= lo <= hi < 2^w *)
Theorem C05_range_addrs ver lo hi : valid_ver ver = true -> 0 <= lo <= hi -> hi < 2 ^ width ver ->
  exists l, iprange_to_cidrs (addr_net ver lo) (addr_net ver hi) = Ok l /\ canon_nets l /\
    forall v x, den l v x <-> v = ver /\ lo <= x <= hi.
Proof. apply (emit_range C05_range). Qed.

(* a single range given to cidr_merge yields the same list as iprange_to_cidrs *)
Theorem C05_merge_one_range ver lo hi : valid_ver ver = true -> 0 <= lo <= hi -> hi < 2 ^ width ver ->
  cidr_merge [MRange ver lo hi] = iprange_to_cidrs (addr_net ver lo) (addr_net ver hi).
Proof.
  intros V H1 H2. destruct (C05_range_addrs ver lo hi V H1 H2) as (l & E & C & D). rewrite E.
  assert (W: Forall wf_mitem [MRange ver lo hi]) by (constructor; [cbn; tauto|constructor]).
  destruct (C05_merge _ W) as (l' & E' & C' & D'). rewrite E'. f_equal.
  apply canon_nets_unique; [exact C'|exact C|]. intros v x. rewrite D', D. unfold den_items.
  split.
  - intros (m & [<-|[]] & I). unfold in_mitem in I. cbn [mi_ver mi_first mi_last] in I. split; [symmetry; tauto|tauto].
  - intros (-> & I). exists (MRange ver lo hi). split; [now left|]. unfold in_mitem; cbn [mi_ver mi_first mi_last]. tauto.
Qed.
