(* Proofs/C03_Abbrev.v — implicit_prefix never makes an unreadable text readable: whatever IPNetwork(s, implicit_prefix=True)
   accepts, IPNetwork(s) accepts with the same family and the same address (only the prefix may differ: the classful
   one instead of the full width). *)
From Coq Require Import String Ascii.
From NV Require Import Base.Tac Base.PyVal Base.Bits Base.PyStr Base.PyStrFacts Model.IpText Model.FbSocket Model.AddrText
  Model.Ip Model.NetText Proofs.C01_Chars Proofs.C01_V6 Proofs.C01_Value Proofs.C01_V4 Proofs.C01_Strict6 Proofs.C01
  Proofs.C02 Proofs.C03_Str Proofs.C03_Range Proofs.C03 Proofs.C03_Total.
Import ListNotations.
Open Scope Z_scope.

Definition nodot (t : string) : Prop := contains_char "." t = false.

Lemma contains_join_dot c l : ascii_eqb c "." = false -> contains_char c (join "." l) = existsb (contains_char c) l.
Proof. intros Hc. induction l as [|t [|u r] IH].
  - reflexivity.
  - rewrite join_single. cbn [existsb]. now rewrite orb_false_r.
  - rewrite join_cons, !contains_char_app, IH. cbn [existsb]. f_equal. cbn. now rewrite Hc. Qed.

Lemma join_has_dot t u r : contains_char "." (join "." (t :: u :: r)) = true.
Proof. rewrite join_cons, !contains_char_app. cbn. now rewrite orb_true_r. Qed.

Lemma split_chars_joined l : l <> [] -> Forall nodot l -> split_chars "." (chars (join "." l)) [] = map chars l.
Proof. intros Hne H. pose proof (split_join "." l Hne H) as S. unfold split in S.
  rewrite <- (map_chars_str_of (split_chars _ _ _)). now rewrite S. Qed.

Lemma strict_short be l : l <> [] -> Forall nodot l -> (List.length l <> 4)%nat -> contains_char "/" (join "." l) = false ->
  init_str be (join "." l) (Some 4) INET_PTON = Raise AddrFormatError.
Proof. intros Hne H L NS. unfold init_str. change (4 =? 4) with true. cbn [bind]. rewrite NS, strict_exact_v4.
  unfold Std4.pton4, Std4.pton4_chars. change ch_dot with "."%char. rewrite split_chars_joined by assumption. rewrite map_length.
  destruct (Nat.eqb (List.length l) 4) eqn:N; [apply Nat.eqb_eq in N; contradiction|reflexivity]. Qed.

(* expand_partial_address after its tokens are known *)
Definition expand_from (l : list string) : outcome string :=
  do tokens <- Fb.map_out int_token l;
  if (1 <=? len tokens) && (len tokens <=? 4) then
    match pad_tokens tokens with
    | [a; b; c; d] => Ok (a ++ "." ++ b ++ "." ++ c ++ "." ++ d)%string
    | _ => Raise TypeError
    end
  else Raise AddrFormatError.

Lemma expand_join l : l <> [] -> Forall nodot l -> existsb (contains_char ":") l = false ->
  expand_partial_address (join "." l) = expand_from l.
Proof. intros Hne H C. unfold expand_partial_address, expand_from. rewrite contains_join_dot by reflexivity. rewrite C.
  destruct l as [|t [|u r]]; [congruence| |].
  - rewrite join_single. inversion H; subst. unfold nodot in *.
    match goal with X : contains_char "." t = false |- _ => rewrite X end.
    cbn [Fb.map_out]. destruct (int_token t); reflexivity.
  - rewrite join_has_dot, split_join by assumption. reflexivity. Qed.

Lemma map_out_zeros n : Fb.map_out int_token (repeat "0"%string n) = Ok (repeat "0"%string n).
Proof. induction n as [|n IH]; [reflexivity|]. cbn [repeat Fb.map_out]. rewrite IH. reflexivity. Qed.

Lemma expand_from_pad l : l <> [] -> (List.length l <= 4)%nat -> expand_from (pad_tokens l) = expand_from l.
Proof. intros Hne L. unfold expand_from, pad_tokens at 1. rewrite map_out_app, map_out_zeros.
  destruct (Fb.map_out int_token l) as [r|e] eqn:E; cbn [bind]; [|reflexivity].
  pose proof (map_out_length _ _ _ E) as LR. unfold len. rewrite app_length, repeat_length, LR.
  assert (K : (1 <= List.length l)%nat) by (destruct l; [congruence|cbn; lia]).
  assert (E1 : (1 <=? Z.of_nat (List.length l + (4 - List.length l))) && (Z.of_nat (List.length l + (4 - List.length l)) <=? 4) = true) by lia.
  assert (E2 : (1 <=? Z.of_nat (List.length l)) && (Z.of_nat (List.length l) <=? 4) = true) by lia.
  rewrite E1, E2. unfold pad_tokens. rewrite app_length, repeat_length, LR.
  replace (4 - (List.length l + (4 - List.length l)))%nat with 0%nat by lia. cbn [repeat]. now rewrite app_nil_r. Qed.

Lemma octet_int_token t v : Std4.octet (chars t) = Some v -> int_token t = Ok (fmt_d v).
Proof. unfold Std4.octet. destruct (chars t) as [|c r] eqn:E; [discriminate|].
  destruct (forallb is_dec (c :: r)) eqn:F; [|discriminate]. cbn [andb].
  destruct (_ && _); [|discriminate]. destruct (_ <=? 255); [|discriminate]. intros X. injection X as <-.
  destruct (py_int_dec_token (c :: r) ltac:(discriminate) F) as [P _]. rewrite <- E, str_of_chars in P.
  unfold int_token. rewrite P. now rewrite E. Qed.

Lemma octets_int_token l : forall o, map_opt Std4.octet (map chars l) = Some o -> Fb.map_out int_token l = Ok (map fmt_d o).
Proof. induction l as [|t l IH]; intros o; cbn [map map_opt Fb.map_out].
  - intros X. now injection X as <-.
  - destruct (Std4.octet (chars t)) as [v|] eqn:E; [|discriminate].
    destruct (map_opt Std4.octet (map chars l)) as [o'|]; [|discriminate]. intros X. injection X as <-.
    rewrite (octet_int_token t v E). cbn [bind]. rewrite (IH o' eq_refl). reflexivity. Qed.

Lemma pad_tokens_full (l : list string) : List.length l = 4%nat -> pad_tokens l = l.
Proof. intros L. unfold pad_tokens. rewrite L. cbn. apply app_nil_r. Qed.

Lemma existsb_app_zeros (c : ascii) l n : contains_char c "0" = false ->
  existsb (contains_char c) (l ++ repeat "0"%string n) = existsb (contains_char c) l.
Proof. intros Z. rewrite existsb_app. induction n as [|n IH]; [cbn; apply orb_false_r|]. cbn [repeat existsb]. now rewrite Z. Qed.

(* the address part of the padded text is read only if the unpadded one is, with the same value *)
Lemma addr_part_pad be l v : l <> [] -> (List.length l <= 4)%nat -> Forall nodot l ->
  existsb (contains_char ":") l = false -> existsb (contains_char "/") l = false ->
  addr_part be 4 (join "." (pad_tokens l)) = Ok v -> addr_part be 4 (join "." l) = Ok v.
Proof. intros Hne L H C S. destruct (Nat.eq_dec (List.length l) 4) as [L4|L4]; [now rewrite pad_tokens_full|].
  set (P := pad_tokens l).
  assert (PN : P <> []) by (unfold P, pad_tokens; destruct l; [congruence|discriminate]).
  assert (PD : Forall nodot P).
  { unfold P, pad_tokens. apply Forall_app. split; [exact H|]. apply Forall_forall. intros x Hx. apply repeat_spec in Hx. now subst. }
  assert (PC : existsb (contains_char ":") P = false) by (unfold P, pad_tokens; now rewrite existsb_app_zeros).
  assert (PS : existsb (contains_char "/") P = false) by (unfold P, pad_tokens; now rewrite existsb_app_zeros).
  assert (QS : contains_char "/" (join "." l) = false) by (now rewrite contains_join_dot).
  assert (SQ : init_str be (join "." l) (Some 4) INET_PTON = Raise AddrFormatError) by (now apply strict_short).
  assert (EQ : expand_partial_address (join "." l) = expand_partial_address (join "." P)).
  { rewrite !expand_join by assumption. unfold P. now rewrite expand_from_pad. }
  unfold addr_part at 2. rewrite SQ. change (4 =? 4) with true. cbn iota. rewrite EQ.
  unfold addr_part. destruct (init_str be (join "." P) (Some 4) INET_PTON) as [[x v']|e] eqn:SP.
  - cbn [snd]. intros X. injection X as ->.
    (* the strict parser read the padded text: its tokens are canonical octets, the expansion reprints them *)
    assert (NSP : contains_char "/" (join "." P) = false) by (now rewrite contains_join_dot).
    unfold init_str in SP. change (4 =? 4) with true in SP. cbn [bind] in SP. rewrite NSP, strict_exact_v4 in SP.
    unfold Std4.pton4, Std4.pton4_chars in SP. change ch_dot with "."%char in SP. rewrite split_chars_joined in SP by assumption.
    destruct (Nat.eqb (List.length (map chars P)) 4); [|discriminate].
    destruct (map_opt Std4.octet (map chars P)) as [o|] eqn:MO; [|discriminate].
    assert (SH : exists a b c d, o = [a; b; c; d] /\ octetP a /\ octetP b /\ octetP c /\ octetP d).
    { apply (pton4_chars_shape (chars (join "." P))). unfold Std4.pton4_chars. change ch_dot with "."%char.
      rewrite split_chars_joined by assumption.
      destruct (Nat.eqb (List.length (map chars P)) 4) eqn:N; [exact MO|].
      rewrite map_length in N. unfold P, pad_tokens in N. rewrite app_length, repeat_length in N.
      apply Nat.eqb_neq in N. lia. }
    destruct SH as (a & b & c & d & -> & Ha & Hb & Hc & Hd).
    rewrite expand_join by assumption. unfold expand_from. rewrite (octets_int_token P _ MO). cbn [bind map].
    change (len [fmt_d a; fmt_d b; fmt_d c; fmt_d d]) with 4. cbn [Z.leb Z.compare andb]. change (1 <=? 4) with true. change (4 <=? 4) with true.
    cbn [andb]. rewrite pad_tokens_4. rewrite <- join4, <- ntoa_as_join. cbn [bind]. rewrite init_quad by assumption. cbn [bind snd].
    cbn [unpack_I] in SP. injection SP as _ <-. reflexivity.
  - destruct e; try discriminate. tauto. Qed.

(* ================================================================ the shapes cidr_abbrev_to_verbose can return *)
Lemma abbrev_cases s s' : cidr_abbrev_to_verbose s = Ok s' ->
  s' = s \/
  (contains_char ":" s = false /\ contains_char "/" s = false /\ contains_char "." s = false /\
   exists i cp, py_int 10 s = Some i /\ 0 <= i <= 255 /\ 0 <= cp <= 32 /\ s' = (fmt_d i ++ ".0.0.0/" ++ fmt_d cp)%string) \/
  (contains_char ":" s = false /\
   exists part val2 q n, split_slash s = Ok (part, val2) /\ contains_char "/" part = false /\ contains_char ":" part = false /\
     (val2 = Some q \/ val2 = None) /\ py_int 10 q = Some n /\ 0 <= n <= 32 /\
     (List.length (split "." part) <= 4)%nat /\ s' = (join "." (pad_tokens (split "." part)) ++ "/" ++ q)%string).
Proof. unfold cidr_abbrev_to_verbose. destruct (contains_char ":" s) eqn:C; cbn [orb]; [intros X; injection X as <-; now left|].
  destruct (String.eqb s ""); [intros X; injection X as <-; now left|].
  destruct (py_int 10 s) as [i|] eqn:PI.
  - destruct (Z_le_dec 0 i) as [L0|L0]; [destruct (Z_le_dec i 255) as [L1|L1]|].
    + rewrite classful_prefix_int_ok by lia. intros X. injection X as <-. right. left.
      split; [reflexivity|]. split; [|split].
      * destruct (contains_char "/" s) eqn:E; [|reflexivity]. rewrite (py_int_slash s E) in PI. discriminate.
      * destruct (contains_char "." s) eqn:E; [|reflexivity]. rewrite (py_int_dot s E) in PI. discriminate.
      * exists i, (classful i). repeat split; try lia; apply classful_range.
    + rewrite classful_prefix_int_bad by lia. intros X. injection X as <-. now left.
    + rewrite classful_prefix_int_bad by lia. intros X. injection X as <-. now left.
  - assert (G : forall part val2 prefix, split_slash s = Ok (part, val2) -> contains_char "/" part = false -> contains_char ":" part = false ->
      (match prefix with Some q => val2 = Some q /\ exists n, py_int 10 q = Some n /\ 0 <= n <= 32 | None => val2 = None end) ->
      (let tokens := split "." part in
       if 4 <? len tokens then Ok s
       else let tokens0 := pad_tokens tokens in
            match prefix with
            | Some p => Ok (join "." tokens0 ++ "/" ++ p)%string
            | None => match tokens0 with
                      | [] => Raise IndexError
                      | t0 :: _ => match classful_prefix_str t0 with
                                   | Ok p => Ok (join "." tokens0 ++ "/" ++ fmt_d p)%string
                                   | Raise ValueError => Ok s
                                   | Raise IndexError => Ok s
                                   | Raise e => Raise e
                                   end
                      end
            end) = Ok s' ->
      s' = s \/ (False) \/
      (contains_char ":" s = false /\
       exists part val2 q n, split_slash s = Ok (part, val2) /\ contains_char "/" part = false /\ contains_char ":" part = false /\
         (val2 = Some q \/ val2 = None) /\ py_int 10 q = Some n /\ 0 <= n <= 32 /\
         (List.length (split "." part) <= 4)%nat /\ s' = (join "." (pad_tokens (split "." part)) ++ "/" ++ q)%string)).
    { intros part val2 prefix SS NS NC HP. cbv zeta. destruct (4 <? len (split "." part)) eqn:LT; [intros X; injection X as <-; now left|].
      assert (LL : (List.length (split "." part) <= 4)%nat) by (unfold len in LT; lia).
      destruct prefix as [q|].
      - destruct HP as (-> & n & Pn & Hn). intros X. injection X as <-. right. right. split; [exact C|].
        exists part, (Some q), q, n. repeat split; auto; lia.
      - subst val2. destruct (split "." part) as [|t r] eqn:E; [exfalso; eapply split_nonempty; eauto|].
        destruct (pad_tokens_cons t r) as (r' & PT). rewrite PT. unfold classful_prefix_str.
        destruct (py_int 10 t) as [i|]; [|intros X; injection X as <-; now left].
        destruct (classful_int_cases i) as [(p & -> & Hp) | ->]; [|intros X; injection X as <-; now left].
        intros X. injection X as <-. right. right. split; [exact C|].
        exists part, None, (fmt_d p), p. rewrite E, PT. repeat split; auto; try lia. apply py_int_fmt_d. }
    destruct (contains_char "/" s) eqn:CS.
    + destruct (split1_two s CS) as (a & t & S1 & NS & ES). rewrite S1.
      assert (SS : split_slash s = Ok (a, Some t)) by (unfold split_slash; now rewrite CS, S1).
      assert (NC : contains_char ":" a = false).
      { rewrite ES, contains_char_app in C. now apply orb_false_iff in C. }
      destruct (py_int 10 t) as [n|] eqn:Pt; cbn [bind]; [|intros X; injection X as <-; now left].
      destruct ((0 <=? n) && (n <=? 32)) eqn:R; cbn [bind]; [|intros X; injection X as <-; now left].
      intros X. destruct (G a (Some t) (Some t) SS NS NC ltac:(split; [reflexivity|exists n; split; [exact Pt|lia]]) X) as [K | [[] | K]];
        [left; exact K|right; right; split; [reflexivity|exact (proj2 K)]].
    + cbn [bind]. assert (SS : split_slash s = Ok (s, None)) by (unfold split_slash; now rewrite CS).
      intros X. destruct (G s None None SS CS C eq_refl X) as [K | [[] | K]];
        [left; exact K|right; right; split; [reflexivity|exact (proj2 K)]]. Qed.

(* ================================================================ implicit_prefix accepts no new address *)
Lemma tokens_no_char c part : ascii_eqb c "." = false -> contains_char c part = false ->
  existsb (contains_char c) (split "." part) = false.
Proof. intros Hc H. rewrite <- (contains_join_dot c _ Hc). now rewrite join_split. Qed.

Theorem implicit_no_new_address be ver s v p : valid_ver ver = true -> parse_str be ver s true = Ok (v, p) ->
  exists p', parse_str be ver s false = Ok (v, p').
Proof. intros Hver H. destruct (abbrev_total s) as (s' & AB). rewrite (parse_str_abbrev be ver s s' AB) in H.
  destruct (abbrev_cases s s' AB) as [-> | [(C & NS & ND & i & cp & PI & Hi & Hcp & ->) | (C & part & val2 & q & n & SS & NSp & NCp & HV & Pq & Hn & LL & ->)]].
  - eauto.
  - (* a single octet *)
    assert (E : (fmt_d i ++ ".0.0.0/" ++ fmt_d cp)%string = (Std4.ntoa [i; 0; 0; 0] ++ "/" ++ fmt_d cp)%string).
    { rewrite ntoa_as_join, join4, fmt_d_0. now rewrite !string_app_assoc. }
    rewrite E in H. assert (Oi : octetP i) by (unfold octetP; lia). assert (O0 : octetP 0) by (unfold octetP; lia).
    assert (FO : Forall octetP [i; 0; 0; 0]) by (repeat apply Forall_cons; try apply Forall_nil; assumption).
    destruct (width_cases ver Hver) as [[-> _] | [-> _]].
    + rewrite parse_quad_prefix in H by assumption. injection H as <- <-. exists 32.
      rewrite parse_str_bare by exact NS.
      assert (A : addr_part be 4 s = Ok (quad_value [i; 0; 0; 0])).
      { unfold addr_part.
        assert (SQ : init_str be s (Some 4) INET_PTON = Raise AddrFormatError).
        { unfold init_str. change (4 =? 4) with true. cbn [bind]. rewrite NS, strict_exact_v4. unfold Std4.pton4.
          now rewrite pton4_no_dot. }
        rewrite SQ. change (4 =? 4) with true. cbn iota. unfold expand_partial_address. rewrite C, ND. unfold int_token. rewrite PI.
        cbn [bind]. change (len [fmt_d i]) with 1. change ((1 <=? 1) && (1 <=? 4)) with true. cbn iota.
        unfold pad_tokens. cbn [List.length Nat.sub repeat app]. rewrite <- fmt_d_0 at 1 2 3. rewrite <- join4, <- ntoa_as_join. cbn [bind].
        now rewrite init_quad. }
      rewrite A. reflexivity.
    + exfalso. rewrite parse_str_slash in H.
      * unfold addr_part in H. rewrite init6_no_colon in H; [discriminate| |].
        -- rewrite ntoa_dotted. apply dotted_no_colon. exact FO.
        -- rewrite ntoa_dotted. apply dotted_no_slash. exact FO.
      * rewrite ntoa_dotted. apply dotted_no_slash. exact FO.
  - (* several octets, or an explicit prefix *)
    set (toks := split "." part) in *.
    assert (TN : toks <> []) by apply split_nonempty.
    assert (TD : Forall nodot toks) by apply split_fields.
    assert (TC : existsb (contains_char ":") toks = false) by (now apply tokens_no_char).
    assert (TS : existsb (contains_char "/") toks = false) by (now apply tokens_no_char).
    assert (PS : contains_char "/" (join "." (pad_tokens toks)) = false).
    { rewrite contains_join_dot by reflexivity. unfold pad_tokens. now rewrite existsb_app_zeros. }
    assert (PC : contains_char ":" (join "." (pad_tokens toks)) = false).
    { rewrite contains_join_dot by reflexivity. unfold pad_tokens. now rewrite existsb_app_zeros. }
    rewrite parse_str_slash in H by exact PS.
    destruct (addr_part be ver (join "." (pad_tokens toks))) as [v0|] eqn:A; cbn [bind] in H; [|discriminate].
    rewrite (prefix_part_int be ver q n Pq) in H. cbn [bind] in H.
    destruct (width_cases ver Hver) as [[-> W] | [-> W]].
    + rewrite check_prefix_ok in H by (rewrite W; lia). injection H as <- <-.
      apply addr_part_pad in A; try assumption. unfold toks in A. rewrite join_split in A.
      rewrite parse_str_unfold. cbn [bind]. rewrite SS. cbn [bind fst snd]. rewrite A. cbn [bind].
      destruct HV as [-> | ->].
      * rewrite (prefix_part_int be 4 q n Pq). cbn [bind]. exists n. apply check_prefix_ok. rewrite W. lia.
      * cbn [prefix_part bind]. exists (width 4). apply check_prefix_ok. rewrite W. lia.
    + exfalso. unfold addr_part in A. rewrite init6_no_colon in A by assumption. discriminate. Qed.

(* hence: a text that IPNetwork() rejects is also rejected under implicit_prefix=True *)
Lemma parse_str_of_net be ver s ip flags : valid_ver ver = true ->
  parse_ip_network be ver (AStr s) ip flags = Raise AddrFormatError -> parse_str be ver s ip = Raise AddrFormatError.
Proof. intros Hver H. destruct (parse_str_cases be ver s ip Hver) as [E | (v & p & E & Hv & Hp)]; [exact E|].
  rewrite (parse_net_str be ver s ip flags v p E Hp Hv) in H. discriminate. Qed.

Lemma parse_true_raises be ver s flags : valid_ver ver = true ->
  parse_ip_network be ver (AStr s) false flags = Raise AddrFormatError ->
  parse_ip_network be ver (AStr s) true flags = Raise AddrFormatError.
Proof. intros Hver H. apply parse_str_of_net in H; [|exact Hver]. apply parse_net_str_raise.
  destruct (parse_str_cases be ver s true Hver) as [E | (v & p & E & _)]; [exact E|].
  destruct (implicit_no_new_address be ver s v p Hver E) as (p' & E'). congruence. Qed.

Lemma parse_str_only_afe be ver s ip flags e : valid_ver ver = true ->
  parse_ip_network be ver (AStr s) ip flags = Raise e -> e = AddrFormatError.
Proof. intros Hver H. destruct (parse_str_cases be ver s ip Hver) as [E | (v & p & E & Hv & Hp)].
  - rewrite (parse_net_str_raise _ _ _ _ flags _ E) in H. now injection H as <-.
  - rewrite (parse_net_str be ver s ip flags v p E Hp Hv) in H. discriminate. Qed.

Theorem implicit_prefix_conservative be s version flags : version = Some 4 \/ version = Some 6 \/ version = None ->
  net_init be (AStr s) false version flags = Raise AddrFormatError ->
  net_init be (AStr s) true version flags = Raise AddrFormatError.
Proof. intros [-> | [-> | ->]].
  - rewrite !net_init_explicit by (reflexivity || discriminate).
    destruct (parse_ip_network be 4 (AStr s) false flags) as [r|e] eqn:E; cbn [bind]; [discriminate|].
    pose proof (parse_str_only_afe be 4 s false flags e eq_refl E) as ->. intros _.
    now rewrite (parse_true_raises be 4 s flags eq_refl E).
  - rewrite !net_init_explicit by (reflexivity || discriminate).
    destruct (parse_ip_network be 6 (AStr s) false flags) as [r|e] eqn:E; cbn [bind]; [discriminate|].
    pose proof (parse_str_only_afe be 6 s false flags e eq_refl E) as ->. intros _.
    now rewrite (parse_true_raises be 6 s flags eq_refl E).
  - unfold net_init.
    destruct (parse_ip_network be 4 (AStr s) false flags) as [r|e] eqn:E4; [discriminate|].
    pose proof (parse_str_only_afe be 4 s false flags e eq_refl E4) as ->.
    destruct (parse_ip_network be 6 (AStr s) false flags) as [r|e'] eqn:E6; [discriminate|].
    pose proof (parse_str_only_afe be 6 s false flags e' eq_refl E6) as ->. intros _.
    now rewrite (parse_true_raises be 4 s flags eq_refl E4), (parse_true_raises be 6 s flags eq_refl E6). Qed.

(* the address-part rejection theorem, for either value of implicit_prefix *)
Theorem rejects_address_any be val1 rest ip version flags : contains_char "/" val1 = false ->
  (rest = ""%string \/ exists t, rest = ("/" ++ t)%string) ->
  (version = Some 4 \/ version = None -> v4_unreadable be val1) ->
  (version = Some 6 \/ version = None -> v6_unreadable be val1) ->
  version = Some 4 \/ version = Some 6 \/ version = None ->
  net_init be (AStr (val1 ++ rest)) ip version flags = Raise AddrFormatError.
Proof. intros NS Hr H4 H6 Hver. pose proof (rejects_address be val1 rest version flags NS Hr H4 H6 Hver) as R.
  destruct ip; [|exact R]. now apply implicit_prefix_conservative. Qed.
