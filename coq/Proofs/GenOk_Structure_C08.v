(* Proofs/GenOk_Structure_C08.v -- WRITTEN BY tools/mkstructure.py from the pinned tree: signatures (parameter names, order, default
   values), decorators, class bases and non-def class-body statements of the functions and classes C08 relies on, as the models, the
   harness adapters and the translator tables assume them; the regenerated lists (coq/Gen/structure_gen.v) must equal them. *)
From Coq Require Import List String Bool.
From NV Require Import Gen.structure_gen.
Import ListNotations.
Open Scope string_scope.

(* drop_<group>: functions translated by harness/gen/pysrc.py that nothing in the dependency closure of this property's theorem
   files mentions, directly or through the generated definitions they mention: their rows are another property's business
   (tools/mkstructure.py computes the lists); classes, untranslated functions and NEW functions are kept *)
Definition keep (drop : list string) (r : string * string) : bool := negb (existsb (String.eqb (fst r)) drop).

Lemma names_compat_ok : gen_names_compat = ["_bytes_join"; "_zip"; "_range"; "_iter_next"].
Proof. reflexivity. Qed.

Definition drop_compat___bytes_join : list string := [].
Definition pinned_struct_compat___bytes_join : list (string * string) := [
  ("def _bytes_join", "(*args)");
  ("def _bytes_join", "(*args)")
].
Lemma struct_compat___bytes_join_ok : filter (keep drop_compat___bytes_join) gen_struct_compat___bytes_join = pinned_struct_compat___bytes_join.
Proof. vm_compute. reflexivity. Qed.

Definition drop_compat___zip : list string := [].
Definition pinned_struct_compat___zip : list (string * string) := [
  ("def _zip", "(*args)");
  ("def _zip", "(*args)")
].
Lemma struct_compat___zip_ok : filter (keep drop_compat___zip) gen_struct_compat___zip = pinned_struct_compat___zip.
Proof. vm_compute. reflexivity. Qed.

Definition drop_compat___range : list string := [].
Definition pinned_struct_compat___range : list (string * string) := [
  ("def _range", "(*args, **kwargs)");
  ("def _range", "(*args, **kwargs)")
].
Lemma struct_compat___range_ok : filter (keep drop_compat___range) gen_struct_compat___range = pinned_struct_compat___range.
Proof. vm_compute. reflexivity. Qed.

Definition drop_compat___iter_next : list string := [].
Definition pinned_struct_compat___iter_next : list (string * string) := [
  ("def _iter_next", "(x)");
  ("def _iter_next", "(x)")
].
Lemma struct_compat___iter_next_ok : filter (keep drop_compat___iter_next) gen_struct_compat___iter_next = pinned_struct_compat___iter_next.
Proof. vm_compute. reflexivity. Qed.

Lemma names_eui_init_ok : gen_names_eui_init = ["BaseIdentifier"; "OUI"; "IAB"; "EUI"].
Proof. reflexivity. Qed.

Definition drop_eui_init__BaseIdentifier : list string := ["def BaseIdentifier.__oct__"; "def BaseIdentifier.__hex__"].
Definition pinned_struct_eui_init__BaseIdentifier : list (string * string) := [
  ("class BaseIdentifier", "(object) __slots__ = ('_value', '__weakref__')");
  ("def BaseIdentifier.__init__", "(self)");
  ("def BaseIdentifier.__int__", "(self)");
  ("def BaseIdentifier.__long__", "(self)");
  ("def BaseIdentifier.__index__", "(self)")
].
Lemma struct_eui_init__BaseIdentifier_ok : filter (keep drop_eui_init__BaseIdentifier) gen_struct_eui_init__BaseIdentifier = pinned_struct_eui_init__BaseIdentifier.
Proof. vm_compute. reflexivity. Qed.

Definition drop_eui_init__OUI : list string := ["def OUI.__init__"; "def OUI.__eq__"; "def OUI.__ne__"; "def OUI.__getstate__"; "def OUI.__setstate__"; "def OUI._parse_data"; "def OUI.reg_count"; "def OUI.registration"; "def OUI.__str__"; "def OUI.__repr__"].
Definition pinned_struct_eui_init__OUI : list (string * string) := [
  ("class OUI", "(BaseIdentifier) __slots__ = ('records',)")
].
Lemma struct_eui_init__OUI_ok : filter (keep drop_eui_init__OUI) gen_struct_eui_init__OUI = pinned_struct_eui_init__OUI.
Proof. vm_compute. reflexivity. Qed.

Definition drop_eui_init__IAB : list string := ["def IAB.__init__"; "def IAB.__eq__"; "def IAB.__ne__"; "def IAB.__getstate__"; "def IAB.__setstate__"; "def IAB._parse_data"; "def IAB.registration"; "def IAB.__str__"; "def IAB.__repr__"].
Definition pinned_struct_eui_init__IAB : list (string * string) := [
  ("class IAB", "(BaseIdentifier) IAB_EUI_VALUES = (20674, 4249685) ; __slots__ = ('record',)");
  ("def IAB.split_iab_mac", "@classmethod (cls, eui_int, strict=False)")
].
Lemma struct_eui_init__IAB_ok : filter (keep drop_eui_init__IAB) gen_struct_eui_init__IAB = pinned_struct_eui_init__IAB.
Proof. vm_compute. reflexivity. Qed.

Definition drop_eui_init__EUI : list string := ["def EUI.info"; "def EUI.__repr__"].
Definition pinned_struct_eui_init__EUI : list (string * string) := [
  ("class EUI", "(BaseIdentifier) __slots__ = ('_module', '_dialect') ; value = property(_get_value, _set_value, None, 'a positive integer representing the value of this EUI indentifier.') ; dialect = property(_get_dialect, _set_dialect, None, 'a Python class providing support for the interpretation of various MAC\n address formats.')");
  ("def EUI.__init__", "(self, addr, version=None, dialect=None)");
  ("def EUI.__getstate__", "(self)");
  ("def EUI.__setstate__", "(self, state)");
  ("def EUI._get_value", "(self)");
  ("def EUI._set_value", "(self, value)");
  ("def EUI._get_dialect", "(self)");
  ("def EUI._validate_dialect", "(self, value)");
  ("def EUI._set_dialect", "(self, value)");
  ("def EUI.oui", "@property (self)");
  ("def EUI.ei", "@property (self)");
  ("def EUI.is_iab", "(self)");
  ("def EUI.iab", "@property (self)");
  ("def EUI.version", "@property (self)");
  ("def EUI.__getitem__", "(self, idx)");
  ("def EUI.__setitem__", "(self, idx, value)");
  ("def EUI.__hash__", "(self)");
  ("def EUI.__eq__", "(self, other)");
  ("def EUI.__ne__", "(self, other)");
  ("def EUI.__lt__", "(self, other)");
  ("def EUI.__le__", "(self, other)");
  ("def EUI.__gt__", "(self, other)");
  ("def EUI.__ge__", "(self, other)");
  ("def EUI.bits", "(self, word_sep=None)");
  ("def EUI.packed", "@property (self)");
  ("def EUI.words", "@property (self)");
  ("def EUI.bin", "@property (self)");
  ("def EUI.eui64", "(self)");
  ("def EUI.modified_eui64", "(self)");
  ("def EUI.ipv6", "(self, prefix)");
  ("def EUI.ipv6_link_local", "(self)");
  ("def EUI.format", "(self, dialect=None)");
  ("def EUI.__str__", "(self)")
].
Lemma struct_eui_init__EUI_ok : filter (keep drop_eui_init__EUI) gen_struct_eui_init__EUI = pinned_struct_eui_init__EUI.
Proof. vm_compute. reflexivity. Qed.

Definition drop_ip_init__BaseIP : list string := ["def BaseIP._set_value"; "def BaseIP.__hash__"; "def BaseIP.__eq__"; "def BaseIP.__ne__"; "def BaseIP.__lt__"; "def BaseIP.__le__"; "def BaseIP.__gt__"; "def BaseIP.__ge__"; "def BaseIP.is_unicast"; "def BaseIP.is_multicast"; "def BaseIP.is_loopback"; "def BaseIP.is_private"; "def BaseIP.is_link_local"; "def BaseIP.is_reserved"; "def BaseIP.is_ipv4_mapped"; "def BaseIP.is_ipv4_compat"].
Definition pinned_struct_ip_init__BaseIP : list (string * string) := [
  ("class BaseIP", "(object) __slots__ = ('_value', '_module', '__weakref__') ; value = property(lambda self: self._value, _set_value, doc='a positive integer representing the value of IP address/subnet.')");
  ("def BaseIP.__init__", "(self)");
  ("def BaseIP.key", "(self)");
  ("def BaseIP.sort_key", "(self)");
  ("def BaseIP.info", "@property (self)");
  ("def BaseIP.version", "@property (self)")
].
Lemma struct_ip_init__BaseIP_ok : filter (keep drop_ip_init__BaseIP) gen_struct_ip_init__BaseIP = pinned_struct_ip_init__BaseIP.
Proof. vm_compute. reflexivity. Qed.

Definition drop_ip_init__IPAddress : list string := ["def IPAddress.__getstate__"; "def IPAddress.__setstate__"; "def IPAddress.netmask_bits"; "def IPAddress.is_hostmask"; "def IPAddress.is_netmask"; "def IPAddress.__iadd__"; "def IPAddress.__isub__"; "def IPAddress.__add__"; "def IPAddress.__sub__"; "def IPAddress.__rsub__"; "def IPAddress.key"; "def IPAddress.sort_key"; "def IPAddress.__int__"; "def IPAddress.__long__"; "def IPAddress.__oct__"; "def IPAddress.__hex__"; "def IPAddress.__index__"; "def IPAddress.__bytes__"; "def IPAddress.bits"; "def IPAddress.packed"; "def IPAddress.words"; "def IPAddress.bin"; "def IPAddress.reverse_dns"; "def IPAddress.ipv4"; "def IPAddress.ipv6"; "def IPAddress.format"; "def IPAddress.__or__"; "def IPAddress.__and__"; "def IPAddress.__xor__"; "def IPAddress.__lshift__"; "def IPAddress.__rshift__"; "def IPAddress.__nonzero__"; "def IPAddress.__str__"; "def IPAddress.__repr__"].
Definition pinned_struct_ip_init__IPAddress : list (string * string) := [
  ("class IPAddress", "(BaseIP) __slots__ = () ; __radd__ = __add__ ; __bool__ = __nonzero__");
  ("def IPAddress.__init__", "(self, addr, version=None, flags=0)")
].
Lemma struct_ip_init__IPAddress_ok : filter (keep drop_ip_init__IPAddress) gen_struct_ip_init__IPAddress = pinned_struct_ip_init__IPAddress.
Proof. vm_compute. reflexivity. Qed.

Definition drop_ip_init___arg_repr : list string := [].
Definition pinned_struct_ip_init___arg_repr : list (string * string) := [
  ("def _arg_repr", "(value)")
].
Lemma struct_ip_init___arg_repr_ok : filter (keep drop_ip_init___arg_repr) gen_struct_ip_init___arg_repr = pinned_struct_ip_init___arg_repr.
Proof. vm_compute. reflexivity. Qed.

Lemma names_strategy_init_ok : gen_names_strategy_init = ["bytes_to_bits"; "valid_words"; "int_to_words"; "words_to_int"; "valid_bits"; "bits_to_int"; "int_to_bits"; "valid_bin"; "int_to_bin"; "bin_to_int"].
Proof. reflexivity. Qed.

Definition drop_strategy_init__bytes_to_bits : list string := ["def bytes_to_bits"].
Definition pinned_struct_strategy_init__bytes_to_bits : list (string * string) := [].
Lemma struct_strategy_init__bytes_to_bits_ok : filter (keep drop_strategy_init__bytes_to_bits) gen_struct_strategy_init__bytes_to_bits = pinned_struct_strategy_init__bytes_to_bits.
Proof. vm_compute. reflexivity. Qed.

Definition drop_strategy_init__valid_words : list string := [].
Definition pinned_struct_strategy_init__valid_words : list (string * string) := [
  ("def valid_words", "(words, word_size, num_words)")
].
Lemma struct_strategy_init__valid_words_ok : filter (keep drop_strategy_init__valid_words) gen_struct_strategy_init__valid_words = pinned_struct_strategy_init__valid_words.
Proof. vm_compute. reflexivity. Qed.

Definition drop_strategy_init__int_to_words : list string := [].
Definition pinned_struct_strategy_init__int_to_words : list (string * string) := [
  ("def int_to_words", "(int_val, word_size, num_words)")
].
Lemma struct_strategy_init__int_to_words_ok : filter (keep drop_strategy_init__int_to_words) gen_struct_strategy_init__int_to_words = pinned_struct_strategy_init__int_to_words.
Proof. vm_compute. reflexivity. Qed.

Definition drop_strategy_init__words_to_int : list string := [].
Definition pinned_struct_strategy_init__words_to_int : list (string * string) := [
  ("def words_to_int", "(words, word_size, num_words)")
].
Lemma struct_strategy_init__words_to_int_ok : filter (keep drop_strategy_init__words_to_int) gen_struct_strategy_init__words_to_int = pinned_struct_strategy_init__words_to_int.
Proof. vm_compute. reflexivity. Qed.

Definition drop_strategy_init__valid_bits : list string := [].
Definition pinned_struct_strategy_init__valid_bits : list (string * string) := [
  ("def valid_bits", "(bits, width, word_sep='')")
].
Lemma struct_strategy_init__valid_bits_ok : filter (keep drop_strategy_init__valid_bits) gen_struct_strategy_init__valid_bits = pinned_struct_strategy_init__valid_bits.
Proof. vm_compute. reflexivity. Qed.

Definition drop_strategy_init__bits_to_int : list string := [].
Definition pinned_struct_strategy_init__bits_to_int : list (string * string) := [
  ("def bits_to_int", "(bits, width, word_sep='')")
].
Lemma struct_strategy_init__bits_to_int_ok : filter (keep drop_strategy_init__bits_to_int) gen_struct_strategy_init__bits_to_int = pinned_struct_strategy_init__bits_to_int.
Proof. vm_compute. reflexivity. Qed.

Definition drop_strategy_init__int_to_bits : list string := ["def int_to_bits"].
Definition pinned_struct_strategy_init__int_to_bits : list (string * string) := [].
Lemma struct_strategy_init__int_to_bits_ok : filter (keep drop_strategy_init__int_to_bits) gen_struct_strategy_init__int_to_bits = pinned_struct_strategy_init__int_to_bits.
Proof. vm_compute. reflexivity. Qed.

Definition drop_strategy_init__valid_bin : list string := [].
Definition pinned_struct_strategy_init__valid_bin : list (string * string) := [
  ("def valid_bin", "(bin_val, width)")
].
Lemma struct_strategy_init__valid_bin_ok : filter (keep drop_strategy_init__valid_bin) gen_struct_strategy_init__valid_bin = pinned_struct_strategy_init__valid_bin.
Proof. vm_compute. reflexivity. Qed.

Definition drop_strategy_init__int_to_bin : list string := [].
Definition pinned_struct_strategy_init__int_to_bin : list (string * string) := [
  ("def int_to_bin", "(int_val, width)")
].
Lemma struct_strategy_init__int_to_bin_ok : filter (keep drop_strategy_init__int_to_bin) gen_struct_strategy_init__int_to_bin = pinned_struct_strategy_init__int_to_bin.
Proof. vm_compute. reflexivity. Qed.

Definition drop_strategy_init__bin_to_int : list string := [].
Definition pinned_struct_strategy_init__bin_to_int : list (string * string) := [
  ("def bin_to_int", "(bin_val, width)")
].
Lemma struct_strategy_init__bin_to_int_ok : filter (keep drop_strategy_init__bin_to_int) gen_struct_strategy_init__bin_to_int = pinned_struct_strategy_init__bin_to_int.
Proof. vm_compute. reflexivity. Qed.

Lemma names_strategy_eui48_ok : gen_names_strategy_eui48 = ["mac_eui48"; "mac_unix"; "mac_unix_expanded"; "mac_cisco"; "mac_bare"; "mac_pgsql"; "valid_str"; "str_to_int"; "int_to_str"; "int_to_packed"; "packed_to_int"; "valid_words"; "int_to_words"; "words_to_int"; "valid_bits"; "bits_to_int"; "int_to_bits"; "valid_bin"; "int_to_bin"; "bin_to_int"].
Proof. reflexivity. Qed.

Definition drop_strategy_eui48__mac_eui48 : list string := [].
Definition pinned_struct_strategy_eui48__mac_eui48 : list (string * string) := [
  ("class mac_eui48", "(object) word_size = 8 ; num_words = width // word_size ; max_word = 2 ** word_size - 1 ; word_sep = '-' ; word_fmt = '%.2X' ; word_base = 16")
].
Lemma struct_strategy_eui48__mac_eui48_ok : filter (keep drop_strategy_eui48__mac_eui48) gen_struct_strategy_eui48__mac_eui48 = pinned_struct_strategy_eui48__mac_eui48.
Proof. vm_compute. reflexivity. Qed.

Definition drop_strategy_eui48__mac_unix : list string := [].
Definition pinned_struct_strategy_eui48__mac_unix : list (string * string) := [
  ("class mac_unix", "(mac_eui48) word_size = 8 ; num_words = width // word_size ; word_sep = ':' ; word_fmt = '%x' ; word_base = 16")
].
Lemma struct_strategy_eui48__mac_unix_ok : filter (keep drop_strategy_eui48__mac_unix) gen_struct_strategy_eui48__mac_unix = pinned_struct_strategy_eui48__mac_unix.
Proof. vm_compute. reflexivity. Qed.

Definition drop_strategy_eui48__mac_unix_expanded : list string := [].
Definition pinned_struct_strategy_eui48__mac_unix_expanded : list (string * string) := [
  ("class mac_unix_expanded", "(mac_unix) word_fmt = '%.2x'")
].
Lemma struct_strategy_eui48__mac_unix_expanded_ok : filter (keep drop_strategy_eui48__mac_unix_expanded) gen_struct_strategy_eui48__mac_unix_expanded = pinned_struct_strategy_eui48__mac_unix_expanded.
Proof. vm_compute. reflexivity. Qed.

Definition drop_strategy_eui48__mac_cisco : list string := [].
Definition pinned_struct_strategy_eui48__mac_cisco : list (string * string) := [
  ("class mac_cisco", "(mac_eui48) word_size = 16 ; num_words = width // word_size ; word_sep = '.' ; word_fmt = '%.4x' ; word_base = 16")
].
Lemma struct_strategy_eui48__mac_cisco_ok : filter (keep drop_strategy_eui48__mac_cisco) gen_struct_strategy_eui48__mac_cisco = pinned_struct_strategy_eui48__mac_cisco.
Proof. vm_compute. reflexivity. Qed.

Definition drop_strategy_eui48__mac_bare : list string := [].
Definition pinned_struct_strategy_eui48__mac_bare : list (string * string) := [
  ("class mac_bare", "(mac_eui48) word_size = 48 ; num_words = width // word_size ; word_sep = '' ; word_fmt = '%.12X' ; word_base = 16")
].
Lemma struct_strategy_eui48__mac_bare_ok : filter (keep drop_strategy_eui48__mac_bare) gen_struct_strategy_eui48__mac_bare = pinned_struct_strategy_eui48__mac_bare.
Proof. vm_compute. reflexivity. Qed.

Definition drop_strategy_eui48__mac_pgsql : list string := [].
Definition pinned_struct_strategy_eui48__mac_pgsql : list (string * string) := [
  ("class mac_pgsql", "(mac_eui48) word_size = 24 ; num_words = width // word_size ; word_sep = ':' ; word_fmt = '%.6x' ; word_base = 16")
].
Lemma struct_strategy_eui48__mac_pgsql_ok : filter (keep drop_strategy_eui48__mac_pgsql) gen_struct_strategy_eui48__mac_pgsql = pinned_struct_strategy_eui48__mac_pgsql.
Proof. vm_compute. reflexivity. Qed.

Definition drop_strategy_eui48__valid_str : list string := [].
Definition pinned_struct_strategy_eui48__valid_str : list (string * string) := [
  ("def valid_str", "(addr)")
].
Lemma struct_strategy_eui48__valid_str_ok : filter (keep drop_strategy_eui48__valid_str) gen_struct_strategy_eui48__valid_str = pinned_struct_strategy_eui48__valid_str.
Proof. vm_compute. reflexivity. Qed.

Definition drop_strategy_eui48__str_to_int : list string := [].
Definition pinned_struct_strategy_eui48__str_to_int : list (string * string) := [
  ("def str_to_int", "(addr)")
].
Lemma struct_strategy_eui48__str_to_int_ok : filter (keep drop_strategy_eui48__str_to_int) gen_struct_strategy_eui48__str_to_int = pinned_struct_strategy_eui48__str_to_int.
Proof. vm_compute. reflexivity. Qed.

Definition drop_strategy_eui48__int_to_str : list string := [].
Definition pinned_struct_strategy_eui48__int_to_str : list (string * string) := [
  ("def int_to_str", "(int_val, dialect=None)")
].
Lemma struct_strategy_eui48__int_to_str_ok : filter (keep drop_strategy_eui48__int_to_str) gen_struct_strategy_eui48__int_to_str = pinned_struct_strategy_eui48__int_to_str.
Proof. vm_compute. reflexivity. Qed.

Definition drop_strategy_eui48__int_to_packed : list string := [].
Definition pinned_struct_strategy_eui48__int_to_packed : list (string * string) := [
  ("def int_to_packed", "(int_val)")
].
Lemma struct_strategy_eui48__int_to_packed_ok : filter (keep drop_strategy_eui48__int_to_packed) gen_struct_strategy_eui48__int_to_packed = pinned_struct_strategy_eui48__int_to_packed.
Proof. vm_compute. reflexivity. Qed.

Definition drop_strategy_eui48__packed_to_int : list string := [].
Definition pinned_struct_strategy_eui48__packed_to_int : list (string * string) := [
  ("def packed_to_int", "(packed_int)")
].
Lemma struct_strategy_eui48__packed_to_int_ok : filter (keep drop_strategy_eui48__packed_to_int) gen_struct_strategy_eui48__packed_to_int = pinned_struct_strategy_eui48__packed_to_int.
Proof. vm_compute. reflexivity. Qed.

Definition drop_strategy_eui48__valid_words : list string := [].
Definition pinned_struct_strategy_eui48__valid_words : list (string * string) := [
  ("def valid_words", "(words, dialect=None)")
].
Lemma struct_strategy_eui48__valid_words_ok : filter (keep drop_strategy_eui48__valid_words) gen_struct_strategy_eui48__valid_words = pinned_struct_strategy_eui48__valid_words.
Proof. vm_compute. reflexivity. Qed.

Definition drop_strategy_eui48__int_to_words : list string := [].
Definition pinned_struct_strategy_eui48__int_to_words : list (string * string) := [
  ("def int_to_words", "(int_val, dialect=None)")
].
Lemma struct_strategy_eui48__int_to_words_ok : filter (keep drop_strategy_eui48__int_to_words) gen_struct_strategy_eui48__int_to_words = pinned_struct_strategy_eui48__int_to_words.
Proof. vm_compute. reflexivity. Qed.

Definition drop_strategy_eui48__words_to_int : list string := [].
Definition pinned_struct_strategy_eui48__words_to_int : list (string * string) := [
  ("def words_to_int", "(words, dialect=None)")
].
Lemma struct_strategy_eui48__words_to_int_ok : filter (keep drop_strategy_eui48__words_to_int) gen_struct_strategy_eui48__words_to_int = pinned_struct_strategy_eui48__words_to_int.
Proof. vm_compute. reflexivity. Qed.

Definition drop_strategy_eui48__valid_bits : list string := [].
Definition pinned_struct_strategy_eui48__valid_bits : list (string * string) := [
  ("def valid_bits", "(bits, dialect=None)")
].
Lemma struct_strategy_eui48__valid_bits_ok : filter (keep drop_strategy_eui48__valid_bits) gen_struct_strategy_eui48__valid_bits = pinned_struct_strategy_eui48__valid_bits.
Proof. vm_compute. reflexivity. Qed.

Definition drop_strategy_eui48__bits_to_int : list string := [].
Definition pinned_struct_strategy_eui48__bits_to_int : list (string * string) := [
  ("def bits_to_int", "(bits, dialect=None)")
].
Lemma struct_strategy_eui48__bits_to_int_ok : filter (keep drop_strategy_eui48__bits_to_int) gen_struct_strategy_eui48__bits_to_int = pinned_struct_strategy_eui48__bits_to_int.
Proof. vm_compute. reflexivity. Qed.

Definition drop_strategy_eui48__int_to_bits : list string := [].
Definition pinned_struct_strategy_eui48__int_to_bits : list (string * string) := [
  ("def int_to_bits", "(int_val, dialect=None, word_sep=None)")
].
Lemma struct_strategy_eui48__int_to_bits_ok : filter (keep drop_strategy_eui48__int_to_bits) gen_struct_strategy_eui48__int_to_bits = pinned_struct_strategy_eui48__int_to_bits.
Proof. vm_compute. reflexivity. Qed.

Definition drop_strategy_eui48__valid_bin : list string := [].
Definition pinned_struct_strategy_eui48__valid_bin : list (string * string) := [
  ("def valid_bin", "(bin_val, dialect=None)")
].
Lemma struct_strategy_eui48__valid_bin_ok : filter (keep drop_strategy_eui48__valid_bin) gen_struct_strategy_eui48__valid_bin = pinned_struct_strategy_eui48__valid_bin.
Proof. vm_compute. reflexivity. Qed.

Definition drop_strategy_eui48__int_to_bin : list string := [].
Definition pinned_struct_strategy_eui48__int_to_bin : list (string * string) := [
  ("def int_to_bin", "(int_val)")
].
Lemma struct_strategy_eui48__int_to_bin_ok : filter (keep drop_strategy_eui48__int_to_bin) gen_struct_strategy_eui48__int_to_bin = pinned_struct_strategy_eui48__int_to_bin.
Proof. vm_compute. reflexivity. Qed.

Definition drop_strategy_eui48__bin_to_int : list string := [].
Definition pinned_struct_strategy_eui48__bin_to_int : list (string * string) := [
  ("def bin_to_int", "(bin_val)")
].
Lemma struct_strategy_eui48__bin_to_int_ok : filter (keep drop_strategy_eui48__bin_to_int) gen_struct_strategy_eui48__bin_to_int = pinned_struct_strategy_eui48__bin_to_int.
Proof. vm_compute. reflexivity. Qed.

Lemma names_strategy_eui64_ok : gen_names_strategy_eui64 = ["eui64_base"; "eui64_unix"; "eui64_unix_expanded"; "eui64_cisco"; "eui64_bare"; "_get_match_result"; "valid_str"; "str_to_int"; "int_to_str"; "int_to_packed"; "packed_to_int"; "valid_words"; "int_to_words"; "words_to_int"; "valid_bits"; "bits_to_int"; "int_to_bits"; "valid_bin"; "int_to_bin"; "bin_to_int"].
Proof. reflexivity. Qed.

Definition drop_strategy_eui64__eui64_base : list string := [].
Definition pinned_struct_strategy_eui64__eui64_base : list (string * string) := [
  ("class eui64_base", "(object) word_size = 8 ; num_words = width // word_size ; max_word = 2 ** word_size - 1 ; word_sep = '-' ; word_fmt = '%.2X' ; word_base = 16")
].
Lemma struct_strategy_eui64__eui64_base_ok : filter (keep drop_strategy_eui64__eui64_base) gen_struct_strategy_eui64__eui64_base = pinned_struct_strategy_eui64__eui64_base.
Proof. vm_compute. reflexivity. Qed.

Definition drop_strategy_eui64__eui64_unix : list string := [].
Definition pinned_struct_strategy_eui64__eui64_unix : list (string * string) := [
  ("class eui64_unix", "(eui64_base) word_size = 8 ; num_words = width // word_size ; word_sep = ':' ; word_fmt = '%x' ; word_base = 16")
].
Lemma struct_strategy_eui64__eui64_unix_ok : filter (keep drop_strategy_eui64__eui64_unix) gen_struct_strategy_eui64__eui64_unix = pinned_struct_strategy_eui64__eui64_unix.
Proof. vm_compute. reflexivity. Qed.

Definition drop_strategy_eui64__eui64_unix_expanded : list string := [].
Definition pinned_struct_strategy_eui64__eui64_unix_expanded : list (string * string) := [
  ("class eui64_unix_expanded", "(eui64_unix) word_fmt = '%.2x'")
].
Lemma struct_strategy_eui64__eui64_unix_expanded_ok : filter (keep drop_strategy_eui64__eui64_unix_expanded) gen_struct_strategy_eui64__eui64_unix_expanded = pinned_struct_strategy_eui64__eui64_unix_expanded.
Proof. vm_compute. reflexivity. Qed.

Definition drop_strategy_eui64__eui64_cisco : list string := [].
Definition pinned_struct_strategy_eui64__eui64_cisco : list (string * string) := [
  ("class eui64_cisco", "(eui64_base) word_size = 16 ; num_words = width // word_size ; word_sep = '.' ; word_fmt = '%.4x' ; word_base = 16")
].
Lemma struct_strategy_eui64__eui64_cisco_ok : filter (keep drop_strategy_eui64__eui64_cisco) gen_struct_strategy_eui64__eui64_cisco = pinned_struct_strategy_eui64__eui64_cisco.
Proof. vm_compute. reflexivity. Qed.

Definition drop_strategy_eui64__eui64_bare : list string := [].
Definition pinned_struct_strategy_eui64__eui64_bare : list (string * string) := [
  ("class eui64_bare", "(eui64_base) word_size = 64 ; num_words = width // word_size ; word_sep = '' ; word_fmt = '%.16X' ; word_base = 16")
].
Lemma struct_strategy_eui64__eui64_bare_ok : filter (keep drop_strategy_eui64__eui64_bare) gen_struct_strategy_eui64__eui64_bare = pinned_struct_strategy_eui64__eui64_bare.
Proof. vm_compute. reflexivity. Qed.

Definition drop_strategy_eui64___get_match_result : list string := [].
Definition pinned_struct_strategy_eui64___get_match_result : list (string * string) := [
  ("def _get_match_result", "(address, formats)")
].
Lemma struct_strategy_eui64___get_match_result_ok : filter (keep drop_strategy_eui64___get_match_result) gen_struct_strategy_eui64___get_match_result = pinned_struct_strategy_eui64___get_match_result.
Proof. vm_compute. reflexivity. Qed.

Definition drop_strategy_eui64__valid_str : list string := [].
Definition pinned_struct_strategy_eui64__valid_str : list (string * string) := [
  ("def valid_str", "(addr)")
].
Lemma struct_strategy_eui64__valid_str_ok : filter (keep drop_strategy_eui64__valid_str) gen_struct_strategy_eui64__valid_str = pinned_struct_strategy_eui64__valid_str.
Proof. vm_compute. reflexivity. Qed.

Definition drop_strategy_eui64__str_to_int : list string := [].
Definition pinned_struct_strategy_eui64__str_to_int : list (string * string) := [
  ("def str_to_int", "(addr)")
].
Lemma struct_strategy_eui64__str_to_int_ok : filter (keep drop_strategy_eui64__str_to_int) gen_struct_strategy_eui64__str_to_int = pinned_struct_strategy_eui64__str_to_int.
Proof. vm_compute. reflexivity. Qed.

Definition drop_strategy_eui64__int_to_str : list string := [].
Definition pinned_struct_strategy_eui64__int_to_str : list (string * string) := [
  ("def int_to_str", "(int_val, dialect=None)")
].
Lemma struct_strategy_eui64__int_to_str_ok : filter (keep drop_strategy_eui64__int_to_str) gen_struct_strategy_eui64__int_to_str = pinned_struct_strategy_eui64__int_to_str.
Proof. vm_compute. reflexivity. Qed.

Definition drop_strategy_eui64__int_to_packed : list string := [].
Definition pinned_struct_strategy_eui64__int_to_packed : list (string * string) := [
  ("def int_to_packed", "(int_val)")
].
Lemma struct_strategy_eui64__int_to_packed_ok : filter (keep drop_strategy_eui64__int_to_packed) gen_struct_strategy_eui64__int_to_packed = pinned_struct_strategy_eui64__int_to_packed.
Proof. vm_compute. reflexivity. Qed.

Definition drop_strategy_eui64__packed_to_int : list string := [].
Definition pinned_struct_strategy_eui64__packed_to_int : list (string * string) := [
  ("def packed_to_int", "(packed_int)")
].
Lemma struct_strategy_eui64__packed_to_int_ok : filter (keep drop_strategy_eui64__packed_to_int) gen_struct_strategy_eui64__packed_to_int = pinned_struct_strategy_eui64__packed_to_int.
Proof. vm_compute. reflexivity. Qed.

Definition drop_strategy_eui64__valid_words : list string := [].
Definition pinned_struct_strategy_eui64__valid_words : list (string * string) := [
  ("def valid_words", "(words, dialect=None)")
].
Lemma struct_strategy_eui64__valid_words_ok : filter (keep drop_strategy_eui64__valid_words) gen_struct_strategy_eui64__valid_words = pinned_struct_strategy_eui64__valid_words.
Proof. vm_compute. reflexivity. Qed.

Definition drop_strategy_eui64__int_to_words : list string := [].
Definition pinned_struct_strategy_eui64__int_to_words : list (string * string) := [
  ("def int_to_words", "(int_val, dialect=None)")
].
Lemma struct_strategy_eui64__int_to_words_ok : filter (keep drop_strategy_eui64__int_to_words) gen_struct_strategy_eui64__int_to_words = pinned_struct_strategy_eui64__int_to_words.
Proof. vm_compute. reflexivity. Qed.

Definition drop_strategy_eui64__words_to_int : list string := [].
Definition pinned_struct_strategy_eui64__words_to_int : list (string * string) := [
  ("def words_to_int", "(words, dialect=None)")
].
Lemma struct_strategy_eui64__words_to_int_ok : filter (keep drop_strategy_eui64__words_to_int) gen_struct_strategy_eui64__words_to_int = pinned_struct_strategy_eui64__words_to_int.
Proof. vm_compute. reflexivity. Qed.

Definition drop_strategy_eui64__valid_bits : list string := [].
Definition pinned_struct_strategy_eui64__valid_bits : list (string * string) := [
  ("def valid_bits", "(bits, dialect=None)")
].
Lemma struct_strategy_eui64__valid_bits_ok : filter (keep drop_strategy_eui64__valid_bits) gen_struct_strategy_eui64__valid_bits = pinned_struct_strategy_eui64__valid_bits.
Proof. vm_compute. reflexivity. Qed.

Definition drop_strategy_eui64__bits_to_int : list string := [].
Definition pinned_struct_strategy_eui64__bits_to_int : list (string * string) := [
  ("def bits_to_int", "(bits, dialect=None)")
].
Lemma struct_strategy_eui64__bits_to_int_ok : filter (keep drop_strategy_eui64__bits_to_int) gen_struct_strategy_eui64__bits_to_int = pinned_struct_strategy_eui64__bits_to_int.
Proof. vm_compute. reflexivity. Qed.

Definition drop_strategy_eui64__int_to_bits : list string := [].
Definition pinned_struct_strategy_eui64__int_to_bits : list (string * string) := [
  ("def int_to_bits", "(int_val, dialect=None, word_sep=None)")
].
Lemma struct_strategy_eui64__int_to_bits_ok : filter (keep drop_strategy_eui64__int_to_bits) gen_struct_strategy_eui64__int_to_bits = pinned_struct_strategy_eui64__int_to_bits.
Proof. vm_compute. reflexivity. Qed.

Definition drop_strategy_eui64__valid_bin : list string := [].
Definition pinned_struct_strategy_eui64__valid_bin : list (string * string) := [
  ("def valid_bin", "(bin_val, dialect=None)")
].
Lemma struct_strategy_eui64__valid_bin_ok : filter (keep drop_strategy_eui64__valid_bin) gen_struct_strategy_eui64__valid_bin = pinned_struct_strategy_eui64__valid_bin.
Proof. vm_compute. reflexivity. Qed.

Definition drop_strategy_eui64__int_to_bin : list string := [].
Definition pinned_struct_strategy_eui64__int_to_bin : list (string * string) := [
  ("def int_to_bin", "(int_val)")
].
Lemma struct_strategy_eui64__int_to_bin_ok : filter (keep drop_strategy_eui64__int_to_bin) gen_struct_strategy_eui64__int_to_bin = pinned_struct_strategy_eui64__int_to_bin.
Proof. vm_compute. reflexivity. Qed.

Definition drop_strategy_eui64__bin_to_int : list string := [].
Definition pinned_struct_strategy_eui64__bin_to_int : list (string * string) := [
  ("def bin_to_int", "(bin_val)")
].
Lemma struct_strategy_eui64__bin_to_int_ok : filter (keep drop_strategy_eui64__bin_to_int) gen_struct_strategy_eui64__bin_to_int = pinned_struct_strategy_eui64__bin_to_int.
Proof. vm_compute. reflexivity. Qed.

