(* Proofs/GenOk_Src_C16_g.v -- source tie for C16, tag SRCG: IPNetwork.ipv4 (Gen/pysrc_ipg_gen.v) against Model/Conv.v net_ipv4.
   The generated definition runs the REAL text round trip -- '%s/%d' % (self.ip, self.prefixlen) through the translated
   IPAddress.__str__ / ipv4.int_to_str, then the translated IPNetwork constructor on that text --, the model represents the text by
   the value it prints (Conv.ipv4_int_to_str / net_of_text_v4).  The two meet through the source ties of C01 / C03 (generated text
   functions = AddrText / NetText) and the coherence theorem Coherence_Text.coh_net_of_text_v4 (C03's round-trip lemmas).
   Hypotheses: the family is 4 or 6 (for any other `version` the code falls off the `if` and answers None, the model says
   Unsupported); an IPv4 receiver holds a 32-bit value (otherwise `self.ip` raises AddrFormatError in the generated code where
   the model's int_to_str raises ValueError) -- both part of C02.wf_net, the hypothesis of the C16 theorems. *)
From Coq Require Import String Ascii.
From NV Require Import Base.Tac Base.PyVal Base.PyStr Model.Ip Model.Conv Model.AddrText Model.NetText Model.SrcPrelude Model.SrcPreludeCtor
  Gen.pysrc_gen Gen.pysrc_ctor_gen Gen.pysrc_parse_gen Gen.pysrc_ipv4_gen Gen.pysrc_ipg_gen
  Proofs.GenOk_Src_C01_text Proofs.GenOk_Src_C03 Proofs.Coherence_Text.
Import ListNotations.
Open Scope Z_scope.

Lemma ipv4_text_net be v q : 0 <= v < 2 ^ 32 ->
  (do addr <- src_ipv4_int_to_str v tt;
   do ip <- src_IPNetwork_init_str be (String.append addr (String.append "/" (fmt_d q))) false None 0; Ok (Some ip)) =
  omap Some (do addr <- ipv4_int_to_str v; net_of_text_v4 addr q).
Proof.
  intros Hv. pose proof (coh_net_of_text_v4 be v q false Hv) as H.
  destruct C01_tie_text1_ok as (_ & _ & Hs & _). rewrite (Hs be v None).
  unfold ipv4_int_to_str. change (max_int 4) with 4294967295. replace ((0 <=? v) && (v <=? 4294967295)) with true by lia. cbn [bind].
  rewrite <- H. destruct (int_to_str be 4 v None) as [a|e]; [|reflexivity]. cbn [bind].
  rewrite src_init_str_net_ok. destruct (net_init be (AStr (a ++ "/" ++ fmt_d q)) false None 0); reflexivity.
Qed.

Lemma src_net_ipv4_ok be ver w v p : ver = 4 \/ ver = 6 -> (ver = 4 -> 0 <= v < 2 ^ 32) ->
  src_IPNetwork_ipv4 be ver w v p = omap Some (net_ipv4 ver v p).
Proof.
  intros Hver Hv. unfold src_IPNetwork_ipv4, net_ipv4, src_IPNetwork_prefixlen, src_IPNetwork_ip, mk_addr.
  destruct Hver as [-> | ->].
  - specialize (Hv eq_refl). change (4 =? 4) with true. cbv iota.
    unfold addr_of_int_ver, in_range_w. change (4 =? 4) with true. cbv iota.
    replace ((0 <=? v) && (v <=? max_int_w 32)) with true by (change (max_int_w 32) with 4294967295; lia).
    cbn [bind fst snd]. unfold src_IPAddress_str, py_int_to_str.
    pose proof (ipv4_text_net be v p Hv) as H. destruct C01_tie_text1_ok as (_ & _ & Hs & _). rewrite (Hs be v None) in H. exact H.
  - change (6 =? 4) with false. change (6 =? 6) with true. cbv iota.
    destruct (p <? 96); [reflexivity|].
    change src_ipv4_max_int with 4294967295. change (max_int 4) with 4294967295.
    destruct ((0 <=? v) && (v <=? 4294967295)) eqn:E1.
    + apply ipv4_text_net. lia.
    + destruct ((0xffff00000000 <=? v) && (v <=? 0xffffffffffff)) eqn:E2; [|reflexivity].
      apply ipv4_text_net. lia.
Qed.

Lemma C16_tie_g_ok : forall be ver w v p, ver = 4 \/ ver = 6 -> (ver = 4 -> 0 <= v < 2 ^ 32) ->
  src_IPNetwork_ipv4 be ver w v p = omap Some (net_ipv4 ver v p).
Proof. exact src_net_ipv4_ok. Qed.
