(* Proofs/GenOk_Structure_C19.v -- WRITTEN BY tools/mkstructure.py from the pinned tree: signatures (parameter names, order, default
   values), decorators, class bases and non-def class-body statements of the functions and classes C19 relies on, as the models, the
   harness adapters and the translator tables assume them; the regenerated lists (coq/Gen/structure_gen.v) must equal them. *)
From Coq Require Import List String Bool.
From NV Require Import Gen.structure_gen.
Import ListNotations.
Open Scope string_scope.

(* drop_<group>: functions translated by harness/gen/pysrc.py that nothing in the dependency closure of this property's theorem
   files mentions, directly or through the generated definitions they mention: their rows are another property's business
   (tools/mkstructure.py computes the lists); classes, untranslated functions and NEW functions are kept *)
Definition keep (drop : list string) (r : string * string) : bool := negb (existsb (String.eqb (fst r)) drop).

Lemma names_compat_ok : gen_names_compat = ["_bytes_join"; "_zip"; "_range"; "_iter_next"].
Proof. reflexivity. Qed.

Definition drop_compat___bytes_join : list string := [].
Definition pinned_struct_compat___bytes_join : list (string * string) := [
  ("def _bytes_join", "(*args)");
  ("def _bytes_join", "(*args)")
].
Lemma struct_compat___bytes_join_ok : filter (keep drop_compat___bytes_join) gen_struct_compat___bytes_join = pinned_struct_compat___bytes_join.
Proof. vm_compute. reflexivity. Qed.

Definition drop_compat___zip : list string := [].
Definition pinned_struct_compat___zip : list (string * string) := [
  ("def _zip", "(*args)");
  ("def _zip", "(*args)")
].
Lemma struct_compat___zip_ok : filter (keep drop_compat___zip) gen_struct_compat___zip = pinned_struct_compat___zip.
Proof. vm_compute. reflexivity. Qed.

Definition drop_compat___range : list string := [].
Definition pinned_struct_compat___range : list (string * string) := [
  ("def _range", "(*args, **kwargs)");
  ("def _range", "(*args, **kwargs)")
].
Lemma struct_compat___range_ok : filter (keep drop_compat___range) gen_struct_compat___range = pinned_struct_compat___range.
Proof. vm_compute. reflexivity. Qed.

Definition drop_compat___iter_next : list string := [].
Definition pinned_struct_compat___iter_next : list (string * string) := [
  ("def _iter_next", "(x)");
  ("def _iter_next", "(x)")
].
Lemma struct_compat___iter_next_ok : filter (keep drop_compat___iter_next) gen_struct_compat___iter_next = pinned_struct_compat___iter_next.
Proof. vm_compute. reflexivity. Qed.

Lemma names_core_ok : gen_names_core = ["AddrFormatError"; "AddrConversionError"; "NotRegisteredError"; "num_bits"; "Subscriber"; "PrettyPrinter"; "Publisher"; "DictDotLookup"].
Proof. reflexivity. Qed.

Definition drop_core__AddrFormatError : list string := [].
Definition pinned_struct_core__AddrFormatError : list (string * string) := [
  ("class AddrFormatError", "(Exception) pass")
].
Lemma struct_core__AddrFormatError_ok : filter (keep drop_core__AddrFormatError) gen_struct_core__AddrFormatError = pinned_struct_core__AddrFormatError.
Proof. vm_compute. reflexivity. Qed.

Definition drop_core__AddrConversionError : list string := [].
Definition pinned_struct_core__AddrConversionError : list (string * string) := [
  ("class AddrConversionError", "(Exception) pass")
].
Lemma struct_core__AddrConversionError_ok : filter (keep drop_core__AddrConversionError) gen_struct_core__AddrConversionError = pinned_struct_core__AddrConversionError.
Proof. vm_compute. reflexivity. Qed.

Definition drop_core__NotRegisteredError : list string := [].
Definition pinned_struct_core__NotRegisteredError : list (string * string) := [
  ("class NotRegisteredError", "(Exception) pass")
].
Lemma struct_core__NotRegisteredError_ok : filter (keep drop_core__NotRegisteredError) gen_struct_core__NotRegisteredError = pinned_struct_core__NotRegisteredError.
Proof. vm_compute. reflexivity. Qed.

Definition drop_core__num_bits : list string := ["def num_bits"; "def num_bits"].
Definition pinned_struct_core__num_bits : list (string * string) := [].
Lemma struct_core__num_bits_ok : filter (keep drop_core__num_bits) gen_struct_core__num_bits = pinned_struct_core__num_bits.
Proof. vm_compute. reflexivity. Qed.

Definition drop_core__Subscriber : list string := [].
Definition pinned_struct_core__Subscriber : list (string * string) := [
  ("class Subscriber", "(object) ");
  ("def Subscriber.update", "(self, data)")
].
Lemma struct_core__Subscriber_ok : filter (keep drop_core__Subscriber) gen_struct_core__Subscriber = pinned_struct_core__Subscriber.
Proof. vm_compute. reflexivity. Qed.

Definition drop_core__PrettyPrinter : list string := [].
Definition pinned_struct_core__PrettyPrinter : list (string * string) := [
  ("class PrettyPrinter", "(Subscriber) ");
  ("def PrettyPrinter.__init__", "(self, fh=_sys.stdout, write_eol=True)");
  ("def PrettyPrinter.update", "(self, data)")
].
Lemma struct_core__PrettyPrinter_ok : filter (keep drop_core__PrettyPrinter) gen_struct_core__PrettyPrinter = pinned_struct_core__PrettyPrinter.
Proof. vm_compute. reflexivity. Qed.

Definition drop_core__Publisher : list string := [].
Definition pinned_struct_core__Publisher : list (string * string) := [
  ("class Publisher", "(object) ");
  ("def Publisher.__init__", "(self)");
  ("def Publisher.attach", "(self, subscriber)");
  ("def Publisher.detach", "(self, subscriber)");
  ("def Publisher.notify", "(self, data)")
].
Lemma struct_core__Publisher_ok : filter (keep drop_core__Publisher) gen_struct_core__Publisher = pinned_struct_core__Publisher.
Proof. vm_compute. reflexivity. Qed.

Definition drop_core__DictDotLookup : list string := [].
Definition pinned_struct_core__DictDotLookup : list (string * string) := [
  ("class DictDotLookup", "(object) ");
  ("def DictDotLookup.__init__", "(self, d)");
  ("def DictDotLookup.__getitem__", "(self, name)");
  ("def DictDotLookup.__iter__", "(self)");
  ("def DictDotLookup.__repr__", "(self)")
].
Lemma struct_core__DictDotLookup_ok : filter (keep drop_core__DictDotLookup) gen_struct_core__DictDotLookup = pinned_struct_core__DictDotLookup.
Proof. vm_compute. reflexivity. Qed.

Lemma names_eui_init_ok : gen_names_eui_init = ["BaseIdentifier"; "OUI"; "IAB"; "EUI"].
Proof. reflexivity. Qed.

Definition drop_eui_init__BaseIdentifier : list string := [].
Definition pinned_struct_eui_init__BaseIdentifier : list (string * string) := [
  ("class BaseIdentifier", "(object) __slots__ = ('_value', '__weakref__')");
  ("def BaseIdentifier.__init__", "(self)");
  ("def BaseIdentifier.__int__", "(self)");
  ("def BaseIdentifier.__long__", "(self)");
  ("def BaseIdentifier.__oct__", "(self)");
  ("def BaseIdentifier.__hex__", "(self)");
  ("def BaseIdentifier.__index__", "(self)")
].
Lemma struct_eui_init__BaseIdentifier_ok : filter (keep drop_eui_init__BaseIdentifier) gen_struct_eui_init__BaseIdentifier = pinned_struct_eui_init__BaseIdentifier.
Proof. vm_compute. reflexivity. Qed.

Definition drop_eui_init__OUI : list string := [].
Definition pinned_struct_eui_init__OUI : list (string * string) := [
  ("class OUI", "(BaseIdentifier) __slots__ = ('records',)");
  ("def OUI.__init__", "(self, oui)");
  ("def OUI.__eq__", "(self, other)");
  ("def OUI.__ne__", "(self, other)");
  ("def OUI.__getstate__", "(self)");
  ("def OUI.__setstate__", "(self, state)");
  ("def OUI._parse_data", "(self, data, offset, size)");
  ("def OUI.reg_count", "@property (self)");
  ("def OUI.registration", "(self, index=0)");
  ("def OUI.__str__", "(self)");
  ("def OUI.__repr__", "(self)")
].
Lemma struct_eui_init__OUI_ok : filter (keep drop_eui_init__OUI) gen_struct_eui_init__OUI = pinned_struct_eui_init__OUI.
Proof. vm_compute. reflexivity. Qed.

Definition drop_eui_init__IAB : list string := [].
Definition pinned_struct_eui_init__IAB : list (string * string) := [
  ("class IAB", "(BaseIdentifier) IAB_EUI_VALUES = (20674, 4249685) ; __slots__ = ('record',)");
  ("def IAB.split_iab_mac", "@classmethod (cls, eui_int, strict=False)");
  ("def IAB.__init__", "(self, iab, strict=False)");
  ("def IAB.__eq__", "(self, other)");
  ("def IAB.__ne__", "(self, other)");
  ("def IAB.__getstate__", "(self)");
  ("def IAB.__setstate__", "(self, state)");
  ("def IAB._parse_data", "(self, data, offset, size)");
  ("def IAB.registration", "(self)");
  ("def IAB.__str__", "(self)");
  ("def IAB.__repr__", "(self)")
].
Lemma struct_eui_init__IAB_ok : filter (keep drop_eui_init__IAB) gen_struct_eui_init__IAB = pinned_struct_eui_init__IAB.
Proof. vm_compute. reflexivity. Qed.

Definition drop_eui_init__EUI : list string := [].
Definition pinned_struct_eui_init__EUI : list (string * string) := [
  ("class EUI", "(BaseIdentifier) __slots__ = ('_module', '_dialect') ; value = property(_get_value, _set_value, None, 'a positive integer representing the value of this EUI indentifier.') ; dialect = property(_get_dialect, _set_dialect, None, 'a Python class providing support for the interpretation of various MAC\n address formats.')");
  ("def EUI.__init__", "(self, addr, version=None, dialect=None)");
  ("def EUI.__getstate__", "(self)");
  ("def EUI.__setstate__", "(self, state)");
  ("def EUI._get_value", "(self)");
  ("def EUI._set_value", "(self, value)");
  ("def EUI._get_dialect", "(self)");
  ("def EUI._validate_dialect", "(self, value)");
  ("def EUI._set_dialect", "(self, value)");
  ("def EUI.oui", "@property (self)");
  ("def EUI.ei", "@property (self)");
  ("def EUI.is_iab", "(self)");
  ("def EUI.iab", "@property (self)");
  ("def EUI.version", "@property (self)");
  ("def EUI.__getitem__", "(self, idx)");
  ("def EUI.__setitem__", "(self, idx, value)");
  ("def EUI.__hash__", "(self)");
  ("def EUI.__eq__", "(self, other)");
  ("def EUI.__ne__", "(self, other)");
  ("def EUI.__lt__", "(self, other)");
  ("def EUI.__le__", "(self, other)");
  ("def EUI.__gt__", "(self, other)");
  ("def EUI.__ge__", "(self, other)");
  ("def EUI.bits", "(self, word_sep=None)");
  ("def EUI.packed", "@property (self)");
  ("def EUI.words", "@property (self)");
  ("def EUI.bin", "@property (self)");
  ("def EUI.eui64", "(self)");
  ("def EUI.modified_eui64", "(self)");
  ("def EUI.ipv6", "(self, prefix)");
  ("def EUI.ipv6_link_local", "(self)");
  ("def EUI.info", "@property (self)");
  ("def EUI.format", "(self, dialect=None)");
  ("def EUI.__str__", "(self)");
  ("def EUI.__repr__", "(self)")
].
Lemma struct_eui_init__EUI_ok : filter (keep drop_eui_init__EUI) gen_struct_eui_init__EUI = pinned_struct_eui_init__EUI.
Proof. vm_compute. reflexivity. Qed.

Lemma names_eui_ieee_ok : gen_names_eui_ieee = ["FileIndexer"; "OUIIndexParser"; "IABIndexParser"; "create_index_from_registry"; "create_indices"; "load_index"; "load_indices"].
Proof. reflexivity. Qed.

Definition drop_eui_ieee__FileIndexer : list string := [].
Definition pinned_struct_eui_ieee__FileIndexer : list (string * string) := [
  ("class FileIndexer", "(Subscriber) ");
  ("def FileIndexer.__init__", "(self, index_file)");
  ("def FileIndexer.update", "(self, data)")
].
Lemma struct_eui_ieee__FileIndexer_ok : filter (keep drop_eui_ieee__FileIndexer) gen_struct_eui_ieee__FileIndexer = pinned_struct_eui_ieee__FileIndexer.
Proof. vm_compute. reflexivity. Qed.

Definition drop_eui_ieee__OUIIndexParser : list string := [].
Definition pinned_struct_eui_ieee__OUIIndexParser : list (string * string) := [
  ("class OUIIndexParser", "(Publisher) ");
  ("def OUIIndexParser.__init__", "(self, ieee_file)");
  ("def OUIIndexParser.parse", "(self)")
].
Lemma struct_eui_ieee__OUIIndexParser_ok : filter (keep drop_eui_ieee__OUIIndexParser) gen_struct_eui_ieee__OUIIndexParser = pinned_struct_eui_ieee__OUIIndexParser.
Proof. vm_compute. reflexivity. Qed.

Definition drop_eui_ieee__IABIndexParser : list string := [].
Definition pinned_struct_eui_ieee__IABIndexParser : list (string * string) := [
  ("class IABIndexParser", "(Publisher) ");
  ("def IABIndexParser.__init__", "(self, ieee_file)");
  ("def IABIndexParser.parse", "(self)")
].
Lemma struct_eui_ieee__IABIndexParser_ok : filter (keep drop_eui_ieee__IABIndexParser) gen_struct_eui_ieee__IABIndexParser = pinned_struct_eui_ieee__IABIndexParser.
Proof. vm_compute. reflexivity. Qed.

Definition drop_eui_ieee__create_index_from_registry : list string := [].
Definition pinned_struct_eui_ieee__create_index_from_registry : list (string * string) := [
  ("def create_index_from_registry", "(registry_fh, index_path, parser)")
].
Lemma struct_eui_ieee__create_index_from_registry_ok : filter (keep drop_eui_ieee__create_index_from_registry) gen_struct_eui_ieee__create_index_from_registry = pinned_struct_eui_ieee__create_index_from_registry.
Proof. vm_compute. reflexivity. Qed.

Definition drop_eui_ieee__create_indices : list string := [].
Definition pinned_struct_eui_ieee__create_indices : list (string * string) := [
  ("def create_indices", "()")
].
Lemma struct_eui_ieee__create_indices_ok : filter (keep drop_eui_ieee__create_indices) gen_struct_eui_ieee__create_indices = pinned_struct_eui_ieee__create_indices.
Proof. vm_compute. reflexivity. Qed.

Definition drop_eui_ieee__load_index : list string := [].
Definition pinned_struct_eui_ieee__load_index : list (string * string) := [
  ("def load_index", "(index, fp)")
].
Lemma struct_eui_ieee__load_index_ok : filter (keep drop_eui_ieee__load_index) gen_struct_eui_ieee__load_index = pinned_struct_eui_ieee__load_index.
Proof. vm_compute. reflexivity. Qed.

Definition drop_eui_ieee__load_indices : list string := [].
Definition pinned_struct_eui_ieee__load_indices : list (string * string) := [
  ("def load_indices", "()")
].
Lemma struct_eui_ieee__load_indices_ok : filter (keep drop_eui_ieee__load_indices) gen_struct_eui_ieee__load_indices = pinned_struct_eui_ieee__load_indices.
Proof. vm_compute. reflexivity. Qed.

Definition drop_ip_init__BaseIP : list string := ["def BaseIP.__hash__"; "def BaseIP.__ne__"; "def BaseIP.__lt__"; "def BaseIP.__le__"; "def BaseIP.__gt__"; "def BaseIP.__ge__"; "def BaseIP.is_unicast"; "def BaseIP.is_loopback"; "def BaseIP.is_private"; "def BaseIP.is_link_local"; "def BaseIP.is_reserved"; "def BaseIP.is_ipv4_mapped"; "def BaseIP.is_ipv4_compat"].
Definition pinned_struct_ip_init__BaseIP : list (string * string) := [
  ("class BaseIP", "(object) __slots__ = ('_value', '_module', '__weakref__') ; value = property(lambda self: self._value, _set_value, doc='a positive integer representing the value of IP address/subnet.')");
  ("def BaseIP.__init__", "(self)");
  ("def BaseIP._set_value", "(self, value)");
  ("def BaseIP.key", "(self)");
  ("def BaseIP.sort_key", "(self)");
  ("def BaseIP.__eq__", "(self, other)");
  ("def BaseIP.is_multicast", "(self)");
  ("def BaseIP.info", "@property (self)");
  ("def BaseIP.version", "@property (self)")
].
Lemma struct_ip_init__BaseIP_ok : filter (keep drop_ip_init__BaseIP) gen_struct_ip_init__BaseIP = pinned_struct_ip_init__BaseIP.
Proof. vm_compute. reflexivity. Qed.

Definition drop_ip_init__IPAddress : list string := ["def IPAddress.__iadd__"; "def IPAddress.__isub__"; "def IPAddress.__add__"; "def IPAddress.__sub__"; "def IPAddress.__rsub__"; "def IPAddress.sort_key"; "def IPAddress.__long__"; "def IPAddress.__oct__"; "def IPAddress.__hex__"; "def IPAddress.__index__"; "def IPAddress.__bytes__"; "def IPAddress.bits"; "def IPAddress.packed"; "def IPAddress.words"; "def IPAddress.bin"; "def IPAddress.reverse_dns"; "def IPAddress.ipv4"; "def IPAddress.ipv6"; "def IPAddress.format"; "def IPAddress.__or__"; "def IPAddress.__and__"; "def IPAddress.__xor__"; "def IPAddress.__lshift__"; "def IPAddress.__rshift__"; "def IPAddress.__nonzero__"; "def IPAddress.__repr__"].
Definition pinned_struct_ip_init__IPAddress : list (string * string) := [
  ("class IPAddress", "(BaseIP) __slots__ = () ; __radd__ = __add__ ; __bool__ = __nonzero__");
  ("def IPAddress.__init__", "(self, addr, version=None, flags=0)");
  ("def IPAddress.__getstate__", "(self)");
  ("def IPAddress.__setstate__", "(self, state)");
  ("def IPAddress.netmask_bits", "(self)");
  ("def IPAddress.is_hostmask", "(self)");
  ("def IPAddress.is_netmask", "(self)");
  ("def IPAddress.key", "(self)");
  ("def IPAddress.__int__", "(self)");
  ("def IPAddress.__str__", "(self)")
].
Lemma struct_ip_init__IPAddress_ok : filter (keep drop_ip_init__IPAddress) gen_struct_ip_init__IPAddress = pinned_struct_ip_init__IPAddress.
Proof. vm_compute. reflexivity. Qed.

Definition drop_ip_init__IPNetwork : list string := ["def IPNetwork.__iadd__"; "def IPNetwork.__isub__"; "def IPNetwork.sort_key"; "def IPNetwork.ipv4"; "def IPNetwork.ipv6"; "def IPNetwork.previous"; "def IPNetwork.next"; "def IPNetwork.supernet"; "def IPNetwork.subnet"; "def IPNetwork.iter_hosts"; "def IPNetwork.__repr__"].
Definition pinned_struct_ip_init__IPNetwork : list (string * string) := [
  ("class IPNetwork", "(BaseIP, IPListMixin) __slots__ = ('_prefixlen',) ; prefixlen = property(lambda self: self._prefixlen, _set_prefixlen, doc='size of the bitmask used to separate the network from the host bits')");
  ("def IPNetwork.__init__", "(self, addr, implicit_prefix=False, version=None, flags=0)");
  ("def IPNetwork.__getstate__", "(self)");
  ("def IPNetwork.__setstate__", "(self, state)");
  ("def IPNetwork._set_prefixlen", "(self, value)");
  ("def IPNetwork.ip", "@property (self)");
  ("def IPNetwork.network", "@property (self)");
  ("def IPNetwork.broadcast", "@property (self)");
  ("def IPNetwork.first", "@property (self)");
  ("def IPNetwork.last", "@property (self)");
  ("def IPNetwork.netmask", "@property (self)");
  ("def IPNetwork.netmask", "@netmask.setter (self, value)");
  ("def IPNetwork._netmask_int", "@property (self)");
  ("def IPNetwork.hostmask", "@property (self)");
  ("def IPNetwork._hostmask_int", "@property (self)");
  ("def IPNetwork.cidr", "@property (self)");
  ("def IPNetwork.__contains__", "(self, other)");
  ("def IPNetwork.key", "(self)");
  ("def IPNetwork.__str__", "(self)")
].
Lemma struct_ip_init__IPNetwork_ok : filter (keep drop_ip_init__IPNetwork) gen_struct_ip_init__IPNetwork = pinned_struct_ip_init__IPNetwork.
Proof. vm_compute. reflexivity. Qed.

Definition drop_ip_init__IPListMixin : list string := ["def IPListMixin.__iter__"; "def IPListMixin.__len__"; "def IPListMixin.__getitem__"; "def IPListMixin.__contains__"; "def IPListMixin.__nonzero__"].
Definition pinned_struct_ip_init__IPListMixin : list (string * string) := [
  ("class IPListMixin", "(object) __slots__ = () ; __bool__ = __nonzero__");
  ("def IPListMixin.size", "@property (self)")
].
Lemma struct_ip_init__IPListMixin_ok : filter (keep drop_ip_init__IPListMixin) gen_struct_ip_init__IPListMixin = pinned_struct_ip_init__IPListMixin.
Proof. vm_compute. reflexivity. Qed.

Definition drop_ip_init__parse_ip_network : list string := [].
Definition pinned_struct_ip_init__parse_ip_network : list (string * string) := [
  ("def parse_ip_network", "(module, addr, implicit_prefix=False, flags=0)")
].
Lemma struct_ip_init__parse_ip_network_ok : filter (keep drop_ip_init__parse_ip_network) gen_struct_ip_init__parse_ip_network = pinned_struct_ip_init__parse_ip_network.
Proof. vm_compute. reflexivity. Qed.

Definition drop_ip_init___arg_repr : list string := [].
Definition pinned_struct_ip_init___arg_repr : list (string * string) := [
  ("def _arg_repr", "(value)")
].
Lemma struct_ip_init___arg_repr_ok : filter (keep drop_ip_init___arg_repr) gen_struct_ip_init___arg_repr = pinned_struct_ip_init___arg_repr.
Proof. vm_compute. reflexivity. Qed.

Definition drop_ip_init__IPRange : list string := ["def IPRange.sort_key"; "def IPRange.__str__"; "def IPRange.__repr__"].
Definition pinned_struct_ip_init__IPRange : list (string * string) := [
  ("class IPRange", "(BaseIP, IPListMixin) __slots__ = ('_start', '_end')");
  ("def IPRange.__init__", "(self, start, end, flags=0)");
  ("def IPRange.__getstate__", "(self)");
  ("def IPRange.__setstate__", "(self, state)");
  ("def IPRange.__contains__", "(self, other)");
  ("def IPRange.first", "@property (self)");
  ("def IPRange.last", "@property (self)");
  ("def IPRange.key", "(self)");
  ("def IPRange.cidrs", "(self)")
].
Lemma struct_ip_init__IPRange_ok : filter (keep drop_ip_init__IPRange) gen_struct_ip_init__IPRange = pinned_struct_ip_init__IPRange.
Proof. vm_compute. reflexivity. Qed.

Lemma names_ip_iana_ok : gen_names_ip_iana = ["SaxRecordParser"; "XMLRecordParser"; "IPv4Parser"; "IPv6Parser"; "IPv6UnicastParser"; "MulticastParser"; "DictUpdater"; "load_info"; "pprint_info"; "_within_bounds"; "query"].
Proof. reflexivity. Qed.

Definition drop_ip_iana__SaxRecordParser : list string := [].
Definition pinned_struct_ip_iana__SaxRecordParser : list (string * string) := [
  ("class SaxRecordParser", "(handler.ContentHandler) ");
  ("def SaxRecordParser.__init__", "(self, callback=None)");
  ("def SaxRecordParser.startElement", "(self, name, attrs)");
  ("def SaxRecordParser.endElement", "(self, name)");
  ("def SaxRecordParser.characters", "(self, content)")
].
Lemma struct_ip_iana__SaxRecordParser_ok : filter (keep drop_ip_iana__SaxRecordParser) gen_struct_ip_iana__SaxRecordParser = pinned_struct_ip_iana__SaxRecordParser.
Proof. vm_compute. reflexivity. Qed.

Definition drop_ip_iana__XMLRecordParser : list string := [].
Definition pinned_struct_ip_iana__XMLRecordParser : list (string * string) := [
  ("class XMLRecordParser", "(Publisher) ");
  ("def XMLRecordParser.__init__", "(self, fh, **kwargs)");
  ("def XMLRecordParser.process_record", "(self, rec)");
  ("def XMLRecordParser.consume_record", "(self, rec)");
  ("def XMLRecordParser.parse", "(self)")
].
Lemma struct_ip_iana__XMLRecordParser_ok : filter (keep drop_ip_iana__XMLRecordParser) gen_struct_ip_iana__XMLRecordParser = pinned_struct_ip_iana__XMLRecordParser.
Proof. vm_compute. reflexivity. Qed.

Definition drop_ip_iana__IPv4Parser : list string := [].
Definition pinned_struct_ip_iana__IPv4Parser : list (string * string) := [
  ("class IPv4Parser", "(XMLRecordParser) ");
  ("def IPv4Parser.__init__", "(self, fh, **kwargs)");
  ("def IPv4Parser.process_record", "(self, rec)")
].
Lemma struct_ip_iana__IPv4Parser_ok : filter (keep drop_ip_iana__IPv4Parser) gen_struct_ip_iana__IPv4Parser = pinned_struct_ip_iana__IPv4Parser.
Proof. vm_compute. reflexivity. Qed.

Definition drop_ip_iana__IPv6Parser : list string := [].
Definition pinned_struct_ip_iana__IPv6Parser : list (string * string) := [
  ("class IPv6Parser", "(XMLRecordParser) ");
  ("def IPv6Parser.__init__", "(self, fh, **kwargs)");
  ("def IPv6Parser.process_record", "(self, rec)")
].
Lemma struct_ip_iana__IPv6Parser_ok : filter (keep drop_ip_iana__IPv6Parser) gen_struct_ip_iana__IPv6Parser = pinned_struct_ip_iana__IPv6Parser.
Proof. vm_compute. reflexivity. Qed.

Definition drop_ip_iana__IPv6UnicastParser : list string := [].
Definition pinned_struct_ip_iana__IPv6UnicastParser : list (string * string) := [
  ("class IPv6UnicastParser", "(XMLRecordParser) ");
  ("def IPv6UnicastParser.__init__", "(self, fh, **kwargs)");
  ("def IPv6UnicastParser.process_record", "(self, rec)")
].
Lemma struct_ip_iana__IPv6UnicastParser_ok : filter (keep drop_ip_iana__IPv6UnicastParser) gen_struct_ip_iana__IPv6UnicastParser = pinned_struct_ip_iana__IPv6UnicastParser.
Proof. vm_compute. reflexivity. Qed.

Definition drop_ip_iana__MulticastParser : list string := [].
Definition pinned_struct_ip_iana__MulticastParser : list (string * string) := [
  ("class MulticastParser", "(XMLRecordParser) ");
  ("def MulticastParser.__init__", "(self, fh, **kwargs)");
  ("def MulticastParser.normalise_addr", "(self, addr)");
  ("def MulticastParser.process_record", "(self, rec)")
].
Lemma struct_ip_iana__MulticastParser_ok : filter (keep drop_ip_iana__MulticastParser) gen_struct_ip_iana__MulticastParser = pinned_struct_ip_iana__MulticastParser.
Proof. vm_compute. reflexivity. Qed.

Definition drop_ip_iana__DictUpdater : list string := [].
Definition pinned_struct_ip_iana__DictUpdater : list (string * string) := [
  ("class DictUpdater", "(Subscriber) ");
  ("def DictUpdater.__init__", "(self, dct, topic, unique_key)");
  ("def DictUpdater.update", "(self, data)")
].
Lemma struct_ip_iana__DictUpdater_ok : filter (keep drop_ip_iana__DictUpdater) gen_struct_ip_iana__DictUpdater = pinned_struct_ip_iana__DictUpdater.
Proof. vm_compute. reflexivity. Qed.

Definition drop_ip_iana__load_info : list string := [].
Definition pinned_struct_ip_iana__load_info : list (string * string) := [
  ("def load_info", "()")
].
Lemma struct_ip_iana__load_info_ok : filter (keep drop_ip_iana__load_info) gen_struct_ip_iana__load_info = pinned_struct_ip_iana__load_info.
Proof. vm_compute. reflexivity. Qed.

Definition drop_ip_iana__pprint_info : list string := [].
Definition pinned_struct_ip_iana__pprint_info : list (string * string) := [
  ("def pprint_info", "(fh=None)")
].
Lemma struct_ip_iana__pprint_info_ok : filter (keep drop_ip_iana__pprint_info) gen_struct_ip_iana__pprint_info = pinned_struct_ip_iana__pprint_info.
Proof. vm_compute. reflexivity. Qed.

Definition drop_ip_iana___within_bounds : list string := [].
Definition pinned_struct_ip_iana___within_bounds : list (string * string) := [
  ("def _within_bounds", "(ip, ip_range)")
].
Lemma struct_ip_iana___within_bounds_ok : filter (keep drop_ip_iana___within_bounds) gen_struct_ip_iana___within_bounds = pinned_struct_ip_iana___within_bounds.
Proof. vm_compute. reflexivity. Qed.

Definition drop_ip_iana__query : list string := [].
Definition pinned_struct_ip_iana__query : list (string * string) := [
  ("def query", "(ip_addr)")
].
Lemma struct_ip_iana__query_ok : filter (keep drop_ip_iana__query) gen_struct_ip_iana__query = pinned_struct_ip_iana__query.
Proof. vm_compute. reflexivity. Qed.

