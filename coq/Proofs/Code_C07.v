(* Proofs/Code_C07.v — C07 (IPSet algebra and queries agree with plain set theory on addresses) proved DIRECTLY about the
   definitions that harness/gen/pysrc.py regenerates on every run from the current text of netaddr/ip/sets.py
   (Gen/pysrc_sets_gen.v, pysrc_sets_ops_gen.v, pysrc_sets_mut_gen.v).  An IPSet object is its dict `_cidrs` = the
   insertion-ordered list of its IPNetwork keys (`list net`), the leading parameter of every generated method.
   Every proof is: rewrite with the source tie (GenOk_Src_C07 / _C07_ops / _C06), apply the model theorem.
   The ties' own hypotheses (0 <= prefixlen where the supernet walk starts, well-formed keys for iprange, valid ranges for
   _iter_merged_ranges, SetInv for - ^ iter_ipranges) are discharged here from the hypotheses of the model theorems
   (SetInv_plen_ok, q_inv_wf, rvalid_rok), so nothing is added. *)
From Coq Require Import Sorting.Sorted Sorting.Permutation.
From NV Require Import Base.Tac Base.PyVal Base.Canon Model.Ip Model.Merge Model.Sets Model.SrcPrelude Model.SrcPreludeSets
  Gen.pysrc_gen Gen.pysrc_sets_gen Gen.pysrc_sets_ops_gen Gen.pysrc_sets_mut_gen
  Proofs.C02 Proofs.NetDen
  Proofs.C07_sweeps Proofs.C07_sweeps_inter Proofs.C07_sweeps_ranges Proofs.C07_sweeps_xor Proofs.C07_sweeps_diff
  Proofs.C07_sweeps_union Proofs.C07_sweeps_closed Proofs.C07_queries
  Proofs.GenOk_Src_C07 Proofs.GenOk_Src_C07_ops Proofs.GenOk_Src_C06.
Import ListNotations.
Open Scope Z_scope.

(* ---------------------------------------------------------------- the ties, one by one *)
Lemma t_iter_cidrs d : src_IPSet_iter_cidrs d = sorted d.
Proof. destruct C07_tie_ok as (H & _). exact (H d). Qed.
Lemma t_nonzero d : src_IPSet_nonzero d = match d with [] => false | _ => true end.
Proof. destruct C07_tie_ok as (_ & H & _). exact (H d). Qed.
Lemma t_size d : src_IPSet_size d = set_size d.
Proof. destruct C07_tie_ok as (_ & _ & H & _). exact (H d). Qed.
Lemma t_len d : src_IPSet_len d = set_len d.
Proof. destruct C07_tie_ok as (_ & _ & _ & H & _). exact (H d). Qed.
Lemma t_iscontiguous d : src_IPSet_iscontiguous d = Ok (set_iscontiguous d).
Proof. destruct C07_tie_ok as (_ & _ & _ & _ & H & _). exact (H d). Qed.
Lemma t_iprange d : Forall wf_net d -> src_IPSet_iprange d = set_iprange d.
Proof. destruct C07_tie_ok as (_ & _ & _ & _ & _ & H & _). exact (H d). Qed.
Lemma t_contains d n : 0 <= nplen n -> src_IPSet_contains d n = Ok (set_contains d n).
Proof. destruct C07_tie_ok as (_ & _ & _ & _ & _ & _ & _ & _ & H & _). exact (H d n). Qed.
Lemma t_issubset a b : plen_ok a -> src_IPSet_issubset a b = Ok (set_issubset a b).
Proof. destruct C07_tie_ok as (_ & _ & _ & _ & _ & _ & _ & _ & _ & H & _). exact (H a b). Qed.
Lemma t_issuperset a b : plen_ok b -> src_IPSet_issuperset a b = Ok (set_issuperset a b).
Proof. destruct C07_tie_ok as (_ & _ & _ & _ & _ & _ & _ & _ & _ & _ & H & _). exact (H a b). Qed.
Lemma t_lt a b : plen_ok a -> src_IPSet_lt a b = Ok (set_lt a b).
Proof. destruct C07_tie_ok as (_ & _ & _ & _ & _ & _ & _ & _ & _ & _ & _ & H & _). exact (H a b). Qed.
Lemma t_gt a b : plen_ok b -> src_IPSet_gt a b = Ok (set_gt a b).
Proof. destruct C07_tie_ok as (_ & _ & _ & _ & _ & _ & _ & _ & _ & _ & _ & _ & H & _). exact (H a b). Qed.
Lemma t_eq a b : src_IPSet_eq a b = dict_eqb a b.
Proof. destruct C07_tie_ok as (_ & _ & _ & _ & _ & _ & _ & _ & _ & _ & _ & _ & _ & H & _). exact (H a b). Qed.
Lemma t_ne a b : src_IPSet_ne a b = negb (dict_eqb a b).
Proof. destruct C07_tie_ok as (_ & _ & _ & _ & _ & _ & _ & _ & _ & _ & _ & _ & _ & _ & H). exact (H a b). Qed.

Lemma t_subtract sup L k ranges :
  src_sets_subtract sup L (Z.of_nat k) ranges =
    omap (fun r => (snd r, Z.of_nat (length L - length (fst r)))) (subtract sup (skipn k L) ranges).
Proof. destruct C07_ops_tie_ok as (H & _). exact (H sup L k ranges). Qed.
Lemma t_merged l : Forall rok l -> src_sets_iter_merged_ranges l = Ok (map pair_of (iter_merged_ranges l)).
Proof. destruct C07_ops_tie_ok as (_ & H & _). exact (H l). Qed.
Lemma t_inter a b : src_IPSet_intersection a b = set_intersection a b.
Proof. destruct C07_ops_tie_ok as (_ & _ & H & _). exact (H a b). Qed.
Lemma t_isdisjoint a b : src_IPSet_isdisjoint a b = set_isdisjoint a b.
Proof. destruct C07_ops_tie_ok as (_ & _ & _ & H & _). exact (H a b). Qed.
Lemma t_diff a b : SetInv a -> SetInv b -> src_IPSet_difference a b = set_difference a b.
Proof. destruct C07_ops_tie_ok as (_ & _ & _ & _ & H & _). exact (H a b). Qed.
Lemma t_xor a b : SetInv a -> SetInv b -> src_IPSet_symmetric_difference a b = set_symdiff a b.
Proof. destruct C07_ops_tie_ok as (_ & _ & _ & _ & _ & H & _). exact (H a b). Qed.
Lemma t_ipranges d : SetInv d -> src_IPSet_iter_ipranges d = Ok (set_iter_ipranges d).
Proof. destruct C07_ops_tie_ok as (_ & _ & _ & _ & _ & _ & H & _). exact (H d). Qed.

Lemma t_union a b : src_IPSet_union a b = set_union a b.
Proof. destruct C06_tie_ok as (_ & _ & _ & H). exact (H a b). Qed.
Lemma t_update_ipset d o flags : src_IPSet_update_ipset d o flags = set_update d (ASet o).
Proof. destruct C06_tie_ok as (_ & _ & H & _). exact (H d o flags). Qed.

(* the ties' hypotheses follow from SetInv *)
Lemma SetInv_plen_ok d : SetInv d -> plen_ok d.
Proof.
  intros I. pose proof (q_inv_wf d I) as W. unfold plen_ok. eapply Forall_impl; [|exact W].
  intros n (_ & _ & P). lia.
Qed.

(* ---------------------------------------------------------------- operators *)
Theorem inter_of_source : forall a b, SetInv a -> SetInv b ->
  exists d, src_IPSet_intersection a b = Ok d /\ SetInv d /\
    forall ver x, den d ver x <-> den a ver x /\ den b ver x.
Proof. intros a b. rewrite t_inter. apply set_intersection_den. Qed.

Theorem inter_blocks_of_source : forall a b, SetInv a -> SetInv b ->
  exists r, src_IPSet_intersection a b = Ok r /\ SetInv r /\
    (forall ver x, den r ver x <-> den a ver x /\ den b ver x) /\
    (forall n, In n r -> In n a \/ In n b).
Proof. intros a b. rewrite t_inter. apply set_intersection_spec. Qed.

Theorem diff_of_source : forall a b, SetInv a -> SetInv b ->
  exists d, src_IPSet_difference a b = Ok d /\ SetInv d /\
    forall ver x, den d ver x <-> den a ver x /\ ~ den b ver x.
Proof. intros a b Ia Ib. rewrite (t_diff a b Ia Ib). apply set_difference_closed; assumption. Qed.

Theorem xor_of_source : forall a b, SetInv a -> SetInv b ->
  exists d, src_IPSet_symmetric_difference a b = Ok d /\ SetInv d /\
    forall ver x, den d ver x <-> (den a ver x /\ ~ den b ver x) \/ (den b ver x /\ ~ den a ver x).
Proof. intros a b Ia Ib. rewrite (t_xor a b Ia Ib). apply set_symdiff_closed; assumption. Qed.

Theorem union_of_source : forall a b, SetInv a -> SetInv b ->
  exists d, src_IPSet_union a b = Ok d /\ SetInv d /\ canon_nets d /\
    forall ver x, den d ver x <-> den a ver x \/ den b ver x.
Proof. intros a b. rewrite t_union. apply set_union_closed. Qed.

Theorem update_set_of_source : forall a b flags, SetInv a -> SetInv b ->
  exists d, src_IPSet_update_ipset a b flags = Ok d /\ SetInv d /\ canon_nets d /\
    forall ver x, den d ver x <-> den a ver x \/ den b ver x.
Proof. intros a b flags. rewrite t_update_ipset. apply set_update_set_closed. Qed.

Theorem diff_rel_of_source : iprange_to_cidrs_spec -> forall a b, SetInv a -> SetInv b ->
  exists r, src_IPSet_difference a b = Ok r /\ SetInv r /\
    forall ver x, den r ver x <-> den a ver x /\ ~ den b ver x.
Proof. intros S a b Ia Ib. rewrite (t_diff a b Ia Ib). apply set_difference_spec; assumption. Qed.

Theorem xor_rel_of_source : iprange_to_cidrs_spec -> forall a b, SetInv a -> SetInv b ->
  exists r, src_IPSet_symmetric_difference a b = Ok r /\ SetInv r /\
    forall ver x, den r ver x <-> (den a ver x /\ ~ den b ver x) \/ (den b ver x /\ ~ den a ver x).
Proof. intros S a b Ia Ib. rewrite (t_xor a b Ia Ib). apply set_symdiff_spec; assumption. Qed.

Theorem isdisjoint_of_source : forall a b, SetInv a -> SetInv b ->
  exists r, src_IPSet_isdisjoint a b = Ok r /\ (r = true <-> ~ exists ver x, den a ver x /\ den b ver x).
Proof. intros a b. rewrite t_isdisjoint. apply set_isdisjoint_spec. Qed.

Theorem sorted_keys_of_source : forall d, SetInv d ->
  Permutation (src_IPSet_iter_cidrs d) d /\ Forall wfh (src_IPSet_iter_cidrs d) /\
  StronglySorted nbelow (src_IPSet_iter_cidrs d).
Proof. intros d. rewrite t_iter_cidrs. apply s_sorted_spec. Qed.

(* _subtract(supernet, subnets, subnet_idx, ranges) as generated: index in, (ranges, index) out *)
Theorem subtract_of_source : forall super L k sub S' ranges, skipn k L = sub :: S' ->
  wfh super -> Good (sub :: S') -> ninside sub super ->
  exists ins rest G, sub :: S' = (sub :: ins) ++ rest /\
    src_sets_subtract super L (Z.of_nat k) ranges = Ok (ranges ++ G, Z.of_nat (k + length (sub :: ins))) /\
    (forall n, In n (sub :: ins) -> ninside n super) /\
    (forall t, In t rest -> nbelow super t) /\
    Forall (rng_in super) G /\ StronglySorted rbelow G /\
    (forall ver x, rden G ver x <-> in_net super ver x /\ ~ den (sub :: ins) ver x).
Proof.
  intros super L k sub S' ranges E W G N.
  destruct (subtract_spec super sub S' ranges W G N) as (ins & rest & Gs & E1 & E2 & R).
  exists ins, rest, Gs. split; [exact E1|]. split; [|exact R].
  rewrite t_subtract, E, E2. cbn [omap fst snd]. f_equal. f_equal. f_equal.
  assert (length L = k + length (sub :: S'))%nat.
  { rewrite <- E. rewrite skipn_length.
    assert (k < length L)%nat; [|lia].
    destruct (Nat.lt_ge_cases k (length L)) as [X|X]; [exact X|]. rewrite (skipn_all2 L X) in E. discriminate E. }
  rewrite E1 in H. rewrite app_length in H. lia.
Qed.

Theorem merged_ranges_of_source : forall l, RAsc l ->
  exists m, src_sets_iter_merged_ranges l = Ok (map pair_of m) /\
    RSep m /\ forall ver x, rden m ver x <-> rden l ver x.
Proof.
  intros l A. exists (iter_merged_ranges l). split; [|apply iter_merged_ranges_spec, A].
  apply t_merged. destruct A as (V & _). eapply Forall_impl; [|exact V]. exact rvalid_rok.
Qed.

(* ---------------------------------------------------------------- queries *)
Theorem contains_of_source : forall d n, SetInv d -> wf_net n ->
  exists b, src_IPSet_contains d n = Ok b /\
    (b = true <-> forall x, in_net n (nver n) x -> den d (nver n) x).
Proof.
  intros d n I W. exists (set_contains d n). split; [|apply C07q_contains; assumption].
  apply t_contains. destruct W as (_ & _ & P). lia.
Qed.

Theorem contains_addr_of_source : forall d ver v, SetInv d -> valid_ver ver = true -> 0 <= v < 2 ^ width ver ->
  exists b, src_IPSet_contains d (addr_net ver v) = Ok b /\ (b = true <-> den d ver v).
Proof.
  intros d ver v I Hv R. exists (set_contains d (addr_net ver v)). split; [|apply C07q_contains_addr; assumption].
  apply t_contains. unfold addr_net. cbn [nplen]. destruct (width_cases ver Hv) as [(_ & ->)|(_ & ->)]; lia.
Qed.

Theorem subset_of_source : forall a b, SetInv a -> SetInv b ->
  (exists r, src_IPSet_issubset a b = Ok r /\ (r = true <-> forall ver x, den a ver x -> den b ver x)) /\
  (exists r, src_IPSet_issuperset a b = Ok r /\ (r = true <-> forall ver x, den b ver x -> den a ver x)).
Proof.
  intros a b Ia Ib. destruct (C07q_subset a b Ia Ib) as (S1 & S2).
  rewrite (t_issubset a b (SetInv_plen_ok a Ia)), (t_issuperset a b (SetInv_plen_ok b Ib)). split; eauto.
Qed.

Theorem size_of_source : forall d, SetInv d ->
  src_IPSet_size d = fold_right (fun k acc => 2 ^ (width (nver k) - nplen k) + acc) 0 d /\
  0 <= src_IPSet_size d /\
  (src_IPSet_size d = 0 <-> forall ver x, ~ den d ver x).
Proof. intros d. rewrite t_size. apply C07q_size. Qed.

Theorem size_card_of_source : forall a b, SetInv a -> SetInv b -> (forall ver x, den a ver x -> den b ver x) ->
  src_IPSet_size a <= src_IPSet_size b /\
  (src_IPSet_size a = src_IPSet_size b <-> forall ver x, den b ver x -> den a ver x).
Proof. intros a b. rewrite !t_size. apply C07q_size_card. Qed.

Theorem size_ext_of_source : forall a b, SetInv a -> SetInv b -> (forall ver x, den a ver x <-> den b ver x) ->
  src_IPSet_size a = src_IPSet_size b.
Proof. intros a b. rewrite !t_size. apply C07q_size_ext. Qed.

Theorem order_of_source : forall a b, SetInv a -> SetInv b ->
  (exists r, src_IPSet_lt a b = Ok r /\
     (r = true <-> (forall ver x, den a ver x -> den b ver x) /\ ~ (forall ver x, den b ver x -> den a ver x))) /\
  (exists r, src_IPSet_gt a b = Ok r /\
     (r = true <-> (forall ver x, den b ver x -> den a ver x) /\ ~ (forall ver x, den a ver x -> den b ver x))).
Proof.
  intros a b Ia Ib. destruct (C07q_order a b Ia Ib) as (S1 & S2).
  rewrite (t_lt a b (SetInv_plen_ok a Ia)), (t_gt a b (SetInv_plen_ok b Ib)). split; eauto.
Qed.

Theorem eq_of_source : forall a b, SetInv a -> SetInv b ->
  (src_IPSet_eq a b = true <-> forall ver x, den a ver x <-> den b ver x) /\
  src_IPSet_ne a b = negb (src_IPSet_eq a b).
Proof. intros a b Ia Ib. rewrite t_eq, t_ne. split; [apply C07q_eq; assumption|reflexivity]. Qed.

Theorem len_of_source : forall d,
  (src_IPSet_size d <= 2 ^ 63 - 1 -> src_IPSet_len d = Ok (src_IPSet_size d)) /\
  (2 ^ 63 - 1 < src_IPSet_size d -> src_IPSet_len d = Raise IndexError).
Proof. intros d. rewrite t_size, t_len. apply C07q_len. Qed.

Theorem ranges_of_source : forall d, SetInv d ->
  exists R, src_IPSet_iter_ipranges d = Ok R /\
  (forall v s e, In (v, s, e) R ->
     s <= e /\ (forall x, s <= x <= e -> den d v x) /\ ~ den d v (s - 1) /\ ~ den d v (e + 1)) /\
  StronglySorted (fun r r' => q_rv r < q_rv r' \/ (q_rv r = q_rv r' /\ q_re r + 1 < q_rs r')) R /\
  (forall ver x, den d ver x <-> exists s e, In (ver, s, e) R /\ s <= x <= e).
Proof. intros d I. exists (set_iter_ipranges d). split; [apply t_ipranges, I|apply C07q_ranges, I]. Qed.

Theorem contiguous_of_source : forall d, SetInv d ->
  exists r, src_IPSet_iscontiguous d = Ok r /\
  (r = true <->
   (forall v x, ~ den d v x) \/ exists ver s e, forall v x, den d v x <-> v = ver /\ s <= x <= e).
Proof. intros d I. exists (set_iscontiguous d). split; [apply t_iscontiguous|apply C07q_contiguous, I]. Qed.

Theorem iprange_of_source : forall d, SetInv d ->
  match src_IPSet_iprange d with
  | Ok None => forall v x, ~ den d v x
  | Ok (Some (ver, s, e)) => s <= e /\ forall v x, den d v x <-> v = ver /\ s <= x <= e
  | Raise ValueError =>
      ~ ((forall v x, ~ den d v x) \/ exists ver s e, forall v x, den d v x <-> v = ver /\ s <= x <= e)
  | Raise _ => False
  end.
Proof. intros d I. rewrite (t_iprange d (q_inv_wf d I)). apply C07q_iprange, I. Qed.

Theorem iprange_total_of_source : forall d, SetInv d ->
  (src_IPSet_iscontiguous d = Ok true -> exists o, src_IPSet_iprange d = Ok o) /\
  (src_IPSet_iscontiguous d = Ok false -> src_IPSet_iprange d = Raise ValueError).
Proof.
  intros d I. rewrite t_iscontiguous, (t_iprange d (q_inv_wf d I)). destruct (C07q_iprange_total d I) as (A & B).
  split; intros E; injection E as E; auto.
Qed.

Theorem iter_order_of_source : forall d, SetInv d ->
  Permutation (src_IPSet_iter_cidrs d) d /\
  StronglySorted (fun k1 k2 => nver k1 < nver k2 \/ (nver k1 = nver k2 /\ nl k1 < nf k2)) (src_IPSet_iter_cidrs d) /\
  (forall l1 k1 k2 l2, src_IPSet_iter_cidrs d = l1 ++ k1 :: k2 :: l2 ->
     nver k1 < nver k2 \/ (nver k1 = nver k2 /\ nl k1 < nf k2)).
Proof. intros d. rewrite t_iter_cidrs. apply C07q_iter_order. Qed.
