(* Proofs/Code_C11.v — the C11 property theorems restated about the definitions regenerated from the source
   (Gen/pysrc_gen.v: IPNetwork.supernet with its `while` loop, __iadd__, __isub__; Gen/pysrc_subnet_gen.v: the generator
   IPNetwork.subnet as src_IPNetwork_subnet_start / _subnet_next, next, previous, iter_hosts).
   Each lemma is the model theorem of Proofs/C11.v transported through Proofs/GenOk_Src_C11.v / GenOk_Src_C11_subnet.v.
   A network of the model is the pair (value, prefixlen) of a family of width w; here the family is a version 4 / 6,
   w = width ver, and a result object is the `net` record wnet_net ver (value, prefixlen). *)
From NV Require Import Base.Tac Base.PyVal Base.Bits Model.Ip Model.PySlice Model.ListLike Model.Subnet Model.SrcPrelude
  Model.SrcPreludeSRCE Gen.pysrc_gen Gen.pysrc_subnet_gen
  Proofs.C02 Proofs.C11 Proofs.GenOk_Src_C11 Proofs.GenOk_Src_C11_subnet.
Import ListNotations.
Open Scope Z_scope.

(* (number of subnets the generator runs to, list(islice(N.subnet(q, count), k))) on the generated generator pieces:
   the prologue src_IPNetwork_subnet_start answers None (bare return) or the loop state (i, count, base_subnet, prefixlen),
   one resumption is src_IPNetwork_subnet_next (through subnet_next_src), py_gen_take takes k items *)
Definition code_subnet_take (ver v p prefixlen : Z) (count : option Z) (fmt : option Z) (k : nat) : outcome (Z * list net) :=
  do og <- src_IPNetwork_subnet_start ver (width ver) v p prefixlen count fmt;
  match og with
  | None => Ok (0, [])
  | Some st => do l <- py_gen_take (subnet_next_src ver v p) k st; Ok (snd (fst (fst st)), l)
  end.

(* the in-place operators: the generated definition answers the value assigned to self._value *)
Definition code_net_iadd (ver : Z) (n : wnet) (num : Z) : outcome wnet :=
  omap (fun nv => (nv, snd n)) (src_IPNetwork_iadd ver (width ver) (fst n) (snd n) num).
Definition code_net_isub (ver : Z) (n : wnet) (num : Z) : outcome wnet :=
  omap (fun nv => (nv, snd n)) (src_IPNetwork_isub ver (width ver) (fst n) (snd n) num).

(* (number of hosts, list(islice(N.iter_hosts(), k))): the generated iter_hosts chooses the bounds and hands them to
   iter_iprange; stepping that range iterator is the model's generator (Subnet.iter_iprange / iprange_next) *)
Definition code_hosts_take (ver v p : Z) (k : nat) : outcome (Z * list (Z * Z)) :=
  do it <- src_IPNetwork_iter_hosts ver (width ver) v p;
  do og <- start_it it;
  match og with
  | None => Ok (0, [])
  | Some g => do l <- gen_take iprange_next k g; Ok (iprange_remaining g, l)
  end.

Lemma code_subnet_take_eq ver v p q count fmt k :
  code_subnet_take ver v p q count fmt k =
    omap (fun cl => (fst cl, map (wnet_net ver) (snd cl))) (subnet_take (width ver) (v, p) q count k).
Proof. apply src_subnet_take_ok. Qed.

Lemma map_wnet ver (f : Z -> wnet) l : map (wnet_net ver) (map f l) = map (fun i => wnet_net ver (f i)) l.
Proof. apply map_map. Qed.

Lemma code_subnet_take_spec ver v p q count fmt : 0 <= p <= q -> q <= width ver -> 0 <= v < 2 ^ width ver ->
  let w := width ver in
  let M := 2 ^ (q - p) in
  let c := match count with None => M | Some c => c end in
  (1 <= c <= M -> forall k,
     code_subnet_take ver v p q count fmt k =
       Ok (c, map (fun i => {| nver := ver; nval := floor2 v (w - p) + i * 2 ^ (w - q); nplen := q |})
                  (zseq 0 (Nat.min k (Z.to_nat c)))))
  /\ (~ (1 <= c <= M) -> forall k, code_subnet_take ver v p q count fmt k = Raise ValueError).
Proof.
  intros Hp Hq Hv. destruct (subnet_take_spec (width ver) v p q count Hp Hq Hv) as (A & B). cbv zeta in *.
  split; intros H k; rewrite code_subnet_take_eq; [rewrite (A H k)|rewrite (B H k)]; [|reflexivity].
  cbn [omap fst snd]. rewrite map_map. reflexivity.
Qed.

Lemma code_subnet_take_below ver v p q count fmt k : 0 <= p <= width ver -> q < p ->
  code_subnet_take ver v p q count fmt k = Ok (0, []).
Proof. intros Hp Hq. rewrite code_subnet_take_eq, (subnet_take_below (width ver) v p q count k Hp Hq). reflexivity. Qed.

(* ---- supernet ---- *)
Lemma code_supernet_spec ver v p q : valid_ver ver = true -> 0 <= q <= p -> p <= width ver -> 0 <= v < 2 ^ width ver ->
  src_IPNetwork_supernet ver (width ver) v p q =
    Ok (map (fun r => {| nver := ver; nval := floor2 v (width ver - r); nplen := r |}) (zseq q (Z.to_nat (p - q)))).
Proof.
  intros Hver Hq Hp Hv. rewrite src_supernet_ok by (try assumption; lia).
  rewrite (supernet_spec (width ver) v p q Hq Hp Hv). cbn [omap]. rewrite map_map. reflexivity.
Qed.

Lemma code_supernet_negative ver v p q : valid_ver ver = true -> q < 0 -> q <= p -> p <= width ver ->
  src_IPNetwork_supernet ver (width ver) v p q = Raise ValueError.
Proof.
  intros Hver Hq Hqp Hp. rewrite src_supernet_ok by assumption.
  rewrite (supernet_invalid (width ver) (v, p) q) by lia. reflexivity.
Qed.

Lemma code_supernet_no_fuel ver v p q : valid_ver ver = true -> 0 <= p <= width ver -> 0 <= v < 2 ^ width ver -> q <= p ->
  src_IPNetwork_supernet ver (width ver) v p q <> Raise OutOfFuel.
Proof.
  intros Hver Hp Hv Hq. rewrite src_supernet_ok by (try assumption; lia).
  pose proof (supernet_no_fuel (width ver) v p q Hp Hv) as N.
  destruct (supernet (width ver) (v, p) q) as [l|e]; cbn [omap]; congruence.
Qed.

(* ---- stepping ---- *)
Lemma code_net_iadd_eq ver v p k : valid_ver ver = true -> 0 <= p <= width ver -> 0 <= v < 2 ^ width ver ->
  code_net_iadd ver (v, p) k = net_iadd (width ver) (v, p) k /\ code_net_isub ver (v, p) k = net_isub (width ver) (v, p) k.
Proof.
  intros Hver Hp Hv. unfold code_net_iadd, code_net_isub. cbn [fst snd].
  pose proof (network_ctor_ok ver v p Hver Hp Hv) as C.
  split; [apply src_net_iadd_ok|apply src_net_isub_ok]; exact C.
Qed.

Lemma code_step_spec ver v p k : valid_ver ver = true -> 0 <= p <= width ver -> 0 <= v < 2 ^ width ver ->
  let w := width ver in
  let F := floor2 v (w - p) in
  let T := 2 ^ (w - p) in
  let up := F + k * T in
  let down := F - k * T in
  (T | up) /\ (T | down) /\
  (fits w p up ->
     apply_inplace (fun n => code_net_iadd ver n k) (v, p) = ((up, p), None) /\
     src_IPNetwork_next ver w v p k = Ok {| nver := ver; nval := up; nplen := p |}) /\
  (~ fits w p up ->
     apply_inplace (fun n => code_net_iadd ver n k) (v, p) = ((v, p), Some IndexError) /\
     src_IPNetwork_next ver w v p k = Raise IndexError) /\
  (fits w p down ->
     apply_inplace (fun n => code_net_isub ver n k) (v, p) = ((down, p), None) /\
     src_IPNetwork_previous ver w v p k = Ok {| nver := ver; nval := down; nplen := p |}) /\
  (~ fits w p down ->
     apply_inplace (fun n => code_net_isub ver n k) (v, p) = ((v, p), Some IndexError) /\
     src_IPNetwork_previous ver w v p k = Raise IndexError).
Proof.
  intros Hver Hp Hv. cbv zeta.
  destruct (step_spec (width ver) v p k Hp Hv) as (D1 & D2 & U & NU & D & ND). cbv zeta in *.
  destruct (code_net_iadd_eq ver v p k Hver Hp Hv) as (EA & ES).
  unfold apply_inplace in *. rewrite EA, ES.
  rewrite (src_net_next_ok ver v p Hver Hp Hv k), (src_net_previous_ok ver v p Hver Hp Hv k).
  split; [exact D1|]. split; [exact D2|].
  split; [intros H; destruct (U H) as (A & B); split; [exact A|rewrite B; reflexivity]|].
  split; [intros H; destruct (NU H) as (A & B); split; [exact A|rewrite B; reflexivity]|].
  split; [intros H; destruct (D H) as (A & B); split; [exact A|rewrite B; reflexivity]|].
  intros H; destruct (ND H) as (A & B); split; [exact A|rewrite B; reflexivity].
Qed.

(* ---- iter_hosts ---- *)
Lemma code_hosts_take_eq ver v p k : code_hosts_take ver v p k = hosts_take ver (v, p) k.
Proof.
  unfold code_hosts_take, hosts_take. rewrite <- src_iter_hosts_ok.
  destruct (src_IPNetwork_iter_hosts ver (width ver) v p) as [it|e]; reflexivity.
Qed.

Lemma code_hosts_cases ver v p : valid_ver ver = true -> 0 <= p <= width ver -> 0 <= v < 2 ^ width ver ->
  let w := width ver in
  let F := floor2 v (w - p) in
  let L := F + 2 ^ (w - p) - 1 in
  let yields (lo hi : Z) := forall k, code_hosts_take ver v p k =
        Ok (hi - lo + 1, map (fun i => (ver, i)) (zseq lo (Nat.min k (Z.to_nat (hi - lo + 1))))) in
  (ver = 4 -> p <= 30 -> yields (F + 1) (L - 1)) /\
  (ver = 4 -> 31 <= p -> yields F L) /\
  (ver = 6 -> p <= 127 -> yields (F + 1) L) /\
  (ver = 6 -> p = 128 -> forall k, code_hosts_take ver v p k = Ok (0, [])).
Proof.
  intros Hver Hp Hv. cbv zeta. destruct (hosts_cases ver v p Hver Hp Hv) as (A & B & C & D). cbv zeta in *.
  split; [intros E1 E2 k; rewrite code_hosts_take_eq; exact (A E1 E2 k)|].
  split; [intros E1 E2 k; rewrite code_hosts_take_eq; exact (B E1 E2 k)|].
  split; [intros E1 E2 k; rewrite code_hosts_take_eq; exact (C E1 E2 k)|].
  intros E1 E2 k; rewrite code_hosts_take_eq; exact (D E1 E2 k).
Qed.
