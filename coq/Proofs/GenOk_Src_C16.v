(* Proofs/GenOk_Src_C16.v — source tie for C16: the definitions regenerated from the text of BaseIP.is_ipv4_mapped /
   is_ipv4_compat, IPAddress.ipv4 / ipv6 and IPNetwork.ipv6 equal the hand-written model of Model/Conv.v.
   The Python methods start with `ip = None` and return it unchanged when the version is neither 4 nor 6; the generated
   definitions say `Ok None` there, the model says `Raise Unsupported`, hence the case split on valid_ver. *)
From NV Require Import Base.Tac Base.PyVal Model.Ip Model.Conv Model.SrcPrelude Gen.pysrc_gen Proofs.GenOk_Src_Const.
Open Scope Z_scope.

Lemma src_is_ipv4_mapped_ok ver w v : src_BaseIP_is_ipv4_mapped ver w v = is_ipv4_mapped ver v.
Proof. reflexivity. Qed.
Lemma src_is_ipv4_compat_ok ver w v : src_BaseIP_is_ipv4_compat ver w v = is_ipv4_compat ver v.
Proof. reflexivity. Qed.

Lemma bind_some {A} (o : outcome A) : (do x <- o; Ok (Some x)) = omap Some o.
Proof. destruct o; reflexivity. Qed.

Lemma mk_net6 a b : mk_net 6 a b = net_of_tuple 6 a b.
Proof. reflexivity. Qed.

Lemma src_ipv4_ok ver w v :
  src_IPAddress_ipv4 ver w v = if valid_ver ver then omap Some (addr_ipv4 ver v) else Ok None.
Proof.
  unfold src_IPAddress_ipv4, addr_ipv4, valid_ver, mk_addr. rewrite !bind_some.
  change src_ipv4_max_int with (max_int 4).
  destruct (ver =? 4); [reflexivity|]. destruct (ver =? 6); [|reflexivity]. cbn [orb].
  destruct ((0 <=? v) && (v <=? max_int 4)); [reflexivity|].
  destruct ((0xffff00000000 <=? v) && (v <=? 0xffffffffffff)); reflexivity.
Qed.

Lemma src_ipv6_ok ver w v c :
  src_IPAddress_ipv6 ver w v c = if valid_ver ver then omap Some (addr_ipv6 ver v c) else Ok None.
Proof.
  unfold src_IPAddress_ipv6, addr_ipv6, valid_ver, mk_addr. rewrite !bind_some.
  destruct (ver =? 6) eqn:E6.
  - rewrite Bool.orb_true_r.
    destruct (c && ((0xffff00000000 <=? v) && (v <=? 0xffffffffffff))); reflexivity.
  - destruct (ver =? 4); [|reflexivity]. cbn [orb].
    destruct (addr_of_int_ver v 6) as [ip|e]; [|reflexivity]. cbn [bind].
    destruct c; cbn [negb]; [reflexivity|apply bind_some].
Qed.

Lemma src_net_ipv6_ok ver w v p c :
  src_IPNetwork_ipv6 ver w v p c = if valid_ver ver then omap Some (net_ipv6 ver v p c) else Ok None.
Proof.
  unfold src_IPNetwork_ipv6, net_ipv6, valid_ver. rewrite !bind_some, !mk_net6.
  destruct (ver =? 6) eqn:E6.
  - rewrite Bool.orb_true_r.
    destruct (c && ((0xffff00000000 <=? v) && (v <=? 0xffffffffffff))); reflexivity.
  - destruct (ver =? 4); [|reflexivity]. cbn [orb]. destruct c; reflexivity.
Qed.

Lemma C16_tie_ok :
  (forall ver w v,
     src_BaseIP_is_ipv4_mapped ver w v = is_ipv4_mapped ver v /\
     src_BaseIP_is_ipv4_compat ver w v = is_ipv4_compat ver v /\
     src_IPAddress_ipv4 ver w v = (if valid_ver ver then omap Some (addr_ipv4 ver v) else Ok None)) /\
  (forall ver w v c,
     src_IPAddress_ipv6 ver w v c = if valid_ver ver then omap Some (addr_ipv6 ver v c) else Ok None) /\
  (forall ver w v p c,
     src_IPNetwork_ipv6 ver w v p c = if valid_ver ver then omap Some (net_ipv6 ver v p c) else Ok None) /\
  (src_ipv4_version = 4 /\ src_ipv6_version = 6 /\
   src_ipv4_width = width src_ipv4_version /\ src_ipv6_width = width src_ipv6_version /\
   src_ipv4_max_int = max_int_w src_ipv4_width /\ src_ipv6_max_int = max_int_w src_ipv6_width /\
   src_ipv4_max_int = max_int 4 /\ src_ipv6_max_int = max_int 6).
Proof.
  split; [intros; split; [reflexivity|]; split; [reflexivity|apply src_ipv4_ok]|].
  split; [exact src_ipv6_ok|]. split; [exact src_net_ipv6_ok|exact src_consts_ok].
Qed.
