(* Proofs/C15.v — the encoders of Model/Codec.v equal their specifications (generic word sizes / separators). *)
From Coq Require Import String Ascii.
From NV Require Import Base.Tac Base.PyVal Base.Bits Base.PyStr Base.PyStrFacts Model.Ip Model.Codec Proofs.C15_Digits.
Close Scope string_scope.
Open Scope Z_scope.

(* ------------------------------------------------------------------------------------------------ *)
(* small helpers *)
Lemma map_outcome_ok {A B} (f : A -> outcome B) (g : A -> B) l :
  (forall x, In x l -> f x = Ok (g x)) -> map_outcome f l = Ok (map g l).
Proof.
  induction l as [|x l IH]; intros H; [reflexivity|].
  cbn [map_outcome map]. rewrite H by (left; reflexivity). cbn [bind].
  rewrite IH by (intros y Hy; apply H; right; exact Hy). reflexivity.
Qed.

Lemma pow2_256 k : 256 ^ Z.of_nat k = 2 ^ (8 * Z.of_nat k).
Proof. change 256 with (2 ^ 8). rewrite <- Z.pow_mul_r by lia. reflexivity. Qed.

Lemma Zpow_nat_pos b k : 0 < b -> 0 < b ^ Z.of_nat k.
Proof. intros. apply Z.pow_pos_nonneg; lia. Qed.

(* ------------------------------------------------------------------------------------------------ *)
(* words *)
Lemma words_loop_spec ws n v : 0 <= ws ->
  rev (words_loop n v (2 ^ ws - 1) ws) = digits_be (2 ^ ws) n v.
Proof.
  intros Hws. revert v. induction n as [|n IH]; intros v; [reflexivity|].
  cbn [words_loop rev]. rewrite IH, digits_be_S_snoc by (apply Z.pow_pos_nonneg; lia).
  rewrite land_ones_mod by exact Hws. rewrite Z.shiftr_div_pow2 by exact Hws. reflexivity.
Qed.

Lemma int_to_words_spec v ws nw : 0 <= ws -> 0 <= nw -> 0 <= v < 2 ^ (ws * nw) ->
  int_to_words v ws nw = Ok (spec_words ws nw v).
Proof.
  intros Hws Hnw Hv. unfold int_to_words, spec_words.
  replace (nw * ws) with (ws * nw) by ring.
  destruct ((0 <=? v) && (v <=? 2 ^ (ws * nw) - 1)) eqn:E; [|lia].
  cbn [negb]. now rewrite words_loop_spec.
Qed.

Lemma int_to_words_raises v ws nw : ~ (0 <= v < 2 ^ (nw * ws)) -> int_to_words v ws nw = Raise IndexError.
Proof.
  intros Hv. unfold int_to_words. destruct ((0 <=? v) && (v <=? 2 ^ (nw * ws) - 1)) eqn:E; [lia|reflexivity].
Qed.

Lemma spec_words_range ws nw v : 0 <= ws -> Forall (fun d => 0 <= d < 2 ^ ws) (spec_words ws nw v).
Proof. intros. apply digits_be_range. apply Z.pow_pos_nonneg; lia. Qed.

Lemma spec_words_length ws nw v : List.length (spec_words ws nw v) = Z.to_nat nw.
Proof. apply digits_be_length. Qed.

Lemma ipv4_int_to_words_spec v : 0 <= v < 2 ^ 32 -> ipv4_int_to_words v = Ok (spec_words 8 4 v).
Proof.
  intros Hv. unfold ipv4_int_to_words, spec_words.
  destruct ((0 <=? v) && (v <=? 2 ^ 32 - 1)) eqn:E; [|lia]. cbn [negb].
  change (Z.to_nat 4) with 4%nat.
  rewrite !digits_be_S_cons, digits_be_0.
  change 255 with (2 ^ 8 - 1). rewrite !land_ones_mod by lia. rewrite !Z.shiftr_div_pow2 by lia.
  change (Z.of_nat 3) with 3. change (Z.of_nat 2) with 2. change (Z.of_nat 1) with 1. change (Z.of_nat 0) with 0.
  change ((2 ^ 8) ^ 3) with (2 ^ 24). change ((2 ^ 8) ^ 2) with (2 ^ 16). change ((2 ^ 8) ^ 1) with (2 ^ 8).
  change ((2 ^ 8) ^ 0) with 1. rewrite Z.div_1_r.
  f_equal. f_equal. symmetry. apply Z.mod_small.
  split; [apply Z.div_pos; lia|]. apply Z.div_lt_upper_bound; [lia|]. change (2 ^ 24 * 2 ^ 8) with (2 ^ 32). lia.
Qed.

(* ------------------------------------------------------------------------------------------------ *)
(* fixed-width binary numerals *)
Lemma spec_bin_fixed_length n v : List.length (spec_bin_fixed n v) = n.
Proof. unfold spec_bin_fixed. now rewrite map_length, digits_be_length. Qed.

Lemma spec_bin_fixed_snoc n v : spec_bin_fixed (S n) v = spec_bin_fixed n (v / 2) ++ [bit_char (v mod 2)].
Proof. unfold spec_bin_fixed. rewrite digits_be_S_snoc by lia. now rewrite map_app. Qed.

Lemma spec_bin_fixed_app k m v : spec_bin_fixed (k + m) v = spec_bin_fixed k (v / 2 ^ Z.of_nat m) ++ spec_bin_fixed m v.
Proof. unfold spec_bin_fixed. rewrite digits_be_app by lia. now rewrite map_app. Qed.

Lemma spec_bin_fixed_mod n v : spec_bin_fixed n (v mod 2 ^ Z.of_nat n) = spec_bin_fixed n v.
Proof. unfold spec_bin_fixed. now rewrite digits_be_mod by lia. Qed.

Lemma spec_bin_fixed_zero n : spec_bin_fixed n 0 = repeat_char "0"%char n.
Proof.
  unfold spec_bin_fixed. rewrite digits_be_zero by lia. rewrite repeat_char_repeat.
  induction n as [|n IH]; [reflexivity|]. cbn [repeat map]. now rewrite IH.
Qed.

Lemma spec_bin_fixed_pad k m v : 0 <= v < 2 ^ Z.of_nat m ->
  spec_bin_fixed (k + m) v = repeat_char "0"%char k ++ spec_bin_fixed m v.
Proof. intros Hv. rewrite spec_bin_fixed_app, Z.div_small by exact Hv. now rewrite spec_bin_fixed_zero. Qed.

(* bytes_to_bits() *)
Lemma byte_bits_loop_spec n num acc : byte_bits_loop n num acc = spec_bin_fixed n num ++ acc.
Proof.
  revert num acc. induction n as [|n IH]; intros num acc; [reflexivity|].
  cbn [byte_bits_loop]. rewrite IH, spec_bin_fixed_snoc, <- app_assoc. cbn [app].
  rewrite Z.shiftr_div_pow2 by lia. change (2 ^ 1) with 2. f_equal. f_equal.
  change 1 with (2 ^ 1 - 1) at 1. rewrite land_ones_mod by lia. change (2 ^ 1) with 2. reflexivity.
Qed.

Lemma byte_bits_spec num : byte_bits num = spec_bin_fixed 8 num.
Proof. unfold byte_bits. now rewrite byte_bits_loop_spec, app_nil_r. Qed.

(* the `while word:` loop: the bytes, least significant first, appended to `acc` *)
Lemma word_bytes_loop_spec fuel : forall word acc, 0 <= word < 256 ^ Z.of_nat fuel ->
  exists (k : nat) L, (k <= fuel)%nat /\ word < 256 ^ Z.of_nat k /\
    word_bytes_loop fuel word acc = Ok (acc ++ L) /\ concat (rev L) = spec_bin_fixed (8 * k) word /\
    (L = [] <-> k = 0%nat).
Proof.
  induction fuel as [|f IH]; intros word acc Hw.
  - cbn in Hw. assert (word = 0) by lia. subst word. exists 0%nat, []. cbn. rewrite app_nil_r.
    repeat split; try lia; reflexivity.
  - cbn [word_bytes_loop]. destruct (Z.eqb_spec word 0) as [->|Hnz].
    + exists 0%nat, []. rewrite app_nil_r. cbn. repeat split; try lia; reflexivity.
    + rewrite Z.shiftr_div_pow2 by lia. change (2 ^ 8) with 256.
      rewrite Nat2Z.inj_succ, Z.pow_succ_r in Hw by lia.
      destruct (IH (word / 256) (acc ++ [byte_bits (Z.land word 255)])) as (k & L & Hk & Hlt & Hrun & Hcat & _).
      { split; [apply Z.div_pos; lia|]. apply Z.div_lt_upper_bound; lia. }
      exists (S k), (byte_bits (Z.land word 255) :: L).
      split; [lia|]. split.
      { rewrite Nat2Z.inj_succ, Z.pow_succ_r by lia.
        assert (word / 256 + 1 <= 256 ^ Z.of_nat k) by lia.
        pose proof (Z.mul_div_le word 256 ltac:(lia)). pose proof (Z.mod_pos_bound word 256 ltac:(lia)).
        pose proof (Z.div_mod word 256 ltac:(lia)). nia. }
      split; [rewrite Hrun, <- app_assoc; reflexivity|]. split.
      { cbn [rev]. rewrite concat_app, Hcat. cbn [concat]. rewrite app_nil_r.
        replace (8 * S k)%nat with (8 * k + 8)%nat by lia.
        rewrite spec_bin_fixed_app. change (2 ^ Z.of_nat 8) with 256. f_equal.
        rewrite byte_bits_spec. change 255 with (2 ^ 8 - 1). rewrite land_ones_mod by lia.
        change (2 ^ 8) with (2 ^ Z.of_nat 8). apply spec_bin_fixed_mod. }
      split; [discriminate|lia].
Qed.

Lemma last_n_app n a b : (0 < n)%nat -> List.length b = n -> last_n n (a ++ b) = b.
Proof.
  intros Hn Hb. unfold last_n. destruct n as [|n]; [lia|].
  rewrite app_length, Hb. replace (List.length a + S n - S n)%nat with (List.length a + 0)%nat by lia.
  rewrite skipn_app. rewrite Nat.add_0_r, skipn_all, Nat.sub_diag. reflexivity.
Qed.

(* ('0' * ws + bit_str)[-ws:] is the ws-digit numeral *)
Lemma pad_trunc ws m word : (0 < ws)%nat -> 0 <= word < 2 ^ Z.of_nat ws -> 0 <= word < 2 ^ Z.of_nat m ->
  last_n ws (repeat_char "0"%char ws ++ spec_bin_fixed m word) = spec_bin_fixed ws word.
Proof.
  intros Hws Hw Hm. rewrite <- spec_bin_fixed_pad by exact Hm.
  replace (ws + m)%nat with (m + ws)%nat by lia. rewrite spec_bin_fixed_app.
  apply last_n_app; [exact Hws|apply spec_bin_fixed_length].
Qed.

Lemma word_bits_spec ws word : 0 < ws -> 0 <= word < 2 ^ ws ->
  word_bits ws word = Ok (spec_bin_fixed (Z.to_nat ws) word).
Proof.
  intros Hws Hw. unfold word_bits.
  destruct (word_bytes_loop_spec (Z.to_nat ws + 1) word []) as (k & L & Hk & Hlt & Hrun & Hcat & Hnil).
  { split; [lia|]. rewrite pow2_256. eapply Z.lt_le_trans; [apply Hw|]. apply Z.pow_le_mono_r; lia. }
  rewrite Hrun. cbn [bind app].
  assert (Hw' : 0 <= word < 2 ^ Z.of_nat (Z.to_nat ws)) by (rewrite Z2Nat.id; lia).
  f_equal. destruct (concat (rev L)) as [|c r] eqn:EC.
  - (* nothing appended: word = 0 *)
    assert (k = 0%nat).
    { destruct k as [|k]; [reflexivity|]. exfalso.
      assert (List.length (spec_bin_fixed (8 * S k) word) = 0%nat) by (rewrite <- Hcat; reflexivity).
      rewrite spec_bin_fixed_length in H. lia. }
    subst k. cbn in Hlt. assert (word = 0) by lia. subst word.
    rewrite <- (spec_bin_fixed_zero (Z.to_nat ws)) at 2. apply pad_trunc; [lia| |]; split; try lia; apply Z.pow_pos_nonneg; lia.
  - rewrite Hcat. apply pad_trunc; [lia|exact Hw'|].
    split; [lia|]. replace (Z.of_nat (8 * k)) with (8 * Z.of_nat k) by lia. rewrite <- pow2_256. exact Hlt.
Qed.

Lemma word_bits_no_fuel ws word : 0 < ws -> 0 <= word < 2 ^ ws -> word_bits ws word <> Raise OutOfFuel.
Proof. intros Hws Hw. rewrite word_bits_spec by assumption. discriminate. Qed.

Lemma int_to_bits_spec v ws nw sep : 0 < ws -> 0 <= nw -> 0 <= v < 2 ^ (ws * nw) ->
  int_to_bits v ws nw sep = Ok (spec_bits ws nw sep v).
Proof.
  intros Hws Hnw Hv. unfold int_to_bits, spec_bits.
  rewrite int_to_words_spec by (try assumption; lia). cbn [bind].
  rewrite (map_outcome_ok _ (spec_bin_fixed (Z.to_nat ws))).
  - cbn [bind]. now rewrite map_map.
  - intros x Hx. apply word_bits_spec; [exact Hws|].
    pose proof (spec_words_range ws nw v ltac:(lia)) as HF. rewrite Forall_forall in HF. now apply HF.
Qed.

Lemma concat_map_map {A B C} (f : B -> C) (g : A -> list B) l :
  concat (map (fun x => map f (g x)) l) = map f (flat_map g l).
Proof. induction l as [|x l IH]; [reflexivity|]. cbn [map concat flat_map]. now rewrite map_app, IH. Qed.

(* removing the separators gives the w-digit numeral of the whole value *)
Lemma concat_spec_bits ws nw v : 0 <= ws -> 0 <= nw ->
  concat (map (spec_bin_fixed (Z.to_nat ws)) (spec_words ws nw v)) = spec_bin_fixed (Z.to_nat (ws * nw)) v.
Proof.
  intros Hws Hnw. unfold spec_words.
  change (spec_bin_fixed (Z.to_nat ws)) with (fun x => map bit_char (digits_be 2 (Z.to_nat ws) x)).
  rewrite concat_map_map. unfold spec_bin_fixed.
  replace (2 ^ ws) with (2 ^ Z.of_nat (Z.to_nat ws)) by (rewrite Z2Nat.id; lia).
  rewrite digits_be_flat by lia. f_equal. f_equal. rewrite Z2Nat.inj_mul by lia. reflexivity.
Qed.

(* ------------------------------------------------------------------------------------------------ *)
(* bin() *)
Lemma drop2_0b s : drop2 ("0b" ++ s)%string = s.
Proof. unfold drop2. cbn. apply str_of_chars. Qed.

Lemma map_fmt_digit_bits l : Forall (fun d => 0 <= d < 2) l -> map (fmt_digit false) l = map bit_char l.
Proof.
  intros HF. apply map_ext_in. intros d Hd. rewrite Forall_forall in HF. specialize (HF d Hd).
  assert (d = 0 \/ d = 1) as [->| ->] by lia; reflexivity.
Qed.

Lemma log2_digits v : 0 < v -> 0 <= v < 2 ^ Z.of_nat (Z.to_nat (Z.log2 v + 1)).
Proof.
  intros Hv. pose proof (Z.log2_nonneg v). rewrite Z2Nat.id by lia.
  pose proof (Z.log2_spec v Hv). replace (Z.log2 v + 1) with (Z.succ (Z.log2 v)) by lia. lia.
Qed.

Lemma digits_of_2_spec v : 0 < v -> digits_of 2 v = digits_be 2 (Z.to_nat (Z.log2 v + 1)) v.
Proof.
  intros Hv. pose proof (Z.log2_nonneg v) as Hl. pose proof (log2_digits v Hv) as Hd.
  set (n := Z.to_nat (Z.log2 v + 1)) in *.
  rewrite <- (from_digits_digits_be_small 2 n v) at 1 by (try exact Hd; lia).
  apply digits_of_unique; [lia|apply digits_be_range; lia|].
  right. assert (n = S (Z.to_nat (Z.log2 v))) as -> by (unfold n; lia).
  rewrite digits_be_S_cons. eexists _, _. split; [reflexivity|].
  rewrite Z2Nat.id by lia. pose proof (Z.log2_spec v Hv) as [Hlo Hhi].
  rewrite Z.pow_succ_r in Hhi by lia.
  assert (v / 2 ^ Z.log2 v = 1).
  { assert (0 < 2 ^ Z.log2 v) by (apply Z.pow_pos_nonneg; lia).
    symmetry. apply Z.div_unique with (r := v - 2 ^ Z.log2 v); lia. }
  rewrite H. reflexivity.
Qed.

Lemma py_bin_spec v : 0 <= v -> py_bin v = spec_bin v.
Proof.
  intros Hv. unfold py_bin, spec_bin. destruct (Z.ltb_spec v 0) as [|_]; [lia|].
  f_equal. destruct (Z.eqb_spec v 0) as [->|Hnz]; [reflexivity|].
  f_equal. rewrite fmt_nat_eq. unfold spec_bin_fixed. rewrite digits_of_2_spec by lia.
  apply map_fmt_digit_bits. apply digits_be_range. lia.
Qed.

Lemma spec_bin_body_length v w : 0 < w -> 0 <= v < 2 ^ w ->
  (1 <= List.length (if (v =? 0)%Z then ["0"%char] else spec_bin_fixed (Z.to_nat (Z.log2 v + 1)%Z) v) <= Z.to_nat w)%nat.
Proof.
  intros Hw Hv. destruct (Z.eqb_spec v 0) as [->|Hnz].
  - cbn [List.length]. lia.
  - rewrite spec_bin_fixed_length. pose proof (Z.log2_nonneg v).
    assert (Z.log2 v < w) by (apply Z.log2_lt_pow2; lia). lia.
Qed.

Lemma int_to_bin_spec v w : 0 < w -> 0 <= v < 2 ^ w -> int_to_bin v w = Ok (spec_bin v).
Proof.
  intros Hw Hv. unfold int_to_bin. rewrite py_bin_spec by lia. unfold spec_bin. rewrite drop2_0b.
  pose proof (spec_bin_body_length v w Hw Hv) as HL. unfold str_len.
  destruct (Z.eqb_spec v 0) as [->|Hnz].
  - cbn [String.length] in *. cbn [List.length] in HL.
    match goal with |- (if ?a >? ?b then _ else _) = _ => destruct (Z.gtb_spec a b); [lia|reflexivity] end.
  - rewrite length_str_of.
    match goal with |- (if ?a >? ?b then _ else _) = _ => destruct (Z.gtb_spec a b); [lia|reflexivity] end.
Qed.

(* ------------------------------------------------------------------------------------------------ *)
(* struct / packed *)
Lemma be_bytes_spec n v : be_bytes n v = digits_be 256 n v.
Proof.
  revert v. induction n as [|n IH]; intros v; [reflexivity|].
  cbn [be_bytes]. now rewrite IH, digits_be_S_snoc by lia.
Qed.

Lemma struct_pack_uniform k l : Forall (fun v => 0 <= v < 256 ^ Z.of_nat k) l ->
  struct_pack (repeat k (List.length l)) l = Ok (flat_map (digits_be 256 k) l).
Proof.
  intros HF. induction HF as [|v l Hv HF IH]; [reflexivity|].
  cbn [List.length repeat struct_pack flat_map].
  destruct ((0 <=? v) && (v <? 256 ^ Z.of_nat k)) eqn:E; [|lia].
  rewrite IH. cbn [bind]. now rewrite be_bytes_spec.
Qed.

Lemma struct_pack_raises_range k l : ~ Forall (fun v => 0 <= v < 256 ^ Z.of_nat k) l ->
  struct_pack (repeat k (List.length l)) l = Raise StructError.
Proof.
  induction l as [|v l IH]; intros H; [exfalso; apply H; constructor|].
  cbn [List.length repeat struct_pack].
  destruct ((0 <=? v) && (v <? 256 ^ Z.of_nat k)) eqn:E; [|reflexivity].
  rewrite IH; [reflexivity|]. intros HF. apply H. constructor; [lia|exact HF].
Qed.

Lemma from_be_spec l acc : from_be l acc = fold_left (dstep 256) l acc.
Proof. revert acc. induction l as [|b l IH]; intros acc; [reflexivity|]. cbn [from_be fold_left]. now rewrite IH. Qed.

Lemma from_be_0 l : from_be l 0 = from_digits 256 l.
Proof. now rewrite from_be_spec, from_digits_fold. Qed.

Lemma split_fields_uniform k L rest : Forall (fun x => 0 <= x < 256 ^ Z.of_nat k) L ->
  split_fields (repeat k (List.length L)) (flat_map (digits_be 256 k) L ++ rest) = L.
Proof.
  intros HF. induction HF as [|x L Hx HF IH]; [reflexivity|].
  cbn [List.length repeat split_fields flat_map]. rewrite <- app_assoc.
  rewrite firstn_app, digits_be_length, Nat.sub_diag, firstn_O, app_nil_r.
  rewrite firstn_all2 by (rewrite digits_be_length; lia).
  rewrite skipn_app, digits_be_length, Nat.sub_diag, skipn_O.
  rewrite skipn_all2 by (rewrite digits_be_length; lia). cbn [app].
  rewrite IH. f_equal. rewrite from_be_0. apply from_digits_digits_be_small; [lia|exact Hx].
Qed.

Lemma sum_repeat k n : fold_right Nat.add O (repeat k n) = (k * n)%nat.
Proof. induction n as [|n IH]; cbn [repeat fold_right]; lia. Qed.

(* unpacking n fields of k bytes from a buffer of k*n bytes (each 0..255) *)
Lemma struct_unpack_uniform k n buf : 0 <= 0 -> List.length buf = (k * n)%nat ->
  Forall (fun b => 0 <= b < 256) buf ->
  struct_unpack (repeat k n) buf = Ok (digits_be (256 ^ Z.of_nat k) n (from_digits 256 buf)).
Proof.
  intros _ Hlen HF. unfold struct_unpack. rewrite sum_repeat, Hlen, Nat.eqb_refl. f_equal.
  set (v := from_digits 256 buf).
  assert (Hbuf : buf = digits_be 256 (k * n) v).
  { unfold v. rewrite <- Hlen. symmetry. apply digits_be_unique; [lia|exact HF]. }
  rewrite Hbuf at 1. rewrite <- digits_be_flat by lia.
  rewrite <- (app_nil_r (flat_map _ _)).
  rewrite <- (digits_be_length (256 ^ Z.of_nat k) n v) at 1.
  apply split_fields_uniform. apply digits_be_range. apply Zpow_nat_pos. lia.
Qed.

Lemma struct_unpack_raises sizes buf : List.length buf <> fold_right Nat.add O sizes ->
  struct_unpack sizes buf = Raise StructError.
Proof. intros H. unfold struct_unpack. apply Nat.eqb_neq in H. now rewrite H. Qed.

Lemma spec_packed_eq w v : spec_packed w v = digits_be 256 (Z.to_nat (w / 8)) v.
Proof. reflexivity. Qed.

Lemma ipv4_int_to_packed_spec v : 0 <= v < 2 ^ 32 -> ipv4_int_to_packed v = Ok (spec_packed 32 v).
Proof.
  intros Hv. unfold ipv4_int_to_packed. change [4%nat] with (repeat 4%nat (List.length [v])).
  rewrite struct_pack_uniform by (constructor; [exact Hv|constructor]).
  cbn [flat_map]. now rewrite app_nil_r.
Qed.

Lemma ipv6_int_to_packed_spec v : 0 <= v < 2 ^ 128 -> ipv6_int_to_packed v = Ok (spec_packed 128 v).
Proof.
  intros Hv. unfold ipv6_int_to_packed. rewrite int_to_words_spec by (try lia; exact Hv). cbn [bind].
  replace [4%nat; 4%nat; 4%nat; 4%nat] with (repeat 4%nat (List.length (spec_words 32 4 v)))
    by (rewrite spec_words_length; reflexivity).
  rewrite struct_pack_uniform by (apply (spec_words_range 32 4 v); lia).
  unfold spec_words. change (2 ^ 32) with (256 ^ Z.of_nat 4). rewrite digits_be_flat by lia. reflexivity.
Qed.

Lemma eui48_int_to_packed_spec v : 0 <= v < 2 ^ 48 -> eui48_int_to_packed v = Ok (spec_packed 48 v).
Proof.
  intros Hv. unfold eui48_int_to_packed. cbn [struct_pack].
  rewrite Z.shiftr_div_pow2 by lia. change 4294967295 with (2 ^ 32 - 1). rewrite land_ones_mod by lia.
  assert (0 <= v / 2 ^ 32 < 256 ^ Z.of_nat 2).
  { split; [apply Z.div_pos; lia|]. apply Z.div_lt_upper_bound; [lia|]. change (2 ^ 32 * 256 ^ Z.of_nat 2) with (2 ^ 48). lia. }
  pose proof (Z.mod_pos_bound v (2 ^ 32) ltac:(lia)).
  destruct ((0 <=? v / 2 ^ 32) && (v / 2 ^ 32 <? 256 ^ Z.of_nat 2)) eqn:E1; [|lia].
  change (256 ^ Z.of_nat 4) with (2 ^ 32).
  destruct ((0 <=? v mod 2 ^ 32) && (v mod 2 ^ 32 <? 2 ^ 32)) eqn:E2; [|lia].
  cbn [bind]. rewrite app_nil_r, !be_bytes_spec. f_equal.
  change (2 ^ 32) with (256 ^ Z.of_nat 4). rewrite digits_be_mod by lia.
  rewrite spec_packed_eq. change (Z.to_nat (48 / 8)) with (2 + 4)%nat. now rewrite digits_be_app by lia.
Qed.

Lemma eui64_int_to_packed_spec dflt v : d_ws dflt = 8 -> d_nw dflt = 8 -> 0 <= v < 2 ^ 64 ->
  eui64_int_to_packed dflt v = Ok (spec_packed 64 v).
Proof.
  intros E1 E2 Hv. unfold eui64_int_to_packed. rewrite E1, E2.
  rewrite int_to_words_spec by (try lia; exact Hv). cbn [bind].
  replace (repeat 1%nat 8) with (repeat 1%nat (List.length (spec_words 8 8 v)))
    by (rewrite spec_words_length; reflexivity).
  change [1%nat; 1%nat; 1%nat; 1%nat; 1%nat; 1%nat; 1%nat; 1%nat] with (repeat 1%nat 8).
  replace (repeat 1%nat 8) with (repeat 1%nat (List.length (spec_words 8 8 v)))
    by (rewrite spec_words_length; reflexivity).
  rewrite struct_pack_uniform by (apply (spec_words_range 8 8 v); lia).
  unfold spec_words. change (2 ^ 8) with (256 ^ Z.of_nat 1). rewrite digits_be_flat by lia. reflexivity.
Qed.

Lemma int_to_bytes_spec n v : 0 <= v < 256 ^ Z.of_nat n -> int_to_bytes n v = Ok (digits_be 256 n v).
Proof.
  intros Hv. unfold int_to_bytes. destruct ((0 <=? v) && (v <? 256 ^ Z.of_nat n)) eqn:E; [|lia].
  now rewrite be_bytes_spec.
Qed.
