(* Proofs/GenOk_Src_C01.v — source tie for C01: the definitions regenerated from the text of netaddr/fbsocket.py
   (Gen/pysrc_fbsocket_gen.v) equal the hand-written model of Model/FbSocket.v that the theorems of Props/C01.v are about.
   Text is a Coq string, a packed address is the list of its byte values; struct.pack / unpack are Codec.struct_pack /
   struct_unpack, int(s) / int(s, 16) is Base/PyStr.py_int, `c in '0123..'` is the substring test py_str_in. *)
From Coq Require Import String Ascii.
From NV Require Import Base.Tac Base.PyVal Base.PyStr Base.PyStrFacts Model.IpText Model.FbSocket Model.SrcPrelude Model.SrcPreludeStr
  Model.SrcPreludeText Gen.pysrc_fbsocket_gen.
From NV Require Model.Codec.
Import ListNotations.
Close Scope string_scope.
Open Scope list_scope.
Open Scope Z_scope.

(* ---------------------------------------------------------------- inet_ntoa *)
Lemma src_inet_ntoa_ok o : src_fbsocket_inet_ntoa o = Fb.inet_ntoa o.
Proof.
  unfold src_fbsocket_inet_ntoa.
  destruct o as [|a [|b [|c [|d [|e r]]]]]; try reflexivity.
  cbn [List.length]. case_eqb (Z.of_nat (S (S (S (S (S (List.length r))))))) 4; [lia|reflexivity].
Qed.

(* ---------------------------------------------------------------- `char in '<digits>'` for a one-character string *)
Lemma py_str_in_char c s : py_str_in (py_char_str c) s = contains_char c s.
Proof.
  unfold py_str_in, contains_char. cbn [py_char_str chars]. induction (chars s) as [|b r IH]; [reflexivity|].
  cbn [py_substr_chars starts_with_chars existsb]. rewrite IH, andb_true_r. reflexivity.
Qed.

(* ---------------------------------------------------------------- _is_hextet *)
Lemma src_is_hextet_loop_ok l :
  src_fbsocket__is_hextet_loop1 (map py_char_str l) =
  if forallb (fun c => contains_char c Fb.hex_chars) l then inr tt else inl false.
Proof.
  induction l as [|c r IH]; [reflexivity|]. cbn [map src_fbsocket__is_hextet_loop1 forallb]. rewrite py_str_in_char.
  change "0123456789abcdefABCDEF"%string with Fb.hex_chars. destruct (contains_char c Fb.hex_chars); [exact IH|reflexivity].
Qed.

Lemma src_is_hextet_ok t : src_fbsocket__is_hextet t = Fb.is_hextet t.
Proof.
  unfold src_fbsocket__is_hextet, Fb.is_hextet, py_list_of_str. rewrite src_is_hextet_loop_ok.
  destruct (1 <=? str_len t), (str_len t <=? 4), (forallb _ (chars t)); reflexivity.
Qed.

(* ---------------------------------------------------------------- _inet_pton_af_inet *)
Lemma src_pton4_loop2_ok l :
  src_fbsocket__inet_pton_af_inet_loop2 (map py_char_str l) =
  if forallb (fun c => contains_char c Fb.dec_chars) l then Ok tt else Raise ValueError.
Proof.
  induction l as [|c r IH]; [reflexivity|]. cbn [map src_fbsocket__inet_pton_af_inet_loop2 forallb]. rewrite py_str_in_char.
  change "0123456789"%string with Fb.dec_chars. destruct (contains_char c Fb.dec_chars); [exact IH|reflexivity].
Qed.

Lemma pack_B_ok v : Z.shiftr v 8 = 0 -> py_struct_pack [1%nat] [v] = Ok [v].
Proof.
  intros H. rewrite Z.shiftr_div_pow2 in H by lia. change (2 ^ 8) with 256 in H.
  assert (R : 0 <= v < 256) by (apply Z.div_small_iff in H; lia).
  unfold py_struct_pack. cbn [Codec.struct_pack]. change (256 ^ Z.of_nat 1) with 256.
  replace ((0 <=? v) && (v <? 256)) with true by lia. cbn [bind Codec.be_bytes app].
  rewrite Z.mod_small by lia. reflexivity.
Qed.

Lemma src_pton4_loop1_ok : forall xs words,
  src_fbsocket__inet_pton_af_inet_loop1 xs words =
  (do r <- Fb.map_out Fb.pton4_octet xs; Ok (words ++ map (fun o => [o]) r)).
Proof.
  induction xs as [|t r IH]; intros words.
  - cbn [src_fbsocket__inet_pton_af_inet_loop1 Fb.map_out bind map]. rewrite app_nil_r. reflexivity.
  - cbn [src_fbsocket__inet_pton_af_inet_loop1 Fb.map_out]. cbv zeta. unfold Fb.pton4_octet at 1.
    rewrite Z.gtb_ltb.
    destruct (starts_with "0x" t || starts_with "0" t && (1 <? str_len t)); [reflexivity|].
    destruct (negb ((1 <=? str_len t) && (str_len t <=? 3))); [reflexivity|].
    unfold py_list_of_str. rewrite src_pton4_loop2_ok.
    destruct (forallb (fun c => contains_char c Fb.dec_chars) (chars t)); cbn [negb bind]; [|reflexivity].
    unfold py_int_base_o. destruct (py_int 10 t) as [octet|]; cbn [bind py_except exn_eqb]; [|reflexivity].
    case_eqb (Z.shiftr octet 8) 0; cbn [negb bind]; [|reflexivity].
    rewrite pack_B_ok by assumption. cbn [bind]. rewrite IH.
    destruct (Fb.map_out Fb.pton4_octet r) as [ys|e2]; [|reflexivity]. cbn [bind map]. rewrite <- app_assoc. reflexivity.
Qed.

Lemma concat_singletons (l : list Z) : List.concat (map (fun o => [o]) l) = l.
Proof. induction l as [|x r IH]; [reflexivity|]. cbn [map List.concat app]. rewrite IH. reflexivity. Qed.

Lemma src_inet_pton4_ok s : src_fbsocket__inet_pton_af_inet s = Fb.inet_pton4 s.
Proof.
  unfold src_fbsocket__inet_pton_af_inet, Fb.inet_pton4. cbv zeta.
  destruct (Nat.eqb (List.length (split "." s)) 4) eqn:E.
  - apply Nat.eqb_eq in E. rewrite E. cbn [Z.of_nat Pos.of_succ_nat Pos.succ Z.eqb Pos.eqb]. rewrite src_pton4_loop1_ok.
    destruct (Fb.map_out Fb.pton4_octet (split "." s)) as [r|e]; [|reflexivity]. cbn [bind app].
    unfold py_bytes_join. rewrite concat_singletons. reflexivity.
  - apply Nat.eqb_neq in E. case_eqb (Z.of_nat (List.length (split "." s))) 4; [lia|reflexivity].
Qed.

(* everything the C01 source tie states about netaddr/fbsocket.py (Props/C01_src.v), part 1 *)
Lemma C01_tie_fb1_ok :
  (forall o, src_fbsocket_inet_ntoa o = Fb.inet_ntoa o) /\
  (forall t, src_fbsocket__is_hextet t = Fb.is_hextet t) /\
  (forall s, src_fbsocket__inet_pton_af_inet s = Fb.inet_pton4 s).
Proof. split; [exact src_inet_ntoa_ok|]. split; [exact src_is_hextet_ok|exact src_inet_pton4_ok]. Qed.
