(* Proofs/GenOk_Src_C01.v — source tie for C01: the definitions regenerated from the text of netaddr/fbsocket.py
   (Gen/pysrc_fbsocket_gen.v) equal the hand-written model of Model/FbSocket.v that the theorems of Props/C01.v are about.
   Text is a Coq string, a packed address is the list of its byte values; struct.pack / unpack are Codec.struct_pack /
   struct_unpack, int(s) / int(s, 16) is Base/PyStr.py_int, `c in '0123..'` is the substring test py_str_in. *)
From Coq Require Import String Ascii.
From NV Require Import Base.Tac Base.PyVal Base.PyStr Base.PyStrFacts Model.IpText Model.FbSocket Model.SrcPrelude Model.SrcPreludeStr
  Model.SrcPreludeText Gen.pysrc_fbsocket_gen.
From NV Require Model.Codec.
Import ListNotations.
Close Scope string_scope.
Open Scope list_scope.
Open Scope Z_scope.

(* ---------------------------------------------------------------- inet_ntoa *)
Lemma src_inet_ntoa_ok o : src_fbsocket_inet_ntoa o = Fb.inet_ntoa o.
Proof.
  unfold src_fbsocket_inet_ntoa.
  destruct o as [|a [|b [|c [|d [|e r]]]]]; try reflexivity.
  cbn [List.length]. case_eqb (Z.of_nat (S (S (S (S (S (List.length r))))))) 4; [lia|reflexivity].
Qed.

(* ---------------------------------------------------------------- `char in '<digits>'` for a one-character string *)
Lemma py_str_in_char c s : py_str_in (py_char_str c) s = contains_char c s.
Proof.
  unfold py_str_in, contains_char. cbn [py_char_str chars]. induction (chars s) as [|b r IH]; [reflexivity|].
  cbn [py_substr_chars starts_with_chars existsb]. rewrite IH, andb_true_r. reflexivity.
Qed.

(* ---------------------------------------------------------------- _is_hextet *)
Lemma src_is_hextet_loop_ok l :
  src_fbsocket__is_hextet_loop1 (map py_char_str l) =
  if forallb (fun c => contains_char c Fb.hex_chars) l then inr tt else inl false.
Proof.
  induction l as [|c r IH]; [reflexivity|]. cbn [map src_fbsocket__is_hextet_loop1 forallb]. rewrite py_str_in_char.
  change "0123456789abcdefABCDEF"%string with Fb.hex_chars. destruct (contains_char c Fb.hex_chars); [exact IH|reflexivity].
Qed.

Lemma src_is_hextet_ok t : src_fbsocket__is_hextet t = Fb.is_hextet t.
Proof.
  unfold src_fbsocket__is_hextet, Fb.is_hextet, py_list_of_str. rewrite src_is_hextet_loop_ok.
  destruct (1 <=? str_len t), (str_len t <=? 4), (forallb _ (chars t)); reflexivity.
Qed.

(* ---------------------------------------------------------------- _inet_pton_af_inet *)
Lemma src_pton4_loop2_ok l :
  src_fbsocket__inet_pton_af_inet_loop2 (map py_char_str l) =
  if forallb (fun c => contains_char c Fb.dec_chars) l then Ok tt else Raise ValueError.
Proof.
  induction l as [|c r IH]; [reflexivity|]. cbn [map src_fbsocket__inet_pton_af_inet_loop2 forallb]. rewrite py_str_in_char.
  change "0123456789"%string with Fb.dec_chars. destruct (contains_char c Fb.dec_chars); [exact IH|reflexivity].
Qed.

Lemma pack_B_ok v : Z.shiftr v 8 = 0 -> py_struct_pack [1%nat] [v] = Ok [v].
Proof.
  intros H. rewrite Z.shiftr_div_pow2 in H by lia. change (2 ^ 8) with 256 in H.
  assert (R : 0 <= v < 256) by (apply Z.div_small_iff in H; lia).
  unfold py_struct_pack. cbn [Codec.struct_pack]. change (256 ^ Z.of_nat 1) with 256.
  replace ((0 <=? v) && (v <? 256)) with true by lia. cbn [bind Codec.be_bytes app].
  rewrite Z.mod_small by lia. reflexivity.
Qed.

Lemma src_pton4_loop1_ok : forall xs words,
  src_fbsocket__inet_pton_af_inet_loop1 xs words =
  (do r <- Fb.map_out Fb.pton4_octet xs; Ok (words ++ map (fun o => [o]) r)).
Proof.
  induction xs as [|t r IH]; intros words.
  - cbn [src_fbsocket__inet_pton_af_inet_loop1 Fb.map_out bind map]. rewrite app_nil_r. reflexivity.
  - cbn [src_fbsocket__inet_pton_af_inet_loop1 Fb.map_out]. cbv zeta. unfold Fb.pton4_octet at 1.
    rewrite Z.gtb_ltb.
    destruct (starts_with "0x" t || starts_with "0" t && (1 <? str_len t)); [reflexivity|].
    destruct (negb ((1 <=? str_len t) && (str_len t <=? 3))); [reflexivity|].
    unfold py_list_of_str. rewrite src_pton4_loop2_ok.
    destruct (forallb (fun c => contains_char c Fb.dec_chars) (chars t)); cbn [negb bind]; [|reflexivity].
    unfold py_int_base_o. destruct (py_int 10 t) as [octet|]; cbn [bind py_except exn_eqb]; [|reflexivity].
    case_eqb (Z.shiftr octet 8) 0; cbn [negb bind]; [|reflexivity].
    rewrite pack_B_ok by assumption. cbn [bind]. rewrite IH.
    destruct (Fb.map_out Fb.pton4_octet r) as [ys|e2]; [|reflexivity]. cbn [bind map]. rewrite <- app_assoc. reflexivity.
Qed.

Lemma concat_singletons (l : list Z) : List.concat (map (fun o => [o]) l) = l.
Proof. induction l as [|x r IH]; [reflexivity|]. cbn [map List.concat app]. rewrite IH. reflexivity. Qed.

Lemma src_inet_pton4_ok s : src_fbsocket__inet_pton_af_inet s = Fb.inet_pton4 s.
Proof.
  unfold src_fbsocket__inet_pton_af_inet, Fb.inet_pton4. cbv zeta.
  destruct (Nat.eqb (List.length (split "." s)) 4) eqn:E.
  - apply Nat.eqb_eq in E. rewrite E. cbn [Z.of_nat Pos.of_succ_nat Pos.succ Z.eqb Pos.eqb]. rewrite src_pton4_loop1_ok.
    destruct (Fb.map_out Fb.pton4_octet (split "." s)) as [r|e]; [|reflexivity]. cbn [bind app].
    unfold py_bytes_join. rewrite concat_singletons. reflexivity.
  - apply Nat.eqb_neq in E. case_eqb (Z.of_nat (List.length (split "." s))) 4; [lia|reflexivity].
Qed.

(* ---------------------------------------------------------------- inet_pton(AF_INET6, .) *)
(* The model writes a packed IPv6 address as its 8 big-endian 16-bit words, the generated code as its 16 bytes. *)
Definition word_bytes (w : Z) : list Z := [w / 256; w mod 256].
Definition bytes_of_words (ws : list Z) : list Z := flat_map word_bytes ws.

Lemma py_except_same {A} e (o : outcome A) : py_except e e o = o.
Proof. destruct o as [a|x]; [reflexivity|]. cbn [py_except]. destruct x, e; reflexivity. Qed.

Lemma map_out_length {A B} (f : A -> outcome B) : forall l r, Fb.map_out f l = Ok r -> List.length r = List.length l.
Proof.
  induction l as [|x t IH]; intros r H; cbn [Fb.map_out] in H.
  - injection H as <-. reflexivity.
  - destruct (f x) as [y|e]; [|discriminate]. cbn [bind] in H. destruct (Fb.map_out f t) as [ys|e] eqn:E; [|discriminate].
    cbn [bind] in H. injection H as <-. cbn [List.length]. rewrite (IH ys eq_refl). reflexivity.
Qed.

(* [f(x) for x in l] against the model's map_out when f is the model's function seen through g *)
Lemma py_map_o_omap {A B C} (f : A -> outcome C) (f' : A -> outcome B) (g : B -> C) :
  (forall x, f x = omap g (f' x)) -> forall l, py_map_o f l = omap (map g) (Fb.map_out f' l).
Proof.
  intros H. induction l as [|x t IH]; [reflexivity|]. cbn [py_map_o Fb.map_out]. rewrite H, IH.
  destruct (f' x) as [y|e]; [|reflexivity]. cbn [omap bind]. destruct (Fb.map_out f' t) as [ys|e]; reflexivity.
Qed.

Lemma pack_H_bytes v : py_struct_pack [2%nat] [v] = omap word_bytes (Fb.pack_H v).
Proof.
  unfold py_struct_pack, Fb.pack_H. cbn [Codec.struct_pack]. change (256 ^ Z.of_nat 2) with 65536.
  replace (v <? 65536) with (v <=? 65535) by lia.
  destruct ((0 <=? v) && (v <=? 65535)) eqn:E; [|reflexivity]. cbn [bind omap Codec.be_bytes app]. unfold word_bytes.
  assert (0 <= v <= 65535) by lia. rewrite (Z.mod_small (v / 256)); [reflexivity|].
  split; [apply Z.div_pos; lia|apply Z.div_lt_upper_bound; lia].
Qed.

Lemma pack_hex_bytes t : (do h <- py_int_base_o 16 t; py_struct_pack [2%nat] [h]) = omap word_bytes (Fb.pack_hex t).
Proof. unfold py_int_base_o, Fb.pack_hex. destruct (py_int 16 t) as [v|]; [|reflexivity]. cbn [bind]. apply pack_H_bytes. Qed.

Lemma concat_word_bytes ws : List.concat (map word_bytes ws) = bytes_of_words ws.
Proof. unfold bytes_of_words. rewrite flat_map_concat_map. reflexivity. Qed.

Lemma repeat_zero_words n : List.repeat [0; 0] n = map word_bytes (Std6.zeros n).
Proof. induction n as [|k IH]; [reflexivity|]. cbn [List.repeat Std6.zeros map]. rewrite IH. reflexivity. Qed.

Lemma py_list_item_last {A} (l : list A) z : py_list_item (l ++ [z]) (- 1) = Ok z.
Proof.
  unfold py_list_item. rewrite app_length. cbn [List.length]. set (n := Z.of_nat (List.length l + 1)).
  replace (- 1 <? 0) with true by reflexivity.
  replace ((- 1 + n <? 0) || (n <=? - 1 + n)) with false by lia.
  replace (Z.to_nat (- 1 + n)) with (List.length l) by lia.
  rewrite nth_error_app2 by lia. rewrite Nat.sub_diag. reflexivity.
Qed.

(* l.pop() / l[-1] against the model's pop_last *)
Lemma pop_last_spec {A} : forall (l : list A), l <> [] ->
  exists init last, Fb.pop_last l = Some (init, last) /\ py_pop l = Ok (init, last) /\ py_list_item l (- 1) = Ok last /\ l = init ++ [last].
Proof.
  induction l as [|x r IH]; intros H; [contradiction|]. destruct r as [|y r'].
  - exists [], x. repeat split.
  - destruct (IH ltac:(discriminate)) as (init & last & P1 & P2 & P3 & P4). exists (x :: init), last.
    split; [|split; [|split]].
    + change (Fb.pop_last (x :: y :: r')) with (match Fb.pop_last (y :: r') with Some (i, z) => Some (x :: i, z) | None => None end).
      rewrite P1. reflexivity.
    + change (py_pop (x :: y :: r')) with (do p <- py_pop (y :: r'); Ok (x :: fst p, snd p)). rewrite P2. reflexivity.
    + rewrite P4. change (x :: init ++ [last]) with ((x :: init) ++ [last]). apply py_list_item_last.
    + rewrite P4. reflexivity.
Qed.

(* the dotted-quad tail: tokens.pop() through _inet_pton_af_inet, then two '%x' words read back with _unpack('>H', ..) *)
Lemma src_expand_quad_ok init last :
  (do ipv4_str <- src_fbsocket__inet_pton_af_inet last;
   do h3 <- py_struct_unpack [2%nat] (py_slice (Some 0) (Some 2) ipv4_str);
   do h4 <- py_seq_item 0%nat h3;
   let l1 := init ++ [fmt_x h4] in
   do h5 <- py_struct_unpack [2%nat] (py_slice (Some 2) (Some 4) ipv4_str);
   do h6 <- py_seq_item 0%nat h5;
   let l2 := l1 ++ [fmt_x h6] in
   Ok l2) = Fb.expand_quad init last.
Proof.
  unfold Fb.expand_quad. rewrite src_inet_pton4_ok. destruct (Fb.inet_pton4 last) as [o|e] eqn:E; [|reflexivity]. cbn [bind].
  assert (L : List.length o = 4%nat).
  { unfold Fb.inet_pton4 in E. destruct (Nat.eqb (List.length (split "." last)) 4) eqn:E4; [|discriminate].
    apply Nat.eqb_eq in E4. rewrite (map_out_length _ _ _ E). exact E4. }
  destruct o as [|a [|b [|c [|d [|x r]]]]]; try discriminate. cbv zeta.
  change (py_slice (Some 0) (Some 2) [a; b; c; d]) with [a; b]. change (py_slice (Some 2) (Some 4) [a; b; c; d]) with [c; d].
  change (py_struct_unpack [2%nat] [a; b]) with (Ok [(0 * 256 + a) * 256 + b]).
  change (py_struct_unpack [2%nat] [c; d]) with (Ok [(0 * 256 + c) * 256 + d]).
  cbn [bind py_seq_item nth_error]. change (0 * 256 + a) with a. change (0 * 256 + c) with c.
  rewrite <- app_assoc. reflexivity.
Qed.

Lemma src_pton_loop1_ok xs :
  src_fbsocket_inet_pton_loop1 xs = if forallb Fb.is_hextet xs then Ok tt else Raise ValueError.
Proof.
  induction xs as [|t r IH]; [reflexivity|]. cbn [src_fbsocket_inet_pton_loop1 forallb]. cbv zeta. rewrite src_is_hextet_ok.
  destruct (Fb.is_hextet t); [exact IH|reflexivity].
Qed.
Lemma src_pton_loop3_ok xs :
  src_fbsocket_inet_pton_loop3 xs = if forallb Fb.is_hextet xs then Ok tt else Raise ValueError.
Proof.
  induction xs as [|t r IH]; [reflexivity|]. cbn [src_fbsocket_inet_pton_loop3 forallb]. cbv zeta. rewrite src_is_hextet_ok.
  destruct (Fb.is_hextet t); [exact IH|reflexivity].
Qed.

Lemma src_pton_loop2_ok xs :
  src_fbsocket_inet_pton_loop2 xs = (do _ <- Fb.map_out Fb.check_word xs; Ok tt).
Proof.
  induction xs as [|t r IH]; [reflexivity|]. cbn [src_fbsocket_inet_pton_loop2 Fb.map_out]. cbv zeta.
  unfold py_int_base_o, Fb.check_word at 1. destruct (py_int 16 t) as [v|]; [|reflexivity]. cbn [bind].
  destruct ((0 <=? v) && (v <=? 65535)); cbn [negb bind]; [|reflexivity]. rewrite IH.
  destruct (Fb.map_out Fb.check_word r); reflexivity.
Qed.

(* tokens = [int(token, 16) for token in tokens]; for token in tokens: range test  -- against one pass of check_word *)
Lemma ints16_raises l : (exists r, py_map_o (fun token => py_int_base_o 16 token) l = Ok r) \/
  py_map_o (fun token => py_int_base_o 16 token) l = Raise ValueError.
Proof.
  induction l as [|x t IH]; [left; exists []; reflexivity|]. cbn [py_map_o]. unfold py_int_base_o at 1 3.
  destruct (py_int 16 x) as [v|]; [|right; reflexivity]. cbn [bind].
  destruct IH as [[r E]|E]; rewrite E; [left; exists (v :: r)|right]; reflexivity.
Qed.

Lemma src_pton_words_ok l :
  (do t <- py_map_o (fun token => py_int_base_o 16 token) l; do _ <- src_fbsocket_inet_pton_loop4 t; Ok t) =
  Fb.map_out Fb.check_word l.
Proof.
  induction l as [|x t IH]; [reflexivity|]. cbn [py_map_o Fb.map_out]. unfold py_int_base_o at 1, Fb.check_word at 1.
  destruct (py_int 16 x) as [v|]; [|reflexivity]. cbn [bind]. rewrite <- IH.
  destruct (ints16_raises t) as [(r & E)|E]; rewrite E; cbn [bind src_fbsocket_inet_pton_loop4]; cbv zeta.
  - destruct ((0 <=? v) && (v <=? 65535)); cbn [negb bind]; [|reflexivity].
    destruct (src_fbsocket_inet_pton_loop4 r); reflexivity.
  - destruct ((0 <=? v) && (v <=? 65535)); reflexivity.
Qed.

Lemma src_pton_pack_ok ws :
  (do values <- py_map_o (fun i => py_struct_pack [2%nat] [i]) ws; Ok (py_bytes_join values)) =
  omap bytes_of_words (Fb.map_out Fb.pack_H ws).
Proof.
  rewrite (py_map_o_omap _ Fb.pack_H word_bytes pack_H_bytes).
  destruct (Fb.map_out Fb.pack_H ws) as [r|e]; [|reflexivity]. cbn [omap bind]. unfold py_bytes_join. rewrite concat_word_bytes. reflexivity.
Qed.

(* the part shared by both verbose forms: hextet test, int(token, 16) + range test, packing *)
Lemma src_pton_verbose_tail_ok tokens :
  (do _ <- src_fbsocket_inet_pton_loop3 tokens;
   do tokens' <- py_except ValueError ValueError
     (do t <- py_map_o (fun token => py_int_base_o 16 token) tokens; do _ <- src_fbsocket_inet_pton_loop4 t; Ok t);
   do values <- py_map_o (fun i => py_struct_pack [2%nat] [i]) tokens';
   Ok (py_bytes_join values)) =
  omap bytes_of_words
    (if negb (forallb Fb.is_hextet tokens) then Raise ValueError
     else do words <- Fb.map_out Fb.check_word tokens; Fb.map_out Fb.pack_H words).
Proof.
  rewrite src_pton_loop3_ok, py_except_same, src_pton_words_ok.
  destruct (forallb Fb.is_hextet tokens); cbn [negb bind]; [|reflexivity].
  destruct (Fb.map_out Fb.check_word tokens) as [ws|e]; [|reflexivity]. cbn [bind]. apply src_pton_pack_ok.
Qed.

Lemma src_inet_pton6_ok s : src_fbsocket_inet_pton 10 s = omap bytes_of_words (Fb.inet_pton6 s).
Proof.
  unfold src_fbsocket_inet_pton, Fb.inet_pton6. change (10 =? src_fbsocket_AF_INET) with false. change (10 =? src_fbsocket_AF_INET6) with true.
  cbv iota. cbv zeta. change (contains_char "x" s) with (contains_char ch_x s).
  destruct (contains_char ch_x s); [reflexivity|].
  unfold py_contains_dc. destruct (contains_dc_chars (chars s)).
  - destruct (String.eqb s "::"); [reflexivity|].
    rewrite py_except_same. unfold py_split_dc.
    destruct (map str_of (split_dc_chars (chars s) [])) as [|prefix [|suffix [|x r]]]; try reflexivity.
    cbn [bind]. unfold Fb.str_nonempty.
    set (l_prefix := if negb (String.eqb prefix "") then split ":" prefix else []).
    set (l_suffix0 := if negb (String.eqb suffix "") then split ":" suffix else []).
    replace (let '(l_prefix0, _) := if negb (String.eqb prefix "") then (split ":" prefix, prefix) else ([], prefix) in _)
      with (let l_prefix0 := l_prefix in
            let '(l_suffix, _) := if negb (String.eqb suffix "") then (split ":" suffix, suffix) else ([], suffix) in
            do h2 <- (if negb (Z.of_nat (List.length l_suffix) =? 0)
                      then do h1 <- py_list_item l_suffix (- 1); Ok (contains_char "." h1) else Ok false);
            do l_suffix1 <-
              (if h2
               then do (l_suffix1, l_suffix__popped) <- py_pop l_suffix;
                    do ipv4_str <- src_fbsocket__inet_pton_af_inet l_suffix__popped;
                    do h3 <- py_struct_unpack [2%nat] (py_slice (Some 0) (Some 2) ipv4_str);
                    do h4 <- py_seq_item 0%nat h3;
                    let l_suffix2 := l_suffix1 ++ [fmt_x h4] in
                    do h5 <- py_struct_unpack [2%nat] (py_slice (Some 2) (Some 4) ipv4_str);
                    do h6 <- py_seq_item 0%nat h5;
                    let l_suffix3 := l_suffix2 ++ [fmt_x h6] in
                    Ok l_suffix3
               else Ok l_suffix);
            let token_count := Z.of_nat (List.length l_prefix0) + Z.of_nat (List.length l_suffix1) in
            if negb ((0 <=? token_count) && (token_count <=? 8 - 1)) then Raise ValueError
            else
              do _ <- src_fbsocket_inet_pton_loop1 (l_prefix0 ++ l_suffix1);
              let gap_size := 8 - (Z.of_nat (List.length l_prefix0) + Z.of_nat (List.length l_suffix1)) in
              do h8 <- py_map_o (fun i => do h7 <- py_int_base_o 16 i; py_struct_pack [2%nat] [h7]) l_prefix0;
              do h10 <- py_map_o (fun i => do h9 <- py_int_base_o 16 i; py_struct_pack [2%nat] [h9]) l_suffix1;
              let values := (h8 ++ List.repeat [0; 0] (Z.to_nat gap_size)) ++ h10 in
              do _ <- py_except ValueError ValueError (do _ <- src_fbsocket_inet_pton_loop2 (l_prefix0 ++ l_suffix1); Ok tt);
              Ok (py_bytes_join values))
      by (subst l_prefix; destruct (negb (String.eqb prefix "")); reflexivity).
    cbv zeta.
    replace (let '(l_suffix, _) := if negb (String.eqb suffix "") then (split ":" suffix, suffix) else ([], suffix) in _)
      with (let l_suffix := l_suffix0 in
            do h2 <- (if negb (Z.of_nat (List.length l_suffix) =? 0)
                      then do h1 <- py_list_item l_suffix (- 1); Ok (contains_char "." h1) else Ok false);
            do l_suffix1 <-
              (if h2
               then do (l_suffix1, l_suffix__popped) <- py_pop l_suffix;
                    do ipv4_str <- src_fbsocket__inet_pton_af_inet l_suffix__popped;
                    do h3 <- py_struct_unpack [2%nat] (py_slice (Some 0) (Some 2) ipv4_str);
                    do h4 <- py_seq_item 0%nat h3;
                    let l_suffix2 := l_suffix1 ++ [fmt_x h4] in
                    do h5 <- py_struct_unpack [2%nat] (py_slice (Some 2) (Some 4) ipv4_str);
                    do h6 <- py_seq_item 0%nat h5;
                    let l_suffix3 := l_suffix2 ++ [fmt_x h6] in
                    Ok l_suffix3
               else Ok l_suffix);
            let token_count := Z.of_nat (List.length l_prefix) + Z.of_nat (List.length l_suffix1) in
            if negb ((0 <=? token_count) && (token_count <=? 8 - 1)) then Raise ValueError
            else
              do _ <- src_fbsocket_inet_pton_loop1 (l_prefix ++ l_suffix1);
              let gap_size := 8 - (Z.of_nat (List.length l_prefix) + Z.of_nat (List.length l_suffix1)) in
              do h8 <- py_map_o (fun i => do h7 <- py_int_base_o 16 i; py_struct_pack [2%nat] [h7]) l_prefix;
              do h10 <- py_map_o (fun i => do h9 <- py_int_base_o 16 i; py_struct_pack [2%nat] [h9]) l_suffix1;
              let values := (h8 ++ List.repeat [0; 0] (Z.to_nat gap_size)) ++ h10 in
              do _ <- py_except ValueError ValueError (do _ <- src_fbsocket_inet_pton_loop2 (l_prefix ++ l_suffix1); Ok tt);
              Ok (py_bytes_join values))
      by (subst l_suffix0; destruct (negb (String.eqb suffix "")); reflexivity).
    cbv zeta. clearbody l_prefix l_suffix0.
    (* the dotted tail of the suffix *)
    assert (T : (do h2 <- (if negb (Z.of_nat (List.length l_suffix0) =? 0)
                           then do h1 <- py_list_item l_suffix0 (- 1); Ok (contains_char "." h1) else Ok false);
                 if h2
                 then do (l_suffix1, l_suffix__popped) <- py_pop l_suffix0;
                      do ipv4_str <- src_fbsocket__inet_pton_af_inet l_suffix__popped;
                      do h3 <- py_struct_unpack [2%nat] (py_slice (Some 0) (Some 2) ipv4_str);
                      do h4 <- py_seq_item 0%nat h3;
                      let l_suffix2 := l_suffix1 ++ [fmt_x h4] in
                      do h5 <- py_struct_unpack [2%nat] (py_slice (Some 2) (Some 4) ipv4_str);
                      do h6 <- py_seq_item 0%nat h5;
                      let l_suffix3 := l_suffix2 ++ [fmt_x h6] in
                      Ok l_suffix3
                 else Ok l_suffix0) =
                match Fb.pop_last l_suffix0 with
                | Some (init, last) => if contains_char ch_dot last then Fb.expand_quad init last else Ok l_suffix0
                | None => Ok l_suffix0
                end).
    { destruct l_suffix0 as [|y r']; [reflexivity|].
      destruct (pop_last_spec (y :: r') ltac:(discriminate)) as (init & last & P1 & P2 & P3 & P4).
      rewrite P1, P3. replace (Z.of_nat (List.length (y :: r')) =? 0) with false by (cbn [List.length]; lia).
      cbn [negb bind]. change (contains_char "." last) with (contains_char ch_dot last).
      destruct (contains_char ch_dot last); [|reflexivity]. rewrite P2. cbn [bind]. apply src_expand_quad_ok. }
    match goal with |- bind ?h2 (fun h => bind (if h then ?a else ?b) ?k) = _ =>
      transitivity (bind (bind h2 (fun h => if h then a else b)) k) end.
    { destruct (if negb (Z.of_nat (List.length l_suffix0) =? 0) then _ else _) as [h|e]; reflexivity. }
    cbv zeta in T. rewrite T. clear T.
    destruct (match Fb.pop_last l_suffix0 with Some _ => _ | None => _ end) as [l_suffix|e]; [|reflexivity]. cbn [bind].
    replace (negb ((0 <=? Z.of_nat (List.length l_prefix) + Z.of_nat (List.length l_suffix)) &&
                   (Z.of_nat (List.length l_prefix) + Z.of_nat (List.length l_suffix) <=? 8 - 1)))
      with (negb (Nat.leb (List.length l_prefix + List.length l_suffix) 7)).
    2:{ destruct (Nat.leb (List.length l_prefix + List.length l_suffix) 7) eqn:E; [apply Nat.leb_le in E|apply Nat.leb_gt in E]; lia. }
    destruct (Nat.leb (List.length l_prefix + List.length l_suffix) 7) eqn:E7; cbn [negb]; [|reflexivity].
    rewrite src_pton_loop1_ok. destruct (forallb Fb.is_hextet (l_prefix ++ l_suffix)); cbn [negb bind]; [|reflexivity].
    rewrite !(py_map_o_omap _ Fb.pack_hex word_bytes pack_hex_bytes).
    destruct (Fb.map_out Fb.pack_hex l_prefix) as [vp|e]; [|reflexivity]. cbn [omap bind].
    destruct (Fb.map_out Fb.pack_hex l_suffix) as [vs|e]; [|reflexivity]. cbn [omap bind].
    rewrite py_except_same, src_pton_loop2_ok.
    destruct (Fb.map_out Fb.check_word (l_prefix ++ l_suffix)) as [chk|e]; [|reflexivity]. cbn [bind omap].
    apply Nat.leb_le in E7. unfold py_bytes_join. f_equal.
    replace (Z.to_nat (8 - (Z.of_nat (List.length l_prefix) + Z.of_nat (List.length l_suffix)))) with (8 - (List.length l_prefix + List.length l_suffix))%nat by lia.
    rewrite repeat_zero_words, <- !map_app, concat_word_bytes, <- app_assoc. reflexivity.
  - change (contains_char ":" s) with (contains_char ch_colon s). destruct (contains_char ch_colon s); [|reflexivity].
    change (contains_char "." s) with (contains_char ch_dot s). destruct (contains_char ch_dot s).
    + replace (Z.of_nat (List.length (split ":" s)) =? 7) with (Nat.eqb (List.length (split ":" s)) 7).
      2:{ destruct (Nat.eqb (List.length (split ":" s)) 7) eqn:E; [apply Nat.eqb_eq in E|apply Nat.eqb_neq in E]; lia. }
      destruct (Nat.eqb (List.length (split ":" s)) 7) eqn:E7; cbn [negb bind]; [|reflexivity].
      assert (NE : split ":" s <> []) by (intros C; rewrite C in E7; discriminate).
      destruct (pop_last_spec _ NE) as (init & last & P1 & P2 & P3 & P4). rewrite P1, P2. cbn [bind].
      pose proof (src_expand_quad_ok init last) as X. cbv zeta in X.
      match goal with |- bind ?a (fun ipv4_str => bind (@?b ipv4_str) (fun h11 => bind (@?c ipv4_str h11) (fun h12 =>
                          bind (@?d ipv4_str h12) (fun h13 => bind (@?e ipv4_str h12 h13) (fun h14 => @?k h12 h14))))) = _ =>
        transitivity (bind (Fb.expand_quad init last) (fun tokens =>
          do _ <- src_fbsocket_inet_pton_loop3 tokens;
          do tokens' <- py_except ValueError ValueError
            (do t <- py_map_o (fun token => py_int_base_o 16 token) tokens; do _ <- src_fbsocket_inet_pton_loop4 t; Ok t);
          do values <- py_map_o (fun i => py_struct_pack [2%nat] [i]) tokens';
          Ok (py_bytes_join values))) end.
      { rewrite <- X. destruct (src_fbsocket__inet_pton_af_inet last) as [q|e]; [|reflexivity]. cbn [bind].
        destruct (py_struct_unpack [2%nat] (py_slice (Some 0) (Some 2) q)) as [h11|e]; [|reflexivity]. cbn [bind].
        destruct (py_seq_item 0 h11) as [h12|e]; [|reflexivity]. cbn [bind].
        destruct (py_struct_unpack [2%nat] (py_slice (Some 2) (Some 4) q)) as [h13|e]; [|reflexivity]. cbn [bind].
        destruct (py_seq_item 0 h13) as [h14|e]; reflexivity. }
      destruct (Fb.expand_quad init last) as [tokens|e]; [|reflexivity]. cbn [bind]. apply src_pton_verbose_tail_ok.
    + replace (Z.of_nat (List.length (split ":" s)) =? 8) with (Nat.eqb (List.length (split ":" s)) 8).
      2:{ destruct (Nat.eqb (List.length (split ":" s)) 8) eqn:E; [apply Nat.eqb_eq in E|apply Nat.eqb_neq in E]; lia. }
      destruct (Nat.eqb (List.length (split ":" s)) 8); cbn [negb bind]; [|reflexivity]. apply src_pton_verbose_tail_ok.
Qed.

Lemma src_inet_pton_af_ok af s :
  src_fbsocket_inet_pton af s =
  if af =? 2 then Fb.inet_pton4 s else if af =? 10 then omap bytes_of_words (Fb.inet_pton6 s) else Raise ValueError.
Proof.
  case_eqb af 2; [subst af; apply src_inet_pton4_ok|]. case_eqb af 10; [subst af; apply src_inet_pton6_ok|].
  unfold src_fbsocket_inet_pton. change src_fbsocket_AF_INET with 2. change src_fbsocket_AF_INET6 with 10.
  replace (af =? 2) with false by lia. replace (af =? 10) with false by lia. reflexivity.
Qed.

(* everything the C01 source tie states about netaddr/fbsocket.py (Props/C01_src.v), part 1 *)
Lemma C01_tie_fb1_ok :
  (forall o, src_fbsocket_inet_ntoa o = Fb.inet_ntoa o) /\
  (forall t, src_fbsocket__is_hextet t = Fb.is_hextet t) /\
  (forall s, src_fbsocket__inet_pton_af_inet s = Fb.inet_pton4 s) /\
  (forall af s, src_fbsocket_inet_pton af s =
                if af =? 2 then Fb.inet_pton4 s else if af =? 10 then omap bytes_of_words (Fb.inet_pton6 s) else Raise ValueError).
Proof. split; [exact src_inet_ntoa_ok|]. split; [exact src_is_hextet_ok|]. split; [exact src_inet_pton4_ok|exact src_inet_pton_af_ok]. Qed.
