(* Proofs/GenOk_Src_C01_text.v — source tie for C01, the text functions of netaddr/strategy/ipv4.py and ipv6.py: the definitions
   regenerated from valid_str / str_to_int / int_to_str (both modules), ipv4.expand_partial_address and ipv6.int_to_arpa
   (Gen/pysrc_ipv4_gen.v, pysrc_ipv6_gen.v) equal the hand-written models of Model/AddrText.v (the v4_ and v6_ functions), Model/NetText.v
   (expand_partial_address) and Model/Codec.v (ipv6_int_to_arpa).
   The back-end (platform `socket` functions or netaddr.fbsocket) is the parameter `be` of both sides; the socket functions are
   the symbols py_inet_aton / py_inet_pton4 / py_inet_pton6 / py_inet_ntop6 of Model/SrcPreludeText.v (= the back-end selection
   of AddrText.v, with a packed IPv6 address seen as 16 bytes instead of 8 words).  `except Exception` catches every Python
   exception class of the model but lets the modelling devices OutOfFuel / Unsupported through (py_except_all, py_except_value);
   the hand models catch everything, so each equality needs the fact that the protected body raises neither (the okpy lemmas). *)
From Coq Require Import String Ascii.
From NV Require Import Base.Tac Base.PyVal Base.PyStr Base.PyStrFacts Model.IpText Model.FbSocket Model.AddrText Model.SrcPrelude
  Model.SrcPreludeStr Model.SrcPreludeText Gen.pysrc_gen Gen.pysrc_strategy_gen Gen.pysrc_ipv4_gen Gen.pysrc_ipv6_gen
  Proofs.GenOk_Src_C15 Proofs.GenOk_Src_C15_ip Proofs.GenOk_Src_C01.
From NV Require Proofs.C01.
From NV Require Import Proofs.C01_V6.
From NV Require Model.Codec Model.NetText.
Import ListNotations.
Close Scope string_scope.
Open Scope list_scope.
Open Scope Z_scope.

(* ---------------------------------------------------------------- outcomes that raise Python exceptions only *)
Definition pyexn (e : exn) : bool := match e with OutOfFuel | Unsupported => false | _ => true end.
Definition okpy {A} (o : outcome A) : Prop := match o with Ok _ => True | Raise e => pyexn e = true end.

Lemma okpy_bind {A B} (o : outcome A) (f : A -> outcome B) : okpy o -> (forall a, okpy (f a)) -> okpy (bind o f).
Proof. destruct o as [a|e]; intros H1 H2; [apply H2|exact H1]. Qed.

Lemma okpy_map_out {A B} (f : A -> outcome B) l : (forall x, okpy (f x)) -> okpy (Fb.map_out f l).
Proof.
  intros H. induction l as [|x r IH]; [exact I|]. cbn [Fb.map_out]. apply okpy_bind; [apply H|]. intros y.
  apply okpy_bind; [exact IH|]. intros ys. exact I.
Qed.

Lemma okpy_of_option {A} (o : option A) : okpy (of_option o).
Proof. destruct o; [exact I|reflexivity]. Qed.

Lemma except_all_okpy {A} e (o : outcome A) : okpy o -> py_except_all e o = match o with Ok a => Ok a | Raise _ => Raise e end.
Proof. destruct o as [a|x]; [reflexivity|]. destruct x; cbn [okpy pyexn]; intros H; try reflexivity; discriminate. Qed.

Lemma except_value_okpy {A} d (o : outcome A) : okpy o -> py_except_value d o = match o with Ok a => Ok a | Raise _ => Ok d end.
Proof. destruct o as [a|x]; [reflexivity|]. destruct x; cbn [okpy pyexn]; intros H; try reflexivity; discriminate. Qed.

Ltac okpy_tac := repeat first
  [ exact I | reflexivity | apply okpy_of_option
  | apply okpy_bind; [|intros ?]
  | apply okpy_map_out; intros ?
  | match goal with |- okpy (if ?c then _ else _) => destruct c end
  | match goal with |- okpy (match ?x with _ => _ end) => destruct x end ].

Lemma okpy_pton4_octet t : okpy (Fb.pton4_octet t).
Proof. unfold Fb.pton4_octet. okpy_tac. Qed.
Lemma okpy_fb_pton4 s : okpy (Fb.inet_pton4 s).
Proof. unfold Fb.inet_pton4. destruct (Nat.eqb _ 4); [apply okpy_map_out, okpy_pton4_octet|reflexivity]. Qed.
Lemma okpy_pton4 be s : okpy (inet_pton4 be s).
Proof. destruct be; [apply okpy_of_option|apply okpy_fb_pton4]. Qed.

(* inet_pton(AF_INET, s) answers 4 bytes on both back-ends *)
Lemma map_opt_length {A B} (f : A -> option B) : forall l r, map_opt f l = Some r -> List.length r = List.length l.
Proof.
  induction l as [|x t IH]; intros r H; cbn [map_opt] in H.
  - injection H as <-. reflexivity.
  - destruct (f x) as [y|]; [|discriminate]. destruct (map_opt f t) as [ys|]; [|discriminate]. injection H as <-.
    cbn [List.length]. rewrite (IH ys eq_refl). reflexivity.
Qed.

Lemma pton4_four be s p : inet_pton4 be s = Ok p -> exists a b c d, p = [a; b; c; d].
Proof.
  intros H. assert (L : List.length p = 4%nat).
  { destruct be; cbn [inet_pton4] in H.
    - unfold Std4.pton4, Std4.pton4_chars in H. destruct (Nat.eqb (List.length (split_chars ch_dot (chars s) [])) 4) eqn:E4; [|discriminate].
      destruct (map_opt Std4.octet _) as [r|] eqn:E; [|discriminate]. injection H as <-.
      rewrite (map_opt_length _ _ _ E). apply Nat.eqb_eq, E4.
    - unfold Fb.inet_pton4 in H. destruct (Nat.eqb (List.length (split "." s)) 4) eqn:E4; [|discriminate].
      rewrite (map_out_length _ _ _ H). apply Nat.eqb_eq, E4. }
  destruct p as [|a [|b [|c [|d [|e r]]]]]; try discriminate. exists a, b, c, d. reflexivity.
Qed.

(* ---------------------------------------------------------------- [f(x) for x in l] = the model's map_out *)
Lemma py_map_o_map_out {A B} (f g : A -> outcome B) : (forall x, f x = g x) -> forall l, py_map_o f l = Fb.map_out g l.
Proof. intros H. induction l as [|x r IH]; [reflexivity|]. cbn [py_map_o Fb.map_out]. rewrite H, IH. reflexivity. Qed.

(* ---------------------------------------------------------------- strategy/ipv4.py *)
(* '.'.join(['%d' % int(i) for i in addr.split('.')]) under `if flags & ZEROFILL` *)
Lemma src_zerofill_ok addr flags :
  (if negb (Z.land flags src_ipv4_ZEROFILL =? 0)
   then do h2 <- py_map_o (fun i => do h1 <- py_int_base_o 10 i; Ok (fmt_d h1)) (split "." addr); Ok (join "."%string h2)
   else Ok addr) =
  (if has_flag flags ZEROFILL then zerofill_rewrite addr else Ok addr).
Proof.
  change (negb (Z.land flags src_ipv4_ZEROFILL =? 0)) with (has_flag flags ZEROFILL). destruct (has_flag flags ZEROFILL); [|reflexivity].
  unfold zerofill_rewrite. rewrite (py_map_o_map_out _ (fun i => match py_int 10 i with Some n => Ok (fmt_d n) | None => Raise ValueError end)).
  - reflexivity.
  - intros x. unfold py_int_base_o. destruct (py_int 10 x); reflexivity.
Qed.

Lemma okpy_zerofill addr flags : okpy (if has_flag flags ZEROFILL then zerofill_rewrite addr else Ok addr).
Proof. unfold zerofill_rewrite. okpy_tac. Qed.

(* struct.unpack('>I', p)[0] on the model's 4 octets *)
Lemma src_unpack_I_ok p : (do h <- py_struct_unpack [4%nat] p; py_seq_item 0%nat h) = unpack_I p.
Proof. destruct p as [|a [|b [|c [|d [|e r]]]]]; reflexivity. Qed.

(* struct.unpack('>I', socket.inet_aton(s))[0] is the value itself: the bytes are Std4.octets_of *)
Lemma from_octets_of v : Codec.from_be (Std4.octets_of v) 0 = v.
Proof. unfold Std4.octets_of. cbn [Codec.from_be]. lia_dm. Qed.

Lemma src_aton_ok s : (do h5 <- py_inet_aton s; do h6 <- py_struct_unpack [4%nat] h5; py_seq_item 0%nat h6) = of_option (Std4.aton s).
Proof.
  unfold py_inet_aton. destruct (Std4.aton s) as [v|]; [|reflexivity]. cbn [of_option omap bind].
  change (py_struct_unpack [4%nat] (Std4.octets_of v)) with (Ok [Codec.from_be (Std4.octets_of v) 0] : outcome (list Z)).
  cbn [bind py_seq_item nth_error]. rewrite from_octets_of. reflexivity.
Qed.

Lemma okpy_unpack_I p : okpy (unpack_I p).
Proof. destruct p as [|a [|b [|c [|d [|e r]]]]]; try reflexivity; try exact I. Qed.

Lemma okpy_v4_parse be addr flags : okpy (v4_parse be addr flags).
Proof.
  unfold v4_parse. apply okpy_bind; [apply okpy_zerofill|]. intros a. destruct (has_flag flags INET_PTON).
  - apply okpy_bind; [apply okpy_pton4|intros p; apply okpy_unpack_I].
  - apply okpy_of_option.
Qed.

Lemma src_ipv4_str_to_int_ok be addr flags : src_ipv4_str_to_int be addr flags = v4_str_to_int be addr flags.
Proof.
  unfold src_ipv4_str_to_int, v4_str_to_int. rewrite src_zerofill_ok.
  replace (bind _ _) with (v4_parse be addr flags).
  - apply except_all_okpy, okpy_v4_parse.
  - unfold v4_parse. destruct (if has_flag flags ZEROFILL then _ else _) as [a|e]; [|reflexivity]. cbn [bind].
    change (negb (Z.land flags src_ipv4_INET_PTON =? 0)) with (has_flag flags INET_PTON). destruct (has_flag flags INET_PTON).
    + unfold py_inet_pton4. destruct (inet_pton4 be a) as [p|e]; [|reflexivity]. cbn [bind]. symmetry. apply src_unpack_I_ok.
    + symmetry. apply src_aton_ok.
Qed.

Lemma src_ipv4_valid_str_ok be addr flags : src_ipv4_valid_str be addr flags = v4_valid_str be addr flags.
Proof.
  unfold src_ipv4_valid_str, v4_valid_str. destruct (String.eqb addr ""); [reflexivity|]. cbv zeta. rewrite src_zerofill_ok.
  change (negb (Z.land flags src_ipv4_INET_PTON =? 0)) with (has_flag flags INET_PTON).
  match goal with |- bind (py_except_value false ?B) _ = _ => set (body := B) end.
  assert (E : body = match v4_parse be addr flags with Ok _ => Ok true | Raise e => Raise e end).
  { subst body. unfold v4_parse. destruct (if has_flag flags ZEROFILL then _ else _) as [a|e]; [|reflexivity]. cbn [bind].
    destruct (has_flag flags INET_PTON).
    - unfold py_inet_pton4. destruct (inet_pton4 be a) as [p|e] eqn:E4; [|reflexivity]. cbn [bind].
      (* the model also unpacks the 4 bytes where the code drops them: unpack_I cannot fail on a 4-byte result *)
      destruct (pton4_four be a p E4) as (x1 & x2 & x3 & x4 & ->). reflexivity.
    - unfold py_inet_aton. destruct (Std4.aton a); reflexivity. }
  rewrite E, except_value_okpy.
  - destruct (v4_parse be addr flags); reflexivity.
  - pose proof (okpy_v4_parse be addr flags). destruct (v4_parse be addr flags); [exact I|assumption].
Qed.

Lemma src_ipv4_int_to_str_ok v d : src_ipv4_int_to_str v d = v4_int_to_str v.
Proof. reflexivity. Qed.

(* ---- expand_partial_address (model: Model/NetText.v) ---- *)
Lemma src_expand_loop_ok : forall n tokens,
  src_ipv4_expand_partial_address_loop1 n tokens = tokens ++ repeat "0"%string n.
Proof.
  induction n as [|k IH]; intros tokens; cbn [src_ipv4_expand_partial_address_loop1 repeat].
  - rewrite app_nil_r. reflexivity.
  - cbv zeta. rewrite IH, <- app_assoc. reflexivity.
Qed.

Lemma src_int_token_ok o :
  py_except ValueError AddrFormatError (do h1 <- py_int_base_o 10 o; Ok (fmt_d h1)) = NetText.int_token o.
Proof. unfold py_int_base_o, NetText.int_token. destruct (py_int 10 o); reflexivity. Qed.

Lemma src_int_tokens_ok l :
  py_except ValueError AddrFormatError (py_map_o (fun o => do h1 <- py_int_base_o 10 o; Ok (fmt_d h1)) l) =
  Fb.map_out NetText.int_token l.
Proof.
  induction l as [|x r IH]; [reflexivity|]. cbn [py_map_o Fb.map_out]. rewrite <- src_int_token_ok, <- IH.
  unfold py_int_base_o. destruct (py_int 10 x) as [n|]; [|reflexivity]. cbn [bind py_except].
  destruct (py_map_o _ r) as [ys|e]; [reflexivity|]. cbn [bind py_except]. destruct (exn_eqb e ValueError); reflexivity.
Qed.

Lemma src_ipv4_expand_partial_address_ok s : src_ipv4_expand_partial_address s = NetText.expand_partial_address s.
Proof.
  unfold src_ipv4_expand_partial_address, NetText.expand_partial_address. cbv zeta.
  destruct (contains_char ":" s); [reflexivity|].
  match goal with |- bind (py_except ValueError AddrFormatError ?B) _ = _ =>
    assert (E : py_except ValueError AddrFormatError B =
                (do tokens <- (if contains_char "." s then Fb.map_out NetText.int_token (split "." s)
                               else do t <- NetText.int_token s; Ok [t]); Ok (tokens, s))) end.
  { destruct (contains_char "." s).
    - rewrite <- src_int_tokens_ok. destruct (py_map_o _ (split "." s)) as [ys|e]; [reflexivity|]. cbn [bind py_except].
      destruct (exn_eqb e ValueError); reflexivity.
    - rewrite <- src_int_token_ok. unfold py_int_base_o. destruct (py_int 10 s); reflexivity. }
  rewrite E. clear E.
  destruct (if contains_char "." s then _ else _) as [tokens|e]; [|reflexivity]. cbn [bind].
  unfold NetText.len. destruct ((1 <=? Z.of_nat (List.length tokens)) && (Z.of_nat (List.length tokens) <=? 4)) eqn:R; [|reflexivity].
  rewrite src_expand_loop_ok. unfold NetText.pad_tokens.
  replace (Z.to_nat (4 - Z.of_nat (List.length tokens))) with (4 - List.length tokens)%nat by lia.
  destruct tokens as [|t0 r]; [cbn [List.length] in R; lia|]. reflexivity.
Qed.

(* ---------------------------------------------------------------- strategy/ipv6.py *)
Lemma okpy_pack_H v : okpy (Fb.pack_H v).
Proof. unfold Fb.pack_H. okpy_tac. Qed.
Lemma okpy_inet_ntoa o : okpy (Fb.inet_ntoa o).
Proof. unfold Fb.inet_ntoa. okpy_tac. Qed.
Lemma okpy_expand_quad i q : okpy (Fb.expand_quad i q).
Proof. unfold Fb.expand_quad. apply okpy_bind; [apply okpy_fb_pton4|]. intros o. okpy_tac. Qed.
Lemma okpy_pack_hex t : okpy (Fb.pack_hex t).
Proof. unfold Fb.pack_hex. destruct (py_int 16 t); [apply okpy_pack_H|reflexivity]. Qed.
Lemma okpy_check_word t : okpy (Fb.check_word t).
Proof. unfold Fb.check_word. okpy_tac. Qed.

Lemma okpy_fb_pton6 s : okpy (Fb.inet_pton6 s).
Proof.
  unfold Fb.inet_pton6.
  repeat first
    [ exact I | reflexivity | apply okpy_expand_quad
    | apply okpy_bind; [|intros ?]
    | apply okpy_map_out; intros ?; first [apply okpy_pack_hex|apply okpy_check_word|apply okpy_pack_H]
    | match goal with |- okpy (if ?c then _ else _) => destruct c end
    | match goal with |- okpy (match ?x with _ => _ end) => destruct x end ].
Qed.

Lemma okpy_pton6 be s : okpy (inet_pton6 be s).
Proof. destruct be; [apply okpy_of_option|apply okpy_fb_pton6]. Qed.

(* packed_to_int on the 16 bytes of 8 words = the model's packed_to_int on the words (no range needed: (w / 256) * 256 + w mod 256 = w) *)
Lemma src_packed_to_int_words ws : src_ipv6_packed_to_int (py_bytes_of_words ws) = packed_to_int ws.
Proof.
  rewrite src_ipv6_packed_to_int_ok. unfold Codec.ipv6_packed_to_int, packed_to_int.
  destruct ws as [|a [|b [|c [|d [|e [|f [|g [|h [|x r]]]]]]]]]; try reflexivity.
  unfold unpack_4I. cbn [py_bytes_of_words flat_map py_word_bytes app]. unfold Codec.struct_unpack.
  cbn [List.length fold_right Nat.add Nat.eqb Codec.split_fields firstn skipn Codec.from_be bind].
  f_equal. unfold Fb.or_words, Codec.lor_words. cbn [rev app].
  repeat match goal with |- context [(((0 * 256 + ?x / 256) * 256 + ?x mod 256) * 256 + ?y / 256) * 256 + ?y mod 256] =>
    replace ((((0 * 256 + x / 256) * 256 + x mod 256) * 256 + y / 256) * 256 + y mod 256) with (x * 65536 + y) by lia_dm end.
  reflexivity.
Qed.

Lemma okpy_packed_to_int ws : okpy (packed_to_int ws).
Proof. unfold packed_to_int, unpack_4I. okpy_tac. Qed.

Lemma src_ipv6_str_to_int_ok be addr flags : src_ipv6_str_to_int be addr flags = v6_str_to_int be addr flags.
Proof.
  unfold src_ipv6_str_to_int, v6_str_to_int, py_inet_pton6.
  replace (bind (omap py_bytes_of_words (inet_pton6 be addr)) _) with (do p <- inet_pton6 be addr; packed_to_int p).
  - apply except_all_okpy. apply okpy_bind; [apply okpy_pton6|intros p; apply okpy_packed_to_int].
  - destruct (inet_pton6 be addr) as [ws|e]; [|reflexivity]. cbn [bind omap]. symmetry. apply src_packed_to_int_words.
Qed.

Lemma src_ipv6_valid_str_ok be addr flags : src_ipv6_valid_str be addr flags = v6_valid_str be addr flags.
Proof.
  unfold src_ipv6_valid_str, v6_valid_str, py_inet_pton6. destruct (String.eqb addr ""); [reflexivity|].
  rewrite except_value_okpy.
  - destruct (inet_pton6 be addr); reflexivity.
  - pose proof (okpy_pton6 be addr). destruct (inet_pton6 be addr); [exact I|assumption].
Qed.

(* ---- int_to_str / int_to_arpa ---- *)
(* the two copies of strategy.int_to_words (AddrText: nat count; Codec: Z count) *)
Lemma int_to_words_loop_codec n : forall v mw ws words,
  AddrText.int_to_words_loop n v mw ws words = words ++ Codec.words_loop n v mw ws.
Proof.
  induction n as [|k IH]; intros v mw ws words; cbn [AddrText.int_to_words_loop Codec.words_loop].
  - rewrite app_nil_r. reflexivity.
  - rewrite IH, <- app_assoc. reflexivity.
Qed.
Lemma int_to_words_codec v ws (n : nat) : AddrText.int_to_words v ws n = Codec.int_to_words v ws (Z.of_nat n).
Proof. unfold AddrText.int_to_words, Codec.int_to_words. rewrite Nat2Z.id, int_to_words_loop_codec. reflexivity. Qed.

(* '>4I' of a 32-bit word = '>2H' '>2H' of its halves *)
Lemma be_bytes_4 a : 0 <= a <= 4294967295 -> Codec.be_bytes 4 a = py_word_bytes (a / 65536) ++ py_word_bytes (a mod 65536).
Proof.
  intros H. cbn [Codec.be_bytes app]. unfold py_word_bytes. cbn [app].
  f_equal; [lia_dm|]. f_equal; [lia_dm|]. f_equal; [lia_dm|]. f_equal. lia_dm.
Qed.

Lemma ipv6_int_to_packed_words v : Codec.ipv6_int_to_packed v = omap py_bytes_of_words (AddrText.int_to_packed v).
Proof.
  unfold Codec.ipv6_int_to_packed, AddrText.int_to_packed. rewrite (int_to_words_codec v 32 4). change (Z.of_nat 4) with 4.
  unfold Codec.int_to_words. destruct (negb _); [reflexivity|]. cbn [bind]. change (Z.to_nat 4) with 4%nat.
  cbn [Codec.words_loop rev app]. set (mw := 2 ^ 32 - 1).
  set (a := Z.land (Z.shiftr (Z.shiftr (Z.shiftr v 32) 32) 32) mw). set (b := Z.land (Z.shiftr (Z.shiftr v 32) 32) mw).
  set (c := Z.land (Z.shiftr v 32) mw). set (d := Z.land v mw). clearbody a b c d.
  unfold pack_4I. cbn [forallb Codec.struct_pack]. change (256 ^ Z.of_nat 4) with 4294967296.
  assert (R : forall x, ((0 <=? x) && (x <? 4294967296)) = ((0 <=? x) && (x <=? 4294967295))) by (intros x; lia).
  rewrite !R. clear R.
  destruct ((0 <=? a) && (a <=? 4294967295)) eqn:Ea; [|reflexivity].
  destruct ((0 <=? b) && (b <=? 4294967295)) eqn:Eb; [|reflexivity].
  destruct ((0 <=? c) && (c <=? 4294967295)) eqn:Ec; [|reflexivity].
  destruct ((0 <=? d) && (d <=? 4294967295)) eqn:Ed; [|reflexivity].
  cbn [bind andb omap py_bytes_of_words flat_map]. rewrite !be_bytes_4 by lia. rewrite !app_nil_r, <- !app_assoc. reflexivity.
Qed.

Lemma words_of_bytes_of_words ws : py_words_of_bytes (py_bytes_of_words ws) = ws.
Proof.
  induction ws as [|w r IH]; [reflexivity|]. cbn [py_bytes_of_words flat_map py_word_bytes app py_words_of_bytes].
  change (flat_map py_word_bytes r) with (py_bytes_of_words r). rewrite IH. f_equal. lia_dm.
Qed.

Lemma bytes_of_words_length ws : List.length (py_bytes_of_words ws) = (2 * List.length ws)%nat.
Proof.
  induction ws as [|w r IH]; [reflexivity|]. cbn [py_bytes_of_words flat_map py_word_bytes app List.length].
  change (flat_map py_word_bytes r) with (py_bytes_of_words r). rewrite IH. lia.
Qed.

(* _struct.unpack('>8H', packed) of the 16 bytes of 8 words: the words *)
Lemma unpack_8H_words p : List.length p = 8%nat ->
  py_struct_unpack [2%nat; 2%nat; 2%nat; 2%nat; 2%nat; 2%nat; 2%nat; 2%nat] (py_bytes_of_words p) = Ok p.
Proof.
  intros L. destruct p as [|a [|b [|c [|d [|e [|f [|g [|h [|x r]]]]]]]]]; try discriminate.
  unfold py_struct_unpack, Codec.struct_unpack. cbn [py_bytes_of_words flat_map py_word_bytes app List.length fold_right Nat.add Nat.eqb
    Codec.split_fields firstn skipn Codec.from_be].
  repeat match goal with |- context [(0 * 256 + ?x / 256) * 256 + ?x mod 256] =>
    replace ((0 * 256 + x / 256) * 256 + x mod 256) with x by lia_dm end.
  reflexivity.
Qed.

Definition dcls (d : dialect) : string * bool := (if pad4 d then "%.4x"%string else "%x"%string, compact d).

Lemma src_dialects_ok :
  src_ipv6_ipv6_compact = dcls ipv6_compact /\ src_ipv6_ipv6_verbose = dcls ipv6_verbose.
Proof. split; reflexivity. Qed.

Lemma format_words_ok d p : Forall word p ->
  py_map_o (fun w => py_format1 (fst (dcls d)) w) p = Ok (map (fun w => if pad4 d then fmt_x_pad 4 w else fmt_x w) p).
Proof.
  intros F. induction F as [|w r Hw F IH]; [reflexivity|]. cbn [py_map_o map]. rewrite IH. unfold dcls. cbn [fst].
  destruct (pad4 d); cbn [py_format1 String.eqb Ascii.eqb Bool.eqb andb bind]; [|reflexivity].
  unfold py_fmt_x4. unfold word in Hw. replace (w <? 0) with false by lia. reflexivity.
Qed.

Lemma okpy_fb_ntop6 ws : okpy (Fb.inet_ntop6 ws).
Proof.
  unfold Fb.inet_ntop6. destruct (negb _); [reflexivity|]. cbv zeta. apply okpy_bind; [|intros t; exact I].
  repeat first
    [ exact I | reflexivity | apply okpy_pack_H | apply okpy_inet_ntoa
    | apply okpy_bind; [|intros ?]
    | match goal with |- okpy (if ?c then _ else _) => destruct c end
    | match goal with |- okpy (match ?x with _ => _ end) => destruct x end ].
Qed.
Lemma okpy_ntop6 be ws : okpy (inet_ntop6 be ws).
Proof. destruct be; [exact I|apply okpy_fb_ntop6]. Qed.

Lemma okpy_int_to_packed v : okpy (AddrText.int_to_packed v).
Proof. unfold AddrText.int_to_packed, AddrText.int_to_words, pack_4I. okpy_tac. Qed.

Lemma src_ipv6_int_to_str_ok be v d : src_ipv6_int_to_str be v (option_map dcls d) = v6_int_to_str be v d.
Proof.
  unfold src_ipv6_int_to_str, v6_int_to_str. cbv zeta.
  replace (py_opt_default (option_map dcls d) src_ipv6_ipv6_compact) with (dcls (match d with Some d => d | None => ipv6_compact end))
    by (destruct d; reflexivity).
  set (dd := match d with Some d0 => d0 | None => ipv6_compact end).
  match goal with |- bind (py_except_all ValueError ?B) _ = match ?M with _ => _ end => assert (E : B = M) end.
  { rewrite src_ipv6_int_to_packed_ok, ipv6_int_to_packed_words.
    destruct (AddrText.int_to_packed v) as [p|e] eqn:P; [|reflexivity]. cbn [omap bind].
    assert (W : Forall word p /\ List.length p = 8%nat).
    { unfold AddrText.int_to_packed in P. destruct (AddrText.int_to_words v 32 4) as [ws32|]; [|discriminate]. cbn [bind] in P.
      exact (Proofs.C01.pack_4I_words _ _ P). }
    destruct W as (F & L). unfold dcls at 1. cbn [snd]. destruct (compact dd).
    - unfold py_inet_ntop6. rewrite bytes_of_words_length, L, words_of_bytes_of_words. cbn [Nat.mul Nat.add Nat.eqb].
      destruct (inet_ntop6 be p); reflexivity.
    - rewrite (unpack_8H_words p L). cbn [bind]. rewrite (format_words_ok dd p F). reflexivity. }
  rewrite E, except_all_okpy.
  - destruct (bind (AddrText.int_to_packed v) _); reflexivity.
  - apply okpy_bind; [apply okpy_int_to_packed|]. intros p. destruct (compact dd); [apply okpy_ntop6|exact I].
Qed.

(* int_to_arpa goes through int_to_str(int_val, ipv6_verbose); its model is Codec.ipv6_int_to_arpa (C15) *)
Lemma v6_int_to_str_verbose_codec be v :
  v6_int_to_str be v (Some ipv6_verbose) = Codec.ipv6_int_to_str_verbose row6 v.
Proof.
  unfold v6_int_to_str, Codec.ipv6_int_to_str_verbose, Codec.on_exception. rewrite ipv6_int_to_packed_words.
  destruct (AddrText.int_to_packed v) as [p|e] eqn:P; [|reflexivity]. cbn [omap bind compact ipv6_verbose pad4].
  assert (W : Forall word p /\ List.length p = 8%nat).
  { unfold AddrText.int_to_packed in P. destruct (AddrText.int_to_words v 32 4) as [ws32|]; [|discriminate]. cbn [bind] in P.
    exact (Proofs.C01.pack_4I_words _ _ P). }
  destruct W as (F & L). pose proof (unpack_8H_words p L) as U. unfold py_struct_unpack in U. rewrite U. reflexivity.
Qed.

Lemma src_ipv6_int_to_arpa_ok be v : src_ipv6_int_to_arpa be v = Codec.ipv6_int_to_arpa row6 v.
Proof.
  unfold src_ipv6_int_to_arpa, Codec.ipv6_int_to_arpa.
  change (Some src_ipv6_ipv6_verbose) with (option_map dcls (Some ipv6_verbose)).
  rewrite src_ipv6_int_to_str_ok, v6_int_to_str_verbose_codec.
  destruct (Codec.ipv6_int_to_str_verbose row6 v) as [addr|e]; reflexivity.
Qed.

(* everything the C01 source tie states about the text functions of strategy/ipv4.py and ipv6.py (Props/C01_src.v), part 1 *)
Lemma C01_tie_text1_ok :
  (forall be addr flags, src_ipv4_valid_str be addr flags = valid_str be 4 addr flags) /\
  (forall be addr flags, src_ipv4_str_to_int be addr flags = str_to_int be 4 addr flags) /\
  (forall be v d, src_ipv4_int_to_str v tt = int_to_str be 4 v d) /\
  (forall s, src_ipv4_expand_partial_address s = NetText.expand_partial_address s) /\
  (forall be addr flags, src_ipv6_valid_str be addr flags = valid_str be 6 addr flags) /\
  (forall be addr flags, src_ipv6_str_to_int be addr flags = str_to_int be 6 addr flags) /\
  (src_ipv6_ipv6_compact = dcls ipv6_compact /\ src_ipv6_ipv6_verbose = dcls ipv6_verbose) /\
  (forall be v d, src_ipv6_int_to_str be v (option_map dcls d) = int_to_str be 6 v d) /\
  (forall be v, src_ipv6_int_to_arpa be v = Codec.ip_reverse_dns "ipv6"%string row6 v).
Proof.
  split; [exact src_ipv4_valid_str_ok|]. split; [exact src_ipv4_str_to_int_ok|].
  split; [intros be v d; apply src_ipv4_int_to_str_ok|]. split; [exact src_ipv4_expand_partial_address_ok|].
  split; [exact src_ipv6_valid_str_ok|]. split; [exact src_ipv6_str_to_int_ok|]. split; [exact src_dialects_ok|].
  split; [exact src_ipv6_int_to_str_ok|exact src_ipv6_int_to_arpa_ok].
Qed.
