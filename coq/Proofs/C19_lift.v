(* Proofs/C19_lift.v — piecewise-constant lifting over finite tables of closed Z intervals
   (compiled spike tools/spikes/Piecewise_lift.v, unchanged apart from this header):
   every x in Z has a representative among the cut points {lo-1, lo, hi+1} with the same membership vector, so
   two functions that see x only through that vector agree everywhere once they agree on the cut points. *)
From NV Require Import Base.Tac.
Open Scope Z_scope.

Definition iv := (Z * Z)%type.
Definition memb (i : iv) (x : Z) : bool := (fst i <=? x) && (x <=? snd i).
Definition wfiv (i : iv) := fst i <= snd i.

Definition changes (l : list iv) : list Z := flat_map (fun i => [fst i; snd i + 1]) l.
Definition cuts (l : list iv) : list Z := flat_map (fun i => [fst i - 1; fst i; snd i + 1]) l.

Fixpoint maxle (x : Z) (ps : list Z) : option Z :=
  match ps with
  | [] => None
  | p :: r => match maxle x r with
              | Some m => if p <=? x then Some (Z.max p m) else Some m
              | None => if p <=? x then Some p else None
              end
  end.

Lemma maxle_some x ps c : maxle x ps = Some c ->
  In c ps /\ c <= x /\ forall p, In p ps -> p <= x -> p <= c.
Proof.
  revert c. induction ps as [|p r IH]; intros c H; cbn in H; [discriminate|].
  destruct (maxle x r) as [m|] eqn:E.
  - destruct (IH m eq_refl) as (Hin & Hle & Hmax).
    destruct (Z.leb_spec p x); inversion H; subst; clear H.
    + split; [|split].
      * destruct (Z.max_spec p m) as [[_ ->]|[_ ->]]; [now right|now left].
      * lia.
      * intros q [->|Hq] Hqx; [lia|]. specialize (Hmax q Hq Hqx). lia.
    + split; [now right|split; [lia|]]. intros q [->|Hq] Hqx; [lia|]. now apply Hmax.
  - destruct (Z.leb_spec p x); inversion H; subst; clear H.
    split; [now left|split; [lia|]]. intros q [->|Hq] Hqx; [lia|].
    exfalso. clear IH. revert E Hq Hqx. induction r as [|a r IHr]; cbn; [tauto|].
    destruct (maxle x r); [destruct (a <=? x); discriminate|].
    destruct (Z.leb_spec a x); [discriminate|]. intros _ [->|Hq] Hqx; [lia|]. now apply IHr.
Qed.

Lemma maxle_none x ps : maxle x ps = None -> forall p, In p ps -> x < p.
Proof.
  induction ps as [|a r IH]; cbn; [tauto|].
  destruct (maxle x r); [destruct (a <=? x); discriminate|].
  destruct (Z.leb_spec a x); [discriminate|]. intros _ p [->|Hp]; [lia|]. now apply IH.
Qed.

Fixpoint minl (ps : list Z) : option Z :=
  match ps with [] => None | p :: r => match minl r with Some m => Some (Z.min p m) | None => Some p end end.
Lemma minl_some ps : ps <> [] -> exists m, minl ps = Some m /\ In m ps /\ forall p, In p ps -> m <= p.
Proof.
  induction ps as [|a r IH]; [congruence|]. intros _. cbn. destruct r as [|b r'].
  - exists a. cbn. split; [reflexivity|split; [now left|]]. intros p [->|[]]. lia.
  - destruct IH as (m & -> & Hin & Hmin); [congruence|]. exists (Z.min a m). split; [reflexivity|split].
    + destruct (Z.min_spec a m) as [[_ ->]|[_ ->]]; [now left|now right].
    + intros p [->|Hp]; [lia|]. specialize (Hmin p Hp). lia.
Qed.

(* every point has a representative among the cut points with the same membership vector *)
Theorem representative (l : list iv) : l <> [] -> Forall wfiv l ->
  forall x, exists c, In c (cuts l) /\ forall i, In i l -> memb i x = memb i c.
Proof.
  intros Hne Hwf x. rewrite Forall_forall in Hwf.
  destruct (maxle x (changes l)) as [c|] eqn:E.
  - destruct (maxle_some _ _ _ E) as (Hin & Hle & Hmax).
    exists c. split.
    + unfold changes in Hin. unfold cuts. apply in_flat_map in Hin. destruct Hin as (i & Hi & Hc).
      apply in_flat_map. exists i. split; [exact Hi|]. cbn in *. tauto.
    + intros i Hi. unfold memb.
      assert (In (fst i) (changes l)) by (unfold changes; apply in_flat_map; exists i; cbn; tauto).
      assert (In (snd i + 1) (changes l)) by (unfold changes; apply in_flat_map; exists i; cbn; tauto).
      pose proof (Hmax _ H). pose proof (Hmax _ H0).
      destruct (Z.leb_spec (fst i) x), (Z.leb_spec x (snd i)), (Z.leb_spec (fst i) c), (Z.leb_spec c (snd i)); cbn; try reflexivity; lia.
  - pose proof (maxle_none _ _ E) as Hall.
    destruct (minl_some (map fst l)) as (m & _ & Hin & Hmin). { destruct l; cbn; congruence. }
    apply in_map_iff in Hin. destruct Hin as (i0 & <- & Hi0).
    exists (fst i0 - 1). split.
    + unfold cuts. apply in_flat_map. exists i0. cbn. tauto.
    + intros i Hi. unfold memb.
      assert (x < fst i). { apply Hall. unfold changes. apply in_flat_map. exists i. cbn. tauto. }
      assert (fst i0 <= fst i). { apply Hmin. apply in_map_iff. exists i. tauto. }
      destruct (Z.leb_spec (fst i) x), (Z.leb_spec (fst i) (fst i0 - 1)); cbn; try reflexivity; lia.
Qed.

(* lifting: two functions that see x only through the membership vector agree everywhere
   as soon as they agree on the cut points *)
Theorem lift (A : Type) (l : list iv) (F G : (iv -> bool) -> A) :
  l <> [] -> Forall wfiv l ->
  (forall m1 m2, (forall i, In i l -> m1 i = m2 i) -> F m1 = F m2) ->
  (forall m1 m2, (forall i, In i l -> m1 i = m2 i) -> G m1 = G m2) ->
  (forall c, In c (cuts l) -> F (fun i => memb i c) = G (fun i => memb i c)) ->
  forall x, F (fun i => memb i x) = G (fun i => memb i x).
Proof.
  intros Hne Hwf HF HG Hc x. destruct (representative l Hne Hwf x) as (c & Hin & Hsame).
  rewrite (HF (fun i => memb i x) (fun i => memb i c)) by exact Hsame.
  rewrite (HG (fun i => memb i x) (fun i => memb i c)) by exact Hsame.
  now apply Hc.
Qed.
