(* Proofs/GenOk_Src_C08_e.v — source tie for C08, fifth part (tag SRCF): construction.  The definitions regenerated from
   EUI.__init__ (specialised to an int, a text, an EUI argument) and EUI._set_value (specialised to module unknown / eui48 /
   eui64 and to an int / a text argument) of netaddr/eui/__init__.py (Gen/pysrc_euib_gen.v), with the int-argument
   specialisations of str_to_int of both strategy modules, equal Model/Eui.v eui_init, detect_version, set_value_ver.
   The attributes _module / _value / _dialect are tracked at translation time (every path knows what it assigned; the loop
   `for module in (_eui48, _eui64)` is unrolled; `try .. except E: pass` continues after the try when a call of its body raises
   E); `self.value = x` / `self.dialect = d` are the setters _set_value (the specialisation for the module known at that
   point) / _set_dialect.  No hypothesis. *)
From Coq Require Import String Ascii.
From NV Require Import Base.Tac Base.PyVal Base.PyStr Model.Ip Model.Eui Model.SrcPrelude Model.SrcPreludeStr
  Model.SrcPreludeEui Model.SrcPreludeEui2 Gen.pysrc_eui_gen Gen.pysrc_eui48b_gen Gen.pysrc_eui64b_gen Gen.pysrc_euib_gen
  Proofs.GenOk_Src_C08_b Proofs.GenOk_Src_C08_c Proofs.GenOk_Src_C08_d.
Import ListNotations.
Open Scope Z_scope.

Lemma py_except_same {A} e (o : outcome A) : py_except e e o = o.
Proof. destruct o as [a|x]; [reflexivity|]. cbn [py_except]. destruct x, e; reflexivity. Qed.

Lemma src_str_to_int_int_ok i :
  src_eui48_str_to_int_int i = str_to_int_48 (BInt i) /\ src_eui64_str_to_int_int i = str_to_int_64 (BInt i).
Proof. split; reflexivity. Qed.

Lemma src_set_value_explicit_ok :
  (forall s, src_EUI_set_value_eui48_str s = do v <- set_value_ver 48 (AStr s); Ok (48, v)) /\
  (forall s, src_EUI_set_value_eui64_str s = do v <- set_value_ver 64 (AStr s); Ok (64, v)) /\
  (forall i, src_EUI_set_value_eui48_int i = do v <- set_value_ver 48 (AInt i); Ok (48, v)) /\
  (forall i, src_EUI_set_value_eui64_int i = do v <- set_value_ver 64 (AInt i); Ok (64, v)).
Proof.
  split; [|split; [|split]].
  - intros s. unfold src_EUI_set_value_eui48_str. rewrite py_except_same, src_eui48_str_to_int_ok. reflexivity.
  - intros s. unfold src_EUI_set_value_eui64_str. rewrite py_except_same, src_eui64_str_to_int_ok. reflexivity.
  - intros i. unfold src_EUI_set_value_eui48_int. cbn [set_value_ver py_to_int bind].
    change src_eui48_max_int with (emax_int 48). destruct ((0 <=? i) && (i <=? emax_int 48)); reflexivity.
  - intros i. unfold src_EUI_set_value_eui64_int. cbn [set_value_ver py_to_int bind].
    change src_eui64_max_int with (emax_int 64). destruct ((0 <=? i) && (i <=? emax_int 64)); reflexivity.
Qed.

Lemma src_set_value_implicit_str_ok s : src_EUI_set_value_implicit_str s = detect_version (AStr s).
Proof.
  unfold src_EUI_set_value_implicit_str, detect_version, int_fallback. cbn [base_of py_to_int].
  rewrite src_eui48_str_to_int_ok, src_eui64_str_to_int_ok.
  change src_eui48_max_int with (emax_int 48). change src_eui64_max_int with (emax_int 64).
  change src_eui48_version with 48. change src_eui64_version with 64. unfold py_int_o.
  destruct (str_to_int_48 (BStr s)) as [v|x]; [reflexivity|]. destruct x; try reflexivity. cbn [exn_eqb].
  destruct (str_to_int_64 (BStr s)) as [v|x]; [reflexivity|]. destruct x; try reflexivity. cbn [exn_eqb].
  destruct (py_int 10 s) as [i|]; cbn [exn_eqb].
  - destruct ((0 <=? i) && (i <=? emax_int 48)); [reflexivity|]. destruct ((0 <=? i) && (i <=? emax_int 64)); reflexivity.
  - reflexivity.
Qed.

Lemma src_set_value_implicit_int_ok i : src_EUI_set_value_implicit_int i = detect_version (AInt i).
Proof. reflexivity. Qed.

Lemma src_set_dialect_validate ver v a : src_EUI_set_dialect ver v a = validate_dialect ver a.
Proof. unfold src_EUI_set_dialect. apply src_eui_validate_dialect_ok. Qed.

Lemma src_eui_init_str_ok s version a : src_EUI_init_str s version a = eui_init (AStr s) version a.
Proof.
  destruct src_set_value_explicit_ok as (A & B & _). unfold src_EUI_init_str, eui_init.
  destruct version as [vv|]; cbn [bind].
  - destruct (vv =? 48); cbn [bind].
    + rewrite A. destruct (set_value_ver 48 (AStr s)) as [v|x]; [|reflexivity]. cbn [bind fst snd]. rewrite src_set_dialect_validate. reflexivity.
    + destruct (vv =? 64); cbn [bind]; [|reflexivity].
      rewrite B. destruct (set_value_ver 64 (AStr s)) as [v|x]; [|reflexivity]. cbn [bind fst snd]. rewrite src_set_dialect_validate. reflexivity.
  - rewrite src_set_value_implicit_str_ok. destruct (detect_version (AStr s)) as [vv|x]; [|reflexivity]. cbn [bind].
    rewrite src_set_dialect_validate. reflexivity.
Qed.

Lemma src_eui_init_int_ok i version a : src_EUI_init_int i version a = eui_init (AInt i) version a.
Proof.
  destruct src_set_value_explicit_ok as (_ & _ & A & B). unfold src_EUI_init_int, eui_init.
  destruct version as [vv|]; cbn [bind].
  - destruct (vv =? 48); cbn [bind].
    + rewrite A. destruct (set_value_ver 48 (AInt i)) as [v|x]; [|reflexivity]. cbn [bind fst snd]. rewrite src_set_dialect_validate. reflexivity.
    + destruct (vv =? 64); cbn [bind]; [|reflexivity].
      rewrite B. destruct (set_value_ver 64 (AInt i)) as [v|x]; [|reflexivity]. cbn [bind fst snd]. rewrite src_set_dialect_validate. reflexivity.
  - change 0xffffffffffff with (emax_int 48). change 0xffffffffffffffff with (emax_int 64).
    destruct ((0 <=? i) && (i <=? emax_int 48)); cbn [bind].
    + rewrite A. destruct (set_value_ver 48 (AInt i)) as [v|x]; [|reflexivity]. cbn [bind fst snd]. rewrite src_set_dialect_validate. reflexivity.
    + destruct ((emax_int 48 <? i) && (i <=? emax_int 64)); cbn [bind].
      * rewrite B. destruct (set_value_ver 64 (AInt i)) as [v|x]; [|reflexivity]. cbn [bind fst snd]. rewrite src_set_dialect_validate. reflexivity.
      * rewrite src_set_value_implicit_int_ok. destruct (detect_version (AInt i)) as [vv|x]; [|reflexivity]. cbn [bind].
        rewrite src_set_dialect_validate. reflexivity.
Qed.

Lemma src_eui_init_eui_ok e version a : src_EUI_init_eui e version a = eui_init (AEui e) version a.
Proof.
  unfold src_EUI_init_eui, eui_init. rewrite src_set_dialect_validate. destruct e as [ver v d]. cbn [ever evalue edialect validate_dialect bind].
  destruct version as [vv|]; [destruct (negb (vv =? ver))|]; reflexivity.
Qed.

Lemma C08_tie_e_ok :
  (forall i, src_eui48_str_to_int_int i = str_to_int_48 (BInt i) /\ src_eui64_str_to_int_int i = str_to_int_64 (BInt i)) /\
  (forall s i, src_EUI_set_value_eui48_str s = (do v <- set_value_ver 48 (AStr s); Ok (48, v)) /\
               src_EUI_set_value_eui64_str s = (do v <- set_value_ver 64 (AStr s); Ok (64, v)) /\
               src_EUI_set_value_eui48_int i = (do v <- set_value_ver 48 (AInt i); Ok (48, v)) /\
               src_EUI_set_value_eui64_int i = (do v <- set_value_ver 64 (AInt i); Ok (64, v)) /\
               src_EUI_set_value_implicit_str s = detect_version (AStr s) /\
               src_EUI_set_value_implicit_int i = detect_version (AInt i)) /\
  (forall s i e version a, src_EUI_init_str s version a = eui_init (AStr s) version a /\
                           src_EUI_init_int i version a = eui_init (AInt i) version a /\
                           src_EUI_init_eui e version a = eui_init (AEui e) version a).
Proof.
  split; [exact src_str_to_int_int_ok|]. destruct src_set_value_explicit_ok as (A & B & C & D). split.
  - intros s i. split; [apply A|]. split; [apply B|]. split; [apply C|]. split; [apply D|].
    split; [apply src_set_value_implicit_str_ok|apply src_set_value_implicit_int_ok].
  - intros s i e version a. split; [apply src_eui_init_str_ok|]. split; [apply src_eui_init_int_ok|apply src_eui_init_eui_ok].
Qed.
