(* Proofs/Code_C03.v — lemmas for Props/C03_code.v: the C03 theorems stated about the definitions regenerated from the network
   parser and constructors of netaddr/ip/__init__.py (Gen/pysrc_parse_gen.v, pysrc_ctor_gen.v) and expand_partial_address of
   netaddr/strategy/ipv4.py (Gen/pysrc_ipv4_gen.v).  Every statement below is the conjunct of Props/C03.v of the same name with each
   model function replaced by its generated counterpart; every proof rewrites the generated functions into the model functions
   with the source ties (Proofs/GenOk_Src_C03.v, GenOk_Src_C01_ctor.v, GenOk_Src_C01_text.v) -- also under the binders of the
   statement and of `do x <- ..; ..` (setoid rewriting; `bind` respects pointwise equality of its continuation) -- and closes with
   the model lemma. *)
From Coq Require Import ZArith List Bool String Ascii Morphisms Setoid.
From NV Require Import Base.PyVal Base.PyStr Model.IpText Model.FbSocket Model.AddrText Model.Ip Model.NetText
  Proofs.C01_V6 Proofs.C02 Proofs.C03_Str Proofs.C03 Proofs.C03_Total Proofs.C03_Abbrev
  Model.SrcPrelude Model.SrcPreludeStr Model.SrcPreludeCtor Model.SrcPreludeText
  Gen.pysrc_gen Gen.pysrc_ctor_gen Gen.pysrc_parse_gen Gen.pysrc_ipv4_gen
  Proofs.GenOk_Src_C03 Proofs.GenOk_Src_C01_ctor Proofs.GenOk_Src_C01_text.
Import ListNotations.
Open Scope Z_scope.

(* IPNetwork.__init__ as regenerated: the translator emits one definition per kind of `addr` (tuple of ints / text / IPNetwork /
   IPAddress / anything else, an int standing for it), which are the constructors of the model's argument type `narg` *)
Definition src_net_init (be : backend) (a : narg) (implicit_prefix : bool) (version : option Z) (flags : Z) : outcome net :=
  match a with
  | ATuple t => src_IPNetwork_init_tuple t implicit_prefix version flags
  | AStr s => src_IPNetwork_init_str be s implicit_prefix version flags
  | ANet n => src_IPNetwork_init_net n implicit_prefix version flags
  | AAddr ver v => src_IPNetwork_init_addr (ver, v) implicit_prefix version flags
  | AOther => src_IPNetwork_init_int 0 implicit_prefix version flags
  end.

Lemma src_net_init_ok be a ip version flags : src_net_init be a ip version flags = net_init be a ip version flags.
Proof.
  destruct a; cbn [src_net_init].
  - apply src_init_tuple_ok. - apply src_init_str_net_ok. - apply src_init_net_ok. - apply src_init_addr_ok. - apply src_init_other_ok.
Qed.

Global Instance bind_pointwise {A B} : Proper (eq ==> pointwise_relation A eq ==> eq) (@bind A B).
Proof. intros o o' <- f g H. destruct o; [apply H | reflexivity]. Qed.

Ltac to_model :=
  repeat (progress setoid_rewrite src_net_init_ok); repeat (progress setoid_rewrite src_addr_str_ok);
  repeat (progress setoid_rewrite src_init_str_ok); do 2 (try setoid_rewrite src_net_str_ok);
  repeat (progress setoid_rewrite src_ipv4_expand_partial_address_ok); repeat (progress setoid_rewrite src_cidr_abbrev_ok);
  repeat (progress setoid_rewrite src_classful_int_ok).

(* any int stands for "another type" *)
Lemma other_type_any_code i ip version flags : version = Some 4 \/ version = Some 6 \/ version = None ->
  src_IPNetwork_init_int i ip version flags = Raise TypeError.
Proof. intros H. rewrite (src_init_other_ok Platform). now apply other_type. Qed.

(* [notations_prefix] of C03_notations; model lemma: notations_prefix *)
Lemma notations_prefix_code :
  (* "a/p" *)
  (forall be ver v p ip version flags,
     valid_ver ver = true /\ 0 <= v < 2 ^ width ver -> 0 <= p <= width ver -> version = Some ver \/ version = None ->
     (do a <- src_IPAddress_str be ver (width ver) v; src_net_init be (AStr (a ++ "/" ++ fmt_d p)) ip version flags) =
     Ok {| nver := ver; nval := if has_flag flags NOHOST then v - v mod 2 ^ (width ver - p) else v; nplen := p |}).
Proof. to_model. exact notations_prefix. Qed.

(* [notations_netmask] of C03_notations; model lemma: notations_netmask *)
Lemma notations_netmask_code :
  (* "a/<netmask of p>", every p including 0 (all-zeros mask) and w (all-ones mask) *)
  (forall be ver v p ip version flags,
     valid_ver ver = true /\ 0 <= v < 2 ^ width ver -> 0 <= p <= width ver -> version = Some ver \/ version = None ->
     (do a <- src_IPAddress_str be ver (width ver) v; do m <- src_IPAddress_str be ver (width ver) (2 ^ width ver - 2 ^ (width ver - p));
      src_net_init be (AStr (a ++ "/" ++ m)) ip version flags) =
     Ok {| nver := ver; nval := if has_flag flags NOHOST then v - v mod 2 ^ (width ver - p) else v; nplen := p |}).
Proof. to_model. exact notations_netmask. Qed.

(* [notations_hostmask] of C03_notations; model lemma: notations_hostmask *)
Lemma notations_hostmask_code :
  (* "a/<hostmask of p>" for the proper hostmasks *)
  (forall be ver v p ip version flags,
     valid_ver ver = true /\ 0 <= v < 2 ^ width ver -> 0 < p < width ver -> version = Some ver \/ version = None ->
     (do a <- src_IPAddress_str be ver (width ver) v; do m <- src_IPAddress_str be ver (width ver) (2 ^ (width ver - p) - 1);
      src_net_init be (AStr (a ++ "/" ++ m)) ip version flags) =
     Ok {| nver := ver; nval := if has_flag flags NOHOST then v - v mod 2 ^ (width ver - p) else v; nplen := p |}).
Proof. to_model. exact notations_hostmask. Qed.

(* [notations_hostmask_ambiguous] of C03_notations; model lemma: notations_hostmask_ambiguous *)
Lemma notations_hostmask_ambiguous_code :
  (* the two masks that are both a netmask and a hostmask: is_netmask is tested first, so the hostmask of /0 (all-ones)
     gives /w and the hostmask of /w (all-zeros) gives /0 *)
  (forall be ver v ip version flags,
     valid_ver ver = true /\ 0 <= v < 2 ^ width ver -> version = Some ver \/ version = None ->
     (do a <- src_IPAddress_str be ver (width ver) v; do m <- src_IPAddress_str be ver (width ver) (2 ^ (width ver - 0) - 1);
      src_net_init be (AStr (a ++ "/" ++ m)) ip version flags) =
     Ok {| nver := ver; nval := if has_flag flags NOHOST then v - v mod 2 ^ (width ver - width ver) else v; nplen := width ver |} /\
     (do a <- src_IPAddress_str be ver (width ver) v; do m <- src_IPAddress_str be ver (width ver) (2 ^ (width ver - width ver) - 1);
      src_net_init be (AStr (a ++ "/" ++ m)) ip version flags) =
     Ok {| nver := ver; nval := if has_flag flags NOHOST then v - v mod 2 ^ (width ver - 0) else v; nplen := 0 |}).
Proof. to_model. exact notations_hostmask_ambiguous. Qed.

(* [notations_tuple] of C03_notations; model lemma: notations_tuple *)
Lemma notations_tuple_code :
  (* the tuple (v, p) with an explicit version *)
  (forall be ver v p ip flags,
     valid_ver ver = true /\ 0 <= v < 2 ^ width ver -> 0 <= p <= width ver ->
     src_net_init be (ATuple [v; p]) ip (Some ver) flags =
     Ok {| nver := ver; nval := if has_flag flags NOHOST then v - v mod 2 ^ (width ver - p) else v; nplen := p |}).
Proof. to_model. exact notations_tuple. Qed.

(* [notations_tuple_implicit] of C03_notations; model lemma: notations_tuple_implicit *)
Lemma notations_tuple_implicit_code :
  (* ... and without one: the tuple does not say its family, IPv4 is tried first *)
  (forall be v p ip flags, 0 <= v < 2 ^ 128 -> 0 <= p <= 128 ->
     src_net_init be (ATuple [v; p]) ip None flags =
     Ok (let ver := if (v <? 2 ^ 32) && (p <=? 32) then 4 else 6 in
         {| nver := ver; nval := if has_flag flags NOHOST then v - v mod 2 ^ (width ver - p) else v; nplen := p |})).
Proof. to_model. exact notations_tuple_implicit. Qed.

(* [notations_copy_net] of C03_notations; model lemma: notations_copy_net *)
Lemma notations_copy_net_code :
  (* copy construction from an IPNetwork (the `version` and `implicit_prefix` arguments are not looked at) *)
  (forall be ver v p ip version flags,
     valid_ver ver = true /\ 0 <= v < 2 ^ width ver -> 0 <= p <= width ver ->
     src_net_init be (ANet {| nver := ver; nval := v; nplen := p |}) ip version flags =
     Ok {| nver := ver; nval := if has_flag flags NOHOST then v - v mod 2 ^ (width ver - p) else v; nplen := p |}).
Proof. to_model. exact notations_copy_net. Qed.

(* [notations_copy_addr] of C03_notations; model lemma: notations_copy_addr *)
Lemma notations_copy_addr_code :
  (* copy construction from an IPAddress: full-width prefix *)
  (forall be ver v ip version flags,
     valid_ver ver = true /\ 0 <= v < 2 ^ width ver ->
     src_net_init be (AAddr ver v) ip version flags = Ok {| nver := ver; nval := v; nplen := width ver |}).
Proof. to_model. exact notations_copy_addr. Qed.

(* [str_roundtrip] of C03_str_roundtrip; model lemma: str_roundtrip *)
Lemma str_roundtrip_code :
  (forall be ver v p ip version flags,
     valid_ver ver = true /\ 0 <= v < 2 ^ width ver -> 0 <= p <= width ver -> version = Some ver \/ version = None ->
     (do s <- src_IPNetwork_str be ver (width ver) v p; src_net_init be (AStr s) ip version flags) =
     Ok {| nver := ver; nval := if has_flag flags NOHOST then v - v mod 2 ^ (width ver - p) else v; nplen := p |}).
Proof. to_model. exact str_roundtrip. Qed.

(* [bare] of C03_bare; model lemma: bare *)
Lemma bare_code :
  (forall be ver v version flags,
     valid_ver ver = true /\ 0 <= v < 2 ^ width ver -> version = Some ver \/ version = None ->
     (do a <- src_IPAddress_str be ver (width ver) v; src_net_init be (AStr a) false version flags) =
     Ok {| nver := ver; nval := v; nplen := width ver |}).
Proof. to_model. exact bare. Qed.

(* [bare_v6_implicit] of C03_bare; model lemma: bare_v6_implicit *)
Lemma bare_v6_implicit_code :
  (* also under implicit_prefix for IPv6 (for IPv4 the classful rule applies: C03_partial_classful with four octets) *)
  (forall be v version flags, 0 <= v < 2 ^ 128 -> version = Some 6 \/ version = None ->
     (do a <- src_IPAddress_str be 6 (width 6) v; src_net_init be (AStr a) true version flags) = Ok {| nver := 6; nval := v; nplen := 128 |}).
Proof. to_model. exact bare_v6_implicit. Qed.

(* [nohost] of C03_nohost; model lemma: nohost_general *)
Lemma nohost_code :
  (* whatever the argument (any string, tuple, copy source), if the flag-less call builds n then the call with any flags
     builds the same family and prefix, with value n.value - n.value mod 2^(w - n.prefixlen) when the NOHOST bit is set *)
  (forall be a ip version flags n, wf_arg a -> src_net_init be a ip version 0 = Ok n ->
     src_net_init be a ip version flags =
     Ok {| nver := nver n;
           nval := if has_flag flags NOHOST then nval n - nval n mod 2 ^ (width (nver n) - nplen n) else nval n;
           nplen := nplen n |}).
Proof. to_model. exact nohost_general. Qed.

(* [failure_flag_free] of C03_nohost; model lemma: failure_flag_free *)
Lemma failure_flag_free_code :
  (forall be a ip version flags e, wf_arg a ->
     (src_net_init be a ip version flags = Raise e <-> src_net_init be a ip version 0 = Raise e)).
Proof. to_model. exact failure_flag_free. Qed.

(* [classful_table] of C03_partial; model lemma: ((fun o => conj (classful_prefix_int_ok o) (classful_prefix_int_bad o))) *)
Lemma classful_table_code :
  (forall o,
     (0 <= o <= 255 -> src_cidr_abbrev_to_verbose_classful_prefix_int o =
        Ok (if o <=? 127 then 8 else if o <=? 191 then 16 else if o <=? 223 then 24 else if o <=? 239 then 4 else 32)) /\
     (~ 0 <= o <= 255 -> src_cidr_abbrev_to_verbose_classful_prefix_int o = Raise IndexError)).
Proof. to_model. exact ((fun o => conj (classful_prefix_int_ok o) (classful_prefix_int_bad o))). Qed.

(* [partial_expand] of C03_partial; model lemma: expand_partial *)
Lemma partial_expand_code :
  (* src_ipv4_expand_partial_address pads 1-4 octets with ".0" *)
  (forall os, (1 <= List.length os <= 4)%nat /\ Forall (fun a => 0 <= a < 256) os ->
     src_ipv4_expand_partial_address (dotted os) = Ok (Std4.ntoa (pad4 os))).
Proof. to_model. exact expand_partial. Qed.

(* [partial_abbrev_classful] of C03_partial; model lemma: abbrev_classful *)
Lemma partial_abbrev_classful_code :
  (* src_cidr_abbrev_to_verbose: octet padding and the class of the first octet / the explicit prefix *)
  (forall os, (1 <= List.length os <= 4)%nat /\ Forall (fun a => 0 <= a < 256) os ->
     exists o1, hd_error os = Some o1 /\
     src_cidr_abbrev_to_verbose (dotted os) = Ok (Std4.ntoa (pad4 os) ++ "/" ++ fmt_d (classful o1))%string).
Proof. to_model. exact abbrev_classful. Qed.

(* [partial_abbrev_prefixed] of C03_partial; model lemma: abbrev_prefixed *)
Lemma partial_abbrev_prefixed_code :
  (forall os p, (1 <= List.length os <= 4)%nat /\ Forall (fun a => 0 <= a < 256) os -> 0 <= p <= 32 ->
     src_cidr_abbrev_to_verbose (dotted os ++ "/" ++ fmt_d p) = Ok (Std4.ntoa (pad4 os) ++ "/" ++ fmt_d p)%string).
Proof. to_model. exact abbrev_prefixed. Qed.

(* [implicit_prefix_is_abbrev] of C03_partial; model lemma: net_init_abbrev *)
Lemma implicit_prefix_is_abbrev_code :
  (* IPNetwork(s, implicit_prefix=True) is IPNetwork(src_cidr_abbrev_to_verbose(s)), for every string *)
  (forall be s s' version flags, src_cidr_abbrev_to_verbose s = Ok s' ->
     src_net_init be (AStr s) true version flags = src_net_init be (AStr s') false version flags).
Proof. to_model. exact net_init_abbrev. Qed.

(* [partial_bare] of C03_partial; model lemma: partial_bare *)
Lemma partial_bare_code :
  (* IPNetwork on a partial form without prefix, implicit_prefix off: padded address, /32 *)
  (forall be os version flags,
     (1 <= List.length os <= 4)%nat /\ Forall (fun a => 0 <= a < 256) os -> version = Some 4 \/ version = None ->
     src_net_init be (AStr (dotted os)) false version flags = Ok {| nver := 4; nval := quad_value (pad4 os); nplen := 32 |}).
Proof. to_model. exact partial_bare. Qed.

(* [partial_prefixed] of C03_partial; model lemma: partial_prefixed *)
Lemma partial_prefixed_code :
  (* ... with an explicit prefix 0..32 (implicit_prefix on or off): that prefix *)
  (forall be os p ip version flags,
     (1 <= List.length os <= 4)%nat /\ Forall (fun a => 0 <= a < 256) os -> 0 <= p <= 32 -> version = Some 4 \/ version = None ->
     src_net_init be (AStr (dotted os ++ "/" ++ fmt_d p)) ip version flags =
     Ok {| nver := 4; nval := if has_flag flags NOHOST then quad_value (pad4 os) - quad_value (pad4 os) mod 2 ^ (width 4 - p)
                              else quad_value (pad4 os); nplen := p |}).
Proof. to_model. exact partial_prefixed. Qed.

(* [partial_classful] of C03_partial; model lemma: partial_classful *)
Lemma partial_classful_code :
  (* ... without prefix, implicit_prefix on: the classful prefix of the first octet (also for a full dotted quad) *)
  (forall be os o1 version flags,
     (1 <= List.length os <= 4)%nat /\ Forall (fun a => 0 <= a < 256) os -> hd_error os = Some o1 -> version = Some 4 \/ version = None ->
     src_net_init be (AStr (dotted os)) true version flags =
     Ok {| nver := 4;
           nval := if has_flag flags NOHOST then quad_value (pad4 os) - quad_value (pad4 os) mod 2 ^ (width 4 - classful o1)
                   else quad_value (pad4 os);
           nplen := classful o1 |}).
Proof. to_model. exact partial_classful. Qed.

(* [rejects_prefix] of C03_rejects; model lemma: rejects_prefix *)
Lemma rejects_prefix_code :
  (* a prefix text that int() reads as an integer outside 0..w (any spelling int() accepts: signs, blanks, underscores) *)
  (forall be ver v t n ip version flags,
     valid_ver ver = true /\ 0 <= v < 2 ^ width ver -> version = Some ver \/ version = None ->
     py_int 10 t = Some n -> ~ 0 <= n <= width ver ->
     (do a <- src_IPAddress_str be ver (width ver) v; src_net_init be (AStr (a ++ "/" ++ t)) ip version flags) = Raise AddrFormatError).
Proof. to_model. exact rejects_prefix. Qed.

(* [rejects_mask] of C03_rejects; model lemma: rejects_mask *)
Lemma rejects_mask_code :
  (* a mask text that the strict parser reads as a value that is neither a netmask nor a hostmask ... *)
  (forall be ver v t x m ip version flags,
     valid_ver ver = true /\ 0 <= v < 2 ^ width ver -> version = Some ver \/ version = None ->
     py_int 10 t = None -> src_IPAddress_init_str be t (Some ver) INET_PTON = Ok (x, m) ->
     is_netmask (width ver) m = false -> is_hostmask m = false ->
     (do a <- src_IPAddress_str be ver (width ver) v; src_net_init be (AStr (a ++ "/" ++ t)) ip version flags) = Raise AddrFormatError).
Proof. to_model. exact rejects_mask. Qed.

(* [not_contiguous] of C03_rejects; model lemma: not_contiguous *)
Lemma not_contiguous_code :
  (* ... which says exactly: m is not contiguous *)
  (forall w m, 0 <= w -> 0 <= m < 2 ^ w ->
     (is_netmask w m = false /\ is_hostmask m = false <->
      forall q, 0 <= q <= w -> m <> 2 ^ w - 2 ^ (w - q) /\ m <> 2 ^ (w - q) - 1)).
Proof. to_model. exact not_contiguous. Qed.

(* [rejects_mask_text] of C03_rejects; model lemma: rejects_mask_text *)
Lemma rejects_mask_text_code :
  (* a prefix part that is neither an integer nor an address of the family (including one holding a further '/') *)
  (forall be ver v t e ip version flags,
     valid_ver ver = true /\ 0 <= v < 2 ^ width ver -> version = Some ver \/ version = None ->
     py_int 10 t = None -> src_IPAddress_init_str be t (Some ver) INET_PTON = Raise e ->
     (do a <- src_IPAddress_str be ver (width ver) v; src_net_init be (AStr (a ++ "/" ++ t)) ip version flags) = Raise AddrFormatError).
Proof. to_model. exact rejects_mask_text. Qed.

(* [rejects_address] of C03_rejects; model lemma: rejects_address_any *)
Lemma rejects_address_code :
  (* an address part that the strict parser of the family (families) tried rejects and, for IPv4, that the partial
     expansion does not turn into an acceptable dotted quad; with or without a prefix part, implicit_prefix on or off *)
  (forall be val1 rest ip version flags, contains_char "/" val1 = false ->
     (rest = ""%string \/ exists t, rest = ("/" ++ t)%string) ->
     (version = Some 4 \/ version = None ->
        src_IPAddress_init_str be val1 (Some 4) INET_PTON = Raise AddrFormatError /\
        (src_ipv4_expand_partial_address val1 = Raise AddrFormatError \/
         exists e, src_ipv4_expand_partial_address val1 = Ok e /\ src_IPAddress_init_str be e (Some 4) INET_PTON = Raise AddrFormatError)) ->
     (version = Some 6 \/ version = None -> src_IPAddress_init_str be val1 (Some 6) INET_PTON = Raise AddrFormatError) ->
     version = Some 4 \/ version = Some 6 \/ version = None ->
     src_net_init be (AStr (val1 ++ rest)) ip version flags = Raise AddrFormatError).
Proof. to_model. exact rejects_address_any. Qed.

(* [implicit_prefix_conservative] of C03_rejects; model lemma: implicit_prefix_conservative *)
Lemma implicit_prefix_conservative_code :
  (* for EVERY string: what IPNetwork(s) rejects, IPNetwork(s, implicit_prefix=True) rejects too (the abbreviation step
     cannot make an unreadable text readable) *)
  (forall be s version flags, version = Some 4 \/ version = Some 6 \/ version = None ->
     src_net_init be (AStr s) false version flags = Raise AddrFormatError ->
     src_net_init be (AStr s) true version flags = Raise AddrFormatError).
Proof. to_model. exact implicit_prefix_conservative. Qed.

(* [rejects_tuple] of C03_rejects; model lemma: rejects_tuple *)
Lemma rejects_tuple_code :
  (forall be v p ip version flags ver, version = Some ver -> valid_ver ver = true ->
     ~ (0 <= v < 2 ^ width ver /\ 0 <= p <= width ver) ->
     src_net_init be (ATuple [v; p]) ip version flags = Raise AddrFormatError).
Proof. to_model. exact rejects_tuple. Qed.

(* [rejects_tuple_implicit] of C03_rejects; model lemma: rejects_tuple_implicit *)
Lemma rejects_tuple_implicit_code :
  (forall be v p ip flags, ~ (0 <= v < 2 ^ 128 /\ 0 <= p <= 128) ->
     src_net_init be (ATuple [v; p]) ip None flags = Raise AddrFormatError).
Proof. to_model. exact rejects_tuple_implicit. Qed.

(* [rejects_tuple_len] of C03_rejects; model lemma: rejects_tuple_len *)
Lemma rejects_tuple_len_code :
  (forall be t ip version flags, (List.length t <> 2)%nat ->
     version = Some 4 \/ version = Some 6 \/ version = None ->
     src_net_init be (ATuple t) ip version flags = Raise AddrFormatError).
Proof. to_model. exact rejects_tuple_len. Qed.

(* [exn_kind] of C03_total; model lemma: exn_kind *)
Lemma exn_kind_code :
  (* the only exceptions: AddrFormatError; ValueError for an invalid `version`; TypeError for a non-str, non-tuple argument *)
  (forall be a ip version flags e, wf_arg a -> src_net_init be a ip version flags = Raise e ->
     e = AddrFormatError \/
     (e = ValueError /\ exists v, version = Some v /\ v <> 4 /\ v <> 6) \/
     (e = TypeError /\ (forall t, a <> ATuple t) /\ (forall s, a <> AStr s))).
Proof. to_model. exact exn_kind. Qed.

(* [result_wf] of C03_total; model lemma: result_wf *)
Lemma result_wf_code :
  (* every network that is produced is well formed: no out-of-range prefix or value is ever stored *)
  (forall be a ip version flags n, wf_arg a -> src_net_init be a ip version flags = Ok n ->
     valid_ver (nver n) = true /\ 0 <= nval n < 2 ^ width (nver n) /\ 0 <= nplen n <= width (nver n)).
Proof. to_model. exact result_wf. Qed.

(* [other_type] of C03_total; model lemma: other_type *)
Lemma other_type_code :
  (forall be ip version flags, version = Some 4 \/ version = Some 6 \/ version = None ->
     src_net_init be AOther ip version flags = Raise TypeError).
Proof. to_model. exact other_type. Qed.

(* [bad_version] of C03_total; model lemma: bad_version *)
Lemma bad_version_code :
  (forall be a ip v flags, v <> 4 -> v <> 6 -> (forall n, a <> ANet n) -> (forall x y, a <> AAddr x y) ->
     src_net_init be a ip (Some v) flags = Raise ValueError).
Proof. to_model. exact bad_version. Qed.

(* [backend_invariant] of C03_backend_invariant; model lemma: net_init_be *)
Lemma backend_invariant_code :
  (forall be a ip version flags, src_net_init be a ip version flags = src_net_init Platform a ip version flags).
Proof. to_model. exact net_init_be. Qed.

(* [backend_invariant_str] of C03_backend_invariant; model lemma: (fun be ver v p => net_str_be be {| nver := ver; nval := v; nplen := p |}) *)
Lemma backend_invariant_str_code :
  (forall be ver v p, src_IPNetwork_str be ver (width ver) v p = src_IPNetwork_str Platform ver (width ver) v p).
Proof. to_model. exact (fun be ver v p => net_str_be be {| nver := ver; nval := v; nplen := p |}). Qed.
