(* Proofs/Code_C10.v — the C10 property theorems restated about the definitions regenerated from the source
   (Gen/pysrc_listlike_gen.v: IPListMixin.__len__ / __getitem__ for the receivers IPNetwork and IPRange;
    Gen/pysrc_iter_gen.v: IPListMixin.__iter__ for both receivers and the generator iter_iprange;
    Gen/pysrc_gen.v: first / last / size of IPNetwork and IPRange).
   Each lemma is the model theorem of Proofs/C10.v transported through Proofs/GenOk_Src_C10.v / GenOk_Src_C10_iter.v.
   The property quantifies over ranged objects x : ListLike.ranged (RNet | RRange | RGlob = an IPv4 IPRange); the code_r_*
   definitions below dispatch on the class of x to the generated method of that receiver class.  Iterators are observed
   through it_take_src (GenOk_Src_C10_iter.v): the generated prologue / resumption of iter_iprange pulled at most n times. *)
From NV Require Import Base.Tac Base.PyVal Model.Ip Model.PySlice Model.ListLike Model.SrcPrelude Model.SrcPreludeSRCE
  Gen.pysrc_gen Gen.pysrc_listlike_gen Gen.pysrc_iter_gen
  Proofs.C02 Proofs.C10 Proofs.GenOk_Src_C10 Proofs.GenOk_Src_C10_iter.
Import ListNotations.
Open Scope Z_scope.

Definition code_r_first (x : ranged) : Z :=
  match x with
  | RNet ver v p => src_IPNetwork_first ver (width ver) v p
  | RRange ver s e => src_IPRange_first ver (width ver) s e
  | RGlob s e => src_IPRange_first 4 (width 4) s e
  end.
Definition code_r_last (x : ranged) : Z :=
  match x with
  | RNet ver v p => src_IPNetwork_last ver (width ver) v p
  | RRange ver s e => src_IPRange_last ver (width ver) s e
  | RGlob s e => src_IPRange_last 4 (width 4) s e
  end.
Definition code_r_size (x : ranged) : Z :=
  match x with
  | RNet ver v p => src_IPNetwork_size ver (width ver) v p
  | RRange ver s e => src_IPRange_size ver (width ver) s e
  | RGlob s e => src_IPRange_size 4 (width 4) s e
  end.
Definition code_r_len (x : ranged) : outcome Z :=
  match x with
  | RNet ver v p => src_IPNetwork_len ver (width ver) v p
  | RRange ver s e => src_IPRange_len ver (width ver) s e
  | RGlob s e => src_IPRange_len 4 (width 4) s e
  end.
Definition code_r_getitem_int (x : ranged) (index : Z) : outcome (Z * Z) :=
  match x with
  | RNet ver v p => src_IPNetwork_getitem_int ver (width ver) v p index
  | RRange ver s e => src_IPRange_getitem_int ver (width ver) s e index
  | RGlob s e => src_IPRange_getitem_int 4 (width 4) s e index
  end.
Definition code_r_getitem_slice (x : ranged) (a b c : option Z) : outcome iterator :=
  match x with
  | RNet ver v p => src_IPNetwork_getitem_slice ver (width ver) v p (a, b, c)
  | RRange ver s e => src_IPRange_getitem_slice ver (width ver) s e (a, b, c)
  | RGlob s e => src_IPRange_getitem_slice 4 (width 4) s e (a, b, c)
  end.
Definition code_r_iter (x : ranged) : outcome iterator :=
  match x with
  | RNet ver v p => src_IPNetwork_iter ver (width ver) v p
  | RRange ver s e => src_IPRange_iter ver (width ver) s e
  | RGlob s e => src_IPRange_iter 4 (width 4) s e
  end.

Lemma code_r_first_eq x : code_r_first x = r_first x. Proof. destruct x; reflexivity. Qed.
Lemma code_r_last_eq x : code_r_last x = r_last x. Proof. destruct x; reflexivity. Qed.
Lemma code_r_size_eq x : code_r_size x = r_size x. Proof. destruct x; reflexivity. Qed.
Lemma code_r_len_eq x : code_r_len x = r_len x.
Proof. destruct x as [ver v p|ver s e|s e]; [apply src_net_len_ok|apply src_range_len_ok|apply src_range_len_ok]. Qed.
Lemma code_r_getitem_int_eq x i : code_r_getitem_int x i = r_getitem_int x i.
Proof.
  destruct x as [ver v p|ver s e|s e];
    [apply src_net_getitem_int_ok|apply src_range_getitem_int_ok|apply (src_range_getitem_int_ok 4)].
Qed.
Lemma code_r_getitem_slice_eq x a b c : code_r_getitem_slice x a b c = r_getitem_slice x a b c.
Proof.
  destruct x as [ver v p|ver s e|s e];
    [apply src_net_getitem_slice_ok|apply src_range_getitem_slice_ok|apply (src_range_getitem_slice_ok 4)].
Qed.
Lemma code_r_iter_eq x : code_r_iter x = r_iter x. Proof. destruct x; reflexivity. Qed.

(* ---- iteration ---- *)
Lemma code_iter_spec x : rwf x ->
  exists it, code_r_iter x = Ok it /\
    forall n, it_take_src n it = aseq_take n {| a_start := code_r_first x; a_count := code_r_size x; a_step := 1 |} /\
              it_take_src n it = list_take n (r_addresses x).
Proof.
  intros H. rewrite code_r_iter_eq, code_r_first_eq, code_r_size_eq. destruct (iter_spec x H) as (it & E & T).
  exists it. split; [exact E|]. intros n. rewrite it_take_src_ok. exact (T n).
Qed.

(* ---- size and len ---- *)
Lemma code_len_spec x :
  code_r_size x = code_r_last x - code_r_first x + 1 /\
  code_r_len x = if code_r_size x <=? 2 ^ 63 - 1 then Ok (code_r_size x) else Raise IndexError.
Proof. rewrite code_r_len_eq, code_r_size_eq, code_r_first_eq, code_r_last_eq. exact (len_spec x). Qed.

Lemma code_net_size_pow2 ver v p : rwf (RNet ver v p) -> src_IPNetwork_size ver (width ver) v p = 2 ^ (width ver - p).
Proof. exact (net_size_pow2 ver v p). Qed.

(* ---- integer indexing ---- *)
Lemma code_index_spec x i : rwf x ->
  code_r_getitem_int x i =
    if (- code_r_size x <=? i) && (i <? code_r_size x) then Ok (r_ver x, code_r_first x + i mod code_r_size x)
    else Raise IndexError.
Proof. intros H. rewrite code_r_getitem_int_eq, code_r_size_eq, code_r_first_eq. exact (index_spec x i H). Qed.

Lemma code_index_list x i : rwf x ->
  code_r_getitem_int x i = omap (fun a => (r_ver x, a)) (py_list_index (r_addresses x) i).
Proof. intros H. rewrite code_r_getitem_int_eq. exact (index_list x i H). Qed.

(* ---- slicing ---- *)
Lemma code_slice_match x a b c : rwf x -> r_ver x = 4 ->
  match py_slice_indices a b c (code_r_size x) with
  | Raise err => err = ValueError /\ c = Some 0 /\ code_r_getitem_slice x a b c = Raise ValueError
  | Ok (s, e, st) =>
      st <> 0 /\ st = match c with None => 1 | Some z => z end /\
      (exists it, code_r_getitem_slice x a b c = Ok it /\
         forall n, it_take_src n it =
                   aseq_take n {| a_start := code_r_first x + s; a_count := range_len s e st; a_step := st |}) /\
      (forall k, 0 <= k < range_len s e st ->
         0 <= s + k * st < code_r_size x /\ code_r_first x <= code_r_first x + s + k * st <= code_r_last x)
  end.
Proof.
  intros H H4. rewrite code_r_size_eq, code_r_first_eq, code_r_last_eq, code_r_getitem_slice_eq.
  pose proof (slice_match x a b c H H4) as M.
  destruct (py_slice_indices a b c (r_size x)) as [[[s e] st]|err]; [|exact M].
  destruct M as (M1 & M2 & (it & E & T) & M4). split; [exact M1|]. split; [exact M2|]. split; [|exact M4].
  exists it. split; [exact E|]. intros n. rewrite it_take_src_ok. exact (T n).
Qed.

Lemma code_slice_list x a b c : rwf x -> r_ver x = 4 ->
  match py_list_slice (r_addresses x) a b c with
  | Raise e => code_r_getitem_slice x a b c = Raise e
  | Ok l => exists it, code_r_getitem_slice x a b c = Ok it /\ forall n, it_take_src n it = list_take n l
  end.
Proof.
  intros H H4. rewrite code_r_getitem_slice_eq. pose proof (slice_list x a b c H H4) as M.
  destruct (py_list_slice (r_addresses x) a b c) as [l|e]; [|exact M].
  destruct M as (it & E & T). exists it. split; [exact E|]. intros n. rewrite it_take_src_ok. exact (T n).
Qed.

Lemma code_slice_v6 x a b c : r_ver x = 6 -> code_r_getitem_slice x a b c = Raise TypeError.
Proof. intros H. rewrite code_r_getitem_slice_eq. exact (slice_v6 x a b c H). Qed.

(* ---- iter_iprange ---- *)
Lemma code_iprange_spec sver sv ever ev step :
  valid_ver sver = true -> valid_ver ever = true -> 0 <= sv <= max_int sver -> 0 <= ev <= max_int ever ->
  forall n,
  iter_iprange_src_take n sver sv ever ev step =
    if negb (sver =? ever) then ([], Raised TypeError)
    else if step =? 0 then ([], Raised ValueError)
    else aseq_take n {| a_start := sv; a_count := Z.max 0 ((ev - sv) / step + 1); a_step := step |}.
Proof.
  intros H1 H2 H3 H4 n. rewrite src_iter_iprange_ok. exact (iprange_spec sver sv ever ev step H1 H2 H3 H4 n).
Qed.

(* bool(x) is True for every ranged object *)
Lemma code_nonzero ver w v p s e : src_IPNetwork_nonzero ver w v p = true /\ src_IPRange_nonzero ver w s e = true.
Proof. split; reflexivity. Qed.
