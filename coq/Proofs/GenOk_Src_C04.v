(* Proofs/GenOk_Src_C04.v — source tie for C04: the definitions regenerated from the text of IPNetwork.__contains__ and
   IPRange.__contains__ (Gen/pysrc_gen.v: the isinstance dispatch as a match on SrcPrelude.operand, one arm per operand
   class) equal the hand-written model Contains.net_contains / range_contains on the three BaseIP operand kinds.
   The fourth kind OOther (a string, ...) is the Python methods' parser fallback `IPNetwork(other) in self` /
   `IPAddress(other) in self`, which is NOT translated: the generated arm is `Raise Unsupported` (stated below).
   Hypothesis, IPNetwork.__contains__ only: prefixlen <= width.  The method shifts by `width - prefixlen`, built from the
   receiver's own state, which the translator takes as non-negative (class invariant, DESIGN 3), while the model carries
   CPython's negative-shift ValueError; IPRange.__contains__ shifts by the OPERAND's width - prefixlen, which the
   translator guards, so that equality needs nothing. *)
From NV Require Import Base.Tac Base.PyVal Model.Ip Model.Contains Model.SrcPrelude Gen.pysrc_gen.
Open Scope Z_scope.

(* the three BaseIP kinds of SrcPrelude.operand are Contains.ipobj *)
Definition operand_of (o : ipobj) : operand :=
  match o with Addr ver v => OAddr ver v | Net ver v p => ONet ver v p | Rng ver s e => ORng ver s e end.

Lemma src_net_contains_ok (W : Z -> Z) sver sv sp o : sp <= W sver ->
  src_IPNetwork_contains sver (W sver) sv sp (operand_of o) = net_contains W sver sv sp o.
Proof.
  intros H. unfold src_IPNetwork_contains, net_contains, py_shiftr, py_shiftl.
  replace (W sver - sp <? 0) with false by lia.
  destruct o as [ver v|ver v p|ver s e]; cbn [operand_of over];
    (destruct (negb (sver =? ver)); [reflexivity|]); cbv zeta; cbn [bind]; try reflexivity.
  destruct (Z.shiftl (Z.shiftr sv (W sver - sp)) (W sver - sp) <=? s); reflexivity.
Qed.

Lemma src_range_contains_ok sver w ss se o :
  src_IPRange_contains sver w ss se (operand_of o) = range_contains width sver ss se o.
Proof.
  unfold src_IPRange_contains, range_contains, py_shiftr, py_shiftl.
  destruct o as [ver v|ver v p|ver s e]; cbn [operand_of over];
    (destruct (negb (sver =? ver)); [reflexivity|]); cbv zeta; try reflexivity.
  destruct (width ver - p <? 0); reflexivity.
Qed.

Lemma src_contains_other sver w sv sp ss se :
  src_IPNetwork_contains sver w sv sp OOther = Raise Unsupported /\
  src_IPRange_contains sver w ss se OOther = Raise Unsupported.
Proof. split; reflexivity. Qed.

(* everything the C04 source tie states (Props/C04_src.v) *)
Lemma C04_tie_ok :
  (forall (W : Z -> Z) sver sv sp, sp <= W sver ->
     (forall ver v, src_IPNetwork_contains sver (W sver) sv sp (OAddr ver v) = net_contains W sver sv sp (Addr ver v)) /\
     (forall ver v p, src_IPNetwork_contains sver (W sver) sv sp (ONet ver v p) = net_contains W sver sv sp (Net ver v p)) /\
     (forall ver s e, src_IPNetwork_contains sver (W sver) sv sp (ORng ver s e) = net_contains W sver sv sp (Rng ver s e))) /\
  (forall sver w ss se,
     (forall ver v, src_IPRange_contains sver w ss se (OAddr ver v) = range_contains width sver ss se (Addr ver v)) /\
     (forall ver v p, src_IPRange_contains sver w ss se (ONet ver v p) = range_contains width sver ss se (Net ver v p)) /\
     (forall ver s e, src_IPRange_contains sver w ss se (ORng ver s e) = range_contains width sver ss se (Rng ver s e))) /\
  (forall sver w sv sp ss se,
     src_IPNetwork_contains sver w sv sp OOther = Raise Unsupported /\
     src_IPRange_contains sver w ss se OOther = Raise Unsupported).
Proof.
  split; [|split; [|exact src_contains_other]].
  - intros W sver sv sp H. split; [|split]; intros.
    + exact (src_net_contains_ok W sver sv sp (Addr ver v) H).
    + exact (src_net_contains_ok W sver sv sp (Net ver v p) H).
    + exact (src_net_contains_ok W sver sv sp (Rng ver s e) H).
  - intros sver w ss se. split; [|split]; intros.
    + exact (src_range_contains_ok sver w ss se (Addr ver v)).
    + exact (src_range_contains_ok sver w ss se (Net ver v p)).
    + exact (src_range_contains_ok sver w ss se (Rng ver s e)).
Qed.
