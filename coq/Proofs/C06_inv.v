(* Proofs/C06_inv.v — C06 part A, invariant level: Python-dict lemmas for the stored `_cidrs` key list, sorted(),
   SetInv <-> canonical list, uniqueness of the canonical list of both families, what iter_cidrs/repr/iteration
   show (C06_shown), extensional equality (C06_extensional), and the specification Props (add_spec, remove_spec,
   pop_spec, inter_spec, diff_spec, xor_spec) that the other C06/C07 proof files target. *)
From NV Require Import Base.Tac Base.PyVal Base.Bits Base.Canon Model.Ip Model.Partition Model.Span Model.Merge Model.Sets
  Proofs.C02 Proofs.NetDen.
From Coq Require Import Sorting.Sorted Sorting.Permutation.
Open Scope Z_scope.

(* ================================================================ generic list facts *)
Lemma SS_weaken {A} (R Q : A -> A -> Prop) l :
  StronglySorted R l -> (forall a b, In a l -> In b l -> R a b -> Q a b) -> StronglySorted Q l.
Proof.
  intros S. induction S as [|a l S IH F]; intros H; constructor.
  - apply IH. intros x y Hx Hy. apply H; now right.
  - rewrite Forall_forall in *. intros x Hx. apply H; [now left|now right|apply F, Hx].
Qed.

(* a relation that holds between distinct members only *)
Lemma SS_weaken_nodup {A} (R Q : A -> A -> Prop) l :
  StronglySorted R l -> NoDup l -> (forall a b, In a l -> In b l -> a <> b -> R a b -> Q a b) -> StronglySorted Q l.
Proof.
  intros S. induction S as [|a l S IH F]; intros N H; constructor.
  - inversion N; subst. apply IH; [assumption|]. intros x y Hx Hy. apply H; now right.
  - inversion N; subst. rewrite Forall_forall in *. intros x Hx. apply H; [now left|now right| |apply F, Hx].
    intros ->. contradiction.
Qed.

Lemma SS_map_inv {A B} (f : A -> B) (R : B -> B -> Prop) (Q : A -> A -> Prop) l :
  StronglySorted R (map f l) -> (forall a b, In a l -> In b l -> R (f a) (f b) -> Q a b) -> StronglySorted Q l.
Proof.
  induction l as [|a l IH]; intros S H; [constructor|]. cbn [map] in S. apply StronglySorted_inv in S.
  destruct S as [S F]. constructor.
  - apply IH; [exact S|]. intros x y Hx Hy. apply H; now right.
  - rewrite Forall_forall in *. intros x Hx. apply H; [now left|now right|]. apply F. now apply in_map.
Qed.

Lemma SS_map {A B} (f : A -> B) (R : B -> B -> Prop) (Q : A -> A -> Prop) l :
  StronglySorted Q l -> (forall a b, In a l -> In b l -> Q a b -> R (f a) (f b)) -> StronglySorted R (map f l).
Proof.
  intros S. induction S as [|a l S IH F]; intros H; cbn [map]; constructor.
  - apply IH. intros x y Hx Hy. apply H; now right.
  - rewrite Forall_forall in *. intros y Hy. apply in_map_iff in Hy. destruct Hy as (x & <- & Hx).
    apply H; [now left|now right|apply F, Hx].
Qed.

Lemma SS_filter {A} (R : A -> A -> Prop) (p : A -> bool) l : StronglySorted R l -> StronglySorted R (filter p l).
Proof.
  intros S. induction S as [|a l S IH F]; cbn [filter]; [constructor|].
  destruct (p a); [|exact IH]. constructor; [exact IH|].
  rewrite Forall_forall in *. intros x Hx. apply filter_In in Hx. apply F, Hx.
Qed.

Lemma SS_app {A} (R : A -> A -> Prop) l1 l2 :
  StronglySorted R l1 -> StronglySorted R l2 -> (forall a b, In a l1 -> In b l2 -> R a b) -> StronglySorted R (l1 ++ l2).
Proof.
  intros S1 S2 H. induction S1 as [|a l1 S1 IH F]; cbn; [exact S2|]. constructor.
  - apply IH. intros; apply H; auto. now right.
  - rewrite Forall_forall in *. intros x Hx. apply in_app_or in Hx. destruct Hx; [auto|apply H; auto; now left].
Qed.

Lemma SS_FOP {A} (R : A -> A -> Prop) l : StronglySorted R l <-> ForallOrdPairs R l.
Proof.
  split; intros S; induction S; constructor; auto.
Qed.

Lemma SS_In {A} (R : A -> A -> Prop) l : StronglySorted R l ->
  forall x y, In x l -> In y l -> x = y \/ R x y \/ R y x.
Proof. intros S. apply ForallOrdPairs_In. apply SS_FOP. exact S. Qed.

(* for a symmetric relation, "all ordered pairs" is an order-free statement *)
Lemma FOP_sym_iff {A} (R : A -> A -> Prop) l : (forall a b, R a b -> R b a) -> (forall a, In a l -> ~ R a a) ->
  (ForallOrdPairs R l <-> NoDup l /\ forall a b, In a l -> In b l -> a <> b -> R a b).
Proof.
  intros Sym Irr. split.
  - intros F. split.
    + induction F as [|a l Fa F IH]; constructor.
      * intros Hin. rewrite Forall_forall in Fa. apply (Irr a); [now left|apply Fa, Hin].
      * apply IH. intros x Hx. apply Irr. now right.
    + intros a b Ha Hb Hne. destruct (ForallOrdPairs_In F a b Ha Hb) as [E|[H|H]]; [contradiction|exact H|apply Sym, H].
  - intros [N H]. induction N as [|a l Hn N IH]; constructor.
    + rewrite Forall_forall. intros x Hx. apply H; [now left|now right|]. intros ->. contradiction.
    + apply IH; [intros x Hx; apply Irr; now right|]. intros x y Hx Hy. apply H; now right.
Qed.

Lemma map_inj_in {A B} (f : A -> B) l1 : forall l2,
  (forall a b, In a l1 -> In b l2 -> f a = f b -> a = b) -> map f l1 = map f l2 -> l1 = l2.
Proof.
  induction l1 as [|a l1 IH]; intros [|b l2] H E; try discriminate; [reflexivity|].
  cbn [map] in E. injection E as E1 E2. f_equal.
  - apply H; [now left|now left|exact E1].
  - apply IH; [|exact E2]. intros x y Hx Hy. apply H; now right.
Qed.

(* ================================================================ key equality *)
Lemma key_eqb_iff a b : key_eqb a b = true <-> nver a = nver b /\ nf a = nf b /\ nl a = nl b.
Proof. unfold key_eqb. rewrite !andb_true_iff, !Z.eqb_eq. tauto. Qed.

Lemma key_eqb_refl a : key_eqb a a = true.
Proof. apply key_eqb_iff. auto. Qed.

Lemma key_eqb_sym a b : key_eqb a b = key_eqb b a.
Proof. unfold key_eqb. rewrite (Z.eqb_sym (nver a)), (Z.eqb_sym (nf a)), (Z.eqb_sym (nl a)). reflexivity. Qed.

Lemma key_eqb_trans a b c : key_eqb a b = true -> key_eqb b c = true -> key_eqb a c = true.
Proof. rewrite !key_eqb_iff. intros (?&?&?) (?&?&?). repeat split; congruence. Qed.

(* key-equal objects contain the same addresses *)
Lemma key_eqb_in_net a b ver x : key_eqb a b = true -> (in_net a ver x <-> in_net b ver x).
Proof. rewrite key_eqb_iff. intros (Ev & Ef & El). unfold in_net. rewrite Ev, Ef, El. tauto. Qed.

(* a well-formed network is not empty *)
Lemma wf_nonempty n : wf_net n -> nf n <= nl n.
Proof.
  intros W. rewrite (nl_eq n W). pose proof W as (_ & _ & Hp).
  pose proof (pow2_pos (width (nver n) - nplen n)). lia.
Qed.

Lemma in_net_first n : wf_net n -> in_net n (nver n) (nf n).
Proof. intros W. pose proof (wf_nonempty n W). unfold in_net. split; [reflexivity|lia]. Qed.

(* for host-bit-free well-formed networks, key equality is object equality *)
Lemma wfh_key_eq a b : wfh a -> wfh b -> key_eqb a b = true -> a = b.
Proof.
  intros (Wa & Ha) (Wb & Hb) K. apply key_eqb_iff in K. destruct K as (Ev & Ef & El).
  rewrite (nl_eq a Wa), (nl_eq b Wb), Ev in El.
  pose proof Wa as (_ & _ & Hpa). pose proof Wb as (_ & _ & Hpb). rewrite Ev in Hpa.
  assert (E: 2 ^ (width (nver b) - nplen a) = 2 ^ (width (nver b) - nplen b)) by lia.
  apply Z.pow_inj_r in E; try lia.
  assert (Evl: nval a = nval b) by (unfold hostfree in *; congruence).
  clear - Ev E Evl. destruct a, b; simpl in *. f_equal; lia.
Qed.

Lemma wfh_key_eqb_iff a b : wfh a -> wfh b -> (key_eqb a b = true <-> a = b).
Proof. intros Wa Wb. split; [apply wfh_key_eq; assumption|intros ->; apply key_eqb_refl]. Qed.

(* ================================================================ dict lemmas *)
Lemma dmem_iff k d : dmem k d = true <-> exists k', In k' d /\ key_eqb k k' = true.
Proof. unfold dmem. apply existsb_exists. Qed.

Lemma dmem_false_iff k d : dmem k d = false <-> forall k', In k' d -> key_eqb k k' = false.
Proof.
  split.
  - intros H k' Hk. destruct (key_eqb k k') eqn:E; [|reflexivity].
    assert (dmem k d = true) by (apply dmem_iff; eauto). congruence.
  - intros H. destruct (dmem k d) eqn:E; [|reflexivity]. apply dmem_iff in E. destruct E as (k' & Hk & E).
    rewrite (H _ Hk) in E. discriminate.
Qed.

Lemma dmem_in k d : wfh k -> Forall wfh d -> (dmem k d = true <-> In k d).
Proof.
  intros Wk Wd. rewrite dmem_iff. rewrite Forall_forall in Wd. split.
  - intros (k' & Hk & E). apply wfh_key_eq in E; auto. now subst.
  - intros H. exists k. split; [exact H|apply key_eqb_refl].
Qed.

Lemma dmem_den k d ver x : dmem k d = true -> in_net k ver x -> den d ver x.
Proof. intros H I. apply dmem_iff in H. destruct H as (k' & Hk & E). exists k'. split; [exact Hk|]. apply (key_eqb_in_net k k'); assumption. Qed.

Lemma in_dset x d k : In x (dset d k) <-> In x d \/ (x = k /\ dmem k d = false).
Proof.
  unfold dset. destruct (dmem k d) eqn:E.
  - split; [auto|]. intros [H|[_ H]]; [exact H|discriminate].
  - rewrite in_app_iff. cbn [In]. split; intros [H|H]; auto.
    + destruct H as [<-|[]]. auto.
    + destruct H as [-> _]. auto.
Qed.

Lemma dset_keeps x d k : In x d -> In x (dset d k).
Proof. intros H. apply in_dset. auto. Qed.

Lemma dmem_dset k d : dmem k (dset d k) = true.
Proof.
  unfold dset. destruct (dmem k d) eqn:E; [exact E|]. apply dmem_iff. exists k. split; [apply in_or_app; right; now left|apply key_eqb_refl].
Qed.

Lemma dmem_dset_iff x d k : dmem x (dset d k) = true <-> dmem x d = true \/ key_eqb x k = true.
Proof.
  rewrite !dmem_iff. split.
  - intros (k' & Hk & E). apply in_dset in Hk. destruct Hk as [Hk|[-> _]]; [left; eauto|right; exact E].
  - intros [(k' & Hk & E)|E].
    + exists k'. split; [apply dset_keeps, Hk|exact E].
    + pose proof (dmem_dset k d) as M. apply dmem_iff in M. destruct M as (k' & Hk & E').
      exists k'. split; [exact Hk|eapply key_eqb_trans; eassumption].
Qed.

Lemma den_dset d k ver x : den (dset d k) ver x <-> den d ver x \/ in_net k ver x.
Proof.
  unfold dset. destruct (dmem k d) eqn:E.
  - split; [auto|]. intros [H|H]; [exact H|eapply dmem_den; eassumption].
  - rewrite den_app, den_cons. pose proof (den_nil ver x). tauto.
Qed.

Lemma dset_fresh d k : dmem k d = false -> dset d k = d ++ [k].
Proof. unfold dset. now intros ->. Qed.

Lemma dset_present d k : dmem k d = true -> dset d k = d.
Proof. unfold dset. now intros ->. Qed.

(* dict.update / dict.fromkeys *)
Lemma dupdate_cons d k l : dupdate d (k :: l) = dupdate (dset d k) l.
Proof. reflexivity. Qed.

Lemma den_dupdate l : forall d ver x, den (dupdate d l) ver x <-> den d ver x \/ den l ver x.
Proof.
  induction l as [|k l IH]; intros d ver x.
  - cbn. pose proof (den_nil ver x). tauto.
  - rewrite dupdate_cons, IH, den_dset, den_cons. tauto.
Qed.

Lemma in_dupdate l : forall d x, In x (dupdate d l) -> In x d \/ In x l.
Proof.
  induction l as [|k l IH]; intros d x H; [left; exact H|].
  rewrite dupdate_cons in H. apply IH in H. destruct H as [H|H]; [|right; now right].
  apply in_dset in H. destruct H as [H|[-> _]]; [left; exact H|right; now left].
Qed.

Lemma dupdate_keeps l : forall d x, In x d -> In x (dupdate d l).
Proof. induction l as [|k l IH]; intros d x H; [exact H|]. rewrite dupdate_cons. apply IH, dset_keeps, H. Qed.

Lemma dmem_dupdate l : forall d x, dmem x (dupdate d l) = true <-> dmem x d = true \/ dmem x l = true.
Proof.
  induction l as [|k l IH]; intros d x.
  - cbn [dupdate fold_left]. split; [auto|]. intros [H|H]; [exact H|discriminate].
  - rewrite dupdate_cons, IH, dmem_dset_iff. cbn [dmem existsb]. fold (dmem x l). rewrite orb_true_iff. tauto.
Qed.

Lemma Forall_dupdate (P : net -> Prop) d l : Forall P d -> Forall P l -> Forall P (dupdate d l).
Proof.
  rewrite !Forall_forall. intros Hd Hl x Hx. apply in_dupdate in Hx. destruct Hx; auto.
Qed.

(* updating with keys that are new and pairwise distinct appends them in order *)
Lemma dupdate_fresh l : forall d, Forall wfh (d ++ l) -> NoDup (d ++ l) -> dupdate d l = d ++ l.
Proof.
  induction l as [|k l IH]; intros d W N; [cbn; now rewrite app_nil_r|].
  rewrite dupdate_cons.
  assert (Hk: dmem k d = false).
  { destruct (dmem k d) eqn:E; [|reflexivity]. exfalso.
    apply dmem_in in E.
    - apply NoDup_remove_2 in N. apply N. apply in_or_app. now left.
    - rewrite Forall_forall in W. apply W. apply in_or_app. right. now left.
    - apply Forall_app in W. apply W. }
  rewrite (dset_fresh _ _ Hk). replace (d ++ k :: l) with ((d ++ [k]) ++ l) in * by (rewrite <- app_assoc; reflexivity).
  apply IH; assumption.
Qed.

Lemma dfromkeys_dupdate l : dfromkeys l = dupdate [] l.
Proof. reflexivity. Qed.

Lemma dfromkeys_id l : Forall wfh l -> NoDup l -> dfromkeys l = l.
Proof. intros W N. rewrite dfromkeys_dupdate. apply (dupdate_fresh l []); assumption. Qed.

Lemma den_dfromkeys l ver x : den (dfromkeys l) ver x <-> den l ver x.
Proof. rewrite dfromkeys_dupdate, den_dupdate. pose proof (den_nil ver x). tauto. Qed.

Lemma in_dfromkeys l x : In x (dfromkeys l) -> In x l.
Proof. intros H. apply in_dupdate in H. destruct H as [[]|H]; exact H. Qed.

Lemma dmem_dfromkeys l x : dmem x (dfromkeys l) = dmem x l.
Proof.
  destruct (dmem x l) eqn:E.
  - apply dmem_dupdate. auto.
  - destruct (dmem x (dfromkeys l)) eqn:E2; [|reflexivity]. apply dmem_dupdate in E2. destruct E2; [discriminate|congruence].
Qed.

(* del d[k] *)
Lemma ddel_split k d : dmem k d = true ->
  exists d1 k' d2, d = d1 ++ k' :: d2 /\ key_eqb k k' = true /\ dmem k d1 = false /\ ddel d k = Ok (d1 ++ d2).
Proof.
  induction d as [|x d IH]; intros H; [discriminate|]. cbn [dmem existsb] in H. cbn [ddel].
  destruct (key_eqb k x) eqn:E.
  - exists [], x, d. repeat split; auto.
  - cbn [orb] in H. destruct (IH H) as (d1 & k' & d2 & -> & Ek & Hn & Hd).
    exists (x :: d1), k', d2. rewrite Hd. cbn [bind dmem existsb]. rewrite E. repeat split; auto.
Qed.

Lemma ddel_raise k d : dmem k d = false -> ddel d k = Raise KeyError.
Proof.
  induction d as [|x d IH]; intros H; [reflexivity|]. cbn [dmem existsb] in H. apply orb_false_iff in H.
  destruct H as [E H]. cbn [ddel]. rewrite E, (IH H). reflexivity.
Qed.

Lemma ddel_ok k d : wfh k -> Forall wfh d -> In k d ->
  exists d', ddel d k = Ok d' /\ Permutation d (k :: d') /\ (NoDup d -> forall x, In x d' <-> In x d /\ x <> k).
Proof.
  intros Wk Wd Hin. destruct (ddel_split k d) as (d1 & k' & d2 & -> & Ek & Hn & Hd).
  { apply dmem_in; assumption. }
  assert (k = k').
  { apply wfh_key_eq; auto. rewrite Forall_forall in Wd. apply Wd. apply in_or_app. right. now left. }
  subst k'. exists (d1 ++ d2). split; [exact Hd|split].
  - symmetry. apply Permutation_middle.
  - intros N x. pose proof (NoDup_remove_2 _ _ _ N) as Nk. rewrite !in_app_iff. cbn [In]. rewrite in_app_iff in Nk.
    split; [intros H; split; [tauto|intros ->; tauto]|intros [[H|[H|H]] Hne]; auto; congruence].
Qed.

(* dict == dict *)
Lemma dict_eqb_iff a b : Forall wfh a -> Forall wfh b -> NoDup a -> NoDup b ->
  (dict_eqb a b = true <-> Permutation a b).
Proof.
  intros Wa Wb Na Nb. unfold dict_eqb. rewrite andb_true_iff, Nat.eqb_eq, forallb_forall. split.
  - intros [L H]. apply NoDup_Permutation_bis; [exact Na|rewrite L; apply le_n|].
    intros k Hk. apply (dmem_in k b); auto. rewrite Forall_forall in Wa. auto.
  - intros P. split; [apply Permutation_length, P|]. intros k Hk. apply dmem_in; auto.
    + rewrite Forall_forall in Wa. auto.
    + eapply Permutation_in; eassumption.
Qed.

(* ================================================================ sorted() *)
Lemma lex_leb_total a : forall b, lex_leb a b = false -> lex_leb b a = true.
Proof.
  induction a as [|x a IH]; intros [|y b] H; cbn [lex_leb] in *; try discriminate; try reflexivity.
  case_ltb x y; [discriminate|]. case_ltb y x; [reflexivity|]. apply IH, H.
Qed.

Lemma lex_leb_refl a : lex_leb a a = true.
Proof. induction a as [|x a IH]; [reflexivity|]. cbn [lex_leb]. rewrite Z.ltb_irrefl. exact IH. Qed.

Lemma lex_leb_trans a : forall b c, lex_leb a b = true -> lex_leb b c = true -> lex_leb a c = true.
Proof.
  induction a as [|x a IH]; intros [|y b] [|z c] Hab Hbc; cbn [lex_leb] in *; try discriminate; try reflexivity.
  destruct (Z.ltb_spec x y), (Z.ltb_spec y x), (Z.ltb_spec y z), (Z.ltb_spec z y), (Z.ltb_spec x z), (Z.ltb_spec z x);
    try lia; try discriminate; try reflexivity. eapply IH; eassumption.
Qed.

Definition skey_le (a b : net) : Prop := lex_leb (sort_key a) (sort_key b) = true.

Lemma ins_sorted_perm x l : Permutation (ins_sorted x l) (x :: l).
Proof.
  induction l as [|y r IH]; cbn [ins_sorted]; [apply Permutation_refl|].
  destruct (lex_ltb (sort_key x) (sort_key y)); [apply Permutation_refl|].
  eapply Permutation_trans; [apply perm_skip, IH|apply perm_swap].
Qed.

Lemma ins_sorted_SS x l : StronglySorted skey_le l -> StronglySorted skey_le (ins_sorted x l).
Proof.
  intros S. induction S as [|y r S IH F]; cbn [ins_sorted]; [repeat constructor|].
  unfold lex_ltb. destruct (lex_leb (sort_key y) (sort_key x)) eqn:E; cbn [negb].
  - constructor; [exact IH|]. rewrite Forall_forall in *. intros z Hz.
    apply (Permutation_in _ (ins_sorted_perm x r)) in Hz. destruct Hz as [<-|Hz]; [exact E|apply F, Hz].
  - apply lex_leb_total in E. constructor; [constructor; assumption|].
    constructor; [exact E|]. rewrite Forall_forall in *. intros z Hz. unfold skey_le.
    eapply lex_leb_trans; [exact E|apply F, Hz].
Qed.

Lemma sorted_acc_perm l : forall acc, Permutation (fold_left (fun acc x => ins_sorted x acc) l acc) (acc ++ l).
Proof.
  induction l as [|x l IH]; intros acc; cbn [fold_left]; [rewrite app_nil_r; apply Permutation_refl|].
  eapply Permutation_trans; [apply IH|]. eapply Permutation_trans; [apply Permutation_app_tail, ins_sorted_perm|].
  cbn. apply Permutation_middle.
Qed.

Lemma sorted_acc_SS l : forall acc, StronglySorted skey_le acc ->
  StronglySorted skey_le (fold_left (fun acc x => ins_sorted x acc) l acc).
Proof. induction l as [|x l IH]; intros acc S; cbn [fold_left]; [exact S|]. apply IH, ins_sorted_SS, S. Qed.

(* sorted() returns a permutation of its input ... *)
Lemma sorted_perm l : Permutation (sorted l) l.
Proof. unfold sorted. apply (sorted_acc_perm l []). Qed.

(* ... in ascending sort_key order *)
Lemma sorted_SS l : StronglySorted skey_le (sorted l).
Proof. unfold sorted. apply sorted_acc_SS. constructor. Qed.

Lemma sorted_in l x : In x (sorted l) <-> In x l.
Proof.
  split; intros H; [eapply Permutation_in; [apply sorted_perm|exact H]|].
  eapply Permutation_in; [apply Permutation_sym, sorted_perm|exact H].
Qed.

Lemma sorted_den l ver x : den (sorted l) ver x <-> den l ver x.
Proof. apply den_perm, sorted_perm. Qed.

Lemma sorted_length l : length (sorted l) = length l.
Proof. apply Permutation_length, sorted_perm. Qed.

Lemma skey_le_ver_first a b : skey_le a b -> nver a < nver b \/ (nver a = nver b /\ nf a <= nf b).
Proof.
  unfold skey_le, sort_key. cbn [lex_leb]. case_ltb (nver a) (nver b); [auto|].
  case_ltb (nver b) (nver a); [discriminate|]. case_ltb (nf a) (nf b); [intros _; right; lia|].
  case_ltb (nf b) (nf a); [discriminate|]. intros _. right. lia.
Qed.

(* ================================================================ the invariant, order-free *)
Definition nosib (d : list net) : Prop := forall a b, In a d -> In b d -> ~ siblings a b.
(* strictly ascending by (version, first) and disjoint: a ends before b starts, IPv4 before IPv6 *)
Definition net_below (a b : net) : Prop := nver a < nver b \/ (nver a = nver b /\ nl a < nf b).

Lemma overlap_sym a b : overlap a b -> overlap b a.
Proof. intros (ver & x & Ha & Hb). exists ver, x. auto. Qed.

Lemma overlap_self a : wf_net a -> overlap a a.
Proof. intros W. exists (nver a), (nf a). split; apply in_net_first, W. Qed.

Lemma net_below_no_overlap a b : net_below a b -> ~ overlap a b.
Proof. intros [H|[E H]] (ver & x & (Ea & Ia) & (Eb & Ib)); lia. Qed.

Lemma SetInv_alt d : SetInv d <->
  Forall wfh d /\ NoDup d /\ (forall a b, In a d -> In b d -> a <> b -> ~ overlap a b) /\ nosib d.
Proof.
  unfold SetInv. fold (nosib d). split.
  - intros (W & F & N). apply FOP_sym_iff in F.
    + tauto.
    + intros a b Hab O. apply Hab, overlap_sym, O.
    + intros a Ha Hn. apply Hn, overlap_self. rewrite Forall_forall in W. apply W, Ha.
  - intros (W & ND & F & N). split; [exact W|split; [|exact N]]. apply FOP_sym_iff; auto.
    + intros a b Hab O. apply Hab, overlap_sym, O.
    + intros a Ha Hn. apply Hn, overlap_self. rewrite Forall_forall in W. apply W, Ha.
Qed.

Lemma SetInv_wfh d : SetInv d -> Forall wfh d.
Proof. intros H. apply H. Qed.

Lemma wfh_wf d : Forall wfh d -> Forall wf_net d.
Proof. apply Forall_impl. intros a H. apply H. Qed.

Lemma SetInv_wf d : SetInv d -> Forall wf_net d.
Proof. intros H. apply wfh_wf, H. Qed.

Lemma SetInv_nodup d : SetInv d -> NoDup d.
Proof. intros H. apply SetInv_alt in H. apply H. Qed.

(* the invariant does not depend on the insertion order *)
Lemma SetInv_perm d d' : Permutation d d' -> SetInv d -> SetInv d'.
Proof.
  intros P H. apply SetInv_alt in H. destruct H as (W & N & F & S). apply SetInv_alt.
  assert (I: forall x, In x d' -> In x d) by (intros x; apply Permutation_in, Permutation_sym, P).
  split; [eapply Permutation_Forall; eassumption|split; [eapply Permutation_NoDup; eassumption|split]].
  - intros a b Ha Hb. apply F; auto.
  - intros a b Ha Hb. apply S; auto.
Qed.

Lemma SetInv_nil : SetInv [].
Proof. split; [constructor|split; [constructor|intros a b []]]. Qed.

Lemma sib_irrefl w b : 0 <= bp b <= w -> ~ sib w b b.
Proof. intros Hp (_ & Hv & _). pose proof (bsize_pos w b Hp). lia. Qed.

Lemma SetInv_single n : wfh n -> SetInv [n].
Proof.
  intros W. split; [constructor; [exact W|constructor]|split; [repeat constructor|]].
  intros a b [<-|[]] [<-|[]] (_ & S). destruct W as ((_ & _ & Hp) & _). revert S. apply sib_irrefl. exact Hp.
Qed.

(* ================================================================ families *)
Lemma fam_in ver l n : In n (fam ver l) <-> In n l /\ nver n = ver.
Proof. unfold fam. rewrite filter_In, Z.eqb_eq. tauto. Qed.

Lemma fam_blks_in ver l n : In n l -> nver n = ver -> In (net_blk n) (fam_blks ver l).
Proof. intros H E. unfold fam_blks. apply in_map. apply fam_in. auto. Qed.

Lemma fam_blks_inv ver l b : In b (fam_blks ver l) -> exists n, In n l /\ nver n = ver /\ b = net_blk n.
Proof. unfold fam_blks. intros H. apply in_map_iff in H. destruct H as (n & <- & H). apply fam_in in H. exists n. tauto. Qed.

Lemma fam_all ver l : (forall n, In n l -> nver n = ver) -> fam ver l = l.
Proof.
  induction l as [|a l IH]; intros H; [reflexivity|]. unfold fam in *. cbn [filter].
  rewrite (H a (or_introl eq_refl)), Z.eqb_refl. f_equal. apply IH. intros; apply H; now right.
Qed.

Lemma fam_none ver l : (forall n, In n l -> nver n <> ver) -> fam ver l = [].
Proof.
  induction l as [|a l IH]; intros H; [reflexivity|]. unfold fam in *. cbn [filter].
  destruct (Z.eqb_spec (nver a) ver) as [E|_]; [exfalso; apply (H a); [now left|exact E]|].
  apply IH. intros; apply H; now right.
Qed.

Lemma valid_ver_46 ver : valid_ver ver = true <-> ver = 4 \/ ver = 6.
Proof. unfold valid_ver. rewrite orb_true_iff, !Z.eqb_eq. tauto. Qed.

(* ascending versions: the list is its IPv4 part followed by its IPv6 part *)
Lemma below_fam_split l : Forall wf_net l -> StronglySorted net_below l -> l = fam 4 l ++ fam 6 l.
Proof.
  intros W S. induction S as [|a l S IH F]; [reflexivity|].
  inversion W as [|? ? Wa Wl]; subst. specialize (IH Wl).
  destruct Wa as (Va & _). apply valid_ver_46 in Va.
  unfold fam in *. cbn [filter]. destruct Va as [E|E]; rewrite E.
  - change (4 =? 4) with true. change (4 =? 6) with false. cbn [app]. f_equal. exact IH.
  - change (6 =? 4) with false. change (6 =? 6) with true.
    rewrite Forall_forall in F, Wl.
    assert (H6: forall n, In n l -> nver n = 6).
    { intros n Hn. destruct (F n Hn) as [H|[H _]]; [|lia]. destruct (Wl n Hn) as (Vn & _). apply valid_ver_46 in Vn. lia. }
    fold (fam 4 l). fold (fam 6 l). rewrite (fam_none 4 l), (fam_all 6 l); [reflexivity|exact H6|].
    intros n Hn. rewrite (H6 n Hn). lia.
Qed.

Lemma net_below_blk a b : wf_net a -> nver a = nver b ->
  (net_below a b <-> below (width (nver a)) (net_blk a) (net_blk b)).
Proof.
  intros Wa E. unfold net_below, below, net_blk, bsize; cbn [bv bp]. rewrite (nl_eq a Wa). split.
  - intros [H|[_ H]]; lia.
  - intros H. right. split; [exact E|lia].
Qed.

Lemma fam_canon ver l : Forall wfh l -> StronglySorted net_below l -> nosib l -> canon (width ver) (fam_blks ver l).
Proof.
  intros W S N. rewrite Forall_forall in W. split; [|split].
  - intros b Hb. apply fam_blks_inv in Hb. destruct Hb as (n & Hn & <- & ->). apply net_blk_aligned, W, Hn.
  - unfold fam_blks. apply (SS_map net_blk _ net_below); [apply SS_filter, S|].
    intros a b Ha Hb H. apply fam_in in Ha, Hb. destruct Ha as (Ha & <-). destruct Hb as (Hb & Eb).
    apply net_below_blk; auto. apply W, Ha.
  - intros b1 b2 H1 H2 Hs. apply fam_blks_inv in H1, H2.
    destruct H1 as (n1 & Hn1 & E1 & ->). destruct H2 as (n2 & Hn2 & E2 & ->).
    apply (N n1 n2 Hn1 Hn2). split; [congruence|]. rewrite E1. exact Hs.
Qed.

Lemma canon_nets_iff l : canon_nets l <-> Forall wfh l /\ StronglySorted net_below l /\ nosib l.
Proof.
  split.
  - intros (W & E & C4 & C6). split; [exact W|]. pose proof W as W'. rewrite Forall_forall in W'. split.
    + rewrite E. apply SS_app.
      * destruct C4 as (_ & S4 & _). unfold fam_blks in S4. apply (SS_map_inv net_blk (below 32)); [exact S4|].
        intros a b Ha Hb H. apply fam_in in Ha, Hb. destruct Ha as (Ha & Ea). destruct Hb as (Hb & Eb).
        apply net_below_blk; [apply W', Ha|congruence|]. rewrite Ea. exact H.
      * destruct C6 as (_ & S6 & _). unfold fam_blks in S6. apply (SS_map_inv net_blk (below 128)); [exact S6|].
        intros a b Ha Hb H. apply fam_in in Ha, Hb. destruct Ha as (Ha & Ea). destruct Hb as (Hb & Eb).
        apply net_below_blk; [apply W', Ha|congruence|]. rewrite Ea. exact H.
      * intros a b Ha Hb. apply fam_in in Ha, Hb. left. lia.
    + intros a b Ha Hb (Ev & Hs). destruct (W' a Ha) as ((Va & _) & _). apply valid_ver_46 in Va. destruct Va as [V|V].
      * destruct C4 as (_ & _ & N4). apply (N4 (net_blk a) (net_blk b)).
        -- apply fam_blks_in; auto.
        -- apply fam_blks_in; auto. congruence.
        -- rewrite V in Hs. exact Hs.
      * destruct C6 as (_ & _ & N6). apply (N6 (net_blk a) (net_blk b)).
        -- apply fam_blks_in; auto.
        -- apply fam_blks_in; auto. congruence.
        -- rewrite V in Hs. exact Hs.
  - intros (W & S & N). split; [exact W|split; [apply below_fam_split; [apply wfh_wf, W|exact S]|split]].
    + apply (fam_canon 4); assumption.
    + apply (fam_canon 6); assumption.
Qed.

(* a canonical list is a valid stored state *)
Lemma canon_nets_SetInv l : canon_nets l -> SetInv l.
Proof.
  intros C. apply canon_nets_iff in C. destruct C as (W & S & N). split; [exact W|split; [|exact N]].
  apply SS_FOP. eapply SS_weaken; [exact S|]. intros a b _ _. apply net_below_no_overlap.
Qed.

Lemma canon_nets_nodup l : canon_nets l -> NoDup l.
Proof. intros C. apply SetInv_nodup, canon_nets_SetInv, C. Qed.

Lemma canon_nets_wfh l : canon_nets l -> Forall wfh l.
Proof. intros C. apply C. Qed.

Lemma canon_nets_nil : canon_nets [].
Proof. apply canon_nets_iff. split; [constructor|split; [constructor|intros a b []]]. Qed.

(* denotation, family by family *)
Lemma covered_fam ver l x : Forall wf_net l -> (covered (width ver) (fam_blks ver l) x <-> den l ver x).
Proof.
  intros W. rewrite Forall_forall in W. unfold covered, den. split.
  - intros (b & Hb & I). apply fam_blks_inv in Hb. destruct Hb as (n & Hn & E & ->). exists n. split; [exact Hn|].
    apply in_net_inb; [apply W, Hn|]. rewrite E. auto.
  - intros (n & Hn & I). apply in_net_inb in I; [|apply W, Hn]. destruct I as (E & I). exists (net_blk n).
    split; [apply fam_blks_in; assumption|]. rewrite <- E. exact I.
Qed.

(* the canonical list of a set of addresses of both families is unique *)
Theorem canon_nets_unique l1 l2 : canon_nets l1 -> canon_nets l2 ->
  (forall ver x, den l1 ver x <-> den l2 ver x) -> l1 = l2.
Proof.
  intros (W1 & E1 & C14 & C16) (W2 & E2 & C24 & C26) D.
  assert (F: forall ver, fam_blks ver l1 = fam_blks ver l2 -> fam ver l1 = fam ver l2).
  { intros ver. unfold fam_blks. apply map_inj_in. intros a b Ha Hb E. apply fam_in in Ha, Hb.
    destruct Ha as (Ha & Va). destruct Hb as (Hb & Vb). rewrite Forall_forall in W1, W2.
    destruct (W1 a Ha) as (_ & Fa). destruct (W2 b Hb) as (_ & Fb). unfold hostfree in *.
    unfold net_blk in E. injection E as Ef Ep. clear - Va Vb Fa Fb Ef Ep. rewrite <- Ef in Fb.
    destruct a, b; simpl in *. subst. f_equal. congruence. }
  rewrite E1, E2. f_equal; apply F.
  - apply (canon_unique 32); auto; [lia|]. intros x. change 32 with (width 4).
    rewrite !covered_fam by (apply wfh_wf; assumption). apply D.
  - apply (canon_unique 128); auto; [lia|]. intros x. change 128 with (width 6).
    rewrite !covered_fam by (apply wfh_wf; assumption). apply D.
Qed.

(* ================================================================ what an IPSet shows *)
(* for a valid stored state, sorted() is strictly ascending by (version, first) with gaps *)
Lemma SetInv_sorted_below d : SetInv d -> StronglySorted net_below (sorted d).
Proof.
  intros H. pose proof (SetInv_perm _ _ (Permutation_sym (sorted_perm d)) H) as Hs.
  apply SetInv_alt in Hs. destruct Hs as (W & N & F & S).
  apply (SS_weaken_nodup skey_le); [apply sorted_SS|exact N|].
  intros a b Ha Hb Hne Hle. apply skey_le_ver_first in Hle.
  destruct Hle as [Hl|[Ev Hf]]; [left; exact Hl|right; split; [exact Ev|]].
  destruct (Z.lt_ge_cases (nl a) (nf b)) as [L|G]; [exact L|exfalso]. apply (F a b Ha Hb Hne).
  rewrite Forall_forall in W. pose proof (wf_nonempty b (proj1 (W b Hb))).
  exists (nver a), (nf b). unfold in_net. split; split; auto; lia.
Qed.

(* iter_cidrs(), repr() and iteration go through sorted(self._cidrs): for every valid stored state this is THE
   canonical (minimal, sorted, host-bit-free, IPv4 first) CIDR list of exactly the denoted addresses *)
Theorem C06_shown d : SetInv d ->
  canon_nets (sorted d) /\ forall ver x, den (sorted d) ver x <-> den d ver x.
Proof.
  intros H. split; [|intros ver x; apply sorted_den].
  pose proof (SetInv_perm _ _ (Permutation_sym (sorted_perm d)) H) as Hs.
  apply canon_nets_iff. split; [apply Hs|split; [apply SetInv_sorted_below, H|]]. destruct Hs as (_ & _ & N). exact N.
Qed.

(* ... and no other canonical list denotes the same addresses *)
Theorem C06_shown_unique d l : SetInv d -> canon_nets l ->
  (forall ver x, den l ver x <-> den d ver x) -> sorted d = l.
Proof.
  intros H C D. apply canon_nets_unique; [apply C06_shown, H|exact C|].
  intros ver x. rewrite sorted_den. symmetry. apply D.
Qed.

(* the stored key set is determined by the denotation alone *)
Lemma SetInv_same_den_perm a b : SetInv a -> SetInv b ->
  (forall ver x, den a ver x <-> den b ver x) -> Permutation a b.
Proof.
  intros Ha Hb D.
  assert (E: sorted a = sorted b).
  { apply canon_nets_unique; [apply C06_shown, Ha|apply C06_shown, Hb|]. intros ver x. rewrite !sorted_den. apply D. }
  eapply Permutation_trans; [apply Permutation_sym, sorted_perm|]. rewrite E. apply sorted_perm.
Qed.

(* IPSet.__eq__ compares the stored dicts: on valid states this is equality of the denoted address sets *)
Theorem C06_extensional a b : SetInv a -> SetInv b ->
  (dict_eqb a b = true <-> forall ver x, den a ver x <-> den b ver x).
Proof.
  intros Ha Hb. rewrite dict_eqb_iff by (try apply SetInv_wfh; try apply SetInv_nodup; assumption). split.
  - intros P ver x. apply den_perm, P.
  - apply SetInv_same_den_perm; assumption.
Qed.

(* dict(a) built from a canonical list is that list *)
Lemma dfromkeys_canon l : canon_nets l -> dfromkeys l = l.
Proof. intros C. apply dfromkeys_id; [apply C|apply canon_nets_nodup, C]. Qed.

Lemma dfromkeys_SetInv l : SetInv l -> dfromkeys l = l.
Proof. intros C. apply dfromkeys_id; [apply C|apply SetInv_nodup, C]. Qed.

Lemma SetInv_dfromkeys l : canon_nets l -> SetInv (dfromkeys l).
Proof. intros C. rewrite dfromkeys_canon by exact C. apply canon_nets_SetInv, C. Qed.

(* ================================================================ specifications targeted by the other C06/C07 files *)
Definition add_spec : Prop := forall d e, SetInv d -> wf_elem e ->
  exists d', set_add d e = Ok d' /\ SetInv d' /\
    forall ver x, den d' ver x <-> den d ver x \/ in_elem e ver x.

Definition remove_spec : Prop := forall d e, SetInv d -> wf_elem e ->
  exists d', set_remove d e = Ok d' /\ SetInv d' /\
    forall ver x, den d' ver x <-> den d ver x /\ ~ in_elem e ver x.

(* pop(): KeyError exactly on the empty set; otherwise removes one stored block and returns it *)
Definition pop_spec : Prop := forall d, SetInv d ->
  match set_pop d with
  | Ok (d', k) => In k d /\ SetInv d' /\ forall ver x, den d' ver x <-> den d ver x /\ ~ in_net k ver x
  | Raise e => e = KeyError /\ d = []
  end.

Definition inter_spec : Prop := forall a b, SetInv a -> SetInv b ->
  exists d, set_intersection a b = Ok d /\ SetInv d /\
    forall ver x, den d ver x <-> den a ver x /\ den b ver x.

Definition diff_spec : Prop := forall a b, SetInv a -> SetInv b ->
  exists d, set_difference a b = Ok d /\ SetInv d /\
    forall ver x, den d ver x <-> den a ver x /\ ~ den b ver x.

Definition xor_spec : Prop := forall a b, SetInv a -> SetInv b ->
  exists d, set_symdiff a b = Ok d /\ SetInv d /\
    forall ver x, den d ver x <-> (den a ver x /\ ~ den b ver x) \/ (den b ver x /\ ~ den a ver x).

(* ================================================================ a sound boolean check of SetInv (for examples) *)
Definition wfhb (n : net) : bool :=
  valid_ver (nver n) && (0 <=? nval n) && (nval n <? 2 ^ width (nver n)) && (0 <=? nplen n) &&
  (nplen n <=? width (nver n)) && (nval n =? nf n).
Definition disjb (a b : net) : bool := negb (nver a =? nver b) || (nl a <? nf b) || (nl b <? nf a).
Definition sibb (a b : net) : bool :=
  (nver a =? nver b) && (nplen a =? nplen b) && (nf b =? nf a + 2 ^ (width (nver a) - nplen a)) &&
  (nf a mod (2 * 2 ^ (width (nver a) - nplen a)) =? 0).
Fixpoint ordpairsb (f : net -> net -> bool) (l : list net) : bool :=
  match l with [] => true | a :: r => forallb (f a) r && ordpairsb f r end.
Definition setinvb (d : list net) : bool :=
  forallb wfhb d && ordpairsb disjb d && forallb (fun a => forallb (fun b => negb (sibb a b)) d) d.

Lemma wfhb_sound n : wfhb n = true -> wfh n.
Proof.
  unfold wfhb. rewrite !andb_true_iff, !Z.leb_le, Z.ltb_lt, Z.eqb_eq. intros (((((V & H1) & H2) & H3) & H4) & H5).
  split; [|exact H5]. unfold wf_net. tauto.
Qed.

Lemma disjb_sound a b : disjb a b = true -> ~ overlap a b.
Proof.
  unfold disjb. rewrite !orb_true_iff, negb_true_iff, Z.eqb_neq, !Z.ltb_lt.
  intros H (ver & x & (Ea & Ia) & (Eb & Ib)). lia.
Qed.

Lemma sibb_complete a b : siblings a b -> sibb a b = true.
Proof.
  intros (Ev & Hp & Hv & Hd). unfold net_blk, bsize in *; cbn [bv bp] in *.
  unfold sibb. rewrite !andb_true_iff, !Z.eqb_eq. repeat split; auto.
  destruct Hd as [k Hk]. rewrite Hk. destruct (Z.eq_dec (2 * 2 ^ (width (nver a) - nplen a)) 0) as [E|E].
  - rewrite E. rewrite Z.mul_0_r. apply Zmod_0_l.
  - apply Z.mod_mul, E.
Qed.

Lemma ordpairsb_sound (f : net -> net -> bool) (R : net -> net -> Prop) l :
  (forall a b, f a b = true -> R a b) -> ordpairsb f l = true -> ForallOrdPairs R l.
Proof.
  intros H. induction l as [|a l IH]; intros E; [constructor|]. cbn [ordpairsb] in E. apply andb_true_iff in E.
  destruct E as [E1 E2]. constructor; [|apply IH, E2]. rewrite forallb_forall in E1. apply Forall_forall. intros x Hx. apply H, E1, Hx.
Qed.

Lemma setinvb_sound d : setinvb d = true -> SetInv d.
Proof.
  unfold setinvb. rewrite !andb_true_iff. intros ((W & O) & S). split; [|split].
  - rewrite forallb_forall in W. apply Forall_forall. intros x Hx. apply wfhb_sound, W, Hx.
  - eapply ordpairsb_sound; [apply disjb_sound|exact O].
  - intros a b Ha Hb Hs. rewrite forallb_forall in S. specialize (S a Ha). rewrite forallb_forall in S. specialize (S b Hb).
    rewrite (sibb_complete a b Hs) in S. discriminate.
Qed.

(* ================================================================ further closure facts (used by add / remove / pop proofs) *)
(* any duplicate-free selection of keys of a valid state is a valid state *)
Lemma SetInv_incl d d' : SetInv d -> NoDup d' -> incl d' d -> SetInv d'.
Proof.
  intros H N I. apply SetInv_alt in H. destruct H as (W & _ & F & S). apply SetInv_alt.
  rewrite Forall_forall in W. split; [apply Forall_forall; intros x Hx; apply W, I, Hx|split; [exact N|split]].
  - intros a b Ha Hb. apply F; apply I; assumption.
  - intros a b Ha Hb. apply S; apply I; assumption.
Qed.

Lemma SetInv_cons_inv k l : SetInv (k :: l) ->
  wfh k /\ SetInv l /\ ~ In k l /\ forall n, In n l -> ~ overlap k n.
Proof.
  intros H. pose proof (SetInv_nodup _ H) as N. destruct H as (W & F & S).
  inversion W as [|? ? Wk Wl]; subst. inversion F as [|? ? Fk Fl]; subst. inversion N as [|? ? Nk Nl]; subst.
  split; [exact Wk|split; [|split; [exact Nk|]]].
  - split; [exact Wl|split; [exact Fl|]]. intros a b Ha Hb. apply S; now right.
  - rewrite Forall_forall in Fk. exact Fk.
Qed.

Lemma den_cons_inv k l ver x : SetInv (k :: l) -> (den l ver x <-> den (k :: l) ver x /\ ~ in_net k ver x).
Proof.
  intros H. destruct (SetInv_cons_inv k l H) as (_ & _ & _ & O). rewrite den_cons. split.
  - intros D. split; [auto|]. intros Ik. destruct D as (n & Hn & In_). apply (O n Hn). exists ver, x. auto.
  - tauto.
Qed.

(* dict facts on host-bit-free keys, in terms of plain membership *)
Lemma in_dset_wfh x d k : Forall wfh d -> wfh k -> (In x (dset d k) <-> In x d \/ x = k).
Proof.
  intros Wd Wk. rewrite in_dset. split; [tauto|]. intros [H| ->]; [auto|].
  destruct (dmem k d) eqn:E; [left; apply dmem_in; assumption|auto].
Qed.

Lemma NoDup_dset d k : Forall wfh d -> wfh k -> NoDup d -> NoDup (dset d k).
Proof.
  intros Wd Wk N. unfold dset. destruct (dmem k d) eqn:E; [exact N|].
  apply (Permutation_NoDup (Permutation_cons_append d k)). constructor; [|exact N].
  intros Hk. assert (dmem k d = true) by (apply dmem_in; assumption). congruence.
Qed.

Lemma in_dupdate_wfh l : forall d x, Forall wfh d -> Forall wfh l -> (In x (dupdate d l) <-> In x d \/ In x l).
Proof.
  induction l as [|k l IH]; intros d x Wd Wl; [cbn; tauto|].
  inversion Wl as [|? ? Wk Wl']; subst. rewrite dupdate_cons, IH; auto.
  - rewrite in_dset_wfh by assumption. cbn [In]. split; intros H; repeat destruct H as [H|H]; auto.
  - apply Forall_forall. intros y Hy. apply in_dset_wfh in Hy; auto. rewrite Forall_forall in Wd. destruct Hy as [Hy| ->]; auto.
Qed.

Lemma NoDup_dupdate l : forall d, Forall wfh d -> Forall wfh l -> NoDup d -> NoDup (dupdate d l).
Proof.
  induction l as [|k l IH]; intros d Wd Wl N; [exact N|].
  inversion Wl as [|? ? Wk Wl']; subst. rewrite dupdate_cons. apply IH; auto.
  - apply Forall_forall. intros y Hy. apply in_dset_wfh in Hy; auto. rewrite Forall_forall in Wd. destruct Hy as [Hy| ->]; auto.
  - apply NoDup_dset; assumption.
Qed.

(* ================================================================ minimality of the shown list *)
Lemma fam_lengths l : (length (fam 4 l) + length (fam 6 l) <= length l)%nat.
Proof.
  induction l as [|a l IH]; [apply le_n|]. unfold fam in *. cbn [filter].
  destruct (Z.eqb_spec (nver a) 4) as [E|_].
  - rewrite E. change (4 =? 6) with false. cbn [length]. lia.
  - destruct (nver a =? 6); cbn [length]; lia.
Qed.

Lemma fam_min ver d l' : valid_ver ver = true -> SetInv d -> Forall wf_net l' ->
  (forall v x, den l' v x <-> den d v x) -> (length (fam ver (sorted d)) <= length (fam ver l'))%nat.
Proof.
  intros V I W D. destruct (C06_shown d I) as (C & Ds). apply canon_nets_iff in C. destruct C as (Wh & S & N).
  pose proof (fam_canon ver _ Wh S N) as Cv.
  pose proof (canon_minimal (width ver) (width_nonneg ver) _ (fam_blks ver l') Cv) as M.
  assert (L: forall L0, length (fam_blks ver L0) = length (fam ver L0)) by (intros; unfold fam_blks; apply map_length).
  rewrite !L in M. apply M.
  - intros b Hb. apply fam_blks_inv in Hb. destruct Hb as (n & Hn & <- & ->). apply net_blk_aligned.
    rewrite Forall_forall in W. apply W, Hn.
  - intros x. rewrite !covered_fam by (first [assumption|apply wfh_wf; assumption]). rewrite Ds. symmetry. apply D.
Qed.

(* no list of well-formed networks (host bits or not, any order) with the same addresses is shorter than what the set shows *)
Theorem C06_shown_minimal d l' : SetInv d -> Forall wf_net l' ->
  (forall ver x, den l' ver x <-> den d ver x) -> (length (sorted d) <= length l')%nat.
Proof.
  intros I W D. destruct (C06_shown d I) as ((_ & E & _) & _).
  pose proof (f_equal (@length net) E) as L. rewrite app_length in L.
  pose proof (fam_min 4 d l' eq_refl I W D). pose proof (fam_min 6 d l' eq_refl I W D).
  pose proof (fam_lengths l'). lia.
Qed.
