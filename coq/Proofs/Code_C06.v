(* Proofs/Code_C06.v — C06 (IPSet is canonical after any history, so == is extensional) proved DIRECTLY about the definitions
   that harness/gen/pysrc.py regenerates on every run from the current text of netaddr/ip/sets.py (Gen/pysrc_sets*_gen.v).
   An IPSet object is its dict `_cidrs` = the insertion-ordered list of its IPNetwork keys; a generated mutator takes that
   state first and returns the new state.
   DISPATCHERS.  The generated code has one definition per ARGUMENT FORM of a method (add:net, add:iprange, update:ipset, ...);
   the property theorems speak of an argument `elem` / `sarg` of any form.  src_set_init / src_set_add / src_set_remove /
   src_set_update choose the generated definition by the form of the argument; the forms that are not translated (an int,
   an IPAddress, an iterable with such elements, update(None)) fall to the hand model -- these clauses stay about the model.
   src_set_pickle = the generated __setstate__ applied to what the generated __getstate__ returns (lists [value; prefixlen;
   version] read back as tuples).  src_ostep: the step of the register machine of Proofs/C06_bulk.v (same `op` type, same
   registers, a raising operation leaves the registers as they were) built from those definitions.
   Every proof is: rewrite with the source tie, apply the model theorem. *)
From Coq Require Import Sorting.Sorted Sorting.Permutation.
From NV Require Import Base.Tac Base.PyVal Base.Bits Base.Canon Model.Ip Model.Partition Model.Span Model.Merge Model.Sets
  Model.SrcPrelude Model.SrcPreludeSets
  Gen.pysrc_gen Gen.pysrc_ctor_gen Gen.pysrc_sets_gen Gen.pysrc_sets_ops_gen Gen.pysrc_sets_mut_gen Gen.pysrc_sets_add_gen
  Gen.pysrc_sets_bulk_gen Gen.pysrc_sets_state_gen
  Proofs.C02 Proofs.NetDen Proofs.C06_inv Proofs.C06_bulk Proofs.C06_inst Proofs.C06_final Proofs.C07_final
  Proofs.C07_queries
  Proofs.GenOk_Src_C07 Proofs.GenOk_Src_C07_ops Proofs.GenOk_Src_C06 Proofs.GenOk_Src_C06_add Proofs.GenOk_Src_C06_bulk
  Proofs.GenOk_Src_C06_state Proofs.Code_C07.
From NV Require Proofs.C06_add.
From NV Require Import Extract.Cmd_Sets.
Import ListNotations.
Open Scope Z_scope.

(* ---------------------------------------------------------------- the ties, one by one *)
Lemma t_compact d : src_IPSet_compact d = set_compact d.
Proof. destruct C06_tie_ok as (H & _). exact (H d). Qed.
Lemma t_pop d : src_IPSet_pop d = set_pop d.
Proof. destruct C06_tie_ok as (_ & H & _). exact (H d). Qed.
Lemma t_clear d : src_IPSet_clear d = [].
Proof. destruct C07_tie_ok as (_ & _ & _ & _ & _ & _ & H & _). exact (H d). Qed.
Lemma t_copy d : src_IPSet_copy d = dupdate [] d.
Proof. destruct C07_tie_ok as (_ & _ & _ & _ & _ & _ & _ & H & _). exact (H d). Qed.
Lemma t_compact_single d a : wf_net a -> src_IPSet_compact_single_network d a = compact_single d a.
Proof. destruct C06_add_tie_ok as (H & _). exact (H d a). Qed.
Lemma t_add_net d n flags : wf_net n -> src_IPSet_add_net d n flags = set_add d (ENet n).
Proof. destruct C06_add_tie_ok as (_ & H & _). exact (H d n flags). Qed.
Lemma t_remove_net d n flags : SetInv d -> wf_net n -> src_IPSet_remove_net d n flags = set_remove d (ENet n).
Proof. destruct C06_add_tie_ok as (_ & _ & H & _). exact (H d n flags). Qed.
Lemma t_add_iprange d ver s e flags : wf_range ver s e -> src_IPSet_add_iprange d (ver, s, e) flags = set_add d (ERange ver s e).
Proof. destruct C06_bulk_tie_ok as (H & _). exact (H d ver s e flags). Qed.
Lemma t_remove_iprange d ver s e flags : SetInv d -> wf_range ver s e ->
  src_IPSet_remove_iprange d (ver, s, e) flags = set_remove d (ERange ver s e).
Proof. destruct C06_bulk_tie_ok as (_ & H & _). exact (H d ver s e flags). Qed.
Lemma t_update_net d n flags : wf_net n -> src_IPSet_update_net d n flags = set_update d (ANet n).
Proof. destruct C06_bulk_tie_ok as (_ & _ & H & _). exact (H d n flags). Qed.
Lemma t_update_iprange d ver s e flags : wf_range ver s e ->
  src_IPSet_update_iprange d (ver, s, e) flags = set_update d (ARange ver s e).
Proof. destruct C06_bulk_tie_ok as (_ & _ & _ & H & _). exact (H d ver s e flags). Qed.
Lemma t_update_list d l flags : src_IPSet_update_list d l flags = set_update d (AIter (map ENet l)).
Proof. destruct C06_bulk_tie_ok as (_ & _ & _ & _ & H & _). exact (H d l flags). Qed.
Lemma t_init_none d0 flags : Ok (src_IPSet_init_none d0 tt flags) = set_init ANone.
Proof. destruct C06_bulk_tie_ok as (_ & _ & _ & _ & _ & H & _). exact (H d0 flags). Qed.
Lemma t_init_net d0 n flags : wf_net n -> src_IPSet_init_net d0 n flags = set_init (ANet n).
Proof. destruct C06_bulk_tie_ok as (_ & _ & _ & _ & _ & _ & H & _). exact (H d0 n flags). Qed.
Lemma t_init_iprange d0 ver s e flags : wf_range ver s e -> src_IPSet_init_iprange d0 (ver, s, e) flags = set_init (ARange ver s e).
Proof. destruct C06_bulk_tie_ok as (_ & _ & _ & _ & _ & _ & _ & H & _). exact (H d0 ver s e flags). Qed.
Lemma t_init_ipset d0 o flags : Ok (src_IPSet_init_ipset d0 o flags) = set_init (ASet o).
Proof. destruct C06_bulk_tie_ok as (_ & _ & _ & _ & _ & _ & _ & _ & H & _). exact (H d0 o flags). Qed.
Lemma t_init_list d0 l flags : src_IPSet_init_list d0 l flags = set_init (AIter (map ENet l)).
Proof. destruct C06_bulk_tie_ok as (_ & _ & _ & _ & _ & _ & _ & _ & _ & H). exact (H d0 l flags). Qed.
Lemma t_getstate d : src_IPSet_getstate d = map state_list (set_getstate d).
Proof. destruct C06_state_tie_ok as (H & _). exact (H d). Qed.
Lemma t_setstate d0 st : src_IPSet_setstate d0 st = set_setstate st.
Proof. destruct C06_state_tie_ok as (_ & H & _). exact (H d0 st). Qed.

(* ---------------------------------------------------------------- dispatch on the argument form *)
(* an iterable all of whose elements are IPNetwork objects *)
Fixpoint nets_of_elems (l : list elem) : option (list net) :=
  match l with
  | [] => Some []
  | ENet n :: r => match nets_of_elems r with Some ns => Some (n :: ns) | None => None end
  | _ => None
  end.

Lemma nets_of_elems_some : forall l ns, nets_of_elems l = Some ns -> l = map ENet ns.
Proof.
  induction l as [|e l IH]; intros ns E; cbn [nets_of_elems] in E.
  - injection E as <-. reflexivity.
  - destruct e as [i|ver v|n|ver s e']; try discriminate E.
    destruct (nets_of_elems l) as [ns'|]; [|discriminate E]. injection E as <-. cbn [map]. rewrite (IH ns' eq_refl). reflexivity.
Qed.

(* IPSet(a, flags): __init__ on a fresh object (the old state handed to the generated __init__ is the empty dict) *)
Definition src_set_init (flags : Z) (a : sarg) : outcome dict :=
  match a with
  | ANone => Ok (src_IPSet_init_none [] tt flags)
  | ANet n => src_IPSet_init_net [] n flags
  | ARange ver s e => src_IPSet_init_iprange [] (ver, s, e) flags
  | ASet o => Ok (src_IPSet_init_ipset [] o flags)
  | AIter l => match nets_of_elems l with Some ns => src_IPSet_init_list [] ns flags | None => set_init a end
  | AElem _ => set_init a
  end.

Definition src_set_add (flags : Z) (d : dict) (e : elem) : outcome dict :=
  match e with
  | ENet n => src_IPSet_add_net d n flags
  | ERange ver s e' => src_IPSet_add_iprange d (ver, s, e') flags
  | EInt _ | EAddr _ _ => set_add d e
  end.

Definition src_set_remove (flags : Z) (d : dict) (e : elem) : outcome dict :=
  match e with
  | ENet n => src_IPSet_remove_net d n flags
  | ERange ver s e' => src_IPSet_remove_iprange d (ver, s, e') flags
  | EInt _ | EAddr _ _ => set_remove d e
  end.

Definition src_set_update (flags : Z) (d : dict) (a : sarg) : outcome dict :=
  match a with
  | ASet o => src_IPSet_update_ipset d o flags
  | ANet n => src_IPSet_update_net d n flags
  | ARange ver s e => src_IPSet_update_iprange d (ver, s, e) flags
  | AIter l => match nets_of_elems l with Some ns => src_IPSet_update_list d ns flags | None => set_update d a end
  | ANone | AElem _ => set_update d a
  end.

(* pickling: __getstate__ gives a tuple of (value, prefixlen, version) tuples (lists of three ints in the generated code),
   __setstate__ on a fresh object receives them verbatim *)
Definition tuple_of_state (l : list Z) : option (Z * Z * Z) :=
  match l with [v; p; ver] => Some (v, p, ver) | _ => None end.
Fixpoint state_tuples (l : list (list Z)) : option (list (Z * Z * Z)) :=
  match l with
  | [] => Some []
  | x :: r => match tuple_of_state x, state_tuples r with Some t, Some ts => Some (t :: ts) | _, _ => None end
  end.
Definition src_set_pickle (d : dict) : outcome dict :=
  match state_tuples (src_IPSet_getstate d) with
  | Some st => src_IPSet_setstate [] st
  | None => Raise Unsupported
  end.

Lemma state_tuples_list st : state_tuples (map state_list st) = Some st.
Proof.
  induction st as [|[[v p] ver] r IH]; [reflexivity|]. cbn [map state_tuples]. rewrite IH. reflexivity.
Qed.

(* ---- the dispatchers are the model functions on well-formed arguments ---- *)
Lemma src_set_init_eq flags a : wf_sarg a -> src_set_init flags a = set_init a.
Proof.
  destruct a as [|n|ver s e|o|l|e]; cbn [src_set_init wf_sarg]; intros W.
  - apply t_init_none.
  - apply t_init_net, W.
  - apply t_init_iprange. exact W.
  - apply t_init_ipset.
  - destruct (nets_of_elems l) as [ns|] eqn:E; [|reflexivity]. rewrite (nets_of_elems_some l ns E). apply t_init_list.
  - reflexivity.
Qed.

Lemma src_set_add_eq flags d e : wf_elem e -> src_set_add flags d e = set_add d e.
Proof.
  destruct e as [i|ver v|n|ver s e']; cbn [src_set_add wf_elem]; intros W.
  - reflexivity.
  - reflexivity.
  - apply t_add_net, W.
  - apply t_add_iprange. exact W.
Qed.

Lemma src_set_remove_eq flags d e : SetInv d -> wf_elem e -> src_set_remove flags d e = set_remove d e.
Proof.
  intros I. destruct e as [i|ver v|n|ver s e']; cbn [src_set_remove wf_elem]; intros W.
  - reflexivity.
  - reflexivity.
  - apply t_remove_net; assumption.
  - apply t_remove_iprange; [exact I|exact W].
Qed.

Lemma src_set_update_eq flags d a : wf_sarg a -> src_set_update flags d a = set_update d a.
Proof.
  destruct a as [|n|ver s e|o|l|e]; cbn [src_set_update wf_sarg]; intros W.
  - reflexivity.
  - apply t_update_net, W.
  - apply t_update_iprange. exact W.
  - apply t_update_ipset.
  - destruct (nets_of_elems l) as [ns|] eqn:E; [|reflexivity]. rewrite (nets_of_elems_some l ns E). apply t_update_list.
  - reflexivity.
Qed.

Lemma src_set_pickle_eq d : src_set_pickle d = set_setstate (set_getstate d).
Proof. unfold src_set_pickle. rewrite t_getstate, state_tuples_list. apply t_setstate. Qed.

(* ---------------------------------------------------------------- per-operation theorems *)
Theorem init_of_source : forall flags a, wf_sarg a ->
  exists d, src_set_init flags a = Ok d /\ SetInv d /\ forall ver x, den d ver x <-> in_sarg a ver x.
Proof. intros flags a W. rewrite (src_set_init_eq flags a W). apply C06_init_inst, W. Qed.

Theorem compact_of_source : forall d, Forall wf_net d ->
  exists d', src_IPSet_compact d = Ok d' /\ SetInv d' /\ canon_nets d' /\ forall ver x, den d' ver x <-> den d ver x.
Proof. intros d. rewrite t_compact. apply C06_compact_inst. Qed.

Theorem update_of_source : forall flags d a, SetInv d -> wf_sarg a -> a <> ANone ->
  exists d', src_set_update flags d a = Ok d' /\ SetInv d' /\ forall ver x, den d' ver x <-> den d ver x \/ in_sarg a ver x.
Proof. intros flags d a I W N. rewrite (src_set_update_eq flags d a W). apply C06_update_inst; assumption. Qed.

Theorem union_of_source6 : forall a b, SetInv a -> SetInv b ->
  exists d, src_IPSet_union a b = Ok d /\ SetInv d /\ forall ver x, den d ver x <-> den a ver x \/ den b ver x.
Proof. intros a b. rewrite t_union. apply C06_union_inst. Qed.

Theorem copy_of_source : forall d, SetInv d ->
  src_IPSet_copy d = d /\ SetInv (src_IPSet_copy d) /\ forall ver x, den (src_IPSet_copy d) ver x <-> den d ver x.
Proof. intros d. rewrite t_copy. apply C06_bulk.C06_copy. Qed.

Theorem clear_of_source : forall d, SetInv (src_IPSet_clear d) /\ forall ver x, ~ den (src_IPSet_clear d) ver x.
Proof. intros d. rewrite t_clear. apply C06_bulk.C06_clear. Qed.

Theorem add_range_of_source : forall flags d ver s e, Forall wf_net d -> valid_ver ver = true -> 0 <= s <= e -> e < 2 ^ width ver ->
  exists d', src_IPSet_add_iprange d (ver, s, e) flags = Ok d' /\ SetInv d' /\ canon_nets d' /\
    forall ver' x, den d' ver' x <-> den d ver' x \/ (ver' = ver /\ s <= x <= e).
Proof.
  intros flags d ver s e W V A B. rewrite (t_add_iprange d ver s e flags (conj V (conj A B))).
  apply C06_add_range_inst; assumption.
Qed.

Theorem pop_of_source : forall d, SetInv d ->
  match src_IPSet_pop d with
  | Ok (d', k) => In k d /\ SetInv d' /\ forall ver x, den d' ver x <-> den d ver x /\ ~ in_net k ver x
  | Raise e => e = KeyError /\ d = []
  end.
Proof. intros d. rewrite t_pop. apply C06_bulk.C06_pop. Qed.

Theorem pop_last_of_source : forall d, SetInv d ->
  (d = [] -> src_IPSet_pop d = Raise KeyError) /\
  (d <> [] -> exists d' k, src_IPSet_pop d = Ok (d', k) /\ d = d' ++ [k] /\ In k d /\ SetInv d' /\
     forall ver x, den d' ver x <-> den d ver x /\ ~ in_net k ver x).
Proof. intros d. rewrite t_pop. apply C06_add.pop_spec. Qed.

Theorem pickle_of_source : forall d, SetInv d ->
  exists d', src_set_pickle d = Ok d' /\ d' = d /\ SetInv d' /\ forall ver x, den d' ver x <-> den d ver x.
Proof. intros d. rewrite src_set_pickle_eq. apply C06_bulk.C06_pickle. Qed.

Theorem compact_single_of_source : forall d0 a, SetInv d0 -> wfh a ->
  exists d', src_IPSet_compact_single_network (dset d0 a) a = Ok d' /\ SetInv d' /\
    forall ver x, den d' ver x <-> den d0 ver x \/ in_net a ver x.
Proof. intros d0 a I W. rewrite (t_compact_single (dset d0 a) a (proj1 W)). apply C06_add.compact_single_spec; assumption. Qed.

Theorem add_of_source : forall flags d e, SetInv d -> wf_elem e ->
  exists d', src_set_add flags d e = Ok d' /\ SetInv d' /\ forall ver x, den d' ver x <-> den d ver x \/ in_elem e ver x.
Proof. intros flags d e I W. rewrite (src_set_add_eq flags d e W). apply add_spec_holds; assumption. Qed.

Theorem remove_of_source : forall flags d e, SetInv d -> wf_elem e ->
  exists d', src_set_remove flags d e = Ok d' /\ SetInv d' /\ forall ver x, den d' ver x <-> den d ver x /\ ~ in_elem e ver x.
Proof. intros flags d e I W. rewrite (src_set_remove_eq flags d e I W). apply remove_spec_holds; assumption. Qed.

Theorem remove_net_of_source : forall flags d addr, SetInv d -> wf_net addr ->
  exists d', src_IPSet_remove_net d addr flags = Ok d' /\ SetInv d' /\
    forall ver x, den d' ver x <-> den d ver x /\ ~ in_net addr ver x.
Proof. intros flags d addr I W. rewrite (t_remove_net d addr flags I W). apply C06_add.remove_one_spec; assumption. Qed.

(* what iter_cidrs() shows, == *)
Theorem shown_of_source : forall d, SetInv d ->
  canon_nets (src_IPSet_iter_cidrs d) /\ forall ver x, den (src_IPSet_iter_cidrs d) ver x <-> den d ver x.
Proof. intros d. rewrite t_iter_cidrs. apply C06_inv.C06_shown. Qed.

Theorem shown_unique_of_source : forall d l, SetInv d -> canon_nets l ->
  (forall ver x, den l ver x <-> den d ver x) -> src_IPSet_iter_cidrs d = l.
Proof. intros d l. rewrite t_iter_cidrs. apply C06_inv.C06_shown_unique. Qed.

Theorem shown_minimal_of_source : forall d l', SetInv d -> Forall wf_net l' ->
  (forall ver x, den l' ver x <-> den d ver x) -> (length (src_IPSet_iter_cidrs d) <= length l')%nat.
Proof. intros d l'. rewrite t_iter_cidrs. apply C06_inv.C06_shown_minimal. Qed.

Theorem extensional_of_source : forall a b, SetInv a -> SetInv b ->
  (src_IPSet_eq a b = true <-> forall ver x, den a ver x <-> den b ver x).
Proof. intros a b. rewrite t_eq. apply C06_inv.C06_extensional. Qed.

(* ---------------------------------------------------------------- histories *)
Definition src_ostep (flags : Z) (rs : regs) (o : op) : regs :=
  match o with
  | OInit r a => mutr rs r (src_set_init flags (resolve rs a))
  | OAdd r e => mutr rs r (src_set_add flags (get rs r) e)
  | ORemove r e => mutr rs r (src_set_remove flags (get rs r) e)
  | OUpdate r a => mutr rs r (src_set_update flags (get rs r) (resolve rs a))
  | OClear r => mutr rs r (Ok (src_IPSet_clear (get rs r)))
  | OCompact r => mutr rs r (src_IPSet_compact (get rs r))
  | OCopy dst src => mutr rs dst (Ok (src_IPSet_copy (get rs src)))
  | OPickle r => mutr rs r (src_set_pickle (get rs r))
  | OPop r => match src_IPSet_pop (get rs r) with Ok (d, _) => put rs r d | Raise _ => rs end
  | OUnion dst a b => mutr rs dst (src_IPSet_union (get rs a) (get rs b))
  | OInter dst a b => mutr rs dst (src_IPSet_intersection (get rs a) (get rs b))
  | ODiff dst a b => mutr rs dst (src_IPSet_difference (get rs a) (get rs b))
  | OXor dst a b => mutr rs dst (src_IPSet_symmetric_difference (get rs a) (get rs b))
  end.

Lemma rel_inv rs s r : Rel rs s -> SetInv (get rs r).
Proof. intros R. exact (proj1 (rel_get rs s r R)). Qed.

(* one step of the generated code = one step of the model, on registers satisfying the invariant *)
Lemma src_ostep_eq flags rs s o : Rel rs s -> wf_op o -> src_ostep flags rs o = ostep rs o.
Proof.
  intros R W. destruct o as [r a|r e|r e|r a|r|r|dst src|r|r|dst a b|dst a b|dst a b|dst a b]; cbn [src_ostep ostep wf_op] in *.
  - rewrite (src_set_init_eq flags (resolve rs a) (proj1 (rel_targ rs s a R W))). reflexivity.
  - rewrite (src_set_add_eq flags (get rs r) e W). reflexivity.
  - rewrite (src_set_remove_eq flags (get rs r) e (rel_inv rs s r R) W). reflexivity.
  - rewrite (src_set_update_eq flags (get rs r) (resolve rs a) (proj1 (rel_targ rs s a R W))). reflexivity.
  - rewrite t_clear. reflexivity.
  - rewrite t_compact. reflexivity.
  - rewrite t_copy. reflexivity.
  - rewrite src_set_pickle_eq. reflexivity.
  - rewrite t_pop. reflexivity.
  - rewrite t_union. reflexivity.
  - rewrite t_inter. reflexivity.
  - rewrite (t_diff _ _ (rel_inv rs s a R) (rel_inv rs s b R)). reflexivity.
  - rewrite (t_xor _ _ (rel_inv rs s a R) (rel_inv rs s b R)). reflexivity.
Qed.

Theorem step_of_source : forall flags rs s o, Rel rs s -> wf_op o ->
  exists s', astep s o s' /\ Rel (src_ostep flags rs o) s'.
Proof. intros flags rs s o R W. rewrite (src_ostep_eq flags rs s o R W). exact (C06_step_closed rs s o R W). Qed.

(* the history run by the generated code is the model's history, register for register *)
Theorem src_run_eq flags : forall ops rs s, Rel rs s -> Forall wf_op ops ->
  fold_left (src_ostep flags) ops rs = fold_left ostep ops rs.
Proof.
  induction ops as [|o ops IH]; intros rs s R W; [reflexivity|]. inversion W; subst. cbn [fold_left].
  rewrite (src_ostep_eq flags rs s o R) by assumption.
  destruct (C06_step_closed rs s o R) as (s' & _ & R'); [assumption|]. exact (IH (ostep rs o) s' R' ltac:(assumption)).
Qed.

Theorem run_of_source : forall flags ops rs s, Rel rs s -> Forall wf_op ops ->
  fold_left (src_ostep flags) ops rs = fold_left ostep ops rs.
Proof. exact src_run_eq. Qed.

Theorem reachable_of_source : forall flags ops rs s, Rel rs s -> Forall wf_op ops ->
  exists s', aruns s ops s' /\ Rel (fold_left (src_ostep flags) ops rs) s'.
Proof. intros flags ops rs s R W. rewrite (src_run_eq flags ops rs s R W). exact (C06_reachable_closed ops rs s R W). Qed.

Theorem reachable_shown_of_source : forall flags ops, Forall wf_op ops ->
  exists s', aruns aregs0 ops s' /\
    let rs := fold_left (src_ostep flags) ops regs0 in
    (forall r, SetInv (get rs r) /\ canon_nets (src_IPSet_iter_cidrs (get rs r)) /\
               forall ver x, den (src_IPSet_iter_cidrs (get rs r)) ver x <-> aget s' r ver x) /\
    (forall r1 r2, src_IPSet_eq (get rs r1) (get rs r2) = true <-> forall ver x, aget s' r1 ver x <-> aget s' r2 ver x).
Proof.
  intros flags ops W. destruct (C06_reachable_shown_closed ops W) as (s' & A & H). exists s'. split; [exact A|].
  cbv zeta in *. rewrite (src_run_eq flags ops regs0 aregs0 rel0 W).
  destruct H as (H1 & H2). split.
  - intros r. rewrite t_iter_cidrs. apply H1.
  - intros r1 r2. rewrite t_eq. apply H2.
Qed.

(* ---------------------------------------------------------------- C07 over reachable operands *)
Theorem operands_reachable_of_source : forall flags ops r, Forall wf_op ops ->
  SetInv (get (fold_left (src_ostep flags) ops regs0) r).
Proof. intros flags ops r W. rewrite (src_run_eq flags ops regs0 aregs0 rel0 W). apply reachable_setinv, W. Qed.

Theorem reachable_algebra_of_source : forall flags ops r1 r2, Forall wf_op ops ->
  let a := get (fold_left (src_ostep flags) ops regs0) r1 in
  let b := get (fold_left (src_ostep flags) ops regs0) r2 in
  (exists d, src_IPSet_intersection a b = Ok d /\ SetInv d /\ forall ver x, den d ver x <-> den a ver x /\ den b ver x) /\
  (exists d, src_IPSet_difference a b = Ok d /\ SetInv d /\ forall ver x, den d ver x <-> den a ver x /\ ~ den b ver x) /\
  (exists d, src_IPSet_symmetric_difference a b = Ok d /\ SetInv d /\
     forall ver x, den d ver x <-> (den a ver x /\ ~ den b ver x) \/ (den b ver x /\ ~ den a ver x)) /\
  (exists d, src_IPSet_union a b = Ok d /\ SetInv d /\ forall ver x, den d ver x <-> den a ver x \/ den b ver x).
Proof.
  intros flags ops r1 r2 W a b.
  pose proof (operands_reachable_of_source flags ops r1 W) as Ia. pose proof (operands_reachable_of_source flags ops r2 W) as Ib.
  fold a in Ia. fold b in Ib.
  split; [apply inter_of_source; assumption|]. split; [apply diff_of_source; assumption|].
  split; [apply xor_of_source; assumption|]. apply union_of_source6; assumption.
Qed.

(* ---------------------------------------------------------------- the vocabulary added here, spelled out *)
Lemma code_vocabulary : forall flags rs d,
  (forall a, src_set_init flags a =
     match a with
     | ANone => Ok (src_IPSet_init_none [] tt flags)
     | ANet n => src_IPSet_init_net [] n flags
     | ARange ver s e => src_IPSet_init_iprange [] (ver, s, e) flags
     | ASet o => Ok (src_IPSet_init_ipset [] o flags)
     | AIter l => match nets_of_elems l with Some ns => src_IPSet_init_list [] ns flags | None => set_init a end
     | AElem _ => set_init a
     end) /\
  (forall e, src_set_add flags d e =
     match e with
     | ENet n => src_IPSet_add_net d n flags
     | ERange ver s e' => src_IPSet_add_iprange d (ver, s, e') flags
     | EInt _ | EAddr _ _ => set_add d e
     end) /\
  (forall e, src_set_remove flags d e =
     match e with
     | ENet n => src_IPSet_remove_net d n flags
     | ERange ver s e' => src_IPSet_remove_iprange d (ver, s, e') flags
     | EInt _ | EAddr _ _ => set_remove d e
     end) /\
  (forall a, src_set_update flags d a =
     match a with
     | ASet o => src_IPSet_update_ipset d o flags
     | ANet n => src_IPSet_update_net d n flags
     | ARange ver s e => src_IPSet_update_iprange d (ver, s, e) flags
     | AIter l => match nets_of_elems l with Some ns => src_IPSet_update_list d ns flags | None => set_update d a end
     | ANone | AElem _ => set_update d a
     end) /\
  (forall l ns, nets_of_elems l = Some ns <-> l = map ENet ns) /\
  (forall st, src_IPSet_getstate d = map (fun t => [fst (fst t); snd (fst t); snd t]) st ->
     src_set_pickle d = src_IPSet_setstate [] st) /\
  (forall o, src_ostep flags rs o =
     match o with
     | OInit r a => mutr rs r (src_set_init flags (resolve rs a))
     | OAdd r e => mutr rs r (src_set_add flags (get rs r) e)
     | ORemove r e => mutr rs r (src_set_remove flags (get rs r) e)
     | OUpdate r a => mutr rs r (src_set_update flags (get rs r) (resolve rs a))
     | OClear r => mutr rs r (Ok (src_IPSet_clear (get rs r)))
     | OCompact r => mutr rs r (src_IPSet_compact (get rs r))
     | OCopy dst src => mutr rs dst (Ok (src_IPSet_copy (get rs src)))
     | OPickle r => mutr rs r (src_set_pickle (get rs r))
     | OPop r => match src_IPSet_pop (get rs r) with Ok (d, _) => put rs r d | Raise _ => rs end
     | OUnion dst a b => mutr rs dst (src_IPSet_union (get rs a) (get rs b))
     | OInter dst a b => mutr rs dst (src_IPSet_intersection (get rs a) (get rs b))
     | ODiff dst a b => mutr rs dst (src_IPSet_difference (get rs a) (get rs b))
     | OXor dst a b => mutr rs dst (src_IPSet_symmetric_difference (get rs a) (get rs b))
     end).
Proof.
  intros flags rs d. split; [reflexivity|]. split; [reflexivity|]. split; [reflexivity|]. split; [reflexivity|].
  split; [|split; [|reflexivity]].
  - intros l ns. split; [apply nets_of_elems_some|]. intros ->. induction ns as [|n ns IH]; [reflexivity|].
    cbn [map nets_of_elems]. rewrite IH. reflexivity.
  - intros st E. unfold src_set_pickle. rewrite E. change (fun t : Z * Z * Z => [fst (fst t); snd (fst t); snd t]) with state_list.
    rewrite state_tuples_list. reflexivity.
Qed.
