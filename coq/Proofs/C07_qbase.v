(* Proofs/C07_qbase.v — C07 part B (queries), base layer: facts about one network, dict membership by key,
   the supernet walk of IPSet.__contains__, issubset / issuperset, and the order produced by sorted().
   All lemma names carry the prefix q_. *)
From NV Require Import Base.Tac Base.PyVal Base.Bits Base.Canon Model.Ip Model.Partition Model.Span Model.Merge Model.Sets
  Proofs.C02 Proofs.NetDen.
From Coq Require Import Sorting.Sorted Sorting.Permutation.
Open Scope Z_scope.

(* ---------------------------------------------------------------- one network *)
Lemma q_nf_le_nl n : wf_net n -> nf n <= nl n.
Proof.
  intros W. rewrite (nl_eq n W). destruct W as (_ & _ & Hp).
  pose proof (pow2_pos (width (nver n) - nplen n)). lia.
Qed.

Lemma q_nf_nonneg n : wf_net n -> 0 <= nf n.
Proof. intros W. rewrite (nf_eq n W). destruct W as (_ & Hv & Hp). apply floor2_nonneg; lia. Qed.

Lemma q_nf_le_val n : wf_net n -> nf n <= nval n <= nl n.
Proof.
  intros W. rewrite (nl_eq n W), (nf_eq n W). destruct W as (_ & Hv & Hp).
  pose proof (floor2_bounds (nval n) (width (nver n) - nplen n)). lia.
Qed.

Lemma q_nl_lt n : wf_net n -> nl n < 2 ^ width (nver n).
Proof.
  intros W. pose proof (q_nf_le_val n W) as Hb. pose proof (q_nf_nonneg n W) as H0.
  pose proof (nl_eq n W) as El. pose proof (nf_eq n W) as Ef. destruct W as (_ & Hv & Hp).
  set (w := width (nver n)) in *. set (h := w - nplen n) in *.
  assert (D : (2 ^ h | nf n)) by (rewrite Ef; apply floor2_divide; lia).
  pose proof (pow2_pos h ltac:(lia)) as HT.
  assert (nf n + 2 ^ h <= 0 + 2 ^ w).
  { apply (aligned_contains_chunk 0 (2 ^ w) (nf n) (2 ^ h)); try lia.
    - apply pow2_divide; lia.
    - apply Z.divide_0_r.
    - exact D. }
  lia.
Qed.

Lemma q_nsize_eq n : wf_net n -> nsize n = 2 ^ (width (nver n) - nplen n).
Proof. intros W. unfold nsize. rewrite (nl_eq n W). lia. Qed.

Lemma q_nsize_pos n : wf_net n -> 0 < nsize n.
Proof. intros W. unfold nsize. pose proof (q_nf_le_nl n W). lia. Qed.

Lemma q_wfh_wf n : wfh n -> wf_net n.
Proof. intros [W _]; exact W. Qed.

Lemma q_valid_ver_cases ver : valid_ver ver = true -> ver = 4 \/ ver = 6.
Proof. unfold valid_ver. intros H. apply orb_true_iff in H. rewrite !Z.eqb_eq in H. exact H. Qed.

(* the same value re-prefixed: what the walking `supernet` object is *)
Definition q_reprefix (n : net) (r : Z) : net := {| nver := nver n; nval := nval n; nplen := r |}.

Lemma q_reprefix_wf n r : wf_net n -> 0 <= r <= width (nver n) -> wf_net (q_reprefix n r).
Proof. intros (Hver & Hv & Hp) Hr. unfold wf_net, q_reprefix; cbn. repeat split; try assumption; lia. Qed.

(* a shorter prefix on the same value covers the original block *)
Lemma q_reprefix_covers n r : wf_net n -> 0 <= r <= nplen n ->
  nf (q_reprefix n r) <= nf n /\ nl n <= nl (q_reprefix n r).
Proof.
  intros W Hr. pose proof W as (Hver & Hv & Hp).
  assert (W' : wf_net (q_reprefix n r)) by (apply q_reprefix_wf; [exact W|lia]).
  rewrite (nl_eq _ W'), (nl_eq _ W), (nf_eq _ W'), (nf_eq _ W). cbn [q_reprefix nver nval nplen].
  set (w := width (nver n)) in *. set (v := nval n) in *. set (p := nplen n) in *.
  pose proof (floor2_bounds v (w - p) ltac:(lia)) as Bp.
  pose proof (floor2_bounds v (w - r) ltac:(lia)) as Br.
  pose proof (floor2_divide v (w - p) ltac:(lia)) as Dp.
  pose proof (floor2_divide v (w - r) ltac:(lia)) as Dr.
  assert (TS : (2 ^ (w - p) | 2 ^ (w - r))) by (apply pow2_divide; lia).
  pose proof (pow2_pos (w - p) ltac:(lia)) as HT.
  set (T := 2 ^ (w - p)) in *. set (S := 2 ^ (w - r)) in *.
  set (c := floor2 v (w - p)) in *. set (b := floor2 v (w - r)) in *.
  assert (b <= c).
  { apply (mult_lower T b c (v - c)); try lia.
    - eapply Z.divide_trans; [exact TS|exact Dr].
    - exact Dp. }
  assert (c + T <= b + S).
  { apply (aligned_contains_chunk b S c T); try assumption; lia. }
  lia.
Qed.

(* ---------------------------------------------------------------- dict membership is by key() *)
Lemma q_key_eqb_iff a b : key_eqb a b = true <-> nver a = nver b /\ nf a = nf b /\ nl a = nl b.
Proof. unfold key_eqb. rewrite !andb_true_iff, !Z.eqb_eq. tauto. Qed.

Lemma q_dmem_iff k d : dmem k d = true <-> exists k', In k' d /\ key_eqb k k' = true.
Proof. unfold dmem. apply existsb_exists. Qed.

(* ---------------------------------------------------------------- the supernet walk *)
Lemma q_walk_spec d : forall fuel s, 0 <= nplen s ->
  (contains_walk fuel d s = true <->
   exists r, 0 <= r <= nplen s /\ nplen s - Z.of_nat fuel <= r /\ dmem (q_reprefix s r) d = true).
Proof.
  assert (Rid : forall s, q_reprefix s (nplen s) = s) by (intros []; reflexivity).
  induction fuel as [|f IH]; intros s Hp.
  - cbn [contains_walk]. destruct (dmem s d) eqn:E.
    + split; [intros _|reflexivity]. exists (nplen s). rewrite Rid. split; [lia|split; [lia|exact E]].
    + split; [discriminate|]. intros (r & Hr & Hf & Hm). exfalso.
      assert (r = nplen s) by lia. subst r. rewrite Rid in Hm. congruence.
  - cbn [contains_walk]. destruct (dmem s d) eqn:E.
    + split; [intros _|reflexivity]. exists (nplen s). rewrite Rid. split; [lia|split; [lia|exact E]].
    + case_eqb (nplen s) 0.
      * split; [discriminate|]. intros (r & Hr & Hf & Hm). exfalso.
        assert (r = nplen s) by lia. subst r. rewrite Rid in Hm. congruence.
      * specialize (IH (q_reprefix s (nplen s - 1))). cbn [q_reprefix nplen] in IH.
        change {| nver := nver s; nval := nval s; nplen := nplen s - 1 |} with (q_reprefix s (nplen s - 1)).
        rewrite IH by lia. clear IH.
        split; intros (r & Hr & Hf & Hm); exists r.
        -- split; [lia|split; [lia|exact Hm]].
        -- assert (r <> nplen s) by (intros ->; rewrite Rid in Hm; congruence).
           split; [lia|split; [lia|exact Hm]].
Qed.

Lemma q_contains_walk d n : 0 <= nplen n ->
  (set_contains d n = true <-> exists r, 0 <= r <= nplen n /\ dmem (q_reprefix n r) d = true).
Proof.
  intros Hp. unfold set_contains. rewrite q_walk_spec by exact Hp.
  split; intros (r & Hr & H); exists r.
  - split; [exact Hr|apply H].
  - split; [exact Hr|split; [|exact H]]. rewrite Nat2Z.inj_add, Z2Nat.id by lia. cbn. lia.
Qed.

(* ---------------------------------------------------------------- families and lemma L *)
Lemma q_in_fam ver d k : In k (fam ver d) <-> In k d /\ nver k = ver.
Proof. unfold fam. rewrite filter_In, Z.eqb_eq. tauto. Qed.

Definition q_wf_all (d : list net) : Prop := Forall wf_net d.
Definition q_nosib (d : list net) : Prop := forall a b, In a d -> In b d -> ~ siblings a b.

Lemma q_inv_wf d : SetInv d -> Forall wf_net d.
Proof. intros (F & _). eapply Forall_impl; [|exact F]. intros a [W _]; exact W. Qed.

Lemma q_inv_nosib d : SetInv d -> q_nosib d.
Proof. intros (_ & _ & N). exact N. Qed.

(* a well-formed block (host bits allowed) that lies inside the set lies inside ONE stored key *)
Lemma q_cover d n : Forall wf_net d -> q_nosib d -> wf_net n ->
  (forall x, in_net n (nver n) x -> den d (nver n) x) ->
  exists k, In k d /\ nver k = nver n /\ nf k <= nf n /\ nl n <= nl k.
Proof.
  intros Fw Ns W Hsub. rewrite Forall_forall in Fw.
  set (ver := nver n) in *. set (w := width ver).
  assert (Hw : 0 <= w) by apply width_nonneg.
  pose proof W as (_ & _ & Hp).
  destruct (L_cover w Hw (fam_blks ver d)) with (h := Z.to_nat (w - nplen n)) (X := net_blk n)
    as (B & HB & S).
  - intros b Hb. unfold fam_blks in Hb. apply in_map_iff in Hb. destruct Hb as (k & <- & Hk).
    apply q_in_fam in Hk. destruct Hk as [Hk Ev]. unfold w. rewrite <- Ev. apply net_blk_aligned, Fw, Hk.
  - intros b1 b2 H1 H2 Hs. unfold fam_blks in H1, H2. apply in_map_iff in H1, H2.
    destruct H1 as (k1 & <- & H1). destruct H2 as (k2 & <- & H2).
    apply q_in_fam in H1, H2. destruct H1 as [H1 E1], H2 as [H2 E2].
    apply (Ns k1 k2 H1 H2). split; [congruence|]. rewrite E1. exact Hs.
  - apply (net_blk_aligned n W).
  - cbn [net_blk bp]. unfold w, ver. lia.
  - intros x Hx. assert (I : in_net n ver x) by (apply (in_net_inb n ver x W); split; [reflexivity|exact Hx]).
    destruct (Hsub x I) as (k & Hk & Ik). exists (net_blk k). split.
    + unfold fam_blks. apply in_map. apply q_in_fam. split; [exact Hk|apply Ik].
    + apply (in_net_inb k ver x (Fw k Hk)) in Ik. destruct Ik as [Ev Ik]. unfold w. rewrite <- Ev. exact Ik.
  - unfold fam_blks in HB. apply in_map_iff in HB. destruct HB as (k & <- & Hk).
    apply q_in_fam in Hk. destruct Hk as [Hk Ev]. exists k. split; [exact Hk|split; [exact Ev|]].
    pose proof (Fw k Hk) as Wk. pose proof (q_nf_le_nl n W) as Hfl.
    assert (T : forall x, in_net n ver x -> in_net k ver x).
    { intros x I. apply (in_net_inb n ver x W) in I. destruct I as [_ I].
      apply (in_net_inb k ver x Wk). split; [exact Ev|]. rewrite Ev. apply S. exact I. }
    destruct (T (nf n)) as [_ A1]. { split; [reflexivity|lia]. }
    destruct (T (nl n)) as [_ A2]. { split; [reflexivity|lia]. }
    lia.
Qed.

(* the stored key found by q_cover is met by the walk when its prefix length is reached *)
Lemma q_cover_key n k : wf_net n -> wf_net k -> nver k = nver n -> nf k <= nf n -> nl n <= nl k ->
  0 <= nplen k <= nplen n /\ key_eqb (q_reprefix n (nplen k)) k = true.
Proof.
  intros W Wk Ev H1 H2. pose proof W as (_ & Hv & Hp). pose proof Wk as (_ & Hvk & Hpk).
  pose proof (q_nf_le_val n W) as Bv.
  pose proof (nl_eq n W) as Eln. pose proof (nl_eq k Wk) as Elk. pose proof (nf_eq k Wk) as Efk.
  rewrite Ev in *. set (w := width (nver n)) in *.
  assert (Hr : nplen k <= nplen n).
  { assert (2 ^ (w - nplen n) <= 2 ^ (w - nplen k)) by lia.
    apply Z.pow_le_mono_r_iff in H; lia. }
  split; [lia|].
  assert (W' : wf_net (q_reprefix n (nplen k))) by (apply q_reprefix_wf; [exact W|fold w; lia]).
  apply q_key_eqb_iff. cbn [q_reprefix nver]. split; [symmetry; exact Ev|].
  assert (D : (2 ^ (w - nplen k) | nf k)) by (rewrite Efk; apply floor2_divide; lia).
  assert (E : nf k = floor2 (nval n) (w - nplen k)).
  { apply floor2_unique; [lia|exact D|lia]. }
  assert (Ef' : nf (q_reprefix n (nplen k)) = nf k).
  { rewrite (nf_eq _ W'). cbn [q_reprefix nver nval nplen]. fold w. symmetry. exact E. }
  split; [exact Ef'|].
  rewrite (nl_eq _ W'), Ef', Elk. cbn [q_reprefix nver nplen]. fold w. reflexivity.
Qed.

(* ---------------------------------------------------------------- 1. membership *)
Theorem q_contains d n : Forall wf_net d -> q_nosib d -> wf_net n ->
  (set_contains d n = true <-> forall x, in_net n (nver n) x -> den d (nver n) x).
Proof.
  intros Fw Ns W. pose proof W as (_ & _ & Hp). rewrite q_contains_walk by lia. split.
  - intros (r & Hr & Hm) x Ix. apply q_dmem_iff in Hm. destruct Hm as (k & Hk & Ek).
    apply q_key_eqb_iff in Ek. cbn [q_reprefix nver] in Ek. destruct Ek as (Ev & Ef & El).
    destruct (q_reprefix_covers n r W Hr) as [C1 C2].
    exists k. split; [exact Hk|]. destruct Ix as [_ Ix]. split; [symmetry; exact Ev|lia].
  - intros Hsub. destruct (q_cover d n Fw Ns W Hsub) as (k & Hk & Ev & H1 & H2).
    rewrite Forall_forall in Fw.
    destruct (q_cover_key n k W (Fw k Hk) Ev H1 H2) as [Hr Ek].
    exists (nplen k). split; [lia|]. apply q_dmem_iff. exists k. split; [exact Hk|exact Ek].
Qed.

Lemma q_addr_net_wf ver v : valid_ver ver = true -> 0 <= v < 2 ^ width ver -> wf_net (addr_net ver v).
Proof. intros Hver Hv. unfold wf_net, addr_net; cbn. pose proof (width_nonneg ver). repeat split; try assumption; lia. Qed.

Lemma q_addr_net_block ver v : valid_ver ver = true -> 0 <= v < 2 ^ width ver ->
  nf (addr_net ver v) = v /\ nl (addr_net ver v) = v.
Proof.
  intros Hver Hv. pose proof (q_addr_net_wf ver v Hver Hv) as W.
  pose proof (q_nf_le_val _ W) as B. pose proof (nl_eq _ W) as E. cbn [addr_net nver nval nplen] in *.
  replace (width ver - width ver) with 0 in E by lia. change (2 ^ 0) with 1 in E. lia.
Qed.

(* the address form: `ip in s` *)
Theorem q_contains_addr d ver v : Forall wf_net d -> q_nosib d -> valid_ver ver = true -> 0 <= v < 2 ^ width ver ->
  (set_contains d (addr_net ver v) = true <-> den d ver v).
Proof.
  intros Fw Ns Hver Hv. rewrite (q_contains d _ Fw Ns (q_addr_net_wf ver v Hver Hv)).
  destruct (q_addr_net_block ver v Hver Hv) as [Ef El]. cbn [addr_net nver]. split.
  - intros H. apply H. split; [reflexivity|]. fold (addr_net ver v). lia.
  - intros H x [_ Ix]. fold (addr_net ver v) in Ix. assert (x = v) by lia. subst x. exact H.
Qed.

(* ---------------------------------------------------------------- 2. subset / superset *)
Theorem q_subset a b : Forall wf_net a -> Forall wf_net b -> q_nosib b ->
  (set_issubset a b = true <-> forall ver x, den a ver x -> den b ver x).
Proof.
  intros Fa Fb Nb. unfold set_issubset. rewrite forallb_forall. rewrite Forall_forall in Fa. split.
  - intros H ver x (c & Hc & Ic). pose proof (H c Hc) as Hcc.
    rewrite (q_contains b c Fb Nb (Fa c Hc)) in Hcc. destruct Ic as [Ev Ic]. subst ver.
    apply Hcc. split; [reflexivity|exact Ic].
  - intros H c Hc. apply (q_contains b c Fb Nb (Fa c Hc)). intros x Ix. apply H. exists c. split; assumption.
Qed.

Theorem q_superset a b : Forall wf_net a -> Forall wf_net b -> q_nosib a ->
  (set_issuperset a b = true <-> forall ver x, den b ver x -> den a ver x).
Proof. intros Fa Fb Na. apply (q_subset b a Fb Fa Na). Qed.
