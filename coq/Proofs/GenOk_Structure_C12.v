(* Proofs/GenOk_Structure_C12.v -- WRITTEN BY tools/mkstructure.py from the pinned tree: signatures (parameter names, order, default
   values), decorators, class bases and non-def class-body statements of the functions and classes C12 relies on, as the models, the
   harness adapters and the translator tables assume them; the regenerated lists (coq/Gen/structure_gen.v) must equal them. *)
From Coq Require Import List String Bool.
From NV Require Import Gen.structure_gen.
Import ListNotations.
Open Scope string_scope.

(* drop_<group>: functions translated by harness/gen/pysrc.py that nothing in the dependency closure of this property's theorem
   files mentions, directly or through the generated definitions they mention: their rows are another property's business
   (tools/mkstructure.py computes the lists); classes, untranslated functions and NEW functions are kept *)
Definition keep (drop : list string) (r : string * string) : bool := negb (existsb (String.eqb (fst r)) drop).

Lemma names_compat_ok : gen_names_compat = ["_bytes_join"; "_zip"; "_range"; "_iter_next"].
Proof. reflexivity. Qed.

Definition drop_compat___bytes_join : list string := [].
Definition pinned_struct_compat___bytes_join : list (string * string) := [
  ("def _bytes_join", "(*args)");
  ("def _bytes_join", "(*args)")
].
Lemma struct_compat___bytes_join_ok : filter (keep drop_compat___bytes_join) gen_struct_compat___bytes_join = pinned_struct_compat___bytes_join.
Proof. vm_compute. reflexivity. Qed.

Definition drop_compat___zip : list string := [].
Definition pinned_struct_compat___zip : list (string * string) := [
  ("def _zip", "(*args)");
  ("def _zip", "(*args)")
].
Lemma struct_compat___zip_ok : filter (keep drop_compat___zip) gen_struct_compat___zip = pinned_struct_compat___zip.
Proof. vm_compute. reflexivity. Qed.

Definition drop_compat___range : list string := [].
Definition pinned_struct_compat___range : list (string * string) := [
  ("def _range", "(*args, **kwargs)");
  ("def _range", "(*args, **kwargs)")
].
Lemma struct_compat___range_ok : filter (keep drop_compat___range) gen_struct_compat___range = pinned_struct_compat___range.
Proof. vm_compute. reflexivity. Qed.

Definition drop_compat___iter_next : list string := [].
Definition pinned_struct_compat___iter_next : list (string * string) := [
  ("def _iter_next", "(x)");
  ("def _iter_next", "(x)")
].
Lemma struct_compat___iter_next_ok : filter (keep drop_compat___iter_next) gen_struct_compat___iter_next = pinned_struct_compat___iter_next.
Proof. vm_compute. reflexivity. Qed.

Lemma names_eui_init_ok : gen_names_eui_init = ["BaseIdentifier"; "OUI"; "IAB"; "EUI"].
Proof. reflexivity. Qed.

Definition drop_eui_init__BaseIdentifier : list string := ["def BaseIdentifier.__int__"; "def BaseIdentifier.__long__"; "def BaseIdentifier.__oct__"; "def BaseIdentifier.__hex__"; "def BaseIdentifier.__index__"].
Definition pinned_struct_eui_init__BaseIdentifier : list (string * string) := [
  ("class BaseIdentifier", "(object) __slots__ = ('_value', '__weakref__')");
  ("def BaseIdentifier.__init__", "(self)")
].
Lemma struct_eui_init__BaseIdentifier_ok : filter (keep drop_eui_init__BaseIdentifier) gen_struct_eui_init__BaseIdentifier = pinned_struct_eui_init__BaseIdentifier.
Proof. vm_compute. reflexivity. Qed.

Definition drop_eui_init__OUI : list string := ["def OUI.__init__"; "def OUI.__eq__"; "def OUI.__ne__"; "def OUI.__getstate__"; "def OUI.__setstate__"; "def OUI._parse_data"; "def OUI.reg_count"; "def OUI.registration"; "def OUI.__str__"; "def OUI.__repr__"].
Definition pinned_struct_eui_init__OUI : list (string * string) := [
  ("class OUI", "(BaseIdentifier) __slots__ = ('records',)")
].
Lemma struct_eui_init__OUI_ok : filter (keep drop_eui_init__OUI) gen_struct_eui_init__OUI = pinned_struct_eui_init__OUI.
Proof. vm_compute. reflexivity. Qed.

Definition drop_eui_init__IAB : list string := ["def IAB.split_iab_mac"; "def IAB.__init__"; "def IAB.__eq__"; "def IAB.__ne__"; "def IAB.__getstate__"; "def IAB.__setstate__"; "def IAB._parse_data"; "def IAB.registration"; "def IAB.__str__"; "def IAB.__repr__"].
Definition pinned_struct_eui_init__IAB : list (string * string) := [
  ("class IAB", "(BaseIdentifier) IAB_EUI_VALUES = (20674, 4249685) ; __slots__ = ('record',)")
].
Lemma struct_eui_init__IAB_ok : filter (keep drop_eui_init__IAB) gen_struct_eui_init__IAB = pinned_struct_eui_init__IAB.
Proof. vm_compute. reflexivity. Qed.

Definition drop_eui_init__EUI : list string := ["def EUI.__init__"; "def EUI.__getstate__"; "def EUI.__setstate__"; "def EUI._set_value"; "def EUI._validate_dialect"; "def EUI._set_dialect"; "def EUI.oui"; "def EUI.ei"; "def EUI.is_iab"; "def EUI.iab"; "def EUI.version"; "def EUI.__getitem__"; "def EUI.__setitem__"; "def EUI.__hash__"; "def EUI.__eq__"; "def EUI.__ne__"; "def EUI.__lt__"; "def EUI.__le__"; "def EUI.__gt__"; "def EUI.__ge__"; "def EUI.bits"; "def EUI.packed"; "def EUI.words"; "def EUI.bin"; "def EUI.eui64"; "def EUI.modified_eui64"; "def EUI.ipv6"; "def EUI.ipv6_link_local"; "def EUI.info"; "def EUI.format"; "def EUI.__str__"; "def EUI.__repr__"].
Definition pinned_struct_eui_init__EUI : list (string * string) := [
  ("class EUI", "(BaseIdentifier) __slots__ = ('_module', '_dialect') ; value = property(_get_value, _set_value, None, 'a positive integer representing the value of this EUI indentifier.') ; dialect = property(_get_dialect, _set_dialect, None, 'a Python class providing support for the interpretation of various MAC\n address formats.')");
  ("def EUI._get_value", "(self)");
  ("def EUI._get_dialect", "(self)")
].
Lemma struct_eui_init__EUI_ok : filter (keep drop_eui_init__EUI) gen_struct_eui_init__EUI = pinned_struct_eui_init__EUI.
Proof. vm_compute. reflexivity. Qed.

Definition drop_ip_init__BaseIP : list string := ["def BaseIP._set_value"; "def BaseIP.is_unicast"; "def BaseIP.is_multicast"; "def BaseIP.is_loopback"; "def BaseIP.is_private"; "def BaseIP.is_link_local"; "def BaseIP.is_reserved"; "def BaseIP.is_ipv4_mapped"; "def BaseIP.is_ipv4_compat"].
Definition pinned_struct_ip_init__BaseIP : list (string * string) := [
  ("class BaseIP", "(object) __slots__ = ('_value', '_module', '__weakref__') ; value = property(lambda self: self._value, _set_value, doc='a positive integer representing the value of IP address/subnet.')");
  ("def BaseIP.__init__", "(self)");
  ("def BaseIP.key", "(self)");
  ("def BaseIP.sort_key", "(self)");
  ("def BaseIP.__hash__", "(self)");
  ("def BaseIP.__eq__", "(self, other)");
  ("def BaseIP.__ne__", "(self, other)");
  ("def BaseIP.__lt__", "(self, other)");
  ("def BaseIP.__le__", "(self, other)");
  ("def BaseIP.__gt__", "(self, other)");
  ("def BaseIP.__ge__", "(self, other)");
  ("def BaseIP.info", "@property (self)");
  ("def BaseIP.version", "@property (self)")
].
Lemma struct_ip_init__BaseIP_ok : filter (keep drop_ip_init__BaseIP) gen_struct_ip_init__BaseIP = pinned_struct_ip_init__BaseIP.
Proof. vm_compute. reflexivity. Qed.

Definition drop_ip_init__IPAddress : list string := ["def IPAddress.netmask_bits"; "def IPAddress.is_hostmask"; "def IPAddress.is_netmask"; "def IPAddress.__iadd__"; "def IPAddress.__isub__"; "def IPAddress.__add__"; "def IPAddress.__sub__"; "def IPAddress.__rsub__"; "def IPAddress.__oct__"; "def IPAddress.__hex__"; "def IPAddress.__index__"; "def IPAddress.__bytes__"; "def IPAddress.bits"; "def IPAddress.packed"; "def IPAddress.words"; "def IPAddress.bin"; "def IPAddress.reverse_dns"; "def IPAddress.ipv4"; "def IPAddress.ipv6"; "def IPAddress.format"; "def IPAddress.__or__"; "def IPAddress.__and__"; "def IPAddress.__xor__"; "def IPAddress.__lshift__"; "def IPAddress.__rshift__"; "def IPAddress.__nonzero__"; "def IPAddress.__repr__"].
Definition pinned_struct_ip_init__IPAddress : list (string * string) := [
  ("class IPAddress", "(BaseIP) __slots__ = () ; __radd__ = __add__ ; __bool__ = __nonzero__");
  ("def IPAddress.__init__", "(self, addr, version=None, flags=0)");
  ("def IPAddress.__getstate__", "(self)");
  ("def IPAddress.__setstate__", "(self, state)");
  ("def IPAddress.key", "(self)");
  ("def IPAddress.sort_key", "(self)");
  ("def IPAddress.__int__", "(self)");
  ("def IPAddress.__long__", "(self)");
  ("def IPAddress.__str__", "(self)")
].
Lemma struct_ip_init__IPAddress_ok : filter (keep drop_ip_init__IPAddress) gen_struct_ip_init__IPAddress = pinned_struct_ip_init__IPAddress.
Proof. vm_compute. reflexivity. Qed.

Definition drop_ip_init__IPNetwork : list string := ["def IPNetwork.__init__"; "def IPNetwork._set_prefixlen"; "def IPNetwork.ip"; "def IPNetwork.network"; "def IPNetwork.broadcast"; "def IPNetwork.netmask"; "def IPNetwork.netmask"; "def IPNetwork._netmask_int"; "def IPNetwork.hostmask"; "def IPNetwork.cidr"; "def IPNetwork.__iadd__"; "def IPNetwork.__isub__"; "def IPNetwork.__contains__"; "def IPNetwork.ipv4"; "def IPNetwork.ipv6"; "def IPNetwork.previous"; "def IPNetwork.next"; "def IPNetwork.supernet"; "def IPNetwork.subnet"; "def IPNetwork.iter_hosts"; "def IPNetwork.__str__"; "def IPNetwork.__repr__"].
Definition pinned_struct_ip_init__IPNetwork : list (string * string) := [
  ("class IPNetwork", "(BaseIP, IPListMixin) __slots__ = ('_prefixlen',) ; prefixlen = property(lambda self: self._prefixlen, _set_prefixlen, doc='size of the bitmask used to separate the network from the host bits')");
  ("def IPNetwork.__getstate__", "(self)");
  ("def IPNetwork.__setstate__", "(self, state)");
  ("def IPNetwork.first", "@property (self)");
  ("def IPNetwork.last", "@property (self)");
  ("def IPNetwork._hostmask_int", "@property (self)");
  ("def IPNetwork.key", "(self)");
  ("def IPNetwork.sort_key", "(self)")
].
Lemma struct_ip_init__IPNetwork_ok : filter (keep drop_ip_init__IPNetwork) gen_struct_ip_init__IPNetwork = pinned_struct_ip_init__IPNetwork.
Proof. vm_compute. reflexivity. Qed.

Definition drop_ip_init__IPListMixin : list string := ["def IPListMixin.__iter__"; "def IPListMixin.__len__"; "def IPListMixin.__getitem__"; "def IPListMixin.__contains__"; "def IPListMixin.__nonzero__"].
Definition pinned_struct_ip_init__IPListMixin : list (string * string) := [
  ("class IPListMixin", "(object) __slots__ = () ; __bool__ = __nonzero__");
  ("def IPListMixin.size", "@property (self)")
].
Lemma struct_ip_init__IPListMixin_ok : filter (keep drop_ip_init__IPListMixin) gen_struct_ip_init__IPListMixin = pinned_struct_ip_init__IPListMixin.
Proof. vm_compute. reflexivity. Qed.

Definition drop_ip_init__parse_ip_network : list string := ["def parse_ip_network"].
Definition pinned_struct_ip_init__parse_ip_network : list (string * string) := [].
Lemma struct_ip_init__parse_ip_network_ok : filter (keep drop_ip_init__parse_ip_network) gen_struct_ip_init__parse_ip_network = pinned_struct_ip_init__parse_ip_network.
Proof. vm_compute. reflexivity. Qed.

Definition drop_ip_init___arg_repr : list string := [].
Definition pinned_struct_ip_init___arg_repr : list (string * string) := [
  ("def _arg_repr", "(value)")
].
Lemma struct_ip_init___arg_repr_ok : filter (keep drop_ip_init___arg_repr) gen_struct_ip_init___arg_repr = pinned_struct_ip_init___arg_repr.
Proof. vm_compute. reflexivity. Qed.

Definition drop_ip_init__IPRange : list string := ["def IPRange.__contains__"; "def IPRange.cidrs"; "def IPRange.__str__"; "def IPRange.__repr__"].
Definition pinned_struct_ip_init__IPRange : list (string * string) := [
  ("class IPRange", "(BaseIP, IPListMixin) __slots__ = ('_start', '_end')");
  ("def IPRange.__init__", "(self, start, end, flags=0)");
  ("def IPRange.__getstate__", "(self)");
  ("def IPRange.__setstate__", "(self, state)");
  ("def IPRange.first", "@property (self)");
  ("def IPRange.last", "@property (self)");
  ("def IPRange.key", "(self)");
  ("def IPRange.sort_key", "(self)")
].
Lemma struct_ip_init__IPRange_ok : filter (keep drop_ip_init__IPRange) gen_struct_ip_init__IPRange = pinned_struct_ip_init__IPRange.
Proof. vm_compute. reflexivity. Qed.

Definition drop_ip_glob__IPGlob : list string := ["def IPGlob.__init__"; "def IPGlob.__getstate__"; "def IPGlob.__setstate__"; "def IPGlob._get_glob"; "def IPGlob._set_glob"; "def IPGlob.__str__"; "def IPGlob.__repr__"].
Definition pinned_struct_ip_glob__IPGlob : list (string * string) := [
  ("class IPGlob", "(IPRange) __slots__ = ('_glob',) ; glob = property(_get_glob, _set_glob, None, 'an arbitrary IP address range in glob format.')")
].
Lemma struct_ip_glob__IPGlob_ok : filter (keep drop_ip_glob__IPGlob) gen_struct_ip_glob__IPGlob = pinned_struct_ip_glob__IPGlob.
Proof. vm_compute. reflexivity. Qed.

Definition drop_ip_sets__IPSet : list string := ["def IPSet.__init__"; "def IPSet.__getstate__"; "def IPSet.__reduce__"; "def IPSet.__setstate__"; "def IPSet._compact_single_network"; "def IPSet.compact"; "def IPSet.__hash__"; "def IPSet.__contains__"; "def IPSet.__nonzero__"; "def IPSet.__iter__"; "def IPSet.iter_cidrs"; "def IPSet.add"; "def IPSet.remove"; "def IPSet.pop"; "def IPSet.isdisjoint"; "def IPSet.copy"; "def IPSet.update"; "def IPSet.clear"; "def IPSet.__eq__"; "def IPSet.__ne__"; "def IPSet.__lt__"; "def IPSet.issubset"; "def IPSet.__gt__"; "def IPSet.issuperset"; "def IPSet.union"; "def IPSet.intersection"; "def IPSet.symmetric_difference"; "def IPSet.difference"; "def IPSet.__len__"; "def IPSet.size"; "def IPSet.__repr__"; "def IPSet.iscontiguous"; "def IPSet.iprange"; "def IPSet.iter_ipranges"].
Definition pinned_struct_ip_sets__IPSet : list (string * string) := [
  ("class IPSet", "(object) __slots__ = ('_cidrs', '__weakref__') ; __bool__ = __nonzero__ ; __le__ = issubset ; __ge__ = issuperset ; __or__ = union ; __and__ = intersection ; __xor__ = symmetric_difference ; __sub__ = difference ; __str__ = __repr__")
].
Lemma struct_ip_sets__IPSet_ok : filter (keep drop_ip_sets__IPSet) gen_struct_ip_sets__IPSet = pinned_struct_ip_sets__IPSet.
Proof. vm_compute. reflexivity. Qed.

