(* Proofs/C15_Main.v — the C15 theorems over the four families and every built-in dialect of the generated table. *)
From Coq Require Import String Ascii.
From NV Require Import Base.Tac Base.PyVal Base.Bits Base.PyStr Base.PyStrFacts Model.Ip Model.Codec
  Proofs.C15_Digits Proofs.C15 Proofs.GenOk_C15 Proofs.C15_Arpa Proofs.C15_Dec Proofs.C15_B85.
Close Scope string_scope.
Open Scope Z_scope.

(* (fam, name) is a row of the generated table with parameters d; dflt is the family's default dialect row *)
Definition builtin (fam name : string) (d dflt : dialect) : Prop :=
  find_dialect fam name = Some d /\ find_dialect fam (default_name fam) = Some dflt.

Lemma builtin_ok fam name d dflt : builtin fam name d dflt -> fam_ok fam d.
Proof. intros [H _]. now apply find_dialect_ok in H. Qed.

Lemma builtin_dflt64 name d dflt : builtin "eui64" name d dflt -> d_ws dflt = 8 /\ d_nw dflt = 8.
Proof. intros [_ H]. rewrite gen_default_eui64_ok in H. injection H as <-. split; reflexivity. Qed.

Lemma width_pow d : d_width d = d_ws d * d_nw d -> 2 ^ d_width d = 2 ^ (d_ws d * d_nw d).
Proof. now intros ->. Qed.

(* ------------------------------------------------------------------------------------------------ *)
Definition encode_spec_stmt : Prop :=
  forall fam name d dflt v, builtin fam name d dflt -> 0 <= v < 2 ^ d_width d ->
  let ws := d_ws d in let nw := d_nw d in let w := d_width d in
  m_int_to_words fam d v = Ok (spec_words ws nw v) /\
  m_int_to_bits d v = Ok (spec_bits ws nw (d_sep d) v) /\
  ip_bits d v None = Ok (spec_bits ws nw (d_sep d) v) /\
  (forall sep, ip_bits d v (Some sep) = Ok (spec_bits ws nw sep v)) /\
  chars (strip_sep (d_sep d) (spec_bits ws nw (d_sep d) v)) = spec_bin_fixed (Z.to_nat w) v /\
  m_int_to_bin d v = Ok (spec_bin v) /\
  m_int_to_packed fam dflt v = Ok (spec_packed w v) /\
  ip_bytes d v = Ok (spec_packed w v) /\
  (fam = "ipv4"%string -> ip_reverse_dns fam d v = Ok (spec_arpa4 v)) /\
  (fam = "ipv6"%string -> ip_reverse_dns fam d v = Ok (spec_arpa6 v)).

Lemma strip_spec_bits ws nw sep v : 0 < ws -> 0 < nw -> sep_ok sep = true ->
  chars (strip_sep sep (spec_bits ws nw sep v)) = spec_bin_fixed (Z.to_nat (ws * nw)) v.
Proof.
  intros Hws Hnw Hsep. unfold spec_bits. rewrite <- map_map. rewrite strip_sep_join.
  - apply concat_spec_bits; lia.
  - exact Hsep.
  - apply Forall_forall. intros t Ht. apply in_map_iff in Ht. destruct Ht as (x & <- & _).
    intros c Hc. pose proof (spec_bin_fixed_bin (Z.to_nat ws) x) as HB. rewrite Forall_forall in HB. now apply HB.
Qed.

Lemma m_int_to_packed_spec fam name d dflt v : builtin fam name d dflt -> 0 <= v < 2 ^ d_width d ->
  m_int_to_packed fam dflt v = Ok (spec_packed (d_width d) v).
Proof.
  intros HB Hv. pose proof (builtin_ok _ _ _ _ HB) as (Hw & Hws & Hnw & Hsep & Hfam).
  destruct Hfam as [(-> & E & _)|[(-> & E & _)|[(-> & E)|(-> & E)]]]; rewrite E in *; unfold m_int_to_packed; cbn [String.eqb Ascii.eqb Bool.eqb].
  - now apply ipv4_int_to_packed_spec.
  - now apply ipv6_int_to_packed_spec.
  - now apply eui48_int_to_packed_spec.
  - destruct (builtin_dflt64 _ _ _ HB). now apply eui64_int_to_packed_spec.
Qed.

Lemma width_bytes fam d : fam_ok fam d -> d_width d = 8 * Z.of_nat (Z.to_nat (d_width d / 8)).
Proof.
  intros (_ & _ & _ & _ & Hfam).
  destruct Hfam as [(_ & E & _)|[(_ & E & _)|[(_ & E)|(_ & E)]]]; rewrite E; reflexivity.
Qed.

Lemma encode_spec : encode_spec_stmt.
Proof.
  intros fam name d dflt v HB Hv ws nw w. subst ws nw w.
  pose proof (builtin_ok _ _ _ _ HB) as (Hw & Hws & Hnw & Hsep & Hfam).
  assert (Hv' : 0 <= v < 2 ^ (d_ws d * d_nw d)) by (rewrite <- Hw; exact Hv).
  assert (Hbits : forall sep, int_to_bits v (d_ws d) (d_nw d) sep = Ok (spec_bits (d_ws d) (d_nw d) sep v))
    by (intros sep; apply int_to_bits_spec; [exact Hws|lia|exact Hv']).
  split.
  { unfold m_int_to_words. destruct Hfam as [(-> & E1 & E2 & E3)|Hfam].
    - cbn [String.eqb Ascii.eqb Bool.eqb]. rewrite E2, E3. apply ipv4_int_to_words_spec. now rewrite <- E1.
    - assert (String.eqb fam "ipv4" = false) as ->.
      { destruct Hfam as [(-> & _)|[(-> & _)|(-> & _)]]; reflexivity. }
      apply int_to_words_spec; [lia|lia|exact Hv']. }
  split; [apply Hbits|]. split; [apply Hbits|]. split; [intros sep; apply Hbits|].
  split. { rewrite Hw. now apply strip_spec_bits. }
  split. { unfold m_int_to_bin. apply int_to_bin_spec; [nia|exact Hv]. }
  split. { now apply (m_int_to_packed_spec fam name d dflt v). }
  split.
  { unfold ip_bytes. rewrite spec_packed_eq. apply int_to_bytes_spec.
    rewrite pow2_256, <- (width_bytes fam d (builtin_ok _ _ _ _ HB)). exact Hv. }
  split.
  - intros ->. unfold ip_reverse_dns. cbn [String.eqb Ascii.eqb Bool.eqb].
    destruct Hfam as [(_ & E & _)|[(Hf & _)|[(Hf & _)|(Hf & _)]]]; try discriminate.
    apply ipv4_int_to_arpa_spec. now rewrite <- E.
  - intros ->. unfold ip_reverse_dns. cbn [String.eqb Ascii.eqb Bool.eqb].
    destruct Hfam as [(Hf & _)|[(_ & E & _ & _ & Es)|[(Hf & _)|(Hf & _)]]]; try discriminate.
    apply ipv6_int_to_arpa_spec; [exact Es|now rewrite <- E].
Qed.

(* ------------------------------------------------------------------------------------------------ *)
Lemma m_words_to_int_char fam name d dflt words : builtin fam name d dflt ->
  m_words_to_int fam d words =
  if valid_words words (d_ws d) (d_nw d) then Ok (from_digits (2 ^ d_ws d) words) else Raise ValueError.
Proof.
  intros HB. pose proof (builtin_ok _ _ _ _ HB) as (Hw & Hws & Hnw & Hsep & Hfam).
  unfold m_words_to_int. destruct Hfam as [(-> & E1 & E2 & E3)|Hfam].
  - cbn [String.eqb Ascii.eqb Bool.eqb]. rewrite ipv4_words_to_int_char by assumption. now rewrite E2, E3.
  - assert (String.eqb fam "ipv4" = false) as ->.
    { destruct Hfam as [(-> & _)|[(-> & _)|(-> & _)]]; reflexivity. }
    apply words_to_int_char. lia.
Qed.

Lemma m_packed_to_int_char fam name d dflt buf : builtin fam name d dflt -> bytes_ok buf ->
  m_packed_to_int fam buf =
  if Nat.eqb (List.length buf) (Z.to_nat (d_width d / 8)) then Ok (from_digits 256 buf) else Raise StructError.
Proof.
  intros HB Hb. pose proof (builtin_ok _ _ _ _ HB) as (Hw & Hws & Hnw & Hsep & Hfam).
  destruct Hfam as [(-> & E & _)|[(-> & E & _)|[(-> & E)|(-> & E)]]]; rewrite E; unfold m_packed_to_int; cbn [String.eqb Ascii.eqb Bool.eqb].
  - now apply ipv4_packed_to_int_char.
  - now apply ipv6_packed_to_int_char.
  - now apply eui48_packed_to_int_char.
  - now apply eui64_packed_to_int_char.
Qed.


Definition decode_encode_stmt : Prop :=
  forall fam name d dflt v, builtin fam name d dflt -> 0 <= v < 2 ^ d_width d ->
  (do x <- m_int_to_words fam d v; m_words_to_int fam d x) = Ok v /\
  (do x <- m_int_to_bits d v; m_bits_to_int d x) = Ok v /\
  (do x <- m_int_to_bin d v; m_bin_to_int d x) = Ok v /\
  (do x <- m_int_to_packed fam dflt v; m_packed_to_int fam (bytes_of_str (str_of_bytes x))) = Ok v.

Lemma bytes_roundtrip l : bytes_ok l -> bytes_of_str (str_of_bytes l) = l.
Proof.
  intros H. unfold bytes_of_str, str_of_bytes. rewrite chars_str_of, map_map. rewrite <- (map_id l) at 2.
  apply map_ext_in. intros b Hb. unfold bytes_ok in H. rewrite Forall_forall in H. apply code_chr. now apply H.
Qed.

Lemma decode_encode : decode_encode_stmt.
Proof.
  intros fam name d dflt v HB Hv.
  pose proof (builtin_ok _ _ _ _ HB) as Hok. pose proof Hok as (Hw & Hws & Hnw & Hsep & Hfam).
  destruct (encode_spec fam name d dflt v HB Hv) as (E1 & E2 & _ & _ & _ & E3 & E4 & _).
  assert (Hv' : 0 <= v < 2 ^ (d_ws d * d_nw d)) by (rewrite <- Hw; exact Hv).
  rewrite E1, E2, E3, E4. cbn [bind]. split.
  { rewrite (m_words_to_int_char fam name d dflt) by exact HB. rewrite valid_words_spec by lia. f_equal.
    unfold spec_words. apply from_digits_digits_be_small; [apply Z.pow_pos_nonneg; lia|].
    rewrite <- Z.pow_mul_r by lia. rewrite Z2Nat.id by lia. exact Hv'. }
  split. { unfold m_bits_to_int. rewrite Hw. apply bits_to_int_roundtrip; assumption. }
  split. { unfold m_bin_to_int. apply bin_to_int_roundtrip; [nia|exact Hv]. }
  assert (Hb : bytes_ok (spec_packed (d_width d) v)) by (rewrite spec_packed_eq; apply digits_be_range; lia).
  rewrite bytes_roundtrip by exact Hb.
  rewrite (m_packed_to_int_char fam name d dflt) by assumption.
  rewrite spec_packed_eq, digits_be_length, Nat.eqb_refl. f_equal.
  apply from_digits_digits_be_small; [lia|]. rewrite pow2_256, <- (width_bytes fam d Hok). exact Hv.
Qed.

(* ------------------------------------------------------------------------------------------------ *)
Definition decode_strict_stmt : Prop :=
  forall fam name d dflt, builtin fam name d dflt ->
  let ws := d_ws d in let nw := d_nw d in let w := d_width d in
  (* words: right count, every word < 2^ws; the tuple is the big-endian word tuple of the result *)
  (forall words v, m_words_to_int fam d words = Ok v -> words = spec_words ws nw v /\ 0 <= v < 2 ^ w) /\
  (forall words, ~ (Z.of_nat (List.length words) = nw /\ Forall (fun x => 0 <= x < 2 ^ ws) words) ->
                 m_words_to_int fam d words = Raise ValueError) /\
  (* bits: after removing the separators, exactly w binary digits, the w-digit numeral of the result *)
  (forall s v, m_bits_to_int d s = Ok v ->
               chars (strip_sep (d_sep d) s) = spec_bin_fixed (Z.to_nat w) v /\ 0 <= v < 2 ^ w) /\
  (forall s, ~ (str_len (strip_sep (d_sep d) s) = w /\
                Forall (fun c => c = "0"%char \/ c = "1"%char) (chars (strip_sep (d_sep d) s))) ->
             m_bits_to_int d s = Raise ValueError) /\
  (* bin: one leading '0b', then 1..w binary digits that are a numeral of the result *)
  (forall s v, m_bin_to_int d s = Ok v ->
               exists t, s = ("0b" ++ t)%string /\ 1 <= str_len t <= w /\
                         chars t = spec_bin_fixed (String.length t) v /\ 0 <= v < 2 ^ w) /\
  (forall s, ~ (exists t, s = ("0b" ++ t)%string /\ 1 <= str_len t <= w /\
                          Forall (fun c => c = "0"%char \/ c = "1"%char) (chars t)) ->
             m_bin_to_int d s = Raise ValueError) /\
  (* packed: exactly w/8 bytes, the big-endian byte string of the result *)
  (forall s v, m_packed_to_int fam (bytes_of_str s) = Ok v ->
               bytes_of_str s = spec_packed w v /\ 0 <= v < 2 ^ w) /\
  (forall s, String.length s <> Z.to_nat (w / 8) -> m_packed_to_int fam (bytes_of_str s) = Raise StructError).

Lemma Forall_bin_iff l : Forall (fun c => is_bin_digit c = true) l <-> Forall (fun c => c = "0"%char \/ c = "1"%char) l.
Proof.
  split; intros H; eapply Forall_impl; try exact H; cbn beta; intros c Hc.
  - now apply is_bin_digit_cases.
  - destruct Hc as [-> | ->]; reflexivity.
Qed.

Lemma decode_strict : decode_strict_stmt.
Proof.
  intros fam name d dflt HB ws nw w. subst ws nw w.
  pose proof (builtin_ok _ _ _ _ HB) as Hok. pose proof Hok as (Hw & Hws & Hnw & Hsep & Hfam).
  assert (Hwpos : 0 < d_width d) by nia.
  split.
  { intros words v. rewrite (m_words_to_int_char fam name d dflt) by exact HB.
    destruct (valid_words words (d_ws d) (d_nw d)) eqn:E; [|discriminate]. intros H. injection H as <-.
    apply valid_words_iff in E. destruct E as [Hlen HF]. rewrite Hw.
    apply words_strict; try lia; try assumption; reflexivity. }
  split.
  { intros words Hbad. rewrite (m_words_to_int_char fam name d dflt) by exact HB.
    destruct (valid_words words (d_ws d) (d_nw d)) eqn:E; [|reflexivity].
    apply valid_words_iff in E. contradiction. }
  split. { intros s v. unfold m_bits_to_int. now apply bits_to_int_strict. }
  split.
  { intros s Hbad. unfold m_bits_to_int. rewrite bits_to_int_char by exact Hwpos.
    destruct (bits_wf (strip_sep (d_sep d) s) (d_width d)) eqn:E; [|reflexivity]. exfalso. apply Hbad.
    unfold bits_wf in E. apply andb_true_iff in E. destruct E as [E1 E2]. apply Z.eqb_eq in E1.
    split; [exact E1|]. apply Forall_bin_iff. now apply all_bin_digits_iff. }
  split. { intros s v. unfold m_bin_to_int. apply bin_to_int_strict. }
  split.
  { intros s Hbad. unfold m_bin_to_int. rewrite bin_to_int_char.
    destruct (bin_wf s (d_width d)) eqn:E; [|reflexivity]. exfalso. apply Hbad.
    destruct (bin_wf_shape _ _ E) as (Hs & Hlen & Hb). exists (drop2 s). split; [exact Hs|]. split; [exact Hlen|].
    apply Forall_bin_iff. now apply all_bin_digits_iff. }
  split.
  { intros s v. rewrite (m_packed_to_int_char fam name d dflt) by (try assumption; apply bytes_of_str_ok).
    destruct (Nat.eqb_spec (List.length (bytes_of_str s)) (Z.to_nat (d_width d / 8))) as [El|]; [|discriminate].
    intros H. injection H as Hv.
    destruct (packed_strict _ (bytes_of_str s) v (bytes_of_str_ok s) El (eq_sym Hv)) as [H1 H2].
    split; [exact H1|]. rewrite (width_bytes fam d Hok), <- pow2_256. exact H2. }
  { intros s Hlen. rewrite (m_packed_to_int_char fam name d dflt) by (try assumption; apply bytes_of_str_ok).
    unfold bytes_of_str. rewrite map_length, length_chars.
    destruct (Nat.eqb_spec (String.length s) (Z.to_nat (d_width d / 8))); [contradiction|reflexivity]. }
Qed.

(* ------------------------------------------------------------------------------------------------ *)
(* RFC 1924 *)
Lemma base85_all :
  (forall v, 0 <= v < 2 ^ 128 -> ipv6_to_base85 v = Ok (spec_base85 v)) /\
  (forall v, 0 <= v < 2 ^ 128 -> (do s <- ipv6_to_base85 v; base85_to_int s) = Ok v) /\
  (forall s v, base85_to_int s = Ok v -> s = spec_base85 v /\ 0 <= v < 2 ^ 128) /\
  (forall s, String.length s <> 20%nat -> base85_to_int s = Raise AddrFormatError) /\
  (forall s c, In c (chars s) -> ~ In c (chars rfc1924_alphabet) -> exists e, base85_to_int s = Raise e).
Proof.
  split; [exact ipv6_to_base85_spec|]. split.
  { intros v Hv. rewrite ipv6_to_base85_spec by exact Hv. cbn [bind]. now apply base85_to_int_roundtrip. }
  split; [exact base85_to_int_strict|]. split.
  { intros s Hs. rewrite base85_to_int_char. apply Nat.eqb_neq in Hs. now rewrite Hs. }
  intros s c Hc Hnot. rewrite base85_to_int_char.
  destruct (negb (Nat.eqb (String.length s) 20)); [eauto|].
  assert (Hk : forallb b85_known (chars s) = false).
  { destruct (forallb b85_known (chars s)) eqn:E; [|reflexivity]. exfalso.
    rewrite forallb_forall in E. specialize (E c Hc). unfold b85_known in E.
    destruct (BASE_85_DICT c) as [i|] eqn:Ei; [|discriminate]. apply dict_Some in Ei. destruct Ei as [Hi Hch].
    apply Hnot. rewrite <- Hch. unfold spec_b85_char. apply nth_In.
    change (List.length (chars rfc1924_alphabet)) with 85%nat. lia. }
  rewrite Hk. cbn [negb]. eauto.
Qed.

(* the value 2^128 and above: a 20-character string over the alphabet whose numeral is >= 2^128 is refused *)
Lemma base85_too_big s : String.length s = 20%nat -> forallb b85_known (chars s) = true ->
  2 ^ 128 <= from_digits 85 (map b85_idx (chars s)) -> base85_to_int s = Raise AddrFormatError.
Proof.
  intros Hl Hk Hbig. rewrite base85_to_int_char, Hl, Hk. cbn [Nat.eqb negb]. cbv zeta.
  destruct (Z.ltb_spec (from_digits 85 (map b85_idx (chars s))) (2 ^ 128)); [lia|reflexivity].
Qed.
