(* Proofs/Code_C16.v — the C16 property theorems restated about the definitions regenerated from the source
   (Gen/pysrc_gen.v: BaseIP.is_ipv4_mapped / is_ipv4_compat, IPAddress.ipv4 / ipv6, IPNetwork.ipv6).
   Each lemma is the model theorem of Proofs/C16.v transported through Proofs/GenOk_Src_C16.v.  The generated conversion
   methods end with `return ip` for a local that is None unless one of the two version branches ran, so they answer an
   `option`; for the two real versions the answer is `Some`.  IPNetwork.ipv4 is NOT translated (its model abstracts the text
   round trip `klass('%s/%d' % ..)`), so the network round trips below compose the generated ipv6 with the model's ipv4. *)
From NV Require Import Base.Tac Base.PyVal Base.Bits Model.Ip Model.Conv Model.SrcPrelude Gen.pysrc_gen
  Proofs.C16 Proofs.GenOk_Src_C16.
Open Scope Z_scope.

(* x.ipv6(c).ipv4() and y.ipv4().ipv6(c) on the generated methods *)
Definition code_addr_v6_then_v4 (ver v : Z) (c : bool) : outcome (option (Z * Z)) :=
  do o <- src_IPAddress_ipv6 ver (width ver) v c;
  match o with Some y => src_IPAddress_ipv4 (fst y) (width (fst y)) (snd y) | None => Ok None end.
Definition code_addr_v4_then_v6 (ver v : Z) (c : bool) : outcome (option (Z * Z)) :=
  do o <- src_IPAddress_ipv4 ver (width ver) v;
  match o with Some y => src_IPAddress_ipv6 (fst y) (width (fst y)) (snd y) c | None => Ok None end.
(* networks: the ipv4 half is the model's (not translated) *)
Definition mixed_net_v6_then_v4 (ver v p : Z) (c : bool) : outcome (option net) :=
  do o <- src_IPNetwork_ipv6 ver (width ver) v p c;
  match o with Some n => omap Some (net_ipv4 (nver n) (nval n) (nplen n)) | None => Ok None end.
Definition mixed_net_v4_then_v6 (ver v p : Z) (c : bool) : outcome (option net) :=
  do n <- net_ipv4 ver v p; src_IPNetwork_ipv6 (nver n) (width (nver n)) (nval n) (nplen n) c.

Lemma addr_of_int_ver_fst i ver y : addr_of_int_ver i ver = Ok y -> fst y = ver /\ valid_ver ver = true.
Proof.
  unfold addr_of_int_ver, valid_ver. case_eqb ver 4.
  - destruct (in_range_w 32 i); [|discriminate]. intros H; injection H as <-. split; [symmetry; assumption|reflexivity].
  - case_eqb ver 6; [|discriminate].
    destruct (in_range_w 128 i); [|discriminate]. intros H; injection H as <-. split; [symmetry; assumption|reflexivity].
Qed.

Lemma addr_ipv6_fst ver v c y : addr_ipv6 ver v c = Ok y -> fst y = 6.
Proof.
  unfold addr_ipv6. destruct (ver =? 6).
  - destruct (c && _); intros H; apply addr_of_int_ver_fst in H; tauto.
  - destruct (ver =? 4); [|discriminate]. destruct (addr_of_int_ver v 6) as [ip|] eqn:E; [|discriminate]. cbn [bind].
    destruct (negb c); [intros H; apply addr_of_int_ver_fst in H; tauto|].
    intros H; injection H as <-. apply addr_of_int_ver_fst in E. tauto.
Qed.

Lemma addr_ipv4_fst ver v y : addr_ipv4 ver v = Ok y -> fst y = 4.
Proof.
  unfold addr_ipv4. destruct (ver =? 4); [intros H; apply addr_of_int_ver_fst in H; tauto|].
  destruct (ver =? 6); [|discriminate]. destruct ((0 <=? v) && _); [intros H; apply addr_of_int_ver_fst in H; tauto|].
  destruct ((0xffff00000000 <=? v) && _); [intros H; apply addr_of_int_ver_fst in H; tauto|discriminate].
Qed.

Lemma net_ipv6_nver ver v p c n : net_ipv6 ver v p c = Ok n -> nver n = 6.
Proof.
  assert (T: forall a b, net_of_tuple 6 a b = Ok n -> nver n = 6).
  { intros a b. unfold net_of_tuple. destruct (negb _); [discriminate|]. destruct (negb _); [discriminate|].
    intros H; injection H as <-. reflexivity. }
  unfold net_ipv6. destruct (ver =? 6); [destruct (c && _); apply T|].
  destruct (ver =? 4); [|discriminate]. destruct c; apply T.
Qed.

Lemma net_ipv4_nver ver v p n : net_ipv4 ver v p = Ok n -> nver n = 4.
Proof.
  assert (T: forall x q, (do addr <- ipv4_int_to_str x; net_of_text_v4 addr q) = Ok n -> nver n = 4).
  { intros x q. unfold ipv4_int_to_str, net_of_text_v4. destruct ((0 <=? x) && _); [|discriminate]. cbn [bind].
    destruct ((0 <=? q) && _); [|discriminate]. intros H; injection H as <-. reflexivity. }
  unfold net_ipv4. destruct (ver =? 4); [apply T|]. destruct (ver =? 6); [|discriminate].
  destruct (p <? 96); [discriminate|]. destruct ((0 <=? v) && _); [apply T|].
  destruct ((0xffff00000000 <=? v) && _); [apply T|discriminate].
Qed.

(* the compositions on the generated methods are the model's compositions (versions 4 / 6) *)
Lemma code_addr_v6_then_v4_eq ver v c : valid_ver ver = true ->
  code_addr_v6_then_v4 ver v c = omap Some (addr_v6_then_v4 ver v c).
Proof.
  intros Hv. unfold code_addr_v6_then_v4, addr_v6_then_v4. rewrite src_ipv6_ok, Hv.
  destruct (addr_ipv6 ver v c) as [y|e] eqn:E; [|reflexivity]. cbn [omap bind].
  rewrite src_ipv4_ok, (addr_ipv6_fst _ _ _ _ E). reflexivity.
Qed.
Lemma code_addr_v4_then_v6_eq ver v c : valid_ver ver = true ->
  code_addr_v4_then_v6 ver v c = omap Some (addr_v4_then_v6 ver v c).
Proof.
  intros Hv. unfold code_addr_v4_then_v6, addr_v4_then_v6. rewrite src_ipv4_ok, Hv.
  destruct (addr_ipv4 ver v) as [y|e] eqn:E; [|reflexivity]. cbn [omap bind].
  rewrite src_ipv6_ok, (addr_ipv4_fst _ _ _ E). reflexivity.
Qed.
Lemma mixed_net_v6_then_v4_eq ver v p c : valid_ver ver = true ->
  mixed_net_v6_then_v4 ver v p c = omap Some (net_v6_then_v4 ver v p c).
Proof.
  intros Hv. unfold mixed_net_v6_then_v4, net_v6_then_v4. rewrite src_net_ipv6_ok, Hv.
  destruct (net_ipv6 ver v p c) as [n|e]; reflexivity.
Qed.
Lemma mixed_net_v4_then_v6_eq ver v p c :
  mixed_net_v4_then_v6 ver v p c = omap Some (net_v4_then_v6 ver v p c).
Proof.
  unfold mixed_net_v4_then_v6, net_v4_then_v6.
  destruct (net_ipv4 ver v p) as [n|e] eqn:E; [|reflexivity]. cbn [bind].
  rewrite src_net_ipv6_ok, (net_ipv4_nver _ _ _ _ E). reflexivity.
Qed.

(* ---- the theorems ---- *)
Lemma code_embed_addr w a : 0 <= a < 2 ^ 32 ->
  src_IPAddress_ipv6 4 w a false = Ok (Some (6, 0xffff00000000 + a)) /\
  src_IPAddress_ipv6 4 w a true = Ok (Some (6, a)) /\
  (0xffff00000000 + a) mod 2 ^ 32 = a /\ a mod 2 ^ 32 = a /\
  Z.land (0xffff00000000 + a) 0xffffffff = a /\ Z.land a 0xffffffff = a /\
  src_BaseIP_is_ipv4_mapped 6 128 (0xffff00000000 + a) = true /\ src_BaseIP_is_ipv4_compat 6 128 a = true.
Proof.
  intros H. destruct (embed_addr a H) as (E1 & E2 & E3 & E4 & E5 & E6 & E7 & E8).
  rewrite !src_ipv6_ok, src_is_ipv4_mapped_ok, src_is_ipv4_compat_ok, E1, E2. change (valid_ver 4) with true. cbn [omap].
  repeat split; assumption.
Qed.

Lemma code_embed_net w a p : 0 <= a < 2 ^ 32 -> 0 <= p <= 32 ->
  src_IPNetwork_ipv6 4 w a p false = Ok (Some {| nver := 6; nval := 0xffff00000000 + a; nplen := p + 96 |}) /\
  src_IPNetwork_ipv6 4 w a p true = Ok (Some {| nver := 6; nval := a; nplen := p + 96 |}).
Proof.
  intros H Hp. destruct (embed_net a p H Hp) as (E1 & E2). rewrite !src_net_ipv6_ok, E1, E2. split; reflexivity.
Qed.

Lemma code_recognise w :
  (forall v, src_BaseIP_is_ipv4_mapped 6 w v = true <-> 0xffff00000000 <= v <= 0xffffffffffff) /\
  (forall v, src_BaseIP_is_ipv4_compat 6 w v = true <-> 0 <= v <= 0xffffffff) /\
  (forall v, src_BaseIP_is_ipv4_mapped 6 w v = true <->
             src_IPNetwork_first 6 128 0xffff00000000 96 <= v <= src_IPNetwork_last 6 128 0xffff00000000 96) /\
  (forall v, src_BaseIP_is_ipv4_compat 6 w v = true <->
             src_IPNetwork_first 6 128 0 96 <= v <= src_IPNetwork_last 6 128 0 96) /\
  (forall v, src_BaseIP_is_ipv4_mapped 4 w v = false /\ src_BaseIP_is_ipv4_compat 4 w v = false) /\
  (forall v, src_BaseIP_is_ipv4_mapped 6 w v = true -> src_BaseIP_is_ipv4_compat 6 w v = true -> False).
Proof. exact recognise_all. Qed.

Lemma code_roundtrip_addr a c : 0 <= a < 2 ^ 32 -> code_addr_v6_then_v4 4 a c = Ok (Some (4, a)).
Proof. intros H. rewrite code_addr_v6_then_v4_eq by reflexivity. rewrite (roundtrip_addr a c H). reflexivity. Qed.

Lemma code_roundtrip_net a p c : 0 <= a < 2 ^ 32 -> 0 <= p <= 32 ->
  mixed_net_v6_then_v4 4 a p c = Ok (Some {| nver := 4; nval := a; nplen := p |}).
Proof. intros H Hp. rewrite mixed_net_v6_then_v4_eq by reflexivity. rewrite (roundtrip_net a p c H Hp). reflexivity. Qed.

Lemma code_roundtrip_back_addr w v :
  (src_BaseIP_is_ipv4_mapped 6 w v = true -> code_addr_v4_then_v6 6 v false = Ok (Some (6, v))) /\
  (src_BaseIP_is_ipv4_compat 6 w v = true -> code_addr_v4_then_v6 6 v true = Ok (Some (6, v))).
Proof.
  rewrite src_is_ipv4_mapped_ok, src_is_ipv4_compat_ok, !code_addr_v4_then_v6_eq by reflexivity.
  destruct (roundtrip_back_addr v) as (A & B). split; intros H; [rewrite (A H)|rewrite (B H)]; reflexivity.
Qed.

Lemma code_roundtrip_back_net w v p : 96 <= p <= 128 ->
  (src_BaseIP_is_ipv4_mapped 6 w v = true ->
     mixed_net_v4_then_v6 6 v p false = Ok (Some {| nver := 6; nval := v; nplen := p |})) /\
  (src_BaseIP_is_ipv4_compat 6 w v = true ->
     mixed_net_v4_then_v6 6 v p true = Ok (Some {| nver := 6; nval := v; nplen := p |})).
Proof.
  intros Hp. rewrite src_is_ipv4_mapped_ok, src_is_ipv4_compat_ok, !mixed_net_v4_then_v6_eq.
  destruct (roundtrip_back_net v p Hp) as (A & B). split; intros H; [rewrite (A H)|rewrite (B H)]; reflexivity.
Qed.

Lemma code_identity_addr w :
  (forall a, 0 <= a < 2 ^ 32 -> src_IPAddress_ipv4 4 w a = Ok (Some (4, a))) /\
  (forall v, 0 <= v < 2 ^ 128 -> src_IPAddress_ipv6 6 w v false = Ok (Some (6, v))) /\
  (forall v, 0 <= v < 2 ^ 128 ->
     src_IPAddress_ipv6 6 w v true = Ok (Some (6, if src_BaseIP_is_ipv4_mapped 6 w v then v - 0xffff00000000 else v))).
Proof.
  destruct identity_addr as (A & B & C).
  split; [intros a H; rewrite src_ipv4_ok, (A a H); reflexivity|].
  split; intros v H; rewrite src_ipv6_ok; [rewrite (B v H)|rewrite (C v H), src_is_ipv4_mapped_ok]; reflexivity.
Qed.

Lemma code_identity_net w :
  (forall v p, 0 <= v < 2 ^ 128 -> 0 <= p <= 128 ->
     src_IPNetwork_ipv6 6 w v p false = Ok (Some {| nver := 6; nval := v; nplen := p |})) /\
  (forall v p, 0 <= v < 2 ^ 128 -> 0 <= p <= 128 ->
     src_IPNetwork_ipv6 6 w v p true =
       Ok (Some {| nver := 6; nval := if src_BaseIP_is_ipv4_mapped 6 w v then v - 0xffff00000000 else v; nplen := p |})).
Proof.
  destruct identity_net as (_ & B & C).
  split; intros v p H Hp; rewrite src_net_ipv6_ok; [rewrite (B v p H Hp)|rewrite (C v p H Hp), src_is_ipv4_mapped_ok]; reflexivity.
Qed.

Lemma code_refuse_addr w v :
  ~ (0 <= v <= 0xffffffff) -> ~ (0xffff00000000 <= v <= 0xffffffffffff) ->
  src_IPAddress_ipv4 6 w v = Raise AddrConversionError.
Proof. intros A B. rewrite src_ipv4_ok, (refuse_addr_ranges v A B). reflexivity. Qed.

Lemma code_ipv4_sound_addr w v y : src_IPAddress_ipv4 6 w v = Ok y ->
  y = Some (4, v mod 2 ^ 32) /\ (src_BaseIP_is_ipv4_mapped 6 w v = true \/ src_BaseIP_is_ipv4_compat 6 w v = true).
Proof.
  rewrite src_ipv4_ok, src_is_ipv4_mapped_ok, src_is_ipv4_compat_ok. change (valid_ver 6) with true. cbv iota.
  destruct (addr_ipv4 6 v) as [z|e] eqn:E; [|discriminate]. cbn [omap]. intros H; injection H as <-.
  destruct (addr_ipv4_sound v z E) as (-> & S). split; [reflexivity|exact S].
Qed.
