(* Proofs/C07_sweeps_ranges.v — the range helpers shared by IPSet.difference and symmetric_difference:
   _subtract (gaps of a supernet not covered by the subnets inside it), _iter_merged_ranges (fusing adjacent
   ranges) and the conversion of the merged ranges back to CIDR blocks with iprange_to_cidrs. *)
From NV Require Import Base.Tac Base.PyVal Base.Bits Base.Canon Model.Ip Model.Partition Model.Span Model.Merge Model.Sets
  Proofs.C02 Proofs.NetDen Proofs.C07_sweeps.
From Coq Require Import Sorting.Sorted Sorting.Permutation.
Open Scope Z_scope.

(* ---------------------------------------------------------------- _subtract *)
Definition gap_ok (v lo hi : Z) (r : rng) : Prop := rv r = v /\ lo < rs r /\ rs r <= re r /\ re r <= hi.

Lemma subtract_loop_spec super : wfh super -> forall S prev ranges,
  Good (prev :: S) -> ninside prev super ->
  exists ins rest G prev',
    S = ins ++ rest /\ subtract_loop super prev S ranges = (rest, ranges ++ G, prev') /\
    (forall n, In n ins -> ninside n super) /\
    (forall t, In t rest -> nbelow super t) /\
    ninside prev' super /\ nl prev <= nl prev' /\ (forall n, In n ins -> nl n <= nl prev') /\
    Forall (gap_ok (nver super) (nl prev) (nl prev')) G /\
    StronglySorted rbelow G /\
    (forall x, rden G (nver super) x <-> nl prev < x <= nl prev' /\ ~ den ins (nver super) x).
Proof.
  intros Hs. induction S as [|cur r IH]; intros prev ranges G0 Ip.
  { exists [], [], [], prev. cbn [subtract_loop app]. rewrite app_nil_r.
    split; [reflexivity|]. split; [reflexivity|]. split; [intros ? []|]. split; [intros ? []|].
    split; [exact Ip|]. split; [lia|]. split; [intros ? []|]. split; [constructor|]. split; [constructor|].
    intros x. split; [intros (ρ & [] & _)|lia]. }
  pose proof (Good_head _ _ G0) as Hp. pose proof (Good_tail _ _ G0) as G1. pose proof (Good_head _ _ G1) as Hc.
  pose proof (Good_head_below _ _ cur G0 (or_introl eq_refl)) as Bpc.
  pose proof (s_wfh_ne prev Hp) as NEp. pose proof (s_wfh_ne cur Hc) as NEc.
  cbn [subtract_loop]. destruct (net_in_net cur super) eqn:N; cbn [negb].
  - (* cur inside the supernet *)
    apply s_net_in_net_iff in N; [|apply Hc|apply Hs].
    set (g := if nl prev + 1 =? nf cur then [] else [(nver super, nl prev + 1, nf cur - 1)]).
    assert (Eg: (if nl prev + 1 =? nf cur then ranges else ranges ++ [(nver super, nl prev + 1, nf cur - 1)]) = ranges ++ g).
    { unfold g. destruct (nl prev + 1 =? nf cur); [now rewrite app_nil_r|reflexivity]. }
    rewrite Eg. destruct (IH cur (ranges ++ g) G1 N) as (ins & rest & G & prev' & ES & EL & Hin & Hrest & Ip' & Lp & Llast & FG & SG & DG).
    exists (cur :: ins), rest, (g ++ G), prev'.
    assert (Vp: nver prev = nver super) by (rsimp; lia). assert (Vc: nver cur = nver super) by (rsimp; lia).
    assert (Lpc: nl prev < nf cur) by (rsimp; lia).
    assert (Hins: forall n, In n ins -> nbelow cur n).
    { intros n Hn. eapply Good_head_below; [exact G1|]. rewrite ES. apply in_or_app. now left. }
    split; [cbn [app]; now rewrite ES|]. split; [rewrite EL, app_assoc; reflexivity|].
    split; [intros n [<-|Hn]; auto|]. split; [exact Hrest|]. split; [exact Ip'|]. split; [lia|].
    split; [intros n [<-|Hn]; [lia|auto]|].
    assert (Fg: Forall (gap_ok (nver super) (nl prev) (nl prev')) g).
    { unfold g. case_eqb (nl prev + 1) (nf cur); constructor; [|constructor]. unfold gap_ok. rsimp. lia. }
    split; [|split].
    + apply Forall_app. split; [exact Fg|]. eapply Forall_impl; [|exact FG].
      intros ρ (A & B & C & D). unfold gap_ok. lia.
    + apply SS_app; [|exact SG|].
      * unfold g. destruct (nl prev + 1 =? nf cur); repeat constructor.
      * intros x y Hx Hy. rewrite Forall_forall in FG. destruct (FG y Hy) as (A & B & C & D).
        unfold g in Hx. destruct (nl prev + 1 =? nf cur); [destruct Hx|]. destruct Hx as [<-|[]]. rsimp. lia.
    + intros x. rewrite rden_app, DG, den_cons. split.
      * intros [Dg|[Rx Nx]].
        -- rewrite Forall_forall in Fg. destruct Dg as (ρ & Hρ & Iρ). pose proof (Fg ρ Hρ) as (A & B & C & D).
           assert (Xr: nl prev < x < nf cur).
           { unfold g in Hρ. destruct (nl prev + 1 =? nf cur); [destruct Hρ|]. destruct Hρ as [<-|[]]. rsimp. lia. }
           split; [lia|]. intros [Ic|(n & Hn & In_)]; [rsimp; lia|].
           pose proof (Hins n Hn). rsimp. lia.
        -- split; [lia|]. intros [Ic|Dn]; [rsimp; lia|tauto].
      * intros [Rx Nx]. destruct (Z_lt_ge_dec x (nf cur)) as [Lx|Gx].
        -- left. unfold g. case_eqb (nl prev + 1) (nf cur); [lia|].
           exists (nver super, nl prev + 1, nf cur - 1). split; [now left|rsimp; lia].
        -- right. split; [|tauto]. split; [|lia].
           destruct (Z_lt_ge_dec (nl cur) x); [assumption|exfalso]. apply Nx. left. rsimp. lia.
  - (* cur outside: stop *)
    exists [], (cur :: r), [], prev. cbn [app]. rewrite app_nil_r.
    assert (Bsc: nbelow super cur).
    { destruct (s_tricho cur super Hc Hs) as [I|[I|[B|B]]]; [| | |exact B].
      - apply s_net_in_net_iff in I; [congruence|apply Hc|apply Hs].
      - exfalso. rsimp. lia.
      - exfalso. rsimp. lia. }
    split; [reflexivity|]. split; [reflexivity|]. split; [intros ? []|].
    split; [intros t Ht; eapply Good_below_all; eauto|].
    split; [exact Ip|]. split; [lia|]. split; [intros ? []|]. split; [constructor|]. split; [constructor|].
    intros x. split; [intros (ρ & [] & _)|lia].
Qed.

Definition rng_in (super : net) (r : rng) : Prop := rvalid r /\ rinside r (rng_of super).

Lemma subtract_spec super sub S' ranges : wfh super -> Good (sub :: S') -> ninside sub super ->
  exists ins rest G, sub :: S' = (sub :: ins) ++ rest /\
    subtract super (sub :: S') ranges = Ok (rest, ranges ++ G) /\
    (forall n, In n (sub :: ins) -> ninside n super) /\
    (forall t, In t rest -> nbelow super t) /\
    Forall (rng_in super) G /\ StronglySorted rbelow G /\
    (forall ver x, rden G ver x <-> in_net super ver x /\ ~ den (sub :: ins) ver x).
Proof.
  intros Hs G0 Is. pose proof (Good_head _ _ G0) as Hsub.
  destruct (s_wfh_rvalid super Hs) as (Vs & S0 & S1 & S2). pose proof (s_wfh_ne sub Hsub) as NEs.
  set (g0 := if nf sub >? nf super then [(nver super, nf super, nf sub - 1)] else []).
  assert (Eg: (if nf sub >? nf super then ranges ++ [(nver super, nf super, nf sub - 1)] else ranges) = ranges ++ g0).
  { unfold g0. destruct (nf sub >? nf super); [reflexivity|now rewrite app_nil_r]. }
  unfold subtract. rewrite Eg.
  destruct (subtract_loop_spec super Hs S' sub (ranges ++ g0) G0 Is)
    as (ins & rest & G & prev' & ES & EL & Hin & Hrest & Ip' & Lp & Llast & FG & SG & DG).
  rewrite EL.
  set (g1 := if nl prev' + 1 <=? nl super then [(nver super, nl prev' + 1, nl super)] else []).
  exists ins, rest, (g0 ++ G ++ g1).
  assert (Hins: forall n, In n ins -> nbelow sub n).
  { intros n Hn. eapply Good_head_below; [exact G0|]. rewrite ES. apply in_or_app. now left. }
  assert (Fg0: Forall (fun r => rv r = nver super /\ nf super <= rs r /\ rs r <= re r /\ re r < nf sub) g0).
  { unfold g0. rewrite Z.gtb_ltb. case_ltb (nf super) (nf sub); constructor; [|constructor]. rsimp. lia. }
  assert (Fg1: Forall (fun r => rv r = nver super /\ nl prev' < rs r /\ rs r <= re r /\ re r <= nl super) g1).
  { unfold g1. case_leb (nl prev' + 1) (nl super); constructor; [|constructor]. rsimp. lia. }
  rewrite Forall_forall in Fg0, Fg1, FG.
  split; [cbn [app]; now rewrite ES|]. split.
  { f_equal. f_equal. unfold g1. destruct (nl prev' + 1 <=? nl super); rewrite <- ?app_assoc, ?app_nil_r; reflexivity. }
  split; [intros n [<-|Hn]; auto|]. split; [exact Hrest|].
  assert (Vsub: nver sub = nver super) by (rsimp; lia).
  split; [|split].
  - rewrite Forall_forall. intros ρ Hρ. apply in_app_or in Hρ. destruct Hρ as [Hρ|Hρ]; [|apply in_app_or in Hρ; destruct Hρ as [Hρ|Hρ]].
    + destruct (Fg0 ρ Hρ) as (A & B & C & D). unfold rng_in. rsimp. rewrite A. lia.
    + destruct (FG ρ Hρ) as (A & B & C & D). unfold rng_in. rsimp. rewrite A. lia.
    + destruct (Fg1 ρ Hρ) as (A & B & C & D). unfold rng_in. rsimp. rewrite A. lia.
  - apply SS_app; [unfold g0; destruct (nf sub >? nf super); repeat constructor| |].
    + apply SS_app; [exact SG|unfold g1; destruct (nl prev' + 1 <=? nl super); repeat constructor|].
      intros x y Hx Hy. destruct (FG x Hx) as (A & B & C & D). destruct (Fg1 y Hy) as (A' & B' & C' & D'). rsimp. lia.
    + intros x y Hx Hy. destruct (Fg0 x Hx) as (A & B & C & D). apply in_app_or in Hy. destruct Hy as [Hy|Hy].
      * destruct (FG y Hy) as (A' & B' & C' & D'). rsimp. lia.
      * destruct (Fg1 y Hy) as (A' & B' & C' & D'). rsimp. lia.
  - intros ver x. split.
    + intros (ρ & Hρ & Iρ). apply in_app_or in Hρ. destruct Hρ as [Hρ|Hρ]; [|apply in_app_or in Hρ; destruct Hρ as [Hρ|Hρ]].
      * destruct (Fg0 ρ Hρ) as (A & B & C & D). split; [rsimp; lia|].
        intros Dn. apply den_cons in Dn. destruct Dn as [Dn|(n & Hn & Dn)]; [rsimp; lia|].
        pose proof (Hins n Hn). rsimp. lia.
      * destruct (FG ρ Hρ) as (A & B & C & D).
        assert (Ev: ver = nver super) by (rsimp; lia). subst ver.
        destruct (proj1 (DG x)) as [Rx Nx]; [exists ρ; split; assumption|].
        split; [rsimp; lia|]. intros Dn. apply den_cons in Dn. destruct Dn as [Dn|Dn]; [rsimp; lia|tauto].
      * destruct (Fg1 ρ Hρ) as (A & B & C & D). split; [rsimp; lia|].
        intros Dn. apply den_cons in Dn. destruct Dn as [Dn|(n & Hn & Dn)]; [rsimp; lia|].
        pose proof (Llast n Hn). rsimp. lia.
    + intros [Is_ Nd]. assert (Ev: ver = nver super) by (rsimp; lia). subst ver.
      destruct (Z_lt_ge_dec x (nf sub)) as [L0|G0'].
      * exists (nver super, nf super, nf sub - 1). split; [|rsimp; lia].
        apply in_or_app. left. unfold g0. rewrite Z.gtb_ltb. case_ltb (nf super) (nf sub); [now left|rsimp; lia].
      * assert (nl sub < x).
        { destruct (Z_lt_ge_dec (nl sub) x); [assumption|exfalso]. apply Nd. apply den_cons. left. rsimp. lia. }
        destruct (Z_le_gt_dec x (nl prev')) as [L1|G1'].
        -- destruct (proj2 (DG x)) as (ρ & Hρ & Iρ).
           { split; [lia|]. intros Dn. apply Nd. apply den_cons. now right. }
           exists ρ. split; [apply in_or_app; right; apply in_or_app; now left|exact Iρ].
        -- exists (nver super, nl prev' + 1, nl super). split; [|rsimp; lia].
           apply in_or_app. right. apply in_or_app. right. unfold g1.
           case_leb (nl prev' + 1) (nl super); [now left|rsimp; lia].
Qed.

(* ---------------------------------------------------------------- _iter_merged_ranges *)
Lemma RAsc_tail a l : RAsc (a :: l) -> RAsc l.
Proof. intros (F & S). split; [now inversion F|now inversion S]. Qed.

Lemma merged_loop_spec : forall l cur, RAsc (cur :: l) ->
  Forall rvalid (merged_ranges_loop cur l) /\ StronglySorted rsep (merged_ranges_loop cur l) /\
  (forall ver x, rden (merged_ranges_loop cur l) ver x <-> rden (cur :: l) ver x) /\
  (forall y, In y (merged_ranges_loop cur l) -> exists y', In y' (cur :: l) /\ rv y = rv y' /\ rs y = rs y').
Proof.
  induction l as [|nxt r IH]; intros cur A.
  { cbn [merged_ranges_loop]. split; [apply A|split; [repeat constructor|split; [tauto|]]].
    intros y Hy. exists y. auto. }
  destruct A as (F & S). inversion F as [|? ? Vc F']; subst. inversion F' as [|? ? Vn F'']; subst.
  inversion S as [|? ? S' Bc]; subst. inversion S' as [|? ? S'' Bn]; subst.
  rewrite Forall_forall in Bc, Bn.
  pose proof (Bc nxt (or_introl eq_refl)) as Bcn.
  destruct cur as [[cv cs] ce]. destruct nxt as [[nv ns] ne]. cbn [merged_ranges_loop].
  destruct ((ns =? ce + 1) && (nv =? cv)) eqn:Adj.
  - (* adjacent: fuse *)
    apply andb_true_iff in Adj. destruct Adj as [A1 A2]. apply Z.eqb_eq in A1, A2. subst ns nv.
    destruct (IH (cv, cs, ne)) as (F1 & S1 & D1 & M1).
    { split.
      - constructor; [rsimp; lia|exact F''].
      - constructor; [exact S''|]. rewrite Forall_forall. intros y Hy. specialize (Bn y Hy). rsimp. lia. }
    split; [exact F1|split; [exact S1|split]].
    + intros ver x. rewrite D1, !rden_cons. rsimp. split.
      * intros [I|I]; [|tauto]. destruct (Z_le_gt_dec x ce); [left|right; left]; lia.
      * intros [I|[I|I]]; [left; lia|left; lia|tauto].
    + intros y Hy. destruct (M1 y Hy) as (y' & [<-|Hy'] & E).
      * exists (cv, cs, ce). split; [now left|exact E].
      * exists y'. split; [right; now right|exact E].
  - (* gap or other family: cur is final *)
    destruct (IH (nv, ns, ne)) as (F1 & S1 & D1 & M1); [split; assumption|].
    assert (Sep: rsep (cv, cs, ce) (nv, ns, ne)).
    { apply andb_false_iff in Adj. rsimp. destruct Adj as [Adj|Adj]; [apply Z.eqb_neq in Adj|apply Z.eqb_neq in Adj]; lia. }
    split; [constructor; assumption|split; [|split]].
    + constructor; [exact S1|]. rewrite Forall_forall. intros y Hy.
      destruct (M1 y Hy) as (y' & [<-|Hy'] & E1 & E2).
      * rsimp. lia.
      * specialize (Bn y' Hy'). rsimp. lia.
    + intros ver x. rewrite rden_cons, D1, !rden_cons. tauto.
    + intros y [<-|Hy]; [exists (cv, cs, ce); split; [now left|auto]|].
      destruct (M1 y Hy) as (y' & Hy' & E). exists y'. split; [now right|exact E].
Qed.

Definition RSep (l : list rng) : Prop := Forall rvalid l /\ StronglySorted rsep l.

Lemma iter_merged_ranges_spec l : RAsc l ->
  RSep (iter_merged_ranges l) /\ forall ver x, rden (iter_merged_ranges l) ver x <-> rden l ver x.
Proof.
  intros A. destruct l as [|c r]; cbn [iter_merged_ranges].
  - split; [split; constructor|tauto].
  - destruct (merged_loop_spec r c A) as (F & S & D & _). split; [split; assumption|exact D].
Qed.

(* ---------------------------------------------------------------- back to CIDR blocks *)
Lemma s_addr_net_facts v x : valid_ver v = true -> 0 <= x < 2 ^ width v ->
  wf_net (addr_net v x) /\ nver (addr_net v x) = v /\ nf (addr_net v x) = x /\ nl (addr_net v x) = x.
Proof.
  intros V Hx. pose proof (width_nonneg v).
  assert (W: wf_net (addr_net v x)) by (unfold wf_net, addr_net; cbn [nver nval nplen]; auto with zarith).
  assert (F: nf (addr_net v x) = x).
  { rewrite nf_eq by exact W. cbn [addr_net nver nval nplen]. unfold floor2. rewrite Z.sub_diag. change (2 ^ 0) with 1.
    rewrite Z.mod_1_r. lia. }
  split; [exact W|split; [reflexivity|split; [exact F|]]].
  rewrite nl_eq by exact W. rewrite F. cbn [addr_net nver nval nplen]. rewrite Z.sub_diag. change (2 ^ 0) with 1. lia.
Qed.

Lemma cidrs_of_ranges_spec : iprange_to_cidrs_spec -> forall M, RSep M ->
  exists cs, cidrs_of_ranges M = Ok cs /\ Good cs /\
    (forall c, In c cs -> exists r, In r M /\ rinside (rng_of c) r) /\
    (forall ver x, den cs ver x <-> rden M ver x) /\
    (forall a b, In a cs -> In b cs -> ~ siblings a b).
Proof.
  intros Spec. induction M as [|[[v s] e] M IH]; intros (F & S).
  { exists []. split; [reflexivity|split; [apply Good_nil|split; [intros c []|split; [|intros a b []]]]].
    intros ver x. split; [intros D; destruct (den_nil _ _ D)|intros D; destruct (rden_nil _ _ D)]. }
  inversion F as [|? ? Vr F']; subst. inversion S as [|? ? S' Sep]; subst. rewrite Forall_forall in Sep.
  destruct (IH (conj F' S')) as (rest & Er & Gr & Mr & Dr & Nr).
  destruct Vr as (Vv & R0 & R1 & R2). cbn [rv rs re fst snd] in Vv, R0, R1, R2.
  destruct (s_addr_net_facts v s Vv ltac:(lia)) as (Ws & Es & Fs & Ls).
  destruct (s_addr_net_facts v e Vv ltac:(lia)) as (We & Ee & Fe & Le).
  destruct (Spec (addr_net v s) (addr_net v e) Ws We ltac:(congruence) ltac:(lia)) as (l & El & Cl & Dl).
  rewrite Es, Fs, Le in Dl.
  cbn [cidrs_of_ranges]. rewrite El. cbn [bind]. rewrite Er. cbn [bind].
  pose proof (s_canon_nets_good l Cl) as Gl.
  assert (Il: forall c, In c l -> rinside (rng_of c) (v, s, e)).
  { intros c Hc. pose proof (Good_in _ _ Gl Hc) as Hw. pose proof (s_wfh_ne c Hw).
    destruct (proj1 (Dl (nver c) (nf c))) as [E1 B1]; [exists c; split; [exact Hc|rsimp; lia]|].
    destruct (proj1 (Dl (nver c) (nl c))) as [E2 B2]; [exists c; split; [exact Hc|rsimp; lia]|].
    rsimp. lia. }
  exists (l ++ rest). split; [reflexivity|]. split; [|split; [|split]].
  - apply Good_app; auto. intros a b Ha Hb. pose proof (Il a Ha) as Ia. destruct (Mr b Hb) as (r & Hr & Ib).
    specialize (Sep r Hr). rsimp. lia.
  - intros c Hc. apply in_app_or in Hc. destruct Hc as [Hc|Hc].
    + exists (v, s, e). split; [now left|apply Il, Hc].
    + destruct (Mr c Hc) as (r & Hr & Ic). exists r. split; [now right|exact Ic].
  - intros ver x. rewrite den_app, rden_cons, Dl, Dr. rsimp.
    split; (intros [[E B]|D]; [left; split; [congruence|lia]|right; exact D]).
  - intros a b Ha Hb Sb. apply in_app_or in Ha, Hb.
    assert (Wa: wfh a) by (destruct Ha as [Ha|Ha]; [exact (Good_in _ _ Gl Ha)|exact (Good_in _ _ Gr Ha)]).
    destruct (s_siblings_adj a b Wa Sb) as [Ev Adj].
    assert (Wb: wfh b) by (destruct Hb as [Hb|Hb]; [exact (Good_in _ _ Gl Hb)|exact (Good_in _ _ Gr Hb)]).
    pose proof (s_wfh_ne a Wa). pose proof (s_wfh_ne b Wb).
    destruct Ha as [Ha|Ha], Hb as [Hb|Hb].
    + exact (s_canon_nets_no_sib l a b Cl Ha Hb Sb).
    + pose proof (Il a Ha) as Ia. destruct (Mr b Hb) as (r & Hr & Ib). specialize (Sep r Hr). rsimp. lia.
    + pose proof (Il b Hb) as Ib. destruct (Mr a Ha) as (r & Hr & Ia). specialize (Sep r Hr). rsimp. lia.
    + exact (Nr a b Ha Hb Sb).
Qed.

(* a Good, sibling-free list is a SetInv dict, and rebuilding it with dset changes nothing *)
Lemma s_good_SetInv l : Good l -> (forall a b, In a l -> In b l -> ~ siblings a b) -> SetInv l.
Proof. intros G N. split; [apply G|split; [apply Good_PD, G|exact N]]. Qed.
