(* Proofs/Coherence_Cidrs.v — coherence of the model copies, part 3 (family 8):
   Python: iprange_to_cidrs(start, end) (ip/__init__.py 1795-1828) on IPv4 address endpoints.
     Merge.iprange_to_cidrs   the function as written (spanning_cidr + two cidr_partition trims), property C05
     Glob.cover / to_cidrs_exec   the executable trie decomposition the C17 correspondence commands run
   Both are THE canonical CIDR list of [lo, hi], hence equal; so the `iprange_to_cidrs` parameter of the C17 theorems
   can be instantiated with the real model and the hypothesis of C17_to_globs disappears. *)
From Coq Require Import Sorting.Sorted String.
From NV Require Import Base.Tac Base.PyVal Base.Bits Base.Canon Model.Ip.
From NV Require Model.Partition Model.Span Model.Merge Model.Sets Model.Glob.
From NV Require Proofs.C02 Proofs.C04 Proofs.C09 Proofs.NetDen Proofs.C05 Proofs.C17.
Open Scope Z_scope.

(* ---- what cidrs_tile (Proofs/C17) says about the members ---- *)
Lemma block_size_pos c : C17.block_ok c -> 0 < 2 ^ (32 - snd c).
Proof. intros (Hp & _). apply pow2_pos. lia. Qed.

Lemma tile_member cs a b c : C17.cidrs_tile cs a b -> In c cs ->
  C17.block_ok c /\ a <= fst c /\ fst c + 2 ^ (32 - snd c) - 1 <= b.
Proof.
  intros [F C] Hc. rewrite Forall_forall in F. pose proof (F c Hc) as Hb. split; [exact Hb|].
  pose proof (block_size_pos c Hb) as Hs.
  destruct (C17.chain_mem _ _ _ C) as [_ M].
  assert (I: In (C17.block_iv c) (map C17.block_iv cs)) by (apply in_map; exact Hc).
  split.
  - apply (proj2 (M (fst c))). exists (C17.block_iv c). split; [exact I|]. cbn [C17.block_iv fst snd]. lia.
  - apply (proj2 (M (fst c + 2 ^ (32 - snd c) - 1))). exists (C17.block_iv c). split; [exact I|].
    cbn [C17.block_iv fst snd]. lia.
Qed.

(* ---- every block of `cover n base lo hi` lies in [base, base + 2^n) and in [lo, hi] ---- *)
Section Cover.
Variables lo hi : Z.
Hypothesis Hlh : lo <= hi.

Definition cover_pre (n : nat) (base : Z) : Prop :=
  0 <= base /\ base + 2 ^ Z.of_nat n <= 2 ^ 32 /\ (n <= 32)%nat /\ base mod 2 ^ Z.of_nat n = 0.

Lemma cover_member n base c : cover_pre n base -> In c (Glob.cover n base lo hi) ->
  C17.block_ok c /\ base <= fst c /\ fst c + 2 ^ (32 - snd c) <= base + 2 ^ Z.of_nat n /\
  lo <= fst c /\ fst c + 2 ^ (32 - snd c) - 1 <= hi.
Proof.
  intros (H0 & H1 & Hn & Hal) Hc.
  destruct (C17.cover_spec n base lo hi Hlh H0 H1 Hn Hal) as [A B]. cbv zeta in A, B.
  destruct (Z_lt_le_dec (Z.min hi (base + 2 ^ Z.of_nat n - 1)) (Z.max lo base)) as [L|L].
  - rewrite (B L) in Hc. destruct Hc.
  - destruct (tile_member _ _ _ c (A L) Hc) as (Hb & M1 & M2). split; [exact Hb|]. lia.
Qed.

(* left sibling / right sibling, on model blocks (value, prefixlen) of IPv4: Canon.sib 32 *)
Definition sibp (c1 c2 : Z * Z) : Prop :=
  snd c1 = snd c2 /\ fst c2 = fst c1 + 2 ^ (32 - snd c1) /\ (2 * 2 ^ (32 - snd c1) | fst c1).

Lemma cover_pre_halves k base : cover_pre (S k) base ->
  2 ^ Z.of_nat (S k) = 2 * 2 ^ Z.of_nat k /\ cover_pre k base /\ cover_pre k (base + 2 ^ Z.of_nat k).
Proof.
  intros (H0 & H1 & Hn & Hal).
  assert (HT : 0 < 2 ^ Z.of_nat k) by (apply pow2_pos; lia).
  assert (HS : 2 ^ Z.of_nat (S k) = 2 * 2 ^ Z.of_nat k).
  { rewrite Nat2Z.inj_succ. replace (Z.succ (Z.of_nat k)) with (Z.of_nat k + 1) by lia. apply pow2_succ. lia. }
  rewrite HS in *. set (T := 2 ^ Z.of_nat k) in *.
  apply Z.mod_divide in Hal; [|lia]. destruct Hal as [q Hq].
  split; [reflexivity|]. split.
  - split; [lia|]. split; [lia|]. split; [lia|]. apply Z.mod_divide; [lia|]. exists (2 * q). lia.
  - split; [lia|]. split; [lia|]. split; [lia|]. apply Z.mod_divide; [lia|]. exists (2 * q + 1). lia.
Qed.

Lemma sib_parity s T base f1 d q m :
  0 < s -> f1 + s = base + T -> f1 = d * (2 * s) -> base = q * T -> T = m * (2 * s) -> False.
Proof.
  intros Hs E -> -> ->.
  assert (X : s * (2 * d + 1) = s * (2 * (m * (q + 1)))) by (rewrite <- Z.mul_comm; ring_simplify; ring_simplify in E; lia).
  apply Z.mul_reg_l in X; lia.
Qed.

(* the trie walk never returns two blocks that could be merged *)
Lemma cover_no_sib n : forall base, cover_pre n base ->
  forall c1 c2, In c1 (Glob.cover n base lo hi) -> In c2 (Glob.cover n base lo hi) -> ~ sibp c1 c2.
Proof.
  induction n as [|k IH]; intros base Pre c1 c2 I1 I2 (Sp & Sv & Sd).
  - (* one address: at most one block *)
    pose proof (cover_member _ _ _ Pre I1) as (B1 & _). pose proof (block_size_pos _ B1).
    cbn [Glob.cover] in I1, I2.
    destruct (_ || _) in I1, I2; [destruct I1|].
    destruct (_ && _) in I1, I2; [|destruct I1].
    destruct I1 as [<-|[]]. destruct I2 as [<-|[]]. cbn [fst snd] in *. lia.
  - pose proof (cover_member _ _ _ Pre I1) as (B1 & M1). pose proof (cover_member _ _ _ Pre I2) as (B2 & M2).
    pose proof (block_size_pos _ B1) as P1.
    destruct (cover_pre_halves k base Pre) as (HS & PreL & PreR).
    cbn [Glob.cover] in I1, I2. rewrite HS in *. set (T := 2 ^ Z.of_nat k) in *.
    assert (HT : 0 < T) by (apply pow2_pos; lia).
    destruct ((hi <? base) || (base + 2 * T - 1 <? lo)) eqn:E1; [destruct I1|].
    destruct ((lo <=? base) && (base + 2 * T - 1 <=? hi)) eqn:E2.
    { destruct I1 as [<-|[]]. destruct I2 as [<-|[]]. cbn [fst snd] in *. lia. }
    apply in_app_or in I1. apply in_app_or in I2.
    destruct I1 as [I1|I1], I2 as [I2|I2].
    + exact (IH base PreL c1 c2 I1 I2 (conj Sp (conj Sv Sd))).
    + (* c1 in the left half, c2 in the right half: they would be the two halves themselves *)
      pose proof (cover_member _ _ _ PreL I1) as (_ & L1 & L2 & L3 & L4).
      pose proof (cover_member _ _ _ PreR I2) as (_ & R1 & R2 & R3 & R4).
      fold T in L2, R1, R2. rewrite <- Sp in R2, R4.
      set (s := 2 ^ (32 - snd c1)) in *.
      assert (Es : fst c1 + s = base + T) by lia.
      assert (Hj : 32 - snd c1 <= Z.of_nat k).
      { apply C04.pow2_le_inv; [destruct B1; lia|lia|fold s; fold T; lia]. }
      destruct (Z.eq_dec (32 - snd c1) (Z.of_nat k)) as [Ej|Nj].
      * assert (s = T) by (unfold s, T; rewrite Ej; reflexivity). lia.
      * destruct (pow2_divide (32 - snd c1 + 1) (Z.of_nat k) ltac:(destruct B1; lia)) as [m Hm].
        rewrite pow2_succ in Hm by (destruct B1; lia). fold s in Hm. fold T in Hm.
        destruct PreL as (_ & _ & _ & AL). apply Z.mod_divide in AL; [|lia]. destruct AL as [q Hq]. fold T in Hq.
        destruct Sd as [d Hd].
        exact (sib_parity s T base (fst c1) d q m P1 Es Hd Hq Hm).
    + (* c1 right, c2 left: c2 would start after the left half ends *)
      pose proof (cover_member _ _ _ PreR I1) as (_ & R1 & _).
      pose proof (cover_member _ _ _ PreL I2) as (B2' & _ & L2 & _). pose proof (block_size_pos _ B2').
      fold T in R1, L2. lia.
    + exact (IH (base + T) PreR c1 c2 I1 I2 (conj Sp (conj Sv Sd))).
Qed.
End Cover.

(* ---- a tiling is ascending and covers exactly [a, b] ---- *)
Lemma block_aligned c : C17.block_ok c -> aligned 32 (C09.blk_of c).
Proof.
  intros (Hp & H0 & _ & Hal). pose proof (pow2_pos (32 - snd c) ltac:(lia)).
  unfold aligned, bsize, C09.blk_of; cbn [bv bp]. split; [exact Hp|]. split; [exact H0|].
  apply Z.mod_divide; [lia|exact Hal].
Qed.

Lemma tile_sorted cs : forall a b, C17.cidrs_tile cs a b -> StronglySorted (below 32) (C09.blks_of cs).
Proof.
  induction cs as [|c r IH]; intros a b [F C]; cbn [C09.blks_of map]; [constructor|].
  apply Forall_cons_iff in F. destruct F as [Fc Fr]. cbn [map C17.chain] in C. destruct C as (C1 & C2 & C3).
  assert (Tr : C17.cidrs_tile r (snd (C17.block_iv c) + 1) b) by (split; assumption).
  constructor; [exact (IH _ _ Tr)|].
  apply Forall_forall. intros x Hx. apply in_map_iff in Hx. destruct Hx as (c' & <- & Hc').
  destruct (tile_member _ _ _ c' Tr Hc') as (_ & M & _).
  unfold below, bsize, C09.blk_of; cbn [bv bp]. cbn [C17.block_iv fst snd] in M. lia.
Qed.

Lemma tile_covered cs a b x : C17.cidrs_tile cs a b -> (covered 32 (C09.blks_of cs) x <-> a <= x <= b).
Proof.
  intros [F C]. destruct (C17.chain_mem _ _ _ C) as [_ M]. rewrite (M x). unfold covered. split.
  - intros (bk & Hb & I). apply in_map_iff in Hb. destruct Hb as (c & <- & Hc).
    exists (C17.block_iv c). split; [apply in_map; exact Hc|].
    unfold inb, bsize, C09.blk_of in I; cbn [bv bp] in I. cbn [C17.block_iv fst snd]. lia.
  - intros (iv & Hi & I). apply in_map_iff in Hi. destruct Hi as (c & <- & Hc).
    exists (C09.blk_of c). split; [apply in_map; exact Hc|].
    unfold inb, bsize, C09.blk_of; cbn [bv bp]. cbn [C17.block_iv fst snd] in I. lia.
Qed.

(* ---- the executable decomposition is canonical ---- *)
Lemma cover_pre_top : cover_pre 32 0.
Proof. split; [lia|]. split; [cbn; lia|]. split; [lia|reflexivity]. Qed.

Lemma Ok_inj {A} (a b : A) : Ok a = Ok b -> a = b.
Proof. intros H. injection H as H. exact H. Qed.

Lemma cover_tile lo hi : 0 <= lo <= hi -> hi < 2 ^ 32 -> C17.cidrs_tile (Glob.cover 32 0 lo hi) lo hi.
Proof.
  intros H1 H2. destruct (C17.to_cidrs_exec_spec lo hi (conj H1 H2)) as (cs & E & T).
  apply Ok_inj in E. rewrite E. exact T.
Qed.

(* a sibling-free tiling is the canonical list of its interval (stated for an arbitrary list: the kernel must never
   be asked to look inside `cover 32 0 lo hi`) *)
Lemma tile_canon cs a b : C17.cidrs_tile cs a b ->
  (forall c1 c2, In c1 cs -> In c2 cs -> ~ sibp c1 c2) ->
  canon 32 (C09.blks_of cs) /\ forall x, covered 32 (C09.blks_of cs) x <-> a <= x <= b.
Proof.
  intros T NS. split; [|intros x; apply tile_covered; exact T].
  split; [|split].
  - intros bk Hb. apply in_map_iff in Hb. destruct Hb as (c & <- & Hc).
    apply block_aligned. exact (proj1 (tile_member _ _ _ c T Hc)).
  - exact (tile_sorted _ _ _ T).
  - intros b1 b2 I1 I2 S. apply in_map_iff in I1. destruct I1 as (c1 & <- & I1).
    apply in_map_iff in I2. destruct I2 as (c2 & <- & I2).
    apply (NS c1 c2 I1 I2).
    unfold sib, bsize, C09.blk_of in S; cbn [bv bp] in S. exact S.
Qed.

Theorem cover_canon lo hi : 0 <= lo <= hi -> hi < 2 ^ 32 ->
  canon 32 (C09.blks_of (Glob.cover 32 0 lo hi)) /\
  forall x, covered 32 (C09.blks_of (Glob.cover 32 0 lo hi)) x <-> lo <= x <= hi.
Proof.
  intros H1 H2. apply tile_canon; [exact (cover_tile lo hi H1 H2)|].
  exact (cover_no_sib lo hi (proj2 H1) 32 0 cover_pre_top).
Qed.

(* ================================================================ the two models of iprange_to_cidrs agree *)
Lemma canon_cblks_are_range L lo hi : 0 <= lo <= hi -> hi < 2 ^ 32 ->
  canon 32 (C09.blks_of L) -> (forall x, covered 32 (C09.blks_of L) x <-> lo <= x <= hi) ->
  Merge.iprange_to_cidrs (Merge.addr_net 4 lo) (Merge.addr_net 4 hi) = Ok (map (Merge.net_of_cblk 4) L).
Proof.
  intros H1 H2 CC CV.
  destruct (C05.C05_range_addrs 4 lo hi eq_refl H1 H2) as (l & E & C & D). rewrite E. f_equal.
  destruct (C05_range.canon_nets_of_cblks 4 L eq_refl CC) as (K1 & K2).
  { intros y Hy. apply CV in Hy. change (width 4) with 32. lia. }
  apply C05_merge.canon_nets_unique; [exact C|exact K1|].
  intros ver x. rewrite D, K2. change (width 4) with 32. rewrite CV. tauto.
Qed.

Theorem coh_iprange_to_cidrs_cover lo hi : 0 <= lo <= hi -> hi < 2 ^ 32 ->
  Merge.iprange_to_cidrs (Merge.addr_net 4 lo) (Merge.addr_net 4 hi) =
  Ok (map (Merge.net_of_cblk 4) (Glob.cover 32 0 lo hi)).
Proof.
  intros H1 H2. destruct (cover_canon lo hi H1 H2) as [CC CV]. exact (canon_cblks_are_range _ lo hi H1 H2 CC CV).
Qed.

(* iprange_to_cidrs in the shape the C17 models take it: address values in, (network value, prefixlen) out *)
Definition to_cidrs_real (lo hi : Z) : outcome (list (Z * Z)) :=
  omap (map Merge.cblk_of_net) (Merge.iprange_to_cidrs (Merge.addr_net 4 lo) (Merge.addr_net 4 hi)).

Lemma cblk_net_roundtrip ver L : map Merge.cblk_of_net (map (Merge.net_of_cblk ver) L) = L.
Proof. rewrite map_map. rewrite <- (map_id L) at 2. apply map_ext. intros [v p]. reflexivity. Qed.

Theorem coh_to_cidrs_real_exec lo hi : 0 <= lo <= hi -> hi < 2 ^ 32 ->
  to_cidrs_real lo hi = Glob.to_cidrs_exec lo hi.
Proof.
  intros H1 H2. unfold to_cidrs_real, Glob.to_cidrs_exec. rewrite coh_iprange_to_cidrs_cover by assumption.
  cbn [omap]. rewrite cblk_net_roundtrip. reflexivity.
Qed.

(* the hypothesis of C17_to_globs holds of the real model ... *)
Theorem to_cidrs_real_spec lo hi : 0 <= lo <= hi /\ hi < 2 ^ 32 ->
  exists cs, to_cidrs_real lo hi = Ok cs /\ C17.cidrs_tile cs lo hi.
Proof.
  intros [H1 H2]. rewrite coh_to_cidrs_real_exec by assumption. apply C17.to_cidrs_exec_spec. split; assumption.
Qed.

(* ... so C17_to_globs holds outright for iprange_to_globs built on the real iprange_to_cidrs *)
Theorem to_globs_tile_real lo hi : 0 <= lo <= hi /\ hi < 2 ^ 32 ->
  exists gl ivs, Glob.iprange_to_globs to_cidrs_real (4, lo) (4, hi) = Ok gl /\
                 Forall2 (fun g iv => C17.glob_denotes g (fst iv) (snd iv)) gl ivs /\
                 C17.chain ivs lo hi /\
                 (List.length gl = 1%nat <-> C17.glob_shaped lo hi).
Proof. apply C17.to_globs_tile. exact to_cidrs_real_spec. Qed.

(* and the result is the one the correspondence commands compute with the executable decomposition *)
Theorem coh_iprange_to_globs_real_exec lo hi : 0 <= lo <= hi -> hi < 2 ^ 32 ->
  Glob.iprange_to_globs to_cidrs_real (4, lo) (4, hi) = Glob.iprange_to_globs Glob.to_cidrs_exec (4, lo) (4, hi).
Proof.
  intros H1 H2. unfold Glob.iprange_to_globs. rewrite coh_to_cidrs_real_exec by assumption. reflexivity.
Qed.

(* glob_to_cidrs: same list from both, for every glob of the grammar *)
Theorem coh_glob_to_cidrs_real_exec fs : C17.glob_fields fs ->
  Glob.glob_to_cidrs to_cidrs_real (C17.show_glob fs) = Glob.glob_to_cidrs Glob.to_cidrs_exec (C17.show_glob fs).
Proof.
  intros Hg. destruct (C17.convert_spec fs Hg) as (_ & _ & G & B1 & B2 & _).
  rewrite !G. apply coh_to_cidrs_real_exec; lia.
Qed.
