(* Proofs/C18.v — containment = interval inclusion for every row/object kind; the predicates as
   "some consulted row contains the object"; all generic in the tables. *)
From NV Require Import Base.Tac Base.PyVal Base.Bits Model.Ip Model.Classify Proofs.C02 Proofs.C18_lift.
Open Scope Z_scope.

(* ---------------------------------------------------------------- arithmetic of aligned blocks *)

Lemma floor2_nested v k h : 0 <= k <= h ->
  floor2 v h <= floor2 v k /\ floor2 v k + 2 ^ k <= floor2 v h + 2 ^ h.
Proof.
  intros Hk. rewrite (floor2_div v h), (floor2_div v k) by lia.
  pose proof (floor2_bounds v h ltac:(lia)) as Bh. pose proof (floor2_bounds v k ltac:(lia)) as Bk.
  rewrite (floor2_div v h), (floor2_div v k) in * by lia.
  assert (E: 2 ^ h = 2 ^ (h - k) * 2 ^ k) by (rewrite <- pow2_split by lia; f_equal; lia).
  pose proof (pow2_pos k ltac:(lia)). pose proof (pow2_pos (h - k) ltac:(lia)).
  set (T := 2 ^ k) in *. set (U := 2 ^ (h - k)) in *. set (a := v / 2 ^ h) in *. set (b := v / T) in *.
  rewrite E in *. clearbody T U a b. clear E.
  assert (a * U <= b) by nia. assert (b + 1 <= (a + 1) * U) by nia. nia.
Qed.

Lemma addr_in_block sv v h : 0 <= h ->
  (Z.shiftr v h = Z.shiftr sv h <-> floor2 sv h <= v <= floor2 sv h + 2 ^ h - 1).
Proof.
  intros Hh. rewrite shiftr_eq_iff by lia. pose proof (floor2_bounds v h Hh). split.
  - intros E. rewrite <- E. lia.
  - intros B. symmetry. apply floor2_unique; [lia|apply floor2_divide; lia|lia].
Qed.

Lemma net_in_block sv v h k : 0 <= k -> 0 <= h ->
  (Z.shiftr sv h = Z.shiftr v h /\ k <= h <->
   floor2 sv h <= floor2 v k /\ floor2 v k + 2 ^ k - 1 <= floor2 sv h + 2 ^ h - 1).
Proof.
  intros Hk Hh. split.
  - intros [E L]. apply shiftr_eq_iff in E; [|lia]. rewrite E.
    pose proof (floor2_nested v k h ltac:(lia)). lia.
  - intros [A B]. pose proof (floor2_bounds v k Hk).
    assert (k <= h).
    { destruct (Z_le_gt_dec k h); [assumption|]. pose proof (pow2_lt h k ltac:(lia)). lia. }
    split; [|assumption]. symmetry. apply (addr_in_block sv v h Hh). lia.
Qed.

(* ---------------------------------------------------------------- well-formedness *)

Definition wf_row (r : row) : Prop :=
  (rkind r = 0 /\ 0 <= rfst r < 2 ^ width (rver r) /\ 0 <= rsnd r <= width (rver r)) \/ rkind r = 1.

Definition wf_obj (o : ipobj) : Prop :=
  valid_ver (over o) = true /\
  match o with
  | ONet ver v p => 0 <= v < 2 ^ width ver /\ 0 <= p <= width ver
  | _ => True
  end.

Definition wf_rowb (r : row) : bool :=
  ((rkind r =? 0) && (0 <=? rfst r) && (rfst r <? 2 ^ width (rver r)) && (0 <=? rsnd r) && (rsnd r <=? width (rver r)))
  || (rkind r =? 1).
Lemma wf_rowb_ok r : wf_rowb r = true -> wf_row r.
Proof. unfold wf_rowb, wf_row. intros H. lia. Qed.

(* the whole object lies inside the row *)
Definition inside (o : ipobj) (r : row) : Prop :=
  rver r = over o /\ row_first r <= obj_first o /\ obj_last o <= row_last r.

Definition iv_of_row (r : row) : iv := (row_first r, row_last r).

(* ---------------------------------------------------------------- containment = inclusion *)

Theorem contains_row_iff r o : wf_row r -> wf_obj o -> (contains_row r o = true <-> inside o r).
Proof.
  destruct r as [[[k rv] a] b]. unfold wf_row, wf_obj, inside, row_first, row_last, contains_row.
  cbn [rkind rver rfst rsnd]. intros Hr [Hver Ho].
  pose proof (width_nonneg rv) as Hw.
  destruct Hr as [(-> & Ha & Hb) | ->].
  - (* IPNetwork row *)
    change (0 =? 0) with true. cbv iota.
    rewrite net_first_eq, net_last_eq by lia.
    unfold net_contains. case_eqb rv (over o); cbn [negb]; [|split; [discriminate|intros [? _]; contradiction]].
    subst rv.
    destruct o as [ver v|ver v p|ver s e]; cbn [over obj_first obj_last] in *;
      remember (width ver) as w eqn:Ew; remember (w - b) as h eqn:Eh; assert (Hh: 0 <= h) by lia.
    + rewrite Z.eqb_eq, (addr_in_block a v h Hh). clear Ew Eh. intuition lia.
    + destruct Ho as [Hv Hp]. rewrite net_first_eq, net_last_eq by lia.
      rewrite andb_true_iff, Z.eqb_eq, Z.leb_le.
      pose proof (net_in_block a v h (w - p) ltac:(lia) Hh) as N. split.
      * intros [E L]. split; [reflexivity|]. apply N. split; [exact E|lia].
      * intros (_ & A & B). destruct N as [_ N]. destruct (N (conj A B)). split; [assumption|lia].
    + rewrite andb_true_iff, Z.leb_le, Z.gtb_lt, !Z.shiftl_mul_pow2, Z.shiftr_div_pow2 by lia.
      rewrite (floor2_div a h) by lia. clear Ew Eh.
      generalize (a / 2 ^ h) as q, (2 ^ h) as U. intros q U.
      replace ((q + 1) * U) with (q * U + U) by ring. generalize (q * U) as y. intros y. intuition lia.
  - (* IPRange row *)
    change (1 =? 0) with false. cbv iota.
    unfold range_contains. case_eqb rv (over o); cbn [negb]; [|split; [discriminate|intros [? _]; contradiction]].
    subst rv.
    destruct o as [ver v|ver v p|ver s e]; cbn [over obj_first obj_last] in *.
    + rewrite andb_true_iff, Z.leb_le, Z.geb_le. intuition lia.
    + destruct Ho as [Hv Hp]. rewrite net_first_eq, net_last_eq by lia.
      rewrite shiftr_shiftl_floor, shiftl1 by lia.
      rewrite andb_true_iff, Z.leb_le, Z.geb_le. intuition lia.
    + rewrite andb_true_iff, Z.leb_le, Z.geb_le. intuition lia.
Qed.

(* the address case as a boolean equation: membership in the row's interval *)
Lemma contains_row_addr r ver v : wf_row r -> valid_ver ver = true ->
  contains_row r (OAddr ver v) = (rver r =? ver) && memb (iv_of_row r) v.
Proof.
  intros Hr Hv. apply eq_true_iff_eq. rewrite (contains_row_iff r (OAddr ver v) Hr) by (split; [exact Hv|exact I]).
  unfold inside, memb, iv_of_row. cbn [over obj_first obj_last fst snd]. lia.
Qed.

(* ---------------------------------------------------------------- the predicates, generically *)

(* the rows a predicate consults for an object of family `ver`, in scan order *)
Definition rows_of (T : tables) (p : pred) (ver : Z) : list row :=
  match p with
  | Multicast => if ver =? 4 then [t_multicast4 T] else [t_multicast6 T]
  | Loopback => if ver =? 4 then [t_loopback4 T] else [t_loopback6 T]
  | LinkLocal => if ver =? 4 then [t_link_local4 T] else [t_link_local6 T]
  | Private => if ver =? 4 then t_private4 T ++ [t_link_local4 T] else t_private6 T ++ [t_link_local6 T]
  | Reserved => if ver =? 4 then t_reserved4 T else t_reserved6 T
  end.

Lemma scan_existsb o t : scan o t = existsb (fun r => contains_row r o) t.
Proof. induction t as [|r t IH]; cbn; [reflexivity|]. rewrite IH. destruct (contains_row r o); reflexivity. Qed.

Lemma ver_cases ver : valid_ver ver = true -> ver = 4 \/ ver = 6.
Proof. unfold valid_ver. lia. Qed.

Theorem holds_rows T p o : valid_ver (over o) = true ->
  holds T p o = existsb (fun r => contains_row r o) (rows_of T p (over o)).
Proof.
  intros Hv. destruct (ver_cases _ Hv) as [E|E]; destruct p;
    unfold holds, rows_of, is_private, is_multicast, is_loopback, is_link_local, is_reserved;
    rewrite E; cbn [Z.eqb Pos.eqb truthy existsb]; rewrite ?scan_existsb, ?existsb_app; cbn [existsb];
    rewrite ?orb_false_r; try reflexivity;
    repeat match goal with |- context [if ?a then _ else _] => destruct a end; reflexivity.
Qed.

(* the three option-returning predicates do return a bool for both families *)
Lemma option_preds_some T o : valid_ver (over o) = true ->
  is_multicast T o <> None /\ is_loopback T o <> None /\ is_link_local T o <> None.
Proof.
  intros Hv. unfold is_multicast, is_loopback, is_link_local.
  destruct (ver_cases _ Hv) as [E|E]; rewrite E; cbn; repeat split; discriminate.
Qed.

Lemma unicast_negb T o : is_unicast T o = negb (holds T Multicast o).
Proof. reflexivity. Qed.

(* every consulted row is well formed *)
Definition wf_tables (T : tables) : Prop :=
  forall p ver r, valid_ver ver = true -> In r (rows_of T p ver) -> wf_row r.

Definition all_preds : list pred := [Multicast; Loopback; LinkLocal; Private; Reserved].
Lemma all_preds_in p : In p all_preds.
Proof. destruct p; cbn; tauto. Qed.

Definition wf_tablesb (T : tables) : bool :=
  forallb (fun p => forallb (fun ver => forallb wf_rowb (rows_of T p ver)) [4; 6]) all_preds.
Lemma wf_tablesb_ok T : wf_tablesb T = true -> wf_tables T.
Proof.
  unfold wf_tablesb, wf_tables. rewrite forallb_forall. intros H p ver r Hv Hr.
  specialize (H p (all_preds_in p)). rewrite forallb_forall in H.
  assert (Hin: In ver [4; 6]) by (destruct (ver_cases _ Hv); subst; cbn; tauto).
  specialize (H ver Hin). rewrite forallb_forall in H. apply wf_rowb_ok. now apply H.
Qed.

(* C18_blocks, generic in the tables: a predicate holds for an address, network or range iff the whole
   object [first, last] lies inside ONE consulted row of its own family *)
Theorem holds_iff_inside_row T p o : wf_tables T -> wf_obj o ->
  (holds T p o = true <-> exists r, In r (rows_of T p (over o)) /\ inside o r).
Proof.
  intros HT Ho. pose proof Ho as [Hv _]. rewrite (holds_rows T p o Hv), existsb_exists.
  split; intros (r & Hr & H); exists r; (split; [exact Hr|]);
    apply (contains_row_iff r o (HT p (over o) r Hv Hr) Ho); exact H.
Qed.

(* the intervals (of family ver) a predicate consults *)
Definition ivs (T : tables) (p : pred) (ver : Z) : list iv :=
  map iv_of_row (filter (fun r => rver r =? ver) (rows_of T p ver)).

(* on addresses every predicate is membership in the union of its rows' intervals (all integers v) *)
Theorem holds_addr_mem T p ver v : wf_tables T -> valid_ver ver = true ->
  holds T p (OAddr ver v) = mem (ivs T p ver) v.
Proof.
  intros HT Hv. rewrite holds_rows by exact Hv. cbn [over]. unfold ivs, mem.
  specialize (HT p ver). revert HT. generalize (rows_of T p ver) as l.
  induction l as [|r l IH]; intros HT; [reflexivity|].
  cbn [existsb filter]. rewrite contains_row_addr by (try apply HT; try assumption; now left).
  rewrite IH by (intros r' ? Hr'; apply HT; [assumption|now right]).
  destruct (rver r =? ver); reflexivity.
Qed.

(* inside a row  <->  inside one of the intervals *)
Lemma inside_ivs T p o :
  (exists r, In r (rows_of T p (over o)) /\ inside o r) <->
  (exists b, In b (ivs T p (over o)) /\ fst b <= obj_first o /\ obj_last o <= snd b).
Proof.
  unfold ivs, inside. split.
  - intros (r & Hr & Hver & H). exists (iv_of_row r). split; [|exact H].
    apply in_map. apply filter_In. split; [exact Hr|]. lia.
  - intros (b & Hb & H). apply in_map_iff in Hb. destruct Hb as (r & <- & Hr). apply filter_In in Hr.
    exists r. split; [tauto|]. split; [lia|exact H].
Qed.

(* two interval lists with the same elements *)
Definition same_ivs (l1 l2 : list iv) : bool :=
  forallb (fun i => existsb (iv_eqb i) l2) l1 && forallb (fun i => existsb (iv_eqb i) l1) l2.
Lemma iv_eqb_eq i j : iv_eqb i j = true -> i = j.
Proof. destruct i, j. unfold iv_eqb. cbn. intros H. f_equal; lia. Qed.
Lemma same_ivs_ok l1 l2 : same_ivs l1 l2 = true -> forall b, In b l1 <-> In b l2.
Proof.
  unfold same_ivs. rewrite andb_true_iff, !forallb_forall. intros [H1 H2] b. split; intros Hb.
  - specialize (H1 b Hb). apply existsb_exists in H1. destruct H1 as (j & Hj & E). apply iv_eqb_eq in E. now subst.
  - specialize (H2 b Hb). apply existsb_exists in H2. destruct H2 as (j & Hj & E). apply iv_eqb_eq in E. now subst.
Qed.

(* ---------------------------------------------------------------- the spec's own shape (no generated data) *)

(* maxblocks = the maximal runs of the documented blocks: separated, inside the address space, same union *)
Definition maxblocks_ok_at (p : pred) (ver : Z) : bool :=
  separatedb (maxblocks p ver) &&
  forallb (fun b => (0 <=? fst b) && (snd b <=? 2 ^ width ver - 1)) (maxblocks p ver) &&
  forallb wfivb (spec p ver ++ maxblocks p ver) &&
  agree_on_cuts (mem (spec p ver)) (mem (maxblocks p ver)) (spec p ver ++ maxblocks p ver).

Lemma maxblocks_ok_all : forallb (fun p => forallb (maxblocks_ok_at p) [4; 6]) all_preds = true.
Proof. vm_compute. reflexivity. Qed.

Lemma maxblocks_ok p ver : valid_ver ver = true ->
  separated (maxblocks p ver) /\
  (forall b, In b (maxblocks p ver) -> 0 <= fst b /\ snd b <= 2 ^ width ver - 1) /\
  (forall x, mem (spec p ver) x = mem (maxblocks p ver) x).
Proof.
  intros Hv. pose proof maxblocks_ok_all as H. rewrite forallb_forall in H.
  specialize (H p (all_preds_in p)). rewrite forallb_forall in H.
  assert (Hin: In ver [4; 6]) by (destruct (ver_cases _ Hv); subst; cbn; tauto).
  specialize (H ver Hin). unfold maxblocks_ok_at in H. rewrite !andb_true_iff in H.
  destruct H as [[[Hs Hr] Hw] Ha]. split; [|split].
  - apply separatedb_ok. exact Hs.
  - rewrite forallb_forall in Hr. intros b Hb. specialize (Hr b Hb). lia.
  - apply mem_lift; assumption.
Qed.
