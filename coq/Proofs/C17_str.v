(* Proofs/C17_str.v — string-level facts for C17: canonical decimals are exactly the printed numerals,
   canonical dotted quads, separators. *)
From Coq Require Import String Ascii.
From NV Require Import Base.Tac Base.PyVal Base.PyStr Base.PyStrFacts Model.Ip Model.Glob.
Open Scope string_scope.
Open Scope Z_scope.

Lemma is_empty_iff s : is_empty s = true <-> s = EmptyString.
Proof. destruct s; cbn; split; congruence. Qed.

Lemma existsb_nondigit_false l :
  existsb (fun c => negb (is_digit c)) l = false <-> all_digits 10 l.
Proof.
  induction l as [|c r IH]; cbn.
  - split; [constructor|reflexivity].
  - rewrite orb_false_iff, IH, negb_false_iff. split.
    + intros [Hc Hr]. constructor; [apply is_digit_iff; exact Hc|exact Hr].
    + intros H. inversion H; subst. split; [apply is_digit_iff; assumption|assumption].
Qed.

Lemma dval10_digit_char c : digit_of 10 c -> digit_char (dval 10 c) = c.
Proof.
  intros [d Hd]. unfold dval. rewrite Hd.
  pose proof (digit_in_range _ _ _ Hd) as Hr.
  apply digit_in_Some in Hd. destruct Hd as [Hv _]. apply digit_val_code in Hv.
  unfold digit_char. case_ltb d 10; [|lia].
  replace (48 + d) with (code c) by lia. apply chr_code.
Qed.

Lemma dval10_zero c : digit_of 10 c -> dval 10 c = 0 -> c = ch_0.
Proof.
  intros H H0. rewrite <- (dval10_digit_char c H), H0. reflexivity.
Qed.

Lemma dval10_range c : digit_of 10 c -> 0 <= dval 10 c < 10.
Proof. intros [d Hd]. unfold dval. rewrite Hd. eapply digit_in_range; eauto. Qed.

(* the printed numeral of a non-negative integer is canonical *)
Lemma canon_dec_fmt_d n : 0 <= n -> canon_dec (fmt_d n) = Some n.
Proof.
  intros Hn. unfold canon_dec.
  assert (E1 : is_empty (fmt_d n) = false).
  { destruct (is_empty (fmt_d n)) eqn:E; [|reflexivity]. apply is_empty_iff in E.
    exfalso. now apply (fmt_d_nonempty n). }
  assert (E2 : existsb (fun c => negb (is_digit c)) (chars (fmt_d n)) = false).
  { apply existsb_nondigit_false. now apply fmt_d_digits. }
  rewrite E1, E2. cbn [orb].
  assert (E3 : match fmt_d n with
               | String c _ => ascii_eqb c ch_0 && negb (String.eqb (fmt_d n) "0")
               | EmptyString => false end = false).
  { destruct (Z.eq_dec n 0) as [->|Hnz]; [reflexivity|].
    rewrite fmt_d_nonneg by lia. rewrite fmt_nat_eq.
    destruct (digits_of_no_leading_zero 10 n) as (d & r & Hd & Hpos); [lia|lia|].
    pose proof (digits_of_range 10 n ltac:(lia) Hn) as HR. rewrite Hd in *.
    inversion HR as [|? ? Hd10 _]; subst. cbn [map str_of].
    assert (ascii_eqb (fmt_digit false d) ch_0 = false) as ->; [|reflexivity].
    apply ascii_eqb_neq. intros E. cbn [fmt_digit] in E.
    assert (dval 10 (digit_char d) = 0) as Hz by (rewrite E; reflexivity).
    unfold dval in Hz. rewrite digit_in_digit_char in Hz by lia. lia. }
  rewrite E3. apply py_int_fmt_d.
Qed.

(* and nothing else is: a canonical decimal is the printed numeral of its value *)
Lemma canon_dec_inv s v : canon_dec s = Some v -> 0 <= v /\ s = fmt_d v.
Proof.
  unfold canon_dec. intros H.
  destruct (is_empty s) eqn:E1; [discriminate|].
  destruct (existsb (fun c => negb (is_digit c)) (chars s)) eqn:E2; [discriminate|].
  cbn [orb] in H.
  destruct (match s with
            | String c _ => ascii_eqb c ch_0 && negb (String.eqb s "0")
            | EmptyString => false end) eqn:E3; [discriminate|].
  apply existsb_nondigit_false in E2.
  destruct (py_int_only_digits_value 10 s v ltac:(lia) E2 H) as (Hne & Hv & Hrange).
  split; [lia|].
  set (l := map (dval 10) (chars s)) in *.
  assert (HR : Forall (fun d => 0 <= d < 10) l) by (apply map_dval_range; exact E2).
  assert (HC : canonical_digits l).
  { destruct s as [|c r]; [congruence|]. unfold l. cbn [chars map].
    inversion E2 as [|? ? Hc Hr]; subst.
    destruct (ascii_eqb c ch_0) eqn:Ec.
    - cbn [andb] in E3. apply negb_false_iff in E3. apply String.eqb_eq in E3. injection E3 as -> ->.
      left. reflexivity.
    - right. exists (dval 10 c), (map (dval 10) (chars r)). split; [reflexivity|].
      pose proof (dval10_range c Hc). destruct (Z.eq_dec (dval 10 c) 0) as [Ez|]; [|lia].
      apply dval10_zero in Ez; [|exact Hc]. subst c. discriminate. }
  rewrite fmt_d_nonneg by lia. rewrite fmt_nat_eq, Hv, digits_of_unique by (try lia; assumption).
  unfold l. rewrite map_map. cbn [fmt_digit].
  rewrite <- (str_of_chars s) at 1. f_equal.
  clear - E2. induction E2 as [|c r Hc Hr IH]; [reflexivity|]. cbn [map]. rewrite dval10_digit_char by exact Hc.
  now rewrite <- IH.
Qed.

Lemma canon_dec_iff s v : canon_dec s = Some v <-> 0 <= v /\ s = fmt_d v.
Proof.
  split; [apply canon_dec_inv|]. intros [Hv ->]. now apply canon_dec_fmt_d.
Qed.

Lemma fmt_d_inj a b : fmt_d a = fmt_d b -> a = b.
Proof. intros E. pose proof (py_int_fmt_d a) as Ha. rewrite E, py_int_fmt_d in Ha. congruence. Qed.

(* ---- characters of a printed numeral ---- *)
Lemma fmt_d_no_star n : 0 <= n -> contains_char "*" (fmt_d n) = false.
Proof. intros. now apply fmt_d_no_char. Qed.

Lemma fmt_d_no_hyphen n : 0 <= n -> contains_char ch_hyphen (fmt_d n) = false.
Proof. intros. unfold ch_hyphen. now apply fmt_d_no_minus. Qed.

Lemma fmt_d_neq_star n : 0 <= n -> String.eqb (fmt_d n) "*" = false.
Proof.
  intros Hn. destruct (String.eqb (fmt_d n) "*") eqn:E; [|reflexivity].
  apply String.eqb_eq in E. pose proof (fmt_d_no_star n Hn) as H. rewrite E in H. discriminate.
Qed.

Lemma hyphen_in_range x y : contains_char ch_hyphen (fmt_d x ++ "-" ++ fmt_d y) = true.
Proof. rewrite !contains_char_app. cbn. now rewrite orb_true_r. Qed.

Lemma range_neq_star x y : 0 <= x -> String.eqb (fmt_d x ++ "-" ++ fmt_d y) "*" = false.
Proof.
  intros Hx. destruct (String.eqb _ _) eqn:E; [|reflexivity]. apply String.eqb_eq in E.
  pose proof (hyphen_in_range x y) as H. rewrite E in H. discriminate.
Qed.

Lemma split_range x y : 0 <= x -> 0 <= y ->
  split ch_hyphen (fmt_d x ++ "-" ++ fmt_d y) = [fmt_d x; fmt_d y].
Proof.
  intros Hx Hy. change (fmt_d x ++ "-" ++ fmt_d y)%string with (fmt_d x ++ String ch_hyphen (fmt_d y))%string.
  rewrite split_app by (now apply fmt_d_no_minus). f_equal. apply split_no_sep. now apply fmt_d_no_minus.
Qed.

Lemma range_no_dot x y : 0 <= x -> 0 <= y -> contains_char ch_dot (fmt_d x ++ "-" ++ fmt_d y) = false.
Proof.
  intros. rewrite !contains_char_app. unfold ch_dot. rewrite !fmt_d_no_dot by assumption. reflexivity.
Qed.

(* ---- canonical dotted quads ---- *)
Lemma of_octets4 a b c d : of_octets [a; b; c; d] = ((a * 256 + b) * 256 + c) * 256 + d.
Proof. unfold of_octets. cbn. lia. Qed.

Lemma split_dots (l : list string) : l <> [] -> Forall (fun t => contains_char ch_dot t = false) l ->
  split ch_dot (join "." l) = l.
Proof. intros. now apply (split_join ch_dot). Qed.

Lemma pton4_quad a b c d : 0 <= a <= 255 -> 0 <= b <= 255 -> 0 <= c <= 255 -> 0 <= d <= 255 ->
  pton4 (join "." [fmt_d a; fmt_d b; fmt_d c; fmt_d d]) = Some (of_octets [a; b; c; d]).
Proof.
  intros Ha Hb Hc Hd. unfold pton4. rewrite split_dots.
  - cbn [map]. rewrite !canon_dec_fmt_d by lia.
    replace (a <=? 255) with true by lia. replace (b <=? 255) with true by lia.
    replace (c <=? 255) with true by lia. replace (d <=? 255) with true by lia. reflexivity.
  - discriminate.
  - repeat constructor; unfold ch_dot; apply fmt_d_no_dot; lia.
Qed.

Lemma ip_of_canon_quad a b c d : 0 <= a <= 255 -> 0 <= b <= 255 -> 0 <= c <= 255 -> 0 <= d <= 255 ->
  ip_of_canon (join "." [fmt_d a; fmt_d b; fmt_d c; fmt_d d]) = Ok (of_octets [a; b; c; d]).
Proof. intros. unfold ip_of_canon. now rewrite pton4_quad. Qed.

(* pton4 accepts exactly the canonical dotted quads *)
Lemma pton4_iff s v :
  pton4 s = Some v <->
  exists a b c d, (0 <= a <= 255 /\ 0 <= b <= 255 /\ 0 <= c <= 255 /\ 0 <= d <= 255) /\
                  s = join "." [fmt_d a; fmt_d b; fmt_d c; fmt_d d] /\ v = of_octets [a; b; c; d].
Proof.
  split.
  - unfold pton4. intros H. pose proof (join_split ch_dot s) as Hj.
    destruct (split ch_dot s) as [|s0 [|s1 [|s2 [|s3 [|s4 r]]]]]; cbn [map] in H; try discriminate.
    + destruct (canon_dec s0); discriminate.
    + destruct (canon_dec s0); [|discriminate]. destruct (canon_dec s1); discriminate.
    + destruct (canon_dec s0); [|discriminate]. destruct (canon_dec s1); [|discriminate].
      destruct (canon_dec s2); discriminate.
    + destruct (canon_dec s0) as [a|] eqn:Ea; [|discriminate].
      destruct (canon_dec s1) as [b|] eqn:Eb; [|discriminate].
      destruct (canon_dec s2) as [c|] eqn:Ec; [|discriminate].
      destruct (canon_dec s3) as [d|] eqn:Ed; [|discriminate].
      apply canon_dec_inv in Ea, Eb, Ec, Ed.
      destruct ((a <=? 255) && (b <=? 255) && (c <=? 255) && (d <=? 255)) eqn:E; [|discriminate].
      injection H as <-. exists a, b, c, d. split; [lia|]. split; [|reflexivity].
      rewrite <- Hj. destruct Ea as [_ ->], Eb as [_ ->], Ec as [_ ->], Ed as [_ ->]. reflexivity.
    + destruct (canon_dec s0); [|discriminate]. destruct (canon_dec s1); [|discriminate].
      destruct (canon_dec s2); [|discriminate]. destruct (canon_dec s3); [|discriminate].
      destruct (canon_dec s4); discriminate.
  - intros (a & b & c & d & Hr & -> & ->). apply pton4_quad; lia.
Qed.

(* ---- octets of an IPv4 value ---- *)
Definition octets_of (v : Z) : list Z := [v / 2 ^ 24; (v / 2 ^ 16) mod 256; (v / 2 ^ 8) mod 256; v mod 256].

Lemma octets_of_range v : 0 <= v < 2 ^ 32 -> Forall (fun o => 0 <= o <= 255) (octets_of v).
Proof.
  intros H. unfold octets_of. change (2 ^ 32) with 4294967296 in H.
  change (2 ^ 24) with 16777216. change (2 ^ 16) with 65536. change (2 ^ 8) with 256.
  repeat constructor; lia_dm.
Qed.

Lemma of_octets_octets_of v : 0 <= v < 2 ^ 32 -> of_octets (octets_of v) = v.
Proof.
  intros H. unfold octets_of. rewrite of_octets4. change (2 ^ 32) with 4294967296 in H.
  change (2 ^ 24) with 16777216. change (2 ^ 16) with 65536. change (2 ^ 8) with 256. lia_dm.
Qed.

Lemma octets_of_of_octets a b c d : 0 <= a <= 255 -> 0 <= b <= 255 -> 0 <= c <= 255 -> 0 <= d <= 255 ->
  octets_of (of_octets [a; b; c; d]) = [a; b; c; d].
Proof.
  intros. rewrite of_octets4. unfold octets_of.
  change (2 ^ 24) with 16777216. change (2 ^ 16) with 65536. change (2 ^ 8) with 256.
  f_equal; [lia_dm|]. f_equal; [lia_dm|]. f_equal; [lia_dm|]. f_equal. lia_dm.
Qed.

Lemma of_octets_range a b c d : 0 <= a <= 255 -> 0 <= b <= 255 -> 0 <= c <= 255 -> 0 <= d <= 255 ->
  0 <= of_octets [a; b; c; d] < 2 ^ 32.
Proof. intros. rewrite of_octets4. change (2 ^ 32) with 4294967296. lia. Qed.

(* strategy/ipv4.int_to_str followed by the int() comprehension gives the octets back *)
Lemma int_to_str4_eq v : 0 <= v < 2 ^ 32 ->
  int_to_str4 v = Ok (join "." (map fmt_d (octets_of v))).
Proof.
  intros H. unfold int_to_str4. change (max_int 4) with 4294967295. change (2 ^ 32) with 4294967296 in H.
  replace ((0 <=? v) && (v <=? 4294967295)) with true by lia.
  unfold octets_of. cbn [map].
  rewrite !Z.shiftr_div_pow2 by lia.
  change 255 with (Z.ones 8). rewrite !Z.land_ones by lia. reflexivity.
Qed.

Lemma ints_of_str_octets l : l <> [] -> Forall (fun o => 0 <= o) l ->
  ints_of_str (join "." (map fmt_d l)) = Ok l.
Proof.
  intros Hne HF. unfold ints_of_str. rewrite split_dots.
  - clear Hne. induction HF as [|o r Ho Hr IH]; [reflexivity|].
    cbn [map map_outcome]. rewrite py_int_fmt_d. cbn [bind]. rewrite IH. reflexivity.
  - destruct l; [congruence|discriminate].
  - apply Forall_map. eapply Forall_impl; [|exact HF]. intros o Ho. unfold ch_dot. now apply fmt_d_no_dot.
Qed.
