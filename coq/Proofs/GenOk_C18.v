(* Proofs/GenOk_C18.v — the facts about the GENERATED tables (coq/Gen/classify_gen.v, re-extracted from the
   working tree on every run), re-checked by coqc on every run, and the C18 theorems that follow from them.
   A shifted boundary, a dropped or added row, a row of the wrong family makes `classify_tables_ok`
   (or `classify_rows_ok`) fail to compile. *)
From NV Require Import Base.Tac Base.PyVal Base.Bits Model.Ip Model.Classify Model.ClassifyGen
  Proofs.C02 Proofs.C18_lift Proofs.C18.
Open Scope Z_scope.

Notation GT := gen_tables.

(* every generated row is a well-formed IPNetwork (0 <= value < 2^width, 0 <= prefixlen <= width) or IPRange row *)
Lemma gen_tables_wf : wf_tablesb GT = true.
Proof. vm_compute. reflexivity. Qed.

(* (2) finite check: at every cut point {lo-1, lo, hi+1} of the generated rows and of the spec blocks, the MODEL
   predicate run over the generated tables equals membership in the hand-transcribed spec intervals *)
Definition tables_ok_at (p : pred) (ver : Z) : bool :=
  forallb wfivb (ivs GT p ver ++ spec p ver) &&
  agree_on_cuts (fun c => holds GT p (OAddr ver c)) (mem (spec p ver)) (ivs GT p ver ++ spec p ver).

Theorem classify_tables_ok : forallb (fun p => forallb (tables_ok_at p) [4; 6]) all_preds = true.
Proof. vm_compute. reflexivity. Qed.

(* finite check for C18_blocks: the intervals of the rows a predicate consults are exactly the documented blocks *)
Theorem classify_rows_ok : forallb (fun p => forallb (fun ver => same_ivs (ivs GT p ver) (spec p ver)) [4; 6]) all_preds = true.
Proof. vm_compute. reflexivity. Qed.

Lemma GT_wf : wf_tables GT.
Proof. apply wf_tablesb_ok. exact gen_tables_wf. Qed.

Lemma in_vers ver : valid_ver ver = true -> In ver [4; 6].
Proof. intros Hv. destruct (ver_cases _ Hv); subst; cbn; tauto. Qed.

(* lifted by the piecewise-constant lemma: for EVERY integer v (in particular every address 0 <= v < 2^width) *)
Theorem holds_spec p ver v : valid_ver ver = true -> holds GT p (OAddr ver v) = mem (spec p ver) v.
Proof.
  intros Hv. pose proof classify_tables_ok as H. rewrite forallb_forall in H.
  specialize (H p (all_preds_in p)). rewrite forallb_forall in H. specialize (H ver (in_vers ver Hv)).
  unfold tables_ok_at in H. rewrite andb_true_iff in H. destruct H as [Hw Ha].
  rewrite (holds_addr_mem GT p ver v GT_wf Hv).
  apply mem_lift; [exact Hw|].
  unfold agree_on_cuts in *. rewrite forallb_forall in *. intros c Hc. specialize (Ha c Hc).
  rewrite (holds_addr_mem GT p ver c GT_wf Hv) in Ha. exact Ha.
Qed.

Lemma truthy_some (r : option bool) : r <> None -> r = Some (truthy r).
Proof. destruct r; [reflexivity|congruence]. Qed.

(* C18_address *)
Theorem address_classification ver v : valid_ver ver = true ->
  is_multicast GT (OAddr ver v) = Some (mem (spec Multicast ver) v) /\
  is_unicast GT (OAddr ver v) = negb (mem (spec Multicast ver) v) /\
  is_loopback GT (OAddr ver v) = Some (mem (spec Loopback ver) v) /\
  is_link_local GT (OAddr ver v) = Some (mem (spec LinkLocal ver) v) /\
  is_private GT (OAddr ver v) = mem (spec Private ver) v /\
  is_reserved GT (OAddr ver v) = mem (spec Reserved ver) v /\
  (mem (spec LinkLocal ver) v = true -> mem (spec Private ver) v = true).
Proof.
  intros Hv.
  destruct (option_preds_some GT (OAddr ver v) Hv) as (N1 & N2 & N3).
  pose proof (holds_spec Multicast ver v Hv) as H1. pose proof (holds_spec Loopback ver v Hv) as H2.
  pose proof (holds_spec LinkLocal ver v Hv) as H3. pose proof (holds_spec Private ver v Hv) as H4.
  pose proof (holds_spec Reserved ver v Hv) as H5. cbn [holds] in *.
  repeat split.
  - rewrite (truthy_some _ N1), H1. reflexivity.
  - unfold is_unicast. rewrite H1. reflexivity.
  - rewrite (truthy_some _ N2), H2. reflexivity.
  - rewrite (truthy_some _ N3), H3. reflexivity.
  - exact H4.
  - exact H5.
  - unfold spec. destruct (ver =? 4); rewrite mem_app; intros ->; apply orb_true_r.
Qed.

(* is_unicast is the exact negation of is_multicast for every kind of object *)
Theorem unicast_not_multicast o : valid_ver (over o) = true ->
  exists b, is_multicast GT o = Some b /\ is_unicast GT o = negb b.
Proof.
  intros Hv. destruct (option_preds_some GT o Hv) as (N1 & _). exists (truthy (is_multicast GT o)).
  split; [apply truthy_some; exact N1|reflexivity].
Qed.

(* C18_flip *)
Theorem flip p ver : valid_ver ver = true ->
  let f := fun x => holds GT p (OAddr ver x) in
  (forall b, In b (maxblocks p ver) ->
     0 <= fst b <= snd b /\ snd b <= 2 ^ width ver - 1 /\
     (forall x, fst b <= x <= snd b -> f x = true) /\ f (fst b - 1) = false /\ f (snd b + 1) = false) /\
  (forall x, f x = true -> exists b, In b (maxblocks p ver) /\ fst b <= x <= snd b) /\
  (forall x, f x <> f (x + 1) <-> exists b, In b (maxblocks p ver) /\ (x + 1 = fst b \/ x = snd b)).
Proof.
  intros Hv f. destruct (maxblocks_ok p ver Hv) as (Hs & Hr & Hm).
  assert (E: forall x, f x = mem (maxblocks p ver) x).
  { intros x. unfold f. rewrite holds_spec by exact Hv. apply Hm. }
  split; [|split].
  - intros b Hb. destruct (separated_block _ b Hs Hb) as (A & B & C). destruct (Hr b Hb).
    destruct Hs as [Hwf _]. pose proof (Hwf b Hb). rewrite !E. repeat split; try lia; try assumption.
    intros x Hx. rewrite E. now apply A.
  - intros x. rewrite E. apply mem_true_iff.
  - intros x. rewrite !E. apply separated_flip. exact Hs.
Qed.

(* C18_blocks over the generated tables: inside ONE documented block *)
Theorem blocks p o : wf_obj o ->
  (holds GT p o = true <-> exists b, In b (spec p (over o)) /\ fst b <= obj_first o /\ obj_last o <= snd b).
Proof.
  intros Ho. pose proof Ho as [Hv _].
  rewrite (holds_iff_inside_row GT p o GT_wf Ho), inside_ivs.
  pose proof classify_rows_ok as H. rewrite forallb_forall in H.
  specialize (H p (all_preds_in p)). rewrite forallb_forall in H. specialize (H (over o) (in_vers _ Hv)).
  pose proof (same_ivs_ok _ _ H) as S.
  split; intros (b & Hb & Hin); exists b; (split; [apply S; exact Hb|exact Hin]).
Qed.
