(* Proofs/GenOk_Structure_C07.v -- WRITTEN BY tools/mkstructure.py from the pinned tree: signatures (parameter names, order, default
   values), decorators, class bases and non-def class-body statements of the functions and classes C07 relies on, as the models, the
   harness adapters and the translator tables assume them; the regenerated lists (coq/Gen/structure_gen.v) must equal them. *)
From Coq Require Import List String Bool.
From NV Require Import Gen.structure_gen.
Import ListNotations.
Open Scope string_scope.

(* drop_<group>: functions translated by harness/gen/pysrc.py that nothing in the dependency closure of this property's theorem
   files mentions, directly or through the generated definitions they mention: their rows are another property's business
   (tools/mkstructure.py computes the lists); classes, untranslated functions and NEW functions are kept *)
Definition keep (drop : list string) (r : string * string) : bool := negb (existsb (String.eqb (fst r)) drop).

Lemma names_compat_ok : gen_names_compat = ["_bytes_join"; "_zip"; "_range"; "_iter_next"].
Proof. reflexivity. Qed.

Definition drop_compat___bytes_join : list string := [].
Definition pinned_struct_compat___bytes_join : list (string * string) := [
  ("def _bytes_join", "(*args)");
  ("def _bytes_join", "(*args)")
].
Lemma struct_compat___bytes_join_ok : filter (keep drop_compat___bytes_join) gen_struct_compat___bytes_join = pinned_struct_compat___bytes_join.
Proof. vm_compute. reflexivity. Qed.

Definition drop_compat___zip : list string := [].
Definition pinned_struct_compat___zip : list (string * string) := [
  ("def _zip", "(*args)");
  ("def _zip", "(*args)")
].
Lemma struct_compat___zip_ok : filter (keep drop_compat___zip) gen_struct_compat___zip = pinned_struct_compat___zip.
Proof. vm_compute. reflexivity. Qed.

Definition drop_compat___range : list string := [].
Definition pinned_struct_compat___range : list (string * string) := [
  ("def _range", "(*args, **kwargs)");
  ("def _range", "(*args, **kwargs)")
].
Lemma struct_compat___range_ok : filter (keep drop_compat___range) gen_struct_compat___range = pinned_struct_compat___range.
Proof. vm_compute. reflexivity. Qed.

Definition drop_compat___iter_next : list string := [].
Definition pinned_struct_compat___iter_next : list (string * string) := [
  ("def _iter_next", "(x)");
  ("def _iter_next", "(x)")
].
Lemma struct_compat___iter_next_ok : filter (keep drop_compat___iter_next) gen_struct_compat___iter_next = pinned_struct_compat___iter_next.
Proof. vm_compute. reflexivity. Qed.

Definition drop_ip_init__BaseIP : list string := ["def BaseIP.is_unicast"; "def BaseIP.is_multicast"; "def BaseIP.is_loopback"; "def BaseIP.is_private"; "def BaseIP.is_link_local"; "def BaseIP.is_reserved"; "def BaseIP.is_ipv4_mapped"; "def BaseIP.is_ipv4_compat"].
Definition pinned_struct_ip_init__BaseIP : list (string * string) := [
  ("class BaseIP", "(object) __slots__ = ('_value', '_module', '__weakref__') ; value = property(lambda self: self._value, _set_value, doc='a positive integer representing the value of IP address/subnet.')");
  ("def BaseIP.__init__", "(self)");
  ("def BaseIP._set_value", "(self, value)");
  ("def BaseIP.key", "(self)");
  ("def BaseIP.sort_key", "(self)");
  ("def BaseIP.__hash__", "(self)");
  ("def BaseIP.__eq__", "(self, other)");
  ("def BaseIP.__ne__", "(self, other)");
  ("def BaseIP.__lt__", "(self, other)");
  ("def BaseIP.__le__", "(self, other)");
  ("def BaseIP.__gt__", "(self, other)");
  ("def BaseIP.__ge__", "(self, other)");
  ("def BaseIP.info", "@property (self)");
  ("def BaseIP.version", "@property (self)")
].
Lemma struct_ip_init__BaseIP_ok : filter (keep drop_ip_init__BaseIP) gen_struct_ip_init__BaseIP = pinned_struct_ip_init__BaseIP.
Proof. vm_compute. reflexivity. Qed.

Definition drop_ip_init__IPAddress : list string := ["def IPAddress.__iadd__"; "def IPAddress.__isub__"; "def IPAddress.__add__"; "def IPAddress.__sub__"; "def IPAddress.__rsub__"; "def IPAddress.__oct__"; "def IPAddress.__hex__"; "def IPAddress.__index__"; "def IPAddress.__bytes__"; "def IPAddress.bits"; "def IPAddress.packed"; "def IPAddress.words"; "def IPAddress.bin"; "def IPAddress.reverse_dns"; "def IPAddress.ipv4"; "def IPAddress.ipv6"; "def IPAddress.format"; "def IPAddress.__or__"; "def IPAddress.__and__"; "def IPAddress.__xor__"; "def IPAddress.__lshift__"; "def IPAddress.__rshift__"; "def IPAddress.__nonzero__"; "def IPAddress.__repr__"].
Definition pinned_struct_ip_init__IPAddress : list (string * string) := [
  ("class IPAddress", "(BaseIP) __slots__ = () ; __radd__ = __add__ ; __bool__ = __nonzero__");
  ("def IPAddress.__init__", "(self, addr, version=None, flags=0)");
  ("def IPAddress.__getstate__", "(self)");
  ("def IPAddress.__setstate__", "(self, state)");
  ("def IPAddress.netmask_bits", "(self)");
  ("def IPAddress.is_hostmask", "(self)");
  ("def IPAddress.is_netmask", "(self)");
  ("def IPAddress.key", "(self)");
  ("def IPAddress.sort_key", "(self)");
  ("def IPAddress.__int__", "(self)");
  ("def IPAddress.__long__", "(self)");
  ("def IPAddress.__str__", "(self)")
].
Lemma struct_ip_init__IPAddress_ok : filter (keep drop_ip_init__IPAddress) gen_struct_ip_init__IPAddress = pinned_struct_ip_init__IPAddress.
Proof. vm_compute. reflexivity. Qed.

Definition drop_ip_init__IPNetwork : list string := ["def IPNetwork.ipv4"; "def IPNetwork.ipv6"; "def IPNetwork.previous"; "def IPNetwork.next"; "def IPNetwork.subnet"; "def IPNetwork.iter_hosts"; "def IPNetwork.__repr__"].
Definition pinned_struct_ip_init__IPNetwork : list (string * string) := [
  ("class IPNetwork", "(BaseIP, IPListMixin) __slots__ = ('_prefixlen',) ; prefixlen = property(lambda self: self._prefixlen, _set_prefixlen, doc='size of the bitmask used to separate the network from the host bits')");
  ("def IPNetwork.__init__", "(self, addr, implicit_prefix=False, version=None, flags=0)");
  ("def IPNetwork.__getstate__", "(self)");
  ("def IPNetwork.__setstate__", "(self, state)");
  ("def IPNetwork._set_prefixlen", "(self, value)");
  ("def IPNetwork.ip", "@property (self)");
  ("def IPNetwork.network", "@property (self)");
  ("def IPNetwork.broadcast", "@property (self)");
  ("def IPNetwork.first", "@property (self)");
  ("def IPNetwork.last", "@property (self)");
  ("def IPNetwork.netmask", "@property (self)");
  ("def IPNetwork.netmask", "@netmask.setter (self, value)");
  ("def IPNetwork._netmask_int", "@property (self)");
  ("def IPNetwork.hostmask", "@property (self)");
  ("def IPNetwork._hostmask_int", "@property (self)");
  ("def IPNetwork.cidr", "@property (self)");
  ("def IPNetwork.__iadd__", "(self, num)");
  ("def IPNetwork.__isub__", "(self, num)");
  ("def IPNetwork.__contains__", "(self, other)");
  ("def IPNetwork.key", "(self)");
  ("def IPNetwork.sort_key", "(self)");
  ("def IPNetwork.supernet", "(self, prefixlen=0)");
  ("def IPNetwork.__str__", "(self)")
].
Lemma struct_ip_init__IPNetwork_ok : filter (keep drop_ip_init__IPNetwork) gen_struct_ip_init__IPNetwork = pinned_struct_ip_init__IPNetwork.
Proof. vm_compute. reflexivity. Qed.

Definition drop_ip_init__IPListMixin : list string := ["def IPListMixin.__iter__"; "def IPListMixin.__len__"; "def IPListMixin.__contains__"; "def IPListMixin.__nonzero__"].
Definition pinned_struct_ip_init__IPListMixin : list (string * string) := [
  ("class IPListMixin", "(object) __slots__ = () ; __bool__ = __nonzero__");
  ("def IPListMixin.size", "@property (self)");
  ("def IPListMixin.__getitem__", "(self, index)")
].
Lemma struct_ip_init__IPListMixin_ok : filter (keep drop_ip_init__IPListMixin) gen_struct_ip_init__IPListMixin = pinned_struct_ip_init__IPListMixin.
Proof. vm_compute. reflexivity. Qed.

Definition drop_ip_init__parse_ip_network : list string := [].
Definition pinned_struct_ip_init__parse_ip_network : list (string * string) := [
  ("def parse_ip_network", "(module, addr, implicit_prefix=False, flags=0)")
].
Lemma struct_ip_init__parse_ip_network_ok : filter (keep drop_ip_init__parse_ip_network) gen_struct_ip_init__parse_ip_network = pinned_struct_ip_init__parse_ip_network.
Proof. vm_compute. reflexivity. Qed.

Definition drop_ip_init___arg_repr : list string := [].
Definition pinned_struct_ip_init___arg_repr : list (string * string) := [
  ("def _arg_repr", "(value)")
].
Lemma struct_ip_init___arg_repr_ok : filter (keep drop_ip_init___arg_repr) gen_struct_ip_init___arg_repr = pinned_struct_ip_init___arg_repr.
Proof. vm_compute. reflexivity. Qed.

Definition drop_ip_init__IPRange : list string := ["def IPRange.__contains__"; "def IPRange.__str__"; "def IPRange.__repr__"].
Definition pinned_struct_ip_init__IPRange : list (string * string) := [
  ("class IPRange", "(BaseIP, IPListMixin) __slots__ = ('_start', '_end')");
  ("def IPRange.__init__", "(self, start, end, flags=0)");
  ("def IPRange.__getstate__", "(self)");
  ("def IPRange.__setstate__", "(self, state)");
  ("def IPRange.first", "@property (self)");
  ("def IPRange.last", "@property (self)");
  ("def IPRange.key", "(self)");
  ("def IPRange.sort_key", "(self)");
  ("def IPRange.cidrs", "(self)")
].
Lemma struct_ip_init__IPRange_ok : filter (keep drop_ip_init__IPRange) gen_struct_ip_init__IPRange = pinned_struct_ip_init__IPRange.
Proof. vm_compute. reflexivity. Qed.

Definition drop_ip_init__cidr_merge : list string := [].
Definition pinned_struct_ip_init__cidr_merge : list (string * string) := [
  ("def cidr_merge", "(ip_addrs)")
].
Lemma struct_ip_init__cidr_merge_ok : filter (keep drop_ip_init__cidr_merge) gen_struct_ip_init__cidr_merge = pinned_struct_ip_init__cidr_merge.
Proof. vm_compute. reflexivity. Qed.

Definition drop_ip_init__iprange_to_cidrs : list string := [].
Definition pinned_struct_ip_init__iprange_to_cidrs : list (string * string) := [
  ("def iprange_to_cidrs", "(start, end)")
].
Lemma struct_ip_init__iprange_to_cidrs_ok : filter (keep drop_ip_init__iprange_to_cidrs) gen_struct_ip_init__iprange_to_cidrs = pinned_struct_ip_init__iprange_to_cidrs.
Proof. vm_compute. reflexivity. Qed.

Definition drop_ip_init__spanning_cidr : list string := [].
Definition pinned_struct_ip_init__spanning_cidr : list (string * string) := [
  ("def spanning_cidr", "(ip_addrs)")
].
Lemma struct_ip_init__spanning_cidr_ok : filter (keep drop_ip_init__spanning_cidr) gen_struct_ip_init__spanning_cidr = pinned_struct_ip_init__spanning_cidr.
Proof. vm_compute. reflexivity. Qed.

Definition drop_ip_init__cidr_partition : list string := [].
Definition pinned_struct_ip_init__cidr_partition : list (string * string) := [
  ("def cidr_partition", "(target, exclude)")
].
Lemma struct_ip_init__cidr_partition_ok : filter (keep drop_ip_init__cidr_partition) gen_struct_ip_init__cidr_partition = pinned_struct_ip_init__cidr_partition.
Proof. vm_compute. reflexivity. Qed.

Definition drop_ip_init__cidr_exclude : list string := [].
Definition pinned_struct_ip_init__cidr_exclude : list (string * string) := [
  ("def cidr_exclude", "(target, exclude)")
].
Lemma struct_ip_init__cidr_exclude_ok : filter (keep drop_ip_init__cidr_exclude) gen_struct_ip_init__cidr_exclude = pinned_struct_ip_init__cidr_exclude.
Proof. vm_compute. reflexivity. Qed.

Lemma names_ip_sets_ok : gen_names_ip_sets = ["_subtract"; "_iter_merged_ranges"; "IPSet"].
Proof. reflexivity. Qed.

Definition drop_ip_sets___subtract : list string := [].
Definition pinned_struct_ip_sets___subtract : list (string * string) := [
  ("def _subtract", "(supernet, subnets, subnet_idx, ranges)")
].
Lemma struct_ip_sets___subtract_ok : filter (keep drop_ip_sets___subtract) gen_struct_ip_sets___subtract = pinned_struct_ip_sets___subtract.
Proof. vm_compute. reflexivity. Qed.

Definition drop_ip_sets___iter_merged_ranges : list string := [].
Definition pinned_struct_ip_sets___iter_merged_ranges : list (string * string) := [
  ("def _iter_merged_ranges", "(sorted_ranges)")
].
Lemma struct_ip_sets___iter_merged_ranges_ok : filter (keep drop_ip_sets___iter_merged_ranges) gen_struct_ip_sets___iter_merged_ranges = pinned_struct_ip_sets___iter_merged_ranges.
Proof. vm_compute. reflexivity. Qed.

Definition drop_ip_sets__IPSet : list string := [].
Definition pinned_struct_ip_sets__IPSet : list (string * string) := [
  ("class IPSet", "(object) __slots__ = ('_cidrs', '__weakref__') ; __bool__ = __nonzero__ ; __le__ = issubset ; __ge__ = issuperset ; __or__ = union ; __and__ = intersection ; __xor__ = symmetric_difference ; __sub__ = difference ; __str__ = __repr__");
  ("def IPSet.__init__", "(self, iterable=None, flags=0)");
  ("def IPSet.__getstate__", "(self)");
  ("def IPSet.__reduce__", "(self)");
  ("def IPSet.__setstate__", "(self, state)");
  ("def IPSet._compact_single_network", "(self, added_network)");
  ("def IPSet.compact", "(self)");
  ("def IPSet.__hash__", "(self)");
  ("def IPSet.__contains__", "(self, ip)");
  ("def IPSet.__nonzero__", "(self)");
  ("def IPSet.__iter__", "(self)");
  ("def IPSet.iter_cidrs", "(self)");
  ("def IPSet.add", "(self, addr, flags=0)");
  ("def IPSet.remove", "(self, addr, flags=0)");
  ("def IPSet.pop", "(self)");
  ("def IPSet.isdisjoint", "(self, other)");
  ("def IPSet.copy", "(self)");
  ("def IPSet.update", "(self, iterable, flags=0)");
  ("def IPSet.clear", "(self)");
  ("def IPSet.__eq__", "(self, other)");
  ("def IPSet.__ne__", "(self, other)");
  ("def IPSet.__lt__", "(self, other)");
  ("def IPSet.issubset", "(self, other)");
  ("def IPSet.__gt__", "(self, other)");
  ("def IPSet.issuperset", "(self, other)");
  ("def IPSet.union", "(self, other)");
  ("def IPSet.intersection", "(self, other)");
  ("def IPSet.symmetric_difference", "(self, other)");
  ("def IPSet.difference", "(self, other)");
  ("def IPSet.__len__", "(self)");
  ("def IPSet.size", "@property (self)");
  ("def IPSet.__repr__", "(self)");
  ("def IPSet.iscontiguous", "(self)");
  ("def IPSet.iprange", "(self)");
  ("def IPSet.iter_ipranges", "(self)")
].
Lemma struct_ip_sets__IPSet_ok : filter (keep drop_ip_sets__IPSet) gen_struct_ip_sets__IPSet = pinned_struct_ip_sets__IPSet.
Proof. vm_compute. reflexivity. Qed.

