(* Proofs/GenOk_Structure_C16.v -- WRITTEN BY tools/mkstructure.py from the pinned tree: signatures (parameter names, order, default
   values), decorators, class bases and non-def class-body statements of the functions and classes C16 relies on, as the models, the
   harness adapters and the translator tables assume them; the regenerated lists (coq/Gen/structure_gen.v) must equal them. *)
From Coq Require Import List String Bool.
From NV Require Import Gen.structure_gen.
Import ListNotations.
Open Scope string_scope.

(* drop_<group>: functions translated by harness/gen/pysrc.py that nothing in the dependency closure of this property's theorem
   files mentions, directly or through the generated definitions they mention: their rows are another property's business
   (tools/mkstructure.py computes the lists); classes, untranslated functions and NEW functions are kept *)
Definition keep (drop : list string) (r : string * string) : bool := negb (existsb (String.eqb (fst r)) drop).

Lemma names_compat_ok : gen_names_compat = ["_bytes_join"; "_zip"; "_range"; "_iter_next"].
Proof. reflexivity. Qed.

Definition drop_compat___bytes_join : list string := [].
Definition pinned_struct_compat___bytes_join : list (string * string) := [
  ("def _bytes_join", "(*args)");
  ("def _bytes_join", "(*args)")
].
Lemma struct_compat___bytes_join_ok : filter (keep drop_compat___bytes_join) gen_struct_compat___bytes_join = pinned_struct_compat___bytes_join.
Proof. vm_compute. reflexivity. Qed.

Definition drop_compat___zip : list string := [].
Definition pinned_struct_compat___zip : list (string * string) := [
  ("def _zip", "(*args)");
  ("def _zip", "(*args)")
].
Lemma struct_compat___zip_ok : filter (keep drop_compat___zip) gen_struct_compat___zip = pinned_struct_compat___zip.
Proof. vm_compute. reflexivity. Qed.

Definition drop_compat___range : list string := [].
Definition pinned_struct_compat___range : list (string * string) := [
  ("def _range", "(*args, **kwargs)");
  ("def _range", "(*args, **kwargs)")
].
Lemma struct_compat___range_ok : filter (keep drop_compat___range) gen_struct_compat___range = pinned_struct_compat___range.
Proof. vm_compute. reflexivity. Qed.

Definition drop_compat___iter_next : list string := [].
Definition pinned_struct_compat___iter_next : list (string * string) := [
  ("def _iter_next", "(x)");
  ("def _iter_next", "(x)")
].
Lemma struct_compat___iter_next_ok : filter (keep drop_compat___iter_next) gen_struct_compat___iter_next = pinned_struct_compat___iter_next.
Proof. vm_compute. reflexivity. Qed.

Definition drop_ip_init__BaseIP : list string := ["def BaseIP._set_value"; "def BaseIP.__hash__"; "def BaseIP.__eq__"; "def BaseIP.__ne__"; "def BaseIP.__lt__"; "def BaseIP.__le__"; "def BaseIP.__gt__"; "def BaseIP.__ge__"; "def BaseIP.is_unicast"; "def BaseIP.is_multicast"; "def BaseIP.is_loopback"; "def BaseIP.is_private"; "def BaseIP.is_link_local"; "def BaseIP.is_reserved"].
Definition pinned_struct_ip_init__BaseIP : list (string * string) := [
  ("class BaseIP", "(object) __slots__ = ('_value', '_module', '__weakref__') ; value = property(lambda self: self._value, _set_value, doc='a positive integer representing the value of IP address/subnet.')");
  ("def BaseIP.__init__", "(self)");
  ("def BaseIP.key", "(self)");
  ("def BaseIP.sort_key", "(self)");
  ("def BaseIP.is_ipv4_mapped", "(self)");
  ("def BaseIP.is_ipv4_compat", "(self)");
  ("def BaseIP.info", "@property (self)");
  ("def BaseIP.version", "@property (self)")
].
Lemma struct_ip_init__BaseIP_ok : filter (keep drop_ip_init__BaseIP) gen_struct_ip_init__BaseIP = pinned_struct_ip_init__BaseIP.
Proof. vm_compute. reflexivity. Qed.

Definition drop_ip_init__IPAddress : list string := ["def IPAddress.__getstate__"; "def IPAddress.__setstate__"; "def IPAddress.netmask_bits"; "def IPAddress.__iadd__"; "def IPAddress.__isub__"; "def IPAddress.__add__"; "def IPAddress.__sub__"; "def IPAddress.__rsub__"; "def IPAddress.key"; "def IPAddress.sort_key"; "def IPAddress.__int__"; "def IPAddress.__long__"; "def IPAddress.__oct__"; "def IPAddress.__hex__"; "def IPAddress.__index__"; "def IPAddress.__bytes__"; "def IPAddress.bits"; "def IPAddress.packed"; "def IPAddress.words"; "def IPAddress.bin"; "def IPAddress.reverse_dns"; "def IPAddress.format"; "def IPAddress.__or__"; "def IPAddress.__and__"; "def IPAddress.__xor__"; "def IPAddress.__lshift__"; "def IPAddress.__rshift__"; "def IPAddress.__nonzero__"; "def IPAddress.__repr__"].
Definition pinned_struct_ip_init__IPAddress : list (string * string) := [
  ("class IPAddress", "(BaseIP) __slots__ = () ; __radd__ = __add__ ; __bool__ = __nonzero__");
  ("def IPAddress.__init__", "(self, addr, version=None, flags=0)");
  ("def IPAddress.is_hostmask", "(self)");
  ("def IPAddress.is_netmask", "(self)");
  ("def IPAddress.ipv4", "(self)");
  ("def IPAddress.ipv6", "(self, ipv4_compatible=False)");
  ("def IPAddress.__str__", "(self)")
].
Lemma struct_ip_init__IPAddress_ok : filter (keep drop_ip_init__IPAddress) gen_struct_ip_init__IPAddress = pinned_struct_ip_init__IPAddress.
Proof. vm_compute. reflexivity. Qed.

Definition drop_ip_init__IPNetwork : list string := ["def IPNetwork.__getstate__"; "def IPNetwork.__setstate__"; "def IPNetwork._set_prefixlen"; "def IPNetwork.network"; "def IPNetwork.broadcast"; "def IPNetwork.netmask"; "def IPNetwork.netmask"; "def IPNetwork._netmask_int"; "def IPNetwork.hostmask"; "def IPNetwork.cidr"; "def IPNetwork.__iadd__"; "def IPNetwork.__isub__"; "def IPNetwork.__contains__"; "def IPNetwork.key"; "def IPNetwork.sort_key"; "def IPNetwork.previous"; "def IPNetwork.next"; "def IPNetwork.supernet"; "def IPNetwork.subnet"; "def IPNetwork.iter_hosts"; "def IPNetwork.__repr__"].
Definition pinned_struct_ip_init__IPNetwork : list (string * string) := [
  ("class IPNetwork", "(BaseIP, IPListMixin) __slots__ = ('_prefixlen',) ; prefixlen = property(lambda self: self._prefixlen, _set_prefixlen, doc='size of the bitmask used to separate the network from the host bits')");
  ("def IPNetwork.__init__", "(self, addr, implicit_prefix=False, version=None, flags=0)");
  ("def IPNetwork.ip", "@property (self)");
  ("def IPNetwork.first", "@property (self)");
  ("def IPNetwork.last", "@property (self)");
  ("def IPNetwork._hostmask_int", "@property (self)");
  ("def IPNetwork.ipv4", "(self)");
  ("def IPNetwork.ipv6", "(self, ipv4_compatible=False)");
  ("def IPNetwork.__str__", "(self)")
].
Lemma struct_ip_init__IPNetwork_ok : filter (keep drop_ip_init__IPNetwork) gen_struct_ip_init__IPNetwork = pinned_struct_ip_init__IPNetwork.
Proof. vm_compute. reflexivity. Qed.

Definition drop_ip_init__IPListMixin : list string := ["def IPListMixin.__iter__"; "def IPListMixin.size"; "def IPListMixin.__len__"; "def IPListMixin.__getitem__"; "def IPListMixin.__contains__"; "def IPListMixin.__nonzero__"].
Definition pinned_struct_ip_init__IPListMixin : list (string * string) := [
  ("class IPListMixin", "(object) __slots__ = () ; __bool__ = __nonzero__")
].
Lemma struct_ip_init__IPListMixin_ok : filter (keep drop_ip_init__IPListMixin) gen_struct_ip_init__IPListMixin = pinned_struct_ip_init__IPListMixin.
Proof. vm_compute. reflexivity. Qed.

Definition drop_ip_init__parse_ip_network : list string := [].
Definition pinned_struct_ip_init__parse_ip_network : list (string * string) := [
  ("def parse_ip_network", "(module, addr, implicit_prefix=False, flags=0)")
].
Lemma struct_ip_init__parse_ip_network_ok : filter (keep drop_ip_init__parse_ip_network) gen_struct_ip_init__parse_ip_network = pinned_struct_ip_init__parse_ip_network.
Proof. vm_compute. reflexivity. Qed.

Definition drop_ip_init___arg_repr : list string := [].
Definition pinned_struct_ip_init___arg_repr : list (string * string) := [
  ("def _arg_repr", "(value)")
].
Lemma struct_ip_init___arg_repr_ok : filter (keep drop_ip_init___arg_repr) gen_struct_ip_init___arg_repr = pinned_struct_ip_init___arg_repr.
Proof. vm_compute. reflexivity. Qed.

