(* Proofs/C01_Strict6.v — the repaired fallback inet_pton(AF_INET6, s) equals the standard RFC 4291 parser on EVERY
   string: Fb.inet_pton6 s = of_option (Std6.pton6 s). *)
From Coq Require Import String Ascii.
From NV Require Import Base.Tac Base.PyVal Base.Bits Base.PyStr Base.PyStrFacts Model.IpText Model.FbSocket Model.AddrText
  Proofs.C01_Chars Proofs.C01_V6 Proofs.C01_Value Proofs.C01_V4.
Open Scope Z_scope.

(* ---------------------------------------------------------------- tokens *)
Lemma hextet_some t v : Std6.hextet t = Some v ->
  t <> [] /\ forallb is_hex t = true /\ py_int 16 (str_of t) = Some v /\ 0 <= v <= 65535.
Proof. unfold Std6.hextet. destruct (Nat.leb 1 (List.length t)) eqn:L1; [|discriminate].
  destruct (Nat.leb (List.length t) 4) eqn:L4; [|discriminate]. destruct (forallb is_hex t) eqn:F; [|discriminate].
  cbn [andb]. intros E. injection E as <-. apply Nat.leb_le in L1, L4.
  assert (Hne : t <> []) by (destruct t; [cbn in L1; lia|discriminate]).
  split; [exact Hne|]. split; [reflexivity|]. apply forallb_is_hex in F.
  unfold py_int. rewrite chars_str_of, py_int_chars_digits by assumption. rewrite digits_value_hex.
  split; [reflexivity|].
  pose proof (map_dval_range 16 t F) as R.
  pose proof (from_digits_nonneg 16 _ ltac:(lia) R). pose proof (from_digits_bound 16 _ ltac:(lia) R) as B.
  rewrite map_length in B.
  assert (16 ^ Z.of_nat (List.length t) <= 16 ^ 4) by (apply Z.pow_le_mono_r; lia).
  change (16 ^ 4) with 65536 in *. lia. Qed.

Lemma is_hextet_eq t : Fb.is_hextet (str_of t) = is_some (Std6.hextet t).
Proof. unfold Fb.is_hextet, Std6.hextet, str_len. rewrite length_str_of, chars_str_of, forallb_hex_chars.
  destruct (Nat.leb 1 (List.length t)) eqn:L1, (Nat.leb (List.length t) 4) eqn:L4;
    [apply Nat.leb_le in L1, L4|apply Nat.leb_le in L1; apply Nat.leb_gt in L4
    |apply Nat.leb_gt in L1; apply Nat.leb_le in L4|apply Nat.leb_gt in L1, L4].
  - assert (A : (1 <=? Z.of_nat (List.length t)) = true) by lia.
    assert (B : (Z.of_nat (List.length t) <=? 4) = true) by lia. rewrite A, B. cbn [andb].
    destruct (forallb is_hex t); reflexivity.
  - assert (B : (Z.of_nat (List.length t) <=? 4) = false) by lia. rewrite B, andb_false_r. reflexivity.
  - assert (A : (1 <=? Z.of_nat (List.length t)) = false) by lia. rewrite A. reflexivity.
  - lia. Qed.

Lemma pack_H_word v : 0 <= v <= 65535 -> Fb.pack_H v = Ok v.
Proof. intros H. unfold Fb.pack_H. assert (E : (0 <=? v) && (v <=? 65535) = true) by lia. now rewrite E. Qed.

(* the fallback's three passes over a token list vs the standard one *)
Lemma fb_groups L :
  (forallb Fb.is_hextet (map str_of L) = true /\
   exists g, map_opt Std6.hextet L = Some g /\ Fb.map_out Fb.pack_hex (map str_of L) = Ok g /\
             Fb.map_out Fb.check_word (map str_of L) = Ok g /\ Fb.map_out Fb.pack_H g = Ok g) \/
  (forallb Fb.is_hextet (map str_of L) = false /\ map_opt Std6.hextet L = None).
Proof. induction L as [|t L IH].
  - left. split; [reflexivity|]. exists []. repeat split; reflexivity.
  - cbn [map forallb map_opt]. rewrite is_hextet_eq.
    destruct (Std6.hextet t) as [v|] eqn:E; cbn [is_some andb].
    + destruct (hextet_some t v E) as (_ & _ & P & R).
      destruct IH as [(F & g & G1 & G2 & G3 & G4)|(F & G)].
      * left. split; [exact F|]. exists (v :: g). rewrite G1. cbn [Fb.map_out].
        unfold Fb.pack_hex at 1, Fb.check_word at 1. rewrite P, pack_H_word by exact R.
        assert (B : (0 <=? v) && (v <=? 65535) = true) by lia. rewrite B. cbn [bind]. rewrite G2, G3, G4. cbn [bind].
        repeat split; reflexivity.
      * right. split; [exact F|]. now rewrite G.
    + right. split; reflexivity. Qed.

(* ---------------------------------------------------------------- pop_last / groups_tail *)
Lemma pop_last_map {A B} (f : A -> B) l :
  Fb.pop_last (map f l) = match Fb.pop_last l with Some (i, x) => Some (map f i, f x) | None => None end.
Proof. induction l as [|x l IH]; [reflexivity|]. destruct l as [|y l']; [reflexivity|].
  change (map f (x :: y :: l')) with (f x :: map f (y :: l')).
  change (Fb.pop_last (f x :: map f (y :: l'))) with
    (match Fb.pop_last (map f (y :: l')) with Some (i, z) => Some (f x :: i, z) | None => None end).
  rewrite IH. change (Fb.pop_last (x :: y :: l')) with
    (match Fb.pop_last (y :: l') with Some (i, z) => Some (x :: i, z) | None => None end).
  destruct (Fb.pop_last (y :: l')) as [[i z]|]; reflexivity. Qed.

Lemma pop_last_app {A} (l : list A) i x : Fb.pop_last l = Some (i, x) -> l = i ++ [x].
Proof. revert i x. induction l as [|y l IH]; intros i x; [discriminate|]. destruct l as [|z l'].
  - cbn. intros E. injection E as <- <-. reflexivity.
  - change (Fb.pop_last (y :: z :: l')) with
      (match Fb.pop_last (z :: l') with Some (i, w) => Some (y :: i, w) | None => None end).
    destruct (Fb.pop_last (z :: l')) as [[i' w]|] eqn:E; [|discriminate]. intros H. injection H as <- <-.
    rewrite (IH i' w eq_refl). reflexivity. Qed.

Lemma pop_last_none {A} (l : list A) : Fb.pop_last l = None -> l = [].
Proof. induction l as [|y l IH]; [reflexivity|]. destruct l as [|z l']; [discriminate|].
  change (Fb.pop_last (y :: z :: l')) with
      (match Fb.pop_last (z :: l') with Some (i, w) => Some (y :: i, w) | None => None end).
  destruct (Fb.pop_last (z :: l')) as [[i' w]|] eqn:E; [discriminate|]. specialize (IH eq_refl). discriminate. Qed.

Lemma pop_last_snoc {A} (i : list A) x : Fb.pop_last (i ++ [x]) = Some (i, x).
Proof. induction i as [|y i IH]; [reflexivity|]. cbn [app]. destruct (i ++ [x]) as [|z r] eqn:E; [destruct i; discriminate|].
  change (Fb.pop_last (y :: z :: r)) with
      (match Fb.pop_last (z :: r) with Some (i, w) => Some (y :: i, w) | None => None end). now rewrite IH. Qed.

Definition has_dot (t : list ascii) : bool := existsb (ascii_eqb ch_dot) t.

Definition quad_groups (t : list ascii) : option (list Z) :=
  match Std4.pton4_chars t with Some [a; b; c; d] => Some [a * 256 + b; c * 256 + d] | _ => None end.

Lemma map_opt_app {A B} (f : A -> option B) l1 l2 :
  map_opt f (l1 ++ l2) = match map_opt f l1, map_opt f l2 with Some a, Some b => Some (a ++ b) | _, _ => None end.
Proof. induction l1 as [|x l1 IH]; cbn [app map_opt].
  - destruct (map_opt f l2); reflexivity.
  - destruct (f x); [|reflexivity]. rewrite IH. destruct (map_opt f l1), (map_opt f l2); reflexivity. Qed.

Lemma groups_tail_cons2 t u r : Std6.groups_tail (t :: u :: r) =
  match Std6.hextet t, Std6.groups_tail (u :: r) with Some h, Some g => Some (h :: g) | _, _ => None end.
Proof. reflexivity. Qed.

Lemma groups_tail_snoc i x : Std6.groups_tail (i ++ [x]) =
  if has_dot x then match map_opt Std6.hextet i, quad_groups x with Some g, Some q => Some (g ++ q) | _, _ => None end
  else map_opt Std6.hextet (i ++ [x]).
Proof. induction i as [|t i IH].
  - cbn [app Std6.groups_tail map_opt]. unfold has_dot, quad_groups. destruct (existsb _ x).
    + destruct (Std4.pton4_chars x) as [[|a [|b [|c [|d [|e r]]]]]|]; reflexivity.
    + destruct (Std6.hextet x); reflexivity.
  - cbn [app]. destruct (i ++ [x]) as [|u r] eqn:E; [destruct i; discriminate|].
    rewrite groups_tail_cons2. rewrite IH. rewrite <- ?E. cbn [map_opt].
    destruct (Std6.hextet t); [|destruct (has_dot x); reflexivity].
    destruct (has_dot x).
    + destruct (map_opt Std6.hextet i), (quad_groups x); reflexivity.
    + destruct (map_opt Std6.hextet (i ++ [x])); reflexivity. Qed.

Lemma octet_range t v : Std4.octet t = Some v -> 0 <= v <= 255.
Proof. unfold Std4.octet. destruct t as [|c r]; [discriminate|].
  destruct (forallb is_dec (c :: r)) eqn:F; [|discriminate]. cbn [andb].
  destruct (_ && _); [|discriminate]. destruct (_ <=? 255) eqn:L; [|discriminate]. intros E. injection E as <-.
  split; [|lia]. destruct (py_int_dec_token (c :: r) ltac:(discriminate) F) as [_ N]. exact N. Qed.

Lemma pton4_chars_shape t o : Std4.pton4_chars t = Some o ->
  exists a b c d, o = [a; b; c; d] /\ octetP a /\ octetP b /\ octetP c /\ octetP d.
Proof. unfold Std4.pton4_chars. destruct (Nat.eqb _ 4) eqn:L; [|discriminate]. apply Nat.eqb_eq in L.
  destruct (split_chars ch_dot t []) as [|t1 [|t2 [|t3 [|t4 [|t5 r]]]]]; try discriminate L.
  cbn [map_opt]. destruct (Std4.octet t1) eqn:E1; [|discriminate]. destruct (Std4.octet t2) eqn:E2; [|discriminate].
  destruct (Std4.octet t3) eqn:E3; [|discriminate]. destruct (Std4.octet t4) eqn:E4; [|discriminate].
  intros E. injection E as <-. apply octet_range in E1, E2, E3, E4. unfold octetP. repeat eexists; lia. Qed.

Lemma fmt_x_T w : fmt_x w = str_of (T w).
Proof. unfold T. now rewrite str_of_chars. Qed.

(* tokens.pop() replaced by its two words, at the level of char lists *)
Lemma expand_quad_eq i x : Fb.expand_quad (map str_of i) (str_of x) =
  match quad_groups x with
  | Some [w1; w2] => Ok (map str_of (i ++ [T w1; T w2]))
  | _ => Raise ValueError
  end.
Proof. unfold Fb.expand_quad, quad_groups. rewrite fb_pton4_eq. unfold Std4.pton4. rewrite chars_str_of.
  destruct (Std4.pton4_chars x) as [o|] eqn:E; cbn [of_option bind]; [|reflexivity].
  destruct (pton4_chars_shape x o E) as (a & b & c & d & -> & _). rewrite map_app. cbn [map]. now rewrite !fmt_x_T. Qed.

Lemma quad_groups_words x q : quad_groups x = Some q -> exists w1 w2, q = [w1; w2] /\ word w1 /\ word w2.
Proof. unfold quad_groups. destruct (Std4.pton4_chars x) as [o|] eqn:E; [|discriminate].
  destruct (pton4_chars_shape x o E) as (a & b & c & d & -> & Ha & Hb & Hc & Hd). intros H. injection H as <-.
  unfold octetP, word in *. exists (a * 256 + b), (c * 256 + d). repeat split; lia. Qed.

Lemma hextets_TT i w1 w2 : word w1 -> word w2 ->
  map_opt Std6.hextet (i ++ [T w1; T w2]) =
  match map_opt Std6.hextet i with Some g => Some (g ++ [w1; w2]) | None => None end.
Proof. intros H1 H2. rewrite map_opt_app. cbn [map_opt]. rewrite !hextet_T by assumption.
  destruct (map_opt Std6.hextet i); reflexivity. Qed.

(* ---------------------------------------------------------------- characters of an accepted string *)
Definition addr_char (c : ascii) : bool := is_hex c || ascii_eqb c ch_colon || ascii_eqb c ch_dot.

Lemma pton4_badchar c l : is_dec c = false -> ascii_eqb c ch_dot = false -> In c l -> Std4.pton4_chars l = None.
Proof. intros Hc Hd H. unfold Std4.pton4_chars. destruct (Nat.eqb _ 4); [|reflexivity].
  pose proof (join_chars_split_chars ch_dot l []) as E. cbn [rev app] in E. rewrite <- E in H.
  apply In_join_chars in H. destruct H as [[H|[]]|(t & Ht & Hin)].
  - subst c. rewrite ascii_eqb_refl in Hd. discriminate.
  - apply (map_opt_none _ _ t Ht). unfold Std4.octet. destruct t as [|c0 r]; [reflexivity|].
    assert (F : forallb is_dec (c0 :: r) = false).
    { destruct (forallb is_dec (c0 :: r)) eqn:F; [|reflexivity]. rewrite forallb_forall in F. specialize (F _ Hin). congruence. }
    now rewrite F. Qed.

Lemma not_addr_char c : addr_char c = false -> is_hex c = false /\ is_dec c = false /\ ascii_eqb c ch_dot = false /\ ascii_eqb c ch_colon = false.
Proof. destruct c as [[] [] [] [] [] [] [] []]; vm_compute; intros H; try discriminate; auto. Qed.

Lemma hextet_badchar c t : is_hex c = false -> In c t -> Std6.hextet t = None.
Proof. intros Hc H. unfold Std6.hextet. assert (F : forallb is_hex t = false).
  { destruct (forallb is_hex t) eqn:F; [|reflexivity]. rewrite forallb_forall in F. specialize (F _ H). congruence. }
  rewrite F, andb_false_r. reflexivity. Qed.

Lemma map_opt_in {A B} (f : A -> option B) l g x : map_opt f l = Some g -> In x l -> f x <> None.
Proof. revert g. induction l as [|y l IH]; intros g; [intros _ []|]. cbn [map_opt].
  destruct (f y) eqn:E; [|discriminate]. destruct (map_opt f l) eqn:E2; [|discriminate]. intros _ [->|H]; [congruence|eauto]. Qed.

Lemma groups_tail_badchar c Q t : addr_char c = false -> In t Q -> In c t -> Std6.groups_tail Q = None.
Proof. intros Hc Ht Hin. destruct (not_addr_char c Hc) as (H1 & H2 & H3 & H4).
  destruct (Fb.pop_last Q) as [[i x]|] eqn:P.
  - apply pop_last_app in P. subst Q. rewrite groups_tail_snoc.
    apply in_app_or in Ht. destruct Ht as [Ht|[->|[]]].
    + assert (E : map_opt Std6.hextet i = None) by (apply (map_opt_none _ _ t Ht); eapply hextet_badchar; eauto).
      destruct (has_dot x); [now rewrite E|]. rewrite map_opt_app, E. reflexivity.
    + destruct (has_dot t).
      * unfold quad_groups. rewrite (pton4_badchar c t H2 H3 Hin). destruct (map_opt _ i); reflexivity.
      * rewrite map_opt_app. cbn [map_opt]. rewrite (hextet_badchar c t H1 Hin). destruct (map_opt _ i); reflexivity.
  - apply pop_last_none in P. subst Q. destruct Ht. Qed.

Lemma colon_toks_in c l : In c l -> ascii_eqb c ch_colon = false -> exists t, In t (colon_toks l) /\ In c t.
Proof. intros H Hc. unfold colon_toks. destruct l as [|a l']; [destruct H|]. cbn [is_nil].
  pose proof (join_chars_split_chars ch_colon (a :: l') []) as E. cbn [rev app] in E. rewrite <- E in H.
  apply In_join_chars in H. destruct H as [[H|[]]|H]; [|exact H]. subst c. rewrite ascii_eqb_refl in Hc. discriminate. Qed.

Lemma list_ind2 {A} (P : list A -> Prop) :
  P [] -> (forall a, P [a]) -> (forall a b l, P l -> P (b :: l) -> P (a :: b :: l)) -> forall l, P l.
Proof. intros H0 H1 H2 l. enough (P l /\ forall a, P (a :: l)) by tauto.
  induction l as [|b l [IH1 IH2]]; [split; auto|]. split; [apply IH2|]. intros a. apply H2; auto. Qed.

Lemma split_dc_nonempty l : forall cur, split_dc_chars l cur <> [].
Proof. induction l as [| a | a b l IH1 IH2] using list_ind2; intros cur; try discriminate.
  rewrite split_dc_cons2. destruct (_ && _); [discriminate|apply IH2]. Qed.

Lemma join_dc_split_dc l : forall cur, join_chars Std6.dcolon (split_dc_chars l cur) = rev cur ++ l.
Proof. induction l as [| a | c d r' IH1 IH2] using list_ind2; intros cur.
  - cbn. now rewrite app_nil_r.
  - cbn. reflexivity.
  - rewrite split_dc_cons2. destruct (is_colon c && is_colon d) eqn:E.
    + apply andb_true_iff in E. destruct E as [E1 E2]. apply ascii_eqb_eq in E1, E2. subst c d.
      destruct (split_dc_chars r' []) as [|x xs] eqn:S; [now apply split_dc_nonempty in S|].
      change (join_chars Std6.dcolon (rev cur :: x :: xs)) with (rev cur ++ Std6.dcolon ++ join_chars Std6.dcolon (x :: xs)).
      rewrite <- S, IH1. reflexivity.
    + rewrite IH2. cbn [rev]. now rewrite <- app_assoc. Qed.

Theorem pton6_badchar c l : addr_char c = false -> In c l -> Std6.pton6_chars l = None.
Proof. intros Hc H. destruct (not_addr_char c Hc) as (H1 & H2 & H3 & H4).
  unfold Std6.pton6_chars.
  pose proof (join_dc_split_dc l []) as E. cbn [rev app] in E. rewrite <- E in H.
  apply In_join_chars in H. destruct H as [H|(piece & Hp & Hin)].
  { exfalso. destruct H as [H|[H|[]]]; subst c; rewrite ascii_eqb_refl in H4; discriminate. }
  destruct (colon_toks_in c piece Hin H4) as (t & Ht & Hct).
  destruct (split_dc_chars l []) as [|p [|q [|z zs]]]; try reflexivity.
  - destruct Hp as [->|[]].
    assert (E2 : split_chars ch_colon piece [] = colon_toks piece).
    { unfold colon_toks. destruct piece; [destruct Hin|reflexivity]. }
    rewrite E2, (groups_tail_badchar c _ t Hc Ht Hct). reflexivity.
  - destruct Hp as [->|[->|[]]].
    + assert (E2 : map_opt Std6.hextet (colon_toks piece) = None)
        by (apply (map_opt_none _ _ t Ht); eapply hextet_badchar; eauto).
      now rewrite E2.
    + rewrite (groups_tail_badchar c _ t Hc Ht Hct). destruct (map_opt _ _); reflexivity. Qed.

(* ---------------------------------------------------------------- "::" present or not *)
Lemma no_dc_contains l : no_dc l = negb (contains_dc_chars l).
Proof. induction l as [|c r IH]; [reflexivity|]. destruct r as [|d r']; [reflexivity|].
  rewrite no_dc_cons2, contains_dc_cons2, IH. now rewrite negb_orb. Qed.

Lemma split_dc_len2 l : forall cur, contains_dc_chars l = true -> (2 <= List.length (split_dc_chars l cur))%nat.
Proof. induction l as [| a | c d r' IH1 IH2] using list_ind2; intros cur H; try discriminate.
  rewrite contains_dc_cons2 in H. rewrite split_dc_cons2. destruct (is_colon c && is_colon d).
  - cbn [List.length]. pose proof (split_dc_nonempty r' []). destruct (split_dc_chars r' []); [congruence|cbn; lia].
  - apply IH2. exact H. Qed.

(* ---------------------------------------------------------------- the two finishing phases *)
Lemma map_out_app {A B} (f : A -> outcome B) a b :
  Fb.map_out f (a ++ b) = do x <- Fb.map_out f a; do y <- Fb.map_out f b; Ok (x ++ y).
Proof. induction a as [|t a IH]; cbn [app Fb.map_out bind].
  - destruct (Fb.map_out f b); reflexivity.
  - destruct (f t); cbn [bind]; [|reflexivity]. rewrite IH.
    destruct (Fb.map_out f a); cbn [bind]; [|reflexivity]. destruct (Fb.map_out f b); reflexivity. Qed.

Lemma fb_finish_dc P S' :
  (if negb (Nat.leb (List.length (map str_of P) + List.length (map str_of S')) 7) then Raise ValueError
   else if negb (forallb Fb.is_hextet (map str_of P ++ map str_of S')) then Raise ValueError
   else
     do vp <- Fb.map_out Fb.pack_hex (map str_of P);
     do vs <- Fb.map_out Fb.pack_hex (map str_of S');
     do _chk <- Fb.map_out Fb.check_word (map str_of P ++ map str_of S');
     Ok (vp ++ Std6.zeros (8 - (List.length (map str_of P) + List.length (map str_of S'))) ++ vs)) =
  of_option (match map_opt Std6.hextet P, map_opt Std6.hextet S' with
             | Some gp, Some gq =>
                 if Nat.leb (List.length gp + List.length gq) 7
                 then Some (gp ++ Std6.zeros (8 - (List.length gp + List.length gq)) ++ gq) else None
             | _, _ => None
             end).
Proof. cbv zeta. rewrite !map_length. rewrite forallb_app, map_out_app.
  destruct (fb_groups P) as [(FP & gp & P1 & P2 & P3 & _)|(FP & P1)];
  destruct (fb_groups S') as [(FS & gs & S1 & S2 & S3 & _)|(FS & S1)]; rewrite FP, FS, P1, ?S1; cbn [andb negb].
  - rewrite (map_opt_length _ _ _ P1), (map_opt_length _ _ _ S1).
    destruct (Nat.leb _ 7); cbn [negb]; [|reflexivity]. rewrite P2, S2, P3, S3. reflexivity.
  - destruct (Nat.leb _ 7); reflexivity.
  - destruct (Nat.leb _ 7); reflexivity.
  - destruct (Nat.leb _ 7); reflexivity. Qed.

Lemma fb_finish_plain W :
  (if negb (forallb Fb.is_hextet (map str_of W)) then Raise ValueError
   else do words <- Fb.map_out Fb.check_word (map str_of W); Fb.map_out Fb.pack_H words) =
  of_option (map_opt Std6.hextet W).
Proof. destruct (fb_groups W) as [(F & g & G1 & _ & G3 & G4)|(F & G1)]; rewrite F, G1; cbn [negb]; [|reflexivity].
  rewrite G3. cbn [bind]. rewrite G4. reflexivity. Qed.

Lemma lp_eq p : (if Fb.str_nonempty (str_of p) then split ":" (str_of p) else []) = map str_of (colon_toks p).
Proof. unfold Fb.str_nonempty, colon_toks, split. rewrite chars_str_of. destruct p; reflexivity. Qed.

Lemma In_join_chars_conv c sep toks t : In t toks -> In c t -> In c (join_chars sep toks).
Proof. induction toks as [|u r IH]; [intros []|]. intros [->|H] Hc.
  - destruct r; [exact Hc|]. change (join_chars sep (t :: l :: r)) with (t ++ sep ++ join_chars sep (l :: r)).
    apply in_or_app. now left.
  - destruct r as [|v r']; [destruct H|]. change (join_chars sep (u :: v :: r')) with (u ++ sep ++ join_chars sep (v :: r')).
    apply in_or_app. right. apply in_or_app. right. now apply IH. Qed.

Lemma token_chars c sep l t : In t (split_chars sep l []) -> In c t -> In c l.
Proof. intros Ht Hc. pose proof (join_chars_split_chars sep l []) as E. cbn [rev app] in E. rewrite <- E.
  eapply In_join_chars_conv; eauto. Qed.

Lemma has_dot_in t : has_dot t = true <-> In ch_dot t.
Proof. unfold has_dot. rewrite existsb_exists. split.
  - intros (x & Hx & E). apply ascii_eqb_eq in E. now subst.
  - intros H. exists ch_dot. split; [exact H|apply ascii_eqb_refl]. Qed.

Lemma pton4_no_dot t : has_dot t = false -> Std4.pton4_chars t = None.
Proof. intros H. unfold Std4.pton4_chars. rewrite split_chars_last by exact H. reflexivity. Qed.

Lemma eqb_dc s : String.eqb s "::" = false -> chars s <> [ch_colon; ch_colon].
Proof. intros E H. apply String.eqb_neq in E. apply E. apply chars_inj. exact H. Qed.

(* ---------------------------------------------------------------- the theorem *)
Theorem fb_pton6_eq s : Fb.inet_pton6 s = of_option (Std6.pton6 s).
Proof. unfold Fb.inet_pton6, Std6.pton6.
  destruct (contains_char ch_x s) eqn:X.
  { apply contains_char_true_iff in X. rewrite (pton6_badchar ch_x (chars s) eq_refl X). reflexivity. }
  destruct (contains_dc_chars (chars s)) eqn:DC.
  - destruct (String.eqb s "::") eqn:E.
    { apply String.eqb_eq in E. subst s. reflexivity. }
    unfold Std6.pton6_chars. pose proof (split_dc_len2 (chars s) [] DC) as L2.
    destruct (split_dc_chars (chars s) []) as [|p [|q [|z zs]]] eqn:S; cbn [map]; try (cbn in L2; lia); [|reflexivity].
    rewrite !lp_eq. rewrite pop_last_map.
    destruct (Fb.pop_last (colon_toks q)) as [[i x]|] eqn:PL.
    + apply pop_last_app in PL. unfold contains_char. rewrite chars_str_of. fold (has_dot x).
      rewrite PL, groups_tail_snoc. destruct (has_dot x) eqn:HD.
      * rewrite expand_quad_eq. destruct (quad_groups x) as [qg|] eqn:QG.
        -- destruct (quad_groups_words x qg QG) as (w1 & w2 & -> & W1 & W2). cbn [bind].
           rewrite fb_finish_dc. rewrite hextets_TT by assumption.
           destruct (map_opt Std6.hextet (colon_toks p)), (map_opt Std6.hextet i); reflexivity.
        -- cbn [bind]. destruct (map_opt Std6.hextet (colon_toks p)), (map_opt Std6.hextet i); reflexivity.
      * cbn [bind]. rewrite fb_finish_dc. reflexivity.
    + apply pop_last_none in PL. rewrite PL. cbn [bind map]. 
      change (@nil string) with (map str_of []). rewrite fb_finish_dc. reflexivity.
  - assert (ND : no_dc (chars s) = true) by (rewrite no_dc_contains, DC; reflexivity).
    unfold Std6.pton6_chars. rewrite (split_dc_no_dc _ [] ND). cbn [rev app].
    destruct (contains_char ch_colon s) eqn:C.
    + unfold split. change ":"%char with ch_colon. set (W := split_chars ch_colon (chars s) []).
      destruct (contains_char ch_dot s) eqn:DOT.
      * rewrite map_length. rewrite pop_last_map.
        destruct (Fb.pop_last W) as [[i x]|] eqn:PL.
        -- apply pop_last_app in PL. rewrite PL, groups_tail_snoc. rewrite app_length. cbn [List.length].
           destruct (has_dot x) eqn:HD.
           ++ destruct (Nat.eqb (List.length i + 1) 7) eqn:L7; cbn [negb].
              ** apply Nat.eqb_eq in L7. rewrite expand_quad_eq. destruct (quad_groups x) as [qg|] eqn:QG.
                 --- destruct (quad_groups_words x qg QG) as (w1 & w2 & -> & W1 & W2). cbn [bind].
                     rewrite fb_finish_plain. rewrite hextets_TT by assumption.
                     destruct (map_opt Std6.hextet i) as [g|] eqn:G; [|reflexivity].
                     rewrite app_length, (map_opt_length _ _ _ G). cbn [List.length].
                     replace (List.length i + 2)%nat with 8%nat by lia. reflexivity.
                 --- cbn [bind]. destruct (map_opt Std6.hextet i); reflexivity.
              ** apply Nat.eqb_neq in L7. destruct (map_opt Std6.hextet i) as [g|] eqn:G; [|reflexivity].
                 destruct (quad_groups x) as [qg|] eqn:QG; [|reflexivity].
                 destruct (quad_groups_words x qg QG) as (w1 & w2 & -> & _).
                 rewrite app_length, (map_opt_length _ _ _ G). cbn [List.length].
                 destruct (Nat.eqb (List.length i + 2) 8) eqn:L8; [apply Nat.eqb_eq in L8; lia|reflexivity].
           ++ (* a '.' somewhere, but not in the last token *)
              assert (NG : map_opt Std6.hextet (i ++ [x]) = None).
              { apply contains_char_true_iff in DOT.
                assert (Hd : ascii_eqb ch_dot ch_colon = false) by reflexivity.
                pose proof (join_chars_split_chars ch_colon (chars s) []) as E. cbn [rev app] in E. rewrite <- E in DOT.
                apply In_join_chars in DOT. destruct DOT as [[D|[]]|(t & Ht & Hc)]; [discriminate D|].
                fold W in Ht. apply (map_opt_none _ _ t); [now rewrite <- PL|].
                apply (hextet_badchar ch_dot); [reflexivity|exact Hc]. }
              rewrite NG.
              destruct (Nat.eqb (List.length i + 1) 7); cbn [negb]; [|reflexivity].
              unfold Fb.expand_quad. rewrite fb_pton4_eq. unfold Std4.pton4. rewrite chars_str_of, pton4_no_dot by exact HD.
              reflexivity.
        -- apply pop_last_none in PL. exfalso. revert PL. apply split_chars_nonempty.
      * rewrite map_length.
        assert (GT : Std6.groups_tail W = map_opt Std6.hextet W).
        { destruct (Fb.pop_last W) as [[i x]|] eqn:PL.
          - apply pop_last_app in PL. rewrite PL, groups_tail_snoc.
            assert (HD : has_dot x = false).
            { destruct (has_dot x) eqn:HD; [|reflexivity]. apply has_dot_in in HD.
              apply contains_char_false_iff in DOT. exfalso. apply DOT.
              apply (token_chars ch_dot ch_colon (chars s) x); [fold W; rewrite PL; apply in_or_app; right; now left|exact HD]. }
            now rewrite HD.
          - apply pop_last_none in PL. exfalso. revert PL. apply split_chars_nonempty. }
        rewrite GT.
        destruct (Nat.eqb (List.length W) 8) eqn:L8; cbn [negb bind].
        -- rewrite fb_finish_plain. destruct (map_opt Std6.hextet W) as [g|] eqn:G; [|reflexivity].
           rewrite (map_opt_length _ _ _ G), L8. reflexivity.
        -- destruct (map_opt Std6.hextet W) as [g|] eqn:G; [|reflexivity].
           rewrite (map_opt_length _ _ _ G), L8. reflexivity.
    + (* no ':' at all *)
      rewrite split_chars_last by exact C. cbn [rev app Std6.groups_tail].
      destruct (existsb (ascii_eqb ch_dot) (chars s)).
      * destruct (Std4.pton4_chars (chars s)) as [[|a [|b [|c [|d [|e r]]]]]|]; reflexivity.
      * destruct (Std6.hextet (chars s)); reflexivity. Qed.
