(* Proofs/C01_Aton.v — default mode reads every BSD inet_aton shorthand (1-4 parts, decimal / 0x hex / leading-0
   octal) with its conventional value. *)
From Coq Require Import String Ascii.
From NV Require Import Base.Tac Base.PyVal Base.Bits Base.PyStr Base.PyStrFacts Model.IpText Model.FbSocket Model.AddrText
  Proofs.C01_Chars Proofs.C01_V6 Proofs.C01_Value Proofs.C01_V4.
Open Scope Z_scope.

Definition is_oct (c : ascii) : bool := is_some (oct_digit c).

(* the three C spellings of a non-negative number *)
Inductive spelling (t : list ascii) (x : Z) : Prop :=
| sp_dec : 0 <= x -> t = D x -> spelling t x
| sp_hex p h : p = ch_x \/ p = ch_X -> h <> [] -> forallb is_hex h = true ->
    x = digits_value hex_digit 16 h -> t = ch_0 :: p :: h -> spelling t x
| sp_oct o : forallb is_oct o = true -> x = digits_value oct_digit 8 o -> t = ch_0 :: o -> spelling t x.

Lemma digits_value_nonneg tab base l : 0 <= base -> (forall c d, tab c = Some d -> 0 <= d) -> 0 <= digits_value tab base l.
Proof. intros Hb Ht. unfold digits_value. enough (forall acc, 0 <= acc -> 0 <= fold_left
  (fun a c => a * base + match tab c with Some d => d | None => 0 end) l acc) by (apply H; lia).
  induction l as [|c l IH]; intros acc Ha; [exact Ha|]. cbn [fold_left]. apply IH.
  destruct (tab c) eqn:E; [apply Ht in E|]; nia. Qed.

Lemma hex_digit_nonneg c d : hex_digit c = Some d -> 0 <= d.
Proof. rewrite hex_digit_digit_in. intros H. apply digit_in_range in H. lia. Qed.
Lemma oct_digit_nonneg c d : oct_digit c = Some d -> 0 <= d.
Proof. rewrite oct_digit_digit_in. intros H. apply digit_in_range in H. lia. Qed.

Lemma forall_tab_some (tab : ascii -> option Z) l : forallb (fun c => is_some (tab c)) l = true -> Forall (fun c => tab c <> None) l.
Proof. intros H. rewrite forallb_forall in H. apply Forall_forall. intros c Hc. specialize (H c Hc).
  destruct (tab c); [discriminate|discriminate]. Qed.

Lemma oct_is_dec c : is_oct c = true -> is_dec c = true /\ ascii_eqb c ch_x = false /\ ascii_eqb c ch_X = false.
Proof. destruct c as [[] [] [] [] [] [] [] []]; vm_compute; intros H; try discriminate; auto. Qed.

Lemma spelling_part_ok t x : spelling t x -> part_ok t x.
Proof. intros [Hx -> | p h Hp Hne F -> -> | o F -> ->].
  - now apply part_ok_dec.
  - split; [exists ch_0, (p :: h); split; reflexivity|]. split; [apply digits_value_nonneg; [lia|apply hex_digit_nonneg]|].
    intros r Hr. pose proof (stop_no_digit r Hr) as N. destruct h as [|c h']; [congruence|].
    cbn [app]. unfold Std4.strtoul0.
    assert (Ec : is_hex c = true) by (cbn [forallb] in F; now apply andb_true_iff in F).
    assert (Ep : ascii_eqb p ch_x || ascii_eqb p ch_X = true) by (destruct Hp as [-> | ->]; reflexivity).
    change (ascii_eqb ch_0 ch_0) with true. rewrite Ep, Ec. cbn [andb].
    change (c :: h' ++ r) with ((c :: h') ++ r). rewrite scan_base_digits; [reflexivity|now apply forall_tab_some|].
    destruct r; [exact I|tauto].
  - split; [exists ch_0, o; split; reflexivity|]. split; [apply digits_value_nonneg; [lia|apply oct_digit_nonneg]|].
    intros r Hr. pose proof (stop_no_digit r Hr) as N. cbn [app].
    rewrite strtoul0_oct.
    + change (ch_0 :: o ++ r) with ((ch_0 :: o) ++ r). rewrite scan_base_digits.
      * reflexivity.
      * constructor; [discriminate|]. now apply forall_tab_some.
      * destruct r; [exact I|tauto].
    + destruct o as [|c o'].
      * cbn [app]. destruct r; [exact I|tauto].
      * cbn [app]. cbn [forallb] in F. apply andb_true_iff in F. destruct F as [Fc _]. apply oct_is_dec in Fc. tauto. Qed.

Definition lead_ok (p : list ascii * Z) : Prop := spelling (fst p) (snd p) /\ snd p <= 255.

Lemma aton_loop_parts pre : forall parts k t x, Forall lead_ok pre -> (List.length parts + List.length pre <= 3)%nat ->
  spelling t x -> x <= Std4.last_max (List.length parts + List.length pre) ->
  Std4.aton_loop (List.length pre + 1 + k) (concat (map (fun p => fst p ++ [ch_dot]) pre) ++ t) parts =
  Some (parts ++ map snd pre, x).
Proof. induction pre as [|[u y] pre IH]; intros parts k t x HF HL Ht Hx.
  - cbn [concat map app List.length Nat.add]. rewrite <- (app_nil_r t). rewrite (aton_last k t x parts []); [now rewrite app_nil_r|now apply spelling_part_ok|exact I|].
    now rewrite Nat.add_0_r in Hx.
  - inversion HF as [|? ? [Hu Hy] HF']; subst. cbn [fst snd] in *. cbn [concat map List.length].
    rewrite <- !app_assoc. cbn [app]. change (S (List.length pre) + 1 + k)%nat with (S (List.length pre + 1 + k)).
    rewrite (aton_step _ u y); [|now apply spelling_part_ok|cbn [List.length] in HL; lia|exact Hy].
    rewrite (IH (parts ++ [y]) k t x); [|exact HF'|rewrite app_length; cbn [List.length] in *; lia|exact Ht|].
    + rewrite <- app_assoc. reflexivity.
    + rewrite app_length. cbn [List.length] in *. replace (List.length parts + 1 + List.length pre)%nat
        with (List.length parts + S (List.length pre))%nat by lia. exact Hx. Qed.

Definition spelled_text (pre : list (list ascii * Z)) (t : list ascii) : list ascii :=
  concat (map (fun p => fst p ++ [ch_dot]) pre) ++ t.

Lemma spelling_chars t x : spelling t x -> Forall (fun c => is_hex c = true \/ c = ch_x \/ c = ch_X) t.
Proof. intros [Hx -> | p h Hp Hne F -> -> | o F -> ->].
  - pose proof (fmt_d_digits x Hx) as G. apply Forall_forall. intros c Hc.
    unfold all_digits in G. rewrite Forall_forall in G. specialize (G c Hc). left.
    apply is_hex_digit_of. destruct G as [d G]. exists d. eapply digit_in_mono; [|exact G]. lia.
  - constructor; [left; reflexivity|]. constructor; [right; exact Hp|]. rewrite forallb_forall in F.
    apply Forall_forall. intros c Hc. left. now apply F.
  - constructor; [left; reflexivity|]. rewrite forallb_forall in F. apply Forall_forall. intros c Hc. left.
    specialize (F c Hc). revert F. clear. destruct c as [[] [] [] [] [] [] [] []]; vm_compute; intros; try discriminate; reflexivity. Qed.

Definition shorthand_char (c : ascii) : Prop := is_hex c = true \/ c = ch_x \/ c = ch_X \/ c = ch_dot.

Lemma spelled_text_chars pre t x : Forall lead_ok pre -> spelling t x -> Forall shorthand_char (spelled_text pre t).
Proof. intros HF Ht. unfold spelled_text. apply Forall_app. split.
  - induction HF as [|[u y] pre [Hu _] _ IH]; [constructor|]. cbn [map concat fst]. rewrite <- app_assoc.
    apply Forall_app. split; [|cbn [app]; constructor; [right; right; right; reflexivity|exact IH]].
    eapply Forall_impl; [|apply (spelling_chars u y Hu)]. unfold shorthand_char. tauto.
  - eapply Forall_impl; [|apply (spelling_chars t x Ht)]. unfold shorthand_char. tauto. Qed.

Lemma shorthand_char_not c : shorthand_char c -> ascii_eqb ch_nul c = false /\ ascii_eqb "/" c = false.
Proof. intros [H|[-> |[-> | ->]]]; [|split; reflexivity..].
  revert H. destruct c as [[] [] [] [] [] [] [] []]; vm_compute; intros; try discriminate; auto. Qed.

Lemma existsb_none (f : ascii -> bool) l : Forall (fun c => f c = false) l -> existsb f l = false.
Proof. induction 1 as [|c l Hc _ IH]; [reflexivity|]. cbn [existsb]. now rewrite Hc, IH. Qed.

(* inet_aton on 1-4 spelled parts *)
Theorem aton_shorthand pre t x : Forall lead_ok pre -> (List.length pre <= 3)%nat -> spelling t x ->
  x <= Std4.last_max (List.length pre) ->
  Std4.aton_chars (spelled_text pre t) = Some (Std4.parts_value (map snd pre) 24 + x).
Proof. intros HF HL Ht Hx. unfold Std4.aton_chars.
  rewrite existsb_none.
  2:{ eapply Forall_impl; [|apply (spelled_text_chars pre t x HF Ht)]. intros c Hc. now apply shorthand_char_not. }
  unfold spelled_text.
  replace 4%nat with (List.length pre + 1 + (3 - List.length pre))%nat by lia.
  rewrite (aton_loop_parts pre [] _ t x) by (cbn [List.length]; auto). reflexivity. Qed.

(* IPAddress(text) / IPAddress(text, 4) in default mode, either back-end *)
Theorem init_shorthand be pre t x version : Forall lead_ok pre -> (List.length pre <= 3)%nat -> spelling t x ->
  x <= Std4.last_max (List.length pre) -> version = None \/ version = Some 4 ->
  init_str be (str_of (spelled_text pre t)) version 0 = Ok (4, Std4.parts_value (map snd pre) 24 + x).
Proof. intros HF HL Ht Hx Hver.
  assert (NS : contains_char "/" (str_of (spelled_text pre t)) = false).
  { unfold contains_char. rewrite chars_str_of. apply existsb_none.
    eapply Forall_impl; [|apply (spelled_text_chars pre t x HF Ht)]. intros c Hc. now apply shorthand_char_not. }
  assert (P : v4_str_to_int be (str_of (spelled_text pre t)) 0 = Ok (Std4.parts_value (map snd pre) 24 + x)).
  { unfold v4_str_to_int, v4_parse. change (has_flag 0 ZEROFILL) with false. change (has_flag 0 INET_PTON) with false.
    cbn [bind]. unfold Std4.aton. rewrite chars_str_of, (aton_shorthand pre t x) by assumption. reflexivity. }
  unfold init_str. destruct Hver as [-> | ->]; change (4 =? 4) with true; cbn [bind]; rewrite NS; unfold str_to_int;
    change (4 =? 4) with true; cbn iota; rewrite P; reflexivity. Qed.

(* the conventional values, spelled out for the four shapes *)
Lemma parts_value_3 a b c : Std4.parts_value [a; b; c] 24 = a * 16777216 + b * 65536 + c * 256.
Proof. cbn [Std4.parts_value]. change (2 ^ 24) with 16777216. change (2 ^ (24 - 8)) with 65536.
  change (2 ^ (24 - 8 - 8)) with 256. lia. Qed.
Lemma parts_value_2 a b : Std4.parts_value [a; b] 24 = a * 16777216 + b * 65536.
Proof. cbn [Std4.parts_value]. change (2 ^ 24) with 16777216. change (2 ^ (24 - 8)) with 65536. lia. Qed.
Lemma parts_value_1 a : Std4.parts_value [a] 24 = a * 16777216.
Proof. cbn [Std4.parts_value]. change (2 ^ 24) with 16777216. lia. Qed.
