(* Proofs/C13.v — spanning_cidr returns the smallest aligned block containing [lowest first, highest last]. *)
From NV Require Import Base.Tac Base.PyVal Base.Bits Model.Ip Model.Span Proofs.C02.
From Coq Require Import Permutation.
Open Scope Z_scope.

(* ------------------------------------------------------------------ floor2 at two granularities *)

Lemma floor2_le_coarse v a b : 0 <= a <= b -> floor2 v b <= floor2 v a.
Proof.
  intros Hab.
  pose proof (floor2_bounds v a ltac:(lia)) as Ba. pose proof (floor2_bounds v b ltac:(lia)) as Bb.
  destruct (floor2_divide v a ltac:(lia)) as [m Hm].
  destruct (floor2_divide v b ltac:(lia)) as [n Hn].
  destruct (pow2_divide a b Hab) as [k Hk].
  pose proof (pow2_pos a ltac:(lia)) as Pa. pose proof (pow2_pos b ltac:(lia)) as Pb.
  set (A := 2 ^ a) in *. set (B := 2 ^ b) in *. clearbody A B.
  rewrite Hm, Hn in *. subst B.
  assert (n * k < m + 1) by nia. nia.
Qed.

Lemma floor2_floor2 v a b : 0 <= a <= b -> floor2 (floor2 v a) b = floor2 v b.
Proof.
  intros Hab. symmetry. apply floor2_unique; [lia|apply floor2_divide; lia|].
  pose proof (floor2_le_coarse v a b Hab).
  pose proof (floor2_bounds v a ltac:(lia)). pose proof (floor2_bounds v b ltac:(lia)). lia.
Qed.

Lemma floor2_full v w : 0 <= w -> 0 <= v < 2 ^ w -> floor2 v w = 0.
Proof. intros Hw Hv. unfold floor2. rewrite Z.mod_small by lia. lia. Qed.

Lemma floor2_zero v : floor2 v 0 = v.
Proof. unfold floor2. rewrite Z.pow_0_r, Z.mod_1_r. lia. Qed.

(* ------------------------------------------------------------------ the widening loop *)

(* what the loop establishes: (r, q) is the block of the highest address at the longest prefix that reaches
   down to the lowest one *)
Definition span_post (w lo hi r q : Z) : Prop :=
  0 <= q <= w /\ r = floor2 hi (w - q) /\ r <= lo /\
  forall q', q < q' <= w -> lo < floor2 hi (w - q').

Lemma span_loop_spec (fuel : nat) : forall w lo hi ipnum p,
  0 <= lo <= hi -> hi < 2 ^ w -> 0 <= p <= w -> p < Z.of_nat fuel ->
  ipnum = floor2 hi (w - p) ->
  (forall q', p < q' <= w -> lo < floor2 hi (w - q')) ->
  exists r q, span_loop fuel w lo ipnum p = Ok (r, q) /\ span_post w lo hi r q.
Proof.
  induction fuel as [|f IH]; intros w lo hi ipnum p Hlo Hhi Hp Hf Hip Hinv; [lia|].
  cbn [span_loop].
  destruct ((p >? 0) && (ipnum >? lo)) eqn:C.
  - apply andb_true_iff in C. destruct C as [C1 C2].
    apply Z.gtb_lt in C1. apply Z.gtb_lt in C2. cbn zeta.
    apply IH; try lia.
    + rewrite shiftl1 by lia. rewrite land_neg_pow2 by lia. subst ipnum.
      apply floor2_floor2. lia.
    + intros q' Hq'. destruct (Z.eq_dec q' p) as [->|Hne]; [|apply Hinv; lia].
      rewrite <- Hip. lia.
  - exists ipnum, p. split; [reflexivity|]. unfold span_post. repeat split; try lia; try assumption.
    apply andb_false_iff in C. destruct C as [C|C].
    + assert (p = 0) by (destruct (Z.gtb_spec p 0); [discriminate|lia]). subst p.
      rewrite Z.sub_0_r in Hip. rewrite floor2_full in Hip by lia. lia.
    + destruct (Z.gtb_spec ipnum lo); [discriminate|lia].
Qed.

Lemma span_loop_from_top w lo hi : 0 <= w -> 0 <= lo <= hi -> hi < 2 ^ w ->
  exists r q, span_loop (Z.to_nat w + 1) w lo hi w = Ok (r, q) /\ span_post w lo hi r q.
Proof.
  intros Hw Hlo Hhi. apply span_loop_spec; try lia.
  - rewrite Z.sub_diag, floor2_zero. reflexivity.
Qed.

(* ------------------------------------------------------------------ consequences of span_post *)

Lemma span_post_covers w lo hi r q : lo <= hi -> span_post w lo hi r q ->
  r mod 2 ^ (w - q) = 0 /\ r <= lo /\ hi <= r + 2 ^ (w - q) - 1.
Proof.
  intros Hlh (Hq & -> & Hr & _). split; [|split]; [|assumption|].
  - apply Z.mod_divide; [pose proof (pow2_pos (w - q) ltac:(lia)); lia|]. apply floor2_divide. lia.
  - pose proof (floor2_bounds hi (w - q) ltac:(lia)). lia.
Qed.

(* every aligned block (r', q') that contains [lo, hi] has a prefix no longer than q and contains (r, q) *)
Lemma span_post_minimal w lo hi r q : lo <= hi -> span_post w lo hi r q ->
  forall r' q', 0 <= q' <= w -> r' mod 2 ^ (w - q') = 0 -> r' <= lo -> hi <= r' + 2 ^ (w - q') - 1 ->
  q' <= q /\ r' <= r /\ r + 2 ^ (w - q) - 1 <= r' + 2 ^ (w - q') - 1.
Proof.
  intros Hlh (Hq & Hr & Hrlo & Hmin) r' q' Hq' Hal Hlo' Hhi'.
  pose proof (pow2_pos (w - q') ltac:(lia)) as PT'.
  assert (D': (2 ^ (w - q') | r')) by (apply Z.mod_divide; lia).
  assert (E': r' = floor2 hi (w - q')) by (apply floor2_unique; [lia|assumption|lia]).
  assert (Hle: q' <= q).
  { destruct (Z.le_gt_cases q' q) as [|G]; [assumption|]. specialize (Hmin q' ltac:(lia)). lia. }
  split; [assumption|].
  assert (L: r' <= r) by (subst r r'; apply floor2_le_coarse; lia).
  split; [assumption|].
  (* r is a multiple of T = 2^(w-q), T | T' = 2^(w-q'), T' | r', r' <= r < r' + T' *)
  pose proof (pow2_pos (w - q) ltac:(lia)) as PT.
  pose proof (floor2_bounds hi (w - q) ltac:(lia)) as Bq. rewrite <- Hr in Bq.
  destruct (floor2_divide hi (w - q) ltac:(lia)) as [n Hn]. rewrite <- Hr in Hn.
  destruct D' as [m Hm].
  destruct (pow2_divide (w - q) (w - q') ltac:(lia)) as [k Hk].
  set (T := 2 ^ (w - q)) in *. set (T' := 2 ^ (w - q')) in *. clearbody T T'.
  subst T' r r'.
  assert (n < m * k + k) by nia. nia.
Qed.

(* two blocks that both satisfy the specification are equal *)
Lemma span_post_unique w lo hi r1 q1 r2 q2 : lo <= hi ->
  span_post w lo hi r1 q1 -> span_post w lo hi r2 q2 -> r1 = r2 /\ q1 = q2.
Proof.
  intros Hlh P1 P2.
  destruct (span_post_covers _ _ _ _ _ Hlh P1) as (A1 & B1 & C1).
  destruct (span_post_covers _ _ _ _ _ Hlh P2) as (A2 & B2 & C2).
  destruct P1 as (Hq1 & E1 & P1). destruct P2 as (Hq2 & E2 & P2).
  assert (q1 = q2).
  { destruct (Z.lt_trichotomy q1 q2) as [L|[E|G]]; [|assumption|].
    - destruct P1 as [_ M]. specialize (M q2 ltac:(lia)). lia.
    - destruct P2 as [_ M]. specialize (M q1 ltac:(lia)). lia. }
  subst q2. split; [congruence|reflexivity].
Qed.

(* ------------------------------------------------------------------ the running minimum / maximum *)

Lemma span_fold wd ver rest : forall mx lo hi,
  fold_left (span_step wd ver) rest (mx, lo, hi) =
  (mx || existsb (fun n => negb (nver n =? ver)) rest,
   fold_left Z.min (map (nfirst wd) rest) lo,
   fold_left Z.max (map (nlast wd) rest) hi).
Proof.
  induction rest as [|n t IH]; intros mx lo hi; cbn [fold_left map existsb].
  - rewrite orb_false_r. reflexivity.
  - unfold span_step at 2. rewrite IH. f_equal; [f_equal|].
    + destruct (negb (nver n =? ver)); cbn; [rewrite orb_true_r|]; reflexivity.
    + f_equal. case_ltb (nfirst wd n) lo; lia.
    + f_equal. destruct (Z.gtb_spec (nlast wd n) hi); lia.
Qed.

Lemma fold_min_spec l : forall x0, let m := fold_left Z.min l x0 in
  (m = x0 \/ In m l) /\ m <= x0 /\ forall x, In x l -> m <= x.
Proof.
  induction l as [|a t IH]; intros x0; cbn [fold_left].
  - cbn. split; [left; reflexivity|]. split; [lia|]. intros x [].
  - specialize (IH (Z.min x0 a)). cbn zeta in *. destruct IH as (I1 & I2 & I3).
    split; [|split].
    + destruct I1 as [E|I]; [|right; right; assumption].
      destruct (Z.min_spec x0 a) as [[_ M]|[_ M]]; rewrite M in E; [left|right; left]; congruence.
    + lia.
    + intros x [<-|I]; [lia|apply I3; assumption].
Qed.

Lemma fold_max_spec l : forall x0, let m := fold_left Z.max l x0 in
  (m = x0 \/ In m l) /\ x0 <= m /\ forall x, In x l -> x <= m.
Proof.
  induction l as [|a t IH]; intros x0; cbn [fold_left].
  - cbn. split; [left; reflexivity|]. split; [lia|]. intros x [].
  - specialize (IH (Z.max x0 a)). cbn zeta in *. destruct IH as (I1 & I2 & I3).
    split; [|split].
    + destruct I1 as [E|I]; [|right; right; assumption].
      destruct (Z.max_spec x0 a) as [[_ M]|[_ M]]; rewrite M in E; [right; left|left]; congruence.
    + lia.
    + intros x [<-|I]; [lia|apply I3; assumption].
Qed.

(* ------------------------------------------------------------------ specification vocabulary *)

(* all inputs are well-formed networks of family `ver`, whose width is w = wd ver *)
Definition wf_inputs (wd : Z -> Z) (ver : Z) (l : list net) : Prop :=
  0 <= wd ver /\
  forall n, In n l -> nver n = ver /\ 0 <= nval n < 2 ^ wd ver /\ 0 <= nplen n <= wd ver.

(* m is the lowest first address / the highest last address of the inputs *)
Definition lowest_first (wd : Z -> Z) (l : list net) (m : Z) : Prop :=
  (exists n, In n l /\ nfirst wd n = m) /\ forall n, In n l -> m <= nfirst wd n.
Definition highest_last (wd : Z -> Z) (l : list net) (m : Z) : Prop :=
  (exists n, In n l /\ nlast wd n = m) /\ forall n, In n l -> nlast wd n <= m.

Lemma lowest_first_unique wd l m m' : lowest_first wd l m -> lowest_first wd l m' -> m = m'.
Proof.
  intros [(n & I & E) L] [(n' & I' & E') L']. specialize (L n' I'). specialize (L' n I). lia.
Qed.

Lemma highest_last_unique wd l m m' : highest_last wd l m -> highest_last wd l m' -> m = m'.
Proof.
  intros [(n & I & E) L] [(n' & I' & E') L']. specialize (L n' I'). specialize (L' n I). lia.
Qed.

Lemma lowest_first_ext wd l l' m : (forall n, In n l <-> In n l') -> lowest_first wd l m -> lowest_first wd l' m.
Proof.
  intros H [(n & I & E) L]. split; [exists n; split; [apply H; assumption|assumption]|].
  intros n' I'. apply L, H, I'.
Qed.

Lemma highest_last_ext wd l l' m : (forall n, In n l <-> In n l') -> highest_last wd l m -> highest_last wd l' m.
Proof.
  intros H [(n & I & E) L]. split; [exists n; split; [apply H; assumption|assumption]|].
  intros n' I'. apply L, H, I'.
Qed.

Lemma wf_first_last wd ver l n : wf_inputs wd ver l -> In n l ->
  nfirst wd n = floor2 (nval n) (wd ver - nplen n) /\
  nlast wd n = floor2 (nval n) (wd ver - nplen n) + 2 ^ (wd ver - nplen n) - 1 /\
  0 <= nfirst wd n /\ nfirst wd n <= nlast wd n /\ nlast wd n < 2 ^ wd ver.
Proof.
  intros [Hw H] I. destruct (H n I) as (Hv & Hval & Hp). unfold nfirst, nlast. rewrite Hv.
  rewrite net_first_eq, net_last_eq by lia.
  pose proof (first_last_in_range (wd ver) (nval n) (nplen n) Hp Hval).
  pose proof (pow2_pos (wd ver - nplen n) ltac:(lia)). repeat split; lia.
Qed.

(* the state after the loop over the inputs *)
Lemma span_state wd a b rest :
  let lo := fold_left Z.min (map (nfirst wd) rest) (Z.min (nfirst wd a) (nfirst wd b)) in
  let hi := fold_left Z.max (map (nlast wd) rest) (Z.max (nlast wd a) (nlast wd b)) in
  lowest_first wd (a :: b :: rest) lo /\ highest_last wd (a :: b :: rest) hi.
Proof.
  cbn zeta. split.
  - destruct (fold_min_spec (map (nfirst wd) rest) (Z.min (nfirst wd a) (nfirst wd b))) as (I1 & I2 & I3).
    split.
    + destruct I1 as [E|I].
      * destruct (Z.min_spec (nfirst wd a) (nfirst wd b)) as [[_ M]|[_ M]]; rewrite M in E.
        -- exists a. split; [left; reflexivity|congruence].
        -- exists b. split; [right; left; reflexivity|congruence].
      * apply in_map_iff in I. destruct I as (n & E & I). exists n. split; [right; right; assumption|assumption].
    + intros n [<-|[<-|I]]; try lia. apply I3, in_map, I.
  - destruct (fold_max_spec (map (nlast wd) rest) (Z.max (nlast wd a) (nlast wd b))) as (I1 & I2 & I3).
    split.
    + destruct I1 as [E|I].
      * destruct (Z.max_spec (nlast wd a) (nlast wd b)) as [[_ M]|[_ M]]; rewrite M in E.
        -- exists b. split; [right; left; reflexivity|congruence].
        -- exists a. split; [left; reflexivity|congruence].
      * apply in_map_iff in I. destruct I as (n & E & I). exists n. split; [right; right; assumption|assumption].
    + intros n [<-|[<-|I]]; try lia. apply I3, in_map, I.
Qed.

Lemma no_mixed wd ver a b rest : wf_inputs wd ver (a :: b :: rest) ->
  negb (nver b =? nver a) || existsb (fun n => negb (nver n =? nver a)) rest = false.
Proof.
  intros [_ H]. destruct (H a ltac:(left; reflexivity)) as [Ha _].
  destruct (H b ltac:(right; left; reflexivity)) as [Hb _].
  apply orb_false_iff. split; [rewrite Ha, Hb, Z.eqb_refl; reflexivity|].
  apply not_true_is_false. intros E. apply existsb_exists in E. destruct E as (n & I & E).
  destruct (H n ltac:(right; right; assumption)) as [Hn _]. rewrite Hn, Ha, Z.eqb_refl in E. discriminate.
Qed.

(* ------------------------------------------------------------------ main results *)

(* functional description: on well-formed inputs of one family the result is the block fixed by span_post *)
Lemma span_result wd ver l lo hi :
  wf_inputs wd ver l -> (2 <= length l)%nat -> lowest_first wd l lo -> highest_last wd l hi ->
  0 <= lo <= hi /\ hi < 2 ^ wd ver /\
  exists r q, spanning_cidr_gen wd l = Ok {| nver := ver; nval := r; nplen := q |} /\
              span_post (wd ver) lo hi r q.
Proof.
  intros WF Hlen Hlo Hhi.
  destruct l as [|a [|b rest]]; cbn [length] in Hlen; try lia.
  destruct (span_state wd a b rest) as [Slo Shi]. cbn zeta in Slo, Shi.
  pose proof (lowest_first_unique _ _ _ _ Hlo Slo) as Elo.
  pose proof (highest_last_unique _ _ _ _ Hhi Shi) as Ehi.
  (* range facts *)
  assert (R: 0 <= lo <= hi /\ hi < 2 ^ wd ver).
  { destruct Hlo as [(n & I & E) L]. destruct Hhi as [(n' & I' & E') L'].
    pose proof (wf_first_last wd ver _ n WF I) as (_ & _ & F1 & F2 & F3).
    pose proof (wf_first_last wd ver _ n' WF I') as (_ & _ & G1 & G2 & G3).
    specialize (L' n I). lia. }
  destruct R as [R1 R2]. split; [assumption|]. split; [assumption|].
  pose proof WF as [Hw Hall].
  destruct (Hall a ltac:(left; reflexivity)) as (Hva & _).
  unfold spanning_cidr_gen. rewrite span_fold. rewrite (no_mixed wd ver a b rest WF).
  rewrite <- Elo, <- Ehi. rewrite Hva.
  destruct (span_loop_from_top (wd ver) lo hi Hw R1 R2) as (r & q & EL & P).
  rewrite EL. cbn [bind fst snd].
  exists r, q. split; [|assumption].
  destruct (span_post_covers (wd ver) lo hi r q ltac:(lia) P) as (A & B & C).
  destruct P as (Hq & Er & _).
  assert (0 <= r) by (subst r; apply floor2_nonneg; lia).
  pose proof (floor2_bounds hi (wd ver - q) ltac:(lia)). rewrite <- Er in *.
  unfold net_of_tuple, max_int_w.
  replace ((0 <=? r) && (r <=? 2 ^ wd ver - 1)) with true by (symmetry; apply andb_true_iff; split; lia).
  replace ((0 <=? q) && (q <=? wd ver)) with true by (symmetry; apply andb_true_iff; split; lia).
  reflexivity.
Qed.

Lemma span_correct wd ver l lo hi :
  wf_inputs wd ver l -> (2 <= length l)%nat -> lowest_first wd l lo -> highest_last wd l hi ->
  let w := wd ver in
  exists r q, spanning_cidr_gen wd l = Ok {| nver := ver; nval := r; nplen := q |} /\
    0 <= q <= w /\ 0 <= r /\ r + 2 ^ (w - q) - 1 < 2 ^ w /\
    r mod 2 ^ (w - q) = 0 /\
    r <= lo /\ hi <= r + 2 ^ (w - q) - 1 /\
    (forall n, In n l -> r <= nfirst wd n /\ nlast wd n <= r + 2 ^ (w - q) - 1) /\
    (forall r' q', 0 <= q' <= w -> r' mod 2 ^ (w - q') = 0 ->
       (forall n, In n l -> r' <= nfirst wd n /\ nlast wd n <= r' + 2 ^ (w - q') - 1) ->
       q' <= q /\ r' <= r /\ r + 2 ^ (w - q) - 1 <= r' + 2 ^ (w - q') - 1).
Proof.
  intros WF Hlen Hlo Hhi. cbn zeta.
  destruct (span_result wd ver l lo hi WF Hlen Hlo Hhi) as (R1 & R2 & r & q & E & P).
  exists r, q. split; [assumption|].
  destruct (span_post_covers (wd ver) lo hi r q ltac:(lia) P) as (A & B & C).
  pose proof P as (Hq & Er & _).
  pose proof (pow2_pos (wd ver - q) ltac:(lia)) as PT.
  assert (Hr0: 0 <= r) by (subst r; apply floor2_nonneg; lia).
  assert (Htop: r + 2 ^ (wd ver - q) - 1 < 2 ^ wd ver).
  { pose proof (first_last_in_range (wd ver) hi q ltac:(lia) ltac:(lia)). rewrite <- Er in *. lia. }
  repeat (split; [first [assumption|lia]|]).
  split.
  - intros n I. destruct Hlo as [_ L]. destruct Hhi as [_ L']. specialize (L n I). specialize (L' n I). lia.
  - intros r' q' Hq' Hal Hcov.
    apply (span_post_minimal (wd ver) lo hi r q ltac:(lia) P r' q' Hq' Hal).
    + destruct Hlo as [(n & I & En) _]. destruct (Hcov n I). lia.
    + destruct Hhi as [(n & I & En) _]. destruct (Hcov n I). lia.
Qed.

(* the result depends only on (lowest first, highest last) *)
Lemma span_order_free wd ver l l' lo hi :
  wf_inputs wd ver l -> wf_inputs wd ver l' -> (2 <= length l)%nat -> (2 <= length l')%nat ->
  lowest_first wd l lo -> highest_last wd l hi -> lowest_first wd l' lo -> highest_last wd l' hi ->
  spanning_cidr_gen wd l = spanning_cidr_gen wd l'.
Proof.
  intros WF WF' Hlen Hlen' Hlo Hhi Hlo' Hhi'.
  destruct (span_result wd ver l lo hi WF Hlen Hlo Hhi) as (R1 & R2 & r & q & E & P).
  destruct (span_result wd ver l' lo hi WF' Hlen' Hlo' Hhi') as (_ & _ & r' & q' & E' & P').
  destruct (span_post_unique (wd ver) lo hi r q r' q' ltac:(lia) P P') as [-> ->]. congruence.
Qed.

(* lowest first / highest last exist for every non-empty list *)
Lemma lowest_highest_exist wd l : l <> [] -> exists lo hi, lowest_first wd l lo /\ highest_last wd l hi.
Proof.
  destruct l as [|a t]; [congruence|]. intros _.
  destruct (fold_min_spec (map (nfirst wd) t) (nfirst wd a)) as (I1 & I2 & I3).
  destruct (fold_max_spec (map (nlast wd) t) (nlast wd a)) as (J1 & J2 & J3).
  eexists. eexists. split; split.
  - destruct I1 as [E|I]; [exists a; split; [left; reflexivity|symmetry; exact E]|].
    apply in_map_iff in I. destruct I as (n & E & I). exists n. split; [right; assumption|assumption].
  - intros n [<-|I]; [assumption|]. apply I3, in_map, I.
  - destruct J1 as [E|I]; [exists a; split; [left; reflexivity|symmetry; exact E]|].
    apply in_map_iff in I. destruct I as (n & E & I). exists n. split; [right; assumption|assumption].
  - intros n [<-|I]; [assumption|]. apply J3, in_map, I.
Qed.

(* same set of inputs (any order, any multiplicity) => same result *)
Lemma span_same_elements wd ver l l' :
  wf_inputs wd ver l -> (2 <= length l)%nat -> (2 <= length l')%nat ->
  (forall n, In n l <-> In n l') -> spanning_cidr_gen wd l = spanning_cidr_gen wd l'.
Proof.
  intros WF Hlen Hlen' H.
  assert (WF': wf_inputs wd ver l') by (destruct WF as [Hw A]; split; [assumption|intros n I; apply A, H, I]).
  destruct (lowest_highest_exist wd l) as (lo & hi & Hlo & Hhi); [destruct l; cbn in Hlen; [lia|discriminate]|].
  apply (span_order_free wd ver l l' lo hi); try assumption.
  - apply (lowest_first_ext wd l l' lo H Hlo).
  - apply (highest_last_ext wd l l' hi H Hhi).
Qed.

Lemma span_permutation wd ver l l' :
  wf_inputs wd ver l -> (2 <= length l)%nat -> Permutation l l' ->
  spanning_cidr_gen wd l = spanning_cidr_gen wd l'.
Proof.
  intros WF Hlen HP. apply (span_same_elements wd ver); try assumption.
  - rewrite <- (Permutation_length HP). assumption.
  - intros n. split; [apply Permutation_in; assumption|apply Permutation_in, Permutation_sym; assumption].
Qed.

(* ------------------------------------------------------------------ error cases (no well-formedness needed) *)

Lemma span_too_few wd l : (length l < 2)%nat -> spanning_cidr_gen wd l = Raise ValueError.
Proof. destruct l as [|a [|b t]]; cbn [length]; intros H; try reflexivity. lia. Qed.

Lemma span_mixed wd l : (2 <= length l)%nat ->
  (exists n1 n2, In n1 l /\ In n2 l /\ nver n1 <> nver n2) -> spanning_cidr_gen wd l = Raise TypeError.
Proof.
  intros Hlen (n1 & n2 & I1 & I2 & Hne).
  destruct l as [|a [|b rest]]; cbn [length] in Hlen; try lia.
  unfold spanning_cidr_gen. rewrite span_fold.
  assert (M: negb (nver b =? nver a) || existsb (fun n => negb (nver n =? nver a)) rest = true).
  { (* some element differs from a *)
    assert (exists n, In n (b :: rest) /\ nver n <> nver a) as (n & I & D).
    { destruct (Z.eq_dec (nver n1) (nver a)) as [E1|D1].
      - destruct I2 as [<-|I2]; [congruence|]. exists n2. split; [assumption|congruence].
      - destruct I1 as [<-|I1]; [congruence|]. exists n1. split; assumption. }
    destruct I as [<-|I].
    - apply orb_true_iff. left. apply negb_true_iff, Z.eqb_neq, D.
    - apply orb_true_iff. right. apply existsb_exists. exists n. split; [assumption|].
      apply negb_true_iff, Z.eqb_neq, D. }
  rewrite M. reflexivity.
Qed.

Lemma span_errors wd l :
  ((length l < 2)%nat -> spanning_cidr_gen wd l = Raise ValueError) /\
  ((2 <= length l)%nat -> (exists n1 n2, In n1 l /\ In n2 l /\ nver n1 <> nver n2) ->
     spanning_cidr_gen wd l = Raise TypeError).
Proof. split; [apply span_too_few|apply span_mixed]. Qed.

Lemma span_no_fuel wd ver l : wf_inputs wd ver l -> spanning_cidr_gen wd l <> Raise OutOfFuel.
Proof.
  intros WF. destruct (le_lt_dec 2 (length l)) as [Hlen|Hlen].
  - destruct (lowest_highest_exist wd l) as (lo & hi & Hlo & Hhi); [destruct l; cbn in Hlen; [lia|discriminate]|].
    destruct (span_result wd ver l lo hi WF Hlen Hlo Hhi) as (_ & _ & r & q & E & _). rewrite E. discriminate.
  - rewrite span_too_few by lia. discriminate.
Qed.

(* the real family table satisfies the width hypothesis *)
Lemma wf_inputs_width ver l : (forall n, In n l -> nver n = ver /\ 0 <= nval n < 2 ^ width ver /\ 0 <= nplen n <= width ver) ->
  wf_inputs width ver l.
Proof. intros H. split; [apply width_nonneg|assumption]. Qed.
