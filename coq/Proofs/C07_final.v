(* Proofs/C07_final.v — ties C07 to C06: the operands of the C07 theorems (SetInv dicts) are exactly what every
   history of IPSet operations produces. *)
From NV Require Import Base.Tac Base.PyVal Model.Ip Model.Merge Model.Sets Proofs.NetDen
  Proofs.C06_inv Proofs.C06_bulk Proofs.C06_final Proofs.C07_sweeps_closed.
From NV Require Import Extract.Cmd_Sets.
Open Scope Z_scope.

Lemma reachable_setinv ops r : Forall wf_op ops -> SetInv (get (fold_left ostep ops regs0) r).
Proof.
  intros W. destruct (C06_reachable_shown_closed ops W) as (s' & _ & (H & _)). apply H.
Qed.

Lemma reachable_algebra ops r1 r2 : Forall wf_op ops ->
  let a := get (fold_left ostep ops regs0) r1 in
  let b := get (fold_left ostep ops regs0) r2 in
  (exists d, set_intersection a b = Ok d /\ SetInv d /\ forall ver x, den d ver x <-> den a ver x /\ den b ver x) /\
  (exists d, set_difference a b = Ok d /\ SetInv d /\ forall ver x, den d ver x <-> den a ver x /\ ~ den b ver x) /\
  (exists d, set_symdiff a b = Ok d /\ SetInv d /\
     forall ver x, den d ver x <-> (den a ver x /\ ~ den b ver x) \/ (den b ver x /\ ~ den a ver x)) /\
  (exists d, set_union a b = Ok d /\ SetInv d /\ forall ver x, den d ver x <-> den a ver x \/ den b ver x).
Proof.
  intros W a b.
  pose proof (reachable_setinv ops r1 W) as Ia. pose proof (reachable_setinv ops r2 W) as Ib.
  split; [apply set_intersection_den; assumption|].
  split; [apply set_difference_closed; assumption|].
  split; [apply set_symdiff_closed; assumption|].
  destruct (set_union_closed a b Ia Ib) as (d & H1 & H2 & _ & H3). exists d. auto.
Qed.
