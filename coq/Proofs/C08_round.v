(* Proofs/C08_round.v — the text printed in any built-in dialect parses back to the same (version, value). *)
From Coq Require Import String Ascii.
From NV Require Import Base.Tac Base.PyVal Base.Bits Base.PyStr Base.PyStrFacts Model.Ip Model.Eui
                       Proofs.C08_words Proofs.C08_arith Proofs.C08_text Proofs.C08_spell.
Open Scope Z_scope.

Lemma pow16_pow2 k : 16 ^ Z.of_nat k = 2 ^ (4 * Z.of_nat k).
Proof. change 16 with (2 ^ 4). rewrite <- Z.pow_mul_r by lia. reflexivity. Qed.

Lemma apply_fmt_ok fmt u kk w : parse_fmt fmt = Some (u, kk) -> 0 <= w ->
  apply_fmt fmt w = Ok (if u then fmt_X_pad kk w else fmt_x_pad kk w).
Proof. intros H Hw. unfold apply_fmt. rewrite H. destruct (w <? 0) eqn:E; [lia|reflexivity]. Qed.

(* a word printer that fits a grouped pattern: lo..hi hex digits whose value is the word *)
Definition prints (d : dialect) (f : Z -> string) (lo hi k : nat) : Prop :=
  forall w, 0 <= w < 16 ^ Z.of_nat k ->
    apply_fmt (word_fmt d) w = Ok (f w) /\ tok_ok lo hi (chars (f w)) /\ hexval (chars (f w)) = w.

Lemma roundtrip_grouped ver n lo hi sepc k f d v :
  (ver = 48 /\ In (n, lo, hi, sepc, k) groups48) \/ (ver = 64 /\ In (n, lo, hi, sepc, k) groups64) ->
  word_size d = 4 * Z.of_nat k -> num_words d = Z.of_nat n -> word_sep d = String sepc EmptyString ->
  prints d f lo hi k -> Z.of_nat n * (4 * Z.of_nat k) = ewidth ver -> 0 <= v < 2 ^ ewidth ver ->
  exists s, int_to_str v d = Ok s /\ parses_as s ver v.
Proof.
  intros Hin Hws Hnw Hsep Hf Hw Hv. unfold int_to_str. rewrite Hws, Hnw, Hsep.
  rewrite int_to_words_spec by (try lia; rewrite Hw; exact Hv). cbn [bind]. rewrite Nat2Z.id.
  rewrite <- pow16_pow2. set (B := 16 ^ Z.of_nat k). set (words := wl B n v).
  assert (HB : 0 < B) by (apply Z.pow_pos_nonneg; lia).
  assert (HR : forall w, In w words -> 0 <= w < B).
  { pose proof (wl_range B n HB v) as R. rewrite Forall_forall in R. exact R. }
  rewrite (map_outcome_ok _ f) by (intros w Hi; apply Hf; apply HR; exact Hi). cbn [bind].
  eexists. split; [reflexivity|].
  set (toks := map (fun w => chars (f w)) words).
  assert (Es : join (String sepc EmptyString) (map f words) = spell sepc toks).
  { unfold join, spell, toks. cbn [chars]. rewrite map_map. reflexivity. }
  rewrite Es.
  assert (Ev : from_digits B (map hexval toks) = v).
  { unfold toks. rewrite map_map. rewrite (map_ext_in _ (fun w => w)) by (intros w Hi; apply Hf; apply HR; exact Hi).
    rewrite map_id. unfold words. apply wl_value_small; [exact HB|].
    unfold B. rewrite pow16_pow2, pow_pow2 by lia. rewrite (Z.mul_comm _ (Z.of_nat n)), Hw. exact Hv. }
  enough (G : parses_as (spell sepc toks) ver (from_digits B (map hexval toks))) by (rewrite Ev in G; exact G).
  apply (spellings_grouped ver n lo hi sepc k).
  - exact Hin.
  - unfold toks, words. rewrite map_length, wl_length. reflexivity.
  - unfold toks. apply Forall_forall. intros t Ht. apply in_map_iff in Ht. destruct Ht as [w [<- Hi]].
    apply Hf. apply HR. exact Hi.
Qed.

Lemma prints_Xpad d k : parse_fmt (word_fmt d) = Some (true, k) -> (0 < k)%nat -> prints d (fmt_X_pad k) 1 k k.
Proof.
  intros Hp Hk w Hw. split; [apply (apply_fmt_ok _ true k); [exact Hp|lia]|].
  destruct (Xpad_chars k w Hk Hw) as (A & B & C). split; [split; [exact A|lia]|exact C].
Qed.
Lemma prints_xpad d k : parse_fmt (word_fmt d) = Some (false, k) -> (0 < k)%nat -> prints d (fmt_x_pad k) 1 k k.
Proof.
  intros Hp Hk w Hw. split; [apply (apply_fmt_ok _ false k); [exact Hp|lia]|].
  destruct (xpad_chars k w Hk Hw) as (A & B & C). split; [split; [exact A|lia]|exact C].
Qed.
Lemma prints_xpad_lo d k lo : parse_fmt (word_fmt d) = Some (false, k) -> (0 < k)%nat -> (lo <= k)%nat ->
  prints d (fmt_x_pad k) lo k k.
Proof.
  intros Hp Hk Hlo w Hw. split; [apply (apply_fmt_ok _ false k); [exact Hp|lia]|].
  destruct (xpad_chars k w Hk Hw) as (A & B & C). split; [split; [exact A|lia]|exact C].
Qed.
Lemma prints_x0 d k : parse_fmt (word_fmt d) = Some (false, O) -> (0 < k)%nat -> prints d (fmt_x_pad 0) 1 k k.
Proof.
  intros Hp Hk w Hw. split; [apply (apply_fmt_ok _ false O); [exact Hp|lia]|].
  destruct (x0_chars k w Hk Hw) as (A & B & C). split; [split; [exact A|lia]|exact C].
Qed.

Lemma roundtrip_bare ver k d v : wf_ver ver -> (ver = 48 /\ k = 12%nat) \/ (ver = 64 /\ k = 16%nat) ->
  word_size d = ewidth ver -> num_words d = 1 -> word_sep d = EmptyString ->
  parse_fmt (word_fmt d) = Some (true, k) -> 0 <= v < 2 ^ ewidth ver ->
  exists s, int_to_str v d = Ok s /\ parses_as s ver v.
Proof.
  intros Hver Hk Hws Hnw Hsep Hp Hv. unfold int_to_str. rewrite Hws, Hnw, Hsep.
  rewrite int_to_words_spec by (destruct Hver as [-> | ->]; cbn [ewidth Z.eqb Pos.eqb] in *; lia).
  change (Z.to_nat 1) with 1%nat. cbn [bind wl app map_outcome].
  rewrite Z.mod_small by lia. rewrite (apply_fmt_ok _ true k) by (try exact Hp; lia). cbn [bind].
  eexists. split; [reflexivity|]. rewrite join_single.
  assert (Hr : 0 <= v < 16 ^ Z.of_nat k).
  { destruct Hk as [[-> ->] | [-> ->]]; [change (16 ^ Z.of_nat 12) with (2 ^ 48) | change (16 ^ Z.of_nat 16) with (2 ^ 64)]; exact Hv. }
  assert (Hk0 : (0 < k)%nat) by (destruct Hk as [[_ ->] | [_ ->]]; lia).
  destruct (Xpad_chars k v Hk0 Hr) as (A & B & C).
  rewrite <- (str_of_chars (fmt_X_pad k v)). rewrite <- C at 2.
  destruct (spellings_bare _ A) as [S48 S64].
  destruct Hk as [[-> ->] | [-> ->]]; [apply S48; left; exact B | apply S64; exact B].
Qed.

(* every built-in dialect class *)
Theorem roundtrip_builtin name ver d v : In (name, (ver, d)) builtin_dialects -> 0 <= v < 2 ^ ewidth ver ->
  exists s, int_to_str v d = Ok s /\ parses_as s ver v.
Proof.
  intros Hin Hv. cbn in Hin.
  destruct Hin as [E|[E|[E|[E|[E|[E|[E|[E|[E|[E|[E|[]]]]]]]]]]]]; injection E as _ <- <-.
  - (* mac_eui48 *) apply (roundtrip_grouped 48 6 1 2 "-"%char 2 (fmt_X_pad 2)); try reflexivity; try assumption.
    + left. split; [reflexivity|cbn; tauto]. + apply prints_Xpad; [reflexivity|lia].
  - (* mac_unix *) apply (roundtrip_grouped 48 6 1 2 ":"%char 2 (fmt_x_pad 0)); try reflexivity; try assumption.
    + left. split; [reflexivity|cbn; tauto]. + apply prints_x0; [reflexivity|lia].
  - (* mac_unix_expanded *) apply (roundtrip_grouped 48 6 1 2 ":"%char 2 (fmt_x_pad 2)); try reflexivity; try assumption.
    + left. split; [reflexivity|cbn; tauto]. + apply prints_xpad; [reflexivity|lia].
  - (* mac_cisco *) apply (roundtrip_grouped 48 3 1 4 "."%char 4 (fmt_x_pad 4)); try reflexivity; try assumption.
    + left. split; [reflexivity|cbn; tauto]. + apply prints_xpad; [reflexivity|lia].
  - (* mac_bare *) apply (roundtrip_bare 48 12); try reflexivity; try assumption; [left; reflexivity | left; split; reflexivity].
  - (* mac_pgsql *) apply (roundtrip_grouped 48 2 5 6 ":"%char 6 (fmt_x_pad 6)); try reflexivity; try assumption.
    + left. split; [reflexivity|cbn; tauto]. + apply prints_xpad_lo; [reflexivity|lia|lia].
  - (* eui64_base *) apply (roundtrip_grouped 64 8 1 2 "-"%char 2 (fmt_X_pad 2)); try reflexivity; try assumption.
    + right. split; [reflexivity|cbn; tauto]. + apply prints_Xpad; [reflexivity|lia].
  - (* eui64_unix *) apply (roundtrip_grouped 64 8 1 2 ":"%char 2 (fmt_x_pad 0)); try reflexivity; try assumption.
    + right. split; [reflexivity|cbn; tauto]. + apply prints_x0; [reflexivity|lia].
  - (* eui64_unix_expanded *) apply (roundtrip_grouped 64 8 1 2 ":"%char 2 (fmt_x_pad 2)); try reflexivity; try assumption.
    + right. split; [reflexivity|cbn; tauto]. + apply prints_xpad; [reflexivity|lia].
  - (* eui64_cisco *) apply (roundtrip_grouped 64 4 1 4 "."%char 4 (fmt_x_pad 4)); try reflexivity; try assumption.
    + right. split; [reflexivity|cbn; tauto]. + apply prints_xpad; [reflexivity|lia].
  - (* eui64_bare *) apply (roundtrip_bare 64 16); try reflexivity; try assumption; [right; reflexivity | right; split; reflexivity].
Qed.
