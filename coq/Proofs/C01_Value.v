(* Proofs/C01_Value.v — integer <-> words: int_to_packed / packed_to_int / or_words / the IPv4 octets. *)
From Coq Require Import String Ascii.
From NV Require Import Base.Tac Base.PyVal Base.Bits Base.PyStr Model.IpText Model.FbSocket Model.AddrText
  Proofs.C01_Chars Proofs.C01_V6.
Open Scope Z_scope.

Lemma land_small_shiftl x y k : 0 <= k -> 0 <= x < 2 ^ k -> Z.land x (Z.shiftl y k) = 0.
Proof. intros Hk Hx. rewrite <- (small_land_ones x k) by lia. rewrite <- Z.land_assoc.
  rewrite (Z.land_comm (Z.ones k)), Z.land_ones by lia. rewrite Z.shiftl_mul_pow2 by lia.
  rewrite Z.mod_mul by (pose proof (pow2_pos k Hk); lia). apply Z.land_0_r. Qed.

Lemma lor_shiftl_add x y k : 0 <= k -> 0 <= x < 2 ^ k -> Z.lor x (Z.shiftl y k) = x + y * 2 ^ k.
Proof. intros Hk Hx. rewrite <- add_disjoint_lor by (apply land_small_shiftl; lia).
  now rewrite Z.shiftl_mul_pow2 by lia. Qed.

(* ---- 32-bit words *)
Definition w32 (x : Z) : Prop := 0 <= x < 4294967296.

Lemma or_words_32 a b c d : w32 a -> w32 b -> w32 c -> w32 d ->
  Fb.or_words 32 (rev [a; b; c; d]) 0 0 = ((a * 4294967296 + b) * 4294967296 + c) * 4294967296 + d.
Proof. unfold w32. intros Ha Hb Hc Hd. cbn [rev app Fb.or_words]. change (32 * 0) with 0.
  change (32 * (0 + 1)) with 32. change (32 * (0 + 1 + 1)) with 64. change (32 * (0 + 1 + 1 + 1)) with 96.
  rewrite Z.shiftl_0_r, Z.lor_0_l.
  rewrite (lor_shiftl_add d c 32) by (change (2 ^ 32) with 4294967296; lia).
  rewrite (lor_shiftl_add _ b 64) by (change (2 ^ 32) with 4294967296; change (2 ^ 64) with 18446744073709551616; lia).
  rewrite (lor_shiftl_add _ a 96) by (change (2 ^ 32) with 4294967296; change (2 ^ 64) with 18446744073709551616;
                                      change (2 ^ 96) with 79228162514264337593543950336; lia).
  change (2 ^ 32) with 4294967296; change (2 ^ 64) with 18446744073709551616;
  change (2 ^ 96) with 79228162514264337593543950336. lia. Qed.

(* ---- 16-bit words of a packed IPv6 address *)
Definition words_of (v : Z) : list Z :=
  [v / 2 ^ 112; (v / 2 ^ 96) mod 65536; (v / 2 ^ 80) mod 65536; (v / 2 ^ 64) mod 65536;
   (v / 2 ^ 48) mod 65536; (v / 2 ^ 32) mod 65536; (v / 2 ^ 16) mod 65536; v mod 65536].

Lemma words_of_word v : 0 <= v < 2 ^ 128 -> Forall word (words_of v).
Proof. intros Hv. unfold words_of, word.
  repeat constructor; try (apply Z.mod_pos_bound; lia); try (apply Z.div_pos; lia).
  apply Z.div_lt_upper_bound; [lia|]. change (2 ^ 112 * 65536) with (2 ^ 128). lia. Qed.

Lemma words_of_length v : List.length (words_of v) = 8%nat.
Proof. reflexivity. Qed.

Lemma int_to_packed_ok v : 0 <= v < 2 ^ 128 -> int_to_packed v = Ok (words_of v).
Proof. intros Hv. unfold int_to_packed, int_to_words.
  change (2 ^ (Z.of_nat 4 * 32) - 1) with (2 ^ 128 - 1).
  assert (R : (0 <=? v) && (v <=? 2 ^ 128 - 1) = true) by lia. rewrite R. cbn [negb bind].
  cbn [int_to_words_loop app rev].
  rewrite !land_ones_mod by lia. rewrite !Z.shiftr_div_pow2 by lia.
  rewrite !Z.div_div by lia. change (2 ^ 32 * 2 ^ 32) with (2 ^ 64). change (2 ^ 32 * 2 ^ 64) with (2 ^ 96). change (2 ^ 64 * 2 ^ 32) with (2 ^ 96).
  unfold pack_4I.
  set (a := (v / 2 ^ 96) mod 2 ^ 32). set (b := (v / 2 ^ 64) mod 2 ^ 32). set (c := (v / 2 ^ 32) mod 2 ^ 32).
  set (d := v mod 2 ^ 32).
  assert (Ha : 0 <= a < 2 ^ 32) by (apply Z.mod_pos_bound; lia).
  assert (Hb : 0 <= b < 2 ^ 32) by (apply Z.mod_pos_bound; lia).
  assert (Hc : 0 <= c < 2 ^ 32) by (apply Z.mod_pos_bound; lia).
  assert (Hd : 0 <= d < 2 ^ 32) by (apply Z.mod_pos_bound; lia).
  assert (F : forallb (fun w => (0 <=? w) && (w <=? 4294967295)) [a; b; c; d] = true).
  { cbn [forallb]. change (2 ^ 32) with 4294967296 in *. lia. }
  rewrite F. unfold words_of. f_equal.
  assert (P32 : 2 ^ 32 = 65536 * 65536) by reflexivity.
  assert (E : forall x, 0 <= x -> (x mod 2 ^ 32) / 65536 = (x / 65536) mod 65536 /\ (x mod 2 ^ 32) mod 65536 = x mod 65536).
  { intros x Hx. rewrite P32. split.
    - rewrite Z.rem_mul_r by lia. rewrite Z.mul_comm, Z.div_add by lia.
      rewrite (Z.div_small (x mod 65536)) by (apply Z.mod_pos_bound; lia). lia.
    - rewrite Z.rem_mul_r by lia. rewrite Z.mul_comm, Z.mod_add by lia. apply Z.mod_mod; lia. }
  subst a b c d.
  assert (H96 : 0 <= v / 2 ^ 96) by (apply Z.div_pos; lia).
  assert (H64 : 0 <= v / 2 ^ 64) by (apply Z.div_pos; lia).
  assert (H32 : 0 <= v / 2 ^ 32) by (apply Z.div_pos; lia).
  destruct (E (v / 2 ^ 96) H96) as [E1 E2]. destruct (E (v / 2 ^ 64) H64) as [E3 E4].
  destruct (E (v / 2 ^ 32) H32) as [E5 E6]. destruct (E v ltac:(lia)) as [E7 E8].
  rewrite E1, E2, E3, E4, E5, E6, E7, E8.
  rewrite !Z.div_div by lia.
  change (2 ^ 96 * 65536) with (2 ^ 112). change (2 ^ 64 * 65536) with (2 ^ 80). change (2 ^ 32 * 65536) with (2 ^ 48).
  f_equal. apply Z.mod_small. split; [apply Z.div_pos; lia|].
  apply Z.div_lt_upper_bound; [lia|]. change (2 ^ 112 * 65536) with (2 ^ 128). lia. Qed.

Lemma packed_to_int_words v : 0 <= v < 2 ^ 128 -> packed_to_int (words_of v) = Ok v.
Proof. intros Hv. unfold packed_to_int, words_of, unpack_4I. cbn [bind].
  set (h0 := v / 2 ^ 112). set (h1 := (v / 2 ^ 96) mod 65536). set (h2 := (v / 2 ^ 80) mod 65536).
  set (h3 := (v / 2 ^ 64) mod 65536). set (h4 := (v / 2 ^ 48) mod 65536). set (h5 := (v / 2 ^ 32) mod 65536).
  set (h6 := (v / 2 ^ 16) mod 65536). set (h7 := v mod 65536).
  pose proof (words_of_word v Hv) as W. unfold words_of, word in W.
  fold h0 h1 h2 h3 h4 h5 h6 h7 in W.
  repeat match goal with H : Forall _ (_ :: _) |- _ => inversion H; clear H; subst end.
  rewrite or_words_32 by (unfold w32; lia). f_equal.
  subst h0 h1 h2 h3 h4 h5 h6 h7.
  (* recombine from the least significant word upwards *)
  assert (S : forall k k', 0 <= k -> k' = k + 16 -> v / 2 ^ k = (v / 2 ^ k') * 65536 + (v / 2 ^ k) mod 65536).
  { intros k k' Hk ->. rewrite Z.pow_add_r by lia. rewrite <- Z.div_div by (try apply pow2_pos; lia).
    change (2 ^ 16) with 65536. pose proof (Z.div_mod (v / 2 ^ k) 65536 ltac:(lia)). lia. }
  pose proof (S 0 16 ltac:(lia) eq_refl) as S0. pose proof (S 16 32 ltac:(lia) eq_refl) as S16.
  pose proof (S 32 48 ltac:(lia) eq_refl) as S32. pose proof (S 48 64 ltac:(lia) eq_refl) as S48.
  pose proof (S 64 80 ltac:(lia) eq_refl) as S64. pose proof (S 80 96 ltac:(lia) eq_refl) as S80.
  pose proof (S 96 112 ltac:(lia) eq_refl) as S96.
  change (2 ^ 0) with 1 in S0. rewrite Z.div_1_r in S0.
  lia. Qed.

Lemma words_value_words_of v : 0 <= v < 2 ^ 128 -> Std6.words_value (words_of v) = v.
Proof. intros Hv. pose proof (packed_to_int_words v Hv) as P. unfold packed_to_int, words_of, unpack_4I in P.
  cbn [bind] in P. pose proof (words_of_word v Hv) as W. unfold words_of, word in W.
  repeat match goal with H : Forall _ (_ :: _) |- _ => inversion H; clear H; subst end.
  rewrite or_words_32 in P by (unfold w32; lia). injection P as P.
  unfold Std6.words_value, words_of. cbn [fold_left]. lia. Qed.

(* ---- IPv4 octets *)
Definition octets_of (v : Z) : list Z := [v / 16777216; (v / 65536) mod 256; (v / 256) mod 256; v mod 256].

Lemma str_of_app_cons a c b : str_of (a ++ c :: b) = (str_of a ++ String c (str_of b))%string.
Proof. rewrite PyStrFacts.str_of_app. reflexivity. Qed.

Lemma v4_int_to_str_eq v : 0 <= v < 2 ^ 32 ->
  v4_int_to_str v = Ok (Std4.ntoa (octets_of v)).
Proof. intros Hv. unfold v4_int_to_str.
  assert (R : (0 <=? v) && (v <=? 4294967295) = true) by (change (2 ^ 32) with 4294967296 in Hv; lia). rewrite R.
  f_equal. rewrite !Z.shiftr_div_pow2 by lia.
  change 255 with (2 ^ 8 - 1). rewrite !land_ones_mod by lia.
  change (2 ^ 24) with 16777216. change (2 ^ 16) with 65536. change (2 ^ 8) with 256.
  unfold Std4.ntoa, octets_of. rewrite ntoa_chars_4. unfold D.
  rewrite !str_of_app_cons, !PyStrFacts.str_of_chars. reflexivity. Qed.

Lemma octets_of_octet v : 0 <= v < 2 ^ 32 -> Forall octetP (octets_of v).
Proof. intros Hv. unfold octets_of, octetP. change (2 ^ 32) with 4294967296 in Hv.
  repeat constructor; try (apply Z.mod_pos_bound; lia); try (apply Z.div_pos; lia).
  apply Z.div_lt_upper_bound; lia. Qed.

Lemma unpack_I_octets v : 0 <= v < 2 ^ 32 -> unpack_I (octets_of v) = Ok v.
Proof. intros Hv. unfold unpack_I, octets_of. f_equal. change (2 ^ 32) with 4294967296 in Hv. lia_dm. Qed.
