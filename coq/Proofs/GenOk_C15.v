(* Proofs/GenOk_C15.v — facts about the generated table coq/Gen/codec_gen.v (re-extracted from the working tree on
   every run): a changed constant, dialect, alphabet or lookup table breaks one of these obligations. *)
From Coq Require Import String Ascii.
From NV Require Import Base.Tac Base.PyVal Base.PyStr Base.PyStrFacts Model.Codec Gen.codec_gen.
Close Scope string_scope.
Open Scope Z_scope.

(* BYTES_TO_BITS is the table of byte_bits *)
Lemma gen_bytes_to_bits_ok :
  gen_bytes_to_bits = map (fun n => str_of (byte_bits (Z.of_nat n))) (seq 0 256).
Proof. vm_compute. reflexivity. Qed.

(* BASE_85 is the RFC 1924 alphabet *)
Lemma gen_base85_ok : gen_base85 = rfc1924_alphabet.
Proof. reflexivity. Qed.

(* a word separator of a built-in dialect is empty or one character that is not a binary digit *)
Definition sep_ok (sep : string) : bool :=
  match sep with
  | EmptyString => true
  | String c EmptyString => negb (is_bin_digit c)
  | _ => false
  end.

Definition row_ok (r : string * string * (Z * Z * Z) * string * (Z * Z)) : bool :=
  let '(fam, _, (w, ws, nw), sep, (_, mw)) := r in
  (w =? ws * nw) && (0 <? ws) && (0 <? nw) && sep_ok sep &&
  (if String.eqb fam "ipv4" then (w =? 32) && (ws =? 8) && (nw =? 4) && (mw =? 2 ^ ws - 1)
   else if String.eqb fam "ipv6" then (w =? 128) && (ws =? 16) && (nw =? 8) && (mw =? 2 ^ ws - 1) && String.eqb sep ":"
   else if String.eqb fam "eui48" then w =? 48
   else if String.eqb fam "eui64" then w =? 64
   else false).

Lemma gen_rows_ok : forallb row_ok gen_dialects = true.
Proof. vm_compute. reflexivity. Qed.

Lemma gen_default_eui48_ok :
  find_dialect "eui48" (default_name "eui48") = Some {| d_width := 48; d_ws := 8; d_nw := 6; d_sep := "-" |}.
Proof. reflexivity. Qed.

Lemma gen_default_eui64_ok :
  find_dialect "eui64" (default_name "eui64") = Some {| d_width := 64; d_ws := 8; d_nw := 8; d_sep := "-" |}.
Proof. reflexivity. Qed.

(* what a row of the table guarantees about a dialect *)
Definition fam_ok (fam : string) (d : dialect) : Prop :=
  d_width d = d_ws d * d_nw d /\ 0 < d_ws d /\ 0 < d_nw d /\ sep_ok (d_sep d) = true /\
  ((fam = "ipv4"%string /\ d_width d = 32 /\ d_ws d = 8 /\ d_nw d = 4) \/
   (fam = "ipv6"%string /\ d_width d = 128 /\ d_ws d = 16 /\ d_nw d = 8 /\ d_sep d = ":"%string) \/
   (fam = "eui48"%string /\ d_width d = 48) \/
   (fam = "eui64"%string /\ d_width d = 64)).

Lemma row_ok_fam_ok r : row_ok r = true ->
  let '(fam, _, _, _, _) := r in fam_ok fam (dialect_of_row r).
Proof.
  destruct r as [[[[fam name] [[w ws] nw]] sep] [base mw]]. unfold row_ok, fam_ok, dialect_of_row. cbn [d_width d_ws d_nw d_sep].
  intros H. repeat (apply andb_true_iff in H; destruct H as [H ?]).
  split; [lia|]. split; [lia|]. split; [lia|]. split; [assumption|].
  destruct (String.eqb_spec fam "ipv4") as [->|_].
  { left. repeat (match goal with H : _ && _ = true |- _ => apply andb_true_iff in H; destruct H end). repeat split; lia. }
  destruct (String.eqb_spec fam "ipv6") as [->|_].
  { right; left. repeat (match goal with H : _ && _ = true |- _ => apply andb_true_iff in H; destruct H end).
    match goal with H : String.eqb sep _ = true |- _ => apply String.eqb_eq in H end. repeat split; try lia; assumption. }
  destruct (String.eqb_spec fam "eui48") as [->|_].
  { right; right; left. split; [reflexivity|lia]. }
  destruct (String.eqb_spec fam "eui64") as [->|_].
  { right; right; right. split; [reflexivity|lia]. }
  discriminate.
Qed.

Lemma find_row_ok fam name t d : forallb row_ok t = true -> find_row fam name t = Some d -> fam_ok fam d.
Proof.
  induction t as [|r t IH]; [discriminate|]. cbn [forallb find_row]. intros H.
  apply andb_true_iff in H. destruct H as [Hr Ht].
  pose proof (row_ok_fam_ok r Hr) as Hok.
  destruct r as [[[[f n] p] sep] q].
  destruct (String.eqb_spec f fam) as [->|Hne]; cbn [andb].
  - destruct (String.eqb n name).
    + intros E. injection E as <-. exact Hok.
    + now apply IH.
  - now apply IH.
Qed.

Lemma find_dialect_ok fam name d : find_dialect fam name = Some d -> fam_ok fam d.
Proof. apply find_row_ok. exact gen_rows_ok. Qed.
