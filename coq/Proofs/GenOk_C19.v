(* Proofs/GenOk_C19.v — facts re-proved on every run against the generated literals of coq/Gen/iana_gen.v
   (`iana_impl`: IANA_INFO of the working tree; `iana_spec`: independent etree reading of the shipped XML files).
   A dropped record, a mangled prefix, a key collision in DictUpdater or a changed data file breaks one of the
   `vm_compute`s below, i.e. a proof obligation of Props/C19.v. *)
From Coq Require Import Sorting.Permutation.
From NV Require Import Base.Tac Base.PyVal Model.Ip Model.Iana Proofs.C19_lift Proofs.C19_iana Gen.iana_gen.
Open Scope Z_scope.

Lemma impl_rows_wf : forallb row_wfb iana_impl = true.
Proof. vm_cast_no_check (eq_refl true). Qed.

(* the finite part: model query over iana_impl = containing records of iana_spec at every cut point
   {first-1, first, last+1} of every published block and of 224.0.0.0/4 (the blocks of the keys are checked to be
   among the published blocks, so these are all the points where either side can change) *)
Lemma cuts_ok4 : cuts_ok iana_impl iana_spec 4 = true.
Proof. vm_cast_no_check (eq_refl true). Qed.
Lemma cuts_ok6 : cuts_ok iana_impl iana_spec 6 = true.
Proof. vm_cast_no_check (eq_refl true). Qed.

(* For EVERY address of either family (indeed every integer v) and each of the four result keys, the records
   returned by `query` over the working tree's IANA_INFO are, up to order, exactly the records of the
   independent reading whose published block contains the address: none missing, none extra, none twice. *)
Theorem iana_lookup_exact : forall ver v reg, ver = 4 \/ ver = 6 -> In reg REGS ->
  Permutation (query_ids iana_impl ver v reg) (spec_ids iana_spec ver v reg).
Proof.
  intros ver v reg [->| ->] Hreg.
  - exact (lookup_exact_from_cuts iana_impl iana_spec 4 impl_rows_wf cuts_ok4 v reg Hreg).
  - exact (lookup_exact_from_cuts iana_impl iana_spec 6 impl_rows_wf cuts_ok6 v reg Hreg).
Qed.

Corollary iana_lookup_exact_set : forall ver v reg id, ver = 4 \/ ver = 6 -> In reg REGS ->
  (In id (query_ids iana_impl ver v reg) <-> In id (spec_ids iana_spec ver v reg)).
Proof.
  intros ver v reg id Hv Hr. pose proof (iana_lookup_exact ver v reg Hv Hr) as P.
  split; intro H; [exact (Permutation_in _ P H)|exact (Permutation_in _ (Permutation_sym P) H)].
Qed.

(* record ids mean blocks: rows of the two readings with the same id have the same registry, version, first and
   last (first/last as reported by the key object), and ids are not reused within a reading *)
Theorem iana_ids_coherent :
  (forall r s, In r iana_impl -> In s iana_spec -> r_id r = s_id s ->
     r_reg r = s_reg s /\ r_ver r = s_ver s /\ row_first r = s_first s /\ row_last r = s_last s) /\
  NoDup (map r_id iana_impl) /\ NoDup (map s_id iana_spec).
Proof. apply ids_coherent_from_check. vm_cast_no_check (eq_refl true). Qed.

(* the tables are not empty and every published record is held by exactly one key *)
Lemma iana_same_ids : sortZ (map r_id iana_impl) = sortZ (map s_id iana_spec) /\ (0 < Z.of_nat (length iana_spec)).
Proof. split; vm_compute; reflexivity. Qed.
