(* Proofs/GenOk_Src_C02_ctor.v — source tie for C02, the netmask setter: the definitions regenerated from the text of
   `@netmask.setter def netmask(self, value)` of IPNetwork (netaddr/ip/__init__.py), specialised to an int and to an IPAddress
   argument, equal the hand-written model Ip.set_netmask on SInt / SAddr.  `IPAddress(value)` is the generated constructor
   (tied in Props/C14_src_ctor.v); `self.prefixlen = e` runs the property's setter _set_prefixlen (tied in Props/C02_src.v).
   The generated definition answers the value stored into _prefixlen, as for the other two setters. *)
From NV Require Import Base.Tac Base.PyVal Model.Ip Model.AddrOps Model.SrcPrelude Gen.pysrc_gen Gen.pysrc_ctor_gen
  Proofs.GenOk_Src_Const Proofs.GenOk_Src_C02 Proofs.GenOk_Src_C14_ctor.
Open Scope Z_scope.

Definition with_plen (n : net) (b : Z) : net := {| nver := nver n; nval := nval n; nplen := b |}.

Lemma netmask_tail n ver v :
  omap (with_plen n)
    (if negb (src_IPAddress_version ver (width ver) v =? src_IPNetwork_version (nver n) (width (nver n)) (nval n) (nplen n))
     then Raise ValueError
     else if negb (src_IPAddress_is_netmask ver (width ver) v) then Raise ValueError
     else do h1 <- src_IPAddress_netmask_bits ver (width ver) v;
          do h2 <- src_IPNetwork_set_prefixlen (nver n) (width (nver n)) (nval n) (nplen n) (SInt h1); Ok h2) =
  (if negb (ver =? nver n) then Raise ValueError
   else if negb (is_netmask (width ver) v) then Raise ValueError
   else do b <- netmask_bits (width ver) v; set_prefixlen n (SInt b)).
Proof.
  change (src_IPAddress_version ver (width ver) v) with ver.
  change (src_IPNetwork_version (nver n) (width (nver n)) (nval n) (nplen n)) with (nver n).
  change (src_IPAddress_is_netmask ver (width ver) v) with (is_netmask (width ver) v).
  destruct (negb (ver =? nver n)); [reflexivity|]. destruct (negb (is_netmask (width ver) v)); [reflexivity|].
  rewrite src_netmask_bits_ok. destruct (netmask_bits (width ver) v) as [b|e]; [|reflexivity]. cbn [bind].
  rewrite <- src_set_prefixlen_ok.
  destruct (src_IPNetwork_set_prefixlen (nver n) (width (nver n)) (nval n) (nplen n) (SInt b)); reflexivity.
Qed.

Lemma src_netmask_setter_int_ok n z :
  omap (with_plen n) (src_IPNetwork_netmask_setter_int (nver n) (width (nver n)) (nval n) (nplen n) z) = set_netmask n (SInt z).
Proof.
  unfold src_IPNetwork_netmask_setter_int, set_netmask. rewrite src_init_int_ok. unfold ctor_int.
  destruct (addr_of_int z) as [[ver v]|e]; [|reflexivity]. cbn [bind fst snd]. apply netmask_tail.
Qed.

Lemma src_netmask_setter_addr_ok n ver v :
  omap (with_plen n) (src_IPNetwork_netmask_setter_addr (nver n) (width (nver n)) (nval n) (nplen n) (ver, v)) =
    set_netmask n (SAddr ver v).
Proof.
  unfold src_IPNetwork_netmask_setter_addr, set_netmask. rewrite src_init_copy_ok. cbn [ctor_copy bind fst snd].
  apply netmask_tail.
Qed.

Lemma C02_ctor_tie_ok :
  (forall n z, omap (with_plen n) (src_IPNetwork_netmask_setter_int (nver n) (width (nver n)) (nval n) (nplen n) z) =
                 set_netmask n (SInt z)) /\
  (forall n ver v, omap (with_plen n) (src_IPNetwork_netmask_setter_addr (nver n) (width (nver n)) (nval n) (nplen n) (ver, v)) =
                     set_netmask n (SAddr ver v)).
Proof. split; [exact src_netmask_setter_int_ok|exact src_netmask_setter_addr_ok]. Qed.
