(* Proofs/GenOk_Src_C17.v -- source tie for C17 (glob part): the definitions regenerated from the text of netaddr/ip/glob.py
   (Gen/pysrc_glob_gen.v) equal the hand-written model of Model/Glob.v that the theorems of Props/C17.v are about.
   Text is a Coq string; the builtins are the symbols of Base/PyStr.v and Model/SrcPreludeGlob.v. *)
From Coq Require Import String Ascii.
From NV Require Import Base.Tac Base.PyVal Base.PyStr Model.Ip Model.Glob Model.SrcPrelude Model.SrcPreludeStr Model.SrcPreludeGlob
  Gen.pysrc_gen Gen.pysrc_iprange_gen Gen.pysrc_listlike_gen Gen.pysrc_glob_gen.
Import ListNotations.
Open Scope Z_scope.

(* ---------------------------------------------------------------- prelude symbols vs the model's helpers *)
Definition oo {A} (o : option A) (e : exn) : outcome A := match o with Some v => Ok v | None => Raise e end.

Lemma digit_chars_ok c : contains_char c "0123456789" = is_digit c.
Proof. destruct c as [[] [] [] [] [] [] [] []]; vm_compute; reflexivity. Qed.

Lemma existsb_pointwise {A} (f g : A -> bool) l : (forall x, f x = g x) -> existsb f l = existsb g l.
Proof. intros H. induction l as [|x r IH]; [reflexivity|]. cbn [existsb]. rewrite H, IH. reflexivity. Qed.

Lemma py_map_o_ext {A B} (f g : A -> outcome B) l : (forall x, f x = g x) -> py_map_o f l = py_map_o g l.
Proof. intros H. induction l as [|x r IH]; [reflexivity|]. cbn [py_map_o]. rewrite H, IH. reflexivity. Qed.

Lemma py_map_o_eq {A B} (f : A -> outcome B) l : py_map_o f l = map_outcome f l.
Proof. induction l as [|x r IH]; [reflexivity|]. cbn [py_map_o map_outcome]. rewrite IH. reflexivity. Qed.

Lemma py_index_nth {A} (l : list A) i x : 0 <= i -> nth_error l (Z.to_nat i) = Some x -> py_index l i = Ok x.
Proof.
  intros Hi H. unfold py_index. cbv zeta.
  assert (Hlt : (Z.to_nat i < length l)%nat) by (apply nth_error_Some; rewrite H; discriminate).
  replace (i <? 0) with false by lia.
  replace ((i <? 0) || (Z.of_nat (length l) <=? i)) with false by lia. rewrite H. reflexivity.
Qed.

Lemma py_index_short {A} (l : list A) i : Z.of_nat (length l) <= i -> py_index l i = Raise IndexError.
Proof.
  intros H. unfold py_index. cbv zeta. pose proof (Nat2Z.is_nonneg (length l)).
  replace (i <? 0) with false by lia.
  replace ((i <? 0) || (Z.of_nat (length l) <=? i)) with true by lia. reflexivity.
Qed.

Lemma py_index_app {A} (p : list A) x r : py_index (p ++ x :: r) (Z.of_nat (length p)) = Ok x.
Proof.
  apply py_index_nth; [lia|]. rewrite Nat2Z.id, nth_error_app2 by lia. rewrite Nat.sub_diag. reflexivity.
Qed.

(* ---------------------------------------------------------------- _octet_value *)
Lemma src_octet_value_ok token : src__octet_value token = oo (octet_value token) ValueError.
Proof.
  unfold src__octet_value, octet_value, canon_dec, py_int_o, oo.
  rewrite (existsb_pointwise _ (fun c => negb (is_digit c))) by (intros c; rewrite digit_chars_ok; reflexivity).
  destruct token as [|c r]; [reflexivity|].
  cbn [py_str_nonempty negb is_empty orb py_str_head_is]. change ch_0 with "0"%char.
  match goal with |- (if ?c then _ else _) = _ => destruct c end; [reflexivity|].
  destruct (py_int 10 (String c r)); reflexivity.
Qed.

(* ---------------------------------------------------------------- valid_glob *)
(* try: (octet1, octet2) = [_octet_value(i) for i in octet.split('-')] / except ValueError: return False *)
Lemma octet_pair_try l :
  py_try [ValueError]
    (do h1 <- py_map_o (fun i => src__octet_value i) l; do (a, b) <- py_unpack2 h1; Ok (inr (a, b)))
    (Ok (inl false)) =
  Ok (match map octet_value l with [Some a; Some b] => inr (a, b) | _ => @inl bool (Z * Z) false end).
Proof.
  rewrite (py_map_o_ext _ (fun i => oo (octet_value i) ValueError)) by (intros; apply src_octet_value_ok).
  assert (G : forall r, (exists vs, py_map_o (fun i => oo (octet_value i) ValueError) r = Ok vs /\ length vs = length r)
                        \/ py_map_o (fun i => oo (octet_value i) ValueError) r = Raise ValueError).
  { induction r as [|x r IH]; [left; exists []; split; reflexivity|]. cbn [py_map_o].
    destruct (octet_value x); cbn [oo bind]; [|right; reflexivity].
    destruct IH as [(vs & -> & L)| ->]; [left; eexists; split; [reflexivity|cbn; lia]|right; reflexivity]. }
  destruct l as [|x [|y r]]; [reflexivity| |].
  - cbn [map py_map_o]. destruct (octet_value x); reflexivity.
  - cbn [map py_map_o]. destruct (octet_value x); cbn [oo bind]; [|reflexivity].
    destruct (octet_value y); cbn [oo bind]; [|reflexivity].
    destruct r as [|t3 r]; [reflexivity|].
    destruct (G (t3 :: r)) as [(vs & -> & L)| ->]; cbn [bind]; [|reflexivity].
    destruct vs; try discriminate L; reflexivity.
Qed.

Lemma src_valid_glob_loop_ok xs : forall sh sa,
  src_valid_glob_loop1 xs sh sa = Ok (if valid_glob_loop xs sh sa then inr tt else inl false).
Proof.
  induction xs as [|octet r IH]; intros sh sa; [reflexivity|].
  cbn [src_valid_glob_loop1 valid_glob_loop]. change ch_hyphen with "-"%char.
  destruct (contains_char "-" octet).
  - destruct sh; [reflexivity|]. cbv zeta. destruct sa; [reflexivity|].
    rewrite octet_pair_try. cbn [bind].
    destruct (map octet_value (split "-" octet)) as [|[a|] [|[b|] [|]]]; try reflexivity.
    destruct (a >=? b); [reflexivity|]. destruct (negb ((0 <=? a) && (a <=? 254))); [reflexivity|].
    destruct (negb ((1 <=? b) && (b <=? 255))); [reflexivity|]. apply IH.
  - destruct (String.eqb octet "*"); [apply IH|]. destruct sh; [reflexivity|]. destruct sa; [reflexivity|].
    rewrite src_octet_value_ok. destruct (octet_value octet) as [v|]; cbn [oo bind py_try]; [|reflexivity].
    destruct (negb ((0 <=? v) && (v <=? 255))); cbn [py_try bind]; [reflexivity|apply IH].
Qed.

Lemma src_valid_glob_ok s : src_valid_glob s = Ok (valid_glob s).
Proof.
  unfold src_valid_glob, valid_glob, len. cbv zeta. change ch_dot with "."%char.
  destruct (negb (Z.of_nat (length (split "." s)) =? 4)); [reflexivity|].
  rewrite src_valid_glob_loop_ok. cbn [bind]. destruct (valid_glob_loop (split "." s) false false); reflexivity.
Qed.

(* ---------------------------------------------------------------- glob_to_iptuple / glob_to_iprange *)
(* the token loop: the generated code appends to two accumulators, the model conses on the way back *)
Ltac token_loop IH :=
  change ch_hyphen with "-"%char;
  match goal with |- context [contains_char "-" ?octet] => destruct (contains_char "-" octet) end;
  [ cbv zeta;
    match goal with |- context [split "-" ?octet] => destruct (split "-" octet) as [|? [|? ?]] end;
    [ reflexivity
    | match goal with |- context [py_index [?t0] 0] =>
        rewrite (py_index_nth [t0] 0 t0) by (try lia; reflexivity); cbn [bind];
        rewrite (py_index_short [t0] 1) by (cbn; lia); reflexivity end
    | match goal with |- context [py_index (?t0 :: ?t1 :: ?tl) 0] =>
        rewrite (py_index_nth (t0 :: t1 :: tl) 0 t0) by (try lia; reflexivity); cbn [bind];
        rewrite (py_index_nth (t0 :: t1 :: tl) 1 t1) by (try lia; reflexivity); cbn [bind fst snd] end;
      rewrite IH; match goal with |- context [glob_tokens ?r] => destruct (glob_tokens r) as [[? ?]|] end;
      cbn [bind fst snd]; rewrite <- ?app_assoc; reflexivity ]
  | match goal with |- context [String.eqb ?octet "*"] => destruct (String.eqb octet "*") end;
    cbn [bind fst snd]; rewrite IH;
    match goal with |- context [glob_tokens ?r] => destruct (glob_tokens r) as [[? ?]|] end;
    cbn [bind fst snd]; rewrite <- ?app_assoc; reflexivity ].

Lemma src_iptuple_loop_ok xs : forall st en,
  src_glob_to_iptuple_loop1 xs st en = do r <- glob_tokens xs; Ok (st ++ fst r, en ++ snd r)%list.
Proof.
  induction xs as [|octet r IH]; intros st en; cbn [src_glob_to_iptuple_loop1 glob_tokens].
  - cbn [bind fst snd]. rewrite !app_nil_r. reflexivity.
  - token_loop IH.
Qed.

Lemma src_iprange_loop_ok xs : forall st en,
  src_glob_to_iprange_loop1 xs st en = do r <- glob_tokens xs; Ok (st ++ fst r, en ++ snd r)%list.
Proof.
  induction xs as [|octet r IH]; intros st en; cbn [src_glob_to_iprange_loop1 glob_tokens].
  - cbn [bind fst snd]. rewrite !app_nil_r. reflexivity.
  - token_loop IH.
Qed.

(* the two IPv4 IPAddress objects (version, value) of the model's two values *)
Lemma src_glob_to_iptuple_ok s :
  src_glob_to_iptuple s = omap (fun t => ((4, fst t), (4, snd t))) (glob_to_iptuple s).
Proof.
  unfold src_glob_to_iptuple, glob_to_iptuple. rewrite src_valid_glob_ok. cbn [bind].
  destruct (negb (valid_glob s)); [reflexivity|]. cbv zeta. rewrite src_iptuple_loop_ok. change ch_dot with "."%char.
  destruct (glob_tokens (split "." s)) as [[a b]|]; [|reflexivity]. cbn [bind fst snd app]. unfold py_ipaddress_of_str.
  destruct (ip_of_canon (join "." a)); [|reflexivity]. cbn [bind].
  destruct (ip_of_canon (join "." b)); reflexivity.
Qed.

(* the IPRange object (version, start value, end value) of the model's two values *)
Lemma src_glob_to_iprange_ok s :
  src_glob_to_iprange s = omap (fun t => (4, fst t, snd t)) (glob_to_iprange s).
Proof.
  unfold src_glob_to_iprange, glob_to_iprange. rewrite src_valid_glob_ok. cbn [bind].
  destruct (negb (valid_glob s)); [reflexivity|]. cbv zeta. rewrite src_iprange_loop_ok. change ch_dot with "."%char.
  destruct (glob_tokens (split "." s)) as [[a b]|]; [|reflexivity]. cbn [bind fst snd app]. unfold py_iprange_of_strs.
  destruct (ip_of_canon (join "." a)) as [x|]; [|reflexivity]. cbn [bind].
  destruct (ip_of_canon (join "." b)) as [y|]; [|reflexivity]. cbn [bind]. destruct (x >? y); reflexivity.
Qed.

(* ---------------------------------------------------------------- _iprange_to_glob (the inner function of iprange_to_globs) *)
Lemma py_index_app' {A} (p : list A) x r kz : kz = Z.of_nat (length p) -> py_index (p ++ x :: r) kz = Ok x.
Proof. intros ->. apply py_index_app. Qed.

(* `for i in range(4)` with t1[i], t2[i]: the generated loop runs over the index list and looks the octets up (IndexError
   on a short list), the model peels both lists; `p1`, `p2` are the octets already passed *)
Lemma src_i2g_loop_ok : forall n p1 p2 t1 t2 acc sa sh kz, kz = Z.of_nat (length p1) -> kz = Z.of_nat (length p2) ->
  src_iprange_to_globs__iprange_to_glob_loop1 (p1 ++ t1) (p2 ++ t2) (py_zseq kz n) acc sa sh
  = do r <- i2g_loop n t1 t2 sh sa; Ok (acc ++ r)%list.
Proof.
  induction n as [|n IH]; intros p1 p2 t1 t2 acc sa sh kz H1 H2;
    cbn [py_zseq src_iprange_to_globs__iprange_to_glob_loop1 i2g_loop].
  - cbn [bind]. rewrite app_nil_r. reflexivity.
  - destruct t1 as [|a r1].
    { rewrite app_nil_r, (py_index_short p1 kz) by lia. reflexivity. }
    rewrite !(py_index_app' p1 a r1 kz H1). cbn [bind].
    destruct t2 as [|b r2].
    { rewrite app_nil_r, (py_index_short p2 kz) by lia. reflexivity. }
    rewrite !(py_index_app' p2 b r2 kz H2). cbn [bind].
    assert (E1 : (p1 ++ a :: r1 = (p1 ++ [a]) ++ r1)%list) by (rewrite <- app_assoc; reflexivity).
    assert (E2 : (p2 ++ b :: r2 = (p2 ++ [b]) ++ r2)%list) by (rewrite <- app_assoc; reflexivity).
    assert (K1 : kz + 1 = Z.of_nat (length (p1 ++ [a]))) by (rewrite app_length; cbn [length]; lia).
    assert (K2 : kz + 1 = Z.of_nat (length (p2 ++ [b]))) by (rewrite app_length; cbn [length]; lia).
    rewrite E1, E2.
    assert (STEP : forall acc' sa' sh' x, acc' = (acc ++ [x])%list ->
      src_iprange_to_globs__iprange_to_glob_loop1 ((p1 ++ [a]) ++ r1) ((p2 ++ [b]) ++ r2) (py_zseq (kz + 1) n) acc' sa' sh'
      = do r <- (do r <- i2g_loop n r1 r2 sh' sa'; Ok (x :: r)); Ok (acc ++ r)%list).
    { intros acc' sa' sh' x ->. rewrite (IH _ _ r1 r2 _ sa' sh' (kz + 1) K1 K2).
      destruct (i2g_loop n r1 r2 sh' sa'); cbn [bind]; [rewrite <- app_assoc|]; reflexivity. }
    cbv zeta.
    destruct (a =? b); [apply STEP; reflexivity|].
    destruct (a =? 0); cbn [andb].
    + destruct (b =? 255); [apply STEP; reflexivity|].
      destruct sa; cbn [negb]; [reflexivity|]. destruct sh; cbn [negb]; [reflexivity|]. apply STEP; reflexivity.
    + destruct sa; cbn [negb]; [reflexivity|]. destruct sh; cbn [negb]; [reflexivity|]. apply STEP; reflexivity.
Qed.

Lemma src_i2g_ok lb ub : src_iprange_to_globs__iprange_to_glob (4, lb) (4, ub) = iprange_to_glob1 lb ub.
Proof.
  unfold src_iprange_to_globs__iprange_to_glob, iprange_to_glob1, py_addr_str, ints_of_str. cbn [fst snd].
  change (4 =? 4) with true. cbv iota. change ch_dot with "."%char.
  destruct (int_to_str4 lb) as [s1|]; [|reflexivity]. cbn [bind]. rewrite py_map_o_eq.
  change (fun h2 : string => py_int_o 10 h2) with (fun t : string => match py_int 10 t with Some v => Ok v | None => Raise ValueError end).
  destruct (map_outcome _ (split "." s1)) as [t1|]; [|reflexivity]. cbn [bind].
  destruct (int_to_str4 ub) as [s2|]; [|reflexivity]. cbn [bind]. rewrite py_map_o_eq.
  change (fun h4 : string => py_int_o 10 h4) with (fun t : string => match py_int 10 t with Some v => Ok v | None => Raise ValueError end).
  destruct (map_outcome _ (split "." s2)) as [t2|]; [|reflexivity]. cbn [bind]. cbv zeta.
  change (py_zrange 0 4) with (py_zseq 0 4).
  pose proof (src_i2g_loop_ok 4 [] [] t1 t2 [] false false 0 eq_refl eq_refl) as L. cbn [app] in L. rewrite L.
  destruct (i2g_loop 4 t1 t2 false false); reflexivity.
Qed.

(* ---------------------------------------------------------------- iprange_to_globs *)
From NV Require Import Model.PySlice Model.ListLike Proofs.GenOk_Src_C10.

(* an IPNetwork object that is an IPv4 block inside the address space (what iprange_to_cidrs returns for IPv4 bounds) *)
Definition net4_ok (n : net) : Prop :=
  nver n = 4 /\ 0 <= net_first 32 (nval n) (nplen n) <= net_last 32 (nval n) (nplen n) /\
  net_last 32 (nval n) (nplen n) <= max_int 4.

(* the model's parameter `to_cidrs` (Section WithCidrs of Model/Glob.v), instantiated with the TRANSLATED iprange_to_cidrs
   (Gen/pysrc_iprange_gen.v, tied to its own model by C05_source_tie) on the two IPAddress objects *)
Definition blocks_of (l : list net) : list (Z * Z) := map (fun n => (nval n, nplen n)) l.
Definition src_to_cidrs (s e : Z) : outcome (list (Z * Z)) :=
  omap blocks_of (src_iprange_to_cidrs (py_net_of_addr (4, s)) (py_net_of_addr (4, e))).

Lemma getitem_first n : net4_ok n ->
  src_IPNetwork_getitem_int (nver n) (width (nver n)) (nval n) (nplen n) 0 = Ok (4, net_first 32 (nval n) (nplen n)).
Proof.
  destruct n as [ver v p]. unfold net4_ok. cbn [nver nval nplen]. intros (-> & H1 & H2).
  rewrite src_net_getitem_int_ok. unfold r_getitem_int, r_size, r_first, r_last, r_ver. change (width 4) with 32.
  unfold max_int, max_int_w in H2. change (width 4) with 32 in H2.
  set (F := net_first 32 v p) in *. set (L := net_last 32 v p) in *.
  replace ((- (L - F + 1) <=? 0) && (0 <? 0)) with false by lia.
  replace ((0 <=? 0) && (0 <=? L - F + 1 - 1)) with true by lia.
  unfold addr_of_int_ver, in_range_w, max_int_w. change (4 =? 4) with true. cbv iota.
  replace ((0 <=? F + 0) && (F + 0 <=? 2 ^ 32 - 1)) with true by lia. rewrite Z.add_0_r. reflexivity.
Qed.

Lemma getitem_last n : net4_ok n ->
  src_IPNetwork_getitem_int (nver n) (width (nver n)) (nval n) (nplen n) (-1) = Ok (4, net_last 32 (nval n) (nplen n)).
Proof.
  destruct n as [ver v p]. unfold net4_ok. cbn [nver nval nplen]. intros (-> & H1 & H2).
  rewrite src_net_getitem_int_ok. unfold r_getitem_int, r_size, r_first, r_last, r_ver. change (width 4) with 32.
  unfold max_int, max_int_w in H2. change (width 4) with 32 in H2.
  set (F := net_first 32 v p) in *. set (L := net_last 32 v p) in *.
  replace ((- (L - F + 1) <=? -1) && (-1 <? 0)) with true by lia.
  unfold addr_of_int_ver, in_range_w, max_int_w. change (4 =? 4) with true. cbv iota.
  replace ((0 <=? L + -1 + 1) && (L + -1 + 1 <=? 2 ^ 32 - 1)) with true by lia.
  replace (L + -1 + 1) with L by lia. reflexivity.
Qed.

(* `for cidr in iprange_to_cidrs(start, end): globs.append(_iprange_to_glob(cidr[0], cidr[-1]))` *)
Lemma src_globs_loop2_ok nets : Forall net4_ok nets -> forall acc,
  src_iprange_to_globs_loop2 nets acc =
  do r <- map_outcome (fun c => iprange_to_glob1 (net_first 32 (fst c) (snd c)) (net_last 32 (fst c) (snd c))) (blocks_of nets);
  Ok (acc ++ r)%list.
Proof.
  induction 1 as [|n r Hn _ IH]; intros acc; cbn [src_iprange_to_globs_loop2 blocks_of map map_outcome].
  - cbn [bind]. rewrite app_nil_r. reflexivity.
  - rewrite (getitem_first n Hn), (getitem_last n Hn). cbn [bind fst snd]. rewrite src_i2g_ok.
    destruct (iprange_to_glob1 _ _) as [g|]; [|reflexivity]. cbn [bind]. rewrite IH. fold (blocks_of r).
    destruct (map_outcome _ (blocks_of r)); cbn [bind]; [rewrite <- app_assoc|]; reflexivity.
Qed.

(* both IPv4.  Hypothesis: the blocks iprange_to_cidrs returns for these bounds are IPv4 blocks inside the address space
   (a consequence of C05; the model applies net_first / net_last to them without building the IPAddress objects cidr[0],
   cidr[-1], whose constructor checks the range) *)
Lemma src_iprange_to_globs_v4_ok s e :
  (forall nets, src_iprange_to_cidrs (py_net_of_addr (4, s)) (py_net_of_addr (4, e)) = Ok nets -> Forall net4_ok nets) ->
  src_iprange_to_globs (4, s) (4, e) = iprange_to_globs src_to_cidrs (4, s) (4, e).
Proof.
  intros Hn. unfold src_iprange_to_globs, iprange_to_globs, src_to_cidrs. cbn [fst snd].
  change (src_IPAddress_version 4 (width 4) s) with 4. change (src_IPAddress_version 4 (width 4) e) with 4.
  change (4 =? 4) with true. cbn [negb andb]. cbv zeta. rewrite src_i2g_ok.
  destruct (iprange_to_glob1 s e) as [g|ex]; cbn [bind].
  - rewrite src_valid_glob_ok. cbn [bind]. destruct (negb (valid_glob g)); [|reflexivity].
    cbn [py_try existsb exn_eqb orb].
    destruct (src_iprange_to_cidrs (py_net_of_addr (4, s)) (py_net_of_addr (4, e))) as [nets|] eqn:E; [|reflexivity].
    cbn [bind omap]. rewrite (src_globs_loop2_ok nets (Hn nets eq_refl)).
    destruct (map_outcome _ (blocks_of nets)); reflexivity.
  - destruct ex; try reflexivity.
    cbn [py_try existsb exn_eqb orb].
    destruct (src_iprange_to_cidrs (py_net_of_addr (4, s)) (py_net_of_addr (4, e))) as [nets|] eqn:E; [|reflexivity].
    cbn [bind omap]. rewrite (src_globs_loop2_ok nets (Hn nets eq_refl)).
    destruct (map_outcome _ (blocks_of nets)); reflexivity.
Qed.

(* neither IPv4: AddrConversionError, whatever iprange_to_cidrs is *)
Lemma src_iprange_to_globs_not4_ok to_cidrs sv s ev e : sv <> 4 -> ev <> 4 ->
  src_iprange_to_globs (sv, s) (ev, e) = iprange_to_globs to_cidrs (sv, s) (ev, e).
Proof.
  intros H1 H2. unfold src_iprange_to_globs, iprange_to_globs. cbn [fst snd].
  change (src_IPAddress_version sv (width sv) s) with sv. change (src_IPAddress_version ev (width ev) e) with ev.
  replace (sv =? 4) with false by lia. replace (ev =? 4) with false by lia. reflexivity.
Qed.

(* ---------------------------------------------------------------- glob_to_cidrs, cidr_to_glob *)
Lemma src_glob_to_cidrs_ok s : omap blocks_of (src_glob_to_cidrs s) = glob_to_cidrs src_to_cidrs s.
Proof.
  unfold src_glob_to_cidrs, glob_to_cidrs. rewrite src_glob_to_iptuple_ok.
  destruct (glob_to_iptuple s) as [[a b]|]; reflexivity.
Qed.

Lemma py_index_single {A} (g : A) : py_index [g] 0 = Ok g.
Proof. reflexivity. Qed.

(* IPv4 network inside the address space (prefixlen <= 32 and value in range imply it; see C17_cidr_glob) *)
Lemma src_cidr_to_glob_v4_ok v p : net4_ok {| nver := 4; nval := v; nplen := p |} ->
  (forall nets, src_iprange_to_cidrs (py_net_of_addr (4, net_first 32 v p)) (py_net_of_addr (4, net_last 32 v p)) = Ok nets ->
                Forall net4_ok nets) ->
  src_cidr_to_glob {| nver := 4; nval := v; nplen := p |} = cidr_to_glob src_to_cidrs 4 v p.
Proof.
  intros Hn Hc. unfold src_cidr_to_glob, cidr_to_glob. cbv zeta.
  rewrite (getitem_first _ Hn), (getitem_last _ Hn). cbn [bind nver nval nplen]. change (width 4) with 32.
  rewrite (src_iprange_to_globs_v4_ok _ _ Hc).
  destruct (iprange_to_globs src_to_cidrs (4, net_first 32 v p) (4, net_last 32 v p)) as [[|g [|g2 gl]]|]; try reflexivity.
  cbn [bind length]. 
  replace (negb (Z.of_nat (S (S (length gl))) =? 1)) with true by lia. reflexivity.
Qed.

(* IPv6 network inside the address space: AddrConversionError, whatever iprange_to_cidrs is *)
Lemma src_cidr_to_glob_v6_ok to_cidrs v p :
  0 <= net_first 128 v p <= net_last 128 v p -> net_last 128 v p <= max_int 6 ->
  src_cidr_to_glob {| nver := 6; nval := v; nplen := p |} = cidr_to_glob to_cidrs 6 v p.
Proof.
  intros H1 H2. unfold src_cidr_to_glob, cidr_to_glob. cbv zeta. cbn [nver nval nplen].
  rewrite !src_net_getitem_int_ok. unfold r_getitem_int, r_size, r_first, r_last, r_ver. change (width 6) with 128.
  unfold max_int, max_int_w in H2. change (width 6) with 128 in H2.
  set (F := net_first 128 v p) in *. set (L := net_last 128 v p) in *.
  replace ((- (L - F + 1) <=? 0) && (0 <? 0)) with false by lia.
  replace ((0 <=? 0) && (0 <=? L - F + 1 - 1)) with true by lia.
  replace ((- (L - F + 1) <=? -1) && (-1 <? 0)) with true by lia.
  unfold addr_of_int_ver, in_range_w, max_int_w. change (6 =? 4) with false. change (6 =? 6) with true. cbv iota.
  replace ((0 <=? F + 0) && (F + 0 <=? 2 ^ 128 - 1)) with true by lia.
  replace ((0 <=? L + -1 + 1) && (L + -1 + 1 <=? 2 ^ 128 - 1)) with true by lia.
  cbn [value_error_to_type_error bind].
  rewrite (src_iprange_to_globs_not4_ok to_cidrs 6 _ 6 _) by lia. reflexivity.
Qed.

(* mixed versions: the model says Unsupported (str() of an IPv6 address is not modelled); so does the generated code, because
   py_addr_str does -- after the IPv4 operand, when it comes first, has been printed and read back *)
From NV Require Proofs.C17_str.
Lemma src_iprange_to_globs_mixed_ok to_cidrs sv s ev e : (sv = 4 <-> ev <> 4) -> (sv = 4 -> 0 <= s < 2 ^ 32) ->
  src_iprange_to_globs (sv, s) (ev, e) = iprange_to_globs to_cidrs (sv, s) (ev, e).
Proof.
  intros X Hs. unfold src_iprange_to_globs, iprange_to_globs. cbn [fst snd].
  change (src_IPAddress_version sv (width sv) s) with sv. change (src_IPAddress_version ev (width ev) e) with ev.
  unfold src_iprange_to_globs__iprange_to_glob, py_addr_str. cbn [fst snd].
  destruct (sv =? 4) eqn:E1.
  - assert (sv = 4) by lia. assert (ev <> 4) by tauto. replace (ev =? 4) with false by lia. cbn [negb andb]. cbv zeta.
    rewrite (C17_str.int_to_str4_eq s (Hs ltac:(assumption))). cbn [bind]. rewrite py_map_o_eq.
    change (fun h2 : string => py_int_o 10 h2) with (fun t : string => match py_int 10 t with Some v => Ok v | None => Raise ValueError end).
    assert (K : ints_of_str (join "." (map fmt_d (C17_str.octets_of s))) = Ok (C17_str.octets_of s)).
    { apply C17_str.ints_of_str_octets; [discriminate|].
      eapply Forall_impl; [|apply (C17_str.octets_of_range s (Hs ltac:(assumption)))]. cbn. lia. }
    unfold ints_of_str in K. change ch_dot with "."%char in K. rewrite K. reflexivity.
  - assert (ev = 4) by (destruct (Z.eq_dec ev 4); [assumption|exfalso; apply X in n; lia]). subst ev. reflexivity.
Qed.

(* ---------------------------------------------------------------- the IPGlob class *)
(* the state of an IPGlob object: the two IPAddress objects _start, _end (IPv4) and the slot _glob (None = unset) *)
Definition st_of (o : ipglob) : (Z * Z) * (Z * Z) * option string := ((4, g_start o), (4, g_end o), g_glob o).
Definition obj_of (s e : Z * Z) (g : option string) : ipglob := {| g_start := snd s; g_end := snd e; g_glob := g |}.

(* what C05 says of the translated iprange_to_cidrs on valid ordered IPv4 bounds: IPv4 blocks inside the address space
   (proved from C05 in Proofs/GenOk_Src_C17_closed.v; a hypothesis here, so that this file does not depend on the C05 proofs) *)
Definition to_cidrs_wf : Prop :=
  forall s e nets, 0 <= s <= e -> e < 2 ^ 32 ->
    src_iprange_to_cidrs (py_net_of_addr (4, s)) (py_net_of_addr (4, e)) = Ok nets -> Forall net4_ok nets.

(* the bounds of a glob the model parses are valid and ordered (Proofs/C17.v: valid_glob_iff, convert_spec) *)
From NV Require Proofs.C17.
Lemma iptuple_bounds g a b : glob_to_iptuple g = Ok (a, b) -> 0 <= a <= b /\ b < 2 ^ 32.
Proof.
  intros H. destruct (valid_glob g) eqn:V.
  - apply C17.valid_glob_iff in V. destruct V as (fs & Hf & ->).
    destruct (C17.convert_spec fs Hf) as (E & _ & _ & B1 & B2 & _). rewrite E in H. injection H as <- <-. split; assumption.
  - unfold glob_to_iptuple in H. rewrite V in H. discriminate.
Qed.

Lemma src_ipglob_get_ok s e g : src_IPGlob_get_glob s e g = ipglob_str (obj_of s e g).
Proof. destruct g; reflexivity. Qed.

Lemma src_ipglob_str_ok s e g : src_IPGlob_str s e g = ipglob_str (obj_of s e g).
Proof. destruct g; reflexivity. Qed.

Lemma py_index_head {A} (x : A) r : py_index (x :: r) 0 = Ok x.
Proof. apply py_index_nth; [lia|reflexivity]. Qed.

Lemma first_glob gl : py_index gl 0 = first_of gl.
Proof. destruct gl as [|g r]; [reflexivity|apply py_index_head]. Qed.

(* the setter: success = the new state, failure = the exception (the model also says which state a failing call leaves behind:
   the generated definition does not) *)
Lemma src_ipglob_set_ok s e g ipglob : to_cidrs_wf ->
  src_IPGlob_set_glob s e g ipglob =
  match set_glob src_to_cidrs (obj_of s e g) ipglob with (o', None) => Ok (st_of o') | (_, Some ex) => Raise ex end.
Proof.
  intros W. unfold src_IPGlob_set_glob, set_glob. rewrite src_glob_to_iptuple_ok.
  destruct (glob_to_iptuple ipglob) as [[a b]|] eqn:EG; [|reflexivity]. cbn [omap bind fst snd].
  destruct (iptuple_bounds _ _ _ EG) as [B1 B2].
  rewrite (src_iprange_to_globs_v4_ok a b (fun nets => W a b nets B1 B2)).
  destruct (iprange_to_globs src_to_cidrs (4, a) (4, b)) as [gl|]; [|reflexivity]. cbn [bind]. rewrite first_glob.
  destruct (first_of gl); reflexivity.
Qed.

Lemma src_ipglob_init_ok ipglob : to_cidrs_wf -> src_IPGlob_init ipglob = omap st_of (ipglob_new src_to_cidrs ipglob).
Proof.
  intros W. unfold src_IPGlob_init, ipglob_new. rewrite src_glob_to_iptuple_ok.
  destruct (glob_to_iptuple ipglob) as [[a b]|] eqn:EG; [|reflexivity]. cbn [omap bind fst snd]. unfold py_iprange_init. cbn [fst snd].
  change (negb (4 =? 4)) with false. cbv iota. destruct (a >? b); [reflexivity|]. cbn [bind].
  destruct (iptuple_bounds _ _ _ EG) as [B1 B2].
  rewrite (src_iprange_to_globs_v4_ok a b (fun nets => W a b nets B1 B2)).
  destruct (iprange_to_globs src_to_cidrs (4, a) (4, b)) as [gl|]; [|reflexivity]. cbn [bind]. rewrite first_glob.
  destruct (first_of gl) as [g|]; [|reflexivity]. cbn [bind].
  rewrite (src_ipglob_set_ok (4, a) (4, b) None g W). unfold obj_of. cbn [fst snd].
  destruct (set_glob src_to_cidrs _ g) as [o' [ex|]]; [reflexivity|]. destruct o'; reflexivity.
Qed.

Lemma src_ipglob_getstate_ok s e g : fst s = 4 -> src_IPGlob_getstate s e g = ipglob_getstate (obj_of s e g).
Proof. intros H. unfold src_IPGlob_getstate, py_iprange_getstate, ipglob_getstate, obj_of. cbn [g_start g_end]. rewrite H. reflexivity. Qed.

Lemma src_ipglob_setstate_ok s e ver : s <= e -> to_cidrs_wf ->
  src_IPGlob_setstate (s, e, ver) = omap st_of (ipglob_setstate src_to_cidrs (s, e, ver)).
Proof.
  intros LE W. unfold src_IPGlob_setstate, ipglob_setstate, py_iprange_setstate, addr_of_int_ver.
  destruct (ver =? 4) eqn:E4.
  - destruct (in_range_w 32 s) eqn:Rs; [|reflexivity]. cbn [bind]. destruct (in_range_w 32 e) eqn:Re; [|reflexivity]. cbn [bind fst snd].
    unfold in_range_w, max_int_w in Rs, Re.
    rewrite (src_iprange_to_globs_v4_ok s e (fun nets => W s e nets ltac:(lia) ltac:(lia))).
    destruct (iprange_to_globs src_to_cidrs (4, s) (4, e)) as [gl|]; [|reflexivity]. cbn [bind]. rewrite first_glob.
    destruct (first_of gl) as [g|]; [|reflexivity]. cbn [bind].
    rewrite (src_ipglob_set_ok (4, s) (4, e) None g W). unfold obj_of. cbn [fst snd].
    destruct (set_glob src_to_cidrs _ g) as [o' [ex|]]; [reflexivity|]. destruct o'; reflexivity.
  - destruct (ver =? 6); [|reflexivity].
    destruct (in_range_w 128 s); [|reflexivity]. cbn [bind]. destruct (in_range_w 128 e); [|reflexivity]. cbn [bind fst snd].
    rewrite (src_iprange_to_globs_not4_ok src_to_cidrs 6 s 6 e) by lia. reflexivity.
Qed.

(* everything the C17 source tie states (Props/C17_src.v) *)
Lemma C17_tie_ok :
  (forall token, src__octet_value token = oo (octet_value token) ValueError) /\
  (forall xs sh sa, src_valid_glob_loop1 xs sh sa = Ok (if valid_glob_loop xs sh sa then inr tt else inl false)) /\
  (forall s, src_valid_glob s = Ok (valid_glob s)) /\
  (forall s, src_glob_to_iptuple s = omap (fun t => ((4, fst t), (4, snd t))) (glob_to_iptuple s)) /\
  (forall s, src_glob_to_iprange s = omap (fun t => (4, fst t, snd t)) (glob_to_iprange s)) /\
  (forall lb ub, src_iprange_to_globs__iprange_to_glob (4, lb) (4, ub) = iprange_to_glob1 lb ub) /\
  (forall s e,
     (forall nets, src_iprange_to_cidrs (py_net_of_addr (4, s)) (py_net_of_addr (4, e)) = Ok nets -> Forall net4_ok nets) ->
     src_iprange_to_globs (4, s) (4, e) = iprange_to_globs src_to_cidrs (4, s) (4, e)) /\
  (forall to_cidrs sv s ev e, sv <> 4 -> ev <> 4 ->
     src_iprange_to_globs (sv, s) (ev, e) = iprange_to_globs to_cidrs (sv, s) (ev, e)) /\
  (forall to_cidrs sv s ev e, (sv = 4 <-> ev <> 4) -> (sv = 4 -> 0 <= s < 2 ^ 32) ->
     src_iprange_to_globs (sv, s) (ev, e) = iprange_to_globs to_cidrs (sv, s) (ev, e)) /\
  (forall s, omap blocks_of (src_glob_to_cidrs s) = glob_to_cidrs src_to_cidrs s) /\
  (forall v p, net4_ok {| nver := 4; nval := v; nplen := p |} ->
     (forall nets, src_iprange_to_cidrs (py_net_of_addr (4, net_first 32 v p)) (py_net_of_addr (4, net_last 32 v p)) = Ok nets ->
                   Forall net4_ok nets) ->
     src_cidr_to_glob {| nver := 4; nval := v; nplen := p |} = cidr_to_glob src_to_cidrs 4 v p) /\
  (forall to_cidrs v p, 0 <= net_first 128 v p <= net_last 128 v p -> net_last 128 v p <= max_int 6 ->
     src_cidr_to_glob {| nver := 6; nval := v; nplen := p |} = cidr_to_glob to_cidrs 6 v p) /\
  (forall s e g, src_IPGlob_get_glob s e g = ipglob_str (obj_of s e g)) /\
  (forall s e g, src_IPGlob_str s e g = ipglob_str (obj_of s e g)) /\
  (forall s e g ipglob, to_cidrs_wf ->
     src_IPGlob_set_glob s e g ipglob =
     match set_glob src_to_cidrs (obj_of s e g) ipglob with (o', None) => Ok (st_of o') | (_, Some ex) => Raise ex end) /\
  (forall ipglob, to_cidrs_wf -> src_IPGlob_init ipglob = omap st_of (ipglob_new src_to_cidrs ipglob)) /\
  (forall s e g, fst s = 4 -> src_IPGlob_getstate s e g = ipglob_getstate (obj_of s e g)) /\
  (forall s e ver, s <= e -> to_cidrs_wf ->
     src_IPGlob_setstate (s, e, ver) = omap st_of (ipglob_setstate src_to_cidrs (s, e, ver))).
Proof.
  split; [exact src_octet_value_ok|]. split; [exact src_valid_glob_loop_ok|]. split; [exact src_valid_glob_ok|].
  split; [exact src_glob_to_iptuple_ok|]. split; [exact src_glob_to_iprange_ok|]. split; [exact src_i2g_ok|].
  split; [exact src_iprange_to_globs_v4_ok|]. split; [exact src_iprange_to_globs_not4_ok|]. split; [exact src_iprange_to_globs_mixed_ok|].
  split; [exact src_glob_to_cidrs_ok|]. split; [exact src_cidr_to_glob_v4_ok|]. split; [exact src_cidr_to_glob_v6_ok|].
  split; [exact src_ipglob_get_ok|]. split; [exact src_ipglob_str_ok|]. split; [exact src_ipglob_set_ok|].
  split; [exact src_ipglob_init_ok|]. split; [exact src_ipglob_getstate_ok|exact src_ipglob_setstate_ok].
Qed.
