(* Proofs/C03_Total.v — statements about EVERY argument of IPNetwork(): which exceptions can escape, every network that
   is produced is well formed, NOHOST relates to the flag-less result by clearing exactly the host bits, and the two
   back-ends agree. *)
From Coq Require Import String Ascii.
From NV Require Import Base.Tac Base.PyVal Base.Bits Base.PyStr Base.PyStrFacts Model.IpText Model.FbSocket Model.AddrText
  Model.Ip Model.NetText Proofs.C01 Proofs.C02 Proofs.C03_Str Proofs.C03_Range Proofs.C03.
Import ListNotations.
Open Scope Z_scope.

(* ================================================================ the text transformations never raise anything else *)
Lemma classful_int_cases i : (exists p, classful_prefix_int i = Ok p /\ 0 <= p <= 32) \/ classful_prefix_int i = Raise IndexError.
Proof. destruct (Z_le_dec 0 i); [destruct (Z_le_dec i 255)|].
  - left. exists (classful i). split; [apply classful_prefix_int_ok; lia|apply classful_range].
  - right. apply classful_prefix_int_bad. lia.
  - right. apply classful_prefix_int_bad. lia. Qed.

Lemma pad_tokens_cons t r : exists r', pad_tokens (t :: r) = t :: r'.
Proof. unfold pad_tokens. cbn [app]. eauto. Qed.

Theorem abbrev_total s : exists s', cidr_abbrev_to_verbose s = Ok s'.
Proof. unfold cidr_abbrev_to_verbose. destruct (contains_char ":" s || String.eqb s ""); [eauto|].
  destruct (py_int 10 s) as [i|].
  - destruct (classful_int_cases i) as [(p & -> & _) | ->]; eauto.
  - assert (G : forall part prefix, exists s',
      (let tokens := split "." part in
       if 4 <? len tokens then Ok s
       else let tokens0 := pad_tokens tokens in
            match prefix with
            | Some p => Ok (join "." tokens0 ++ "/" ++ p)%string
            | None => match tokens0 with
                      | [] => Raise IndexError
                      | t0 :: _ => match classful_prefix_str t0 with
                                   | Ok p => Ok (join "." tokens0 ++ "/" ++ fmt_d p)%string
                                   | Raise ValueError => Ok s
                                   | Raise IndexError => Ok s
                                   | Raise e => Raise e
                                   end
                      end
            end) = Ok s').
    { intros part prefix. cbv zeta. destruct (4 <? len (split "." part)); [eauto|]. destruct prefix; [eauto|].
      destruct (split "." part) as [|t r] eqn:E; [exfalso; eapply split_nonempty; eauto|].
      destruct (pad_tokens_cons t r) as (r' & ->). unfold classful_prefix_str.
      destruct (py_int 10 t) as [i|]; [|eauto]. destruct (classful_int_cases i) as [(p & -> & _) | ->]; eauto. }
    destruct (contains_char "/" s) eqn:C.
    + destruct (split1_two s C) as (a & t & -> & _ & _). destruct (py_int 10 t) as [n|]; cbn [bind]; [|eauto].
      destruct ((0 <=? n) && (n <=? 32)); cbn [bind]; [|eauto]. exact (G a (Some t)).
    + cbn [bind]. exact (G s None). Qed.

Lemma map_out_int_token_kind l e : Fb.map_out int_token l = Raise e -> e = AddrFormatError.
Proof. induction l as [|t r IH]; [discriminate|]. cbn [Fb.map_out]. unfold int_token at 1.
  destruct (py_int 10 t); cbn [bind]; [|intros X; now injection X as <-].
  destruct (Fb.map_out int_token r); cbn [bind]; [discriminate|]. intros X. injection X as <-. now apply IH. Qed.

Lemma fmt_d_any_no_slash n : contains_char "/" (fmt_d n) = false.
Proof. destruct (Z_lt_dec n 0).
  - rewrite fmt_d_neg by exact l. rewrite contains_char_cons, fmt_d_no_slash by lia. reflexivity.
  - apply fmt_d_no_slash. lia. Qed.

Lemma map_out_int_token_noslash l r : Fb.map_out int_token l = Ok r -> Forall (fun t => contains_char "/" t = false) r.
Proof. revert r. induction l as [|t l IH]; intros r; cbn [Fb.map_out].
  - intros X. injection X as <-. constructor.
  - unfold int_token at 1. destruct (py_int 10 t) as [n|]; cbn [bind]; [|discriminate].
    destruct (Fb.map_out int_token l) as [r'|]; cbn [bind]; [|discriminate]. intros X. injection X as <-.
    constructor; [apply fmt_d_any_no_slash|now apply IH]. Qed.

Lemma map_out_length {A B} (f : A -> outcome B) l r : Fb.map_out f l = Ok r -> List.length r = List.length l.
Proof. revert r. induction l as [|t l IH]; intros r; cbn [Fb.map_out].
  - intros X. now injection X as <-.
  - destruct (f t); cbn [bind]; [|discriminate]. destruct (Fb.map_out f l) as [r'|]; cbn [bind]; [|discriminate].
    intros X. injection X as <-. cbn. now rewrite (IH r' eq_refl). Qed.

(* expand_partial_address: AddrFormatError or a text without '/' *)
Theorem expand_total s : expand_partial_address s = Raise AddrFormatError \/
  exists e, expand_partial_address s = Ok e /\ contains_char "/" e = false.
Proof. unfold expand_partial_address. destruct (contains_char ":" s); [now left|].
  set (T := if contains_char "." s then _ else _).
  assert (HT : T = Raise AddrFormatError \/ exists r, T = Ok r /\ Forall (fun t => contains_char "/" t = false) r).
  { subst T. destruct (contains_char "." s).
    - destruct (Fb.map_out int_token (split "." s)) as [r|e] eqn:E.
      + right. exists r. split; [reflexivity|]. eapply map_out_int_token_noslash; eauto.
      + left. f_equal. eapply map_out_int_token_kind; eauto.
    - unfold int_token. destruct (py_int 10 s); cbn [bind]; [|now left]. right. eexists. split; [reflexivity|].
      repeat constructor. apply fmt_d_any_no_slash. }
  destruct HT as [-> | (r & -> & NS)]; [now left|]. cbn [bind].
  destruct ((1 <=? len r) && (len r <=? 4)) eqn:L; [|now left]. unfold len in L. right.
  assert (Z0 : contains_char "/" "0" = false) by reflexivity.
  destruct r as [|a [|b [|c [|d [|e r]]]]]; cbn [List.length] in L; try lia; unfold pad_tokens; cbn [List.length Nat.sub repeat app];
    repeat match goal with X : Forall _ (_ :: _) |- _ => inversion X; clear X; subst end;
    (eexists; split; [reflexivity|]); rewrite !contains_char_app;
    repeat match goal with X : contains_char "/" _ = false |- _ => rewrite X; clear X end; reflexivity. Qed.

(* ================================================================ parse_str: outcome classes *)
Lemma split_slash_total s : exists val1 val2, split_slash s = Ok (val1, val2) /\ contains_char "/" val1 = false.
Proof. unfold split_slash. destruct (contains_char "/" s) eqn:C.
  - destruct (split1_two s C) as (a & t & -> & NS & _). eauto.
  - eauto. Qed.

Lemma init_noslash_kind be s ver e : valid_ver ver = true -> contains_char "/" s = false ->
  init_str be s (Some ver) INET_PTON = Raise e -> e = AddrFormatError.
Proof. intros Hver NS H. destruct (reject_kind _ _ _ _ _ H) as [-> | [_ [C | (v & E & N4 & N6)]]]; [reflexivity|congruence|].
  injection E as <-. destruct (width_cases ver Hver) as [[-> _] | [-> _]]; congruence. Qed.

Lemma addr_part_cases be ver val1 : valid_ver ver = true -> contains_char "/" val1 = false ->
  addr_part be ver val1 = Raise AddrFormatError \/ exists v, addr_part be ver val1 = Ok v /\ 0 <= v < 2 ^ width ver.
Proof. intros Hver NS. unfold addr_part. destruct (init_str be val1 (Some ver) INET_PTON) as [[x v]|e] eqn:E.
  - right. exists v. split; [reflexivity|]. eapply init_strict_range; eauto.
  - rewrite (init_noslash_kind be val1 ver e Hver NS E). destruct (ver =? 4) eqn:V4; [|now left].
    destruct (expand_total val1) as [-> | (ex & -> & NSe)]; [now left|]. cbn [bind].
    destruct (init_str be ex (Some ver) INET_PTON) as [[x v]|e'] eqn:E'; cbn [bind].
    + right. exists v. split; [reflexivity|]. eapply init_strict_range; eauto.
    + left. f_equal. eapply init_noslash_kind; eauto. Qed.

Lemma mask_part_cases be ver t : valid_ver ver = true ->
  mask_part be ver t = Raise AddrFormatError \/ exists p, mask_part be ver t = Ok p /\ 0 <= p <= width ver.
Proof. intros Hver. pose proof (width_nonneg ver) as W. unfold mask_part.
  destruct (init_str be t (Some ver) INET_PTON) as [[x m]|e] eqn:E.
  - cbn [bind snd]. destruct (init_strict_range be t ver x m Hver E) as [_ R].
    destruct (is_netmask (width ver) m) eqn:N.
    + apply (is_netmask_iff (width ver)) in N; [|lia|exact R]. destruct N as (p & Hp & ->). right. exists p.
      split; [now apply netmask_to_prefix_ok|exact Hp].
    + destruct (is_hostmask m) eqn:Hm; [|now left].
      apply (is_hostmask_iff (width ver)) in Hm; [|lia|exact R]. destruct Hm as (p & Hp & ->). right. exists p.
      split; [now apply hostmask_to_prefix_ok|exact Hp].
  - left. destruct (reject_kind _ _ _ _ _ E) as [-> | [-> _]]; reflexivity. Qed.

Theorem parse_str_cases be ver s ip : valid_ver ver = true ->
  parse_str be ver s ip = Raise AddrFormatError \/
  exists v p, parse_str be ver s ip = Ok (v, p) /\ 0 <= v < 2 ^ width ver /\ 0 <= p <= width ver.
Proof. intros Hver. pose proof (width_nonneg ver) as W. rewrite parse_str_unfold.
  assert (A : exists s', (if ip then cidr_abbrev_to_verbose s else Ok s) = Ok s') by (destruct ip; [apply abbrev_total|eauto]).
  destruct A as (s' & ->). cbn [bind]. destruct (split_slash_total s') as (val1 & val2 & -> & NS). cbn [bind fst snd].
  destruct (addr_part_cases be ver val1 Hver NS) as [-> | (v & -> & Hv)]; [now left|]. cbn [bind].
  assert (P : prefix_part be ver val2 = Raise AddrFormatError \/ exists n, prefix_part be ver val2 = Ok n).
  { unfold prefix_part. destruct val2 as [t|]; [|eauto]. destruct (py_int 10 t); [eauto|].
    destruct (mask_part_cases be ver t Hver) as [-> | (p & -> & _)]; eauto. }
  destruct P as [-> | (n & ->)]; [now left|]. cbn [bind]. unfold check_prefix.
  destruct ((0 <=? n) && (n <=? width ver)) eqn:C; [|now left]. right. exists v, n. cbn [negb]. repeat split; lia. Qed.

(* ================================================================ net_init: every argument *)
(* a copy-construction source is an existing, well-formed object *)
Definition wf_arg (a : narg) : Prop :=
  match a with
  | ANet n => wf_net n
  | AAddr ver v => valid_ver ver = true /\ 0 <= v < 2 ^ width ver
  | _ => True
  end.

Lemma nh_range ver v p flags : 0 <= p <= width ver -> 0 <= v < 2 ^ width ver -> 0 <= nh ver v p flags < 2 ^ width ver.
Proof. intros Hp Hv. unfold nh. destruct (has_flag flags NOHOST); [|exact Hv].
  pose proof (pow2_pos (width ver - p) ltac:(lia)). pose proof (Z.mod_pos_bound v (2 ^ (width ver - p)) ltac:(lia)).
  pose proof (Z.mod_le v (2 ^ (width ver - p)) ltac:(lia) ltac:(lia)). lia. Qed.

(* the part of parse_ip_network before the NOHOST step does not look at the flags *)
Definition parse_pre (be : backend) (ver : Z) (a : narg) (ip : bool) : outcome (Z * Z) :=
  match a with
  | ATuple [value; prefixlen] =>
      if negb ((0 <=? value) && (value <=? max_int ver)) then Raise AddrFormatError
      else if negb ((0 <=? prefixlen) && (prefixlen <=? width ver)) then Raise AddrFormatError
      else Ok (value, prefixlen)
  | ATuple _ => Raise AddrFormatError
  | AStr s => parse_str be ver s ip
  | _ => Raise TypeError
  end.

Lemma parse_via_pre be ver a ip flags : parse_ip_network be ver a ip flags =
  do vp <- parse_pre be ver a ip; do value <- apply_nohost (width ver) (fst vp) (snd vp) flags; Ok (value, snd vp).
Proof. unfold parse_ip_network, parse_pre. destruct a as [t|s|n|x y|]; try reflexivity.
  - destruct t as [|v [|p [|c r]]]; try reflexivity.
    destruct (negb _); [reflexivity|]. destruct (negb _); reflexivity.
  - destruct (parse_str be ver s ip) as [[v p]|]; reflexivity. Qed.

Lemma parse_pre_cases be ver a ip : valid_ver ver = true ->
  (exists e, parse_pre be ver a ip = Raise e /\
             (e = AddrFormatError \/ e = TypeError /\ (forall t, a <> ATuple t) /\ (forall s, a <> AStr s))) \/
  exists v p, parse_pre be ver a ip = Ok (v, p) /\ 0 <= v < 2 ^ width ver /\ 0 <= p <= width ver.
Proof. intros Hver. unfold parse_pre. destruct a as [t|s|n|x y|].
  - destruct t as [|v [|p [|c r]]]; try (left; eexists; split; [reflexivity|now left]).
    rewrite max_int_eq. destruct ((0 <=? v) && (v <=? 2 ^ width ver - 1)) eqn:E1; cbn [negb]; [|left; eexists; split; [reflexivity|now left]].
    destruct ((0 <=? p) && (p <=? width ver)) eqn:E2; cbn [negb]; [|left; eexists; split; [reflexivity|now left]].
    right. exists v, p. repeat split; lia.
  - destruct (parse_str_cases be ver s ip Hver) as [-> | (v & p & -> & Hv & Hp)].
    + left. eexists. split; [reflexivity|now left].
    + right. exists v, p. auto.
  - left. eexists. split; [reflexivity|]. right. repeat split; intros; discriminate.
  - left. eexists. split; [reflexivity|]. right. repeat split; intros; discriminate.
  - left. eexists. split; [reflexivity|]. right. repeat split; intros; discriminate. Qed.

Lemma parse_ok_of_pre be ver a ip flags v p : parse_pre be ver a ip = Ok (v, p) -> 0 <= v < 2 ^ width ver -> 0 <= p <= width ver ->
  parse_ip_network be ver a ip flags = Ok (nh ver v p flags, p).
Proof. intros H Hv Hp. rewrite parse_via_pre, H. cbn [bind fst snd]. rewrite apply_nohost_ok by assumption. reflexivity. Qed.

Lemma parse_raise_of_pre be ver a ip flags e : parse_pre be ver a ip = Raise e -> parse_ip_network be ver a ip flags = Raise e.
Proof. intros H. rewrite parse_via_pre, H. reflexivity. Qed.

(* net_init decomposed: which (family, value, prefix) the flag-less stages select *)
Definition select (be : backend) (a : narg) (ip : bool) (version : option Z) : outcome (Z * (Z * Z)) :=
  match a with
  | ANet n => Ok (nver n, (nval n, nplen n))
  | AAddr ver v => Ok (ver, (v, width ver))
  | _ =>
      match version with
      | Some v => if v =? 4 then do r <- parse_pre be 4 a ip; Ok (4, r)
                  else if v =? 6 then do r <- parse_pre be 6 a ip; Ok (6, r)
                  else Raise ValueError
      | None =>
          match parse_pre be 4 a ip with
          | Ok r => Ok (4, r)
          | Raise AddrFormatError =>
              match parse_pre be 6 a ip with
              | Ok r => Ok (6, r)
              | Raise AddrFormatError => Raise AddrFormatError
              | Raise e => Raise e
              end
          | Raise e => Raise e
          end
      end
  end.

Definition sel_wf (x : Z * (Z * Z)) : Prop :=
  valid_ver (fst x) = true /\ 0 <= fst (snd x) < 2 ^ width (fst x) /\ 0 <= snd (snd x) <= width (fst x).

Lemma select_cases be a ip version : wf_arg a ->
  (exists e, select be a ip version = Raise e /\
     (e = AddrFormatError \/
      (e = ValueError /\ exists v, version = Some v /\ v <> 4 /\ v <> 6) \/
      (e = TypeError /\ (forall t, a <> ATuple t) /\ (forall s, a <> AStr s)))) \/
  exists x, select be a ip version = Ok x /\ sel_wf x.
Proof. intros WA. unfold select.
  assert (P : forall ver, valid_ver ver = true ->
    (exists e, parse_pre be ver a ip = Raise e /\
               (e = AddrFormatError \/ e = TypeError /\ (forall t, a <> ATuple t) /\ (forall s, a <> AStr s))) \/
    exists v p, parse_pre be ver a ip = Ok (v, p) /\ sel_wf (ver, (v, p))).
  { intros ver Hver. destruct (parse_pre_cases be ver a ip Hver) as [L | (v & p & E & Hv & Hp)]; [now left|].
    right. exists v, p. split; [exact E|]. repeat split; cbn [fst snd]; (assumption || lia). }
  assert (G : (exists e, match version with
      | Some v => if v =? 4 then do r <- parse_pre be 4 a ip; Ok (4, r)
                  else if v =? 6 then do r <- parse_pre be 6 a ip; Ok (6, r) else Raise ValueError
      | None => match parse_pre be 4 a ip with
                | Ok r => Ok (4, r)
                | Raise AddrFormatError => match parse_pre be 6 a ip with
                                           | Ok r => Ok (6, r)
                                           | Raise AddrFormatError => Raise AddrFormatError
                                           | Raise e => Raise e end
                | Raise e => Raise e end
      end = Raise e /\
     (e = AddrFormatError \/ (e = ValueError /\ exists v, version = Some v /\ v <> 4 /\ v <> 6) \/
      (e = TypeError /\ (forall t, a <> ATuple t) /\ (forall s, a <> AStr s)))) \/
    exists x, match version with
      | Some v => if v =? 4 then do r <- parse_pre be 4 a ip; Ok (4, r)
                  else if v =? 6 then do r <- parse_pre be 6 a ip; Ok (6, r) else Raise ValueError
      | None => match parse_pre be 4 a ip with
                | Ok r => Ok (4, r)
                | Raise AddrFormatError => match parse_pre be 6 a ip with
                                           | Ok r => Ok (6, r)
                                           | Raise AddrFormatError => Raise AddrFormatError
                                           | Raise e => Raise e end
                | Raise e => Raise e end
      end = Ok x /\ sel_wf x).
  { destruct version as [v|].
    - case_eqb v 4.
      + destruct (P 4 eq_refl) as [(ex & -> & K) | (x & p & -> & WF)]; cbn [bind].
        * left. exists ex. split; [reflexivity|]. destruct K as [K | K]; auto.
        * right. eexists. split; [reflexivity|exact WF].
      + case_eqb v 6.
        * destruct (P 6 eq_refl) as [(ex & -> & K) | (x & p & -> & WF)]; cbn [bind].
          -- left. exists ex. split; [reflexivity|]. destruct K as [K | K]; auto.
          -- right. eexists. split; [reflexivity|exact WF].
        * left. exists ValueError. split; [reflexivity|]. right. left. split; [reflexivity|]. exists v. auto.
    - destruct (P 4 eq_refl) as [(ex & -> & K) | (x & p & -> & WF)].
      + destruct K as [-> | (-> & K)].
        * destruct (P 6 eq_refl) as [(e6 & -> & K) | (x & p & -> & WF)].
          -- left. destruct K as [-> | (-> & K)]; eexists; (split; [reflexivity|]); auto.
          -- right. eexists. split; [reflexivity|exact WF].
        * left. eexists. split; [reflexivity|]. auto.
      + right. eexists. split; [reflexivity|exact WF]. }
  destruct a as [t|s|n|x y|]; try exact G.
  - right. eexists. split; [reflexivity|]. destruct WA as (H1 & H2 & H3). repeat split; cbn [fst snd]; (assumption || lia).
  - right. eexists. split; [reflexivity|]. destruct WA as (H1 & H2). pose proof (width_nonneg x). repeat split; cbn [fst snd]; (assumption || lia). Qed.

(* net_init = the flag-less selection followed by the NOHOST step *)
Theorem net_init_via_select be a ip version flags : wf_arg a ->
  net_init be a ip version flags =
  match select be a ip version with
  | Ok (ver, (v, p)) => Ok {| nver := ver; nval := nh ver v p flags; nplen := p |}
  | Raise e => Raise e
  end.
Proof. intros WA.
  assert (P : forall ver, valid_ver ver = true ->
    match parse_pre be ver a ip with
    | Ok (v, p) => parse_ip_network be ver a ip flags = Ok (nh ver v p flags, p)
    | Raise e => parse_ip_network be ver a ip flags = Raise e
    end).
  { intros ver Hver. destruct (parse_pre_cases be ver a ip Hver) as [(e & E & _) | (v & p & E & Hv & Hp)]; rewrite E.
    - now apply parse_raise_of_pre.
    - now apply parse_ok_of_pre. }
  assert (G : match version with
      | Some v => if v =? 4 then do r <- parse_ip_network be 4 a ip flags; Ok (mk_net 4 r)
                  else if v =? 6 then do r <- parse_ip_network be 6 a ip flags; Ok (mk_net 6 r) else Raise ValueError
      | None => match parse_ip_network be 4 a ip flags with
                | Ok r => Ok (mk_net 4 r)
                | Raise AddrFormatError => match parse_ip_network be 6 a ip flags with
                                           | Ok r => Ok (mk_net 6 r)
                                           | Raise AddrFormatError => Raise AddrFormatError
                                           | Raise e => Raise e end
                | Raise e => Raise e end
      end =
    match match version with
      | Some v => if v =? 4 then do r <- parse_pre be 4 a ip; Ok (4, r)
                  else if v =? 6 then do r <- parse_pre be 6 a ip; Ok (6, r) else Raise ValueError
      | None => match parse_pre be 4 a ip with
                | Ok r => Ok (4, r)
                | Raise AddrFormatError => match parse_pre be 6 a ip with
                                           | Ok r => Ok (6, r)
                                           | Raise AddrFormatError => Raise AddrFormatError
                                           | Raise e => Raise e end
                | Raise e => Raise e end
      end with
    | Ok (ver, (v, p)) => Ok {| nver := ver; nval := nh ver v p flags; nplen := p |}
    | Raise e => Raise e
    end).
  { pose proof (P 4 eq_refl) as P4. pose proof (P 6 eq_refl) as P6. destruct version as [v|].
    - destruct (v =? 4).
      + destruct (parse_pre be 4 a ip) as [[v4 p4]|e4]; rewrite P4; reflexivity.
      + destruct (v =? 6); [|reflexivity]. destruct (parse_pre be 6 a ip) as [[v6 p6]|e6]; rewrite P6; reflexivity.
    - destruct (parse_pre be 4 a ip) as [[v4 p4]|e4]; rewrite P4; [reflexivity|].
      destruct e4; try reflexivity.
      destruct (parse_pre be 6 a ip) as [[v6 p6]|e6]; rewrite P6; [reflexivity|]. destruct e6; reflexivity. }
  unfold net_init, select. destruct a as [t|s|n|x y|]; try exact G.
  - destruct WA as (H1 & H2 & H3). rewrite apply_nohost_ok by assumption. reflexivity.
  - destruct WA as (H1 & H2). pose proof (width_nonneg x). rewrite apply_nohost_ok by lia. reflexivity. Qed.

(* ================================================================ the statements *)
Theorem exn_kind be a ip version flags e : wf_arg a -> net_init be a ip version flags = Raise e ->
  e = AddrFormatError \/
  (e = ValueError /\ exists v, version = Some v /\ v <> 4 /\ v <> 6) \/
  (e = TypeError /\ (forall t, a <> ATuple t) /\ (forall s, a <> AStr s)).
Proof. intros WA. rewrite net_init_via_select by exact WA.
  destruct (select_cases be a ip version WA) as [(e' & -> & K) | ([ver [v p]] & -> & _)]; [|discriminate].
  intros X. injection X as <-. exact K. Qed.

Theorem result_wf be a ip version flags n : wf_arg a -> net_init be a ip version flags = Ok n -> wf_net n.
Proof. intros WA. rewrite net_init_via_select by exact WA.
  destruct (select_cases be a ip version WA) as [(e' & -> & K) | ([ver [v p]] & -> & (H1 & H2 & H3))]; [discriminate|].
  cbn [fst snd] in *. intros X. injection X as <-. unfold wf_net. cbn [nver nval nplen].
  split; [exact H1|]. split; [now apply nh_range|exact H3]. Qed.

Lemma nh_0 ver v p : nh ver v p 0 = v. Proof. reflexivity. Qed.
Lemma nh_NOHOST ver v p : nh ver v p NOHOST = v - v mod 2 ^ (width ver - p). Proof. reflexivity. Qed.

(* relative to the flag-less result n, any flags value gives the same family and prefix, and the value with exactly the
   host bits cleared when the NOHOST bit is set; a failure does not depend on the flags *)
Theorem nohost_general be a ip version flags n : wf_arg a -> net_init be a ip version 0 = Ok n ->
  net_init be a ip version flags = Ok {| nver := nver n; nval := nh (nver n) (nval n) (nplen n) flags; nplen := nplen n |}.
Proof. intros WA. rewrite !net_init_via_select by exact WA.
  destruct (select be a ip version) as [[ver [v p]]|e]; [|discriminate]. intros X. injection X as <-. reflexivity. Qed.

Theorem failure_flag_free be a ip version flags e : wf_arg a ->
  (net_init be a ip version flags = Raise e <-> net_init be a ip version 0 = Raise e).
Proof. intros WA. rewrite !net_init_via_select by exact WA.
  destruct (select be a ip version) as [[ver [v p]]|e']; split; intros X; (discriminate || exact X). Qed.

(* ================================================================ both back-ends *)
Lemma parse_str_be be ver s ip : parse_str be ver s ip = parse_str Platform ver s ip.
Proof. rewrite !parse_str_unfold. destruct (if ip then _ else _) as [s'|]; [|reflexivity]. cbn [bind].
  destruct (split_slash s') as [[val1 val2]|]; [|reflexivity]. cbn [bind fst snd].
  assert (A : addr_part be ver val1 = addr_part Platform ver val1).
  { unfold addr_part. rewrite (init_str_be be val1). destruct (init_str Platform val1 (Some ver) INET_PTON) as [|e]; [reflexivity|].
    destruct e; try reflexivity. destruct (ver =? 4); [|reflexivity]. destruct (expand_partial_address val1) as [ex|]; [|reflexivity].
    cbn [bind]. now rewrite (init_str_be be ex). }
  assert (M : prefix_part be ver val2 = prefix_part Platform ver val2).
  { unfold prefix_part, mask_part. destruct val2 as [t|]; [|reflexivity]. now rewrite (init_str_be be t). }
  now rewrite A, M. Qed.

Theorem net_init_be be a ip version flags : net_init be a ip version flags = net_init Platform a ip version flags.
Proof. assert (P : forall ver, parse_ip_network be ver a ip flags = parse_ip_network Platform ver a ip flags).
  { intros ver. unfold parse_ip_network. destruct a; try reflexivity. now rewrite parse_str_be. }
  unfold net_init. destruct a; try reflexivity; now rewrite !P. Qed.

Theorem net_str_be be n : net_str be n = net_str Platform n.
Proof. unfold net_str. now rewrite int_to_str_be. Qed.
