(* Proofs/Coherence_Net.v — coherence of the model copies, part 1:
     family 1  first / last / size / cidr / key of a network as spelled in Ip, Span, Sets, Partition-level proofs (C09),
               Contains, Classify, ListLike, Iana, Order, Merge, Splitter
     family 4  the integer constructors (IPAddress(int[, version]), IPNetwork((value, prefixlen), version))
               as spelled in Ip, AddrOps, SrcPrelude, Partition, Span, Conv, Order, Sets, NetText, Subnet
     family 6  IPNetwork.__iadd__/__isub__/next/previous/supernet: Subnet vs Sets
   Every model file is `Require`d without `Import`: all names are qualified by their model. *)
From NV Require Import Base.Tac Base.PyVal Base.Bits Model.Ip.
From NV Require Model.SrcPrelude Model.Span Model.Partition Model.Merge Model.Sets Model.Contains Model.Classify
  Model.ListLike Model.Iana Model.Order Model.AddrOps Model.Conv Model.Subnet Model.Splitter Model.NetText
  Model.AddrText Model.Glob Model.PySlice.
From NV Require Proofs.C02 Proofs.C04 Proofs.C09 Proofs.C11 Proofs.C12_Lex.
Open Scope Z_scope.

(* ================================================================ object translations
   The same three kinds of object (IPAddress / IPNetwork / IPRange) are declared four times. *)
Definition cl_of (o : Contains.ipobj) : Classify.ipobj :=
  match o with
  | Contains.Addr ver v => Classify.OAddr ver v
  | Contains.Net ver v p => Classify.ONet ver v p
  | Contains.Rng ver s e => Classify.ORange ver s e
  end.
Definition ord_of (o : Contains.ipobj) : Order.obj :=
  match o with
  | Contains.Addr ver v => Order.Addr ver v
  | Contains.Net ver v p => Order.Net ver v p
  | Contains.Rng ver s e => Order.Range ver s e
  end.
(* the ranged classes of ListLike as Contains objects (an IPGlob is an IPv4 IPRange) *)
Definition co_of_ranged (x : ListLike.ranged) : Contains.ipobj :=
  match x with
  | ListLike.RNet ver v p => Contains.Net ver v p
  | ListLike.RRange ver s e => Contains.Rng ver s e
  | ListLike.RGlob s e => Contains.Rng 4 s e
  end.
(* an IPNetwork record as an object of each model *)
Definition co_net (n : net) : Contains.ipobj := Contains.Net (nver n) (nval n) (nplen n).
Definition cl_net (n : net) : Classify.ipobj := Classify.ONet (nver n) (nval n) (nplen n).
Definition ord_net (n : net) : Order.obj := Order.Net (nver n) (nval n) (nplen n).
(* a key of an IANA dictionary as a Contains object / as a Classify table row (networks and ranges) *)
Definition co_of_irow (r : Iana.irow) : Contains.ipobj :=
  match Iana.r_kind r with
  | Iana.KN => Contains.Net (Iana.r_ver r) (Iana.r_x r) (Iana.r_y r)
  | Iana.KG => Contains.Rng (Iana.r_ver r) (Iana.r_x r) (Iana.r_y r)
  | Iana.KA => Contains.Addr (Iana.r_ver r) (Iana.r_x r)
  end.
Definition co_of_row (r : Classify.row) : Contains.ipobj :=
  if Classify.rkind r =? 0 then Contains.Net (Classify.rver r) (Classify.rfst r) (Classify.rsnd r)
  else Contains.Rng (Classify.rver r) (Classify.rfst r) (Classify.rsnd r).

Lemma cl_of_over o : Classify.over (cl_of o) = Contains.over o.
Proof. destruct o; reflexivity. Qed.

(* ================================================================ family 1: first / last / size / cidr / key
   Python: IPNetwork.first / .last / .size / .cidr / .key(), IPRange.first / .last, IPListMixin.size *)

(* Span and Sets spell IPNetwork.first/.last through Ip.net_first/net_last: no hypothesis *)
Lemma coh_span_first wd n : Span.nfirst wd n = net_first (wd (nver n)) (nval n) (nplen n).
Proof. reflexivity. Qed.
Lemma coh_span_last wd n : Span.nlast wd n = net_last (wd (nver n)) (nval n) (nplen n).
Proof. reflexivity. Qed.
Lemma coh_sets_first n : Sets.nf n = net_first (width (nver n)) (nval n) (nplen n).
Proof. reflexivity. Qed.
Lemma coh_sets_last n : Sets.nl n = net_last (width (nver n)) (nval n) (nplen n).
Proof. reflexivity. Qed.
Lemma coh_sets_size n : Sets.nsize n = net_size (width (nver n)) (nval n) (nplen n).
Proof. reflexivity. Qed.
Lemma coh_sets_cidr n :
  (nval (Sets.ncidr n), nplen (Sets.ncidr n)) = net_cidr (width (nver n)) (nval n) (nplen n) /\
  nver (Sets.ncidr n) = nver n.
Proof. split; [|reflexivity]. unfold Sets.ncidr. cbn [nval nplen]. symmetry. apply surjective_pairing. Qed.

(* the four object-level spellings of .first/.last agree on every object (no hypothesis) *)
Lemma coh_obj_first o :
  Classify.obj_first (cl_of o) = Contains.obj_first width o /\
  Classify.obj_last (cl_of o) = Contains.obj_last width o.
Proof. destruct o; split; reflexivity. Qed.
Lemma coh_ranged_first x :
  ListLike.r_first x = Contains.obj_first width (co_of_ranged x) /\
  ListLike.r_last x = Contains.obj_last width (co_of_ranged x) /\
  ListLike.r_ver x = Contains.over (co_of_ranged x).
Proof. destruct x; repeat split; reflexivity. Qed.
Lemma coh_ranged_size x :
  ListLike.r_size x = Contains.obj_last width (co_of_ranged x) - Contains.obj_first width (co_of_ranged x) + 1.
Proof. destruct x; reflexivity. Qed.
Lemma coh_iana_row_first r :
  Iana.row_first r = Contains.obj_first width (co_of_irow r) /\
  Iana.row_last r = Contains.obj_last width (co_of_irow r).
Proof. unfold Iana.row_first, Iana.row_last, co_of_irow. destruct (Iana.r_kind r); split; reflexivity. Qed.
Lemma coh_classify_row_first r :
  Classify.row_first r = Contains.obj_first width (co_of_row r) /\
  Classify.row_last r = Contains.obj_last width (co_of_row r).
Proof. unfold Classify.row_first, Classify.row_last, co_of_row. destruct (Classify.rkind r =? 0); split; reflexivity. Qed.
Lemma coh_net_obj_first n :
  Contains.obj_first width (co_net n) = Sets.nf n /\ Contains.obj_last width (co_net n) = Sets.nl n.
Proof. split; reflexivity. Qed.
Lemma coh_merge_first n : Merge.mi_first (Merge.MNet n) = Sets.nf n /\ Merge.mi_last (Merge.MNet n) = Sets.nl n.
Proof. split; reflexivity. Qed.

(* Order.key() of a network / a range lists version, first, last of the other models *)
Lemma coh_order_key o :
  Order.key (ord_of o) =
  match o with
  | Contains.Addr ver v => [ver; v]
  | _ => [Contains.over o; Contains.obj_first width o; Contains.obj_last width o]
  end.
Proof. destruct o; reflexivity. Qed.
Lemma coh_order_range_size s e : Order.range_size s e = ListLike.r_size (ListLike.RRange 4 s e).
Proof. reflexivity. Qed.

(* Python: sys.maxsize (`_sys_maxint`), the bound of IPSet.__len__ (Sets) and of IPListMixin.__len__ / slicing
   (ListLike through PySlice) *)
Lemma coh_sys_maxint : Sets.sys_maxint = PySlice.ssize_max.
Proof. reflexivity. Qed.

(* the arithmetic spellings (Proofs/C09 first_of/last_of/cidr_of over model blocks; Proofs/C04 lo/hi) need the value
   and the prefix in range: the bit identities do not hold outside *)
Lemma coh_c09_first w c : C09.wf_cblk w c ->
  C09.first_of w c = net_first w (fst c) (snd c) /\
  C09.last_of w c = net_last w (fst c) (snd c) /\
  C09.cidr_of w c = net_cidr w (fst c) (snd c).
Proof.
  intros (Hv & Hp). unfold C09.last_of, C09.cidr_of, C09.first_of.
  rewrite C02.net_first_eq, C02.net_last_eq, C02.net_cidr_eq by lia. unfold floor2. repeat split.
Qed.
Lemma coh_c04_lo_hi W o : C04.wf_obj W o ->
  C04.lo W o = Contains.obj_first W o /\ C04.hi W o = Contains.obj_last W o.
Proof. intros H. split; symmetry; [apply C04.obj_first_eq|apply C04.obj_last_eq]; exact H. Qed.

(* IPNetwork.__eq__ : Sets.key_eqb (IPSet's dict keys), Order.py_eq, Splitter.blk_eqb (the set of SubnetSplitter) *)
Lemma tuple_eq3 a1 a2 a3 b1 b2 b3 :
  Order.tuple_cmp Order.OpEq [a1; a2; a3] [b1; b2; b3] = (a1 =? b1) && (a2 =? b2) && (a3 =? b3).
Proof.
  cbn [Order.tuple_cmp Order.z_cmp length].
  destruct (a1 =? b1); [|reflexivity]. destruct (a2 =? b2); [|reflexivity]. destruct (a3 =? b3); reflexivity.
Qed.
Lemma coh_key_eqb a b : Sets.key_eqb a b = Order.py_eq (ord_net a) (ord_net b).
Proof. unfold Order.py_eq, ord_net. cbn [Order.key]. rewrite tuple_eq3. reflexivity. Qed.
Lemma coh_blk_eqb a b : nver a = nver b ->
  Splitter.blk_eqb (width (nver a)) (Merge.cblk_of_net a) (Merge.cblk_of_net b) = Sets.key_eqb a b.
Proof.
  intros E. unfold Splitter.blk_eqb, Sets.key_eqb, Sets.nf, Sets.nl, Span.nfirst, Span.nlast, Merge.cblk_of_net.
  cbn [fst snd]. rewrite <- E, Z.eqb_refl. reflexivity.
Qed.

(* ================================================================ family 4: integer constructors *)
(* Python: IPAddress.__init__(int, version) (lines 282-319) *)
Lemma coh_ctor_int i :
  AddrOps.ctor_int i None = addr_of_int i /\
  forall ver, AddrOps.ctor_int i (Some ver) = addr_of_int_ver i ver /\
              AddrOps.obj_new i ver = addr_of_int_ver i ver /\
              SrcPrelude.mk_addr ver i = addr_of_int_ver i ver.
Proof. split; [reflexivity|]. intros ver. repeat split. Qed.

(* the explicit-version constructor is the width-level range check ctor_w (used by the bitwise operators of Ip) *)
Lemma coh_addr_of_int_ver i ver :
  addr_of_int_ver i ver =
  if valid_ver ver then (do v <- ctor_w (width ver) i; Ok (ver, v)) else Raise ValueError.
Proof.
  unfold addr_of_int_ver, valid_ver, ctor_w, width.
  case_eqb ver 4.
  - subst. cbn [orb]. destruct (in_range_w 32 i); reflexivity.
  - cbn [orb]. case_eqb ver 6; [|reflexivity]. subst. destruct (in_range_w 128 i); reflexivity.
Qed.

(* the implicit-version constructor picks the family by magnitude and then IS the explicit one *)
Lemma coh_addr_of_int i :
  addr_of_int i = if i <=? max_int 4 then addr_of_int_ver i 4 else addr_of_int_ver i 6.
Proof.
  unfold addr_of_int, addr_of_int_ver, in_range_w. change (4 =? 4) with true. change (6 =? 4) with false.
  change (6 =? 6) with true. cbv iota. change (max_int_w 32) with (max_int 4). change (max_int_w 128) with (max_int 6).
  assert (max_int 4 < max_int 6) by (vm_compute; reflexivity).
  assert (0 <= max_int 4) by (vm_compute; discriminate).
  case_leb i (max_int 4).
  - case_leb 0 i; cbn [andb]; [reflexivity|].
    case_ltb (max_int 4) i; [lia|]. reflexivity.
  - rewrite andb_false_r. case_ltb (max_int 4) i; [|lia]. cbn [andb].
    case_leb 0 i; [|lia]. cbn [andb]. reflexivity.
Qed.

(* Python: IPNetwork((value, prefixlen), version) = IPNetwork.__init__ + tuple branch of parse_ip_network (774-785) *)
Lemma coh_tuple_span_partition wd ver v p :
  Span.net_of_tuple wd ver v p = omap (Merge.net_of_cblk ver) (Partition.net_of_tuple (wd ver) v p).
Proof.
  unfold Span.net_of_tuple, Partition.net_of_tuple.
  destruct ((0 <=? v) && (v <=? max_int_w (wd ver))); cbn [negb]; [|reflexivity].
  destruct ((0 <=? p) && (p <=? wd ver)); reflexivity.
Qed.
Lemma coh_tuple_conv ver v p : Conv.net_of_tuple ver v p = Span.net_of_tuple width ver v p.
Proof. reflexivity. Qed.
Lemma coh_tuple_mk_net ver v p :
  SrcPrelude.mk_net ver v p = if valid_ver ver then Span.net_of_tuple width ver v p else Raise ValueError.
Proof. reflexivity. Qed.
Lemma coh_tuple_order v p ver : Order.net_of_tuple v p ver = omap ord_net (SrcPrelude.mk_net ver v p).
Proof.
  unfold Order.net_of_tuple, Order.parse_ip_network_tuple, SrcPrelude.mk_net, valid_ver.
  case_eqb ver 4.
  - subst. cbn [orb]. destruct ((0 <=? v) && (v <=? max_int 4)); cbn [negb bind omap]; [|reflexivity].
    destruct ((0 <=? p) && (p <=? width 4)); reflexivity.
  - cbn [orb]. case_eqb ver 6; [|reflexivity]. subst.
    destruct ((0 <=? v) && (v <=? max_int 6)); cbn [negb bind omap]; [|reflexivity].
    destruct ((0 <=? p) && (p <=? width 6)); reflexivity.
Qed.
(* the full constructor of NetText with a 2-tuple, an explicit version and no NOHOST flag *)
Lemma coh_tuple_nettext be v p ip ver flags : AddrText.has_flag flags NetText.NOHOST = false ->
  NetText.net_init be (NetText.ATuple [v; p]) ip (Some ver) flags = SrcPrelude.mk_net ver v p.
Proof.
  intros F. unfold NetText.net_init, NetText.parse_ip_network, NetText.apply_nohost, SrcPrelude.mk_net, valid_ver.
  rewrite F.
  case_eqb ver 4.
  - subst. cbn [orb]. destruct ((0 <=? v) && (v <=? max_int 4)); cbn [negb bind]; [|reflexivity].
    destruct ((0 <=? p) && (p <=? width 4)); reflexivity.
  - cbn [orb]. case_eqb ver 6; [|reflexivity]. subst.
    destruct ((0 <=? v) && (v <=? max_int 6)); cbn [negb bind]; [|reflexivity].
    destruct ((0 <=? p) && (p <=? width 6)); reflexivity.
Qed.
(* IPNetwork(IPAddress(ver, v)) (copy constructor of NetText) is Merge.addr_net *)
Lemma coh_addr_net_nettext be ver v ip version flags : AddrText.has_flag flags NetText.NOHOST = false ->
  NetText.net_init be (NetText.AAddr ver v) ip version flags = Ok (Merge.addr_net ver v).
Proof. intros F. unfold NetText.net_init, NetText.apply_nohost. rewrite F. reflexivity. Qed.
(* IPSet's IPNetwork(IPAddress(int)) *)
Lemma coh_net_of_int i :
  Sets.net_of_int i = do a <- AddrOps.ctor_int i None; Ok (Merge.addr_net (fst a) (snd a)).
Proof. reflexivity. Qed.

(* BaseIP._set_value / IPNetwork._set_prefixlen with an int: Ip (C02) vs Subnet (C11) *)
Lemma coh_set_value n z :
  set_value n (SInt z) =
  omap (Merge.net_of_cblk (nver n)) (Subnet.set_value_w (width (nver n)) (Merge.cblk_of_net n) z).
Proof.
  unfold set_value, Subnet.set_value_w, in_range_w.
  destruct ((0 <=? z) && (z <=? max_int_w (width (nver n)))); reflexivity.
Qed.
Lemma coh_set_prefixlen n z :
  set_prefixlen n (SInt z) =
  omap (Merge.net_of_cblk (nver n)) (Subnet.set_prefixlen_w (width (nver n)) (Merge.cblk_of_net n) z).
Proof.
  unfold set_prefixlen, Subnet.set_prefixlen_w.
  destruct ((0 <=? z) && (z <=? width (nver n))); reflexivity.
Qed.

(* IPNetwork.cidr: Subnet.cidr_checked (with the constructor's checks) vs Ip.net_cidr; the checks pass for
   well-formed networks (value and prefix in range) *)
Lemma coh_cidr_checked w v p : 0 <= p <= w -> 0 <= v < 2 ^ w ->
  Subnet.cidr_checked w (v, p) = Ok (net_cidr w v p).
Proof. intros Hp Hv. rewrite C11.cidr_checked_ok, C02.net_cidr_eq by lia. reflexivity. Qed.

(* ================================================================ family 6: stepping and supernets *)
(* Python: IPNetwork.__iadd__/__isub__ (1088-1128) — Sets.net_next/net_previous (step 1, used by IPSet's
   sibling merge) are literally Subnet.net_iadd/net_isub with num = 1: no hypothesis *)
Lemma coh_sets_next_iadd n :
  Sets.net_next n = omap (Merge.net_of_cblk (nver n)) (Subnet.net_iadd (width (nver n)) (Merge.cblk_of_net n) 1).
Proof.
  unfold Sets.net_next, Subnet.net_iadd, Merge.cblk_of_net.
  destruct (_ >? _); [reflexivity|]. destruct (_ <? 0); reflexivity.
Qed.
Lemma coh_sets_previous_isub n :
  Sets.net_previous n = omap (Merge.net_of_cblk (nver n)) (Subnet.net_isub (width (nver n)) (Merge.cblk_of_net n) 1).
Proof.
  unfold Sets.net_previous, Subnet.net_isub, Merge.cblk_of_net.
  destruct (_ <? 0); [reflexivity|]. destruct (_ >? _); reflexivity.
Qed.
(* Python: IPNetwork.next()/previous() (1230-1252) copy self.network first; for a well-formed network the copy
   changes nothing that __iadd__ reads *)
Lemma coh_next_iadd w v p k : 0 <= p <= w -> 0 <= v < 2 ^ w ->
  Subnet.net_next w (v, p) k = Subnet.net_iadd w (v, p) k /\
  Subnet.net_previous w (v, p) k = Subnet.net_isub w (v, p) k.
Proof.
  intros Hp Hv.
  destruct (C11.net_next_spec w v p k Hp Hv) as [N1 N2]. destruct (C11.net_iadd_spec w v p k Hp Hv) as [A1 A2].
  destruct (C11.net_previous_spec w v p k Hp Hv) as [P1 P2]. destruct (C11.net_isub_spec w v p k Hp Hv) as [S1 S2].
  split.
  - destruct (Z_le_gt_dec 0 (floor2 v (w - p) + k * 2 ^ (w - p))) as [L|L];
      [destruct (Z_le_gt_dec (floor2 v (w - p) + k * 2 ^ (w - p) + 2 ^ (w - p) - 1) (2 ^ w - 1)) as [M|M]|].
    + rewrite N1, A1 by (unfold C11.fits; lia). reflexivity.
    + rewrite N2, A2 by (unfold C11.fits; lia). reflexivity.
    + rewrite N2, A2 by (unfold C11.fits; lia). reflexivity.
  - destruct (Z_le_gt_dec 0 (floor2 v (w - p) - k * 2 ^ (w - p))) as [L|L];
      [destruct (Z_le_gt_dec (floor2 v (w - p) - k * 2 ^ (w - p) + 2 ^ (w - p) - 1) (2 ^ w - 1)) as [M|M]|].
    + rewrite P1, S1 by (unfold C11.fits; lia). reflexivity.
    + rewrite P2, S2 by (unfold C11.fits; lia). reflexivity.
    + rewrite P2, S2 by (unfold C11.fits; lia). reflexivity.
Qed.
Lemma coh_sets_next n : C02.wf_net n ->
  Sets.net_next n = omap (Merge.net_of_cblk (nver n)) (Subnet.net_next (width (nver n)) (Merge.cblk_of_net n) 1) /\
  Sets.net_previous n = omap (Merge.net_of_cblk (nver n)) (Subnet.net_previous (width (nver n)) (Merge.cblk_of_net n) 1).
Proof.
  intros (_ & Hv & Hp). unfold Merge.cblk_of_net.
  destruct (coh_next_iadd (width (nver n)) (nval n) (nplen n) 1 Hp Hv) as [-> ->].
  split; [apply coh_sets_next_iadd|apply coh_sets_previous_isub].
Qed.

(* Python: IPNetwork.supernet(prefixlen=0) (1254-1275): the generator-style model of Subnet and the list of Sets *)
Lemma supernets_from_eq n : C02.wf_net n -> forall fuel q, 0 <= q <= nplen n -> (Z.to_nat (nplen n - q) < fuel)%nat ->
  map Merge.cblk_of_net (Sets.supernets_from fuel n q) =
  map (fun r => (floor2 (nval n) (width (nver n) - r), r)) (C11.zseq q (Z.to_nat (nplen n - q))).
Proof.
  intros (_ & Hv & Hp). induction fuel as [|f IH]; intros q Hq Hf; [lia|]. cbn [Sets.supernets_from].
  case_eqb q (nplen n).
  - subst q. replace (Z.to_nat (nplen n - nplen n)) with O by lia. reflexivity.
  - replace (Z.to_nat (nplen n - q)) with (S (Z.to_nat (nplen n - (q + 1)))) by lia.
    rewrite C11.zseq_S. cbn [map]. rewrite IH by lia. f_equal.
    unfold Sets.ncidr, Merge.cblk_of_net. cbn [nver nval nplen].
    rewrite (C02.net_cidr_eq (width (nver n)) (nval n) (nplen n)) by lia. cbn [fst snd].
    pose proof (C11.first_in_range (width (nver n)) (nval n) (nplen n) Hp Hv).
    rewrite C02.net_cidr_eq by lia. cbn [fst snd].
    rewrite C11.floor2_floor2 by lia. reflexivity.
Qed.
Lemma coh_supernets n : C02.wf_net n ->
  Subnet.supernet (width (nver n)) (Merge.cblk_of_net n) 0 = Ok (map Merge.cblk_of_net (Sets.supernets n)).
Proof.
  intros W. pose proof W as (_ & Hv & Hp). unfold Merge.cblk_of_net at 1.
  rewrite C11.supernet_spec by lia. f_equal. unfold Sets.supernets.
  rewrite supernets_from_eq by (try assumption; lia). rewrite !Z.sub_0_r. reflexivity.
Qed.
