(* Proofs/GenOk_Src_C08_b.v — source tie for C08, second part (tag SRCF): the definitions regenerated from the text of
   * netaddr/strategy/eui48.py, eui64.py (Gen/pysrc_eui48b_gen.v, pysrc_eui64b_gen.v): int_to_packed, packed_to_int, valid_bits,
     bits_to_int, int_to_bits, valid_bin, int_to_bin, bin_to_int, and
   * netaddr/eui/__init__.py, class EUI (Gen/pysrc_euib_gen.v): words, packed, bin, bits
   equal the hand-written models: Model/Codec.v eui48_int_to_packed / eui48_packed_to_int / eui64_.. / valid_bits / bits_to_int /
   valid_bin / bin_to_int / int_to_bin (the models of the module-level functions, property C15) and Model/Eui.v int_to_bits,
   eui_words, eui_packed, eui_bin, eui_bits (the models the theorems of Props/C08.v are about).
   A dialect class is the record of its four attributes; a bytes object is the list of its byte values (eui_packed gives
   the same bytes as a latin-1 string); `self._module.f(..)` is `if version = 48 then eui48.f(..) else if version = 64 then
   eui64.f(..) else Unsupported`, so the EUI methods are tied under the class invariant version = 48 \/ version = 64.
   eui_bin is tied for 0 <= value (Eui.int_to_bin answers Unsupported for a negative value, the code formats it). *)
From Coq Require Import String Ascii.
From NV Require Import Base.Tac Base.Bits Base.PyVal Base.PyStr Base.PyStrFacts Model.Ip Model.Codec Model.Eui Model.SrcPrelude Model.SrcPreludeStr
  Model.SrcPreludeEui Model.SrcPreludeEui2
  Gen.pysrc_strategy_gen Gen.pysrc_eui48_gen Gen.pysrc_eui64_gen Gen.pysrc_eui_gen
  Gen.pysrc_eui48b_gen Gen.pysrc_eui64b_gen Gen.pysrc_euib_gen Proofs.GenOk_Src_C15 Proofs.GenOk_Src_C08.
Import ListNotations.
Open Scope Z_scope.

Definition wf_ver (ver : Z) : Prop := ver = 48 \/ ver = 64.

(* the regenerated default dialect records *)
Lemma src_default_rec_ok :
  src_eui48_DEFAULT_DIALECT_rec = default_dialect 48 /\ src_eui64_DEFAULT_EUI64_DIALECT_rec = default_dialect 64.
Proof. split; reflexivity. Qed.

Definition dflt (ver : Z) (d : option Eui.dialect) : Eui.dialect := match d with Some x => x | None => default_dialect ver end.

(* ---- int_to_packed / packed_to_int ---- *)
Lemma src_eui48_int_to_packed_ok v : src_eui48_int_to_packed v = Codec.eui48_int_to_packed v.
Proof. reflexivity. Qed.

Lemma src_eui48_p2i_loop_ok xs : forall i acc, src_eui48_packed_to_int_loop1 xs i acc = Codec.lor_words xs i 8 acc.
Proof. induction xs as [|x r IH]; intros; cbn [src_eui48_packed_to_int_loop1 Codec.lor_words]; [reflexivity|apply IH]. Qed.

Lemma src_eui48_packed_to_int_ok p : src_eui48_packed_to_int p = Codec.eui48_packed_to_int p.
Proof.
  unfold src_eui48_packed_to_int, Codec.eui48_packed_to_int, py_struct_unpack.
  destruct (Codec.struct_unpack _ p) as [ws|]; [|reflexivity]. cbn [bind]. rewrite src_eui48_p2i_loop_ok. reflexivity.
Qed.

Lemma src_eui64_int_to_words_none v : src_eui64_int_to_words v None = Codec.int_to_words v 8 8.
Proof.
  destruct src_eui64_words_default_ok as (_ & B & _). rewrite (B v mac_eui48). unfold eui_words. cbn [ever evalue default_dialect].
  change (word_size (if 64 =? 64 then eui64_base else mac_eui48)) with 8.
  change (num_words (if 64 =? 64 then eui64_base else mac_eui48)) with 8. apply eui_int_to_words_codec; lia.
Qed.

Lemma src_eui64_int_to_packed_ok dd v : Codec.d_ws dd = 8 -> Codec.d_nw dd = 8 ->
  src_eui64_int_to_packed v = Codec.eui64_int_to_packed dd v.
Proof.
  intros H1 H2. unfold src_eui64_int_to_packed, Codec.eui64_int_to_packed. rewrite src_eui64_int_to_words_none, H1, H2. reflexivity.
Qed.

Lemma src_eui64_p2i_loop_ok xs : forall i acc, src_eui64_packed_to_int_loop1 xs i acc = Codec.lor_words xs i 8 acc.
Proof. induction xs as [|x r IH]; intros; cbn [src_eui64_packed_to_int_loop1 Codec.lor_words]; [reflexivity|apply IH]. Qed.

Lemma src_eui64_packed_to_int_ok p : src_eui64_packed_to_int p = Codec.eui64_packed_to_int p.
Proof.
  unfold src_eui64_packed_to_int, Codec.eui64_packed_to_int, py_struct_unpack.
  destruct (Codec.struct_unpack _ p) as [ws|]; [|reflexivity]. cbn [bind]. rewrite src_eui64_p2i_loop_ok. reflexivity.
Qed.

(* ---- valid_bits / bits_to_int / valid_bin / bin_to_int / int_to_bin / int_to_bits ---- *)
Lemma src_eui48_bits_ok bits d :
  src_eui48_valid_bits bits d = Ok (Codec.valid_bits bits 48 (word_sep (dflt 48 d))) /\
  src_eui48_bits_to_int bits d = Codec.bits_to_int bits 48 (word_sep (dflt 48 d)).
Proof.
  unfold src_eui48_valid_bits, src_eui48_bits_to_int. split; [apply src_valid_bits_ok|apply src_bits_to_int_ok].
Qed.

Lemma src_eui64_bits_ok bits d :
  src_eui64_valid_bits bits d = Ok (Codec.valid_bits bits 64 (word_sep (dflt 64 d))) /\
  src_eui64_bits_to_int bits d = Codec.bits_to_int bits 64 (word_sep (dflt 64 d)).
Proof.
  unfold src_eui64_valid_bits, src_eui64_bits_to_int. split; [apply src_valid_bits_ok|apply src_bits_to_int_ok].
Qed.

Lemma src_eui48_bin_ok s d v :
  src_eui48_valid_bin s d = Ok (Codec.valid_bin s 48) /\ src_eui48_bin_to_int s = Codec.bin_to_int s 48 /\
  src_eui48_int_to_bin v = Codec.int_to_bin v 48.
Proof.
  unfold src_eui48_valid_bin, src_eui48_bin_to_int, src_eui48_int_to_bin.
  split; [apply src_valid_bin_ok; discriminate|]. split; [apply src_bin_to_int_ok; discriminate|apply src_int_to_bin_ok].
Qed.

Lemma src_eui64_bin_ok s d v :
  src_eui64_valid_bin s d = Ok (Codec.valid_bin s 64) /\ src_eui64_bin_to_int s = Codec.bin_to_int s 64 /\
  src_eui64_int_to_bin v = Codec.int_to_bin v 64.
Proof.
  unfold src_eui64_valid_bin, src_eui64_bin_to_int, src_eui64_int_to_bin.
  split; [apply src_valid_bin_ok; discriminate|]. split; [apply src_bin_to_int_ok; discriminate|apply src_int_to_bin_ok].
Qed.

Definition sep_or (sep : option string) (d : Eui.dialect) : string := match sep with Some s => s | None => word_sep d end.

Lemma src_eui48_int_to_bits_ok v d sep :
  src_eui48_int_to_bits v d sep = Eui.int_to_bits v (word_size (dflt 48 d)) (num_words (dflt 48 d)) (sep_or sep (dflt 48 d)).
Proof. destruct d, sep; reflexivity. Qed.

Lemma src_eui64_int_to_bits_ok v d sep :
  src_eui64_int_to_bits v d sep = Eui.int_to_bits v (word_size (dflt 64 d)) (num_words (dflt 64 d)) (sep_or sep (dflt 64 d)).
Proof. destruct d, sep; reflexivity. Qed.

(* the two copies of int_to_bin (Model/Eui.v, Model/Codec.v) agree for a non-negative value *)
Lemma eui_int_to_bin_codec v w : 0 <= v -> Eui.int_to_bin v w = Codec.int_to_bin v w.
Proof.
  intros H. unfold Eui.int_to_bin, Codec.int_to_bin, Codec.py_bin. replace (v <? 0) with false by lia. cbv zeta.
  change (Codec.drop2 ("0b" ++ str_of (fmt_nat 2 false v))) with (str_of (chars (str_of (fmt_nat 2 false v)))).
  rewrite str_of_chars. unfold str_len. rewrite length_str_of, Z.gtb_ltb. destruct (w <? _); reflexivity.
Qed.

(* ---- struct.pack of single bytes / of '>HI' against the string-valued model of EUI.packed ---- *)
Definition str_of_bytes (l : list Z) : string := str_of (map chr l).

Lemma be_bytes_1 v : 0 <= v < 256 -> Codec.be_bytes 1 v = [v].
Proof. intros H. cbn [Codec.be_bytes app]. rewrite Z.mod_small by lia. reflexivity. Qed.

Lemma struct_pack_bytes ws : forall sizes, Forall (fun n => n = 1%nat) sizes ->
  Codec.struct_pack sizes ws =
  if Nat.eqb (length ws) (length sizes) && forallb (fun w => (0 <=? w) && (w <=? 255)) ws then Ok ws else Raise StructError.
Proof.
  induction ws as [|w r IH]; intros sizes Hs.
  - destruct sizes; reflexivity.
  - destruct sizes as [|n ss]; [reflexivity|]. inversion Hs as [|? ? Hn Hss]; subst. cbn [Codec.struct_pack length Nat.eqb forallb].
    change (256 ^ Z.of_nat 1) with 256. rewrite (IH ss Hss).
    case_leb 0 w; cbn [andb]; [|rewrite andb_false_r; reflexivity].
    case_ltb w 256.
    + replace (w <=? 255) with true by lia. cbn [andb].
      destruct (Nat.eqb (length r) (length ss) && forallb _ r); cbn [bind]; [|reflexivity].
      rewrite be_bytes_1 by lia. reflexivity.
    + replace (w <=? 255) with false by lia. rewrite andb_false_r. reflexivity.
Qed.

Lemma eui_be_bytes_snoc k : forall x, Eui.be_bytes (S k) x = (Eui.be_bytes k (x / 256) ++ [chr (x mod 256)])%list.
Proof.
  induction k as [|j IH]; intros x.
  - cbn [Eui.be_bytes app]. change (8 * Z.of_nat 0) with 0. rewrite Z.shiftr_0_r.
    change 255 with (Z.ones 8). rewrite Z.land_ones by lia. reflexivity.
  - change (Eui.be_bytes (S (S j)) x) with (chr (Z.land (Z.shiftr x (8 * Z.of_nat (S j))) 255) :: Eui.be_bytes (S j) x).
    rewrite IH. change (Eui.be_bytes (S j) (x / 256)) with (chr (Z.land (Z.shiftr (x / 256) (8 * Z.of_nat j)) 255) :: Eui.be_bytes j (x / 256)).
    cbn [app]. f_equal. f_equal. f_equal.
    change 256 with (2 ^ 8). rewrite <- Z.shiftr_div_pow2 by lia. rewrite Z.shiftr_shiftr by lia. f_equal. lia.
Qed.

Lemma be_bytes_chr n : forall x, map chr (Codec.be_bytes n x) = Eui.be_bytes n x.
Proof.
  induction n as [|k IH]; intros x; [reflexivity|].
  rewrite eui_be_bytes_snoc. cbn [Codec.be_bytes]. rewrite map_app, IH. reflexivity.
Qed.

(* ---- netaddr/eui/__init__.py: words, packed, bin, bits ---- *)
Section EuiMethods.
  Variables (ver v : Z) (d : Eui.dialect).
  Hypothesis Hver : wf_ver ver.
  Let e := {| ever := ver; evalue := v; edialect := d |}.

  Lemma src_eui_words_ok : src_EUI_words ver v = eui_words e.
  Proof.
    unfold src_EUI_words. destruct Hver as [->| ->].
    - change (48 =? src_eui48_version) with true. cbv iota. apply src_eui48_words_default_ok.
    - change (64 =? src_eui48_version) with false. change (64 =? src_eui64_version) with true. cbv iota.
      apply src_eui64_words_default_ok.
  Qed.

  Lemma src_eui_bits_ok sep : src_EUI_bits ver v sep = eui_bits e sep.
  Proof.
    unfold src_EUI_bits, eui_bits. destruct Hver as [->| ->].
    - change (48 =? src_eui48_version) with true. cbv iota. rewrite src_eui48_int_to_bits_ok. reflexivity.
    - change (64 =? src_eui48_version) with false. change (64 =? src_eui64_version) with true. cbv iota.
      rewrite src_eui64_int_to_bits_ok. reflexivity.
  Qed.

  Lemma src_eui_bin_ok : 0 <= v -> src_EUI_bin ver v = eui_bin e.
  Proof.
    intros Hv. unfold src_EUI_bin, eui_bin. cbn [e ever evalue]. rewrite (eui_int_to_bin_codec _ _ Hv). destruct Hver as [->| ->].
    - change (48 =? src_eui48_version) with true. cbv iota. apply (src_eui48_bin_ok EmptyString None v).
    - change (64 =? src_eui48_version) with false. change (64 =? src_eui64_version) with true. cbv iota.
      apply (src_eui64_bin_ok EmptyString None v).
  Qed.

  Lemma src_eui_packed_ok : omap str_of_bytes (src_EUI_packed ver v) = eui_packed e.
  Proof.
    unfold src_EUI_packed, eui_packed. cbn [e ever evalue]. destruct Hver as [->| ->].
    - change (48 =? src_eui48_version) with true. change (48 =? 64) with false. cbv iota.
      unfold src_eui48_int_to_packed, py_struct_pack. cbn [Codec.struct_pack].
      set (hi := Z.shiftr v 32). set (lo := Z.land v 4294967295).
      assert (Hlo : 0 <= lo < 2 ^ 32).
      { subst lo. change 4294967295 with (Z.ones 32). rewrite Z.land_ones by lia. apply Z.mod_pos_bound. lia. }
      change (256 ^ Z.of_nat 2) with 65536. change (256 ^ Z.of_nat 4) with (2 ^ 32).
      case_leb 0 hi; cbn [andb]; [|reflexivity].
      case_ltb hi 65536.
      + replace (hi <=? 65535) with true by lia. replace ((0 <=? lo) && (lo <? 2 ^ 32)) with true by lia. cbn [bind omap].
        unfold str_of_bytes. rewrite app_nil_r, map_app, !be_bytes_chr. reflexivity.
      + replace (hi <=? 65535) with false by lia. reflexivity.
    - change (64 =? src_eui48_version) with false. change (64 =? src_eui64_version) with true. change (64 =? 64) with true. cbv iota.
      unfold src_eui64_int_to_packed, py_struct_pack. destruct src_eui64_words_default_ok as (_ & B & _). rewrite (B v d).
      destruct (eui_words _) as [ws|x]; [|reflexivity]. cbn [bind].
      rewrite struct_pack_bytes by (repeat constructor). cbn [length].
      destruct (Nat.eqb (length ws) 8 && forallb _ ws); reflexivity.
  Qed.
End EuiMethods.

(* ---- EUI.ei, iab, __getitem__, __setitem__, __hash__, comparisons ---- *)
Lemma words_loop_nonneg ws : 0 <= ws -> forall n v acc, Forall (fun w => 0 <= w) acc -> Forall (fun w => 0 <= w) (Eui.words_loop n v ws acc).
Proof.
  intros Hws. induction n as [|k IH]; intros v acc Hacc; cbn [Eui.words_loop]; [exact Hacc|].
  apply IH. constructor; [|exact Hacc]. apply Z.land_nonneg. right. pose proof (pow2_pos ws Hws). lia.
Qed.

Lemma int_to_words_nonneg v ws nw l : Eui.int_to_words v ws nw = Ok l -> Forall (fun w => 0 <= w) l.
Proof.
  unfold Eui.int_to_words. case_ltb ws 0; cbn [orb]; [discriminate|]. destruct (nw <? 0); [discriminate|].
  destruct (negb _); [discriminate|]. intros E. injection E as <-. apply words_loop_nonneg; [lia|constructor].
Qed.

Lemma py_fmt_int_02X a : 0 <= a -> py_fmt_int "%02X" a = Ok (fmt_X_pad 2 a).
Proof.
  intros H. unfold py_fmt_int, apply_fmt. change (parse_fmt "%02X") with (Some (true, 2%nat)). replace (a <? 0) with false by lia.
  reflexivity.
Qed.

Lemma fmt_pieces_02X_dash p ps a vs : 0 <= a ->
  fmt_pieces (("0" :: "2" :: "X" :: p)%char :: ps) (a :: vs) =
  do r <- fmt_pieces ps vs; Ok (chars (fmt_X_pad 2 a) ++ p ++ r)%list.
Proof.
  intros H. cbn [fmt_pieces]. change (take_spec ("0" :: "2" :: "X" :: p)%char []) with (["0"; "2"; "X"]%char, p).
  cbv iota beta. change (String "%" (str_of ["0"; "2"; "X"]%char)) with "%02X"%string. rewrite (py_fmt_int_02X a H). reflexivity.
Qed.

Lemma py_fmt_ints_3 sl : Forall (fun w => 0 <= w) sl ->
  py_fmt_ints "%02X-%02X-%02X" sl =
  if Nat.eqb (length sl) 3 then Ok (join "-" (map (fmt_X_pad 2) sl)) else Raise TypeError.
Proof.
  intros H. unfold py_fmt_ints.
  change (split_chars "%" (chars "%02X-%02X-%02X") []) with [[]; ["0"; "2"; "X"; "-"]; ["0"; "2"; "X"; "-"]; ["0"; "2"; "X"]]%char.
  destruct sl as [|a sl]; [reflexivity|]. inversion H as [|? ? Ha H1]; subst. rewrite fmt_pieces_02X_dash by assumption.
  destruct sl as [|b sl]; [reflexivity|]. inversion H1 as [|? ? Hb H2]; subst. rewrite fmt_pieces_02X_dash by assumption.
  destruct sl as [|c sl]; [reflexivity|]. inversion H2 as [|? ? Hc H3]; subst. rewrite fmt_pieces_02X_dash by assumption.
  destruct sl as [|x sl]; [|reflexivity]. cbn [fmt_pieces bind length Nat.eqb map app].
  unfold join. cbn [map join_chars chars app]. rewrite !app_nil_r. reflexivity.
Qed.

Lemma py_fmt_ints_5 sl : Forall (fun w => 0 <= w) sl ->
  py_fmt_ints "%02X-%02X-%02X-%02X-%02X" sl =
  if Nat.eqb (length sl) 5 then Ok (join "-" (map (fmt_X_pad 2) sl)) else Raise TypeError.
Proof.
  intros H. unfold py_fmt_ints.
  change (split_chars "%" (chars "%02X-%02X-%02X-%02X-%02X") [])
    with [[]; ["0"; "2"; "X"; "-"]; ["0"; "2"; "X"; "-"]; ["0"; "2"; "X"; "-"]; ["0"; "2"; "X"; "-"]; ["0"; "2"; "X"]]%char.
  destruct sl as [|a sl]; [reflexivity|]. inversion H as [|? ? Ha H1]; subst. rewrite fmt_pieces_02X_dash by assumption.
  destruct sl as [|b sl]; [reflexivity|]. inversion H1 as [|? ? Hb H2]; subst. rewrite fmt_pieces_02X_dash by assumption.
  destruct sl as [|c sl]; [reflexivity|]. inversion H2 as [|? ? Hc H3]; subst. rewrite fmt_pieces_02X_dash by assumption.
  destruct sl as [|c4 sl]; [reflexivity|]. inversion H3 as [|? ? Hc4 H4]; subst. rewrite fmt_pieces_02X_dash by assumption.
  destruct sl as [|c5 sl]; [reflexivity|]. inversion H4 as [|? ? Hc5 H5]; subst. rewrite fmt_pieces_02X_dash by assumption.
  destruct sl as [|x sl]; [|reflexivity]. cbn [fmt_pieces bind length Nat.eqb map app].
  unfold join. cbn [map join_chars chars app]. rewrite !app_nil_r. reflexivity.
Qed.

Lemma In_firstn_local {A} (x : A) : forall n l, In x (firstn n l) -> In x l.
Proof.
  induction n as [|k IH]; intros l H; [destruct H|]. destruct l as [|y r]; [destruct H|].
  cbn [firstn] in H. destruct H as [->|H]; [left; reflexivity|right; apply IH, H].
Qed.

Lemma Forall_firstn_skipn {A} (P : A -> Prop) a b l : Forall P l -> Forall P (firstn a (skipn b l)).
Proof.
  intros H. apply Forall_forall. intros x Hx. apply In_firstn_local in Hx. rewrite Forall_forall in H. apply H.
  rewrite <- (firstn_skipn b l). apply in_or_app. right. exact Hx.
Qed.

Section EuiMethods2.
  Variables (ver v : Z) (d : Eui.dialect).
  Let e := {| ever := ver; evalue := v; edialect := d |}.

  Lemma src_eui_ei_ok : wf_ver ver -> src_EUI_ei ver v = eui_ei e.
  Proof.
    intros Hver. unfold src_EUI_ei, eui_ei. rewrite (src_eui_words_ok ver v d Hver). fold e. cbn [e ever].
    pose proof (int_to_words_nonneg v (word_size (default_dialect ver)) (num_words (default_dialect ver))) as Hnn.
    change (Eui.int_to_words v (word_size (default_dialect ver)) (num_words (default_dialect ver))) with (eui_words e) in Hnn.
    destruct Hver as [->| ->].
    - change (48 =? src_eui48_version) with true. change (48 =? 48) with true. cbv iota.
      destruct (eui_words e) as [ws|x]; [|reflexivity]. cbn [bind]. unfold py_slice_lit.
      change (Z.to_nat (6 - 3)) with 3%nat. change (Z.to_nat 3) with 3%nat.
      rewrite py_fmt_ints_3 by (apply Forall_firstn_skipn, Hnn; reflexivity).
      destruct (Nat.eqb _ 3); reflexivity.
    - change (64 =? src_eui48_version) with false. change (64 =? src_eui64_version) with true. change (64 =? 48) with false.
      change (64 =? 64) with true. cbv iota.
      destruct (eui_words e) as [ws|x]; [|reflexivity]. cbn [bind]. unfold py_slice_lit.
      change (Z.to_nat (8 - 3)) with 5%nat. change (Z.to_nat 3) with 3%nat.
      rewrite py_fmt_ints_5 by (apply Forall_firstn_skipn, Hnn; reflexivity).
      destruct (Nat.eqb _ 5); reflexivity.
  Qed.

  Lemma src_eui_iab_ok : Ok (src_EUI_iab ver v) = eui_iab e.
  Proof.
    unfold src_EUI_iab, eui_iab. rewrite (src_eui_is_iab_ok ver v d). fold e.
    destruct (eui_is_iab e) eqn:E; [|reflexivity]. unfold split_iab_mac. cbn [e evalue].
    rewrite Z.shiftr_shiftr by lia. change (12 + 12) with 24. unfold eui_is_iab in E. cbn [e evalue] in E. rewrite E. reflexivity.
  Qed.

  Lemma src_eui_hash_ok : src_EUI_hash ver v = eui_hash_key e.
  Proof. reflexivity. Qed.

  Lemma src_eui_cmp_ok b :
    src_EUI_eq ver v b = eui_eq e b /\ src_EUI_ne ver v b = eui_ne e b /\ src_EUI_lt ver v b = eui_lt e b /\
    src_EUI_le ver v b = eui_le e b /\ src_EUI_gt ver v b = eui_gt e b /\ src_EUI_ge ver v b = eui_ge e b.
  Proof.
    unfold src_EUI_eq, src_EUI_ne, src_EUI_lt, src_EUI_le, src_EUI_gt, src_EUI_ge, src_EUI_version,
      eui_eq, eui_ne, eui_lt, eui_le, eui_gt, eui_ge, key_eqb, key_ltb, eui_key. cbn [e ever evalue fst snd].
    repeat split; try reflexivity; lia.
  Qed.

  Lemma src_eui_getitem_ok idx : wf_ver ver -> 0 <= word_size d ->
    src_EUI_getitem_int ver v d idx = eui_getitem e idx.
  Proof.
    intros Hver Hws. unfold src_EUI_getitem_int, eui_getitem, d_num_words, d_pair, d_word_size, d_num_words. cbn [e evalue edialect]. cbv zeta.
    destruct (negb ((- num_words d <=? idx) && (idx <=? num_words d - 1))) eqn:E; [reflexivity|].
    assert (Hnw : 0 <= num_words d) by lia.
    destruct (src_eui48_words_ok _ (num_words d) Hws) as (_ & B & _). destruct (src_eui64_words_ok _ (num_words d) Hws) as (_ & B' & _).
    rewrite (B v Hnw), (B' v Hnw).
    replace (if ver =? src_eui48_version then Eui.int_to_words v (word_size d) (num_words d)
             else if ver =? src_eui64_version then Eui.int_to_words v (word_size d) (num_words d) else Raise Unsupported)
      with (Eui.int_to_words v (word_size d) (num_words d)) by (destruct Hver as [->| ->]; reflexivity).
    reflexivity.
  Qed.

  Lemma src_eui_setitem_ok idx x : wf_ver ver -> 0 <= word_size d ->
    omap (fun v' => {| ever := ver; evalue := v'; edialect := d |}) (src_EUI_setitem ver v d idx x) = eui_setitem e idx x.
  Proof.
    intros Hver Hws. unfold src_EUI_setitem, eui_setitem, d_num_words, d_pair, d_word_size, d_num_words. cbn [e ever evalue edialect]. cbv zeta.
    destruct (negb ((0 <=? idx) && (idx <=? num_words d - 1))) eqn:E; [reflexivity|].
    assert (Hnw : 0 <= num_words d) by lia. assert (Hidx : 0 <= idx) by lia.
    destruct (negb ((0 <=? x) && (x <=? 2 ^ word_size d - 1))); [reflexivity|].
    destruct (src_eui48_words_ok _ (num_words d) Hws) as (_ & B & C). destruct (src_eui64_words_ok _ (num_words d) Hws) as (_ & B' & C').
    rewrite (B v Hnw), (B' v Hnw).
    replace (if ver =? src_eui48_version then Eui.int_to_words v (word_size d) (num_words d)
             else if ver =? src_eui64_version then Eui.int_to_words v (word_size d) (num_words d) else Raise Unsupported)
      with (Eui.int_to_words v (word_size d) (num_words d)) by (destruct Hver as [->| ->]; reflexivity).
    destruct (Eui.int_to_words v (word_size d) (num_words d)) as [words|ex]; [|reflexivity]. cbn [bind].
    unfold py_setitem_o. cbv zeta. replace (idx <? 0) with false by lia. replace (0 <=? idx) with true by lia. cbn [andb].
    replace (idx <? Z.of_nat (length words)) with (Z.to_nat idx <? length words)%nat
      by (destruct (Nat.ltb_spec (Z.to_nat idx) (length words)); lia).
    destruct (Z.to_nat idx <? length words)%nat; cbn [negb bind]; [|reflexivity].
    rewrite C, C'.
    replace (if ver =? src_eui48_version then Eui.words_to_int (list_set words (Z.to_nat idx) x) (word_size d) (num_words d)
             else if ver =? src_eui64_version then Eui.words_to_int (list_set words (Z.to_nat idx) x) (word_size d) (num_words d)
                  else Raise Unsupported)
      with (Eui.words_to_int (list_set words (Z.to_nat idx) x) (word_size d) (num_words d)) by (destruct Hver as [->| ->]; reflexivity).
    destruct (Eui.words_to_int _ _ _); reflexivity.
  Qed.
End EuiMethods2.

(* everything the first theorem of Props/C08_src_b.v states *)
Lemma C08_tie_b_ok :
  (src_eui48_DEFAULT_DIALECT_rec = default_dialect 48 /\ src_eui64_DEFAULT_EUI64_DIALECT_rec = default_dialect 64) /\
  (* netaddr/strategy/eui48.py, eui64.py *)
  (forall v p, src_eui48_int_to_packed v = Codec.eui48_int_to_packed v /\ src_eui48_packed_to_int p = Codec.eui48_packed_to_int p /\
               src_eui64_packed_to_int p = Codec.eui64_packed_to_int p /\
               forall dd, Codec.d_ws dd = 8 -> Codec.d_nw dd = 8 -> src_eui64_int_to_packed v = Codec.eui64_int_to_packed dd v) /\
  (forall bits d, src_eui48_valid_bits bits d = Ok (Codec.valid_bits bits 48 (word_sep (dflt 48 d))) /\
                  src_eui48_bits_to_int bits d = Codec.bits_to_int bits 48 (word_sep (dflt 48 d)) /\
                  src_eui64_valid_bits bits d = Ok (Codec.valid_bits bits 64 (word_sep (dflt 64 d))) /\
                  src_eui64_bits_to_int bits d = Codec.bits_to_int bits 64 (word_sep (dflt 64 d))) /\
  (forall s d v, src_eui48_valid_bin s d = Ok (Codec.valid_bin s 48) /\ src_eui48_bin_to_int s = Codec.bin_to_int s 48 /\
                 src_eui48_int_to_bin v = Codec.int_to_bin v 48 /\
                 src_eui64_valid_bin s d = Ok (Codec.valid_bin s 64) /\ src_eui64_bin_to_int s = Codec.bin_to_int s 64 /\
                 src_eui64_int_to_bin v = Codec.int_to_bin v 64) /\
  (forall v d sep,
     src_eui48_int_to_bits v d sep = Eui.int_to_bits v (word_size (dflt 48 d)) (num_words (dflt 48 d)) (sep_or sep (dflt 48 d)) /\
     src_eui64_int_to_bits v d sep = Eui.int_to_bits v (word_size (dflt 64 d)) (num_words (dflt 64 d)) (sep_or sep (dflt 64 d))) /\
  (forall v w, 0 <= v -> Eui.int_to_bin v w = Codec.int_to_bin v w) /\
  (* netaddr/eui/__init__.py, class EUI *)
  (forall ver v d, wf_ver ver -> let e := {| ever := ver; evalue := v; edialect := d |} in
     src_EUI_words ver v = eui_words e /\ omap str_of_bytes (src_EUI_packed ver v) = eui_packed e /\
     (0 <= v -> src_EUI_bin ver v = eui_bin e) /\ (forall sep, src_EUI_bits ver v sep = eui_bits e sep) /\
     src_EUI_ei ver v = eui_ei e /\
     (0 <= word_size d -> forall idx, src_EUI_getitem_int ver v d idx = eui_getitem e idx) /\
     (0 <= word_size d -> forall idx x,
        omap (fun v' => {| ever := ver; evalue := v'; edialect := d |}) (src_EUI_setitem ver v d idx x) = eui_setitem e idx x)) /\
  (forall ver v d b, let e := {| ever := ver; evalue := v; edialect := d |} in
     Ok (src_EUI_iab ver v) = eui_iab e /\ src_EUI_hash ver v = eui_hash_key e /\
     src_EUI_eq ver v b = eui_eq e b /\ src_EUI_ne ver v b = eui_ne e b /\ src_EUI_lt ver v b = eui_lt e b /\
     src_EUI_le ver v b = eui_le e b /\ src_EUI_gt ver v b = eui_gt e b /\ src_EUI_ge ver v b = eui_ge e b).
Proof.
  split; [exact src_default_rec_ok|]. split.
  { intros v p. split; [apply src_eui48_int_to_packed_ok|]. split; [apply src_eui48_packed_to_int_ok|].
    split; [apply src_eui64_packed_to_int_ok|]. intros dd. apply src_eui64_int_to_packed_ok. }
  split. { intros bits d. destruct (src_eui48_bits_ok bits d) as (A & B). destruct (src_eui64_bits_ok bits d) as (A' & B'). tauto. }
  split. { intros s d v. destruct (src_eui48_bin_ok s d v) as (A & B & C). destruct (src_eui64_bin_ok s d v) as (A' & B' & C'). tauto. }
  split. { intros v d sep. split; [apply src_eui48_int_to_bits_ok|apply src_eui64_int_to_bits_ok]. }
  split; [exact eui_int_to_bin_codec|]. split.
  { intros ver v d Hver e. subst e. split; [apply src_eui_words_ok, Hver|]. split; [apply src_eui_packed_ok, Hver|].
    split; [apply src_eui_bin_ok, Hver|]. split; [intros sep; apply src_eui_bits_ok, Hver|]. split; [apply src_eui_ei_ok, Hver|].
    split; [intros Hws idx; apply src_eui_getitem_ok; assumption|intros Hws idx x; apply src_eui_setitem_ok; assumption]. }
  intros ver v d b e. subst e. split; [apply src_eui_iab_ok|]. split; [apply src_eui_hash_ok|]. apply src_eui_cmp_ok.
Qed.
