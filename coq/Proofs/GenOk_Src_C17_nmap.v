(* Proofs/GenOk_Src_C17_nmap.v -- source tie for C17 (nmap part): the definitions regenerated from the text of
   netaddr/ip/nmap.py (Gen/pysrc_nmap_gen.v) equal the hand-written model of Model/Nmap.v.
   The generated code keeps the Python set `values` as the duplicate-free list of its elements in insertion order
   (SrcPrelude.py_set_add) and sorts it at the end (py_sorted_asc); the model keeps it sorted all along (Nmap.set_add). *)
From Coq Require Import String Ascii.
From NV Require Import Base.Tac Base.PyVal Base.PyStr Model.Ip Model.Glob Model.Nmap Model.SrcPrelude Model.SrcPreludeStr
  Model.SrcPreludeGlob Model.SrcPreludeNmap Gen.pysrc_gen Gen.pysrc_nmap_gen Proofs.GenOk_Src_C17.
Import ListNotations.
Open Scope Z_scope.

(* ---------------------------------------------------------------- sorted(set) vs the model's sorted set *)
Lemma ins_comm x y l : x <> y -> py_ins_asc x (py_ins_asc y l) = py_ins_asc y (py_ins_asc x l).
Proof.
  intros N. induction l as [|z r IH]; cbn [py_ins_asc].
  - destruct (x <=? y) eqn:E1, (y <=? x) eqn:E2; try reflexivity; lia.
  - destruct (y <=? z) eqn:Eyz, (x <=? z) eqn:Exz; cbn [py_ins_asc]; rewrite ?Eyz, ?Exz.
    + destruct (x <=? y) eqn:E1, (y <=? x) eqn:E2; try reflexivity; try lia.
    + replace (x <=? y) with false by lia. reflexivity.
    + replace (y <=? x) with false by lia. reflexivity.
    + rewrite IH. reflexivity.
Qed.

Lemma ins_In x l z : In z (py_ins_asc x l) <-> z = x \/ In z l.
Proof.
  induction l as [|y r IH]; cbn [py_ins_asc]; [cbn; intuition|].
  destruct (x <=? y); cbn [In]; [intuition|]. rewrite IH. intuition.
Qed.

Lemma sorted_In l z : In z (py_sorted_asc l) <-> In z l.
Proof.
  induction l as [|y r IH]; [reflexivity|]. change (py_sorted_asc (y :: r)) with (py_ins_asc y (py_sorted_asc r)).
  rewrite ins_In, IH. cbn [In]. intuition.
Qed.

(* strictly ascending *)
Fixpoint asc (l : list Z) : Prop := match l with [] => True | y :: r => (forall z, In z r -> y < z) /\ asc r end.

Lemma ins_asc x l : asc l -> ~ In x l -> asc (py_ins_asc x l).
Proof.
  induction l as [|y r IH]; intros A N; cbn [py_ins_asc].
  - cbn. intuition.
  - destruct A as [A1 A2]. destruct (x <=? y) eqn:E.
    + cbn [asc]. split; [|split; assumption]. intros z [<-|Hz]; [cbn in N; lia|]. specialize (A1 z Hz). lia.
    + cbn [asc]. split; [|apply IH; [exact A2|intros H; apply N; right; exact H]].
      intros z Hz. apply ins_In in Hz. destruct Hz as [->|Hz]; [lia|apply A1; exact Hz].
Qed.

Lemma sorted_asc l : NoDup l -> asc (py_sorted_asc l).
Proof.
  induction 1 as [|y r Hy _ IH]; [exact I|]. change (py_sorted_asc (y :: r)) with (py_ins_asc y (py_sorted_asc r)).
  apply ins_asc; [exact IH|]. rewrite sorted_In. exact Hy.
Qed.

Lemma ins_set_add x l : ~ In x l -> py_ins_asc x l = set_add x l.
Proof.
  induction l as [|y r IH]; intros N; [reflexivity|]. cbn [py_ins_asc set_add].
  assert (x <> y) by (intros ->; apply N; left; reflexivity).
  destruct (x <=? y) eqn:E.
  - replace (x <? y) with true by lia. reflexivity.
  - replace (x <? y) with false by lia. replace (x =? y) with false by lia. rewrite IH; [reflexivity|].
    intros Hx. apply N. right. exact Hx.
Qed.

Lemma set_add_present x l : asc l -> In x l -> set_add x l = l.
Proof.
  induction l as [|y r IH]; intros A Hx; [destruct Hx|]. destruct A as [A1 A2]. cbn [set_add]. destruct Hx as [->|Hx].
  - replace (x <? x) with false by lia. replace (x =? x) with true by lia. reflexivity.
  - specialize (A1 x Hx). replace (x <? y) with false by lia. replace (x =? y) with false by lia. rewrite IH by assumption. reflexivity.
Qed.

Lemma sorted_snoc x l : ~ In x l -> py_sorted_asc (l ++ [x]) = py_ins_asc x (py_sorted_asc l).
Proof.
  induction l as [|y r IH]; intros N; [reflexivity|]. cbn [app].
  change (py_sorted_asc (y :: r ++ [x])) with (py_ins_asc y (py_sorted_asc (r ++ [x]))).
  change (py_sorted_asc (y :: r)) with (py_ins_asc y (py_sorted_asc r)).
  rewrite IH by (intros H; apply N; right; exact H). apply ins_comm. intros ->. apply N. left. reflexivity.
Qed.

Lemma existsb_eqb_In x l : existsb (Z.eqb x) l = true <-> In x l.
Proof. rewrite existsb_exists. split; [intros (y & Hy & E); apply Z.eqb_eq in E; subst; exact Hy|intros H; exists x; split; [exact H|apply Z.eqb_refl]]. Qed.

Lemma NoDup_snoc (x : Z) s : NoDup s -> ~ In x s -> NoDup (s ++ [x]).
Proof.
  induction 1 as [|y r Hy _ IH]; intros N; cbn [app]; [constructor; [intros []|constructor]|].
  constructor; [|apply IH; intros H; apply N; right; exact H].
  rewrite in_app_iff. intros [H|[->|[]]]; [exact (Hy H)|apply N; left; reflexivity].
Qed.

(* values.add(x): the representation invariant (NoDup) and the abstraction (py_sorted_asc) *)
Lemma set_add_repr s x : NoDup s ->
  NoDup (py_set_add Z.eqb s x) /\ py_sorted_asc (py_set_add Z.eqb s x) = set_add x (py_sorted_asc s).
Proof.
  intros ND. unfold py_set_add. destruct (existsb (Z.eqb x) s) eqn:E.
  - split; [exact ND|]. apply existsb_eqb_In in E. symmetry. apply set_add_present; [apply sorted_asc; exact ND|apply sorted_In; exact E].
  - assert (N : ~ In x s) by (intros H; apply existsb_eqb_In in H; congruence). split.
    + apply NoDup_snoc; assumption.
    + rewrite sorted_snoc by exact N. apply ins_set_add. rewrite sorted_In. exact N.
Qed.

Lemma fold_add_repr xs : forall s, NoDup s ->
  NoDup (fold_left (py_set_add Z.eqb) xs s) /\
  py_sorted_asc (fold_left (py_set_add Z.eqb) xs s) = fold_left (fun s x => set_add x s) xs (py_sorted_asc s).
Proof.
  induction xs as [|x r IH]; intros s ND; [split; [exact ND|reflexivity]|]. cbn [fold_left].
  destruct (set_add_repr s x ND) as [ND' E]. destruct (IH _ ND') as [ND'' E']. split; [exact ND''|]. rewrite E', E. reflexivity.
Qed.

(* ---------------------------------------------------------------- _nmap_octet_target_values *)
Lemma zrange_eq lo hi : py_zrange lo hi = py_range lo hi.
Proof.
  unfold py_zrange, py_range. generalize (Z.to_nat (hi - lo)) as n. intros n. revert lo.
  induction n as [|n IH]; intros lo; [reflexivity|]. cbn [py_zseq zseq]. rewrite IH. reflexivity.
Qed.

(* `for octet in _iter_range(low, high + 1): values.add(octet)` *)
Lemma src_nmap_loop2_fold xs : forall values,
  src__nmap_octet_target_values_loop2 xs values = fold_left (py_set_add Z.eqb) xs values.
Proof. induction xs as [|x r IH]; intros values; [reflexivity|]. cbn [src__nmap_octet_target_values_loop2 fold_left]. apply IH. Qed.

(* `for element in spec.split(','): ...`: the set as insertion-ordered list on the left, as sorted list on the right *)
Lemma src_nmap_loop1_ok spec xs : forall values, NoDup values ->
  omap py_sorted_asc (src__nmap_octet_target_values_loop1 spec xs values) = nmap_values_loop xs (py_sorted_asc values).
Proof.
  induction xs as [|element rest IH]; intros values ND; [reflexivity|].
  cbn [src__nmap_octet_target_values_loop1 nmap_values_loop]. unfold nmap_element. change ch_hyphen with "-"%char.
  assert (FIN : forall R, omap py_sorted_asc (src__nmap_octet_target_values_loop1 spec rest (fold_left (py_set_add Z.eqb) R values))
                          = nmap_values_loop rest (fold_left (fun s x => set_add x s) R (py_sorted_asc values))).
  { intros R. destruct (fold_add_repr R values ND) as [ND' E]. rewrite (IH _ ND'), E. reflexivity. }
  destruct (contains_char "-" element).
  - destruct (split1 "-" element) as [|l [|r [|? ?]]]; try reflexivity. cbn [py_unpack2 bind].
    unfold int_of, py_int_o.
    destruct l as [|c1 l]; destruct r as [|c2 r]; cbn [py_str_nonempty negb is_empty bind]; cbv zeta.
    + destruct (negb _); [reflexivity|]. destruct (0 >? 255); [reflexivity|]. cbn [bind].
      rewrite src_nmap_loop2_fold, zrange_eq. apply FIN.
    + destruct (py_int 10 (String c2 r)) as [high|]; [|reflexivity]. cbn [bind].
      destruct (negb _); [reflexivity|]. destruct (0 >? high); [reflexivity|]. cbn [bind].
      rewrite src_nmap_loop2_fold, zrange_eq. apply FIN.
    + destruct (py_int 10 (String c1 l)) as [low|]; [|reflexivity]. cbn [bind].
      destruct (negb _); [reflexivity|]. destruct (low >? 255); [reflexivity|]. cbn [bind].
      rewrite src_nmap_loop2_fold, zrange_eq. apply FIN.
    + destruct (py_int 10 (String c1 l)) as [low|]; [|reflexivity]. cbn [bind].
      destruct (py_int 10 (String c2 r)) as [high|]; [|reflexivity]. cbn [bind].
      destruct (negb _); [reflexivity|]. destruct (low >? high); [reflexivity|]. cbn [bind].
      rewrite src_nmap_loop2_fold, zrange_eq. apply FIN.
  - unfold int_of, py_int_o. destruct (py_int 10 element) as [octet|]; [|reflexivity]. cbn [bind].
    destruct (negb _); [reflexivity|]. cbn [bind]. apply (FIN [octet]).
Qed.

Lemma src_nmap_octet_target_values_ok spec : src__nmap_octet_target_values spec = nmap_octet_target_values spec.
Proof.
  unfold src__nmap_octet_target_values, nmap_octet_target_values. cbv zeta. change ch_comma with ","%char.
  change (nmap_values_loop (split "," spec) []) with (nmap_values_loop (split "," spec) (py_sorted_asc [])).
  rewrite <- (src_nmap_loop1_ok spec (split "," spec) [] (NoDup_nil Z)).
  destruct (src__nmap_octet_target_values_loop1 spec (split "," spec) []); reflexivity.
Qed.

(* ---------------------------------------------------------------- _generate_nmap_octet_ranges (str argument) *)
Lemma src_generate_nmap_octet_ranges_ok spec : src__generate_nmap_octet_ranges spec = generate_nmap_octet_ranges spec.
Proof.
  unfold src__generate_nmap_octet_ranges, generate_nmap_octet_ranges. change ch_dot with "."%char.
  destruct spec as [|c s]; [reflexivity|]. cbn [py_str_nonempty negb is_empty]. cbv zeta.
  destruct (split "." (String c s)) as [|t0 [|t1 [|t2 [|t3 [|t4 r]]]]]; try reflexivity.
  - change (negb (Z.of_nat (length [t0; t1; t2; t3]) =? 4)) with false. cbv iota.
    change (py_index [t0; t1; t2; t3] 0) with (Ok t0). change (py_index [t0; t1; t2; t3] 1) with (Ok t1).
    change (py_index [t0; t1; t2; t3] 2) with (Ok t2). change (py_index [t0; t1; t2; t3] 3) with (Ok t3).
    cbn [bind]. rewrite !src_nmap_octet_target_values_ok.
    destruct (nmap_octet_target_values t0); [|reflexivity]. cbn [bind].
    destruct (nmap_octet_target_values t1); [|reflexivity]. cbn [bind].
    destruct (nmap_octet_target_values t2); [|reflexivity]. cbn [bind].
    destruct (nmap_octet_target_values t3); reflexivity.
  - replace (negb (Z.of_nat (length (t0 :: t1 :: t2 :: t3 :: t4 :: r)) =? 4)) with true; [reflexivity|].
    cbn [length]. lia.
Qed.

(* ---------------------------------------------------------------- generators: _parse_nmap_target_spec, valid_nmap_range, iter_nmap_range *)
Lemma gen_of_ok {A B} (f : A -> B) l : gen_of_outcomes (map (fun x => Ok (f x)) l) = (map f l, None).
Proof. induction l as [|x r IH]; [reflexivity|]. cbn [map gen_of_outcomes]. rewrite IH. reflexivity. Qed.

(* two generators one after the other *)
Definition gen_app {A} (g1 g2 : gen A) : gen A :=
  match g1 with (xs, Some e) => (xs, Some e) | (xs, None) => let '(ys, e) := g2 in ((xs ++ ys)%list, e) end.

Lemma gen_of_app {A} (l1 l2 : list (outcome A)) :
  gen_of_outcomes (l1 ++ l2) = gen_app (gen_of_outcomes l1) (gen_of_outcomes l2).
Proof.
  induction l1 as [|[a|e] r IH]; cbn [app gen_of_outcomes].
  - unfold gen_app. destruct (gen_of_outcomes l2). reflexivity.
  - rewrite IH. destruct (gen_of_outcomes r) as [xs [e|]]; cbn [gen_app]; [reflexivity|].
    destruct (gen_of_outcomes l2). reflexivity.
  - reflexivity.
Qed.

Lemma str_of_chars_app a l : str_of (chars a ++ l) = String.append a (str_of l).
Proof. induction a as [|c a IH]; [reflexivity|]. cbn [chars app str_of String.append]. rewrite IH. reflexivity. Qed.

Lemma str_of_chars a : str_of (chars a) = a.
Proof. induction a as [|c a IH]; [reflexivity|]. cbn [chars str_of]. rewrite IH. reflexivity. Qed.

(* "%d.%d.%d.%d" % (w, x, y, z) *)
Lemma quad_text a b c d :
  String.append a (String.append "." (String.append b (String.append "." (String.append c (String.append "." d)))))
  = join "." [a; b; c; d].
Proof.
  unfold join. cbn [map join_chars]. rewrite !str_of_chars_app, str_of_chars. reflexivity.
Qed.

Section Platform.
Variable pton6 : string -> option Z.
Variable ip_address : string -> outcome (Z * Z).

Lemma src_quad_ok w x y z :
  py_ipaddress4_of_str (String.append (fmt_d w) (String.append "." (String.append (fmt_d x) (String.append "."
     (String.append (fmt_d y) (String.append "." (fmt_d z))))))) = quad_address w x y z.
Proof. unfold py_ipaddress4_of_str, quad_address. rewrite quad_text. reflexivity. Qed.

Lemma src_parse_loop5_ok w x y zs : forall acc,
  src__parse_nmap_target_spec_loop5 w x y zs acc = (acc ++ map (fun z => quad_address w x y z) zs)%list.
Proof.
  induction zs as [|z r IH]; intros acc; cbn [src__parse_nmap_target_spec_loop5 map]; [rewrite app_nil_r; reflexivity|].
  cbv zeta. rewrite IH, src_quad_ok, <- app_assoc. reflexivity.
Qed.

Lemma src_parse_loop4_ok R w x ys : forall acc,
  src__parse_nmap_target_spec_loop4 R w x ys acc = (acc ++ flat_map (fun y => map (fun z => quad_address w x y z) (snd R)) ys)%list.
Proof.
  induction ys as [|y r IH]; intros acc; cbn [src__parse_nmap_target_spec_loop4 flat_map]; [rewrite app_nil_r; reflexivity|].
  cbv zeta. rewrite IH, src_parse_loop5_ok, <- app_assoc. reflexivity.
Qed.

Lemma src_parse_loop3_ok R w xs : forall acc,
  src__parse_nmap_target_spec_loop3 R w xs acc =
  (acc ++ flat_map (fun x => flat_map (fun y => map (fun z => quad_address w x y z) (snd R)) (snd (fst R))) xs)%list.
Proof.
  induction xs as [|x r IH]; intros acc; cbn [src__parse_nmap_target_spec_loop3 flat_map]; [rewrite app_nil_r; reflexivity|].
  cbv zeta. rewrite IH, src_parse_loop4_ok, <- app_assoc. reflexivity.
Qed.

Lemma src_parse_loop2_ok R ws : forall acc,
  src__parse_nmap_target_spec_loop2 R ws acc =
  (acc ++ flat_map (fun w => flat_map (fun x => flat_map (fun y => map (fun z => quad_address w x y z) (snd R)) (snd (fst R)))
                                      (snd (fst (fst R)))) ws)%list.
Proof.
  induction ws as [|w r IH]; intros acc; cbn [src__parse_nmap_target_spec_loop2 flat_map]; [rewrite app_nil_r; reflexivity|].
  cbv zeta. rewrite IH, src_parse_loop3_ok, <- app_assoc. reflexivity.
Qed.

(* the generator as items + final exception (Nmap.gen_of_outcomes) *)
Lemma src_parse_nmap_target_spec_ok s :
  gen_of_outcomes (src__parse_nmap_target_spec pton6 ip_address s) = parse_nmap_target_spec pton6 ip_address s.
Proof.
  unfold src__parse_nmap_target_spec, parse_nmap_target_spec. cbv zeta.
  change ch_slash with "/"%char. change ch_colon with ":"%char.
  destruct (contains_char "/" s).
  - destruct (split1 "/" s) as [|a [|prefix [|? ?]]]; try reflexivity. cbn [py_unpack2 bind]. unfold py_int_o.
    destruct (py_int 10 prefix) as [p|]; [|reflexivity]. cbn [bind].
    destruct (negb ((0 <? p) && (p <? 33))); [reflexivity|]. unfold py_ipnetwork_of_str.
    destruct (ipnetwork_of_str pton6 s) as [[[ver v] pl]|e]; [|reflexivity]. cbn [omap bind fst snd nver nval nplen].
    change (src_IPNetwork_version ver (width ver) v pl) with ver.
    destruct (ver =? 4) eqn:E; cbn [negb]; [|reflexivity]. apply Z.eqb_eq in E. subst ver.
    cbn [py_gen_body app]. unfold py_iter_net. cbn [nver nval nplen]. change (width 4) with 32.
    rewrite zrange_eq. apply (gen_of_ok (fun x => (4, x))).
  - destruct (contains_char ":" s).
    + cbn [bind py_gen_body app]. destruct (ip_address s); reflexivity.
    + rewrite src_generate_nmap_octet_ranges_ok.
      destruct (generate_nmap_octet_ranges s) as [[[[r0 r1] r2] r3]|e]; [|reflexivity].
      cbn [bind py_gen_body]. rewrite src_parse_loop2_ok. reflexivity.
Qed.

Lemma src_valid_nmap_range_ok s : src_valid_nmap_range pton6 ip_address s = valid_nmap_range pton6 ip_address s.
Proof.
  unfold src_valid_nmap_range, valid_nmap_range. rewrite <- src_parse_nmap_target_spec_ok.
  destruct (src__parse_nmap_target_spec pton6 ip_address s) as [|[a|e] r]; [reflexivity| |].
  - cbn [py_gen_next bind py_try gen_of_outcomes]. destruct (gen_of_outcomes r). reflexivity.
  - cbn [py_gen_next bind gen_of_outcomes]. destruct e; reflexivity.
Qed.

Lemma src_iter_loop_ok specs : forall acc,
  src_iter_nmap_range_loop1 pton6 ip_address specs acc = (acc ++ flat_map (src__parse_nmap_target_spec pton6 ip_address) specs)%list.
Proof.
  induction specs as [|s r IH]; intros acc; cbn [src_iter_nmap_range_loop1 flat_map]; [rewrite app_nil_r; reflexivity|].
  cbv zeta. rewrite IH, <- app_assoc. reflexivity.
Qed.

Lemma src_iter_nmap_range_ok specs :
  gen_of_outcomes (src_iter_nmap_range pton6 ip_address specs) = iter_nmap_range pton6 ip_address specs.
Proof.
  unfold src_iter_nmap_range. cbv zeta. rewrite src_iter_loop_ok. cbn [app].
  induction specs as [|s r IH]; [reflexivity|]. cbn [flat_map iter_nmap_range].
  rewrite gen_of_app, src_parse_nmap_target_spec_ok, IH.
  destruct (parse_nmap_target_spec pton6 ip_address s) as [xs [e|]]; reflexivity.
Qed.
End Platform.

(* everything the C17 nmap source tie states (Props/C17_src_nmap.v) *)
Lemma C17_nmap_tie_ok :
  (forall spec, src__nmap_octet_target_values spec = nmap_octet_target_values spec) /\
  (forall spec xs values, NoDup values ->
     omap py_sorted_asc (src__nmap_octet_target_values_loop1 spec xs values) = nmap_values_loop xs (py_sorted_asc values)) /\
  (forall spec, src__generate_nmap_octet_ranges spec = generate_nmap_octet_ranges spec) /\
  (forall pton6 ip_address s,
     gen_of_outcomes (src__parse_nmap_target_spec pton6 ip_address s) = parse_nmap_target_spec pton6 ip_address s) /\
  (forall pton6 ip_address s, src_valid_nmap_range pton6 ip_address s = valid_nmap_range pton6 ip_address s) /\
  (forall pton6 ip_address specs,
     gen_of_outcomes (src_iter_nmap_range pton6 ip_address specs) = iter_nmap_range pton6 ip_address specs).
Proof.
  split; [exact src_nmap_octet_target_values_ok|]. split; [exact src_nmap_loop1_ok|].
  split; [exact src_generate_nmap_octet_ranges_ok|]. split; [exact src_parse_nmap_target_spec_ok|].
  split; [exact src_valid_nmap_range_ok|exact src_iter_nmap_range_ok].
Qed.
