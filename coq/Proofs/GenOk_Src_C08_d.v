(* Proofs/GenOk_Src_C08_d.v — source tie for C08, fourth part (tag SRCF): the parsers.  The definitions regenerated from
   valid_str / str_to_int of netaddr/strategy/eui48.py and _get_match_result / valid_str / str_to_int of eui64.py
   (Gen/pysrc_eui48b_gen.v, pysrc_eui64b_gen.v) equal Model/Eui.v valid_str, str_to_int_48, str_to_int_64, first_match.
   The compiled patterns are the hand-compiled matchers mac_pats / eui64_pats (pinned to the regenerated pattern strings by
   Proofs/GenOk_C08.v); `regexp.findall(addr)` is match_pat.  The dispatch around it is translated: the loop over the patterns
   (= first_match), the tuple / single-group cases, the word-count cases, int(w, 16), '%.<k>x' % n, ''.join, int(.., 16).
   The groups a pattern returns are non-empty runs of hex digits, so int(w, 16) is non-negative and '%.2x' % n is inside
   the printf subset of apply_fmt (the generated code says Unsupported for a negative n, hexjoin does not test).
   No hypothesis: the argument is text (the isinstance / _is_str tests are decided by that). *)
From Coq Require Import String Ascii.
From NV Require Import Base.Tac Base.Bits Base.PyVal Base.PyStr Base.PyStrFacts Model.Ip Model.Eui Model.SrcPrelude Model.SrcPreludeStr
  Model.SrcPreludeEui Model.SrcPreludeEui2
  Gen.pysrc_strategy_gen Gen.pysrc_eui48_gen Gen.pysrc_eui64_gen Gen.pysrc_eui_gen
  Gen.pysrc_eui48b_gen Gen.pysrc_eui64b_gen Proofs.C08_text Proofs.GenOk_Src_C08_c.
Import ListNotations.
Open Scope Z_scope.

(* a group: text whose int(.., 16) is a non-negative number *)
Definition hexw (w : string) : Prop := exists v, int16 w = Ok v /\ 0 <= v.

Definition pat_lo_ok (p : pat) : Prop :=
  match p with PGroups _ lo _ _ => (1 <= lo)%nat | PBare k => (1 <= k)%nat end.

Lemma field_ok_hexw lo hi f : (1 <= lo)%nat -> field_ok lo hi f = true -> hexw (str_of f).
Proof.
  intros Hlo H. unfold field_ok in H. apply andb_prop in H. destruct H as (H & _). apply andb_prop in H. destruct H as (Hh & Hl).
  apply Nat.leb_le in Hl. apply forallb_is_hex in Hh. assert (f <> []) by (destruct f; [cbn in Hl; lia|discriminate]).
  exists (hexval f). split; [apply int16_tok; assumption|]. pose proof (hexval_range f Hh). lia.
Qed.

Lemma match_pat_hexw p l g : pat_lo_ok p -> match_pat p l = Some g -> Forall hexw g.
Proof.
  destruct p as [n lo hi sep|k]; cbn [pat_lo_ok match_pat]; intros Hlo H.
  - destruct (Nat.eqb _ n && forallb (field_ok lo hi) _) eqn:E; [|discriminate]. injection H as <-.
    apply andb_prop in E. destruct E as (_ & E). rewrite forallb_forall in E. apply Forall_forall. intros w Hw.
    apply in_map_iff in Hw. destruct Hw as (f & <- & Hf). apply (field_ok_hexw lo hi); [exact Hlo|apply E, Hf].
  - destruct (field_ok k k (strip_nl l)) eqn:E; [|discriminate]. injection H as <-. constructor; [|constructor].
    apply (field_ok_hexw k k); assumption.
Qed.

Lemma first_match_hexw ps l g : Forall pat_lo_ok ps -> first_match ps l = Some g -> Forall hexw g.
Proof.
  induction ps as [|p r IH]; intros Hps H; [discriminate|]. inversion Hps as [|? ? Hp Hr]; subst. cbn [first_match] in H.
  destruct (match_pat p l) as [ws|] eqn:E; [injection H as <-; apply (match_pat_hexw p l); assumption|apply IH; assumption].
Qed.

Lemma mac_pats_lo : Forall pat_lo_ok mac_pats. Proof. repeat constructor. Qed.
Lemma eui64_pats_lo : Forall pat_lo_ok eui64_pats. Proof. repeat constructor. Qed.

(* (g if isinstance(g, tuple) else (g,)) is the list of groups *)
Lemma groups_norm g : (if py_is_tuple g then g else [py_group_str g]) = g.
Proof. destruct g as [|a [|b r]]; reflexivity. Qed.

(* ---- the loops over the patterns ---- *)
Lemma src_eui48_valid_str_loop_ok s ps :
  src_eui48_valid_str_loop1 s ps = match first_match ps (chars s) with Some _ => inl true | None => inr tt end.
Proof.
  induction ps as [|p r IH]; [reflexivity|]. cbn [src_eui48_valid_str_loop1 first_match]. unfold py_findall. cbv zeta.
  destruct (match_pat p (chars s)); [reflexivity|exact IH].
Qed.

Lemma src_eui48_valid_str_ok s : src_eui48_valid_str s = Eui.valid_str 48 s.
Proof.
  unfold src_eui48_valid_str, Eui.valid_str. rewrite src_eui48_valid_str_loop_ok. change (48 =? 64) with false. cbv iota zeta.
  destruct (first_match mac_pats (chars s)); reflexivity.
Qed.

Lemma src_eui48_str_to_int_loop_ok s ps fm ws :
  src_eui48_str_to_int_loop1 s ps fm ws = Ok (match first_match ps (chars s) with Some g => (true, g) | None => (fm, ws) end).
Proof.
  induction ps as [|p r IH]; [reflexivity|]. cbn [src_eui48_str_to_int_loop1 first_match]. unfold py_findall. cbv zeta.
  destruct (match_pat p (chars s)) as [g|]; [|exact IH]. cbn [py_matches_len py_match0 bind negb Z.eqb].
  change (negb (1 =? 0)) with true. cbv iota.
  destruct g as [|a [|b r']]; reflexivity.
Qed.

Lemma src_eui64_gmr_loop_ok s ps :
  src_eui64__get_match_result_loop1 s ps = Ok (match first_match ps (chars s) with Some g => inl g | None => inr tt end).
Proof.
  induction ps as [|p r IH]; [reflexivity|]. cbn [src_eui64__get_match_result_loop1 first_match]. unfold py_findall. cbv zeta.
  destruct (match_pat p (chars s)) as [g|]; [reflexivity|exact IH].
Qed.

Lemma src_eui64_gmr_ok s ps : src_eui64__get_match_result s ps = Ok (first_match ps (chars s)).
Proof. unfold src_eui64__get_match_result. rewrite src_eui64_gmr_loop_ok. cbn [bind]. destruct (first_match ps (chars s)); reflexivity. Qed.

(* ---- int(''.join(['%.<k>x' % int(w, 16) for w in words]), 16) = hexjoin k words ---- *)
Lemma py_fmt_int_x fmt k v : parse_fmt fmt = Some (false, k) -> 0 <= v -> py_fmt_int fmt v = Ok (fmt_x_pad k v).
Proof. intros H Hv. unfold py_fmt_int, apply_fmt. rewrite H. replace (v <? 0) with false by lia. reflexivity. Qed.

Lemma map_hex_ok fmt k g : parse_fmt fmt = Some (false, k) -> Forall hexw g ->
  py_map_o (fun w => do h <- py_int_o 16 w; do h' <- py_fmt_int fmt h; Ok h') g =
  do ws <- Eui.map_outcome int16 g; Ok (map (fmt_x_pad k) ws).
Proof.
  intros Hf H. unfold py_map_o. induction H as [|w r (v & Hw & Hv) Hr IH]; [reflexivity|]. cbn [Eui.map_outcome].
  change (py_int_o 16 w) with (int16 w). rewrite Hw. cbn [bind]. rewrite (py_fmt_int_x fmt k v Hf Hv). cbn [bind].
  rewrite IH. destruct (Eui.map_outcome int16 r); reflexivity.
Qed.

Lemma hexjoin_src fmt k g : parse_fmt fmt = Some (false, k) -> Forall hexw g ->
  (do h5 <- py_map_o (fun w => do h <- py_int_o 16 w; do h' <- py_fmt_int fmt h; Ok h') g;
   do int_val <- py_int_o 16 (join "" h5); Ok int_val) = hexjoin k g.
Proof.
  intros Hf H. rewrite (map_hex_ok fmt k g Hf H). unfold hexjoin. destruct (Eui.map_outcome int16 g) as [ws|x]; [|reflexivity].
  cbn [bind]. change (py_int_o 16) with int16. apply bind_ok_eta.
Qed.

Lemma bare_src fmt k w : parse_fmt fmt = Some (false, k) -> hexw w ->
  (do h12 <- py_getitem_o [w] 0; do h13 <- py_int_o 16 h12; do h14 <- py_fmt_int fmt h13; do int_val <- py_int_o 16 h14; Ok int_val) =
  (do v <- int16 w; int16 (fmt_x_pad k v)).
Proof.
  intros Hf (v & Hw & Hv). change (py_getitem_o [w] 0) with (Ok w). cbn [bind]. change (py_int_o 16) with int16. rewrite Hw. cbn [bind].
  rewrite (py_fmt_int_x fmt k v Hf Hv). cbn [bind]. apply bind_ok_eta.
Qed.

Lemma len_ge n (l : list string) : (n <= length l)%nat -> forall m, m < Z.of_nat n -> (Z.of_nat (length l) =? m) = false.
Proof. intros H m Hm. apply Z.eqb_neq. lia. Qed.

(* ---- str_to_int ---- *)
Lemma src_eui48_str_to_int_ok s : src_eui48_str_to_int s = str_to_int_48 (BStr s).
Proof.
  unfold src_eui48_str_to_int, str_to_int_48. cbv zeta. rewrite src_eui48_str_to_int_loop_ok.
  destruct (first_match mac_pats (chars s)) as [g|] eqn:E; cbn [bind negb]; [|reflexivity].
  pose proof (first_match_hexw _ _ _ mac_pats_lo E) as Hg.
  destruct g as [|w1 [|w2 [|w3 [|w4 [|w5 [|w6 [|w7 r]]]]]]].
  - reflexivity.
  - change (Z.of_nat (length [w1]) =? 6) with false. change (Z.of_nat (length [w1]) =? 3) with false.
    change (Z.of_nat (length [w1]) =? 2) with false. change (Z.of_nat (length [w1]) =? 1) with true. cbv iota.
    apply (bare_src "%012x" 12); [reflexivity|inversion Hg; assumption].
  - change (Z.of_nat (length [w1; w2]) =? 6) with false. change (Z.of_nat (length [w1; w2]) =? 3) with false.
    change (Z.of_nat (length [w1; w2]) =? 2) with true. cbv iota. apply (hexjoin_src "%.6x" 6); [reflexivity|assumption].
  - change (Z.of_nat (length [w1; w2; w3]) =? 6) with false. change (Z.of_nat (length [w1; w2; w3]) =? 3) with true. cbv iota.
    apply (hexjoin_src "%.4x" 4); [reflexivity|assumption].
  - reflexivity.
  - reflexivity.
  - change (Z.of_nat (length [w1; w2; w3; w4; w5; w6]) =? 6) with true. cbv iota.
    apply (hexjoin_src "%.2x" 2); [reflexivity|assumption].
  - set (l := w1 :: w2 :: w3 :: w4 :: w5 :: w6 :: w7 :: r). assert (Hl : (7 <= length l)%nat) by (subst l; cbn [length]; lia).
    rewrite (len_ge 7 l Hl 6), (len_ge 7 l Hl 3), (len_ge 7 l Hl 2), (len_ge 7 l Hl 1) by lia. reflexivity.
Qed.

Lemma hexw_nonempty w : hexw w -> String.eqb w EmptyString = false.
Proof. intros (v & Hw & _). destruct w; [discriminate Hw|reflexivity]. Qed.

Lemma truthy_groups g : Forall hexw g -> g <> [] -> py_optgroups_truthy (Some g) = true.
Proof.
  intros H Hne. unfold py_optgroups_truthy. destruct g as [|a [|b r]]; [congruence| |reflexivity].
  cbn [py_is_tuple length Nat.eqb negb py_group_str]. inversion H as [|? ? Ha _]; subst. rewrite (hexw_nonempty a Ha). reflexivity.
Qed.

Lemma match_pat_nonempty p l g : pat_lo_ok p -> match_pat p l = Some g -> g <> [].
Proof.
  destruct p as [n lo hi sep|k]; cbn [match_pat]; intros _ H.
  - destruct (Nat.eqb _ n && _) eqn:E; [|discriminate]. injection H as <-.
    destruct (split_chars sep (strip_nl l) []) eqn:S; [|discriminate].
    exfalso. clear -S. revert S. generalize (@nil ascii). induction (strip_nl l) as [|c r IH]; intros cur; cbn [split_chars]; [discriminate|].
    destruct (ascii_eqb c sep); [discriminate|apply IH].
  - destruct (field_ok k k _); [|discriminate]. injection H as <-. discriminate.
Qed.

Lemma first_match_nonempty ps l g : Forall pat_lo_ok ps -> first_match ps l = Some g -> g <> [].
Proof.
  induction ps as [|p r IH]; intros Hps H; [discriminate|]. inversion Hps as [|? ? Hp Hr]; subst. cbn [first_match] in H.
  destruct (match_pat p l) as [ws|] eqn:E; [injection H as <-; apply (match_pat_nonempty p l); assumption|apply IH; assumption].
Qed.

Lemma src_eui64_valid_str_ok s : src_eui64_valid_str s = Ok (Eui.valid_str 64 s).
Proof.
  unfold src_eui64_valid_str, Eui.valid_str. rewrite src_eui64_gmr_ok. change (64 =? 64) with true. cbv iota. cbn [bind].
  destruct (first_match eui64_pats (chars s)) as [g|] eqn:E; [|reflexivity].
  rewrite (truthy_groups g (first_match_hexw _ _ _ eui64_pats_lo E) (first_match_nonempty _ _ _ eui64_pats_lo E)). reflexivity.
Qed.

Lemma src_eui64_str_to_int_ok s : src_eui64_str_to_int s = str_to_int_64 (BStr s).
Proof.
  unfold src_eui64_str_to_int, str_to_int_64. rewrite src_eui64_gmr_ok. cbn [bind].
  destruct (first_match eui64_pats (chars s)) as [g|] eqn:E; [|reflexivity].
  pose proof (first_match_hexw _ _ _ eui64_pats_lo E) as Hg.
  rewrite (truthy_groups g Hg (first_match_nonempty _ _ _ eui64_pats_lo E)). cbn [py_except bind]. rewrite groups_norm. cbv zeta.
  destruct g as [|w1 [|w2 [|w3 [|w4 [|w5 [|w6 [|w7 [|w8 [|w9 r]]]]]]]]].
  - reflexivity.
  - change (Z.of_nat (length [w1]) =? 8) with false. change (Z.of_nat (length [w1]) =? 4) with false.
    change (Z.of_nat (length [w1]) =? 1) with true. cbv iota.
    apply (bare_src "%016x" 16); [reflexivity|inversion Hg; assumption].
  - reflexivity.
  - reflexivity.
  - change (Z.of_nat (length [w1; w2; w3; w4]) =? 8) with false. change (Z.of_nat (length [w1; w2; w3; w4]) =? 4) with true. cbv iota.
    apply (hexjoin_src "%.4x" 4); [reflexivity|assumption].
  - reflexivity.
  - reflexivity.
  - reflexivity.
  - change (Z.of_nat (length [w1; w2; w3; w4; w5; w6; w7; w8]) =? 8) with true. cbv iota.
    apply (hexjoin_src "%.2x" 2); [reflexivity|assumption].
  - set (l := w1 :: w2 :: w3 :: w4 :: w5 :: w6 :: w7 :: w8 :: w9 :: r). assert (Hl : (9 <= length l)%nat) by (subst l; cbn [length]; lia).
    rewrite (len_ge 9 l Hl 8), (len_ge 9 l Hl 4), (len_ge 9 l Hl 1) by lia. reflexivity.
Qed.

Lemma C08_tie_d_ok :
  (forall s, src_eui48_valid_str s = Eui.valid_str 48 s /\ src_eui64_valid_str s = Ok (Eui.valid_str 64 s)) /\
  (forall s, src_eui48_str_to_int s = str_to_int_48 (BStr s) /\ src_eui64_str_to_int s = str_to_int_64 (BStr s)) /\
  (forall s ps, src_eui64__get_match_result s ps = Ok (first_match ps (chars s))) /\
  (forall s ps fm ws, src_eui48_str_to_int_loop1 s ps fm ws =
                      Ok (match first_match ps (chars s) with Some g => (true, g) | None => (fm, ws) end)).
Proof.
  split; [intros s; split; [apply src_eui48_valid_str_ok|apply src_eui64_valid_str_ok]|].
  split; [intros s; split; [apply src_eui48_str_to_int_ok|apply src_eui64_str_to_int_ok]|].
  split; [exact src_eui64_gmr_ok|exact src_eui48_str_to_int_loop_ok].
Qed.
