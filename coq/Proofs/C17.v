(* Proofs/C17.v — glob notation: grammar, denotation, and the theorems about Model/Glob.v. *)
From Coq Require Import String Ascii.
From NV Require Import Base.Tac Base.PyVal Base.Bits Base.PyStr Base.PyStrFacts Model.Ip Model.Glob Proofs.C17_str.
From NV Require Proofs.C02.
Open Scope string_scope.
Open Scope Z_scope.

(* ================================================================== specification *)
(* a field of a glob: a plain octet, an asterisk, or a hyphenated octet *)
Inductive field := FNum (n : Z) | FStar | FRange (x y : Z).

Definition show_field (f : field) : string :=
  match f with
  | FNum n => fmt_d n
  | FStar => "*"
  | FRange x y => fmt_d x ++ "-" ++ fmt_d y
  end.
Definition show_glob (fs : list field) : string := join "." (map show_field fs).

Definition field_wf (f : field) : Prop :=
  match f with
  | FNum n => 0 <= n <= 255
  | FStar => True
  | FRange x y => 0 <= x /\ x < y /\ y <= 255
  end.

(* plain octets, then at most one hyphenated octet, then only asterisks; `tail` = a hyphen or asterisk was seen *)
Fixpoint shape_ok (tail : bool) (fs : list field) : Prop :=
  match fs with
  | [] => True
  | FNum _ :: r => tail = false /\ shape_ok false r
  | FRange _ _ :: r => tail = false /\ shape_ok true r
  | FStar :: r => shape_ok true r
  end.

Definition glob_fields (fs : list field) : Prop :=
  List.length fs = 4%nat /\ Forall field_wf fs /\ shape_ok false fs.

(* the glob grammar: four dot-separated fields, decimals printed canonically *)
Definition glob_lang (s : string) : Prop := exists fs, glob_fields fs /\ s = show_glob fs.

Definition field_lo (f : field) : Z := match f with FNum n => n | FStar => 0 | FRange x _ => x end.
Definition field_hi (f : field) : Z := match f with FNum n => n | FStar => 255 | FRange _ y => y end.
Definition field_match (f : field) (o : Z) : Prop := field_lo f <= o <= field_hi f.

(* an address matches a glob when its octets match field-wise *)
Definition glob_match (fs : list field) (v : Z) : Prop := Forall2 field_match fs (octets_of v).
Definition glob_lo (fs : list field) : Z := of_octets (map field_lo fs).
Definition glob_hi (fs : list field) : Z := of_octets (map field_hi fs).

(* ================================================================== valid_glob on printed field lists *)
Definition field_inrange (f : field) : Prop :=
  match f with
  | FNum n => 0 <= n <= 255
  | FStar => True
  | FRange x y => 0 <= x <= 255 /\ 0 <= y <= 255
  end.

(* the state machine of valid_glob, on fields *)
Fixpoint fields_ok (fs : list field) (sh sa : bool) : bool :=
  match fs with
  | [] => true
  | FRange x y :: r => if sh then false else if sa then false else if x >=? y then false else fields_ok r true sa
  | FStar :: r => fields_ok r sh true
  | FNum _ :: r => if sh then false else if sa then false else fields_ok r sh sa
  end.

Lemma field_wf_inrange f : field_wf f -> field_inrange f.
Proof. destruct f; cbn; lia. Qed.

Lemma show_field_no_dot f : field_inrange f -> contains_char ch_dot (show_field f) = false.
Proof.
  destruct f as [n| |x y]; cbn [show_field field_inrange]; intros H.
  - unfold ch_dot. apply fmt_d_no_dot. lia.
  - reflexivity.
  - apply range_no_dot; lia.
Qed.

Lemma split_show_glob fs : fs <> [] -> Forall field_inrange fs ->
  split ch_dot (show_glob fs) = map show_field fs.
Proof.
  intros Hne HF. unfold show_glob. apply split_dots.
  - destruct fs; [congruence|discriminate].
  - apply Forall_map. eapply Forall_impl; [|exact HF]. apply show_field_no_dot.
Qed.

Lemma vgl_show fs sh sa : Forall field_inrange fs ->
  valid_glob_loop (map show_field fs) sh sa = fields_ok fs sh sa.
Proof.
  intros HF. revert sh sa. induction HF as [|f r Hf Hr IH]; intros sh sa; [reflexivity|].
  cbn [map valid_glob_loop fields_ok]. destruct f as [n| |x y]; cbn [show_field field_inrange] in *.
  - rewrite (fmt_d_no_hyphen n) by lia. rewrite fmt_d_neq_star by lia.
    unfold octet_value. rewrite canon_dec_fmt_d by lia.
    replace ((0 <=? n) && (n <=? 255)) with true by lia. cbn [negb].
    destruct sh; [reflexivity|]. destruct sa; [reflexivity|]. apply IH.
  - change (contains_char ch_hyphen "*") with false. cbn [String.eqb Ascii.eqb Bool.eqb]. apply IH.
  - rewrite hyphen_in_range. destruct sh; [reflexivity|]. destruct sa; [reflexivity|].
    rewrite split_range by lia. cbn [map]. unfold octet_value. rewrite !canon_dec_fmt_d by lia.
    case_eqb x y; [subst; replace (y >=? y) with true by lia; reflexivity|].
    destruct (x >=? y) eqn:E; [reflexivity|].
    replace ((0 <=? x) && (x <=? 254)) with true by lia.
    replace ((1 <=? y) && (y <=? 255)) with true by lia. cbn [negb]. apply IH.
Qed.

(* every list of octet strings the loop accepts is a printed field list *)
Lemma vgl_parse octets sh sa : valid_glob_loop octets sh sa = true ->
  exists fs, octets = map show_field fs /\ Forall field_inrange fs.
Proof.
  revert sh sa. induction octets as [|o r IH]; intros sh sa H.
  - exists []. split; [reflexivity|constructor].
  - cbn [valid_glob_loop] in H.
    destruct (contains_char ch_hyphen o) eqn:Eh.
    + destruct sh; [discriminate|]. destruct sa; [discriminate|].
      pose proof (join_split ch_hyphen o) as Hj.
      destruct (split ch_hyphen o) as [|s0 [|s1 [|s2 l]]]; cbn [map] in H; try discriminate.
      * destruct (octet_value s0); discriminate.
      * unfold octet_value in H.
        destruct (canon_dec s0) as [a|] eqn:Ea; [|discriminate].
        destruct (canon_dec s1) as [b|] eqn:Eb; [|discriminate].
        destruct (a >=? b) eqn:E1; [discriminate|].
        destruct ((0 <=? a) && (a <=? 254)) eqn:E2; [|discriminate].
        destruct ((1 <=? b) && (b <=? 255)) eqn:E3; [|discriminate]. cbn [negb] in H.
        destruct (IH _ _ H) as (fs & -> & HF).
        apply canon_dec_inv in Ea, Eb. destruct Ea as [_ ->], Eb as [_ ->].
        exists (FRange a b :: fs). split.
        -- cbn [map show_field]. f_equal. rewrite <- Hj. apply join_two.
        -- constructor; [cbn; lia|exact HF].
      * destruct (octet_value s0); [|discriminate]. destruct (octet_value s1); [|discriminate].
        destruct (octet_value s2); discriminate.
    + destruct (String.eqb o "*") eqn:Es.
      * apply String.eqb_eq in Es. subst o. destruct (IH _ _ H) as (fs & -> & HF).
        exists (FStar :: fs). split; [reflexivity|]. constructor; [exact I|exact HF].
      * destruct sh; [discriminate|]. destruct sa; [discriminate|]. unfold octet_value in H.
        destruct (canon_dec o) as [v|] eqn:Ev; [|discriminate].
        destruct ((0 <=? v) && (v <=? 255)) eqn:E; [|discriminate]. cbn [negb] in H.
        destruct (IH _ _ H) as (fs & -> & HF). apply canon_dec_inv in Ev. destruct Ev as [_ ->].
        exists (FNum v :: fs). split; [reflexivity|]. constructor; [cbn; lia|exact HF].
Qed.

Lemma fields_ok_iff fs sh sa : Forall field_inrange fs ->
  (fields_ok fs sh sa = true <-> Forall field_wf fs /\ shape_ok (sh || sa) fs).
Proof.
  intros HF. revert sh sa. induction HF as [|f r Hf Hr IH]; intros sh sa.
  - cbn. split; [intros _; split; [constructor|exact I]|reflexivity].
  - destruct f as [n| |x y]; cbn [fields_ok shape_ok field_inrange] in *.
    + destruct sh; [cbn; split; [discriminate|intros [_ [E _]]; discriminate]|].
      destruct sa; [cbn; split; [discriminate|intros [_ [E _]]; discriminate]|].
      rewrite IH. cbn [orb]. split.
      * intros [H1 H2]. split; [constructor; [exact Hf|exact H1]|split; [reflexivity|exact H2]].
      * intros [H1 [_ H2]]. inversion H1; subst. split; assumption.
    + rewrite IH. rewrite orb_true_r. split.
      * intros [H1 H2]. split; [constructor; [exact I|exact H1]|exact H2].
      * intros [H1 H2]. inversion H1; subst. split; assumption.
    + destruct sh; [cbn; split; [discriminate|intros [_ [E _]]; discriminate]|].
      destruct sa; [cbn; split; [discriminate|intros [_ [E _]]; discriminate]|].
      cbn [orb]. destruct (x >=? y) eqn:E.
      * split; [discriminate|]. intros [H1 _]. inversion H1 as [|? ? Hw _]; subst. cbn in Hw. lia.
      * rewrite IH. cbn [orb]. split.
        -- intros [H1 H2]. split; [constructor; [cbn; lia|exact H1]|split; [reflexivity|exact H2]].
        -- intros [H1 [_ H2]]. inversion H1; subst. split; assumption.
Qed.

Lemma valid_glob_show fs : List.length fs = 4%nat -> Forall field_inrange fs ->
  valid_glob (show_glob fs) = fields_ok fs false false.
Proof.
  intros HL HF. unfold valid_glob.
  assert (Hne : fs <> []) by (destruct fs; [discriminate|discriminate]).
  rewrite split_show_glob by assumption.
  unfold len. rewrite map_length, HL. cbn [Z.of_nat Pos.of_succ_nat Pos.succ Z.eqb Pos.eqb negb].
  now apply vgl_show.
Qed.

(* C17_valid *)
Theorem valid_glob_iff s : valid_glob s = true <-> glob_lang s.
Proof.
  split.
  - unfold valid_glob. intros H.
    destruct (len (split ch_dot s) =? 4) eqn:EL; [|discriminate]. cbn [negb] in H.
    destruct (vgl_parse _ _ _ H) as (fs & Hs & HF).
    assert (HL : List.length fs = 4%nat).
    { unfold len in EL. rewrite Hs, map_length in EL. lia. }
    rewrite Hs, vgl_show in H by exact HF.
    apply fields_ok_iff in H; [|exact HF]. destruct H as [Hw Hsh].
    exists fs. split; [split; [exact HL|split; [exact Hw|exact Hsh]]|].
    rewrite <- (join_split ch_dot s), Hs. reflexivity.
  - intros (fs & (HL & Hw & Hsh) & ->).
    assert (HF : Forall field_inrange fs) by (eapply Forall_impl; [|exact Hw]; apply field_wf_inrange).
    rewrite valid_glob_show by assumption. apply fields_ok_iff; [exact HF|]. split; assumption.
Qed.

(* ================================================================== conversion *)
Lemma glob_tokens_show fs : Forall field_inrange fs ->
  glob_tokens (map show_field fs) =
  Ok (map (fun f => fmt_d (field_lo f)) fs, map (fun f => fmt_d (field_hi f)) fs).
Proof.
  intros HF. induction HF as [|f r Hf Hr IH]; [reflexivity|].
  cbn [map glob_tokens]. rewrite IH. destruct f as [n| |x y]; cbn [show_field field_inrange field_lo field_hi] in *.
  - rewrite fmt_d_no_hyphen by lia. rewrite fmt_d_neq_star by lia. reflexivity.
  - reflexivity.
  - rewrite hyphen_in_range, split_range by lia. reflexivity.
Qed.

Lemma field_inrange_bounds f : field_inrange f -> 0 <= field_lo f <= 255 /\ 0 <= field_hi f <= 255.
Proof. destruct f; cbn; lia. Qed.

Ltac four fs HL :=
  destruct fs as [|?f1 [|?f2 [|?f3 [|?f4 [|? ?]]]]]; try discriminate HL; clear HL.

Ltac inv4 H :=
  let H1 := fresh "W1" in let H2 := fresh "W2" in let H3 := fresh "W3" in let H4 := fresh "W4" in
  let T := fresh in
  pose proof H as T;
  apply Forall_cons_iff in T; destruct T as [H1 T]; apply Forall_cons_iff in T; destruct T as [H2 T];
  apply Forall_cons_iff in T; destruct T as [H3 T]; apply Forall_cons_iff in T; destruct T as [H4 _].

Lemma iptuple_show fs : List.length fs = 4%nat -> Forall field_inrange fs -> fields_ok fs false false = true ->
  glob_to_iptuple (show_glob fs) = Ok (glob_lo fs, glob_hi fs).
Proof.
  intros HL HF Hok. unfold glob_to_iptuple. rewrite valid_glob_show, Hok by assumption. cbn [negb].
  rewrite split_show_glob by (try assumption; destruct fs; discriminate).
  rewrite glob_tokens_show by assumption. cbn [bind fst snd].
  four fs HL. inv4 HF.
  apply field_inrange_bounds in W1, W2, W3, W4. cbn [map].
  rewrite !ip_of_canon_quad by lia. reflexivity.
Qed.

Lemma glob_lo_le_hi fs : List.length fs = 4%nat -> Forall field_wf fs -> glob_lo fs <= glob_hi fs.
Proof.
  intros HL HW. four fs HL. inv4 HW. unfold glob_lo, glob_hi. cbn [map]. rewrite !of_octets4.
  assert (forall f, field_wf f -> 0 <= field_lo f <= field_hi f /\ field_hi f <= 255) as B
    by (intros f; destruct f; cbn; lia).
  apply B in W1, W2, W3, W4. nia.
Qed.

Lemma iprange_show fs : List.length fs = 4%nat -> Forall field_wf fs -> fields_ok fs false false = true ->
  glob_to_iprange (show_glob fs) = Ok (glob_lo fs, glob_hi fs).
Proof.
  intros HL HW Hok.
  assert (HF : Forall field_inrange fs) by (eapply Forall_impl; [|exact HW]; apply field_wf_inrange).
  pose proof (iptuple_show fs HL HF Hok) as Ht. unfold glob_to_iptuple in Ht. unfold glob_to_iprange.
  destruct (negb (valid_glob (show_glob fs))); [discriminate|].
  destruct (glob_tokens _) as [tk|]; [|discriminate]. cbn [bind] in *.
  destruct (ip_of_canon (join "." (fst tk))) as [a|]; [|discriminate]. cbn [bind] in *.
  destruct (ip_of_canon (join "." (snd tk))) as [b|]; [|discriminate]. cbn [bind] in *.
  injection Ht as -> ->. pose proof (glob_lo_le_hi fs HL HW).
  destruct (glob_lo fs >? glob_hi fs) eqn:E; [lia|reflexivity].
Qed.

Lemma glob_fields_ok fs : glob_fields fs -> Forall field_inrange fs /\ fields_ok fs false false = true.
Proof.
  intros (HL & HW & Hsh).
  assert (HF : Forall field_inrange fs) by (eapply Forall_impl; [|exact HW]; apply field_wf_inrange).
  split; [exact HF|]. apply fields_ok_iff; [exact HF|]. split; assumption.
Qed.

Lemma Forall2_4 {A B} (P : A -> B -> Prop) f1 f2 f3 f4 a b c d :
  Forall2 P [f1; f2; f3; f4] [a; b; c; d] <-> P f1 a /\ P f2 b /\ P f3 c /\ P f4 d.
Proof.
  split.
  - intros H. inversion H as [|? ? ? ? H1 T1]; subst. inversion T1 as [|? ? ? ? H2 T2]; subst.
    inversion T2 as [|? ? ? ? H3 T3]; subst. inversion T3 as [|? ? ? ? H4 T4]; subst. tauto.
  - intros (H1 & H2 & H3 & H4). repeat constructor; assumption.
Qed.

(* the matching addresses of a glob are exactly one interval *)
Lemma match_interval fs a b c d : glob_fields fs ->
  0 <= a <= 255 -> 0 <= b <= 255 -> 0 <= c <= 255 -> 0 <= d <= 255 ->
  (Forall2 field_match fs [a; b; c; d] <-> glob_lo fs <= of_octets [a; b; c; d] <= glob_hi fs).
Proof.
  intros (HL & HW & Hsh) Ha Hb Hc Hd. four fs HL. inv4 HW. rewrite Forall2_4.
  unfold glob_lo, glob_hi, field_match. cbn [map]. rewrite !of_octets4.
  destruct f1, f2, f3, f4; cbn [shape_ok] in Hsh; try (exfalso; intuition congruence);
    cbn [field_wf field_lo field_hi] in *; lia.
Qed.

Lemma glob_match_interval fs v : glob_fields fs -> 0 <= v < 2 ^ 32 ->
  (glob_match fs v <-> glob_lo fs <= v <= glob_hi fs).
Proof.
  intros Hg Hv. unfold glob_match.
  pose proof (octets_of_range v Hv) as HR. pose proof (of_octets_octets_of v Hv) as HV.
  unfold octets_of in *.
  set (a := v / 2 ^ 24) in *. set (b := (v / 2 ^ 16) mod 256) in *.
  set (c := (v / 2 ^ 8) mod 256) in *. set (d := v mod 256) in *. clearbody a b c d.
  inv4 HR. rewrite (match_interval fs a b c d) by assumption. rewrite HV. reflexivity.
Qed.

Lemma glob_bounds_range fs : glob_fields fs -> 0 <= glob_lo fs /\ glob_hi fs < 2 ^ 32.
Proof.
  intros (HL & HW & _). four fs HL. inv4 HW. unfold glob_lo, glob_hi. cbn [map].
  assert (forall f, field_wf f -> 0 <= field_lo f <= field_hi f /\ field_hi f <= 255) as B
    by (intros f; destruct f; cbn; lia).
  apply B in W1, W2, W3, W4. rewrite !of_octets4. change (2 ^ 32) with 4294967296. lia.
Qed.

(* ================================================================== _iprange_to_glob, on fields *)
Fixpoint i2g_fields (n : nat) (t1 t2 : list Z) (sh sa : bool) : outcome (list field) :=
  match n with
  | O => Ok []
  | S n' =>
      match t1, t2 with
      | a :: r1, b :: r2 =>
          if a =? b then do r <- i2g_fields n' r1 r2 sh sa; Ok (FNum a :: r)
          else if (a =? 0) && (b =? 255) then do r <- i2g_fields n' r1 r2 sh true; Ok (FStar :: r)
          else if negb sa then
            if negb sh then do r <- i2g_fields n' r1 r2 true sa; Ok (FRange a b :: r)
            else Raise AddrConversionError
          else Raise AddrConversionError
      | _, _ => Raise IndexError
      end
  end.

Lemma i2g_loop_fields n t1 t2 sh sa :
  i2g_loop n t1 t2 sh sa = omap (map show_field) (i2g_fields n t1 t2 sh sa).
Proof.
  revert t1 t2 sh sa. induction n as [|n IH]; intros t1 t2 sh sa; [reflexivity|].
  cbn [i2g_loop i2g_fields]. destruct t1 as [|a r1]; [reflexivity|]. destruct t2 as [|b r2]; [reflexivity|].
  destruct (a =? b).
  { rewrite IH. destruct (i2g_fields n r1 r2 sh sa); reflexivity. }
  destruct ((a =? 0) && (b =? 255)).
  { rewrite IH. destruct (i2g_fields n r1 r2 sh true); reflexivity. }
  destruct (negb sa); [|reflexivity]. destruct (negb sh); [|reflexivity].
  rewrite IH. destruct (i2g_fields n r1 r2 true sa); reflexivity.
Qed.

Lemma i2g_fields_bounds n t1 t2 sh sa fs :
  List.length t1 = n -> List.length t2 = n -> i2g_fields n t1 t2 sh sa = Ok fs ->
  map field_lo fs = t1 /\ map field_hi fs = t2 /\ List.length fs = n /\
  (Forall (fun o => 0 <= o <= 255) t1 -> Forall (fun o => 0 <= o <= 255) t2 -> Forall field_inrange fs).
Proof.
  revert t1 t2 sh sa fs. induction n as [|n IH]; intros t1 t2 sh sa fs L1 L2 H.
  - destruct t1, t2; try discriminate. injection H as <-. repeat split; constructor.
  - destruct t1 as [|a r1]; [discriminate|]. destruct t2 as [|b r2]; [discriminate|].
    injection L1 as L1. injection L2 as L2. cbn [i2g_fields] in H.
    assert (K : forall sh' sa' f, field_lo f = a -> field_hi f = b ->
                (0 <= a <= 255 -> 0 <= b <= 255 -> field_inrange f) ->
                (do r <- i2g_fields n r1 r2 sh' sa'; Ok (f :: r)) = Ok fs ->
                map field_lo fs = a :: r1 /\ map field_hi fs = b :: r2 /\ List.length fs = S n /\
                (Forall (fun o => 0 <= o <= 255) (a :: r1) -> Forall (fun o => 0 <= o <= 255) (b :: r2) ->
                 Forall field_inrange fs)).
    { intros sh' sa' f Hlo Hhi Hin Hd. destruct (i2g_fields n r1 r2 sh' sa') as [r|] eqn:E; [|discriminate].
      injection Hd as <-. destruct (IH _ _ _ _ _ L1 L2 E) as (A1 & A2 & A3 & A4).
      cbn [map List.length]. rewrite A1, A2, A3, Hlo, Hhi. repeat split; try reflexivity.
      intros F1 F2. inversion F1; subst. inversion F2; subst. constructor; [auto|auto]. }
    case_eqb a b.
    { subst b. apply (K _ _ (FNum a)) in H; try reflexivity; [exact H|cbn; lia]. }
    destruct ((a =? 0) && (b =? 255)) eqn:E0.
    { apply (K _ _ FStar) in H; [exact H|cbn; lia|cbn; lia|cbn; auto]. }
    destruct (negb sa); [|discriminate]. destruct (negb sh); [|discriminate].
    apply (K _ _ (FRange a b)) in H; [exact H|reflexivity|reflexivity|cbn; lia].
Qed.

Lemma i2g_fields_exn n t1 t2 sh sa e :
  List.length t1 = n -> List.length t2 = n -> i2g_fields n t1 t2 sh sa = Raise e -> e = AddrConversionError.
Proof.
  revert t1 t2 sh sa. induction n as [|n IH]; intros t1 t2 sh sa L1 L2 H.
  - discriminate.
  - destruct t1 as [|a r1]; [discriminate|]. destruct t2 as [|b r2]; [discriminate|].
    injection L1 as L1. injection L2 as L2. cbn [i2g_fields] in H.
    destruct (a =? b).
    { destruct (i2g_fields n r1 r2 sh sa) eqn:E; [discriminate|]. injection H as <-. exact (IH _ _ _ _ L1 L2 E). }
    destruct ((a =? 0) && (b =? 255)).
    { destruct (i2g_fields n r1 r2 sh true) eqn:E; [discriminate|]. injection H as <-. exact (IH _ _ _ _ L1 L2 E). }
    destruct (negb sa); [|congruence]. destruct (negb sh); [|congruence].
    destruct (i2g_fields n r1 r2 true sa) eqn:E; [discriminate|]. injection H as <-. exact (IH _ _ _ _ L1 L2 E).
Qed.

(* a glob-shaped pair of octet lists is rebuilt as a well-shaped field list with the same bounds *)
Lemma i2g_fields_shaped fs sh sa : Forall field_wf fs -> shape_ok (sh || sa) fs ->
  exists fs', i2g_fields (List.length fs) (map field_lo fs) (map field_hi fs) sh sa = Ok fs' /\
              Forall field_wf fs' /\ shape_ok (sh || sa) fs'.
Proof.
  intros HW. revert sh sa. induction HW as [|f r Hf Hr IH]; intros sh sa Hsh.
  - exists []. repeat split; constructor.
  - cbn [List.length map i2g_fields]. destruct f as [n| |x y]; cbn [field_lo field_hi shape_ok field_wf] in *.
    + destruct Hsh as [Ht Hsh]. apply orb_false_iff in Ht. destruct Ht as [-> ->].
      rewrite Z.eqb_refl. destruct (IH false false Hsh) as (fs' & -> & W & S).
      exists (FNum n :: fs'). cbn [bind shape_ok orb]. repeat split; [constructor; assumption|exact S].
    + change (0 =? 255) with false. cbn [Z.eqb andb].
      destruct (IH sh true) as (fs' & -> & W & S); [rewrite orb_true_r; exact Hsh|].
      rewrite orb_true_r in S.
      exists (FStar :: fs'). cbn [bind shape_ok]. repeat split; [constructor; [exact I|assumption]|exact S].
    + destruct Hsh as [Ht Hsh]. apply orb_false_iff in Ht. destruct Ht as [-> ->].
      replace (x =? y) with false by lia. destruct ((x =? 0) && (y =? 255)) eqn:E.
      * destruct (IH false true Hsh) as (fs' & -> & W & S).
        exists (FStar :: fs'). cbn [bind shape_ok orb]. repeat split; [constructor; [exact I|assumption]|exact S].
      * cbn [negb]. destruct (IH true false Hsh) as (fs' & -> & W & S).
        exists (FRange x y :: fs'). cbn [bind shape_ok orb].
        repeat split; [constructor; [cbn; lia|assumption]|exact S].
Qed.

Lemma iprange_to_glob1_eq lb ub : 0 <= lb < 2 ^ 32 -> 0 <= ub < 2 ^ 32 ->
  iprange_to_glob1 lb ub = omap show_glob (i2g_fields 4 (octets_of lb) (octets_of ub) false false).
Proof.
  intros Hl Hu. unfold iprange_to_glob1. rewrite !int_to_str4_eq by assumption. cbn [bind].
  assert (forall v, 0 <= v < 2 ^ 32 -> ints_of_str (join "." (map fmt_d (octets_of v))) = Ok (octets_of v)) as K.
  { intros v Hv. apply ints_of_str_octets; [discriminate|].
    eapply Forall_impl; [|apply (octets_of_range v Hv)]. cbn. lia. }
  rewrite !K by assumption. cbn [bind]. rewrite i2g_loop_fields.
  destruct (i2g_fields 4 (octets_of lb) (octets_of ub) false false); reflexivity.
Qed.

(* [lo, hi] is the exact denotation of some glob *)
Definition glob_shaped (lo hi : Z) : Prop := exists fs, glob_fields fs /\ glob_lo fs = lo /\ glob_hi fs = hi.

Lemma lo_hi_of_octets fs t1 t2 : map field_lo fs = t1 -> map field_hi fs = t2 ->
  glob_lo fs = of_octets t1 /\ glob_hi fs = of_octets t2.
Proof. intros <- <-. split; reflexivity. Qed.

(* whatever _iprange_to_glob returns, if valid_glob accepts it, it denotes exactly [lb, ub] *)
Lemma glob1_valid lb ub g : 0 <= lb < 2 ^ 32 -> 0 <= ub < 2 ^ 32 ->
  iprange_to_glob1 lb ub = Ok g -> valid_glob g = true ->
  exists fs, g = show_glob fs /\ glob_fields fs /\ glob_lo fs = lb /\ glob_hi fs = ub.
Proof.
  intros Hl Hu H Hv. rewrite iprange_to_glob1_eq in H by assumption.
  destruct (i2g_fields 4 (octets_of lb) (octets_of ub) false false) as [fs|] eqn:E; [|discriminate].
  injection H as <-.
  destruct (i2g_fields_bounds 4 (octets_of lb) (octets_of ub) _ _ _ eq_refl eq_refl E) as (A1 & A2 & A3 & A4).
  specialize (A4 (octets_of_range lb Hl) (octets_of_range ub Hu)).
  rewrite valid_glob_show in Hv by assumption. apply fields_ok_iff in Hv; [|exact A4].
  exists fs. split; [reflexivity|]. split; [split; [exact A3|exact Hv]|].
  destruct (lo_hi_of_octets fs _ _ A1 A2) as [-> ->]. rewrite !of_octets_octets_of by assumption. split; reflexivity.
Qed.

(* on a glob-shaped range it returns a valid glob *)
Lemma glob1_shaped lo hi : glob_shaped lo hi ->
  exists g, iprange_to_glob1 lo hi = Ok g /\ valid_glob g = true.
Proof.
  intros (fs & Hg & <- & <-). pose proof (glob_bounds_range fs Hg) as HB.
  destruct Hg as (HL & HW & Hsh). pose proof (glob_lo_le_hi fs HL HW) as Hle.
  rewrite iprange_to_glob1_eq by lia.
  destruct (i2g_fields_shaped fs false false HW Hsh) as (fs' & E & W' & S').
  assert (HB4 : forall f, field_wf f -> 0 <= field_lo f <= 255 /\ 0 <= field_hi f <= 255)
    by (intros f; destruct f; cbn; lia).
  assert (octets_of (glob_lo fs) = map field_lo fs /\ octets_of (glob_hi fs) = map field_hi fs) as [-> ->].
  { clear E. four fs HL. inv4 HW. apply HB4 in W1, W2, W3, W4. unfold glob_lo, glob_hi. cbn [map].
    split; apply octets_of_of_octets; lia. }
  rewrite HL in E. rewrite E. cbn [omap]. exists (show_glob fs'). split; [reflexivity|].
  destruct (i2g_fields_bounds _ _ _ _ _ _ ltac:(rewrite map_length; exact HL) ltac:(rewrite map_length; exact HL) E)
    as (_ & _ & L' & _).
  apply valid_glob_iff. exists fs'. split; [split; [exact L'|split; assumption]|reflexivity].
Qed.

(* ================================================================== aligned blocks are glob-shaped *)
Ltac block_tac :=
  unfold glob_fields, glob_lo, glob_hi; cbn [map field_lo field_hi List.length shape_ok]; rewrite !of_octets4;
  split; [split; [reflexivity|split; [repeat constructor; cbn [field_wf]; lia_dm|intuition]]|lia_dm].

Lemma block_shaped f h : 0 <= h <= 32 -> 0 <= f -> f + 2 ^ h - 1 < 2 ^ 32 -> f mod 2 ^ h = 0 ->
  glob_shaped f (f + 2 ^ h - 1).
Proof.
  intros Hh Hf Hlast Hal.
  assert (Hv : 0 <= f < 2 ^ 32) by (pose proof (pow2_pos h ltac:(lia)); lia).
  pose proof (octets_of_range f Hv) as HR. pose proof (of_octets_octets_of f Hv) as HV.
  unfold octets_of in HR, HV. inv4 HR.
  set (a := f / 2 ^ 24) in *. set (b := (f / 2 ^ 16) mod 256) in *.
  set (c := (f / 2 ^ 8) mod 256) in *. set (d := f mod 256) in *.
  rewrite of_octets4 in HV. clearbody a b c d. unfold glob_shaped. change (2 ^ 32) with 4294967296 in *.
  assert (Hcases : h = 0 \/ h = 1 \/ h = 2 \/ h = 3 \/ h = 4 \/ h = 5 \/ h = 6 \/ h = 7 \/ h = 8 \/ h = 9 \/ h = 10 \/
                   h = 11 \/ h = 12 \/ h = 13 \/ h = 14 \/ h = 15 \/ h = 16 \/ h = 17 \/ h = 18 \/ h = 19 \/ h = 20 \/
                   h = 21 \/ h = 22 \/ h = 23 \/ h = 24 \/ h = 25 \/ h = 26 \/ h = 27 \/ h = 28 \/ h = 29 \/ h = 30 \/
                   h = 31 \/ h = 32) by lia.
  repeat (destruct Hcases as [->|Hcases]); [..|subst h].
  - change (2 ^ 0) with 1 in *. exists [FNum a; FNum b; FNum c; FNum d]. block_tac.
  - change (2 ^ 1) with 2 in *. exists [FNum a; FNum b; FNum c; FRange d (d + 1)]. block_tac.
  - change (2 ^ 2) with 4 in *. exists [FNum a; FNum b; FNum c; FRange d (d + 3)]. block_tac.
  - change (2 ^ 3) with 8 in *. exists [FNum a; FNum b; FNum c; FRange d (d + 7)]. block_tac.
  - change (2 ^ 4) with 16 in *. exists [FNum a; FNum b; FNum c; FRange d (d + 15)]. block_tac.
  - change (2 ^ 5) with 32 in *. exists [FNum a; FNum b; FNum c; FRange d (d + 31)]. block_tac.
  - change (2 ^ 6) with 64 in *. exists [FNum a; FNum b; FNum c; FRange d (d + 63)]. block_tac.
  - change (2 ^ 7) with 128 in *. exists [FNum a; FNum b; FNum c; FRange d (d + 127)]. block_tac.
  - change (2 ^ 8) with 256 in *. exists [FNum a; FNum b; FNum c; FStar]. block_tac.
  - change (2 ^ 9) with 512 in *. exists [FNum a; FNum b; FRange c (c + 1); FStar]. block_tac.
  - change (2 ^ 10) with 1024 in *. exists [FNum a; FNum b; FRange c (c + 3); FStar]. block_tac.
  - change (2 ^ 11) with 2048 in *. exists [FNum a; FNum b; FRange c (c + 7); FStar]. block_tac.
  - change (2 ^ 12) with 4096 in *. exists [FNum a; FNum b; FRange c (c + 15); FStar]. block_tac.
  - change (2 ^ 13) with 8192 in *. exists [FNum a; FNum b; FRange c (c + 31); FStar]. block_tac.
  - change (2 ^ 14) with 16384 in *. exists [FNum a; FNum b; FRange c (c + 63); FStar]. block_tac.
  - change (2 ^ 15) with 32768 in *. exists [FNum a; FNum b; FRange c (c + 127); FStar]. block_tac.
  - change (2 ^ 16) with 65536 in *. exists [FNum a; FNum b; FStar; FStar]. block_tac.
  - change (2 ^ 17) with 131072 in *. exists [FNum a; FRange b (b + 1); FStar; FStar]. block_tac.
  - change (2 ^ 18) with 262144 in *. exists [FNum a; FRange b (b + 3); FStar; FStar]. block_tac.
  - change (2 ^ 19) with 524288 in *. exists [FNum a; FRange b (b + 7); FStar; FStar]. block_tac.
  - change (2 ^ 20) with 1048576 in *. exists [FNum a; FRange b (b + 15); FStar; FStar]. block_tac.
  - change (2 ^ 21) with 2097152 in *. exists [FNum a; FRange b (b + 31); FStar; FStar]. block_tac.
  - change (2 ^ 22) with 4194304 in *. exists [FNum a; FRange b (b + 63); FStar; FStar]. block_tac.
  - change (2 ^ 23) with 8388608 in *. exists [FNum a; FRange b (b + 127); FStar; FStar]. block_tac.
  - change (2 ^ 24) with 16777216 in *. exists [FNum a; FStar; FStar; FStar]. block_tac.
  - change (2 ^ 25) with 33554432 in *. exists [FRange a (a + 1); FStar; FStar; FStar]. block_tac.
  - change (2 ^ 26) with 67108864 in *. exists [FRange a (a + 3); FStar; FStar; FStar]. block_tac.
  - change (2 ^ 27) with 134217728 in *. exists [FRange a (a + 7); FStar; FStar; FStar]. block_tac.
  - change (2 ^ 28) with 268435456 in *. exists [FRange a (a + 15); FStar; FStar; FStar]. block_tac.
  - change (2 ^ 29) with 536870912 in *. exists [FRange a (a + 31); FStar; FStar; FStar]. block_tac.
  - change (2 ^ 30) with 1073741824 in *. exists [FRange a (a + 63); FStar; FStar; FStar]. block_tac.
  - change (2 ^ 31) with 2147483648 in *. exists [FRange a (a + 127); FStar; FStar; FStar]. block_tac.
  - change (2 ^ 32) with 4294967296 in *. exists [FStar; FStar; FStar; FStar]. block_tac.
Qed.

(* ================================================================== iprange_to_globs *)
(* g is a glob of the grammar whose matching addresses are exactly [a, b] *)
Definition glob_denotes (g : string) (a b : Z) : Prop :=
  exists fs, g = show_glob fs /\ glob_fields fs /\ glob_lo fs = a /\ glob_hi fs = b.

Lemma glob_denotes_facts g a b : glob_denotes g a b ->
  valid_glob g = true /\ glob_to_iptuple g = Ok (a, b) /\ glob_to_iprange g = Ok (a, b) /\
  0 <= a <= b /\ b < 2 ^ 32 /\
  exists fs, g = show_glob fs /\ glob_fields fs /\ forall v, 0 <= v < 2 ^ 32 -> (glob_match fs v <-> a <= v <= b).
Proof.
  intros (fs & -> & Hg & <- & <-). pose proof (glob_fields_ok fs Hg) as [HF Hok].
  pose proof (glob_bounds_range fs Hg) as HB. pose proof Hg as (HL & HW & Hsh).
  pose proof (glob_lo_le_hi fs HL HW).
  split; [apply valid_glob_iff; exists fs; split; [exact Hg|reflexivity]|].
  split; [now apply iptuple_show|]. split; [now apply iprange_show|]. split; [lia|]. split; [lia|].
  exists fs. split; [reflexivity|]. split; [exact Hg|]. intros v Hv. now apply glob_match_interval.
Qed.

(* consecutive intervals from lo to hi: ascending, pairwise disjoint, union = [lo, hi] *)
Fixpoint chain (ivs : list (Z * Z)) (lo hi : Z) : Prop :=
  match ivs with
  | [] => lo = hi + 1
  | iv :: r => fst iv = lo /\ fst iv <= snd iv /\ chain r (snd iv + 1) hi
  end.

Lemma chain_mem ivs lo hi : chain ivs lo hi -> lo <= hi + 1 /\
  forall x, (lo <= x <= hi <-> exists iv, In iv ivs /\ fst iv <= x <= snd iv).
Proof.
  revert lo. induction ivs as [|iv r IH]; intros lo H; cbn [chain] in H.
  - split; [lia|]. intros x. split; [lia|]. intros (iv & [] & _).
  - destruct H as (H1 & H2 & H3). destruct (IH _ H3) as [L M]. split; [lia|]. intros x. split.
    + intros Hx. destruct (Z_le_gt_dec x (snd iv)).
      * exists iv. split; [left; reflexivity|lia].
      * destruct (proj1 (M x) ltac:(lia)) as (iv' & Hin & Hx'). exists iv'. split; [right; exact Hin|exact Hx'].
    + intros (iv' & [<-|Hin] & Hx); [lia|].
      pose proof (proj2 (M x) (ex_intro _ iv' (conj Hin Hx))). lia.
Qed.

(* a canonical aligned IPv4 block (value, prefixlen) and its interval *)
Definition block_ok (c : Z * Z) : Prop :=
  0 <= snd c <= 32 /\ 0 <= fst c /\ fst c + 2 ^ (32 - snd c) - 1 < 2 ^ 32 /\ fst c mod 2 ^ (32 - snd c) = 0.
Definition block_iv (c : Z * Z) : Z * Z := (fst c, fst c + 2 ^ (32 - snd c) - 1).
Definition cidrs_tile (cs : list (Z * Z)) (lo hi : Z) : Prop := Forall block_ok cs /\ chain (map block_iv cs) lo hi.

Lemma block_first_last c : block_ok c ->
  net_first 32 (fst c) (snd c) = fst c /\ net_last 32 (fst c) (snd c) = fst c + 2 ^ (32 - snd c) - 1.
Proof.
  intros (Hp & H0 & Hl & Hal). pose proof (pow2_pos (32 - snd c) ltac:(lia)).
  destruct (C02.identities_w 32 (fst c) (snd c) ltac:(lia) ltac:(lia)) as (_ & _ & _ & _ & F & L & _).
  rewrite F, L, Hal. split; lia.
Qed.

Lemma block_glob c : block_ok c ->
  exists g, iprange_to_glob1 (net_first 32 (fst c) (snd c)) (net_last 32 (fst c) (snd c)) = Ok g /\
            glob_denotes g (fst (block_iv c)) (snd (block_iv c)).
Proof.
  intros Hb. destruct (block_first_last c Hb) as [-> ->]. destruct Hb as (Hp & H0 & Hl & Hal).
  pose proof (pow2_pos (32 - snd c) ltac:(lia)).
  destruct (glob1_shaped _ _ (block_shaped (fst c) (32 - snd c) ltac:(lia) H0 Hl Hal)) as (g & Hg & Hv).
  exists g. split; [exact Hg|]. cbn [block_iv fst snd].
  assert (R1 : 0 <= fst c < 2 ^ 32) by lia.
  assert (R2 : 0 <= fst c + 2 ^ (32 - snd c) - 1 < 2 ^ 32) by lia.
  destruct (glob1_valid _ _ g R1 R2 Hg Hv) as (fs & E & F & A & B).
  exists fs. auto.
Qed.

Lemma glob1_exn lb ub e : 0 <= lb < 2 ^ 32 -> 0 <= ub < 2 ^ 32 ->
  iprange_to_glob1 lb ub = Raise e -> e = AddrConversionError.
Proof.
  intros Hl Hu H. rewrite iprange_to_glob1_eq in H by assumption.
  destruct (i2g_fields 4 (octets_of lb) (octets_of ub) false false) eqn:E; [discriminate|].
  injection H as <-. exact (i2g_fields_exn 4 (octets_of lb) (octets_of ub) _ _ _ eq_refl eq_refl E).
Qed.

Lemma Forall2_len {A B} (P : A -> B -> Prop) l1 l2 : Forall2 P l1 l2 -> List.length l1 = List.length l2.
Proof. induction 1; cbn; congruence. Qed.

Section ToGlobs.
Variable to_cidrs : Z -> Z -> outcome (list (Z * Z)).

Definition attempt (s e : Z) : outcome (list string) :=
  do ipglob <- iprange_to_glob1 s e;
  if negb (valid_glob ipglob) then Raise AddrConversionError else Ok [ipglob].

Lemma iprange_to_globs_v4 s e :
  iprange_to_globs to_cidrs (4, s) (4, e) =
  match attempt s e with
  | Ok globs => Ok globs
  | Raise AddrConversionError =>
      do cidrs <- to_cidrs s e;
      map_outcome (fun c => iprange_to_glob1 (net_first 32 (fst c) (snd c)) (net_last 32 (fst c) (snd c))) cidrs
  | Raise ex => Raise ex
  end.
Proof. reflexivity. Qed.

Lemma attempt_cases lo hi : 0 <= lo < 2 ^ 32 -> 0 <= hi < 2 ^ 32 ->
  (exists g, attempt lo hi = Ok [g] /\ glob_denotes g lo hi) \/
  (attempt lo hi = Raise AddrConversionError /\ ~ glob_shaped lo hi).
Proof.
  intros Hl Hh. unfold attempt. destruct (iprange_to_glob1 lo hi) as [g|e] eqn:E; cbn [bind].
  - destruct (valid_glob g) eqn:Ev; cbn [negb].
    + left. exists g. split; [reflexivity|]. destruct (glob1_valid _ _ g Hl Hh E Ev) as (fs & ? & ? & ? & ?).
      exists fs. auto.
    + right. split; [reflexivity|]. intros Hs. destruct (glob1_shaped _ _ Hs) as (g' & Hg' & Hv'). congruence.
  - right. rewrite (glob1_exn _ _ _ Hl Hh E). split; [reflexivity|].
    intros Hs. destruct (glob1_shaped _ _ Hs) as (g' & Hg' & _). congruence.
Qed.

(* a glob-shaped range: one glob, whatever iprange_to_cidrs does *)
Lemma to_globs_shaped lo hi : glob_shaped lo hi ->
  exists g, iprange_to_globs to_cidrs (4, lo) (4, hi) = Ok [g] /\ glob_denotes g lo hi.
Proof.
  intros Hs. assert (0 <= lo < 2 ^ 32 /\ 0 <= hi < 2 ^ 32) as [Hl Hh].
  { destruct Hs as (fs & Hg & <- & <-). pose proof (glob_bounds_range fs Hg). destruct Hg as (HL & HW & _).
    pose proof (glob_lo_le_hi fs HL HW). lia. }
  rewrite iprange_to_globs_v4. destruct (attempt_cases lo hi Hl Hh) as [(g & -> & Hd)|[_ Hn]]; [|contradiction].
  exists g. split; [reflexivity|exact Hd].
Qed.

Lemma blocks_globs cs : Forall block_ok cs ->
  exists gl, map_outcome (fun c => iprange_to_glob1 (net_first 32 (fst c) (snd c)) (net_last 32 (fst c) (snd c))) cs = Ok gl /\
             Forall2 (fun g iv => glob_denotes g (fst iv) (snd iv)) gl (map block_iv cs).
Proof.
  intros HF. induction HF as [|c r Hc Hr IH].
  - exists []. split; [reflexivity|constructor].
  - destruct IH as (gl & E & F). destruct (block_glob c Hc) as (g & Eg & Dg).
    exists (g :: gl). cbn [map_outcome map]. rewrite Eg, E. split; [reflexivity|]. constructor; assumption.
Qed.

Hypothesis to_cidrs_spec : forall lo hi, 0 <= lo <= hi /\ hi < 2 ^ 32 ->
  exists cs, to_cidrs lo hi = Ok cs /\ cidrs_tile cs lo hi.

Theorem to_globs_tile lo hi : 0 <= lo <= hi /\ hi < 2 ^ 32 ->
  exists gl ivs, iprange_to_globs to_cidrs (4, lo) (4, hi) = Ok gl /\
                 Forall2 (fun g iv => glob_denotes g (fst iv) (snd iv)) gl ivs /\
                 chain ivs lo hi /\
                 (List.length gl = 1%nat <-> glob_shaped lo hi).
Proof.
  intros H. rewrite iprange_to_globs_v4.
  destruct (attempt_cases lo hi ltac:(lia) ltac:(lia)) as [(g & -> & Hd)|[-> Hn]].
  - exists [g], [(lo, hi)]. split; [reflexivity|]. split; [repeat constructor; exact Hd|].
    split; [cbn; lia|]. split; [intros _|reflexivity].
    destruct Hd as (fs & ? & ? & ? & ?). exists fs. auto.
  - destruct (to_cidrs_spec lo hi H) as (cs & -> & HB & HC). cbn [bind].
    destruct (blocks_globs cs HB) as (gl & -> & HF).
    exists gl, (map block_iv cs). split; [reflexivity|]. split; [exact HF|]. split; [exact HC|].
    split; [|intros Hs; contradiction].
    intros HL. exfalso. apply Hn.
    pose proof (Forall2_len _ _ _ HF) as HL2. rewrite map_length, HL in HL2.
    destruct cs as [|c [|c2 r]]; try discriminate. cbn [map chain block_iv fst snd] in HC.
    destruct HC as (C1 & C2 & C3). apply Forall_cons_iff in HB. destruct HB as [(Hp & H0 & Hl & Hal) _].
    replace hi with (lo + 2 ^ (32 - snd c) - 1) by lia. subst lo.
    apply block_shaped; try assumption; lia.
Qed.
End ToGlobs.

(* ================================================================== cidr_to_glob *)
Theorem cidr_to_glob_exact to_cidrs v p : 0 <= p <= 32 -> 0 <= v < 2 ^ 32 ->
  let first := v - v mod 2 ^ (32 - p) in
  let last := first + 2 ^ (32 - p) - 1 in
  exists g, cidr_to_glob to_cidrs 4 v p = Ok g /\ glob_denotes g first last.
Proof.
  intros Hp Hv first last. unfold cidr_to_glob. change (width 4) with 32.
  destruct (C02.identities_w 32 v p ltac:(lia) ltac:(lia)) as (_ & _ & _ & _ & F & L & _ & _ & _ & _ & A & B & C).
  rewrite F, L. fold first. replace (first + (2 ^ (32 - p) - 1)) with last by (unfold last; lia).
  pose proof (pow2_pos (32 - p) ltac:(lia)).
  assert (Hs : glob_shaped first last).
  { unfold last. apply block_shaped; [lia|exact B| |exact A]. unfold first. lia. }
  destruct (to_globs_shaped to_cidrs first last Hs) as (g & -> & Hd). cbn [bind].
  exists g. split; [reflexivity|exact Hd].
Qed.

Lemma cidr_to_glob_v6 to_cidrs v p : cidr_to_glob to_cidrs 6 v p = Raise AddrConversionError.
Proof. reflexivity. Qed.

(* ================================================================== IPGlob *)
Section IPGlob.
Variable to_cidrs : Z -> Z -> outcome (list (Z * Z)).

Lemma set_glob_valid o fs : glob_fields fs ->
  exists g, set_glob to_cidrs o (show_glob fs) =
              ({| g_start := glob_lo fs; g_end := glob_hi fs; g_glob := Some g |}, None) /\
            glob_denotes g (glob_lo fs) (glob_hi fs).
Proof.
  intros Hg. pose proof (glob_fields_ok fs Hg) as [HF Hok]. pose proof Hg as (HL & _).
  unfold set_glob. rewrite iptuple_show by assumption.
  destruct (to_globs_shaped to_cidrs (glob_lo fs) (glob_hi fs)) as (g & -> & Hd).
  { exists fs. auto. }
  cbn [bind first_of]. exists g. split; [reflexivity|exact Hd].
Qed.

Lemma set_glob_invalid o s : valid_glob s = false -> set_glob to_cidrs o s = (o, Some AddrFormatError).
Proof. intros H. unfold set_glob, glob_to_iptuple. rewrite H. reflexivity. Qed.

Lemma set_glob_denoted o g a b : glob_denotes g a b ->
  exists g', set_glob to_cidrs o g = ({| g_start := a; g_end := b; g_glob := Some g' |}, None) /\ glob_denotes g' a b.
Proof. intros (fs & -> & Hg & <- & <-). now apply set_glob_valid. Qed.

(* the canonical glob of a glob-shaped range is a fixed point of the conversion chain *)
Lemma set_glob_canonical o lo hi g : iprange_to_globs to_cidrs (4, lo) (4, hi) = Ok [g] -> glob_denotes g lo hi ->
  set_glob to_cidrs o g = ({| g_start := lo; g_end := hi; g_glob := Some g |}, None).
Proof.
  intros E Hd. destruct (glob_denotes_facts g lo hi Hd) as (_ & Ht & _).
  unfold set_glob. rewrite Ht, E. reflexivity.
Qed.

Theorem ipglob_new_spec fs : glob_fields fs ->
  exists g, ipglob_new to_cidrs (show_glob fs) = Ok {| g_start := glob_lo fs; g_end := glob_hi fs; g_glob := Some g |} /\
            glob_denotes g (glob_lo fs) (glob_hi fs) /\
            ipglob_str {| g_start := glob_lo fs; g_end := glob_hi fs; g_glob := Some g |} = Ok g /\
            ipglob_setstate to_cidrs (ipglob_getstate {| g_start := glob_lo fs; g_end := glob_hi fs; g_glob := Some g |})
              = Ok {| g_start := glob_lo fs; g_end := glob_hi fs; g_glob := Some g |}.
Proof.
  intros Hg. pose proof (glob_fields_ok fs Hg) as [HF Hok]. pose proof Hg as (HL & HW & _).
  pose proof (glob_lo_le_hi fs HL HW) as Hle. pose proof (glob_bounds_range fs Hg) as HB.
  destruct (to_globs_shaped to_cidrs (glob_lo fs) (glob_hi fs)) as (g & E & Hd); [exists fs; auto|].
  exists g. split; [|split; [exact Hd|split; [reflexivity|]]].
  - unfold ipglob_new. rewrite iptuple_show by assumption. cbn [bind].
    replace (glob_lo fs >? glob_hi fs) with false by lia. rewrite E. cbn [bind first_of].
    rewrite (set_glob_canonical _ _ _ _ E Hd). reflexivity.
  - unfold ipglob_getstate, ipglob_setstate. cbn [g_start g_end].
    unfold addr_of_int_ver, in_range_w, max_int_w. cbn [Z.eqb Pos.eqb].
    change (2 ^ 32 - 1) with 4294967295. change (2 ^ 32) with 4294967296 in HB.
    replace ((0 <=? glob_lo fs) && (glob_lo fs <=? 4294967295)) with true by lia.
    replace ((0 <=? glob_hi fs) && (glob_hi fs <=? 4294967295)) with true by lia.
    cbn [bind snd]. rewrite E. cbn [bind first_of]. rewrite (set_glob_canonical _ _ _ _ E Hd). reflexivity.
Qed.

Lemma ipglob_new_invalid s : valid_glob s = false -> ipglob_new to_cidrs s = Raise AddrFormatError.
Proof. intros H. unfold ipglob_new, glob_to_iptuple. rewrite H. reflexivity. Qed.
End IPGlob.

(* conversions refuse everything outside the grammar *)
Lemma convert_invalid s : valid_glob s = false ->
  glob_to_iptuple s = Raise AddrFormatError /\ glob_to_iprange s = Raise AddrFormatError /\
  forall to_cidrs, glob_to_cidrs to_cidrs s = Raise AddrFormatError.
Proof.
  intros H. unfold glob_to_cidrs, glob_to_iptuple, glob_to_iprange. rewrite H. repeat split; reflexivity.
Qed.

Theorem convert_spec fs : glob_fields fs ->
  let s := show_glob fs in
  glob_to_iptuple s = Ok (glob_lo fs, glob_hi fs) /\
  glob_to_iprange s = Ok (glob_lo fs, glob_hi fs) /\
  (forall to_cidrs, glob_to_cidrs to_cidrs s = to_cidrs (glob_lo fs) (glob_hi fs)) /\
  0 <= glob_lo fs <= glob_hi fs /\ glob_hi fs < 2 ^ 32 /\
  forall v, 0 <= v < 2 ^ 32 -> (glob_match fs v <-> glob_lo fs <= v <= glob_hi fs).
Proof.
  intros Hg s. pose proof (glob_fields_ok fs Hg) as [HF Hok]. pose proof Hg as (HL & HW & _).
  pose proof (glob_lo_le_hi fs HL HW). pose proof (glob_bounds_range fs Hg).
  split; [now apply iptuple_show|]. split; [now apply iprange_show|].
  split; [intros tc; unfold glob_to_cidrs, s; rewrite iptuple_show by assumption; reflexivity|].
  split; [lia|]. split; [lia|]. intros v Hv. now apply glob_match_interval.
Qed.

(* the /32-per-address decomposition satisfies the iprange_to_cidrs specification assumed above (non-vacuity) *)
Fixpoint zs (lo : Z) (n : nat) : list Z := match n with O => [] | S k => lo :: zs (lo + 1) k end.
Definition singles (lo hi : Z) : outcome (list (Z * Z)) := Ok (map (fun a => (a, 32)) (zs lo (Z.to_nat (hi - lo + 1)))).

Lemma singles_tile n lo : 0 <= lo -> lo + Z.of_nat n <= 2 ^ 32 ->
  cidrs_tile (map (fun a => (a, 32)) (zs lo n)) lo (lo + Z.of_nat n - 1).
Proof.
  revert lo. induction n as [|n IH]; intros lo H0 H1.
  - split; [constructor|]. cbn. lia.
  - destruct (IH (lo + 1) ltac:(lia) ltac:(lia)) as [F C]. split.
    + cbn [zs map]. constructor; [|exact F]. unfold block_ok. cbn [fst snd].
      change (2 ^ (32 - 32)) with 1. rewrite Z.mod_1_r. lia.
    + cbn [zs map chain block_iv fst snd]. change (2 ^ (32 - 32)) with 1.
      split; [reflexivity|]. split; [lia|].
      replace (lo + 1 - 1 + 1) with (lo + 1) by lia.
      replace (lo + Z.of_nat (S n) - 1) with (lo + 1 + Z.of_nat n - 1) by lia. exact C.
Qed.

Lemma singles_spec lo hi : 0 <= lo <= hi /\ hi < 2 ^ 32 ->
  exists cs, singles lo hi = Ok cs /\ cidrs_tile cs lo hi.
Proof.
  intros H. eexists. split; [reflexivity|].
  replace hi with (lo + Z.of_nat (Z.to_nat (hi - lo + 1)) - 1) at 2 by lia.
  apply singles_tile; lia.
Qed.

(* ================================================================== the executable decomposition meets the hypothesis *)
Lemma chain_app l1 l2 a m b : chain l1 a m -> chain l2 (m + 1) b -> chain (l1 ++ l2) a b.
Proof.
  revert a. induction l1 as [|iv r IH]; intros a H1 H2; cbn [chain app] in *.
  - subst a. exact H2.
  - destruct H1 as (E & L & C). split; [exact E|]. split; [exact L|]. now apply IH.
Qed.

Lemma cover_spec n base lo hi : lo <= hi -> 0 <= base -> base + 2 ^ Z.of_nat n <= 2 ^ 32 -> (n <= 32)%nat ->
  base mod 2 ^ Z.of_nat n = 0 ->
  let a := Z.max lo base in
  let b := Z.min hi (base + 2 ^ Z.of_nat n - 1) in
  (a <= b -> cidrs_tile (cover n base lo hi) a b) /\ (b < a -> cover n base lo hi = []).
Proof.
  intros Hlh. revert base. induction n as [|k IH]; intros base H0 H1 Hn Hal a b.
  - cbn [cover]. change (2 ^ Z.of_nat 0) with 1 in *. subst a b.
    destruct ((hi <? base) || (base + 1 - 1 <? lo)) eqn:E1.
    + split; [lia|reflexivity].
    + destruct ((lo <=? base) && (base + 1 - 1 <=? hi)) eqn:E2; [|lia].
      split; [|lia]. intros _. split.
      * repeat constructor; cbn [fst snd]; change (32 - Z.of_nat 0) with 32; change (2 ^ (32 - 32)) with 1; lia.
      * cbn [map chain block_iv fst snd]. change (32 - Z.of_nat 0) with 32. change (2 ^ (32 - 32)) with 1. lia.
  - cbn [cover]. set (S := 2 ^ Z.of_nat (S k)) in *. set (T := 2 ^ Z.of_nat k).
    assert (HT : 0 < T) by (apply pow2_pos; lia).
    assert (HS : S = 2 * T).
    { unfold S, T. rewrite Nat2Z.inj_succ. replace (Z.succ (Z.of_nat k)) with (Z.of_nat k + 1) by lia.
      apply pow2_succ. lia. }
    destruct ((hi <? base) || (base + S - 1 <? lo)) eqn:E1.
    { subst a b. split; [lia|reflexivity]. }
    destruct ((lo <=? base) && (base + S - 1 <=? hi)) eqn:E2.
    { subst a b. split; [|lia]. intros _.
      assert (E32 : 32 - (32 - Z.of_nat (Datatypes.S k)) = Z.of_nat (Datatypes.S k)) by lia.
      split.
      - repeat constructor; cbn [fst snd]; rewrite ?E32; fold S; lia.
      - cbn [map chain block_iv fst snd]. rewrite E32. fold S. lia. }
    assert (Hal1 : base mod T = 0).
    { apply Z.mod_divide; [lia|]. apply Z.mod_divide in Hal; [|lia]. destruct Hal as [q Hq]. exists (2 * q). lia. }
    assert (Hal2 : (base + T) mod T = 0).
    { apply Z.mod_divide; [lia|]. apply Z.mod_divide in Hal1; [|lia]. destruct Hal1 as [q Hq]. exists (q + 1). lia. }
    destruct (IH base H0 ltac:(fold T; lia) ltac:(lia) Hal1) as [L1 L2].
    destruct (IH (base + T) ltac:(lia) ltac:(fold T; lia) ltac:(lia) Hal2) as [R1 R2].
    fold T in L1, L2, R1, R2. cbv zeta in L1, L2, R1, R2.
    subst a b. split; [|lia]. intros Hab.
    destruct (Z_lt_le_dec (Z.min hi (base + T - 1)) (Z.max lo base)) as [Le|Ln].
    + (* left half empty *)
      rewrite (L2 Le). cbn [app].
      replace (Z.max lo base) with (Z.max lo (base + T)) by lia.
      replace (Z.min hi (base + S - 1)) with (Z.min hi (base + T + T - 1)) by lia.
      apply R1. lia.
    + destruct (Z_lt_le_dec (Z.min hi (base + T + T - 1)) (Z.max lo (base + T))) as [Re|Rn].
      * rewrite (R2 Re), app_nil_r.
        replace (Z.min hi (base + S - 1)) with (Z.min hi (base + T - 1)) by lia.
        apply L1. lia.
      * destruct (L1 Ln) as [F1 C1]. destruct (R1 Rn) as [F2 C2]. split.
        -- apply Forall_app. split; assumption.
        -- rewrite map_app. apply (chain_app _ _ _ (base + T - 1)).
           ++ replace (base + T - 1) with (Z.min hi (base + T - 1)) by lia. exact C1.
           ++ replace (base + T - 1 + 1) with (Z.max lo (base + T)) by lia.
              replace (Z.min hi (base + S - 1)) with (Z.min hi (base + T + T - 1)) by lia. exact C2.
Qed.

Theorem to_cidrs_exec_spec lo hi : 0 <= lo <= hi /\ hi < 2 ^ 32 ->
  exists cs, to_cidrs_exec lo hi = Ok cs /\ cidrs_tile cs lo hi.
Proof.
  intros H. eexists. split; [reflexivity|].
  destruct (cover_spec 32 0 lo hi ltac:(lia) ltac:(lia) ltac:(cbn; lia) ltac:(lia) ltac:(reflexivity)) as [A _].
  change (2 ^ Z.of_nat 32) with (2 ^ 32) in A. cbv zeta in A.
  replace (Z.max lo 0) with lo in A by lia. replace (Z.min hi (0 + 2 ^ 32 - 1)) with hi in A by lia.
  apply A. lia.
Qed.

(* so, for the executable instance, the conclusion of to_globs_tile holds outright *)
Theorem to_globs_tile_exec lo hi : 0 <= lo <= hi /\ hi < 2 ^ 32 ->
  exists gl ivs, iprange_to_globs to_cidrs_exec (4, lo) (4, hi) = Ok gl /\
                 Forall2 (fun g iv => glob_denotes g (fst iv) (snd iv)) gl ivs /\
                 chain ivs lo hi /\
                 (List.length gl = 1%nat <-> glob_shaped lo hi).
Proof. apply to_globs_tile. exact to_cidrs_exec_spec. Qed.
