(* Proofs/C08_words.v — int_to_words / words_to_int as positional digits in base 2^word_size. *)
From NV Require Import Base.Tac Base.PyVal Base.Bits Base.PyStr Base.PyStrFacts Model.Eui.
Open Scope Z_scope.

(* the i-th (from the most significant end) ws-bit word of an nw-word value *)
Definition word_at (ws nw v i : Z) : Z := (v / 2 ^ (ws * (nw - 1 - i))) mod 2 ^ ws.

(* most-significant-first base-B digits, n of them *)
Fixpoint wl (B : Z) (n : nat) (v : Z) : list Z :=
  match n with O => [] | S k => wl B k (v / B) ++ [v mod B] end.

Lemma words_loop_acc n : forall v ws acc, words_loop n v ws acc = words_loop n v ws [] ++ acc.
Proof.
  induction n; intros; cbn [words_loop]; [reflexivity|].
  rewrite IHn. rewrite (IHn _ _ [_]). rewrite <- app_assoc. reflexivity.
Qed.

Lemma words_loop_wl n : forall v ws, 0 <= ws -> words_loop n v ws [] = wl (2 ^ ws) n v.
Proof.
  induction n; intros; cbn [words_loop wl]; [reflexivity|].
  rewrite words_loop_acc, IHn by lia. rewrite Z.shiftr_div_pow2 by lia. rewrite land_ones_mod by lia. reflexivity.
Qed.

Lemma wl_length B n : forall v, length (wl B n v) = n.
Proof. induction n; intros; cbn [wl]; [reflexivity|]. rewrite app_length, IHn. cbn. lia. Qed.

Lemma wl_range B n : 0 < B -> forall v, Forall (fun d => 0 <= d < B) (wl B n v).
Proof.
  intros HB. induction n; intros; cbn [wl]; [constructor|].
  apply Forall_app. split; [apply IHn|]. constructor; [|constructor]. apply Z.mod_pos_bound; lia.
Qed.

Lemma wl_value B n : 0 < B -> forall v, 0 <= v -> from_digits B (wl B n v) = v mod B ^ Z.of_nat n.
Proof.
  intros HB. induction n; intros v Hv.
  - cbn. rewrite Z.mod_1_r. reflexivity.
  - cbn [wl]. rewrite from_digits_snoc, IHn by (apply Z.div_pos; lia).
    rewrite Nat2Z.inj_succ, Z.pow_succ_r by lia.
    assert (0 < B ^ Z.of_nat n) by (apply Z.pow_pos_nonneg; lia).
    rewrite Z.rem_mul_r by lia. lia.
Qed.

Lemma wl_value_small B n v : 0 < B -> 0 <= v < B ^ Z.of_nat n -> from_digits B (wl B n v) = v.
Proof. intros. rewrite wl_value by lia. apply Z.mod_small; lia. Qed.

(* digits are unique: a list of n in-range digits is the digit list of its value *)
Lemma wl_from_digits B : 1 < B -> forall l, Forall (fun d => 0 <= d < B) l ->
  wl B (length l) (from_digits B l) = l.
Proof.
  intros HB l. induction l using rev_ind; intros HF; [reflexivity|].
  apply Forall_app in HF. destruct HF as [HF Hx]. inversion Hx; subst.
  rewrite app_length. cbn [length]. rewrite Nat.add_1_r. cbn [wl].
  rewrite from_digits_snoc.
  replace ((from_digits B l * B + x) / B) with (from_digits B l)
    by (apply Z.div_unique_pos with x; lia).
  replace ((from_digits B l * B + x) mod B) with x
    by (apply Z.mod_unique_pos with (from_digits B l); lia).
  rewrite IHl by assumption. reflexivity.
Qed.

Lemma wl_nth B n : 0 < B -> forall v i, (i < n)%nat ->
  nth_error (wl B n v) i = Some ((v / B ^ Z.of_nat (n - 1 - i)) mod B).
Proof.
  intros HB. induction n; intros v i Hi; [lia|].
  cbn [wl]. destruct (Nat.eq_dec i n) as [->|Hne].
  - rewrite nth_error_app2 by (rewrite wl_length; lia). rewrite wl_length, Nat.sub_diag. cbn [nth_error].
    replace (S n - 1 - n)%nat with O by lia. cbn. rewrite Z.div_1_r. reflexivity.
  - rewrite nth_error_app1 by (rewrite wl_length; lia). rewrite IHn by lia.
    rewrite Z.div_div by (try apply Z.pow_pos_nonneg; lia).
    replace (S n - 1 - i)%nat with (S (n - 1 - i)) by lia.
    rewrite Nat2Z.inj_succ, Z.pow_succ_r by lia. reflexivity.
Qed.

Lemma pow_pow2 ws n : 0 <= ws -> 0 <= n -> (2 ^ ws) ^ n = 2 ^ (ws * n).
Proof. intros. rewrite Z.pow_mul_r by lia. reflexivity. Qed.

(* ---- int_to_words ---- *)
Lemma int_to_words_spec v ws nw : 0 <= ws -> 0 <= nw -> 0 <= v < 2 ^ (nw * ws) ->
  int_to_words v ws nw = Ok (wl (2 ^ ws) (Z.to_nat nw) v).
Proof.
  intros Hws Hnw Hv. unfold int_to_words.
  destruct (ws <? 0) eqn:E1; [lia|]. destruct (nw <? 0) eqn:E2; [lia|]. cbn [orb].
  destruct ((0 <=? v) && (v <=? 2 ^ (nw * ws) - 1)) eqn:E3; [|lia]. cbn [negb].
  rewrite words_loop_wl by lia. reflexivity.
Qed.

Lemma int_to_words_out v ws nw : 0 <= ws -> 0 <= nw -> ~ (0 <= v < 2 ^ (nw * ws)) ->
  int_to_words v ws nw = Raise IndexError.
Proof.
  intros Hws Hnw Hv. unfold int_to_words.
  destruct (ws <? 0) eqn:E1; [lia|]. destruct (nw <? 0) eqn:E2; [lia|]. cbn [orb].
  destruct ((0 <=? v) && (v <=? 2 ^ (nw * ws) - 1)) eqn:E3; [lia|]. reflexivity.
Qed.

Lemma wl_nth_word ws nw v i : 0 <= ws -> 0 <= i < nw ->
  nth_error (wl (2 ^ ws) (Z.to_nat nw) v) (Z.to_nat i) = Some (word_at ws nw v i).
Proof.
  intros Hws Hi. rewrite wl_nth by (try apply pow2_pos; lia). unfold word_at.
  rewrite pow_pow2 by lia. repeat f_equal. lia.
Qed.

(* ---- words_to_int ---- *)
Lemma lor_shiftl_add acc num k : 0 <= k -> 0 <= acc < 2 ^ k -> Z.lor acc (Z.shiftl num k) = acc + num * 2 ^ k.
Proof.
  intros Hk Ha. rewrite Z.shiftl_mul_pow2 by lia. rewrite <- add_disjoint_lor; [reflexivity|].
  apply Z.bits_inj'. intros n Hn. rewrite Z.land_spec, Z.bits_0.
  destruct (Z.ltb_spec n k).
  - rewrite Z.mul_pow2_bits_low by lia. apply andb_false_r.
  - rewrite <- (Z.mod_small acc (2 ^ k)) by lia. rewrite Z.mod_pow2_bits_high by lia. reflexivity.
Qed.

Lemma w2i_loop_spec ws : 0 <= ws -> forall rw i acc, 0 <= i -> 0 <= acc < 2 ^ (ws * i) ->
  Forall (fun d => 0 <= d < 2 ^ ws) rw ->
  w2i_loop rw i ws acc = acc + 2 ^ (ws * i) * from_digits (2 ^ ws) (rev rw).
Proof.
  intros Hws. induction rw as [|num r IH]; intros i acc Hi Hacc HF; cbn [w2i_loop rev].
  - rewrite from_digits_nil. lia.
  - inversion HF; subst. rewrite lor_shiftl_add by (try apply Z.mul_nonneg_nonneg; lia).
    assert (P : 2 ^ (ws * (i + 1)) = 2 ^ (ws * i) * 2 ^ ws)
      by (rewrite <- Z.pow_add_r by (try apply Z.mul_nonneg_nonneg; lia); f_equal; lia).
    pose proof (pow2_pos (ws * i) ltac:(apply Z.mul_nonneg_nonneg; lia)) as Hp.
    rewrite IH; [| lia | | assumption].
    + rewrite from_digits_snoc, P. ring.
    + rewrite P. nia.
Qed.

Lemma words_to_int_spec ws nw words : 0 <= ws -> Z.of_nat (length words) = nw ->
  Forall (fun d => 0 <= d < 2 ^ ws) words ->
  words_to_int words ws nw = Ok (from_digits (2 ^ ws) words).
Proof.
  intros Hws Hlen HF. unfold words_to_int. destruct (ws <? 0) eqn:E; [lia|].
  assert (V : valid_words words ws nw = true).
  { unfold valid_words. apply andb_true_intro. split; [lia|]. apply forallb_forall. intros x Hx.
    rewrite Forall_forall in HF. specialize (HF x Hx). lia. }
  rewrite V. cbn [negb]. rewrite (w2i_loop_spec ws Hws (rev words) 0 0).
  - rewrite rev_involutive, Z.mul_0_r. f_equal. change (2 ^ 0) with 1. lia.
  - lia.
  - rewrite Z.mul_0_r. change (2 ^ 0) with 1. lia.
  - apply Forall_rev. assumption.
Qed.

(* ---- list_set ---- *)
Lemma list_set_length {A} (l : list A) : forall i x, length (list_set l i x) = length l.
Proof. induction l; intros [|i] x; cbn; try reflexivity; now rewrite IHl. Qed.

Lemma list_set_nth {A} (l : list A) : forall i j x, (i < length l)%nat ->
  nth_error (list_set l i x) j = if Nat.eqb j i then Some x else nth_error l j.
Proof.
  induction l; intros [|i] [|j] x Hi; cbn in *; try lia; try reflexivity.
  apply IHl. lia.
Qed.

Lemma list_set_Forall {A} (P : A -> Prop) (l : list A) : forall i x, Forall P l -> P x -> Forall P (list_set l i x).
Proof.
  induction l; intros [|i] x HF Hx; cbn; try assumption; inversion HF; subst; constructor; auto.
Qed.
