(* Proofs/GenOk_Src_C08_c.v — source tie for C08, third part (tag SRCF): text and dialect handling.  The definitions
   regenerated from int_to_str of netaddr/strategy/eui48.py, eui64.py (Gen/pysrc_eui48b_gen.v, pysrc_eui64b_gen.v) and from
   EUI._validate_dialect, _set_dialect, _get_dialect (property dialect), format, __str__, __getstate__ of netaddr/eui/__init__.py
   (Gen/pysrc_euib_gen.v) equal Model/Eui.v int_to_str, validate_dialect, eui_set_dialect, eui_format, eui_str.
   `[dialect.word_fmt % i for i in words]` is py_map_o (py_fmt_int fmt) = map_outcome (apply_fmt fmt); the argument of
   _validate_dialect is a darg (None | a class with word_size and word_fmt, seen as its record | any other object).
   Hypotheses: 0 <= word_size and 0 <= num_words of an explicitly given dialect (as in C08_source_tie: the translated
   netaddr.strategy.int_to_words guards 2 ** e); version = 48 \/ version = 64 where the method goes through self._module. *)
From Coq Require Import String Ascii.
From NV Require Import Base.Tac Base.Bits Base.PyVal Base.PyStr Base.PyStrFacts Model.Ip Model.Eui Model.SrcPrelude Model.SrcPreludeStr
  Model.SrcPreludeEui Model.SrcPreludeEui2
  Gen.pysrc_strategy_gen Gen.pysrc_eui48_gen Gen.pysrc_eui64_gen Gen.pysrc_eui_gen
  Gen.pysrc_eui48b_gen Gen.pysrc_eui64b_gen Gen.pysrc_euib_gen Proofs.GenOk_Src_C08 Proofs.GenOk_Src_C08_b.
Import ListNotations.
Open Scope Z_scope.

Lemma bind_ok_eta {A} (o : outcome A) : (do h <- o; Ok h) = o.
Proof. destruct o; reflexivity. Qed.

Lemma map_outcome_eta {A B} (f : A -> outcome B) l : Eui.map_outcome (fun i => do h <- f i; Ok h) l = Eui.map_outcome f l.
Proof. induction l as [|a r IH]; [reflexivity|]. cbn [Eui.map_outcome]. rewrite bind_ok_eta, IH. reflexivity. Qed.

Definition wf_dial (d : Eui.dialect) : Prop := 0 <= word_size d /\ 0 <= num_words d.

Lemma default_dialect_wf ver : wf_dial (default_dialect ver).
Proof. unfold default_dialect, wf_dial. destruct (ver =? 64); cbn; lia. Qed.

Lemma src_dialect_consts_ok :
  src_eui48_mac_eui48_rec = mac_eui48 /\ src_eui64_eui64_base_rec = eui64_base.
Proof. split; reflexivity. Qed.

Lemma src_eui48_int_to_str_some v d : wf_dial d -> src_eui48_int_to_str v (Some d) = Eui.int_to_str v d.
Proof.
  intros (Hws & Hnw). unfold src_eui48_int_to_str, Eui.int_to_str, d_pair, d_word_size, d_num_words, d_word_fmt, d_word_sep, py_map_o, py_fmt_int.
  cbv zeta. destruct (src_eui48_words_ok _ (num_words d) Hws) as (_ & B & _). rewrite (B v Hnw).
  destruct (Eui.int_to_words v (word_size d) (num_words d)) as [ws|x]; [|reflexivity]. cbn [bind]. rewrite map_outcome_eta.
  destruct (Eui.map_outcome _ ws); reflexivity.
Qed.

Lemma src_eui64_int_to_str_some v d : wf_dial d -> src_eui64_int_to_str v (Some d) = Eui.int_to_str v d.
Proof.
  intros (Hws & Hnw). unfold src_eui64_int_to_str, Eui.int_to_str, d_pair, d_word_size, d_num_words, d_word_fmt, d_word_sep, py_map_o, py_fmt_int.
  cbv zeta. destruct (src_eui64_words_ok _ (num_words d) Hws) as (_ & B & _). rewrite (B v Hnw).
  destruct (Eui.int_to_words v (word_size d) (num_words d)) as [ws|x]; [|reflexivity]. cbn [bind]. rewrite map_outcome_eta.
  destruct (Eui.map_outcome _ ws); reflexivity.
Qed.

Lemma src_int_to_str_none v :
  src_eui48_int_to_str v None = Eui.int_to_str v (default_dialect 48) /\ src_eui64_int_to_str v None = Eui.int_to_str v (default_dialect 64).
Proof.
  split.
  - rewrite <- (src_eui48_int_to_str_some v (default_dialect 48) (default_dialect_wf 48)). reflexivity.
  - rewrite <- (src_eui64_int_to_str_some v (default_dialect 64) (default_dialect_wf 64)). reflexivity.
Qed.

Section EuiText.
  Variables (ver v : Z) (d : Eui.dialect).
  Let e := {| ever := ver; evalue := v; edialect := d |}.

  Lemma src_eui_validate_dialect_ok a : src_EUI_validate_dialect ver v a = validate_dialect ver a.
  Proof. unfold src_EUI_validate_dialect, validate_dialect, default_dialect. destruct a; [|reflexivity|reflexivity].
         change src_eui64_version with 64. destruct (ver =? 64); reflexivity. Qed.

  Lemma src_eui_set_dialect_ok a :
    omap (fun dd => {| ever := ver; evalue := v; edialect := dd |}) (src_EUI_set_dialect ver v a) = eui_set_dialect e a.
  Proof.
    unfold src_EUI_set_dialect, eui_set_dialect. rewrite src_eui_validate_dialect_ok. cbn [e ever evalue].
    destruct (validate_dialect ver a); reflexivity.
  Qed.

  Lemma src_eui_get_dialect_ok : src_EUI_dialect ver v d = edialect e /\ src_EUI_getstate ver v d = (evalue e, ever e, edialect e).
  Proof. split; reflexivity. Qed.

  Lemma src_eui_str_ok : wf_ver ver -> wf_dial d -> src_EUI_str ver v d = eui_str e.
  Proof.
    intros Hver Hd. unfold src_EUI_str, eui_str. cbn [e evalue edialect].
    rewrite (src_eui48_int_to_str_some v d Hd), (src_eui64_int_to_str_some v d Hd). destruct Hver as [->| ->]; reflexivity.
  Qed.

  Lemma src_eui_format_ok a : wf_ver ver -> (forall r, a = DRec r -> wf_dial r) -> src_EUI_format ver v a = eui_format e a.
  Proof.
    intros Hver Ha. unfold src_EUI_format, eui_format. rewrite src_eui_validate_dialect_ok. cbn [e ever evalue].
    destruct a as [|r|]; cbn [validate_dialect bind]; [| |reflexivity].
    - pose proof (default_dialect_wf ver) as Hd.
      rewrite (src_eui48_int_to_str_some v _ Hd), (src_eui64_int_to_str_some v _ Hd). destruct Hver as [->| ->]; reflexivity.
    - pose proof (Ha r eq_refl) as Hd.
      rewrite (src_eui48_int_to_str_some v _ Hd), (src_eui64_int_to_str_some v _ Hd). destruct Hver as [->| ->]; reflexivity.
  Qed.
End EuiText.

Lemma C08_tie_c_ok :
  (src_eui48_mac_eui48_rec = mac_eui48 /\ src_eui64_eui64_base_rec = eui64_base) /\
  (forall v d, wf_dial d -> src_eui48_int_to_str v (Some d) = Eui.int_to_str v d /\ src_eui64_int_to_str v (Some d) = Eui.int_to_str v d) /\
  (forall v, src_eui48_int_to_str v None = Eui.int_to_str v (default_dialect 48) /\
             src_eui64_int_to_str v None = Eui.int_to_str v (default_dialect 64)) /\
  (forall ver v d a, let e := {| ever := ver; evalue := v; edialect := d |} in
     src_EUI_validate_dialect ver v a = validate_dialect ver a /\
     omap (fun dd => {| ever := ver; evalue := v; edialect := dd |}) (src_EUI_set_dialect ver v a) = eui_set_dialect e a /\
     src_EUI_dialect ver v d = edialect e /\ src_EUI_getstate ver v d = (evalue e, ever e, edialect e) /\
     (wf_ver ver -> wf_dial d -> src_EUI_str ver v d = eui_str e) /\
     (wf_ver ver -> (forall r, a = DRec r -> wf_dial r) -> src_EUI_format ver v a = eui_format e a)).
Proof.
  split; [exact src_dialect_consts_ok|]. split.
  { intros v d H. split; [apply src_eui48_int_to_str_some, H|apply src_eui64_int_to_str_some, H]. }
  split; [exact src_int_to_str_none|].
  intros ver v d a e. subst e. split; [apply src_eui_validate_dialect_ok|]. split; [apply src_eui_set_dialect_ok|].
  split; [reflexivity|]. split; [reflexivity|]. split; [apply src_eui_str_ok|apply src_eui_format_ok].
Qed.
