(* Proofs/C20_geom.v — geometry of aligned blocks used by C20 (Base/Canon.v vocabulary).
   A block is a "right child" when it is the upper half of its parent.  Facts:
   right_children  — a sibling-free disjoint aligned tiling of an interval [a, e) whose right end e is the end of an
                     enclosing aligned block consists of right children only;
   distinct_sizes  — a disjoint tiling of an interval by right children has pairwise distinct prefix lengths;
   coarse_enough   — a sibling-free disjoint tiling of an interval whose two ends are multiples of 2^(w-q) has no
                     block finer than /q. *)
From NV Require Import Base.Tac Base.PyVal Base.Bits Base.Canon Model.Ip Model.Partition Proofs.C09.
Open Scope Z_scope.

Section Geom.
Variable w : Z.
Hypothesis Hw : 0 <= w.

Lemma bp_le_of_size a b : 0 <= bp a <= w -> 0 <= bp b <= w -> bsize w a <= bsize w b -> bp b <= bp a.
Proof.
  intros Ha Hb H. destruct (Z_le_gt_dec (bp b) (bp a)) as [|G]; [assumption|exfalso].
  unfold bsize in H. pose proof (pow2_lt (w - bp b) (w - bp a) ltac:(lia)). lia.
Qed.

Lemma sub_size a b : aligned w a -> sub w a b -> bsize w a <= bsize w b.
Proof.
  intros A S. pose proof (aligned_pos w a A) as P.
  assert (I1: inb w b (bv a)) by (apply S; unfold inb; lia).
  assert (I2: inb w b (bv a + bsize w a - 1)) by (apply S; unfold inb; lia).
  unfold inb in *. lia.
Qed.

(* two aligned blocks sharing an address are nested *)
Lemma nested a b x : aligned w a -> aligned w b -> bp b <= bp a -> inb w a x -> inb w b x -> sub w a b.
Proof.
  intros (Hpa & Hva & Hda) (Hpb & Hvb & Hdb) Hle Ia Ib y Iy.
  assert (Pa: 0 < bsize w a) by (apply bsize_pos; lia). assert (Pb: 0 < bsize w b) by (apply bsize_pos; lia).
  assert (D: (bsize w a | bsize w b)) by (unfold bsize; apply size_divides; lia).
  unfold inb in *.
  destruct (nested_of_overlap (bsize w a) (bsize w b) (bv b) (bv a) Pa D Pb Hdb Hda ltac:(lia) ltac:(lia)). lia.
Qed.

(* the upper half of its parent *)
Definition rchild (b : blk) : Prop := ~ (2 * bsize w b | bv b).

Lemma rchild_no_sib l : (forall b, In b l -> rchild b) -> no_sib w l.
Proof. intros H b1 b2 H1 _ (_ & _ & D). exact (H b1 H1 D). Qed.

Lemma same_size_same_start c s v : 0 < s -> (s | bv c) -> (s | v) -> bv c <= v < bv c + s -> bv c = v.
Proof. intros Hs [m Hm] [n Hn] H. rewrite Hm, Hn in *. assert (m = n) by nia. subst. reflexivity. Qed.

Lemma right_children l C a :
  (forall b, In b l -> aligned w b) -> no_sib w l -> disj w l -> aligned w C -> bv C < a ->
  (forall x, covered w l x <-> a <= x < bv C + bsize w C) ->
  forall b, In b l -> rchild b.
Proof.
  intros Hal Hns Hdj AC Ha Hcov b Hb Hdiv.
  pose proof (Hal b Hb) as Ab. pose proof Ab as (Hp & Hv & Hd). pose proof AC as (HpC & HvC & HdC).
  pose proof (aligned_pos w b Ab) as Ps. pose proof (aligned_pos w C AC) as PC.
  set (s := bsize w b) in *.
  assert (I1: a <= bv b) by (apply Hcov; exists b; split; [exact Hb|unfold inb; fold s; lia]).
  assert (I2: bv b + s - 1 < bv C + bsize w C) by (apply Hcov; exists b; split; [exact Hb|unfold inb; fold s; lia]).
  assert (Hlt: bp C < bp b).
  { destruct (Z_lt_le_dec (bp C) (bp b)) as [|G]; [assumption|exfalso].
    assert (bsize w C <= s) by (unfold s, bsize; apply pow2_le; lia). lia. }
  (* the parent of b lies inside C *)
  set (P := {| bv := bv b; bp := bp b - 1 |}).
  assert (SP: bsize w P = 2 * s).
  { unfold s, bsize, P; cbn [bp]. replace (w - (bp b - 1)) with (w - bp b + 1) by lia. apply pow2_succ. lia. }
  assert (VP: bv P = bv b) by reflexivity. assert (PP: bp P = bp b - 1) by reflexivity. clearbody P.
  assert (AP: aligned w P). { unfold aligned. rewrite SP, VP, PP. split; [lia|split; [lia|exact Hdiv]]. }
  assert (SubP: sub w P C).
  { apply (nested P C (bv b)); auto; [lia|unfold inb; rewrite SP, VP; lia|unfold inb; lia]. }
  assert (I3: inb w C (bv b + 2 * s - 1)) by (apply SubP; unfold inb; rewrite SP, VP; lia).
  unfold inb in I3.
  (* its sibling is covered, hence inside one block c of l *)
  set (X := {| bv := bv b + s; bp := bp b |}).
  assert (SX: bsize w X = s) by reflexivity.
  assert (VX: bv X = bv b + s) by reflexivity. assert (PX: bp X = bp b) by reflexivity. clearbody X.
  assert (AX: aligned w X).
  { unfold aligned. rewrite SX, VX, PX. split; [lia|split; [lia|]]. apply Z.divide_add_r; [exact Hd|apply Z.divide_refl]. }
  destruct (L_cover w Hw l Hal Hns (Z.to_nat (w - bp X)) X AX) as (c & Hc & Sub). { rewrite PX. lia. }
  { intros x Ix. apply Hcov. unfold inb in Ix. rewrite SX, VX in Ix. lia. }
  pose proof (Hal c Hc) as Ac. pose proof Ac as (Hpc & Hvc & Hdc).
  pose proof (sub_size X c AX Sub) as Sz. rewrite SX in Sz.
  assert (Ic: inb w c (bv b + s)) by (apply Sub; unfold inb; rewrite SX, VX; lia).
  assert (Hle: bp c <= bp b) by (rewrite <- PX; apply bp_le_of_size; try rewrite PX; auto; rewrite SX; auto).
  destruct (Z.eq_dec (bp c) (bp b)) as [E|N].
  - assert (Sc: bsize w c = s) by (unfold s, bsize; now rewrite E).
    assert (bv c = bv b + s).
    { unfold inb in Ic. rewrite Sc in *. apply (same_size_same_start c s (bv b + s)); auto.
      apply Z.divide_add_r; [exact Hd|apply Z.divide_refl]. }
    apply (Hns b c Hb Hc). unfold sib. fold s. split; [lia|split; [lia|exact Hdiv]].
  - assert (D2: (2 * s | bsize w c)).
    { rewrite <- SP. unfold bsize. rewrite PP. apply size_divides; lia. }
    assert (bv c <= bv b).
    { unfold inb in Ic. apply (mult_lower (2 * s) (bv c) (bv b) s); try lia; auto.
      eapply Z.divide_trans; [exact D2|exact Hdc]. }
    assert (c = b).
    { apply (Hdj c b (bv b) Hc Hb); unfold inb in *; fold s; lia. }
    subst c. lia.
Qed.

Lemma odd_multiple s v : 0 < s -> (s | v) -> ~ (2 * s | v) -> exists i, v = s * (2 * i + 1).
Proof.
  intros Hs [k Hk] N. destruct (Z.Even_or_Odd k) as [[i Hi]|[i Hi]].
  - exfalso. apply N. exists i. subst. ring.
  - exists i. subst. ring.
Qed.

Lemma distinct_sizes l a e :
  (forall b, In b l -> aligned w b) -> (forall b, In b l -> rchild b) -> disj w l ->
  (forall x, covered w l x <-> a <= x < e) ->
  forall b b', In b l -> In b' l -> bp b = bp b' -> b = b'.
Proof.
  intros Hal Hrc Hdj Hcov.
  assert (Asym: forall b b', In b l -> In b' l -> bp b = bp b' -> bv b < bv b' -> False).
  { intros b b' Hb Hb' E Lt.
    pose proof (Hal b Hb) as Ab. pose proof Ab as (Hp & Hv & Hd).
    pose proof (Hal b' Hb') as Ab'. pose proof Ab' as (Hp' & Hv' & Hd').
    pose proof (aligned_pos w b Ab) as Ps.
    assert (S': bsize w b' = bsize w b) by (unfold bsize; now rewrite E).
    pose proof (Hrc b Hb) as R. pose proof (Hrc b' Hb') as R'. unfold rchild in R, R'. rewrite S' in *.
    set (s := bsize w b) in *.
    destruct (odd_multiple s (bv b) Ps Hd R) as (i & Hi). destruct (odd_multiple s (bv b') Ps Hd' R') as (j & Hj).
    assert (Hij: i < j) by (rewrite Hi, Hj in Lt; nia).
    assert (Far: bv b + 2 * s <= bv b') by (rewrite Hi, Hj; nia).
    assert (I1: a <= bv b) by (apply Hcov; exists b; split; [exact Hb|unfold inb; fold s; lia]).
    assert (I2: bv b' < e) by (apply Hcov; exists b'; split; [exact Hb'|unfold inb; rewrite S'; lia]).
    set (X := {| bv := bv b' - s; bp := bp b' |}).
    assert (SX: bsize w X = s) by exact S'.
    assert (VX: bv X = bv b' - s) by reflexivity. assert (PX: bp X = bp b') by reflexivity. clearbody X.
    assert (DX: (2 * s | bv b' - s)) by (exists j; rewrite Hj; ring).
    assert (AX: aligned w X).
    { unfold aligned. rewrite SX, VX, PX. split; [lia|split; [lia|]].
      apply Z.divide_sub_r; [exact Hd'|apply Z.divide_refl]. }
    destruct (L_cover w Hw l Hal (rchild_no_sib l Hrc) (Z.to_nat (w - bp X)) X AX) as (c & Hc & Sub). { rewrite PX. lia. }
    { intros x Ix. apply Hcov. unfold inb in Ix. rewrite SX, VX in Ix. lia. }
    pose proof (Hal c Hc) as Ac. pose proof Ac as (Hpc & Hvc & Hdc).
    pose proof (sub_size X c AX Sub) as Sz. rewrite SX in Sz.
    assert (Ic: inb w c (bv b' - s)) by (apply Sub; unfold inb; rewrite SX, VX; lia).
    assert (Hle: bp c <= bp b') by (rewrite <- PX; apply bp_le_of_size; try rewrite PX; auto; rewrite SX; auto).
    destruct (Z.eq_dec (bp c) (bp b')) as [E'|N].
    - assert (Sc: bsize w c = s) by (unfold bsize; rewrite E'; exact S').
      assert (bv c = bv b' - s).
      { unfold inb in Ic. rewrite Sc in *. apply (same_size_same_start c s (bv b' - s)); auto.
        apply Z.divide_sub_r; [exact Hd'|apply Z.divide_refl]. }
      apply (Hrc c Hc). rewrite Sc, H. exact DX.
    - assert (D2: (2 * s | bsize w c)).
      { assert (SP: 2 * s = 2 ^ (w - (bp b' - 1))).
        { unfold s, bsize. rewrite E. replace (w - (bp b' - 1)) with (w - bp b' + 1) by lia. symmetry. apply pow2_succ. lia. }
        rewrite SP. unfold bsize. apply size_divides; lia. }
      unfold inb in Ic.
      pose proof (aligned_contains_chunk (bv c) (bsize w c) (bv b' - s) (2 * s) ltac:(lia) D2 Hdc DX Ic).
      assert (c = b'). { apply (Hdj c b' (bv b') Hc Hb'); unfold inb; rewrite ?S'; lia. }
      subst c. lia. }
  intros b b' Hb Hb' E.
  destruct (Z.lt_trichotomy (bv b) (bv b')) as [L|[Q|L]].
  - exfalso. exact (Asym b b' Hb Hb' E L).
  - destruct b, b'; cbn in *; subst; reflexivity.
  - exfalso. exact (Asym b' b Hb' Hb (eq_sym E) L).
Qed.

Lemma coarse_enough l a e q :
  0 <= q <= w -> (forall b, In b l -> aligned w b) -> no_sib w l -> disj w l ->
  0 <= a -> (2 ^ (w - q) | a) -> (2 ^ (w - q) | e) ->
  (forall x, covered w l x <-> a <= x < e) ->
  forall b, In b l -> bp b <= q.
Proof.
  intros Hq Hal Hns Hdj Ha Da De Hcov b Hb.
  destruct (Z_le_gt_dec (bp b) q) as [|G]; [assumption|exfalso].
  pose proof (Hal b Hb) as Ab. pose proof Ab as (Hp & Hv & Hd). pose proof (aligned_pos w b Ab) as Ps.
  set (t := 2 ^ (w - q)) in *. assert (Pt: 0 < t) by (apply pow2_pos; lia).
  assert (Lt: bsize w b < t) by (unfold bsize, t; apply pow2_lt; lia).
  assert (I1: a <= bv b) by (apply Hcov; exists b; split; [exact Hb|unfold inb; lia]).
  assert (I2: bv b < e) by (apply Hcov; exists b; split; [exact Hb|unfold inb; lia]).
  set (X := {| bv := floor2 (bv b) (w - q); bp := q |}).
  assert (SX: bsize w X = t) by reflexivity.
  assert (VX: bv X = floor2 (bv b) (w - q)) by reflexivity. assert (PX: bp X = q) by reflexivity. clearbody X.
  pose proof (floor2_bounds (bv b) (w - q) ltac:(lia)) as FB. fold t in FB.
  pose proof (floor2_divide (bv b) (w - q) ltac:(lia)) as FD. fold t in FD.
  pose proof (floor2_nonneg (bv b) (w - q) ltac:(lia) Hv) as FN.
  set (f := floor2 (bv b) (w - q)) in *.
  assert (AX: aligned w X). { unfold aligned. rewrite SX, VX, PX. split; [lia|split; [lia|exact FD]]. }
  assert (L1: a <= f). { apply (mult_lower t a f (bv b - f)); auto; lia. }
  assert (L2: f + t <= e).
  { clear - FD De FB I2 Pt. clearbody f t. destruct FD as [m Hm]. destruct De as [n Hn]. subst f e. assert (m < n) by nia. nia. }
  destruct (L_cover w Hw l Hal Hns (Z.to_nat (w - bp X)) X AX) as (c & Hc & Sub). { rewrite PX. lia. }
  { intros x Ix. apply Hcov. unfold inb in Ix. rewrite SX, VX in Ix. lia. }
  assert (c = b).
  { apply (Hdj c b (bv b) Hc Hb); [|unfold inb; lia]. apply Sub. unfold inb. rewrite SX, VX. lia. }
  subst c. pose proof (sub_size X b AX Sub) as Sz. rewrite SX in Sz. lia.
Qed.

(* a list of aligned blocks that covers nothing is empty *)
Lemma empty_cover l : (forall b, In b l -> aligned w b) -> (forall x, ~ covered w l x) -> l = [].
Proof.
  intros Hal H. destruct l as [|b l]; [reflexivity|exfalso].
  apply (H (bv b)). exists b. split; [now left|apply inb_self, Hal; now left].
Qed.

End Geom.
