(* Proofs/C19_iana.v — table-independent part of `iana_lookup_exact`:
   specification of a lookup over an independent reading, `_within_bounds` = interval membership,
   and the reduction of "for all addresses" to the finite set of cut points (Proofs/C19_lift.v). *)
From Coq Require Import Sorting.Permutation.
From NV Require Import Base.Tac Base.PyVal Base.Bits Model.Ip Model.Iana Proofs.C02 Proofs.C19_lift.
Open Scope Z_scope.

(* ---------------------------------------------------------------- specification side *)
(* a row of the independent reading: (registry, record id, version, first, last) *)
Definition srow := (Z * Z * Z * Z * Z)%type.
Definition s_reg (s : srow) : Z := let '(a, _, _, _, _) := s in a.
Definition s_id (s : srow) : Z := let '(_, a, _, _, _) := s in a.
Definition s_ver (s : srow) : Z := let '(_, _, a, _, _) := s in a.
Definition s_first (s : srow) : Z := let '(_, _, _, a, _) := s in a.
Definition s_last (s : srow) : Z := let '(_, _, _, _, a) := s in a.
Definition s_iv (s : srow) : iv := (s_first s, s_last s).

(* the records of registry `reg` whose published block contains address (ver, v) -- no multicast gate *)
Definition spec_hit (ver v reg : Z) (s : srow) : bool :=
  ((s_reg s =? reg) && (s_ver s =? ver)) && ((s_first s <=? v) && (v <=? s_last s)).
Definition spec_ids (spec : list srow) (ver v reg : Z) : list Z := map s_id (filter (spec_hit ver v reg) spec).

(* ---------------------------------------------------------------- small list tools *)
Fixpoint insertZ (x : Z) (l : list Z) : list Z :=
  match l with [] => [x] | y :: t => if x <=? y then x :: l else y :: insertZ x t end.
Fixpoint sortZ (l : list Z) : list Z := match l with [] => [] | x :: t => insertZ x (sortZ t) end.

Lemma insertZ_perm x l : Permutation (x :: l) (insertZ x l).
Proof.
  induction l as [|y t IH]; cbn; [reflexivity|]. destruct (x <=? y); [reflexivity|].
  etransitivity; [apply perm_swap|]. now constructor.
Qed.
Lemma sortZ_perm l : Permutation l (sortZ l).
Proof.
  induction l as [|x t IH]; cbn; [constructor|]. etransitivity; [|apply insertZ_perm]. now constructor.
Qed.
Lemma sortZ_eq_perm a b : sortZ a = sortZ b -> Permutation a b.
Proof.
  intro H. etransitivity; [apply sortZ_perm|]. rewrite H. symmetry. apply sortZ_perm.
Qed.

Fixpoint leqb (a b : list Z) : bool :=
  match a, b with [], [] => true | x :: a', y :: b' => (x =? y) && leqb a' b' | _, _ => false end.
Fixpoint lleqb (a b : list (list Z)) : bool :=
  match a, b with [], [] => true | x :: a', y :: b' => leqb x y && lleqb a' b' | _, _ => false end.
Lemma leqb_eq a b : leqb a b = true -> a = b.
Proof.
  revert b. induction a as [|x a IH]; destruct b as [|y b]; cbn; try discriminate; [reflexivity|].
  intro H. apply andb_prop in H. destruct H as [H1 H2]. apply Z.eqb_eq in H1. subst. f_equal. now apply IH.
Qed.
Lemma lleqb_eq a b : lleqb a b = true -> a = b.
Proof.
  revert b. induction a as [|x a IH]; destruct b as [|y b]; cbn; try discriminate; [reflexivity|].
  intro H. apply andb_prop in H. destruct H as [H1 H2]. apply leqb_eq in H1. subst. f_equal. now apply IH.
Qed.

Lemma map_eq_in {A B} (f g : A -> B) l x : map f l = map g l -> In x l -> f x = g x.
Proof.
  induction l as [|a t IH]; cbn; [tauto|]. intros H Hin. inversion H as [[H1 H2]].
  destruct Hin as [->|Hin]; [exact H1|now apply IH].
Qed.

Fixpoint nodupb (l : list Z) : bool :=
  match l with [] => true | x :: t => negb (existsb (Z.eqb x) t) && nodupb t end.
Lemma nodupb_NoDup l : nodupb l = true -> NoDup l.
Proof.
  induction l as [|x t IH]; cbn; [constructor|]. intro H. apply andb_prop in H. destruct H as [H1 H2].
  constructor; [|now apply IH]. intro Hin. apply negb_true_iff in H1.
  assert (existsb (Z.eqb x) t = true) by (apply existsb_exists; exists x; split; [assumption|apply Z.eqb_refl]).
  congruence.
Qed.

(* ---------------------------------------------------------------- _within_bounds is interval membership *)
Definition row_wfb (r : irow) : bool :=
  valid_ver (r_ver r) &&
  match r_kind r with
  | KN => (0 <=? r_y r) && (r_y r <=? width (r_ver r)) && (0 <=? r_x r) && (r_x r <? 2 ^ width (r_ver r))
  | KG => r_x r <=? r_y r
  | KA => true
  end.

Definition row_iv (r : irow) : iv :=
  match r_kind r with
  | KN => let s := width (r_ver r) - r_y r in
          let f := Z.shiftl (Z.shiftr (r_x r) s) s in (f, f + Z.shiftl 1 s - 1)   (* shifts: cheap under vm_compute *)
  | KG => (r_x r, r_y r)
  | KA => (r_x r, r_x r)
  end.
Lemma row_iv_KN r : r_kind r = KN -> 0 <= width (r_ver r) - r_y r ->
  row_iv r = let s := width (r_ver r) - r_y r in (floor2 (r_x r) s, floor2 (r_x r) s + 2 ^ s - 1).
Proof. intros E Hs. unfold row_iv. rewrite E. cbv zeta. now rewrite shiftr_shiftl_floor, shiftl1 by assumption. Qed.

Lemma shiftr_eqb_block v x s : 0 <= s ->
  (Z.shiftr v s =? Z.shiftr x s) = (floor2 x s <=? v) && (v <=? floor2 x s + 2 ^ s - 1).
Proof.
  intro Hs. pose proof (pow2_pos s Hs) as Hp.
  pose proof (floor2_bounds v s Hs) as Hv.
  destruct (Z.eqb_spec (Z.shiftr v s) (Z.shiftr x s)) as [E|E].
  - apply shiftr_eq_iff in E; [|assumption]. rewrite <- E. symmetry. apply andb_true_iff. split; lia.
  - symmetry. apply not_true_is_false. intro H. apply andb_true_iff in H. destruct H as [H1 H2].
    apply E. apply shiftr_eq_iff; [assumption|]. symmetry.
    apply floor2_unique; [assumption|now apply floor2_divide|lia].
Qed.

Lemma within_bounds_iv ver v r : row_wfb r = true ->
  within_bounds ver v r = (r_ver r =? ver) && memb (row_iv r) v.
Proof.
  unfold row_wfb, within_bounds. intro H. apply andb_prop in H. destruct H as [_ H].
  destruct (r_kind r) eqn:EK; [rewrite (row_iv_KN r EK) by lia; cbv zeta|unfold row_iv; rewrite EK..]; unfold memb; cbn [fst snd].
  - unfold net_contains_addr. destruct (r_ver r =? ver); cbn [negb andb]; [|reflexivity].
    apply shiftr_eqb_block. lia.
  - unfold range_contains_addr. destruct (r_ver r =? ver); cbn [negb andb]; [|reflexivity].
    now rewrite Z.geb_leb.
  - unfold addr_eq. rewrite (Z.eqb_sym ver).
    destruct (r_ver r =? ver); cbn [andb]; [|reflexivity].
    destruct (Z.eqb_spec v (r_x r)); destruct (Z.leb_spec (r_x r) v); destruct (Z.leb_spec v (r_x r)); cbn; try reflexivity; lia.
Qed.

(* what the key object reports as first/last is that interval *)
Lemma row_iv_first_last r : row_wfb r = true -> row_iv r = (row_first r, row_last r).
Proof.
  unfold row_wfb, row_first, row_last. intro H. apply andb_prop in H. destruct H as [_ H].
  destruct (r_kind r) eqn:EK; [rewrite (row_iv_KN r EK) by lia; cbv zeta|unfold row_iv; rewrite EK; reflexivity..].
  assert (Hy : 0 <= r_y r <= width (r_ver r)) by lia.
  assert (Hx : 0 <= r_x r < 2 ^ width (r_ver r)) by lia.
  destruct (identities_w (width (r_ver r)) (r_x r) (r_y r) Hy Hx) as (_ & _ & _ & _ & Hf & Hl & _).
  cbv zeta in Hf, Hl. rewrite Hf, Hl. unfold floor2. f_equal. lia.
Qed.

(* the multicast gate is a containment test on the constant IPV4_MULTICAST *)
Definition mcast_row : irow := IRow REG_MCAST (-1) KN 4 IPV4_MULTICAST_value 4.
Lemma is_multicast4_eq ver v : is_multicast4 ver v = (4 =? ver) && memb (row_iv mcast_row) v.
Proof. exact (within_bounds_iv ver v mcast_row eq_refl). Qed.

(* ---------------------------------------------------------------- query seen through a membership vector *)
Definition REGS : list Z := [REG_IPV4; REG_MCAST; REG_IPV6; REG_IPV6U].
Definition wb_abs (ver : Z) (m : iv -> bool) (r : irow) : bool := (r_ver r =? ver) && m (row_iv r).
Definition query_abs (dict : Z -> list irow) (ver : Z) (m : iv -> bool) : list (Z * list irow) :=
  query_gen (wb_abs ver m) ((4 =? ver) && m (row_iv mcast_row)) dict ver.

Lemma scan_ext wb1 wb2 d name info : (forall r, In r d -> wb1 r = wb2 r) -> scan wb1 d name info = scan wb2 d name info.
Proof. intro H. unfold scan. now rewrite (filter_ext_in _ _ _ H). Qed.

Lemma query_gen_ext wb1 wb2 mc1 mc2 dict ver :
  (forall reg r, In r (dict reg) -> wb1 r = wb2 r) -> mc1 = mc2 -> query_gen wb1 mc1 dict ver = query_gen wb2 mc2 dict ver.
Proof.
  intros Hs ->. unfold query_gen.
  rewrite (scan_ext wb1 wb2 (dict REG_IPV4)) by apply Hs.
  rewrite (scan_ext wb1 wb2 (dict REG_IPV6)) by apply Hs.
  destruct (ver =? 4).
  - destruct mc2; [|reflexivity]. apply scan_ext, Hs.
  - destruct (ver =? 6); [|reflexivity]. apply scan_ext, Hs.
Qed.

Lemma query_gen_dict wb mc d1 d2 ver :
  (forall reg, In reg REGS -> d1 reg = d2 reg) -> query_gen wb mc d1 ver = query_gen wb mc d2 ver.
Proof.
  intro H. unfold query_gen. rewrite !H by (cbn; tauto). reflexivity.
Qed.

Lemma in_sub_dict tab reg r : In r (sub_dict tab reg) -> In r tab.
Proof. unfold sub_dict. intro H. now apply filter_In in H. Qed.

Lemma query_eq_abs tab ver v : forallb row_wfb tab = true ->
  query tab ver v = query_abs (sub_dict tab) ver (fun i => memb i v).
Proof.
  intro Hwf. rewrite forallb_forall in Hwf. unfold query, query_abs. apply query_gen_ext.
  - intros reg r Hr. unfold wb_abs. apply within_bounds_iv, Hwf. now apply in_sub_dict in Hr.
  - apply is_multicast4_eq.
Qed.

Definition spec_hit_abs (ver reg : Z) (m : iv -> bool) (s : srow) : bool :=
  ((s_reg s =? reg) && (s_ver s =? ver)) && m (s_iv s).
Definition spec_ids_abs (spec : list srow) (ver reg : Z) (m : iv -> bool) : list Z :=
  map s_id (filter (spec_hit_abs ver reg m) spec).
Lemma spec_ids_eq_abs spec ver v reg : spec_ids spec ver v reg = spec_ids_abs spec ver reg (fun i => memb i v).
Proof. reflexivity. Qed.

Definition F (impl : list irow) (ver : Z) (m : iv -> bool) : list (list Z) :=
  let info := query_abs (sub_dict impl) ver m in map (fun reg => sortZ (map r_id (lookup_reg reg info))) REGS.
Definition G (spec : list srow) (ver : Z) (m : iv -> bool) : list (list Z) :=
  map (fun reg => sortZ (spec_ids_abs spec ver reg m)) REGS.

(* the interval table of one family: the multicast block and the published blocks of that family; the blocks of
   the keys of that family are checked to be among them (otherwise the check fails and nothing is concluded) *)
Definition ivs (spec : list srow) (ver : Z) : list iv :=
  row_iv mcast_row :: map s_iv (filter (fun s => s_ver s =? ver) spec).
Definition wfivb (i : iv) : bool := fst i <=? snd i.
Definition iv_eqb (a b : iv) : bool := (fst a =? fst b) && (snd a =? snd b).
Lemma iv_eqb_eq a b : iv_eqb a b = true -> a = b.
Proof. destruct a, b. unfold iv_eqb. cbn. intro H. apply andb_prop in H. destruct H. f_equal; lia. Qed.

(* evaluation-friendly forms: the dictionaries and the spec rows are split per registry once, not per point *)
Definition presplit (tab : list irow) : list (list irow) := map (sub_dict tab) REGS.
Definition dict_of (ps : list (list irow)) (reg : Z) : list irow :=
  match ps with
  | [a; b; c; d] => if reg =? REG_IPV4 then a else if reg =? REG_MCAST then b else if reg =? REG_IPV6 then c
                    else if reg =? REG_IPV6U then d else []
  | _ => []
  end.
Lemma dict_of_presplit tab reg : In reg REGS -> dict_of (presplit tab) reg = sub_dict tab reg.
Proof. intros [<-|[<-|[<-|[<-|[]]]]]; reflexivity. Qed.

Definition Ffast (ps : list (list irow)) (ver : Z) (m : iv -> bool) : list (list Z) :=
  let info := query_abs (dict_of ps) ver m in map (fun reg => sortZ (map r_id (lookup_reg reg info))) REGS.
Definition spec_split (spec : list srow) (ver : Z) : list (list srow) :=
  map (fun reg => filter (fun s => (s_reg s =? reg) && (s_ver s =? ver)) spec) REGS.
Definition Gfast (ss : list (list srow)) (m : iv -> bool) : list (list Z) :=
  map (fun sl => sortZ (map s_id (filter (fun s => m (s_iv s)) sl))) ss.

Lemma filter_andb {A} (p q : A -> bool) l : filter (fun x => p x && q x) l = filter q (filter p l).
Proof.
  induction l as [|a t IH]; cbn; [reflexivity|]. destruct (p a); cbn; [|assumption]. destruct (q a); now rewrite IH.
Qed.
Lemma Ffast_eq impl ver m : Ffast (presplit impl) ver m = F impl ver m.
Proof. unfold Ffast, F, query_abs. now rewrite (query_gen_dict _ _ _ _ _ (dict_of_presplit impl)). Qed.
Lemma Gfast_eq spec ver m : Gfast (spec_split spec ver) m = G spec ver m.
Proof.
  unfold Gfast, G, spec_split. rewrite map_map. apply map_ext. intro reg. unfold spec_ids_abs, spec_hit_abs.
  now rewrite (filter_andb (fun s => (s_reg s =? reg) && (s_ver s =? ver)) (fun s => m (s_iv s))).
Qed.

Definition cuts_ok (impl : list irow) (spec : list srow) (ver : Z) : bool :=
  let ps := presplit impl in
  let ss := spec_split spec ver in
  let l := ivs spec ver in
  forallb (fun i => existsb (iv_eqb i) l) (map row_iv (filter (fun r => r_ver r =? ver) impl))
  && forallb wfivb l
  && forallb (fun c => lleqb (Ffast ps ver (fun i => memb i c)) (Gfast ss (fun i => memb i c))) (cuts l).

Lemma F_depends impl spec ver m1 m2 :
  forallb (fun i => existsb (iv_eqb i) (ivs spec ver)) (map row_iv (filter (fun r => r_ver r =? ver) impl)) = true ->
  (forall i, In i (ivs spec ver) -> m1 i = m2 i) -> F impl ver m1 = F impl ver m2.
Proof.
  intros Hinc H. rewrite forallb_forall in Hinc. unfold F, query_abs.
  rewrite (query_gen_ext (wb_abs ver m1) (wb_abs ver m2) _ ((4 =? ver) && m2 (row_iv mcast_row))); [reflexivity| |].
  - intros reg r Hr. apply in_sub_dict in Hr. unfold wb_abs. destruct (r_ver r =? ver) eqn:E; [|reflexivity]. cbn [andb]. apply H.
    assert (Hin : In (row_iv r) (map row_iv (filter (fun r => r_ver r =? ver) impl))).
    { apply in_map. apply filter_In. now split. }
    specialize (Hinc _ Hin). apply existsb_exists in Hinc. destruct Hinc as (j & Hj & Ej).
    apply iv_eqb_eq in Ej. now rewrite Ej.
  - f_equal. apply H. now left.
Qed.

Lemma G_depends spec ver m1 m2 :
  (forall i, In i (ivs spec ver) -> m1 i = m2 i) -> G spec ver m1 = G spec ver m2.
Proof.
  intro H. unfold G. apply map_ext. intro reg. f_equal. unfold spec_ids_abs. f_equal. apply filter_ext_in.
  intros s Hs. unfold spec_hit_abs. destruct (s_ver s =? ver) eqn:E; [|now rewrite andb_false_r].
  f_equal. apply H. right. apply in_map. apply filter_In. now split.
Qed.

(* ---------------------------------------------------------------- cut points => all addresses *)
Theorem lookup_exact_from_cuts impl spec ver :
  forallb row_wfb impl = true ->
  cuts_ok impl spec ver = true ->
  forall v reg, In reg REGS -> Permutation (query_ids impl ver v reg) (spec_ids spec ver v reg).
Proof.
  intros Hwf Hc v reg Hreg. apply sortZ_eq_perm.
  unfold cuts_ok in Hc. cbv zeta in Hc. apply andb_prop in Hc. destruct Hc as [Hc Hcut].
  apply andb_prop in Hc. destruct Hc as [Hinc Hiv].
  assert (HFG : F impl ver (fun i => memb i v) = G spec ver (fun i => memb i v)).
  { apply (lift (list (list Z)) (ivs spec ver)).
    - discriminate.
    - apply Forall_forall. intros i Hi. rewrite forallb_forall in Hiv. specialize (Hiv i Hi).
      unfold wfivb in Hiv. unfold wfiv. lia.
    - intros m1 m2. now apply F_depends.
    - apply G_depends.
    - intros c Hin. rewrite forallb_forall in Hcut. rewrite <- Ffast_eq, <- Gfast_eq. now apply lleqb_eq, Hcut. }
  unfold F, G in HFG. cbv zeta in HFG.
  pose proof (map_eq_in _ _ _ reg HFG Hreg) as H. cbv beta in H.
  unfold query_ids. rewrite (query_eq_abs impl ver v Hwf). rewrite spec_ids_eq_abs. exact H.
Qed.

(* ---------------------------------------------------------------- coherence of the record ids *)
Definition ids_coherentb (impl : list irow) (spec : list srow) : bool :=
  forallb (fun r => let f := row_first r in let l := row_last r in
     forallb (fun s => negb (r_id r =? s_id s) ||
     ((r_reg r =? s_reg s) && (r_ver r =? s_ver s) && (f =? s_first s) && (l =? s_last s))) spec) impl
  && nodupb (map r_id impl) && nodupb (map s_id spec).

Theorem ids_coherent_from_check impl spec : ids_coherentb impl spec = true ->
  (forall r s, In r impl -> In s spec -> r_id r = s_id s ->
     r_reg r = s_reg s /\ r_ver r = s_ver s /\ row_first r = s_first s /\ row_last r = s_last s) /\
  NoDup (map r_id impl) /\ NoDup (map s_id spec).
Proof.
  unfold ids_coherentb. intro H. apply andb_prop in H. destruct H as [H H3]. apply andb_prop in H. destruct H as [H1 H2].
  split; [|split; now apply nodupb_NoDup].
  intros r s Hr Hs E. rewrite forallb_forall in H1. specialize (H1 r Hr). rewrite forallb_forall in H1.
  specialize (H1 s Hs). apply Z.eqb_eq in E. rewrite E in H1. cbn [negb orb] in H1.
  repeat (apply andb_prop in H1; destruct H1 as [H1 ?]). lia.
Qed.

Lemma within_bounds_first_last ver v r : row_wfb r = true ->
  within_bounds ver v r = (r_ver r =? ver) && ((row_first r <=? v) && (v <=? row_last r)).
Proof. intro H. rewrite (within_bounds_iv ver v r H), (row_iv_first_last r H). reflexivity. Qed.
