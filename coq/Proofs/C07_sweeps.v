(* Proofs/C07_sweeps.v — C07 part A, common layer for the two-cursor operator sweeps of IPSet
   (intersection / difference / symmetric_difference / union / isdisjoint of Model/Sets.v):
   interval vocabulary (rng), the ascending order `nbelow` on stored blocks, facts about the model helpers
   (key_eqb, net_in_net, net_ltb, sorted, dset), nested-or-disjoint, `Good (sorted d)` under `SetInv d`,
   the bridge to Base/Canon.L_cover, and the "a stored block is never half of a covered parent" lemma that
   gives sibling-freeness of operator results. *)
From NV Require Import Base.Tac Base.PyVal Base.Bits Base.Canon Model.Ip Model.Partition Model.Span Model.Merge Model.Sets
  Proofs.C02 Proofs.NetDen.
From Coq Require Import Sorting.Sorted Sorting.Permutation.
Open Scope Z_scope.

(* ---------------------------------------------------------------- intervals (version, first, last) *)
Definition rv (r : rng) : Z := fst (fst r).
Definition rs (r : rng) : Z := snd (fst r).
Definition re (r : rng) : Z := snd r.
Definition in_rng (r : rng) (ver x : Z) : Prop := rv r = ver /\ rs r <= x <= re r.
Definition rden (l : list rng) (ver x : Z) : Prop := exists r, In r l /\ in_rng r ver x.
(* a entirely before b: IPv4 before IPv6, then by address *)
Definition rbelow (a b : rng) : Prop := rv a < rv b \/ (rv a = rv b /\ re a < rs b).
(* a before b with at least one address in between (or other family) *)
Definition rsep (a b : rng) : Prop := rv a < rv b \/ (rv a = rv b /\ re a + 1 < rs b).
Definition rinside (a b : rng) : Prop := rv a = rv b /\ rs b <= rs a /\ re a <= re b.
Definition rvalid (r : rng) : Prop :=
  valid_ver (rv r) = true /\ 0 <= rs r /\ rs r <= re r /\ re r < 2 ^ width (rv r).

Definition nbelow (a b : net) : Prop := rbelow (rng_of a) (rng_of b).
Definition ninside (a b : net) : Prop := rinside (rng_of a) (rng_of b).
Definition Good (l : list net) : Prop := Forall wfh l /\ StronglySorted nbelow l.
Definition PD (l : list net) : Prop := ForallOrdPairs (fun a b => ~ overlap a b) l.
Definition RAsc (l : list rng) : Prop := Forall rvalid l /\ StronglySorted rbelow l.

Ltac rsimp := unfold nbelow, ninside, rbelow, rsep, rinside, in_net, in_rng, rvalid, rng_of, rv, rs, re in *;
              cbn [fst snd] in *.

Lemma s_in_net_rng n ver x : in_net n ver x <-> in_rng (rng_of n) ver x.
Proof. rsimp. tauto. Qed.

Lemma rden_nil ver x : ~ rden [] ver x.
Proof. intros (r & [] & _). Qed.
Lemma rden_cons r l ver x : rden (r :: l) ver x <-> in_rng r ver x \/ rden l ver x.
Proof.
  unfold rden. split.
  - intros (m & [<-|Hm] & I); [left; exact I|right; eauto].
  - intros [I|(m & Hm & I)]; [exists r; split; [now left|exact I]|exists m; split; [now right|exact I]].
Qed.
Lemma rden_app l1 l2 ver x : rden (l1 ++ l2) ver x <-> rden l1 ver x \/ rden l2 ver x.
Proof.
  unfold rden. split.
  - intros (n & Hn & I). apply in_app_or in Hn. destruct Hn; [left|right]; eauto.
  - intros [(n & Hn & I)|(n & Hn & I)]; exists n; split; auto; apply in_or_app; auto.
Qed.
Lemma rden_map_rng_of l ver x : rden (map rng_of l) ver x <-> den l ver x.
Proof.
  unfold rden, den. split.
  - intros (r & Hr & I). apply in_map_iff in Hr. destruct Hr as (n & <- & Hn). exists n. split; auto.
  - intros (n & Hn & I). exists (rng_of n). split; [apply in_map; exact Hn|exact I].
Qed.

(* ---------------------------------------------------------------- generic list facts *)
Lemma SS_app {A} (R : A -> A -> Prop) l1 l2 :
  StronglySorted R l1 -> StronglySorted R l2 -> (forall a b, In a l1 -> In b l2 -> R a b) ->
  StronglySorted R (l1 ++ l2).
Proof.
  intros S1 S2 H. induction S1 as [|a l1 S1 IH F]; cbn; [exact S2|].
  constructor.
  - apply IH. intros; apply H; auto. now right.
  - rewrite Forall_forall in *. intros x Hx. apply in_app_or in Hx. destruct Hx; [auto|apply H; auto; now left].
Qed.

Lemma SS_tail {A} (R : A -> A -> Prop) a l : StronglySorted R (a :: l) -> StronglySorted R l.
Proof. intros S. now inversion S. Qed.
Lemma SS_head {A} (R : A -> A -> Prop) a l b : StronglySorted R (a :: l) -> In b l -> R a b.
Proof. intros S Hb. inversion S as [|? ? _ F]; subst. rewrite Forall_forall in F. auto. Qed.

Lemma SS_app_inv {A} (R : A -> A -> Prop) l1 l2 :
  StronglySorted R (l1 ++ l2) ->
  StronglySorted R l1 /\ StronglySorted R l2 /\ forall a b, In a l1 -> In b l2 -> R a b.
Proof.
  induction l1 as [|x l1 IH]; cbn; intros S.
  - split; [constructor|split; [exact S|intros a b []]].
  - inversion S as [|? ? S' F]; subst. destruct (IH S') as (S1 & S2 & H). rewrite Forall_forall in F.
    split; [|split; [exact S2|]].
    + constructor; [exact S1|]. rewrite Forall_forall. intros y Hy. apply F. apply in_or_app. now left.
    + intros a b [<-|Ha] Hb; [apply F, in_or_app; now right|auto].
Qed.

Lemma SS_map_inv {A B} (R : B -> B -> Prop) (f : A -> B) l :
  StronglySorted R (map f l) -> StronglySorted (fun a b => R (f a) (f b)) l.
Proof.
  induction l as [|a l IH]; cbn; intros S; [constructor|].
  inversion S as [|? ? S' F]; subst. constructor; [auto|].
  rewrite Forall_forall in *. intros x Hx. apply F. apply in_map. exact Hx.
Qed.

Lemma SS_weaken_in {A} (R R' : A -> A -> Prop) l :
  (forall a b, In a l -> In b l -> R a b -> R' a b) -> StronglySorted R l -> StronglySorted R' l.
Proof.
  intros H S. induction S as [|a l S IH F]; [constructor|].
  constructor.
  - apply IH. intros x y Hx Hy. apply H; now right.
  - rewrite Forall_forall in *. intros x Hx. apply H; [now left|now right|auto].
Qed.

(* ---------------------------------------------------------------- one well-formed host-bit-free block *)
Lemma s_wfh_facts n : wfh n ->
  valid_ver (nver n) = true /\ 0 <= nplen n <= width (nver n) /\ 0 <= nf n /\
  nl n = nf n + 2 ^ (width (nver n) - nplen n) - 1 /\ nl n < 2 ^ width (nver n) /\
  (2 ^ (width (nver n) - nplen n) | nf n) /\ 0 < 2 ^ (width (nver n) - nplen n).
Proof.
  intros (W & _). pose proof W as (Hver & Hv & Hp).
  pose proof (first_last_in_range (width (nver n)) (nval n) (nplen n) Hp Hv) as [F L].
  rewrite <- nf_eq in F, L by exact W.
  split; [exact Hver|split; [exact Hp|split; [exact F|split; [apply nl_eq; exact W|split]]]].
  - rewrite nl_eq by exact W. exact L.
  - split; [rewrite nf_eq by exact W; apply floor2_divide; lia|apply pow2_pos; lia].
Qed.

Lemma s_wfh_rvalid n : wfh n -> rvalid (rng_of n).
Proof. intros H. destruct (s_wfh_facts n H) as (V & P & F & L & U & D & T). rsimp. lia. Qed.

Lemma s_wfh_ne n : wfh n -> nf n <= nl n.
Proof. intros H. destruct (s_wfh_facts n H) as (V & P & F & L & U & D & T). lia. Qed.

Lemma s_wfh_self n : wfh n -> in_net n (nver n) (nf n).
Proof. intros H. pose proof (s_wfh_ne n H). rsimp. lia. Qed.

(* two aligned intervals sharing a point: the finer one lies inside the coarser one *)
Lemma s_nest_arith a b S T m z : 0 < T -> 0 < m -> S = m * T -> (T | a) -> (S | b) ->
  a <= z < a + T -> b <= z < b + S -> b <= a /\ a + T <= b + S.
Proof.
  intros HT Hm -> [ka ->] [kb ->] Ha Hb.
  assert (kb * m <= ka) by nia. assert (ka < kb * m + m) by nia. nia.
Qed.

Lemma s_share_nested x y ver z : wfh x -> wfh y -> in_net x ver z -> in_net y ver z -> nplen y <= nplen x ->
  ninside x y.
Proof.
  intros Hx Hy Ix Iy Hp.
  destruct (s_wfh_facts x Hx) as (Vx & Px & Fx & Lx & Ux & Dx & Tx).
  destruct (s_wfh_facts y Hy) as (Vy & Py & Fy & Ly & Uy & Dy & Ty).
  assert (E: nver x = nver y) by (rsimp; lia).
  rewrite <- E in *. set (w := width (nver x)) in *.
  assert (Hd: 2 ^ (w - nplen y) = 2 ^ (nplen x - nplen y) * 2 ^ (w - nplen x)).
  { rewrite <- Z.pow_add_r by lia. f_equal. lia. }
  assert (Hm: 0 < 2 ^ (nplen x - nplen y)) by (apply pow2_pos; lia).
  destruct (s_nest_arith (nf x) (nf y) _ _ _ z Tx Hm Hd Dx Dy) as [A B]; [rsimp; lia|rsimp; lia|].
  rsimp. lia.
Qed.

(* nested or disjoint *)
Lemma s_tricho x y : wfh x -> wfh y -> ninside x y \/ ninside y x \/ nbelow x y \/ nbelow y x.
Proof.
  intros Hx Hy. pose proof (s_wfh_ne x Hx). pose proof (s_wfh_ne y Hy).
  destruct (Z.lt_trichotomy (nver x) (nver y)) as [L|[E|L]].
  - right; right; left. rsimp. lia.
  - destruct (Z_lt_ge_dec (nl x) (nf y)); [right; right; left; rsimp; lia|].
    destruct (Z_lt_ge_dec (nl y) (nf x)); [right; right; right; rsimp; lia|].
    set (z := Z.max (nf x) (nf y)).
    assert (Ix: in_net x (nver x) z) by (rsimp; lia).
    assert (Iy: in_net y (nver x) z) by (rsimp; lia).
    destruct (Z_le_gt_dec (nplen y) (nplen x)).
    + left. eapply s_share_nested; eauto.
    + right; left. eapply s_share_nested; eauto. lia.
  - right; right; right. rsimp. lia.
Qed.

Lemma s_disj_cases x y : wfh x -> wfh y -> ~ overlap x y -> nbelow x y \/ nbelow y x.
Proof.
  intros Hx Hy N. pose proof (s_wfh_ne x Hx). pose proof (s_wfh_ne y Hy).
  destruct (Z.lt_trichotomy (nver x) (nver y)) as [L|[E|L]]; [left; rsimp; lia| |right; rsimp; lia].
  destruct (Z_lt_ge_dec (nl x) (nf y)); [left; rsimp; lia|].
  destruct (Z_lt_ge_dec (nl y) (nf x)); [right; rsimp; lia|].
  exfalso. apply N. exists (nver x), (Z.max (nf x) (nf y)). rsimp. lia.
Qed.

Lemma s_nbelow_no_overlap x y : nbelow x y -> ~ overlap x y.
Proof. intros B (ver & z & I1 & I2). rsimp. lia. Qed.
Lemma s_overlap_sym x y : overlap x y -> overlap y x.
Proof. intros (ver & z & I1 & I2). exists ver, z. tauto. Qed.

(* ---------------------------------------------------------------- the model's comparisons *)
Lemma s_key_eqb_iff a b : key_eqb a b = true <-> rng_of a = rng_of b.
Proof.
  unfold key_eqb, rng_of. rewrite !andb_true_iff, !Z.eqb_eq. split.
  - intros [[-> ->] ->]. reflexivity.
  - intros E. inversion E. auto.
Qed.

Lemma s_net_in_net_iff x y : wf_net x -> wf_net y -> (net_in_net x y = true <-> ninside x y).
Proof.
  intros Wx Wy. pose proof Wx as (Vx & Hvx & Hpx). pose proof Wy as (Vy & Hvy & Hpy).
  pose proof (nf_eq x Wx) as Fx. pose proof (nl_eq x Wx) as Lx.
  pose proof (nf_eq y Wy) as Fy. pose proof (nl_eq y Wy) as Ly.
  unfold net_in_net. case_eqb (nver y) (nver x); cbn [negb].
  2:{ split; [discriminate|]. intros I. rsimp. lia. }
  rewrite e in *. set (w := width (nver x)) in *.
  pose proof (pow2_pos (w - nplen x) ltac:(lia)) as Tx. pose proof (pow2_pos (w - nplen y) ltac:(lia)) as Ty.
  pose proof (floor2_bounds (nval x) (w - nplen x) ltac:(lia)) as Bx.
  pose proof (floor2_bounds (nval y) (w - nplen y) ltac:(lia)) as By.
  rewrite andb_true_iff, Z.eqb_eq, Z.leb_le, shiftr_eq_iff by lia. split.
  - intros [Efl Hp].
    pose proof (floor2_bounds (nval x) (w - nplen y) ltac:(lia)) as Bxy. rewrite Efl, <- Fy in Bxy.
    assert (Hd: 2 ^ (w - nplen y) = 2 ^ (nplen x - nplen y) * 2 ^ (w - nplen x)).
    { rewrite <- Z.pow_add_r by lia. f_equal. lia. }
    assert (Hm: 0 < 2 ^ (nplen x - nplen y)) by (apply pow2_pos; lia).
    assert (Dx: (2 ^ (w - nplen x) | nf x)) by (rewrite Fx; apply floor2_divide; lia).
    assert (Dy: (2 ^ (w - nplen y) | nf y)) by (rewrite Fy; apply floor2_divide; lia).
    destruct (s_nest_arith (nf x) (nf y) _ _ _ (nval x) Tx Hm Hd Dx Dy) as [A B]; [lia|lia|].
    rsimp. lia.
  - intros I. rsimp. destruct I as (_ & I1 & I2).
    assert (Hp: nplen y <= nplen x).
    { destruct (Z_le_gt_dec (nplen y) (nplen x)); [assumption|exfalso].
      pose proof (pow2_lt (w - nplen y) (w - nplen x) ltac:(lia)). lia. }
    split; [|exact Hp].
    assert (Dy: (2 ^ (w - nplen y) | nf y)) by (rewrite Fy; apply floor2_divide; lia).
    rewrite <- Fy. symmetry. apply floor2_unique; [lia|exact Dy|lia].
Qed.

Lemma s_net_ltb_below x y : wfh x -> wfh y ->
  (nbelow x y -> net_ltb x y = true) /\ (nbelow y x -> net_ltb x y = false).
Proof.
  intros Hx Hy. pose proof (s_wfh_ne x Hx). pose proof (s_wfh_ne y Hy).
  unfold net_ltb, lex_ltb, sort_key. cbn [lex_leb]. split; intros B; rsimp.
  - case_ltb (nver y) (nver x); [lia|]. case_ltb (nver x) (nver y); [reflexivity|].
    case_ltb (nf y) (nf x); [lia|]. case_ltb (nf x) (nf y); [reflexivity|lia].
  - case_ltb (nver y) (nver x); [reflexivity|]. case_ltb (nver x) (nver y); [lia|].
    case_ltb (nf y) (nf x); [reflexivity|lia].
Qed.

(* ---------------------------------------------------------------- ordered lists of blocks *)
Lemma s_nbelow_trans a b c : nf b <= nl b -> nbelow a b -> nbelow b c -> nbelow a c.
Proof. intros. rsimp. lia. Qed.
Lemma s_below_inside_l a b c : nbelow a b -> ninside c a -> nbelow c b.
Proof. intros. rsimp. lia. Qed.
Lemma s_below_inside_r a b c : nbelow a b -> ninside c b -> nbelow a c.
Proof. intros. rsimp. lia. Qed.
Lemma s_inside_in a b ver x : ninside a b -> in_net a ver x -> in_net b ver x.
Proof. intros. rsimp. lia. Qed.
Lemma s_below_not_both a b ver x : nbelow a b -> in_net a ver x -> in_net b ver x -> False.
Proof. intros. rsimp. lia. Qed.
Lemma s_below_all_not_den a l ver x : (forall b, In b l -> nbelow a b) -> in_net a ver x -> ~ den l ver x.
Proof. intros H I (b & Hb & Ib). eapply s_below_not_both; eauto. Qed.

Lemma Good_nil : Good [].
Proof. split; constructor. Qed.
Lemma Good_tail a l : Good (a :: l) -> Good l.
Proof. intros (F & S). split; [now inversion F|now inversion S]. Qed.
Lemma Good_head a l : Good (a :: l) -> wfh a.
Proof. intros (F & _). now inversion F. Qed.
Lemma Good_head_below a l b : Good (a :: l) -> In b l -> nbelow a b.
Proof. intros (_ & S). apply SS_head. exact S. Qed.
Lemma Good_in l a : Good l -> In a l -> wfh a.
Proof. intros (F & _). rewrite Forall_forall in F. auto. Qed.
Lemma Good_app_inv l1 l2 : Good (l1 ++ l2) -> Good l1 /\ Good l2 /\ forall a b, In a l1 -> In b l2 -> nbelow a b.
Proof.
  intros (F & S). apply Forall_app in F. destruct F as [F1 F2].
  destruct (SS_app_inv _ _ _ S) as (S1 & S2 & H). repeat split; auto.
Qed.
Lemma Good_app l1 l2 : Good l1 -> Good l2 -> (forall a b, In a l1 -> In b l2 -> nbelow a b) -> Good (l1 ++ l2).
Proof. intros (F1 & S1) (F2 & S2) H. split; [apply Forall_app; auto|apply SS_app; auto]. Qed.

(* an element below the head is below everything *)
Lemma Good_below_all c a l : Good (a :: l) -> nbelow c a -> forall b, In b (a :: l) -> nbelow c b.
Proof.
  intros G B b [<-|Hb]; [exact B|].
  eapply s_nbelow_trans; [apply s_wfh_ne, (Good_head _ _ G)|exact B|eapply Good_head_below; eauto].
Qed.

(* pairwise disjointness *)
Lemma PD_app l1 l2 : PD l1 -> PD l2 -> (forall a b, In a l1 -> In b l2 -> ~ overlap a b) -> PD (l1 ++ l2).
Proof.
  intros P1 P2 H. induction P1 as [|a l1 F P1 IH]; cbn; [exact P2|].
  constructor.
  - apply Forall_app. split; [exact F|]. rewrite Forall_forall. intros b Hb. apply H; [now left|exact Hb].
  - apply IH. intros; apply H; auto. now right.
Qed.
Lemma PD_app_inv l1 l2 : PD (l1 ++ l2) -> PD l1 /\ PD l2 /\ forall a b, In a l1 -> In b l2 -> ~ overlap a b.
Proof.
  induction l1 as [|x l1 IH]; cbn; intros P.
  - split; [constructor|split; [exact P|intros a b []]].
  - inversion P as [|? ? F P']; subst. destruct (IH P') as (P1 & P2 & H).
    apply Forall_app in F. destruct F as [F1 F2]. rewrite Forall_forall in F2.
    split; [constructor; assumption|split; [exact P2|]].
    intros a b [<-|Ha] Hb; auto.
Qed.
Lemma PD_in l a b : PD l -> In a l -> In b l -> a = b \/ ~ overlap a b.
Proof.
  intros P Ha Hb. destruct (ForallOrdPairs_In P a b Ha Hb) as [E|[N|N]]; auto.
  right. intros O. apply N, s_overlap_sym, O.
Qed.
Lemma SS_PD l : StronglySorted nbelow l -> PD l.
Proof.
  intros S. induction S as [|a l S IH F]; constructor; [|exact IH].
  rewrite Forall_forall in *. intros b Hb. apply s_nbelow_no_overlap. auto.
Qed.
Lemma Good_PD l : Good l -> PD l.
Proof. intros (_ & S). apply SS_PD, S. Qed.

(* ---------------------------------------------------------------- dict operations on disjoint keys *)
Lemma s_dmem_true k d : dmem k d = true -> exists k', In k' d /\ rng_of k' = rng_of k.
Proof.
  unfold dmem. rewrite existsb_exists. intros (k' & Hk & E). apply s_key_eqb_iff in E. exists k'. auto.
Qed.

Lemma s_fold_dset_app R : forall res, Forall wfh R -> PD (res ++ R) -> fold_left dset R res = res ++ R.
Proof.
  induction R as [|k R IH]; intros res F P; cbn [fold_left]; [now rewrite app_nil_r|].
  inversion F as [|? ? Hk F']; subst.
  assert (E: dset res k = res ++ [k]).
  { unfold dset. destruct (dmem k res) eqn:M; [exfalso|reflexivity].
    destruct (s_dmem_true _ _ M) as (k' & Hk' & Ek).
    destruct (PD_app_inv _ _ P) as (_ & _ & H). apply (H k' k Hk' (or_introl eq_refl)).
    exists (nver k), (nf k). split; [|apply s_wfh_self, Hk].
    change (in_rng (rng_of k') (nver k) (nf k)). rewrite Ek. exact (s_wfh_self k Hk). }
  rewrite E. replace (res ++ k :: R) with ((res ++ [k]) ++ R) in * by (rewrite <- app_assoc; reflexivity).
  apply IH; assumption.
Qed.

Lemma s_fold_dset_nil R : Good R -> fold_left dset R [] = R.
Proof. intros G. apply (s_fold_dset_app R []); [apply G|apply Good_PD, G]. Qed.

(* ---------------------------------------------------------------- sorted() *)
Lemma s_ins_sorted_perm x l : Permutation (ins_sorted x l) (x :: l).
Proof.
  induction l as [|y r IH]; cbn [ins_sorted]; [apply Permutation_refl|].
  destruct (lex_ltb _ _); [apply Permutation_refl|].
  eapply perm_trans; [apply perm_skip, IH|apply perm_swap].
Qed.

Lemma s_sorted_perm_acc l : forall acc, Permutation (fold_left (fun acc x => ins_sorted x acc) l acc) (l ++ acc).
Proof.
  induction l as [|x l IH]; intros acc; cbn [fold_left app]; [apply Permutation_refl|].
  eapply perm_trans; [apply IH|].
  eapply perm_trans; [apply Permutation_app_head, s_ins_sorted_perm|].
  apply Permutation_sym, Permutation_middle.
Qed.

Lemma s_sorted_perm l : Permutation (sorted l) l.
Proof. unfold sorted. pose proof (s_sorted_perm_acc l []) as P. now rewrite app_nil_r in P. Qed.

Lemma s_ins_sorted_good x l : wfh x -> Good l -> (forall y, In y l -> ~ overlap x y) -> Good (ins_sorted x l).
Proof.
  intros Hx G N. split.
  { eapply Permutation_Forall; [apply Permutation_sym, s_ins_sorted_perm|]. constructor; [exact Hx|apply G]. }
  induction l as [|y r IH]; cbn [ins_sorted]; [repeat constructor|].
  pose proof (Good_head _ _ G) as Hy.
  destruct (s_net_ltb_below x y Hx Hy) as [L1 L2]. fold (net_ltb x y).
  destruct (s_disj_cases x y Hx Hy (N y (or_introl eq_refl))) as [B|B].
  - rewrite (L1 B). constructor; [apply G|]. rewrite Forall_forall. apply Good_below_all; assumption.
  - rewrite (L2 B). constructor.
    + apply IH; [eapply Good_tail; eauto|intros; apply N; now right].
    + rewrite Forall_forall. intros z Hz.
      eapply Permutation_in in Hz; [|apply s_ins_sorted_perm].
      destruct Hz as [<-|Hz]; [exact B|eapply Good_head_below; eauto].
Qed.

Lemma s_sorted_good_acc l : forall acc, Forall wfh l -> PD l -> Good acc ->
  (forall a y, In a acc -> In y l -> ~ overlap y a) ->
  Good (fold_left (fun acc x => ins_sorted x acc) l acc).
Proof.
  induction l as [|x l IH]; intros acc F P G N; cbn [fold_left]; [exact G|].
  inversion F as [|? ? Hx F']; subst. inversion P as [|? ? Fx P']; subst. rewrite Forall_forall in Fx.
  apply IH; auto.
  - apply s_ins_sorted_good; auto. intros y Hy. apply N; [exact Hy|now left].
  - intros a y Ha Hy. eapply Permutation_in in Ha; [|apply s_ins_sorted_perm].
    destruct Ha as [<-|Ha]; [intros O; apply (Fx y Hy), s_overlap_sym, O|apply N; [exact Ha|now right]].
Qed.

Lemma SetInv_wfh d : SetInv d -> Forall wfh d.
Proof. intros (F & _). exact F. Qed.
Lemma SetInv_PD d : SetInv d -> PD d.
Proof. intros (_ & P & _). exact P. Qed.

(* under the set invariant the sorted key list is strictly ascending by (version, first) and pairwise disjoint *)
Lemma s_sorted_good d : SetInv d -> Good (sorted d).
Proof.
  intros I. unfold sorted. apply s_sorted_good_acc; [apply SetInv_wfh, I|apply SetInv_PD, I|apply Good_nil|intros a y []].
Qed.

Lemma s_sorted_spec d : SetInv d ->
  Permutation (sorted d) d /\ Forall wfh (sorted d) /\ StronglySorted nbelow (sorted d).
Proof. intros I. exact (conj (s_sorted_perm d) (s_sorted_good d I)). Qed.

Lemma s_sorted_in d n : In n (sorted d) <-> In n d.
Proof.
  split; intros H; [eapply Permutation_in; [apply s_sorted_perm|exact H]|
                    eapply Permutation_in; [apply Permutation_sym, s_sorted_perm|exact H]].
Qed.
Lemma s_sorted_den d ver x : den (sorted d) ver x <-> den d ver x.
Proof. apply den_perm, s_sorted_perm. Qed.
Lemma s_sorted_length d : length (sorted d) = length d.
Proof. apply Permutation_length, s_sorted_perm. Qed.

(* the dict of a SetInv state rebuilt by dset is itself *)
Lemma s_dupdate_nil d : SetInv d -> dupdate [] d = d.
Proof. intros I. unfold dupdate. apply (s_fold_dset_app d []); [apply SetInv_wfh, I|apply SetInv_PD, I]. Qed.

(* ---------------------------------------------------------------- bridge to Base/Canon *)
Lemma s_fam_in ver l n : In n (fam ver l) <-> In n l /\ nver n = ver.
Proof. unfold fam. rewrite filter_In, Z.eqb_eq. tauto. Qed.

Lemma s_cover d ver X : SetInv d -> aligned (width ver) X ->
  (forall x, inb (width ver) X x -> den d ver x) ->
  exists B, In B d /\ nver B = ver /\ sub (width ver) X (net_blk B).
Proof.
  intros (F & P & NS) AX Hc. rewrite Forall_forall in F.
  destruct (L_cover (width ver) (width_nonneg ver) (fam_blks ver d)) with (h := Z.to_nat (width ver - bp X)) (X := X)
    as (B & HB & S).
  - intros b Hb. unfold fam_blks in Hb. apply in_map_iff in Hb. destruct Hb as (n & <- & Hn).
    apply s_fam_in in Hn. destruct Hn as [Hn <-]. apply net_blk_aligned, F, Hn.
  - intros b1 b2 H1 H2 Sb. unfold fam_blks in H1, H2. apply in_map_iff in H1, H2.
    destruct H1 as (n1 & <- & H1). destruct H2 as (n2 & <- & H2). apply s_fam_in in H1, H2.
    destruct H1 as [H1 E1], H2 as [H2 E2]. apply (NS n1 n2 H1 H2). split; [congruence|]. rewrite E1. exact Sb.
  - exact AX.
  - destruct AX as (Hp & _). lia.
  - intros x Hx. destruct (Hc x Hx) as (n & Hn & I). exists (net_blk n). split.
    + unfold fam_blks. apply in_map. apply s_fam_in. split; [exact Hn|apply I].
    + apply in_net_inb in I; [|apply F, Hn]. destruct I as [E I]. rewrite <- E. exact I.
  - unfold fam_blks in HB. apply in_map_iff in HB. destruct HB as (n & <- & Hn). apply s_fam_in in Hn.
    exists n. tauto.
Qed.

Lemma s_siblings_adj a b : wfh a -> siblings a b -> nver a = nver b /\ nf b = nl a + 1.
Proof.
  intros Ha (E & Hp & Hv & Hd). destruct (s_wfh_facts a Ha) as (V & P & F & L & U & D & T).
  split; [exact E|]. unfold net_blk, bsize in Hv; cbn [bv bp] in Hv. lia.
Qed.

(* if both halves of a parent block lie in the denotation of a SetInv dict, neither half is a stored key:
   the parent is inside one stored block (L_cover), which would overlap the stored half without being it *)
Lemma s_sib_not_stored d e1 e2 : SetInv d -> wfh e1 -> wfh e2 -> siblings e1 e2 ->
  (forall ver x, in_net e1 ver x \/ in_net e2 ver x -> den d ver x) -> ~ In e1 d /\ ~ In e2 d.
Proof.
  intros I H1 H2 Sb Hc.
  destruct (s_wfh_facts e1 H1) as (V1 & P1 & F1 & L1 & U1 & D1 & T1).
  destruct (s_wfh_facts e2 H2) as (V2 & P2 & F2 & L2 & U2 & D2 & T2).
  pose proof Sb as (E & Hp & Hv & Hd). unfold net_blk, bsize in Hp, Hv, Hd; cbn [bv bp] in Hp, Hv, Hd.
  rewrite <- E in *. set (w := width (nver e1)) in *. rewrite <- Hp in *.
  set (T := 2 ^ (w - nplen e1)) in *.
  assert (P0: 1 <= nplen e1).
  { destruct (Z_le_gt_dec 1 (nplen e1)); [assumption|exfalso].
    assert (nplen e1 = 0) by lia. assert (T = 2 ^ w) by (unfold T; f_equal; lia). lia. }
  assert (HT2: 2 ^ (w - (nplen e1 - 1)) = 2 * T).
  { unfold T. replace (w - (nplen e1 - 1)) with (w - nplen e1 + 1) by lia. apply pow2_succ. lia. }
  set (X := {| bv := nf e1; bp := nplen e1 - 1 |}).
  assert (AX: aligned w X).
  { unfold aligned, bsize, X; cbn [bv bp]. rewrite HT2. split; [lia|split; [lia|exact Hd]]. }
  destruct (s_cover d (nver e1) X I AX) as (B & HB & EB & SB).
  { intros x Hx. unfold inb, bsize, X in Hx; cbn [bv bp] in Hx. fold w in Hx. rewrite HT2 in Hx. apply Hc.
    destruct (Z_lt_ge_dec x (nf e1 + T)); [left|right]; rsimp; lia. }
  fold w in SB.
  assert (HBw: wfh B) by (eapply Forall_forall; [apply SetInv_wfh, I|exact HB]).
  assert (I1: inb w (net_blk B) (nf e1)).
  { apply SB. unfold inb, bsize, X; cbn [bv bp]. rewrite HT2. lia. }
  assert (I2: inb w (net_blk B) (nf e2)).
  { apply SB. unfold inb, bsize, X; cbn [bv bp]. rewrite HT2. lia. }
  destruct (s_wfh_facts B HBw) as (VB & PB & FB & LB & UB & DB & TB). rewrite EB in *. fold w in LB.
  unfold inb, net_blk, bsize in I1, I2; cbn [bv bp] in I1, I2.
  split; intros Hin.
  - destruct (PD_in d e1 B (SetInv_PD _ I) Hin HB) as [->|N].
    + rsimp. lia.
    + apply N. exists (nver e1), (nf e1). rsimp. lia.
  - destruct (PD_in d e2 B (SetInv_PD _ I) Hin HB) as [->|N].
    + rsimp. lia.
    + apply N. exists (nver e1), (nf e2). rsimp. lia.
Qed.

(* ---------------------------------------------------------------- canonical lists are ascending and satisfy SetInv *)
Lemma s_fam_app ver l1 l2 : fam ver (l1 ++ l2) = fam ver l1 ++ fam ver l2.
Proof. unfold fam. apply filter_app. Qed.

Lemma s_canon_nets_good l : canon_nets l -> Good l.
Proof.
  intros (F & E & C4 & C6). split; [exact F|]. rewrite Forall_forall in F.
  assert (Hfam: forall ver, (ver = 4 \/ ver = 6) -> canon (width ver) (fam_blks ver l) -> StronglySorted nbelow (fam ver l)).
  { intros ver Hver (_ & S & _). unfold fam_blks in S. apply SS_map_inv in S.
    eapply SS_weaken_in; [|exact S]. intros a b Ha Hb Hab. cbv beta in Hab.
    apply s_fam_in in Ha, Hb. destruct Ha as [Ha Ea], Hb as [Hb Eb].
    destruct (s_wfh_facts a (F _ Ha)) as (Va & Pa & Fa & La & Ua & Da & Ta).
    unfold below, net_blk, bsize in Hab; cbn [bv bp] in Hab. rewrite Ea in *. rsimp. lia. }
  rewrite E. apply SS_app.
  - apply (Hfam 4); [now left|exact C4].
  - apply (Hfam 6); [now right|exact C6].
  - intros a b Ha Hb. apply s_fam_in in Ha, Hb. rsimp. lia.
Qed.

Lemma s_canon_nets_no_sib l a b : canon_nets l -> In a l -> In b l -> ~ siblings a b.
Proof.
  intros (F & E & C4 & C6) Ha Hb (Ev & Sb). rewrite Forall_forall in F.
  destruct (width_cases (nver a)) as [[V W]|[V W]]; [apply (F a Ha)| |].
  - destruct C4 as (_ & _ & NS). rewrite W in Sb. change 32 with (width 4) in Sb.
    apply (NS (net_blk a) (net_blk b)); [| |exact Sb]; unfold fam_blks; apply in_map, s_fam_in; split; auto; congruence.
  - destruct C6 as (_ & _ & NS). rewrite W in Sb. change 128 with (width 6) in Sb.
    apply (NS (net_blk a) (net_blk b)); [| |exact Sb]; unfold fam_blks; apply in_map, s_fam_in; split; auto; congruence.
Qed.

Lemma s_canon_nets_SetInv l : canon_nets l -> SetInv l.
Proof.
  intros C. split; [apply C|split; [apply Good_PD, s_canon_nets_good, C|]].
  intros a b Ha Hb. apply s_canon_nets_no_sib with (l := l); assumption.
Qed.

Lemma s_dfromkeys_canon l : canon_nets l -> dfromkeys l = l.
Proof. intros C. apply s_fold_dset_nil, s_canon_nets_good, C. Qed.
