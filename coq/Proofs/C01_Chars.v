(* Proofs/C01_Chars.v — character/token level facts for C01: digit tables vs Base/PyStr, printed octets and hextets
   are read back by every token parser, "::" splitting. *)
From Coq Require Import String Ascii.
From NV Require Import Base.Tac Base.PyVal Base.PyStr Base.PyStrFacts Model.IpText Model.FbSocket.
Open Scope Z_scope.

(* ---------------------------------------------------------------- digit tables = PyStr's digit_in *)
Lemma hex_digit_digit_in c : hex_digit c = digit_in 16 c.
Proof. destruct c as [[] [] [] [] [] [] [] []]; vm_compute; reflexivity. Qed.
Lemma dec_digit_digit_in c : dec_digit c = digit_in 10 c.
Proof. destruct c as [[] [] [] [] [] [] [] []]; vm_compute; reflexivity. Qed.
Lemma oct_digit_digit_in c : oct_digit c = digit_in 8 c.
Proof. destruct c as [[] [] [] [] [] [] [] []]; vm_compute; reflexivity. Qed.

Lemma in_hex_chars c : contains_char c Fb.hex_chars = is_hex c.
Proof. destruct c as [[] [] [] [] [] [] [] []]; vm_compute; reflexivity. Qed.
Lemma in_dec_chars c : contains_char c Fb.dec_chars = is_dec c.
Proof. destruct c as [[] [] [] [] [] [] [] []]; vm_compute; reflexivity. Qed.

Lemma is_hex_digit_of c : is_hex c = true <-> digit_of 16 c.
Proof. unfold is_hex, digit_of. rewrite hex_digit_digit_in. destruct (digit_in 16 c); cbn; split; eauto; try discriminate.
  intros [d H]; discriminate. Qed.
Lemma is_dec_digit_of c : is_dec c = true <-> digit_of 10 c.
Proof. unfold is_dec, digit_of. rewrite dec_digit_digit_in. destruct (digit_in 10 c); cbn; split; eauto; try discriminate.
  intros [d H]; discriminate. Qed.

Lemma forallb_is_hex l : forallb is_hex l = true <-> all_digits 16 l.
Proof. unfold all_digits. rewrite forallb_forall, Forall_forall. split; intros H c Hc; apply is_hex_digit_of; auto. Qed.
Lemma forallb_is_dec l : forallb is_dec l = true <-> all_digits 10 l.
Proof. unfold all_digits. rewrite forallb_forall, Forall_forall. split; intros H c Hc; apply is_dec_digit_of; auto. Qed.

Lemma fold_left_map {A B C} (g : A -> B -> A) (f : C -> B) l a :
  fold_left g (map f l) a = fold_left (fun a c => g a (f c)) l a.
Proof. revert a. induction l as [|x l IH]; intros a; [reflexivity|]. cbn. apply IH. Qed.

Lemma fold_left_ext {A B} (f g : A -> B -> A) l a : (forall a b, f a b = g a b) -> fold_left f l a = fold_left g l a.
Proof. intros H. revert a. induction l as [|x l IH]; intros a; [reflexivity|]. cbn. rewrite H. apply IH. Qed.

Lemma digits_value_hex l : digits_value hex_digit 16 l = from_digits 16 (map (dval 16) l).
Proof. unfold digits_value, from_digits. rewrite fold_left_map. apply fold_left_ext. intros a c.
  unfold dval. now rewrite hex_digit_digit_in. Qed.
Lemma digits_value_dec l : digits_value dec_digit 10 l = from_digits 10 (map (dval 10) l).
Proof. unfold digits_value, from_digits. rewrite fold_left_map. apply fold_left_ext. intros a c.
  unfold dval. now rewrite dec_digit_digit_in. Qed.

(* ---------------------------------------------------------------- printed hextets *)
Definition T (w : Z) : list ascii := chars (fmt_x w).
Definition T4 (w : Z) : list ascii := chars (fmt_x_pad 4 w).

Lemma pow16_4 : 16 ^ Z.of_nat 4 = 65536. Proof. reflexivity. Qed.

Lemma T_value w : 0 <= w -> from_digits 16 (map (dval 16) (T w)) = w.
Proof. intros Hw. pose proof (py_int_fmt_x w Hw) as P.
  apply py_int_only_digits_value in P; [|lia|now apply fmt_x_hexdigits]. destruct P as (_ & E & _). symmetry. exact E. Qed.
Lemma T4_value w : 0 <= w -> from_digits 16 (map (dval 16) (T4 w)) = w.
Proof. intros Hw. pose proof (py_int_fmt_x_pad 4 w Hw) as P.
  apply py_int_only_digits_value in P; [|lia|now apply fmt_x_pad_hexdigits]. destruct P as (_ & E & _). symmetry. exact E. Qed.

Lemma T_length w : 0 <= w < 65536 -> (1 <= List.length (T w) <= 4)%nat.
Proof. intros Hw. unfold T. rewrite length_chars. apply fmt_x_length; [rewrite pow16_4|]; lia. Qed.
Lemma T4_length w : 0 <= w < 65536 -> List.length (T4 w) = 4%nat.
Proof. intros Hw. unfold T4. rewrite length_chars. apply fmt_x_pad_length; [rewrite pow16_4|]; lia. Qed.

Lemma hextet_T w : 0 <= w < 65536 -> Std6.hextet (T w) = Some w.
Proof. intros Hw. unfold Std6.hextet. pose proof (T_length w Hw) as [L1 L2].
  apply Nat.leb_le in L1, L2. rewrite L1, L2. cbn [andb].
  assert (F : forallb is_hex (T w) = true) by (apply forallb_is_hex, fmt_x_hexdigits; lia).
  rewrite F. rewrite digits_value_hex, T_value by lia. reflexivity. Qed.
Lemma hextet_T4 w : 0 <= w < 65536 -> Std6.hextet (T4 w) = Some w.
Proof. intros Hw. unfold Std6.hextet. rewrite (T4_length w Hw). cbn [Nat.leb andb].
  assert (F : forallb is_hex (T4 w) = true) by (apply forallb_is_hex, fmt_x_pad_hexdigits; lia).
  rewrite F. rewrite digits_value_hex, T4_value by lia. reflexivity. Qed.

Lemma T_no_colon w : 0 <= w -> existsb (ascii_eqb ch_colon) (T w) = false.
Proof. intros. apply (fmt_x_no_colon w); lia. Qed.
Lemma T_no_dot w : 0 <= w -> existsb (ascii_eqb ch_dot) (T w) = false.
Proof. intros. apply (fmt_x_no_dot w); lia. Qed.
Lemma T4_no_colon w : 0 <= w -> existsb (ascii_eqb ch_colon) (T4 w) = false.
Proof. intros. apply (fmt_x_pad_no_colon 4 w); lia. Qed.
Lemma T4_no_dot w : 0 <= w -> existsb (ascii_eqb ch_dot) (T4 w) = false.
Proof. intros. apply (fmt_x_pad_no_dot 4 w); lia. Qed.
Lemma T_nonempty w : T w <> [].
Proof. unfold T. intros E. apply chars_nil_iff in E. now apply fmt_x_nonempty in E. Qed.

(* a "good" token list: what a printer emits between colons *)
Definition good_tok (t : list ascii) : Prop := t <> [] /\ existsb (ascii_eqb ch_colon) t = false.

(* ---------------------------------------------------------------- printed octets *)
Definition D (a : Z) : list ascii := chars (fmt_d a).

Lemma D_value a : 0 <= a -> from_digits 10 (map (dval 10) (D a)) = a.
Proof. intros Ha. pose proof (py_int_fmt_d a) as P.
  apply py_int_only_digits_value in P; [|lia|now apply fmt_d_digits]. destruct P as (_ & E & _). symmetry. exact E. Qed.

Lemma D_length a : 0 <= a < 256 -> (1 <= List.length (D a) <= 3)%nat.
Proof. intros Ha. unfold D. rewrite length_chars. apply fmt_d_length; [|lia]. change (10 ^ Z.of_nat 3) with 1000. lia. Qed.

(* the leading digit of a printed number is '0' only for "0" *)
Lemma D_canonical a : 0 <= a -> D a = [ch_0] \/ exists c r, D a = c :: r /\ ascii_eqb c ch_0 = false.
Proof. intros Ha. unfold D. rewrite fmt_d_nonneg by lia. rewrite chars_str_of, fmt_nat_eq.
  destruct (digits_of_canonical 10 a ltac:(lia) Ha) as [E|(d & r & E & Hd)]; rewrite E.
  - left. reflexivity.
  - right. cbn [map]. eexists _, _. split; [reflexivity|].
    pose proof (digits_of_range 10 a ltac:(lia) Ha) as R. rewrite E in R. inversion R as [|? ? Hd' _]; subst.
    cbn [fmt_digit]. rewrite ascii_eqb_code. unfold ch_0. rewrite code_digit_char by lia.
    case_ltb d 10; [|lia]. change (code "0"%char) with 48. lia. Qed.

Lemma octet_D a : 0 <= a < 256 -> Std4.octet (D a) = Some a.
Proof. intros Ha. unfold Std4.octet. pose proof (D_length a Ha) as [L1 L2].
  assert (F : forallb is_dec (D a) = true) by (apply forallb_is_dec, fmt_d_digits; lia).
  destruct (D_canonical a ltac:(lia)) as [E|(c & r & E & Hc)].
  - assert (a = 0) by (rewrite <- (D_value a) by lia; rewrite E; reflexivity). subst a. rewrite E. reflexivity.
  - rewrite E in *. rewrite F. apply Nat.leb_le in L2. rewrite L2. rewrite Hc. cbn [andb negb].
    rewrite digits_value_dec, <- E, D_value by lia. case_leb a 255; [reflexivity|lia]. Qed.

Lemma D_no_dot a : 0 <= a -> existsb (ascii_eqb ch_dot) (D a) = false.
Proof. intros. apply (fmt_d_no_dot a); lia. Qed.
Lemma D_no_colon a : 0 <= a -> existsb (ascii_eqb ch_colon) (D a) = false.
Proof. intros. apply (fmt_d_no_colon a); lia. Qed.

(* ---------------------------------------------------------------- map_opt *)
Lemma map_opt_map {A B} (f : A -> option B) (g : B -> A) l :
  (forall x, In x l -> f (g x) = Some x) -> map_opt f (map g l) = Some l.
Proof. induction l as [|x l IH]; intros H; [reflexivity|]. cbn [map map_opt].
  rewrite H by (left; reflexivity). rewrite IH; [reflexivity|]. intros y Hy. apply H. now right. Qed.

Lemma map_opt_length {A B} (f : A -> option B) l r : map_opt f l = Some r -> List.length r = List.length l.
Proof. revert r. induction l as [|x l IH]; intros r; cbn [map_opt].
  - intros H. injection H as <-. reflexivity.
  - destruct (f x); [|discriminate]. destruct (map_opt f l) eqn:E; [|discriminate].
    intros H. injection H as <-. cbn. f_equal. now apply IH. Qed.

(* ---------------------------------------------------------------- "::" splitting *)
Definition is_colon (c : ascii) : bool := ascii_eqb c ch_colon.

(* no two adjacent colons *)
Fixpoint no_dc (l : list ascii) : bool :=
  match l with
  | c :: r => match r with d :: _ => negb (is_colon c && is_colon d) && no_dc r | [] => true end
  | [] => true
  end.

Lemma split_dc_cons2 c d r cur : split_dc_chars (c :: d :: r) cur =
  if is_colon c && is_colon d then rev cur :: split_dc_chars r [] else split_dc_chars (d :: r) (c :: cur).
Proof. reflexivity. Qed.
Lemma contains_dc_cons2 c d r : contains_dc_chars (c :: d :: r) = (is_colon c && is_colon d) || contains_dc_chars (d :: r).
Proof. reflexivity. Qed.
Lemma no_dc_cons2 c d r : no_dc (c :: d :: r) = negb (is_colon c && is_colon d) && no_dc (d :: r).
Proof. reflexivity. Qed.

Lemma split_dc_no_dc l cur : no_dc l = true -> split_dc_chars l cur = [rev cur ++ l].
Proof. revert cur. induction l as [|c r IH]; intros cur H.
  - cbn. now rewrite app_nil_r.
  - destruct r as [|d r'].
    + cbn. reflexivity.
    + rewrite no_dc_cons2 in H. apply andb_true_iff in H. destruct H as [H1 H2].
      rewrite split_dc_cons2. apply negb_true_iff in H1. rewrite H1.
      rewrite IH by exact H2. cbn [rev]. now rewrite <- app_assoc. Qed.

Lemma contains_dc_no_dc l : no_dc l = true -> contains_dc_chars l = false.
Proof. induction l as [|c r IH]; intros H; [reflexivity|]. destruct r as [|d r']; [reflexivity|].
  rewrite no_dc_cons2 in H. apply andb_true_iff in H. destruct H as [H1 H2].
  rewrite contains_dc_cons2. apply negb_true_iff in H1. rewrite H1. cbn [orb]. now apply IH. Qed.

(* A ++ "::" ++ B splits into [A; B] when A has no "::" and does not end with ':', B has no "::" and does not
   start with ':' *)
Definition last_not_colon (l : list ascii) : Prop := forall x r, rev l = x :: r -> is_colon x = false.
Definition first_not_colon (l : list ascii) : Prop := forall x r, l = x :: r -> is_colon x = false.

Lemma last_not_colon_tail c d r : last_not_colon (c :: d :: r) -> last_not_colon (d :: r).
Proof. unfold last_not_colon. intros H x q E. cbn [rev] in *. apply (H x (q ++ [c])). rewrite E. reflexivity. Qed.

Lemma is_colon_colon : is_colon ch_colon = true. Proof. reflexivity. Qed.

Lemma split_dc_mid A B cur : no_dc A = true -> last_not_colon A -> no_dc B = true -> first_not_colon B ->
  split_dc_chars (A ++ Std6.dcolon ++ B) cur = [rev cur ++ A; B].
Proof. revert cur. induction A as [|c r IH]; intros cur HA HL HB HF.
  - change ([] ++ Std6.dcolon ++ B) with (ch_colon :: ch_colon :: B). rewrite split_dc_cons2, is_colon_colon. cbn [andb].
    rewrite app_nil_r. rewrite (split_dc_no_dc B []) by exact HB. reflexivity.
  - destruct r as [|d r'].
    + assert (Hc : is_colon c = false) by (apply (HL c []); reflexivity).
      change ([c] ++ Std6.dcolon ++ B) with (c :: ch_colon :: ch_colon :: B).
      rewrite split_dc_cons2, Hc. cbn [andb]. rewrite split_dc_cons2, is_colon_colon. cbn [andb].
      rewrite (split_dc_no_dc B []) by exact HB. reflexivity.
    + rewrite no_dc_cons2 in HA. apply andb_true_iff in HA. destruct HA as [H1 H2]. apply negb_true_iff in H1.
      change ((c :: d :: r') ++ Std6.dcolon ++ B) with (c :: d :: (r' ++ Std6.dcolon ++ B)).
      rewrite split_dc_cons2, H1.
      change (d :: r' ++ Std6.dcolon ++ B) with ((d :: r') ++ Std6.dcolon ++ B).
      rewrite IH; [|exact H2|eapply last_not_colon_tail; eauto|exact HB|exact HF].
      cbn [rev]. now rewrite <- app_assoc. Qed.

Lemma contains_dc_mid A B : contains_dc_chars (A ++ Std6.dcolon ++ B) = true.
Proof. induction A as [|c r IH].
  - reflexivity.
  - destruct r as [|d r'].
    + change ([c] ++ Std6.dcolon ++ B) with (c :: ch_colon :: ch_colon :: B).
      rewrite contains_dc_cons2, contains_dc_cons2, is_colon_colon. cbn [andb]. apply orb_true_r.
    + change ((c :: d :: r') ++ Std6.dcolon ++ B) with (c :: d :: (r' ++ Std6.dcolon ++ B)).
      rewrite contains_dc_cons2. change (d :: r' ++ Std6.dcolon ++ B) with ((d :: r') ++ Std6.dcolon ++ B).
      rewrite IH. apply orb_true_r. Qed.

(* joins of good tokens *)
Lemma join_colon_cons t u r : Std6.join_colon (t :: u :: r) = t ++ ch_colon :: Std6.join_colon (u :: r).
Proof. reflexivity. Qed.

Lemma no_dc_app_colon t l : existsb (ascii_eqb ch_colon) t = false -> t <> [] -> first_not_colon l -> no_dc l = true ->
  no_dc (t ++ ch_colon :: l) = true.
Proof. induction t as [|c r IH]; intros Ht Hne HF HL; [congruence|].
  cbn [existsb] in Ht. apply orb_false_iff in Ht. destruct Ht as [Hc Hr]. rewrite ascii_eqb_sym in Hc.
  destruct r as [|d r'].
  - change ([c] ++ ch_colon :: l) with (c :: ch_colon :: l). rewrite no_dc_cons2. unfold is_colon at 1. rewrite Hc. cbn [andb negb].
    destruct l as [|x l']; [reflexivity|]. rewrite no_dc_cons2.
    rewrite (HF x l' eq_refl). rewrite andb_false_r. cbn [negb andb]. exact HL.
  - change ((c :: d :: r') ++ ch_colon :: l) with (c :: d :: (r' ++ ch_colon :: l)).
    rewrite no_dc_cons2. unfold is_colon at 1. rewrite Hc. cbn [andb negb].
    change (d :: r' ++ ch_colon :: l) with ((d :: r') ++ ch_colon :: l). apply IH; auto. discriminate. Qed.

Lemma no_dc_no_colon t : existsb (ascii_eqb ch_colon) t = false -> no_dc t = true.
Proof. induction t as [|c r IH]; intros H; [reflexivity|]. cbn [existsb] in H. apply orb_false_iff in H.
  destruct H as [Hc Hr]. rewrite ascii_eqb_sym in Hc. destruct r; [reflexivity|]. rewrite no_dc_cons2. unfold is_colon at 1.
  rewrite Hc. cbn [andb negb]. now apply IH. Qed.

Lemma good_first t : good_tok t -> first_not_colon t.
Proof. intros [Hne Hc] x r E. subst t. cbn [existsb] in Hc. apply orb_false_iff in Hc. destruct Hc as [Hc _].
  unfold is_colon. now rewrite ascii_eqb_sym. Qed.

Lemma good_last t : good_tok t -> last_not_colon t.
Proof. intros [Hne Hc] x r E. assert (In x t) by (apply in_rev; rewrite E; now left).
  unfold is_colon. destruct (ascii_eqb x ch_colon) eqn:Q; [|reflexivity]. apply ascii_eqb_eq in Q. subst x.
  assert (existsb (ascii_eqb ch_colon) t = true) by (apply existsb_exists; exists ch_colon; split; [auto|apply ascii_eqb_refl]).
  congruence. Qed.

Lemma join_colon_first toks t r : toks = t :: r -> good_tok t -> first_not_colon (Std6.join_colon toks).
Proof. intros -> G x q E. destruct r as [|u r'].
  - cbn in E. eapply good_first; eauto.
  - rewrite join_colon_cons in E. destruct t as [|c t']; [destruct G; congruence|].
    cbn in E. injection E as <- _. eapply good_first; eauto. Qed.

Lemma join_colon_no_dc toks : Forall good_tok toks -> no_dc (Std6.join_colon toks) = true.
Proof. induction toks as [|t r IH]; intros HF; [reflexivity|]. inversion HF as [|? ? G HR]; subst.
  destruct r as [|u r'].
  - cbn. apply no_dc_no_colon. apply G.
  - rewrite join_colon_cons. apply no_dc_app_colon; try apply G; [|now apply IH].
    inversion HR; subst. eapply join_colon_first; eauto. Qed.

Lemma join_colon_nonempty t r : t <> [] -> Std6.join_colon (t :: r) <> [].
Proof. intros Ht. destruct r; [exact Ht|]. rewrite join_colon_cons. destruct t; [congruence|discriminate]. Qed.

Lemma rev_last_app {A} (l : list A) x : rev (l ++ [x]) = x :: rev l.
Proof. now rewrite rev_app_distr. Qed.

Lemma join_colon_last toks : toks <> [] -> Forall good_tok toks -> last_not_colon (Std6.join_colon toks).
Proof. induction toks as [|t r IH]; intros Hne HF; [congruence|]. inversion HF as [|? ? G HR]; subst.
  destruct r as [|u r'].
  - cbn. now apply good_last.
  - rewrite join_colon_cons. intros x q E.
    assert (L := IH ltac:(discriminate) HR).
    replace (t ++ ch_colon :: Std6.join_colon (u :: r')) with ((t ++ [ch_colon]) ++ Std6.join_colon (u :: r')) in E
      by (rewrite <- app_assoc; reflexivity).
    rewrite rev_app_distr in E.
    destruct (rev (Std6.join_colon (u :: r'))) as [|y z] eqn:R.
    + exfalso. assert (Std6.join_colon (u :: r') = []) by (apply (f_equal (@rev ascii)) in R; rewrite rev_involutive in R; exact R).
      inversion HR as [|? ? Gu _]; subst. revert H. apply join_colon_nonempty. apply Gu.
    + cbn [app] in E. injection E as <- _. eapply L; eauto. Qed.

Lemma last_not_colon_nil : last_not_colon [].
Proof. intros x r E. discriminate. Qed.
Lemma first_not_colon_nil : first_not_colon [].
Proof. intros x r E. discriminate. Qed.

Lemma join_colon_last' toks : Forall good_tok toks -> last_not_colon (Std6.join_colon toks).
Proof. destruct toks; intros; [apply last_not_colon_nil|apply join_colon_last; [discriminate|assumption]]. Qed.
Lemma join_colon_first' toks : Forall good_tok toks -> first_not_colon (Std6.join_colon toks).
Proof. destruct toks as [|t r]; intros HF; [apply first_not_colon_nil|]. inversion HF; subst. eapply join_colon_first; eauto. Qed.

Lemma colon_toks_join toks : Forall good_tok toks -> colon_toks (Std6.join_colon toks) = toks.
Proof. intros HF. destruct toks as [|t r]; [reflexivity|]. unfold colon_toks.
  assert (Std6.join_colon (t :: r) <> []).
  { inversion HF as [|? ? G _]; subst. apply join_colon_nonempty, G. }
  destruct (Std6.join_colon (t :: r)) as [|x0 l0] eqn:E; [congruence|]. cbn [is_nil]. rewrite <- E.
  apply split_chars_join; [discriminate|]. eapply Forall_impl; [|exact HF]. intros a0 G. apply G. Qed.

Lemma split_colon_join toks : toks <> [] -> Forall good_tok toks ->
  split_chars ch_colon (Std6.join_colon toks) [] = toks.
Proof. intros Hne HF. apply split_chars_join; [exact Hne|]. eapply Forall_impl; [|exact HF]. intros a0 G. apply G. Qed.
