(* Proofs/Code_C15.v — lemmas for Props/C15_code.v: the C15 theorems stated about the definitions regenerated from the source
   (Gen/pysrc_strategy_gen.v, pysrc_strategy_bits_gen.v, pysrc_ipv4_gen.v, pysrc_ipv6_gen.v, pysrc_eui48_gen.v, pysrc_eui64_gen.v,
   pysrc_eui48b_gen.v, pysrc_eui64b_gen.v, pysrc_rfc1924_gen.v, pysrc_ipviews_gen.v).  Every proof is: rewrite with the source
   tie (Proofs/GenOk_Src_C15*.v, GenOk_Src_C08*.v, the coherence of the two copies of the word functions), apply the model theorem. *)
From Coq Require Import String Ascii.
From NV Require Import Base.Tac Base.PyVal Base.Bits Base.PyStr Base.PyStrFacts Model.Ip Model.Codec Gen.codec_gen
  Proofs.C15_Digits Proofs.C15 Proofs.GenOk_C15 Proofs.C15_Arpa Proofs.C15_Dec Proofs.C15_B85 Proofs.C15_Main.
From NV Require Model.Eui Proofs.Coherence_Text.
From NV Require Import Model.SrcPrelude Model.SrcPreludeStr Model.SrcPreludeGlob Model.SrcPreludeB85 Model.SrcPreludeText
  Model.SrcPreludeSRCE Model.SrcPreludeViews Model.SrcPreludeEui Model.SrcPreludeEui2
  Gen.pysrc_gen Gen.pysrc_strategy_gen Gen.pysrc_strategy_bits_gen Gen.pysrc_ipv4_gen Gen.pysrc_ipv6_gen
  Gen.pysrc_eui48_gen Gen.pysrc_eui64_gen Gen.pysrc_eui48b_gen Gen.pysrc_eui64b_gen Gen.pysrc_rfc1924_gen Gen.pysrc_ipviews_gen
  Proofs.GenOk_Src_C15 Proofs.GenOk_Src_C15_ip Proofs.GenOk_Src_C15_b85 Proofs.GenOk_Src_C15_views
  Proofs.GenOk_Src_C08 Proofs.GenOk_Src_C08_b.
From NV Require Proofs.GenOk_Src_C01_text.
Import ListNotations.
Close Scope string_scope.
Open Scope Z_scope.

(* ------------------------------------------------------------------------------------------------ *)
(* The codec of one address family AS REGENERATED FROM ITS STRATEGY MODULE: the eight module-level functions the
   property is about.  A packed value is the list of its bytes; int_to_bits takes the optional word_sep argument. *)
Record codec := {
  c_int_to_words : Z -> outcome (list Z);
  c_words_to_int : list Z -> outcome Z;
  c_int_to_bits : Z -> option string -> outcome string;
  c_bits_to_int : string -> outcome Z;
  c_int_to_bin : Z -> outcome string;
  c_bin_to_int : string -> outcome Z;
  c_int_to_packed : Z -> outcome (list Z);
  c_packed_to_int : list Z -> outcome Z }.

(* netaddr/strategy/ipv4.py, ipv6.py: the module functions (the module constants are their dialect) *)
Definition src_codec_ipv4 : codec := {|
  c_int_to_words := src_ipv4_int_to_words; c_words_to_int := src_ipv4_words_to_int;
  c_int_to_bits := src_ipv4_int_to_bits; c_bits_to_int := src_ipv4_bits_to_int;
  c_int_to_bin := src_ipv4_int_to_bin; c_bin_to_int := src_ipv4_bin_to_int;
  c_int_to_packed := src_ipv4_int_to_packed; c_packed_to_int := src_ipv4_packed_to_int |}.
Definition src_codec_ipv6 : codec := {|
  c_int_to_words := fun v => src_ipv6_int_to_words v None None; c_words_to_int := src_ipv6_words_to_int;
  c_int_to_bits := src_ipv6_int_to_bits; c_bits_to_int := src_ipv6_bits_to_int;
  c_int_to_bin := src_ipv6_int_to_bin; c_bin_to_int := src_ipv6_bin_to_int;
  c_int_to_packed := src_ipv6_int_to_packed; c_packed_to_int := src_ipv6_packed_to_int |}.
(* netaddr/strategy/eui48.py, eui64.py: the module functions called with the dialect class r (its attribute record; the word
   functions of the first EUI unit see a dialect as the pair (word_size, num_words)) *)
Definition src_codec_eui48 (r : Eui.dialect) : codec := {|
  c_int_to_words := fun v => src_eui48_int_to_words v (Some (Eui.word_size r, Eui.num_words r));
  c_words_to_int := fun ws => src_eui48_words_to_int ws (Some (Eui.word_size r, Eui.num_words r));
  c_int_to_bits := fun v sep => src_eui48_int_to_bits v (Some r) sep;
  c_bits_to_int := fun s => src_eui48_bits_to_int s (Some r);
  c_int_to_bin := src_eui48_int_to_bin; c_bin_to_int := src_eui48_bin_to_int;
  c_int_to_packed := src_eui48_int_to_packed; c_packed_to_int := src_eui48_packed_to_int |}.
Definition src_codec_eui64 (r : Eui.dialect) : codec := {|
  c_int_to_words := fun v => src_eui64_int_to_words v (Some (Eui.word_size r, Eui.num_words r));
  c_words_to_int := fun ws => src_eui64_words_to_int ws (Some (Eui.word_size r, Eui.num_words r));
  c_int_to_bits := fun v sep => src_eui64_int_to_bits v (Some r) sep;
  c_bits_to_int := fun s => src_eui64_bits_to_int s (Some r);
  c_int_to_bin := src_eui64_int_to_bin; c_bin_to_int := src_eui64_bin_to_int;
  c_int_to_packed := src_eui64_int_to_packed; c_packed_to_int := src_eui64_packed_to_int |}.

(* the dialect class r has the attributes of the table row d *)
Definition rec_of_row (r : Eui.dialect) (d : dialect) : Prop :=
  Eui.word_size r = d_ws d /\ Eui.num_words r = d_nw d /\ Eui.word_sep r = d_sep d.

(* `src_codec fam d c`: c is the regenerated codec of family fam read with the table row d *)
Inductive src_codec : string -> dialect -> codec -> Prop :=
| SC_ipv4 : src_codec "ipv4" row4 src_codec_ipv4
| SC_ipv6 : src_codec "ipv6" row6 src_codec_ipv6
| SC_eui48 r d : rec_of_row r d -> src_codec "eui48" d (src_codec_eui48 r)
| SC_eui64 r d : rec_of_row r d -> src_codec "eui64" d (src_codec_eui64 r).

(* what the source ties give: each generated function is the model's wrapper *)
Definition codec_tied (fam : string) (d dflt : dialect) (c : codec) : Prop :=
  (forall v, c_int_to_words c v = m_int_to_words fam d v) /\
  (forall ws, c_words_to_int c ws = m_words_to_int fam d ws) /\
  (forall v sep, c_int_to_bits c v sep = ip_bits d v sep) /\
  (forall s, c_bits_to_int c s = m_bits_to_int d s) /\
  (forall v, c_int_to_bin c v = m_int_to_bin d v) /\
  (forall s, c_bin_to_int c s = m_bin_to_int d s) /\
  (forall v, c_int_to_packed c v = m_int_to_packed fam dflt v) /\
  (forall p, c_packed_to_int c p = m_packed_to_int fam p).

Ltac split_conj := repeat match goal with |- _ /\ _ => split end.

Lemma builtin4 : builtin "ipv4" "" row4 row4.
Proof. split; [exact find_row4 | exact find_row4]. Qed.
Lemma builtin6 : builtin "ipv6" "" row6 row6.
Proof. split; [exact find_row6 | exact find_row6]. Qed.

Lemma src_codec_tied fam name d dflt c : src_codec fam d c -> builtin fam name d dflt -> codec_tied fam d dflt c.
Proof.
  intros HC HB. pose proof (builtin_ok _ _ _ _ HB) as (Hw & Hws & Hnw & Hsep & Hfam).
  destruct HC as [| | r d (R1 & R2 & R3) | r d (R1 & R2 & R3)]; unfold codec_tied;
    cbn [c_int_to_words c_words_to_int c_int_to_bits c_bits_to_int c_int_to_bin c_bin_to_int c_int_to_packed c_packed_to_int
         src_codec_ipv4 src_codec_ipv6 src_codec_eui48 src_codec_eui64].
  - destruct HB as [_ HD]. change (default_name "ipv4") with ""%string in HD. rewrite find_row4 in HD. injection HD as <-.
    split_conj; intros.
    + apply src_ipv4_int_to_words_ok. + apply src_ipv4_words_to_int_ok. + apply src_ipv4_int_to_bits_ok.
    + apply src_ipv4_bits_to_int_ok. + apply src_ipv4_int_to_bin_ok. + apply src_ipv4_bin_to_int_ok.
    + apply C15_tie_ip_ok. + apply C15_tie_ip_ok.
  - destruct HB as [_ HD]. change (default_name "ipv6") with ""%string in HD. rewrite find_row6 in HD. injection HD as <-.
    split_conj; intros.
    + apply src_ipv6_int_to_words_default_ok. + apply C15_tie_ip_ok. + apply C15_tie_ip_ok.
    + apply C15_tie_ip_ok. + apply C15_tie_ip_ok. + apply C15_tie_ip_ok.
    + apply C15_tie_ip_ok. + apply C15_tie_ip_ok.
  - assert (W48 : d_width d = 48).
    { destruct Hfam as [(E & _)|[(E & _)|[(_ & E)|(E & _)]]]; try discriminate E; exact E. }
    destruct C08_tie_ok as (_ & T & _). destruct (T (d_ws d) (d_nw d) (Z.lt_le_incl _ _ Hws)) as (_ & Tw & Ti & _).
    destruct C08_tie_b_ok as (_ & TP & TB & TN & TS & _).
    rewrite R1, R2. split_conj; intros.
    + rewrite Tw by lia. rewrite Coherence_Text.coh_int_to_words by lia. reflexivity.
    + rewrite Ti. rewrite Coherence_Text.coh_words_to_int by lia. reflexivity.
    + destruct (TS v (Some r) sep) as (-> & _). cbn [GenOk_Src_C08_b.dflt]. rewrite R1, R2.
      rewrite Coherence_Text.coh_int_to_bits by lia. unfold ip_bits, sep_or. rewrite R3. reflexivity.
    + destruct (TB s (Some r)) as (_ & -> & _). cbn [GenOk_Src_C08_b.dflt]. unfold m_bits_to_int. rewrite R3, W48. reflexivity.
    + destruct (TN ""%string None v) as (_ & _ & -> & _). unfold m_int_to_bin. rewrite W48. reflexivity.
    + destruct (TN s None 0) as (_ & -> & _). unfold m_bin_to_int. rewrite W48. reflexivity.
    + destruct (TP v []) as (-> & _). reflexivity.
    + destruct (TP 0 p) as (_ & -> & _). reflexivity.
  - assert (W64 : d_width d = 64).
    { destruct Hfam as [(E & _)|[(E & _)|[(E & _)|(_ & E)]]]; try discriminate E; exact E. }
    destruct (builtin_dflt64 _ _ _ HB) as (D1 & D2).
    destruct C08_tie_ok as (_ & T & _). destruct (T (d_ws d) (d_nw d) (Z.lt_le_incl _ _ Hws)) as (_ & _ & _ & _ & Tw & Ti).
    destruct C08_tie_b_ok as (_ & TP & TB & TN & TS & _).
    rewrite R1, R2. split_conj; intros.
    + rewrite Tw by lia. rewrite Coherence_Text.coh_int_to_words by lia. reflexivity.
    + rewrite Ti. rewrite Coherence_Text.coh_words_to_int by lia. reflexivity.
    + destruct (TS v (Some r) sep) as (_ & ->). cbn [GenOk_Src_C08_b.dflt]. rewrite R1, R2.
      rewrite Coherence_Text.coh_int_to_bits by lia. unfold ip_bits, sep_or. rewrite R3. reflexivity.
    + destruct (TB s (Some r)) as (_ & _ & _ & ->). cbn [GenOk_Src_C08_b.dflt]. unfold m_bits_to_int. rewrite R3, W64. reflexivity.
    + destruct (TN ""%string None v) as (_ & _ & _ & _ & _ & ->). unfold m_int_to_bin. rewrite W64. reflexivity.
    + destruct (TN s None 0) as (_ & _ & _ & _ & -> & _). unfold m_bin_to_int. rewrite W64. reflexivity.
    + destruct (TP v []) as (_ & _ & _ & TP4). rewrite (TP4 dflt D1 D2). reflexivity.
    + destruct (TP 0 p) as (_ & _ & -> & _). reflexivity.
Qed.

(* ------------------------------------------------------------------------------------------------ *)
(* C15_encode_spec, C15_decode_encode, C15_decode_strict about the regenerated codec of each family *)
Definition encode_spec_code_stmt : Prop :=
  forall fam name d dflt c v, src_codec fam d c -> builtin fam name d dflt -> 0 <= v < 2 ^ d_width d ->
  let ws := d_ws d in let nw := d_nw d in let w := d_width d in
  c_int_to_words c v = Ok (spec_words ws nw v) /\
  c_int_to_bits c v None = Ok (spec_bits ws nw (d_sep d) v) /\
  (forall sep, c_int_to_bits c v (Some sep) = Ok (spec_bits ws nw sep v)) /\
  chars (strip_sep (d_sep d) (spec_bits ws nw (d_sep d) v)) = spec_bin_fixed (Z.to_nat w) v /\
  c_int_to_bin c v = Ok (spec_bin v) /\
  c_int_to_packed c v = Ok (spec_packed w v).

Lemma encode_spec_code : encode_spec_code_stmt.
Proof.
  intros fam name d dflt c v HC HB Hv. pose proof (src_codec_tied _ _ _ _ _ HC HB) as (T1 & T2 & T3 & T4 & T5 & T6 & T7 & T8).
  pose proof (encode_spec fam name d dflt v HB Hv) as (E1 & E2 & E3 & E4 & E5 & E6 & E7 & _).
  cbv zeta. rewrite T1, T5, T7, T3. repeat split; try assumption. intros sep. rewrite T3. apply E4.
Qed.

Definition decode_encode_code_stmt : Prop :=
  forall fam name d dflt c v, src_codec fam d c -> builtin fam name d dflt -> 0 <= v < 2 ^ d_width d ->
  (do x <- c_int_to_words c v; c_words_to_int c x) = Ok v /\
  (do x <- c_int_to_bits c v None; c_bits_to_int c x) = Ok v /\
  (do x <- c_int_to_bin c v; c_bin_to_int c x) = Ok v /\
  (do x <- c_int_to_packed c v; c_packed_to_int c x) = Ok v.

Lemma decode_encode_code : decode_encode_code_stmt.
Proof.
  intros fam name d dflt c v HC HB Hv. pose proof (src_codec_tied _ _ _ _ _ HC HB) as (T1 & T2 & T3 & T4 & T5 & T6 & T7 & T8).
  pose proof (decode_encode fam name d dflt v HB Hv) as (E1 & E2 & E3 & E4).
  pose proof (encode_spec fam name d dflt v HB Hv) as (_ & _ & _ & _ & _ & _ & P7 & _). cbv zeta in P7.
  rewrite T1, T3, T5, T7. repeat split.
  - destruct (m_int_to_words fam d v); [cbn [bind] in *; now rewrite T2 | exact E1].
  - change (ip_bits d v None) with (m_int_to_bits d v). destruct (m_int_to_bits d v); [cbn [bind] in *; now rewrite T4 | exact E2].
  - destruct (m_int_to_bin d v); [cbn [bind] in *; now rewrite T6 | exact E3].
  - assert (Hb : bytes_ok (spec_packed (d_width d) v)) by (rewrite spec_packed_eq; apply digits_be_range; lia).
    rewrite P7 in *. cbn [bind] in *. rewrite T8. rewrite bytes_roundtrip in E4 by exact Hb. exact E4.
Qed.

Definition decode_strict_code_stmt : Prop :=
  forall fam name d dflt c, src_codec fam d c -> builtin fam name d dflt ->
  let ws := d_ws d in let nw := d_nw d in let w := d_width d in
  (forall words v, c_words_to_int c words = Ok v -> words = spec_words ws nw v /\ 0 <= v < 2 ^ w) /\
  (forall words, ~ (Z.of_nat (List.length words) = nw /\ Forall (fun x => 0 <= x < 2 ^ ws) words) ->
                 c_words_to_int c words = Raise ValueError) /\
  (forall s v, c_bits_to_int c s = Ok v ->
               chars (strip_sep (d_sep d) s) = spec_bin_fixed (Z.to_nat w) v /\ 0 <= v < 2 ^ w) /\
  (forall s, ~ (str_len (strip_sep (d_sep d) s) = w /\
                Forall (fun c => c = "0"%char \/ c = "1"%char) (chars (strip_sep (d_sep d) s))) ->
             c_bits_to_int c s = Raise ValueError) /\
  (forall s v, c_bin_to_int c s = Ok v ->
               exists t, s = ("0b" ++ t)%string /\ 1 <= str_len t <= w /\
                         chars t = spec_bin_fixed (String.length t) v /\ 0 <= v < 2 ^ w) /\
  (forall s, ~ (exists t, s = ("0b" ++ t)%string /\ 1 <= str_len t <= w /\
                          Forall (fun c => c = "0"%char \/ c = "1"%char) (chars t)) ->
             c_bin_to_int c s = Raise ValueError) /\
  (forall s v, c_packed_to_int c (bytes_of_str s) = Ok v -> bytes_of_str s = spec_packed w v /\ 0 <= v < 2 ^ w) /\
  (forall s, String.length s <> Z.to_nat (w / 8) -> c_packed_to_int c (bytes_of_str s) = Raise StructError).

Lemma decode_strict_code : decode_strict_code_stmt.
Proof.
  intros fam name d dflt c HC HB. pose proof (src_codec_tied _ _ _ _ _ HC HB) as (T1 & T2 & T3 & T4 & T5 & T6 & T7 & T8).
  pose proof (decode_strict fam name d dflt HB) as (E1 & E2 & E3 & E4 & E5 & E6 & E7 & E8). cbv zeta in *.
  split_conj.
  - intros words v. rewrite T2. apply E1.
  - intros words. rewrite T2. apply E2.
  - intros s v. rewrite T4. apply E3.
  - intros s. rewrite T4. apply E4.
  - intros s v. rewrite T6. apply E5.
  - intros s. rewrite T6. apply E6.
  - intros s v. rewrite T8. apply E7.
  - intros s. rewrite T8. apply E8.
Qed.

(* ------------------------------------------------------------------------------------------------ *)
(* the IPAddress accessors (netaddr/ip/__init__.py): object state = (version, width, value); the strategy module's functions
   they call are prelude symbols in that unit (= the hand models, tied to the module text by the codec lemmas above) *)
Definition accessors_code_stmt : Prop :=
  forall ver d v, find_dialect (py_mod_fam ver) "" = Some d -> 0 <= v < 2 ^ d_width d ->
  let ws := d_ws d in let nw := d_nw d in let w := d_width d in
  src_IPAddress_words ver w v = Ok (spec_words ws nw v) /\
  src_IPAddress_bits ver w v None = Ok (spec_bits ws nw (d_sep d) v) /\
  (forall sep, src_IPAddress_bits ver w v (Some sep) = Ok (spec_bits ws nw sep v)) /\
  src_IPAddress_bin ver w v = Ok (spec_bin v) /\
  src_IPAddress_packed ver w v = Ok (spec_packed w v) /\
  src_IPAddress_bytes ver w v = Ok (spec_packed w v) /\
  (ver = 4 -> src_IPAddress_reverse_dns ver w v = Ok (spec_arpa4 v)) /\
  (ver = 6 -> src_IPAddress_reverse_dns ver w v = Ok (spec_arpa6 v)).

Lemma accessors_code : accessors_code_stmt.
Proof.
  intros ver d v Hd Hv.
  assert (HB : builtin (py_mod_fam ver) "" d d).
  { split; [exact Hd|]. unfold py_mod_fam in *. destruct (ver =? 4); exact Hd. }
  pose proof (encode_spec _ _ _ _ v HB Hv) as (E1 & E2 & E3 & E4 & E5 & E6 & E7 & E8 & E9 & E10). cbv zeta in *.
  destruct C15_views_tie_ok as (T & _). destruct (T ver d Hd (d_width d) v None) as (T1 & T2 & T3 & T4 & T5 & T6).
  rewrite T1, T2, T3, T4, T5, (T6 eq_refl). split_conj; try assumption.
  - intros sep. destruct (T ver d Hd (d_width d) v (Some sep)) as (-> & _). apply E4.
  - intros ->. apply E9. reflexivity.
  - intros ->. apply E10. reflexivity.
Qed.

(* ------------------------------------------------------------------------------------------------ *)
(* RFC 1924 (netaddr/ip/rfc1924.py); fmt = str() of the IPv6 address object base85_to_ipv6 builds (property C01), a parameter *)
Definition base85_code_stmt : Prop :=
  (forall v, 0 <= v < 2 ^ 128 -> src_ipv6_to_base85 v = Ok (spec_base85 v)) /\
  (forall fmt v, 0 <= v < 2 ^ 128 -> (do s <- src_ipv6_to_base85 v; src_base85_to_ipv6 fmt s) = Ok (fmt (6, v))) /\
  (forall fmt s t, src_base85_to_ipv6 fmt s = Ok t -> exists v, t = fmt (6, v) /\ s = spec_base85 v /\ 0 <= v < 2 ^ 128) /\
  (forall fmt s, String.length s <> 20%nat -> src_base85_to_ipv6 fmt s = Raise AddrFormatError) /\
  (forall fmt s c, In c (chars s) -> ~ In c (chars rfc1924_alphabet) -> exists e, src_base85_to_ipv6 fmt s = Raise e).

Lemma base85_code : base85_code_stmt.
Proof.
  destruct base85_all as (B1 & B2 & B3 & B4 & B5). unfold base85_code_stmt. split_conj.
  - intros v Hv. rewrite src_ipv6_to_base85_ok. now apply B1.
  - intros fmt v Hv. rewrite src_ipv6_to_base85_ok. specialize (B2 v Hv). destruct (ipv6_to_base85 v) as [s|e]; [|discriminate B2].
    cbn [bind] in *. rewrite src_base85_to_ipv6_ok, B2. reflexivity.
  - intros fmt s t. rewrite src_base85_to_ipv6_ok. destruct (base85_to_int s) as [v|e] eqn:E; [|discriminate].
    cbn [bind]. intros [= <-]. exists v. destruct (B3 s v E). auto.
  - intros fmt s Hs. rewrite src_base85_to_ipv6_ok, (B4 s Hs). reflexivity.
  - intros fmt s c H1 H2. rewrite src_base85_to_ipv6_ok. destruct (B5 s c H1 H2) as [e ->]. exists e. reflexivity.
Qed.

Lemma base85_decoder_code fmt s :
  src_base85_to_ipv6 fmt s =
  if negb (Nat.eqb (String.length s) 20) then Raise AddrFormatError
  else if negb (forallb b85_known (chars s)) then Raise KeyError
  else let v := from_digits 85 (map b85_idx (chars s)) in
       if v <? 2 ^ 128 then Ok (fmt (6, v)) else Raise AddrFormatError.
Proof.
  rewrite src_base85_to_ipv6_ok, base85_to_int_char.
  destruct (negb (Nat.eqb (String.length s) 20)); [reflexivity|].
  destruct (negb (forallb b85_known (chars s))); [reflexivity|]. cbv zeta.
  destruct (from_digits 85 (map b85_idx (chars s)) <? 2 ^ 128); reflexivity.
Qed.

(* ------------------------------------------------------------------------------------------------ *)
(* the generic codecs of netaddr/strategy/__init__.py, any word size / count / separator *)
Definition generic_words_code_stmt : Prop := forall ws nw, 0 <= ws -> 0 <= nw ->
  (forall v, 0 <= v < 2 ^ (ws * nw) -> src_strategy_int_to_words v ws nw = Ok (spec_words ws nw v)) /\
  (forall v, ~ (0 <= v < 2 ^ (nw * ws)) -> src_strategy_int_to_words v ws nw = Raise IndexError) /\
  (forall v, 0 <= v < 2 ^ (ws * nw) -> src_strategy_words_to_int (spec_words ws nw v) ws nw = Ok v) /\
  (forall words v, src_strategy_words_to_int words ws nw = Ok v -> words = spec_words ws nw v /\ 0 <= v < 2 ^ (ws * nw)) /\
  (forall words, src_strategy_words_to_int words ws nw =
                 (do ok <- src_strategy_valid_words words ws nw;
                  if ok : bool then Ok (from_digits (2 ^ ws) words) else Raise ValueError)) /\
  (forall words, src_strategy_valid_words words ws nw = Ok true <->
                 Z.of_nat (List.length words) = nw /\ Forall (fun d => 0 <= d < 2 ^ ws) words) /\
  (forall words, exists b, src_strategy_valid_words words ws nw = Ok b).

Lemma generic_words_code : generic_words_code_stmt.
Proof.
  intros ws nw Hws Hnw. split_conj.
  - intros v H. rewrite src_int_to_words_ok by assumption. now apply int_to_words_spec.
  - intros v H. rewrite src_int_to_words_ok by assumption. now apply int_to_words_raises.
  - intros v H. rewrite src_words_to_int_ok by assumption. now apply words_to_int_roundtrip.
  - intros words v. rewrite src_words_to_int_ok by assumption. now apply words_to_int_strict.
  - intros words. rewrite src_words_to_int_ok, src_valid_words_ok by assumption. cbn [bind]. now apply words_to_int_char.
  - intros words. rewrite src_valid_words_ok by assumption. rewrite <- valid_words_iff. split; [now intros [= ->] | now intros ->].
  - intros words. rewrite src_valid_words_ok by assumption. eexists; reflexivity.
Qed.

Definition generic_bits_code_stmt : Prop := forall ws nw sep, 0 < ws -> 0 < nw ->
  (forall v, 0 <= v < 2 ^ (ws * nw) -> src_strategy_int_to_bits v ws nw sep = Ok (spec_bits ws nw sep v)) /\
  (forall s, src_strategy_bits_to_int s (ws * nw) sep =
             if bits_wf (strip_sep sep s) (ws * nw) then Ok (from_digits 2 (map bit_val (chars (strip_sep sep s))))
             else Raise ValueError) /\
  (forall s, src_strategy_valid_bits s (ws * nw) sep = Ok (bits_wf (strip_sep sep s) (ws * nw))) /\
  (forall s v, src_strategy_bits_to_int s (ws * nw) sep = Ok v ->
               chars (strip_sep sep s) = spec_bin_fixed (Z.to_nat (ws * nw)) v /\ 0 <= v < 2 ^ (ws * nw)) /\
  (sep_ok sep = true -> forall v, 0 <= v < 2 ^ (ws * nw) ->
     (do s <- src_strategy_int_to_bits v ws nw sep; src_strategy_bits_to_int s (ws * nw) sep) = Ok v).

Lemma generic_bits_code : generic_bits_code_stmt.
Proof.
  intros ws nw sep Hws Hnw. pose proof (Z.mul_pos_pos _ _ Hws Hnw) as Hw.
  assert (TB : forall v, src_strategy_int_to_bits v ws nw sep = int_to_bits v ws nw sep).
  { intros v. apply C15_tie_ip_ok; lia. }
  split_conj.
  - intros v H. rewrite TB. apply int_to_bits_spec; [assumption|lia|assumption].
  - intros s. rewrite src_bits_to_int_ok. now apply bits_to_int_char.
  - intros s. rewrite src_valid_bits_ok. f_equal. now apply valid_bits_char.
  - intros s v. rewrite src_bits_to_int_ok. now apply bits_to_int_strict.
  - intros Hsep v H. rewrite TB, int_to_bits_spec by (assumption || lia). cbn [bind].
    rewrite src_bits_to_int_ok. now apply bits_to_int_roundtrip.
Qed.

Definition generic_bin_code_stmt : Prop := forall width, 0 < width ->
  (forall v, 0 <= v < 2 ^ width -> src_strategy_int_to_bin v width = Ok (spec_bin v)) /\
  (forall v, 0 <= v < 2 ^ width -> (do s <- src_strategy_int_to_bin v width; src_strategy_bin_to_int s width) = Ok v) /\
  (forall s, src_strategy_bin_to_int s width =
             if bin_wf s width then Ok (from_digits 2 (map bit_val (chars (drop2 s)))) else Raise ValueError) /\
  (forall s, src_strategy_valid_bin s width = Ok (bin_wf s width)).

Lemma generic_bin_code : generic_bin_code_stmt.
Proof.
  intros width Hw. split_conj.
  - intros v H. rewrite src_int_to_bin_ok. now apply int_to_bin_spec.
  - intros v H. rewrite src_int_to_bin_ok, int_to_bin_spec by assumption. cbn [bind].
    rewrite src_bin_to_int_ok by lia. now apply bin_to_int_roundtrip.
  - intros s. rewrite src_bin_to_int_ok by lia. apply bin_to_int_char.
  - intros s. rewrite src_valid_bin_ok by lia. f_equal. apply valid_bin_char.
Qed.

(* the fuelled loops never run out of fuel on values of the family; the regenerated table *)
Lemma terminates_code :
  (forall ws nw sep v, 0 < ws -> 0 < nw -> 0 <= v < 2 ^ (ws * nw) -> src_strategy_int_to_bits v ws nw sep <> Raise OutOfFuel) /\
  (forall v, 0 <= v < 2 ^ 128 -> src_ipv6_to_base85 v <> Raise OutOfFuel).
Proof.
  split.
  - intros ws nw sep v Hws Hnw Hv. destruct (generic_bits_code ws nw sep Hws Hnw) as (E & _). rewrite (E v Hv). discriminate.
  - intros v Hv. rewrite src_ipv6_to_base85_ok. now apply ipv6_to_base85_no_fuel.
Qed.

Lemma bytes_to_bits_code :
  src_strategy_bytes_to_bits = Ok (map (fun n => str_of (spec_bin_fixed 8 (Z.of_nat n))) (seq 0 256)).
Proof.
  destruct C15_tie_ip_ok as (_ & (_ & ->) & _). apply f_equal. apply map_ext. intros n. now rewrite byte_bits_spec.
Qed.

(* int_to_arpa of both IP strategy modules (ipv6.int_to_arpa goes through ipv6.int_to_str with the verbose dialect, whence the
   back-end parameter: Platform = the oracle Std6 of Model/IpText.v, Fallback = netaddr.fbsocket) *)
Lemma arpa_code :
  (forall v, 0 <= v < 2 ^ 32 -> src_ipv4_int_to_arpa v = Ok (spec_arpa4 v)) /\
  (forall be v, 0 <= v < 2 ^ 128 -> src_ipv6_int_to_arpa be v = Ok (spec_arpa6 v)).
Proof.
  split.
  - intros v Hv. destruct C15_tie_ip_ok as (_ & _ & _ & T4 & _). destruct T4 as (_ & _ & _ & _ & _ & _ & _ & _ & _ & _ & _ & ->).
    pose proof (encode_spec _ _ row4 row4 v builtin4 Hv) as (_ & _ & _ & _ & _ & _ & _ & _ & E & _). now apply E.
  - intros be v Hv. rewrite GenOk_Src_C01_text.src_ipv6_int_to_arpa_ok.
    pose proof (encode_spec _ _ row6 row6 v builtin6 Hv) as (_ & _ & _ & _ & _ & _ & _ & _ & _ & E). now apply E.
Qed.
