(* Proofs/C08_spell.v — every accepted spelling yields its value (implicit and explicit version). *)
From Coq Require Import String Ascii.
From NV Require Import Base.Tac Base.PyVal Base.Bits Base.PyStr Base.PyStrFacts Model.Ip Model.Eui
                       Proofs.C08_words Proofs.C08_arith Proofs.C08_text.
Open Scope Z_scope.

Definition tok_ok (lo hi : nat) (t : list ascii) : Prop := hexs t /\ (lo <= length t <= hi)%nat.
(* the text: tokens joined by a one-character separator *)
Definition spell (sep : ascii) (toks : list (list ascii)) : string := str_of (join_chars [sep] toks).

(* ---- the pattern list evaluated on the shape (separator, token count, length test) only ---- *)
Definition shape_abs (p : pat) (sep : ascii) (len : nat) (ok : nat -> nat -> bool) : bool :=
  match p with
  | PGroups n lo hi sep' =>
      if ascii_eqb sep' sep then Nat.eqb len n && ok lo hi
      else if Nat.eqb len 1 then Nat.eqb 1 n && ok lo hi else false
  | PBare k => Nat.eqb len 1 && ok k k
  end.
Fixpoint first_abs (ps : list pat) (sep : ascii) (len : nat) (ok : nat -> nat -> bool) : bool :=
  match ps with [] => false | p :: r => if shape_abs p sep len ok then true else first_abs r sep len ok end.

Lemma shape_result_abs p sep toks :
  shape_result p sep toks =
    if shape_abs p sep (length toks) (fun lo hi => forallb (len_ok lo hi) toks) then Some (map str_of toks) else None.
Proof.
  destruct p as [n lo hi sep'|k]; unfold shape_result, shape_abs.
  - destruct (ascii_eqb sep' sep); [reflexivity|]. destruct (Nat.eqb (length toks) 1); reflexivity.
  - reflexivity.
Qed.

Lemma first_shape_abs ps sep toks :
  first_shape ps sep toks =
    if first_abs ps sep (length toks) (fun lo hi => forallb (len_ok lo hi) toks) then Some (map str_of toks) else None.
Proof.
  induction ps as [|p r IH]; [reflexivity|]. cbn [first_shape first_abs]. rewrite shape_result_abs.
  destruct (shape_abs p sep (length toks) _); [reflexivity|exact IH].
Qed.

Lemma tok_ok_forallb lo hi toks : Forall (tok_ok lo hi) toks -> forallb (len_ok lo hi) toks = true.
Proof.
  intros H. apply forallb_forall. intros t Ht. rewrite Forall_forall in H. destruct (H t Ht) as [_ L].
  unfold len_ok. apply andb_true_intro. split; apply Nat.leb_le; lia.
Qed.

Lemma tok_ok_hexs lo hi toks : Forall (tok_ok lo hi) toks -> Forall hexs toks.
Proof. apply Forall_impl. intros t [H _]. exact H. Qed.

Lemma tok_ok_parse lo hi k toks : (1 <= lo)%nat -> (hi <= k)%nat -> Forall (tok_ok lo hi) toks ->
  Forall (fun t => hexs t /\ t <> [] /\ (length t <= k)%nat) toks.
Proof.
  intros Hlo Hhi. apply Forall_impl. intros t [H L]. split; [exact H|]. split; [|lia].
  intros ->. cbn in L. lia.
Qed.

(* first_match on the text of a token list, through the abstract evaluation *)
Lemma first_match_spell ps sep toks : Forall pat_sep_ok ps -> good_sep sep -> toks <> [] -> Forall hexs toks ->
  first_match ps (chars (spell sep toks)) =
    if first_abs ps sep (length toks) (fun lo hi => forallb (len_ok lo hi) toks) then Some (map str_of toks) else None.
Proof.
  intros. unfold spell. rewrite chars_str_of, first_match_shape by assumption. apply first_shape_abs.
Qed.

Lemma good_colon : good_sep ":"%char. Proof. split; [reflexivity|discriminate]. Qed.
Lemma good_minus : good_sep "-"%char. Proof. split; [reflexivity|discriminate]. Qed.
Lemma good_dot : good_sep "."%char. Proof. split; [reflexivity|discriminate]. Qed.

(* accepted grouped spellings: (groups, min digits, max digits, separator, digits per word) *)
Definition groups48 : list (nat * nat * nat * ascii * nat) :=
  [(6, 1, 2, ":"%char, 2); (6, 1, 2, "-"%char, 2);
   (3, 1, 4, ":"%char, 4); (3, 1, 4, "-"%char, 4); (3, 1, 4, "."%char, 4);
   (2, 5, 6, "-"%char, 6); (2, 5, 6, ":"%char, 6)]%nat.
Definition groups64 : list (nat * nat * nat * ascii * nat) :=
  [(8, 1, 2, ":"%char, 2); (8, 1, 2, "-"%char, 2);
   (4, 1, 4, ":"%char, 4); (4, 1, 4, "-"%char, 4); (4, 1, 4, "."%char, 4)]%nat.

Ltac explode_toks toks Hlen :=
  repeat (destruct toks as [|?t toks]; cbn [length] in Hlen; [try discriminate Hlen | try discriminate Hlen]).

(* evaluate `first_abs` on a concrete separator and token count, keeping the length test abstract *)
Ltac eval_first Hlen Hok :=
  match goal with |- context [first_abs ?ps ?sep (length ?toks) ?f] =>
    let okf := fresh "okf" in
    let Hok' := fresh "Hok'" in
    set (okf := f) in *;
    match type of Hok with forallb (len_ok ?lo ?hi) _ = true => assert (Hok' : okf lo hi = true) by exact Hok end;
    clearbody okf; rewrite Hlen;
    match goal with |- context [first_abs ps sep ?n okf] =>
      let r := eval vm_compute in (first_abs ps sep n okf) in change (first_abs ps sep n okf) with r end;
    rewrite ?Hok'; cbv iota; clear Hok' okf
  end.

Lemma str_to_int_48_groups n lo hi sep k toks : In (n, lo, hi, sep, k) groups48 ->
  length toks = n -> Forall (tok_ok lo hi) toks ->
  str_to_int_48 (BStr (spell sep toks)) = Ok (from_digits (16 ^ Z.of_nat k) (map hexval toks)).
Proof.
  intros Hin Hlen HF. pose proof (tok_ok_forallb _ _ _ HF) as Hok. pose proof (tok_ok_hexs _ _ _ HF) as Hh.
  assert (Hne : toks <> []) by (intros ->; cbn in Hlen; cbn in Hin; intuition congruence).
  unfold str_to_int_48.
  cbn in Hin; destruct Hin as [E|[E|[E|[E|[E|[E|[E|[]]]]]]]]; injection E as E1 E2 E3 E4 E5; subst n lo hi sep k;
    (rewrite first_match_spell by (first [exact mac_pats_ok | exact good_colon | exact good_minus | exact good_dot | assumption]));
    match type of HF with Forall (tok_ok ?lo ?hi) _ =>
      let H1 := fresh in assert (H1 : (1 <= lo)%nat) by lia;
      pose proof (tok_ok_parse lo hi hi toks H1 (Nat.le_refl hi) HF) as Hp; clear H1 end;
    eval_first Hlen Hok;
    explode_toks toks Hlen; cbn [map]; cbv iota;
    match goal with |- hexjoin ?k ?l = _ => 
      match goal with Hp : Forall _ ?tl |- _ => change l with (map str_of tl) end end;
    apply hexjoin_tokens; try lia; try discriminate; exact Hp.
Qed.

(* the EUI-48 patterns reject every grouped EUI-64 spelling *)
Lemma mac_rejects_64_groups n lo hi sep k toks : In (n, lo, hi, sep, k) groups64 ->
  length toks = n -> Forall (tok_ok lo hi) toks -> first_match mac_pats (chars (spell sep toks)) = None.
Proof.
  intros Hin Hlen HF. pose proof (tok_ok_forallb _ _ _ HF) as Hok. pose proof (tok_ok_hexs _ _ _ HF) as Hh.
  assert (Hne : toks <> []) by (intros ->; cbn in Hlen; cbn in Hin; intuition congruence).
  cbn in Hin; destruct Hin as [E|[E|[E|[E|[E|[]]]]]]; injection E as E1 E2 E3 E4 E5; subst n lo hi sep k;
    (rewrite first_match_spell by (first [exact mac_pats_ok | exact good_colon | exact good_minus | exact good_dot | assumption]));
    eval_first Hlen Hok; reflexivity.
Qed.

Lemma str_to_int_64_groups n lo hi sep k toks : In (n, lo, hi, sep, k) groups64 ->
  length toks = n -> Forall (tok_ok lo hi) toks ->
  str_to_int_64 (BStr (spell sep toks)) = Ok (from_digits (16 ^ Z.of_nat k) (map hexval toks)).
Proof.
  intros Hin Hlen HF. pose proof (tok_ok_forallb _ _ _ HF) as Hok. pose proof (tok_ok_hexs _ _ _ HF) as Hh.
  assert (Hne : toks <> []) by (intros ->; cbn in Hlen; cbn in Hin; intuition congruence).
  unfold str_to_int_64.
  cbn in Hin; destruct Hin as [E|[E|[E|[E|[E|[]]]]]]; injection E as E1 E2 E3 E4 E5; subst n lo hi sep k;
    (rewrite first_match_spell by (first [exact eui64_pats_ok | exact good_colon | exact good_minus | exact good_dot | assumption]));
    match type of HF with Forall (tok_ok ?lo ?hi) _ =>
      let H1 := fresh in assert (H1 : (1 <= lo)%nat) by lia;
      pose proof (tok_ok_parse lo hi hi toks H1 (Nat.le_refl hi) HF) as Hp; clear H1 end;
    eval_first Hlen Hok;
    explode_toks toks Hlen; cbn [map]; cbv iota;
    match goal with |- hexjoin ?k ?l = _ =>
      match goal with Hp : Forall _ ?tl |- _ => change l with (map str_of tl) end end;
    apply hexjoin_tokens; try lia; try discriminate; exact Hp.
Qed.

(* ---- bare spellings: one token of exactly 12 / 11 / 16 hex digits ---- *)
Lemma spell_single sep t : spell sep [t] = str_of t.
Proof. reflexivity. Qed.

Lemma bare_first_match ps t : Forall pat_sep_ok ps -> hexs t ->
  first_match ps (chars (str_of t)) =
    if first_abs ps ":"%char 1 (fun lo hi => forallb (len_ok lo hi) [t]) then Some [str_of t] else None.
Proof.
  intros Hps Ht. rewrite <- (spell_single ":"%char t). rewrite first_match_spell; try assumption.
  - reflexivity.
  - exact good_colon.
  - discriminate.
  - constructor; [exact Ht|constructor].
Qed.

Lemma int16_bare k t : t <> [] -> hexs t -> (do v <- int16 (str_of t); int16 (fmt_x_pad k v)) = Ok (hexval t).
Proof.
  intros Hne Ht. rewrite int16_tok by assumption. cbn [bind]. apply int16_xpad. apply hexval_range. exact Ht.
Qed.

Lemma len_ok_eq k t : length t = k -> len_ok k k t = true.
Proof. intros <-. unfold len_ok. rewrite Nat.leb_refl. reflexivity. Qed.
Lemma len_ok_ne lo hi t : ~ (lo <= length t <= hi)%nat -> len_ok lo hi t = false.
Proof.
  intros H. unfold len_ok. destruct (Nat.leb_spec lo (length t)); destruct (Nat.leb_spec (length t) hi); try reflexivity. lia.
Qed.

Lemma str_to_int_48_bare t : hexs t -> (length t = 12 \/ length t = 11)%nat ->
  str_to_int_48 (BStr (str_of t)) = Ok (hexval t).
Proof.
  intros Ht HL. assert (Hne : t <> []) by (intros ->; cbn in HL; lia).
  unfold str_to_int_48. rewrite bare_first_match by (try exact mac_pats_ok; assumption).
  cbn [first_abs mac_pats shape_abs forallb]. 
  replace (ascii_eqb ":" ":") with true by reflexivity. replace (ascii_eqb "-" ":") with false by reflexivity.
  replace (ascii_eqb "." ":") with false by reflexivity. cbn [Nat.eqb andb].
  destruct HL as [HL|HL].
  - rewrite (len_ok_eq 12 t HL). cbn [andb]. apply int16_bare; assumption.
  - rewrite (len_ok_ne 12 12 t) by lia. rewrite (len_ok_eq 11 t HL). cbn [andb]. apply int16_bare; assumption.
Qed.

Lemma mac_rejects_bare16 t : hexs t -> length t = 16%nat -> first_match mac_pats (chars (str_of t)) = None.
Proof.
  intros Ht HL. rewrite bare_first_match by (try exact mac_pats_ok; assumption).
  cbn [first_abs mac_pats shape_abs forallb].
  replace (ascii_eqb ":" ":") with true by reflexivity. replace (ascii_eqb "-" ":") with false by reflexivity.
  replace (ascii_eqb "." ":") with false by reflexivity. cbn [Nat.eqb andb].
  rewrite (len_ok_ne 12 12 t), (len_ok_ne 11 11 t) by lia. reflexivity.
Qed.

Lemma str_to_int_64_bare t : hexs t -> length t = 16%nat -> str_to_int_64 (BStr (str_of t)) = Ok (hexval t).
Proof.
  intros Ht HL. assert (Hne : t <> []) by (intros ->; cbn in HL; lia).
  unfold str_to_int_64. rewrite bare_first_match by (try exact eui64_pats_ok; assumption).
  cbn [first_abs eui64_pats shape_abs forallb].
  replace (ascii_eqb ":" ":") with true by reflexivity. replace (ascii_eqb "-" ":") with false by reflexivity.
  replace (ascii_eqb "." ":") with false by reflexivity. cbn [Nat.eqb andb].
  rewrite (len_ok_eq 16 t HL). cbn [andb]. apply int16_bare; assumption.
Qed.

(* ---- from str_to_int to the constructor ---- *)
Lemma init_implicit_48 s v : str_to_int_48 (BStr s) = Ok v ->
  eui_init (AStr s) None DNone = Ok {| ever := 48; evalue := v; edialect := mac_eui48 |}.
Proof. intros H. unfold eui_init, detect_version. cbn [base_of bind]. rewrite H. reflexivity. Qed.

Lemma str_to_int_48_nomatch s : first_match mac_pats (chars s) = None -> str_to_int_48 (BStr s) = Raise AddrFormatError.
Proof. intros H. unfold str_to_int_48. rewrite H. reflexivity. Qed.

Lemma init_implicit_64 s v : first_match mac_pats (chars s) = None -> str_to_int_64 (BStr s) = Ok v ->
  eui_init (AStr s) None DNone = Ok {| ever := 64; evalue := v; edialect := eui64_base |}.
Proof.
  intros H0 H. unfold eui_init, detect_version. cbn [base_of bind]. rewrite (str_to_int_48_nomatch s H0), H. reflexivity.
Qed.

Lemma init_explicit ver s v : wf_ver ver -> str_to_int ver (BStr s) = Ok v ->
  eui_init (AStr s) (Some ver) DNone = Ok {| ever := ver; evalue := v; edialect := default_dialect ver |}.
Proof.
  intros [-> | ->] H; unfold eui_init; cbn [Z.eqb Pos.eqb bind]; unfold set_value_ver; rewrite H; reflexivity.
Qed.

Lemma valid_of_str_to_int ver s v : wf_ver ver -> str_to_int ver (BStr s) = Ok v -> valid_str ver s = true.
Proof.
  intros [-> | ->]; unfold str_to_int, valid_str; cbn [Z.eqb Pos.eqb]; unfold str_to_int_48, str_to_int_64;
    destruct (first_match _ (chars s)); try reflexivity; discriminate.
Qed.

(* all observations of one accepted spelling *)
Definition parses_as (s : string) (ver v : Z) : Prop :=
  str_to_int ver (BStr s) = Ok v /\
  valid_str ver s = true /\
  eui_init (AStr s) None DNone = Ok {| ever := ver; evalue := v; edialect := default_dialect ver |} /\
  eui_init (AStr s) (Some ver) DNone = Ok {| ever := ver; evalue := v; edialect := default_dialect ver |}.

Lemma parses_48 s v : str_to_int_48 (BStr s) = Ok v -> parses_as s 48 v.
Proof.
  intros H. assert (H' : str_to_int 48 (BStr s) = Ok v) by exact H. repeat split.
  - exact H'.
  - apply (valid_of_str_to_int 48 s v); [left; reflexivity|exact H'].
  - apply init_implicit_48. exact H.
  - apply init_explicit; [left; reflexivity|exact H'].
Qed.

Lemma parses_64 s v : first_match mac_pats (chars s) = None -> str_to_int_64 (BStr s) = Ok v -> parses_as s 64 v.
Proof.
  intros H0 H. assert (H' : str_to_int 64 (BStr s) = Ok v) by exact H. repeat split.
  - exact H'.
  - apply (valid_of_str_to_int 64 s v); [right; reflexivity|exact H'].
  - apply init_implicit_64; assumption.
  - apply init_explicit; [right; reflexivity|exact H'].
Qed.

(* ---- the spelling theorems ---- *)
(* grouped forms: n tokens of lo..hi hex digits (any case) joined by sep; the value has the token values as its
   4k-bit words *)
Theorem spellings_grouped ver n lo hi sep k toks :
  (ver = 48 /\ In (n, lo, hi, sep, k) groups48) \/ (ver = 64 /\ In (n, lo, hi, sep, k) groups64) ->
  length toks = n -> Forall (tok_ok lo hi) toks ->
  parses_as (spell sep toks) ver (from_digits (16 ^ Z.of_nat k) (map hexval toks)).
Proof.
  intros [[-> Hin] | [-> Hin]] Hlen HF.
  - apply parses_48. eapply str_to_int_48_groups; eassumption.
  - apply parses_64.
    + eapply mac_rejects_64_groups; eassumption.
    + eapply str_to_int_64_groups; eassumption.
Qed.

(* bare forms: 12 or 11 hex digits (EUI-48), 16 hex digits (EUI-64) *)
Theorem spellings_bare t : hexs t ->
  ((length t = 12 \/ length t = 11)%nat -> parses_as (str_of t) 48 (hexval t)) /\
  (length t = 16%nat -> parses_as (str_of t) 64 (hexval t)).
Proof.
  intros Ht. split; intros HL.
  - apply parses_48. apply str_to_int_48_bare; assumption.
  - apply parses_64; [apply mac_rejects_bare16 | apply str_to_int_64_bare]; assumption.
Qed.
