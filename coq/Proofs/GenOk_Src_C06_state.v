(* Proofs/GenOk_Src_C06_state.v -- SRCA: source tie for C06, pickling.  The definitions regenerated from the text of
   netaddr/ip/sets.py (Gen/pysrc_sets_state_gen.v: IPSet.__getstate__, __setstate__) and of IPNetwork.__getstate__
   (netaddr/ip/__init__.py, Gen/pysrc_ctor_gen.v) equal the hand-written model Sets.set_getstate / set_setstate.
   A Python tuple of ints returned by a method is a Coq list ([value; prefixlen; version]); the model has triples.
   __setstate__ maps the range-checking constructor IPNetwork((value, prefixlen), version=version) over the state (a
   generator expression consumed at once by dict.fromkeys: py_map_o, the first exception wins), then builds the dict; the
   model builds the dict element by element from the right: equal because adding keys to a dict is idempotent
   (GenOk_Src_C20.union_of_list with the transitivity of key()).  No hypotheses. *)
From NV Require Import Base.Tac Base.PyVal Model.Ip Model.Span Model.Sets Model.SrcPrelude Model.SrcPreludeSets
  Gen.pysrc_ctor_gen Gen.pysrc_sets_state_gen Proofs.C02 Proofs.GenOk_Src_C20.
From NV Require Proofs.NetDen Proofs.C06_inv.
Import ListNotations.
Open Scope Z_scope.

Definition state_list (t : Z * Z * Z) : list Z := [fst (fst t); snd (fst t); snd t].

Lemma src_getstate_ok d : src_IPSet_getstate d = map state_list (set_getstate d).
Proof. unfold src_IPSet_getstate, set_getstate. rewrite map_map. reflexivity. Qed.

Lemma dfromkeys_again l s : fold_left dset (fold_left dset l []) s = fold_left dset l s.
Proof. exact (union_of_list key_eqb C06_inv.key_eqb_trans s l). Qed.

Lemma src_setstate_map st :
  set_setstate st = omap dfromkeys (py_map_o (fun '(value, prefixlen, version) => mk_net version value prefixlen) st).
Proof.
  induction st as [|[[v p] ver] r IH]; [reflexivity|]. cbn [set_setstate py_map_o].
  assert (E : mk_net ver v p = (if valid_ver ver then Span.net_of_tuple width ver v p else Raise ValueError)).
  { unfold mk_net, Span.net_of_tuple, max_int. destruct (valid_ver ver); reflexivity. }
  rewrite E, IH. destruct (if valid_ver ver then Span.net_of_tuple width ver v p else Raise ValueError) as [n|]; [|reflexivity].
  cbn [bind]. destruct (py_map_o _ r) as [ns|]; [|reflexivity]. cbn [omap bind]. f_equal.
  unfold dfromkeys. cbn [fold_left]. apply dfromkeys_again.
Qed.

Lemma src_setstate_ok d0 st : src_IPSet_setstate d0 st = set_setstate st.
Proof.
  unfold src_IPSet_setstate. rewrite src_setstate_map.
  destruct (py_map_o (fun '(value, prefixlen, version) => mk_net version value prefixlen) st); reflexivity.
Qed.

Lemma C06_state_tie_ok :
  (forall d, src_IPSet_getstate d = map state_list (set_getstate d)) /\
  (forall d0 st, src_IPSet_setstate d0 st = set_setstate st) /\
  (forall ver w v p, src_IPNetwork_getstate ver w v p = [v; p; ver]).
Proof. split; [exact src_getstate_ok|]. split; [exact src_setstate_ok|reflexivity]. Qed.
